import QProofs.KernelSigMode
/-!
# Kernel signatures (C01b): the bit widths of the parameter objects of every request side

`Bits.generate_bits`: under a recipe state without `skip_checks` rules, every side of every entry of the
result dictionary of `Mat.generate` that carries a UNIFORM parameter object has 8 or 16 bits -- the widths
of the activation configs of the policy --, unless its tensor is a CONSTANT, in which case it may have 4 bits
(a 4-bit weight config), or the side is `[QUANTIZE_TENSOR]` (a bias: 32 / 64 bits).  In particular a side
`[ADD_QUANTIZE]` / `[ADD_DEQUANTIZE]` never carries 32- or 64-bit parameters, and a side on a runtime tensor
never carries 4-bit parameters.  (Instance of the generic rule `TypingShape.generate_sides`.)
-/
open Graph Mat Cfg Pipe Locality PipeNF

set_option autoImplicit false

namespace KernelSig.Bits

/-- the tensor named `n` of `sg` holds constant data -/
def ConstNamed (env : Env) (sg : Subgraph) (n : String) : Prop :=
  ∃ t ∈ sg.tensors, t.name = n ∧ (constData env t).isSome = true

/-- a request side, relative to one subgraph -/
def SideS (env : Env) (sg : Subgraph) (n : String) (c : CO2T) : Prop :=
  ∀ qp d, c.param = some (.uniform qp d) →
    qp.bits = 8 ∨ qp.bits = 16 ∨ (ConstNamed env sg n ∧ (qp.bits = 4 ∨ c.xfs = [.quantTensor]))

abbrev RBits (env : Env) (sg : Subgraph) (r : CReq) : Prop := TypingShape.RSides (SideS env sg) (SideS env sg) r

/-- an activation-width parameter object -/
def AB (q : Param) : Prop := ∀ qp d, q = .uniform qp d → qp.bits = 8 ∨ qp.bits = 16

/-- a parameter object for tensor `t`: activation width, or 4 bits on a constant -/
def WB (env : Env) (t : Tensor) (q : Param) : Prop :=
  ∀ qp d, q = .uniform qp d → qp.bits = 8 ∨ qp.bits = 16 ∨ ((constData env t).isSome = true ∧ qp.bits = 4)

/-- the widths of the configs the policy accepts (and of the float-casting config) -/
def LegalBits (c : OpCfg) : Prop :=
  (∀ a, c.act = some a → a.bits = 8 ∨ a.bits = 16) ∧
  (∀ w, c.weight = some w → w.bits = 4 ∨ w.bits = 8 ∨ w.bits = 16)

theorem legalBits_of_modeOK (k : String) (c : OpCfg) (h : C13.modeOK k c = true) : LegalBits c := by
  unfold C13.modeOK at h
  cases hw : c.weight with
  | none => rw [hw] at h; cases h
  | some w =>
    rw [hw] at h
    cases hcp : c.cp <;> cases ha : c.act <;> simp only [hcp, ha, Bool.and_eq_true, Bool.or_eq_true, beq_iff_eq,
      bne_iff_ne, ne_eq, Bool.not_eq_true', Bool.and_false, Bool.false_eq_true] at h
    · refine ⟨?_, ?_⟩
      · intro a h'; rw [ha] at h'; cases h'
      · intro w' hw'
        rw [hw] at hw'
        cases hw'
        rcases h.1.1.1.1.2 with hb | hb
        · exact .inl hb
        · exact .inr (.inl hb)
    · rename_i a
      refine ⟨?_, ?_⟩
      · intro a' ha'
        rw [ha] at ha'
        cases ha'
        exact h.2.1.1.1.1.2
      · intro w' hw'
        rw [hw] at hw'
        cases hw'
        rcases h.1.1.1.1.2 with hb | hb
        · exact .inl hb
        · exact .inr (.inl hb)
    · refine ⟨?_, ?_⟩
      · intro a h'; rw [ha] at h'; cases h'
      · intro w' hw'
        rw [hw] at hw'
        cases hw'
        rcases h.1.1.1.1.2 with hb | hb
        · exact .inl hb
        · exact .inr (.inl hb)

theorem rbits_noQuantReq (env : Env) (sg : Subgraph) (n : String) (o : Int) (b : Bool) : RBits env sg (noQuantReq n o b) := by
  cases b
  · refine ⟨?_, fun cs c h => (by cases h)⟩
    intro p hp
    cases hp
    intro qp d h
    cases h
  · refine ⟨fun p h => (by cases h), ?_⟩
    intro cs c hcs hc
    cases hcs
    rw [List.mem_singleton.1 hc]
    intro qp d h
    cases h

/-- a single-side request for tensor `t` whose parameter has a width for `t` -/
theorem rbits_mkReq (env : Env) (sg : Subgraph) (t : Tensor) (ht : t ∈ sg.tensors) (oi : OpInfo) (b : Bool)
    (p : Option Param) (isC : Bool) (r : CReq) (h : mkReq t.name oi b p isC = .ok r)
    (hp : ∀ q, p = some q → WB env t q) : RBits env sg r := by
  obtain ⟨xfs, -, hr⟩ := mkReq_spec t.name oi b p isC r h
  subst hr
  have key : SideS env sg t.name ⟨oi.opId, xfs, p⟩ := by
    intro qp d hq
    rcases hp _ hq qp d rfl with h1 | h1 | ⟨h1, h2⟩
    · exact .inl h1
    · exact .inr (.inl h1)
    · exact .inr (.inr ⟨⟨t, ht, rfl, h1⟩, .inl h2⟩)
  cases b
  · refine ⟨?_, fun cs c h => (by cases h)⟩
    intro q hq
    simp only [Bool.false_eq_true, if_false, Option.some.injEq] at hq
    subst hq
    exact key
  · refine ⟨fun q h => (by cases h), ?_⟩
    intro cs c hcs hc
    simp only [if_true, Option.some.injEq] at hcs
    subst hcs
    rw [List.mem_singleton.1 hc]
    exact key

/-- **the parameter of a request made by `wrapper`**: of the width of the tensor config in force, or the
    handed one -/
theorem wrapper_bits (env : Env) (qs : Qsvs) (oi : OpInfo) (hL : LegalBits oi.cfg) (t : Tensor) (inbound : Bool)
    (g : Option Param) (hg : ∀ q, g = some q → AB q)
    (r : CReq) (h : wrapper env qs oi t inbound g = .ok r) :
    ∃ p isC, mkReq t.name oi inbound p isC = .ok r ∧ ∀ q, p = some q → WB env t q := by
  cases g with
  | none =>
    rcases (MatParams.wrapper_none_ok_iff env qs oi t inbound r).1 h with ⟨-, h1⟩ |
      ⟨tc, mn, mx, qdim, qp, dat, h0, -, -, h2, -, h4⟩
    · exact ⟨none, _, h1, fun q hq => by cases hq⟩
    · refine ⟨_, _, h4, ?_⟩
      intro q hq qp' d' hqq
      cases hq
      cases hqq
      have hb := TypingSrq.refParams_bits _ _ _ _ _ _ h2
      unfold MatParams.tcfgOf at h0
      split at h0
      · rename_i hc
        simp only [Bool.and_eq_true] at hc
        rcases hL.2 tc h0 with h | h | h
        · exact .inr (.inr ⟨hc.1, by rw [hb, h]; rfl⟩)
        · exact .inl (by rw [hb, h]; rfl)
        · exact .inr (.inl (by rw [hb, h]; rfl))
      · rcases hL.1 tc h0 with h | h
        · exact .inl (by rw [hb, h]; rfl)
        · exact .inr (.inl (by rw [hb, h]; rfl))
  | some q0 =>
    rw [MatParams.wrapper_given_eq] at h
    have hq0 := hg q0 rfl
    have plain : mkReq t.name oi inbound (some q0) (constData env t).isSome = .ok r →
        ∃ p isC, mkReq t.name oi inbound p isC = .ok r ∧ ∀ q, p = some q → WB env t q := by
      intro h
      refine ⟨_, _, h, ?_⟩
      intro q hq qp' d' hqq
      cases hq
      rcases hq0 qp' d' hqq with h1 | h1
      · exact .inl h1
      · exact .inr (.inl h1)
    cases q0 with
    | nonlinear b dd => exact plain h
    | uniform qp dd =>
      cases dd with
      | some v => exact plain h
      | none =>
        cases hd : constData env t with
        | none => rw [hd] at h; exact plain (by rw [hd]; exact h)
        | some dat =>
          rw [hd] at h
          simp only at h
          cases hq : Arith.uniformQuantize ⟨dat, .f32⟩ qp with
          | error e => rw [hq] at h; cases h
          | ok qq =>
            rw [hq] at h
            refine ⟨_, _, h, ?_⟩
            intro q hq' qp' d' hqq
            cases hq'
            cases hqq
            rcases hq0 qp none rfl with h1 | h1
            · exact .inl h1
            · exact .inr (.inl h1)

theorem wrapper_rbits (env : Env) (sg : Subgraph) (qs : Qsvs) (oi : OpInfo) (hL : LegalBits oi.cfg) (t : Tensor)
    (ht : t ∈ sg.tensors) (b : Bool) (g : Option Param) (hg : ∀ q, g = some q → AB q)
    (r : CReq) (h : wrapper env qs oi t b g = .ok r) : RBits env sg r := by
  obtain ⟨p, isC, hp, hu⟩ := wrapper_bits env qs oi hL t b g hg r h
  exact rbits_mkReq env sg t ht oi b p isC r hp hu

/-- the parameter of a request made by `wrapper … none` for an operator WITHOUT weight config has an
    activation width -/
theorem wrapper_none_ab (env : Env) (qs : Qsvs) (oi : OpInfo) (hL : LegalBits oi.cfg)
    (hnw : Tables.woOps.contains oi.opName = false ∧ Tables.drqOps.contains oi.opName = false)
    (t : Tensor) (b : Bool) (r : CReq) (h : wrapper env qs oi t b none = .ok r) :
    (∀ pr q, r.producer = some pr → pr.param = some q → AB q) ∧
    (∀ cs c q, r.consumers = some cs → c ∈ cs → c.param = some q → AB q) := by
  have key : ∃ p isC, mkReq t.name oi b p isC = .ok r ∧ ∀ q, p = some q → AB q := by
    rcases (MatParams.wrapper_none_ok_iff env qs oi t b r).1 h with ⟨-, h1⟩ |
      ⟨tc, mn, mx, qdim, qp, dat, h0, -, -, h2, -, h4⟩
    · exact ⟨none, _, h1, fun q hq => by cases hq⟩
    · refine ⟨_, _, h4, ?_⟩
      intro q hq qp' d' hqq
      cases hq
      cases hqq
      have hb := TypingSrq.refParams_bits _ _ _ _ _ _ h2
      rw [TypingSrq.tcfgOf_noWo env oi t hnw] at h0
      rcases hL.1 tc h0 with h | h
      · exact .inl (by rw [hb, h]; rfl)
      · exact .inr (by rw [hb, h]; rfl)
  obtain ⟨p, isC, hp, hu⟩ := key
  obtain ⟨xfs, -, hr⟩ := mkReq_spec t.name oi b p isC r hp
  subst hr
  cases b
  · refine ⟨?_, fun cs c q h => (by cases h)⟩
    intro pr q hpr hq
    simp only [Bool.false_eq_true, if_false, Option.some.injEq] at hpr
    subst hpr
    exact hu q hq
  · refine ⟨fun pr q h => (by cases h), ?_⟩
    intro cs c q hcs hc hq
    simp only [if_true, Option.some.injEq] at hcs
    subst hcs
    rw [List.mem_singleton.1 hc] at hq
    exact hu q hq

theorem stripData_ab (p0 : Option Param) (h : ∀ q, p0 = some q → AB q) : ∀ q, stripData p0 = some q → AB q := by
  intro q hq
  cases p0 with
  | none => cases hq
  | some q0 =>
    have h0 := h q0 rfl
    cases q0 with
    | nonlinear b d => cases hq; exact h0
    | uniform qp d =>
      cases d with
      | none => cases hq; exact h0
      | some v =>
        cases hq
        intro qp' d' hqq
        cases hqq
        exact h0 qp (some v) rfl

/-- **`standardOp`** (a constrained operator has no weight config) -/
theorem standardOp_bits (env : Env) (sg : Subgraph) (qs : Qsvs) (oi : OpInfo) (hL : LegalBits oi.cfg)
    (con : Constraint) (gIn gOut : List Nat)
    (hcon : con ≠ .none → Tables.woOps.contains oi.opName = false ∧ Tables.drqOps.contains oi.opName = false) :
    AllReqs (RBits env sg) (standardOp env sg qs oi con gIn gOut) := by
  intro rs q h
  obtain ⟨inIgn, outIgn, rin, rout, g, gO, hI, hO, hrs, hin, hout, hg, hgO⟩ :=
    standardOp_shape env sg qs oi con gIn gOut rs q h
  have hgu : ∀ q, g = some q → AB q := by
    rcases hg with rfl | ⟨hc, p, -, t, orq, -, -, hw, rfl⟩
    · intro q hq; cases hq
    · intro q hq
      have hnw := hcon (by rw [hc]; intro h; cases h)
      cases hpr : orq.producer with
      | none => rw [hpr] at hq; cases hq
      | some pr =>
        rw [hpr] at hq
        exact (wrapper_none_ab env qs oi hL hnw t false orq hw).1 pr q hpr hq
  have hgOu : ∀ q, gO = some q → AB q := by
    rcases hgO with rfl | ⟨hc, p, -, t, ir, p0, -, -, hw, hp0, rfl⟩
    · intro q hq; cases hq
    · have hnw := hcon (by rw [hc]; intro h; cases h)
      refine stripData_ab p0 ?_
      intro q hq
      subst hq
      obtain ⟨cs, c, hcs, hc', hcp⟩ := reqParam0_mem ir _ hp0
      exact (wrapper_none_ab env qs oi hL hnw t true ir hw).2 cs c q hcs hc' hcp.symm
  have key : ∀ (b : Bool) (ign : List Nat) (g : Option Param), (∀ q, g = some q → AB q) →
      ∀ p r, SlotReq env sg qs oi b ign g p r → RBits env sg r := by
    intro b ign g hgu p r hs
    obtain ⟨t, ht, hr⟩ := hs
    split at hr
    · rw [hr]; exact rbits_noQuantReq env sg _ _ _
    · exact wrapper_rbits env sg qs oi hL t (Locality.tensorAt_mem sg p.1 t ht) b g hgu r hr
  intro r hr
  rw [hrs] at hr
  rcases List.mem_append.1 hr with hr | hr
  · obtain ⟨p, -, hsr⟩ := hin.mem_right hr
    exact key _ _ _ hgu p r hsr
  · obtain ⟨p, -, hsr⟩ := hout.mem_right hr
    exact key _ _ _ hgOu p r hsr

theorem noQuantOp_bits (env : Env) (sg : Subgraph) (op : Op) (opId : Int) (rs : List CReq)
    (h : noQuantOp sg op opId = .ok rs) : ∀ r ∈ rs, RBits env sg r := by
  unfold noQuantOp at h
  obtain ⟨ins, hins, h⟩ := GraphInv.bind_ok _ _ _ h
  obtain ⟨outs, houts, h⟩ := GraphInv.bind_ok _ _ _ h
  simp only [pure, Except.pure, Except.ok.injEq] at h
  subst h
  intro r hr
  rcases List.mem_append.1 hr with hr | hr
  · obtain ⟨a, _, hf⟩ := GraphFrame.mapM_ok _ _ _ hins r hr
    obtain ⟨t, ht, hf⟩ := GraphInv.bind_ok _ _ _ hf
    simp only [pure, Except.pure, Except.ok.injEq] at hf
    rw [← hf]; exact rbits_noQuantReq env sg _ _ _
  · obtain ⟨a, _, hf⟩ := GraphFrame.mapM_ok _ _ _ houts r hr
    obtain ⟨t, ht, hf⟩ := GraphInv.bind_ok _ _ _ hf
    simp only [pure, Except.pure, Except.ok.injEq] at hf
    rw [← hf]; exact rbits_noQuantReq env sg _ _ _

theorem fixedParams_bits (sl : Bool) (b : Nat) (fp : Arith.QParams) (h : fixedParams sl b = some fp) : fp.bits = b := by
  unfold fixedParams at h
  simp only at h
  repeat' split at h
  all_goals first | (cases h; done) | (cases h; rfl)

theorem fixPost_bits (env : Env) (sg : Subgraph) (oi : OpInfo) (hL : LegalBits oi.cfg) (b : Bool) (reqs : List CReq)
    (q : Qsvs) (hreqs : ∀ r ∈ reqs, RBits env sg r) (rs : List CReq) (q' : Qsvs)
    (h : fixPost oi b (reqs, q) = .ok (rs, q')) : ∀ r ∈ rs, RBits env sg r := by
  unfold fixPost at h
  simp only [] at h
  split at h
  · rename_i last a hlast hact
    have hlastS : RBits env sg last := hreqs last (List.mem_of_getLast? hlast)
    split at h
    · simp only [pure, Except.pure, Except.ok.injEq, Prod.mk.injEq] at h
      obtain ⟨rfl, rfl⟩ := h
      exact hreqs
    · rename_i pr hpr
      split at h
      · cases h
      · rename_i fp hfp
        obtain ⟨mm, hmm, h⟩ := GraphInv.bind_ok _ _ _ h
        split at h
        · cases h
        · simp only [pure, Except.pure, Except.ok.injEq, Prod.mk.injEq] at h
          obtain ⟨rfl, rfl⟩ := h
          intro r hr
          rcases List.mem_append.1 hr with hr | hr
          · exact hreqs r (List.dropLast_subset _ hr)
          · rw [List.mem_singleton.1 hr]
            refine ⟨?_, hlastS.2⟩
            intro p hp
            simp only [Option.some.injEq] at hp
            subst hp
            intro qp d hq
            simp only [Option.some.injEq, Param.uniform.injEq] at hq
            obtain ⟨rfl, -⟩ := hq
            have hb := fixedParams_bits _ _ _ hfp
            rcases hL.1 a hact with h8 | h16
            · exact .inl (by rw [hb, h8]; rfl)
            · exact .inr (.inl (by rw [hb, h16]; rfl))
  · simp only [pure, Except.pure, Except.ok.injEq, Prod.mk.injEq] at h
    obtain ⟨rfl, rfl⟩ := h
    exact hreqs

theorem floatCastOp_bits (env : Env) (sg : Subgraph) (oi : OpInfo) (iIn iW iB : Nat) (rs : List CReq)
    (h : floatCastOp env sg oi iIn iW iB = .ok rs) : ∀ r ∈ rs, RBits env sg r := by
  unfold floatCastOp at h
  simp only [] at h
  obtain ⟨sIn, hsIn, h⟩ := GraphInv.bind_ok _ _ _ h
  obtain ⟨tin, htin, h⟩ := GraphInv.bind_ok _ _ _ h
  obtain ⟨sW, hsW, h⟩ := GraphInv.bind_ok _ _ _ h
  obtain ⟨tw, htw, h⟩ := GraphInv.bind_ok _ _ _ h
  obtain ⟨sOut, hsOut, h⟩ := GraphInv.bind_ok _ _ _ h
  obtain ⟨tout, htout, h⟩ := GraphInv.bind_ok _ _ _ h
  obtain ⟨wd, hwd, h⟩ := GraphInv.bind_ok _ _ _ h
  obtain ⟨hh, _, h⟩ := GraphInv.bind_ok _ _ _ h
  have hw : RBits env sg ⟨tw.name, none,
      some [(⟨oi.opId, [.addDequant], some (Param.nonlinear 16 (some ⟨wd.shape, hh⟩))⟩ : CO2T)]⟩ := by
    refine ⟨fun p hp => (by cases hp), ?_⟩
    intro cs c hcs hc
    cases hcs
    rw [List.mem_singleton.1 hc]
    intro qp d hq
    cases hq
  have base : ∀ r ∈ [noQuantReq tin.name oi.opId true,
      (⟨tw.name, none, some [(⟨oi.opId, [.addDequant], some (Param.nonlinear 16 (some ⟨wd.shape, hh⟩))⟩ : CO2T)]⟩ : CReq),
      noQuantReq tout.name oi.opId false], RBits env sg r := by
    intro r hr
    simp only [List.mem_cons, List.not_mem_nil, or_false] at hr
    rcases hr with rfl | rfl | rfl
    · exact rbits_noQuantReq env sg _ _ _
    · exact hw
    · exact rbits_noQuantReq env sg _ _ _
  split at h
  · split at h
    · obtain ⟨tb, htb, h⟩ := GraphInv.bind_ok _ _ _ h
      simp only [pure, Except.pure, Except.ok.injEq] at h
      subst h
      intro r hr
      rcases List.mem_append.1 hr with hr | hr
      · exact base r hr
      · rw [List.mem_singleton.1 hr]; exact rbits_noQuantReq env sg _ _ _
    · simp only [pure, Except.pure, Except.ok.injEq] at h
      subst h
      exact base
  · simp only [pure, Except.pure, Except.ok.injEq] at h
    subst h
    exact base

theorem tensorXfs_srq_const (c : OpCfg) (h : isSRQ c = true) : tensorXfs c true true = .ok [.quantTensor] := by
  unfold isSRQ at h
  unfold tensorXfs
  rw [if_pos h]
  rfl

/-- the bias request: `[QUANTIZE_TENSOR]` on a constant under a static-range config, without parameters
    otherwise -/
theorem biasFor_bits (env : Env) (sg : Subgraph) (oi : OpInfo) (reqs rs : List CReq) (iIn iW iB : Nat)
    (hreqs : ∀ r ∈ reqs, RBits env sg r)
    (h : biasFor env sg oi reqs iIn iW iB = .ok rs) : ∀ r ∈ rs, RBits env sg r := by
  unfold biasFor at h
  split at h
  · simp only [pure, Except.pure, Except.ok.injEq] at h; subst h; exact hreqs
  · rename_i bslot hb
    split at h
    · simp only [pure, Except.pure, Except.ok.injEq] at h; subst h; exact hreqs
    · obtain ⟨bt, hbt, h⟩ := GraphInv.bind_ok _ _ _ h
      have hbtm : bt ∈ sg.tensors := Locality.tensorAt_mem sg _ bt hbt
      have fin : ∀ bp, (∀ q, bp = some q → isSRQ oi.cfg = true ∧ (constData env bt).isSome = true) →
          (mkReq bt.name oi true bp (isSRQ oi.cfg) >>= fun r =>
            if iB < reqs.length then pure (reqs.set iB r) else throw PyErr.indexError) = .ok rs →
          ∀ r ∈ rs, RBits env sg r := by
        intro bp hbp h
        obtain ⟨r, hr, h⟩ := GraphInv.bind_ok _ _ _ h
        split at h
        · simp only [pure, Except.pure, Except.ok.injEq] at h
          subst h
          intro r' hr'
          rcases mem_set_cases _ _ _ _ hr' with h | ⟨j, _, hj⟩
          · subst h
            obtain ⟨xfs, hx, hr''⟩ := mkReq_spec bt.name oi true bp _ r' hr
            subst hr''
            refine ⟨fun q h => (by cases h), ?_⟩
            intro cs c hcs hc
            simp only [if_true, Option.some.injEq] at hcs
            subst hcs
            rw [List.mem_singleton.1 hc]
            intro qp d hq
            obtain ⟨hs, hcd⟩ := hbp _ hq
            rw [hs, tensorXfs_srq_const _ hs] at hx
            cases hx
            exact .inr (.inr ⟨⟨bt, hbtm, rfl, hcd⟩, .inr rfl⟩)
          · exact hreqs r' (List.mem_of_getElem? hj)
        · cases h
      simp only [] at h
      split at h
      · rename_i hs
        split at h
        · obtain ⟨_, h', _⟩ := GraphInv.bind_ok _ _ _ h
          cases h'
        · rename_i bd hbd
          obtain ⟨pin, _, h⟩ := GraphInv.bind_ok _ _ _ h
          obtain ⟨pw, _, h⟩ := GraphInv.bind_ok _ _ _ h
          split at h
          · obtain ⟨bp, hbp, h⟩ := GraphInv.bind_ok _ _ _ h
            obtain ⟨qq, _, hbp⟩ := GraphInv.bind_ok _ _ _ hbp
            simp only [pure, Except.pure, Except.ok.injEq] at hbp
            subst hbp
            exact fin _ (fun q hq => ⟨hs, by rw [hbd]; rfl⟩) h
          · obtain ⟨_, h', _⟩ := GraphInv.bind_ok _ _ _ h
            cases h'
      · obtain ⟨bp, hbp, h⟩ := GraphInv.bind_ok _ _ _ h
        simp only [pure, Except.pure, Except.ok.injEq] at hbp
        subst hbp
        exact fin none (fun q hq => by cases hq) h

/-- **the request list of one (pseudo-)operator** under a recipe without `skip_checks` -/
theorem opReqs_bits (rx : String → String → Bool) (env : Env) (st : Recipe.State) (hns : MatTotal.NoSkip st)
    (s : Nat) (sg : Subgraph) (qs : Qsvs) (q : Op × Option String × Int) :
    AllReqs (RBits env sg) (opReqs rx env st s sg qs q) := by
  have nq : AllReqs (RBits env sg)
      (match noQuantOp sg q.1 q.2.2 with | .error e => .error e | .ok r => .ok (r, qs)) := by
    intro rs q' h
    cases hn : noQuantOp sg q.1 q.2.2 with
    | error e => rw [hn] at h; cases h
    | ok r =>
      rw [hn] at h
      simp only [Except.ok.injEq, Prod.mk.injEq] at h
      obtain ⟨rfl, rfl⟩ := h
      exact noQuantOp_bits env sg q.1 q.2.2 r hn
  unfold opReqs
  cases keyOf env q with
  | error e => exact AllReqs.error _
  | ok key =>
    cases key with
    | none => exact nq
    | some k =>
      simp only []
      cases opScope sg q.1 with
      | error e => exact AllReqs.error _
      | ok scope =>
        simp only []
        refine AllReqs.ite _ (fun _ => nq) (fun hne => ?_)
        have hne' : (Recipe.resolve rx st k scope).1 ≠ Tables.algNoQuantize := by simpa using hne
        obtain ⟨hgood, -⟩ := MatTotal.resolve_selected rx st hns k scope hne'
        generalize hcfg : (Recipe.resolve rx st k scope).2 = cfg at hgood ⊢
        generalize halg : (Recipe.resolve rx st k scope).1 = alg at hgood ⊢
        rcases hgood.alg with rfl | rfl
        · -- the min/max algorithm
          have hL := legalBits_of_modeOK k cfg (hgood.minmax rfl)
          rw [registry_minmax]
          simp only []
          cases hf : Py.dictGet? minmaxOps k with
          | none => exact AllReqs.error _
          | some fn =>
            simp only []
            intro rs q' h
            obtain ⟨con, gIn, rs0, q0, hstd, -, hcon, hcase⟩ := TypingSrq.materializeOp_minmax_cases env sg qs
              { sgIdx := s, op := q.1, opName := k, opId := q.2.2, cfg := cfg } fn rs q'
              (dictGet?_mem_key _ _ _ hf) h
            have h0 := standardOp_bits env sg qs { sgIdx := s, op := q.1, opName := k, opId := q.2.2, cfg := cfg }
              hL con gIn [] hcon rs0 q0 hstd
            rcases hcase with ⟨rfl, -⟩ | ⟨iIn, iB, -, -, -, -, -, hb, -⟩ | ⟨b, -, hfx, -⟩
            · exact h0
            · exact biasFor_bits env sg _ rs0 rs iIn 1 iB h0 hb
            · exact fixPost_bits env sg _ hL b rs0 q0 h0 rs q' hfx
        · -- float casting
          rw [registry_float]
          simp only []
          cases hf : Py.dictGet? floatOps k with
          | none => exact AllReqs.error _
          | some fn =>
            simp only []
            intro rs q' h
            rw [materializeOp] at h
            have hF : (Tables.algFloatCasting == Tables.algFloatCasting) = true := by decide
            rw [if_pos hF] at h
            split at h
            · obtain ⟨r0, hr', h⟩ := GraphInv.bind_ok _ _ _ h
              simp only [pure, Except.pure, Except.ok.injEq, Prod.mk.injEq] at h
              obtain ⟨rfl, -⟩ := h
              exact floatCastOp_bits env sg _ _ _ _ r0 hr'
            · split at h
              · obtain ⟨r0, hr', h⟩ := GraphInv.bind_ok _ _ _ h
                simp only [pure, Except.pure, Except.ok.injEq, Prod.mk.injEq] at h
                obtain ⟨rfl, -⟩ := h
                exact floatCastOp_bits env sg _ _ _ _ r0 hr'
              · cases h

/-! ## the result dictionary -/

/-- a side of an entry of the result dictionary -/
def Side (env : Env) (n : String) (c : CO2T) : Prop := ∃ sg ∈ env.model.subgraphs, SideS env sg n c

/-- **every side of every entry of the result dictionary** -/
theorem generate_bits (rx : String → String → Bool) (env : Env) (st : Recipe.State) (hns : MatTotal.NoSkip st)
    (init qs : Qsvs) (res : List (String × CReq))
    (hfold : env.model.subgraphs.zipIdx.foldlM (sgStep rx env st) (init, []) = .ok (qs, res)) :
    TypingShape.DSides (Side env) (Side env) res := by
  refine TypingShape.generate_sides (Side env) (Side env) rx env st init qs res ?_ hfold
  intro s sg hsg q _ qs0 rs qs1 h r hr
  have hm : sg ∈ env.model.subgraphs := List.mem_of_getElem? hsg
  obtain ⟨h1, h2⟩ := opReqs_bits rx env st hns s sg qs0 q rs qs1 h r hr
  exact ⟨fun p hp => ⟨sg, hm, h1 p hp⟩, fun cs c hcs hc => ⟨sg, hm, h2 cs c hcs hc⟩⟩

end KernelSig.Bits
