import QProofs.ConstBytes
import QProofs.MatParams
/-!
# `uniform_quantize` element by element, and the stored bytes of its result

* broadcasting lemmas (`bindex_self`, `Into`, `bshape_of_into`);
* `uniformQuantize_spec`: every code is the scalar core `quantize1` on the element and on the scale /
  zero point of the element's channel, whatever the (rank-fixed) shape of the parameters;
* every code is a value of its storage type, and a 4-bit value when `bits ≤ 4`;
* `quantized_bytes`: the stored bytes of `uniform_quantize(x, qp)` have the length implied by the
  result's shape and the tensor type of `qp.bits`, and decode to exactly the codes.
-/
open Graph Mat Arith Cfg Num Nd Bytes ConstBytes MatParams

set_option autoImplicit false

namespace ConstQuant

open GraphInv (bind_ok)

/-! ## broadcasting -/

theorem padLeft_self (n : Nat) (s : List Nat) (h : n = s.length) : padLeft n s = s := by
  subst h; simp [padLeft]

/-- row-major index of the multi-index of `i` -/
theorem ravel_unravel : ∀ (s : List Nat) (i : Nat), i < numel s → ravel s (bproj s (unravel s i)) = i := by
  intro s
  induction s with
  | nil =>
    intro i hi
    rw [numel_nil] at hi
    simp only [ravel]
    omega
  | cons a rest ih =>
    intro i hi
    rw [numel_cons] at hi
    have hpos : 0 < numel rest := by
      rcases Nat.eq_zero_or_pos (numel rest) with h | h
      · rw [h, Nat.mul_zero] at hi; omega
      · exact h
    simp only [unravel, bproj, ravel]
    rw [ih _ (Nat.mod_lt _ hpos)]
    by_cases ha : a = 1
    · subst ha
      rw [if_pos rfl]
      have : i < numel rest := by omega
      rw [Nat.mod_eq_of_lt this]; omega
    · rw [if_neg ha]
      exact Nat.div_add_mod' i (numel rest)

theorem bindex_self (s : List Nat) (i : Nat) (hi : i < numel s) : bindex s s i = i := by
  unfold bindex
  simp only [padLeft_self _ _ rfl]
  exact ravel_unravel s i hi

/-- shape `ks` broadcasts INTO shape `rs` (same rank, every dimension is 1 or equal) -/
def Into (ks rs : List Nat) : Prop := List.Forall₂ (fun k r => k = 1 ∨ k = r) ks rs

theorem Into.length {ks rs : List Nat} (h : Into ks rs) : ks.length = rs.length := List.Forall₂.length_eq h

theorem Into.refl : ∀ (s : List Nat), Into s s
  | [] => List.Forall₂.nil
  | _ :: s => List.Forall₂.cons (.inr rfl) (Into.refl s)

theorem bshape_into : ∀ (a b rs : List Nat), bshape a b = some rs → Into a rs ∧ Into b rs := by
  intro a
  induction a with
  | nil =>
    intro b rs h
    cases b with
    | nil => simp only [bshape, Option.some.injEq] at h; subst h; exact ⟨.nil, .nil⟩
    | cons _ _ => simp [bshape] at h
  | cons x xs ih =>
    intro b rs h
    cases b with
    | nil => simp [bshape] at h
    | cons y ys =>
      simp only [bshape] at h
      cases hr : bshape xs ys with
      | none => rw [hr] at h; cases h
      | some r =>
        rw [hr] at h
        obtain ⟨i1, i2⟩ := ih ys r hr
        simp only [] at h
        by_cases hxy : x = y
        · rw [if_pos hxy] at h; cases h
          exact ⟨.cons (.inr rfl) i1, .cons (.inr hxy.symm) i2⟩
        · rw [if_neg hxy] at h
          by_cases hx : x = 1
          · rw [if_pos hx] at h; cases h
            exact ⟨.cons (.inl hx) i1, .cons (.inr rfl) i2⟩
          · rw [if_neg hx] at h
            by_cases hy : y = 1
            · rw [if_pos hy] at h; cases h
              exact ⟨.cons (.inr rfl) i1, .cons (.inl hy) i2⟩
            · rw [if_neg hy] at h; cases h

theorem bshape_of_into : ∀ (ks rs : List Nat), Into ks rs → bshape rs ks = some rs := by
  intro ks rs h
  induction h with
  | nil => rfl
  | @cons k r ks' rs' hk _ ih =>
    simp only [bshape, ih]
    rcases hk with h1 | h1
    · subst h1
      by_cases hr : r = 1
      · simp [hr]
      · simp [hr]
    · subst h1; simp

theorem bshapeAny_same_len (a b : List Nat) (h : a.length = b.length) : bshapeAny a b = bshape a b := by
  show bshape (padLeft (max a.length b.length) a) (padLeft (max a.length b.length) b) = bshape a b
  rw [← h, Nat.max_self, padLeft_self _ _ rfl, padLeft_self _ _ h]

theorem bindex_lt_of_into (ks rs : List Nat) (i : Nat) (h : Into ks rs) (hi : i < numel rs) :
    bindex rs ks i < numel ks := by
  unfold bindex
  simp only [padLeft_self _ _ h.length.symm]
  exact ravel_bproj_lt _ _ _ (unravel_lt rs i hi) h

/-! ## `fixRank` only reshapes -/

theorem fixRank_spec (shape : List Nat) (qp qp' : QParams) (h : fixRank shape qp = .ok qp') :
    qp'.bits = qp.bits ∧ qp'.symmetric = qp.symmetric ∧ qp'.qdim = qp.qdim ∧ qp'.scale.pr = qp.scale.pr ∧
    qp'.zp.w = qp.zp.w ∧ qp'.scale.arr.data = qp.scale.arr.data ∧ qp'.zp.arr.data = qp.zp.arr.data ∧
    (shape.length = qp.scale.arr.shape.length → qp' = qp) := by
  unfold fixRank at h
  simp only [] at h
  by_cases h1 : shape.length = qp.scale.arr.rank
  · rw [if_pos h1] at h; cases h
    exact ⟨rfl, rfl, rfl, rfl, rfl, rfl, rfl, fun _ => rfl⟩
  · rw [if_neg h1] at h
    have hne : ¬ shape.length = qp.scale.arr.shape.length := h1
    split at h
    · split at h
      · cases h
      · cases h; exact ⟨rfl, rfl, rfl, rfl, rfl, rfl, rfl, fun e => absurd e hne⟩
    · split at h
      · cases h; exact ⟨rfl, rfl, rfl, rfl, rfl, rfl, rfl, fun e => absurd e hne⟩
      · cases h

/-! ## `uniform_quantize`, element by element -/

/-- **every code of `uniform_quantize(x, qp)`** is the scalar core on the element (`x` broadcast to
    the result shape `rs`) and on the scale / zero point at the element's position in the parameters'
    (rank-fixed) shape `ss`; `ss` is the parameters' own shape when its rank is the tensor's -/
theorem uniformQuantize_spec (x : FArr) (qp : QParams) (q : IArr) (h : uniformQuantize x qp = .ok q) :
    ∃ (ss rs : List Nat),
      (x.arr.shape.length = qp.scale.arr.shape.length → ss = qp.scale.arr.shape) ∧
      bshape x.arr.shape ss = some rs ∧ Into x.arr.shape rs ∧ Into ss rs ∧
      q.w = storageBits qp.bits ∧ q.arr.shape = rs ∧ q.arr.data.length = numel rs ∧
      ∀ (i : Nat) (c : Int), q.arr.data[i]? = some c →
        quantize1 x.pr qp.scale.pr qp.zp.w qp.bits qp.symmetric
          (x.arr.data.getD (bindex rs x.arr.shape i) 0)
          (qp.scale.arr.data.getD (bindex rs ss i) 0)
          (qp.zp.arr.data.getD (bindex rs ss i) 0) = .ok c := by
  unfold uniformQuantize at h
  obtain ⟨qp', hfix, h⟩ := bind_ok _ _ _ h
  obtain ⟨u, hval, h⟩ := bind_ok _ _ _ h
  obtain ⟨sz, hsz, h⟩ := bind_ok _ _ _ h
  obtain ⟨out, hout, h⟩ := bind_ok _ _ _ h
  simp only [pure, Except.pure, Except.ok.injEq] at h
  subst h
  obtain ⟨f1, f2, _, f4, f5, f6, f7, f8⟩ := fixRank_spec _ _ _ hfix
  -- `validParams`
  have hv : qp'.scale.arr.shape = qp'.zp.arr.shape ∧ x.arr.shape.length = qp'.scale.arr.shape.length := by
    unfold validParams at hval
    split at hval
    · cases hval
    · rename_i hs
      split at hval
      · cases hval
      · rename_i hr
        exact ⟨by simpa using hs, by simpa [Arr.rank] using hr⟩
  -- the (scale, zero point) pairs
  obtain ⟨rs0, hrs0, hsh0, hlen0, hel0⟩ := zipB_ok _ _ _ _ hsz
  rw [← hv.1, bshapeAny_self] at hrs0
  cases hrs0
  -- the codes
  obtain ⟨rs, hrs, hsh, hlen, hel⟩ := zipB_ok _ _ _ _ hout
  rw [hsh0, bshapeAny_same_len _ _ hv.2] at hrs
  obtain ⟨i1, i2⟩ := bshape_into _ _ _ hrs
  refine ⟨qp'.scale.arr.shape, rs, ?_, hrs, i1, i2, by rw [f1], hsh, hlen, ?_⟩
  · intro e; rw [f8 e]
  · intro i c hc
    have hi : i < numel rs := by
      have := (List.getElem?_eq_some_iff.1 hc).1
      rw [hlen] at this; exact this
    have hj := bindex_lt_of_into _ _ i i2 hi
    have e := hel i c hc
    rw [hsh0] at e
    -- the pair at the channel position
    have hpair : sz.data.getD (bindex rs qp'.scale.arr.shape i) default =
        (qp'.scale.arr.data.getD (bindex rs qp'.scale.arr.shape i) 0,
         qp'.zp.arr.data.getD (bindex rs qp'.scale.arr.shape i) 0) := by
      have hjl : bindex rs qp'.scale.arr.shape i < sz.data.length := by rw [hlen0]; exact hj
      have := hel0 _ _ (List.getElem?_eq_getElem hjl)
      simp only [pure, Except.pure, Except.ok.injEq] at this
      rw [List.getD_eq_getElem?_getD, List.getElem?_eq_getElem hjl, Option.getD_some, ← this,
        ← hv.1, bindex_self _ _ hj]
      rfl
    rw [hpair] at e
    simp only [] at e
    rw [f1, f2, f4, f5, f6, f7] at e
    exact e

theorem quantize1_ok (xpr spr : Prec) (zw bits : Nat) (narrow : Bool) (x s : Rat) (z c : Int)
    (h : quantize1 xpr spr zw bits narrow x s z = .ok c) :
    s ≠ 0 ∧ c = roundClip bits narrow (qSum xpr spr zw x s z) := by
  unfold quantize1 at h
  split at h
  · cases h
  · rename_i hs
    split at h
    · cases h; exact ⟨hs, rfl⟩
    · cases h

/-! ## range of the codes -/

theorem storageBits_pos (bits : Nat) : 1 ≤ storageBits bits := by
  unfold storageBits; split_ifs <;> omega

/-- every code is a value of its storage type (the cast of `assign_quantized_type` wraps) -/
theorem roundClip_storage (bits : Nat) (narrow : Bool) (v : Rat) :
    -(2:Int)^(storageBits bits - 1) ≤ roundClip bits narrow v ∧
      roundClip bits narrow v < (2:Int)^(storageBits bits - 1) :=
  wrapInt_range _ (storageBits_pos bits) _

/-- the codes of a packed parameter (`bits ≤ 4`) are 4-bit values -/
theorem roundClip_nibble (bits : Nat) (hb : bits ≤ 4) (narrow : Bool) (v : Rat) :
    -8 ≤ roundClip bits narrow v ∧ roundClip bits narrow v < 8 := by
  unfold roundClip
  have hs : storageBits bits = 8 := by unfold storageBits; rw [if_pos (by omega)]
  have hlo : -8 ≤ qLoI bits narrow ∧ qLoI bits narrow ≤ qHiI bits ∧ qHiI bits ≤ 7 := by
    have hcase : bits = 0 ∨ bits = 1 ∨ bits = 2 ∨ bits = 3 ∨ bits = 4 := by omega
    rcases hcase with rfl | rfl | rfl | rfl | rfl <;> cases narrow <;> decide
  have hc : qLoI bits narrow ≤ clipI (rhe v) (qLoI bits narrow) (qHiI bits) ∧
      clipI (rhe v) (qLoI bits narrow) (qHiI bits) ≤ qHiI bits := by
    unfold clipI; split_ifs <;> omega
  rw [hs]
  have : wrapInt 8 (clipI (rhe v) (qLoI bits narrow) (qHiI bits)) =
      clipI (rhe v) (qLoI bits narrow) (qHiI bits) :=
    BytesProofs.wrapInt_id 8 (by decide) _ (by norm_num; omega) (by norm_num; omega)
  rw [this]
  omega

/-- **all codes of `uniform_quantize`** are in the storage range, and 4-bit values when packed -/
theorem codes_range (x : FArr) (qp : QParams) (q : IArr) (h : uniformQuantize x qp = .ok q) :
    (∀ c ∈ q.arr.data, -(2:Int)^(storageBits qp.bits - 1) ≤ c ∧ c < (2:Int)^(storageBits qp.bits - 1)) ∧
    (qp.bits ≤ 4 → ∀ c ∈ q.arr.data, -8 ≤ c ∧ c < 8) := by
  obtain ⟨ss, rs, _, _, _, _, _, _, _, hel⟩ := uniformQuantize_spec x qp q h
  have key : ∀ c ∈ q.arr.data, ∃ v, c = roundClip qp.bits qp.symmetric v := by
    intro c hc
    obtain ⟨i, hi⟩ := List.mem_iff_getElem?.1 hc
    exact ⟨_, (quantize1_ok _ _ _ _ _ _ _ _ _ (hel i c hi)).2⟩
  refine ⟨?_, ?_⟩
  · intro c hc
    obtain ⟨v, rfl⟩ := key c hc
    exact roundClip_storage _ _ _
  · intro hb c hc
    obtain ⟨v, rfl⟩ := key c hc
    exact roundClip_nibble _ hb _ _

/-! ## the stored bytes of a quantized array -/

/-- **length and round trip of the stored bytes of `uniform_quantize(x, qp)`**: the bytes written for
    the parameter object `qp` with these quantized values have `⌈n·bits/8⌉` bytes for the tensor type
    `dt` of `qp.bits` and the `n` elements of the result (two values per byte for INT4), and decoding
    them per that tensor type gives back exactly the codes -/
theorem quantized_bytes (x : FArr) (qp : QParams) (q : IArr) (dt : Nat)
    (h : uniformQuantize x qp = .ok q) (hdt : Perform.dtypeOf ⟨true, qp.bits, true⟩ = .ok dt) :
    ∃ bs, paramBytes (.uniform qp (some q)) = some bs ∧
      byteLen dt (numel q.arr.shape) = some bs.length ∧
      decodeInts dt (numel q.arr.shape) bs = q.arr.data := by
  obtain ⟨ss, rs, _, _, _, _, hw, hsh, hlen, _⟩ := uniformQuantize_spec x qp q h
  obtain ⟨r1, r2⟩ := codes_range x qp q h
  refine ⟨_, rfl, ?_, ?_⟩
  · rw [hw, hsh, ← hlen]
    exact storeInts_byteLen qp.bits true dt q.arr.data hdt
  · rw [hw, hsh, ← hlen]
    exact decodeInts_storeInts qp.bits true dt q.arr.data hdt r1 r2

/-- when the parameters' shape broadcasts into the tensor's shape the result has the tensor's shape -/
theorem quantized_shape (x : FArr) (qp : QParams) (q : IArr) (h : uniformQuantize x qp = .ok q)
    (hr : x.arr.shape.length = qp.scale.arr.shape.length) (hi : Into qp.scale.arr.shape x.arr.shape) :
    q.arr.shape = x.arr.shape := by
  obtain ⟨ss, rs, hss, hrs, _, _, _, hsh, _, _⟩ := uniformQuantize_spec x qp q h
  rw [hss hr, bshape_of_into _ _ hi] at hrs
  cases hrs
  exact hsh

end ConstQuant
