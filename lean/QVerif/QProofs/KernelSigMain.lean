import QProofs.KernelSigOps
import QProofs.KernelSigIns
import QProofs.KernelSigF32
/-!
# Kernel signatures (C01b): every operator of the output model

Assembly of the per-mode theorems of `KernelSigOps` over the three situations of `KernelSig.op_mode`, and
the inserted operators.  The hypotheses (`FloatModel`, `DataRuntime`, `WeightConst16`) are documented in `QProps/C01b.lean`.
-/
open Graph Mat Cfg Pipeline GraphStep Skeleton SkeletonProof

set_option autoImplicit false

namespace KernelSig

/-- **the data operand of an operator with weights that the recipe selects for integer compute (dynamic or
    static range) is a runtime tensor.**  (The materialisation quantizes a CONSTANT data operand of
    FULLY_CONNECTED / CONV_2D / DEPTHWISE_CONV_2D / CONV_2D_TRANSPOSE / BATCH_MATMUL with the WEIGHT config;
    see `C01.const_data_drq_violates`.) -/
def DataRuntime (rx : String → String → Bool) (env : Env) (st : Recipe.State) : Prop :=
  ∀ sg ∈ env.model.subgraphs, ∀ op ∈ sg.ops, ∀ nm cfg, TypingE2E.ResolvesMinMax rx env st sg op nm cfg →
    cfg.cp = .integer → weightOp nm = true → nm ≠ "EMBEDDING_LOOKUP" →
    ∀ t, op.inputs[PipeNF.dataSlot nm]? = some t → isConst env.model sg t = false

/-- **the weight (operand 1) of a CONV_2D / DEPTHWISE_CONV_2D / CONV_2D_TRANSPOSE that the recipe selects for
    static-range quantization with 16-bit activations is a constant.**  (A RUNTIME weight becomes an int16
    tensor, and the int16 convolution kernels read int8 weights; see `C01.runtime_weight_srq16_violates`.
    FULLY_CONNECTED and BATCH_MATMUL have int16 × int16 kernels: `KernelSig.weightActOps`.) -/
def WeightConst16 (rx : String → String → Bool) (env : Env) (st : Recipe.State) : Prop :=
  ∀ sg ∈ env.model.subgraphs, ∀ op ∈ sg.ops, ∀ nm cfg a, TypingE2E.ResolvesMinMax rx env st sg op nm cfg →
    cfg.cp = .integer → cfg.act = some a → a.bits = 16 → weightOp nm = true → weightActOps.contains nm = false →
    ∀ t, op.inputs[1]? = some t → isConst env.model sg t = true

/-! ## recipe-independent sufficient conditions (Bool, for closed models) -/

/-- the name of an operator -/
def opNameB (m : Model) (op : Op) : Option String :=
  match m.opcodes[op.code]? with
  | some code => opNameOfCode code
  | none => none

theorem opNameB_of {rx : String → String → Bool} {env : Env} {st : Recipe.State} {sg : Subgraph} {op : Op}
    {nm : String} {cfg : OpCfg} (h : TypingE2E.ResolvesMinMax rx env st sg op nm cfg) :
    opNameB env.model op = some nm := by
  obtain ⟨code, scope, h1, h2, -⟩ := h
  unfold opNameB
  rw [h1]
  exact h2

/-- every operator with weights (but EMBEDDING_LOOKUP) has a runtime data operand -/
def dataRuntimeB (m : Model) : Bool :=
  m.subgraphs.all fun sg => sg.ops.all fun op =>
    match opNameB m op with
    | some nm => !weightOp nm || nm == "EMBEDDING_LOOKUP" ||
        (match op.inputs[PipeNF.dataSlot nm]? with
         | some t => !isConst m sg t
         | none => true)
    | none => true

theorem dataRuntime_of_B (rx : String → String → Bool) (env : Env) (st : Recipe.State)
    (h : dataRuntimeB env.model = true) : DataRuntime rx env st := by
  intro sg hsg op hop nm cfg hres _ hw hne t ht
  unfold dataRuntimeB at h
  rw [List.all_eq_true] at h
  have h1 := h sg hsg
  rw [List.all_eq_true] at h1
  have h2 := h1 op hop
  rw [opNameB_of hres] at h2
  simp only [hw, Bool.not_true, Bool.false_or, ht, Bool.or_eq_true, beq_iff_eq, Bool.not_eq_true'] at h2
  rcases h2 with h2 | h2
  · exact absurd h2 hne
  · exact h2

/-- every operator with weights but BATCH_MATMUL / FULLY_CONNECTED has a constant operand 1 -/
def weightConstB (m : Model) : Bool :=
  m.subgraphs.all fun sg => sg.ops.all fun op =>
    match opNameB m op with
    | some nm => !weightOp nm || weightActOps.contains nm ||
        (match op.inputs[1]? with
         | some t => isConst m sg t
         | none => true)
    | none => true

theorem weightConst16_of_B (rx : String → String → Bool) (env : Env) (st : Recipe.State)
    (h : weightConstB env.model = true) : WeightConst16 rx env st := by
  intro sg hsg op hop nm cfg a hres _ _ _ hw hne t ht
  unfold weightConstB at h
  rw [List.all_eq_true] at h
  have h1 := h sg hsg
  rw [List.all_eq_true] at h1
  have h2 := h1 op hop
  rw [opNameB_of hres] at h2
  simp only [hw, Bool.not_true, Bool.false_or, ht, Bool.or_eq_true] at h2
  rcases h2 with h2 | h2
  · rw [hne] at h2; cases h2
  · exact h2

instance (st : Recipe.State) : Decidable (MatTotal.NoSkip st) := by
  unfold MatTotal.NoSkip
  infer_instance

instance (m' : Model) : Decidable (InsertedWidths m') := by
  unfold InsertedWidths
  infer_instance

/-! ## rows ⇒ `accepts` -/

theorem accepts_float (nm : String) (hq : nm ≠ "QUANTIZE") (hd : nm ≠ "DEQUANTIZE") (ins outs : List DT)
    (h : floatSig nm ins outs = true) : accepts nm ins outs = true := by
  unfold accepts
  rw [if_neg hq, if_neg hd, h]
  rfl

theorem accepts_hybrid (nm : String) (hq : nm ≠ "QUANTIZE") (hd : nm ≠ "DEQUANTIZE") (ins outs : List DT)
    (hh : hybridOps.contains nm = true) (h : sig (hybridRow nm) Tables.ttFloat32 nm ins outs = true) :
    accepts nm ins outs = true := by
  unfold accepts
  rw [if_neg hq, if_neg hd, hh, h]
  simp

theorem accepts_int (nm : String) (hq : nm ≠ "QUANTIZE") (hd : nm ≠ "DEQUANTIZE") (ins outs : List DT)
    (hh : intOps.contains nm = true) (b : Int) (hb : b = 8 ∨ b = 16)
    (h : sig (intRow (actType b) (biasType b) nm) (actType b) nm ins outs = true) :
    accepts nm ins outs = true := by
  unfold accepts
  rw [if_neg hq, if_neg hd, hh]
  rcases hb with rfl | rfl
  · have h1 : actType 8 = Tables.ttInt8 := rfl
    have h2 : biasType 8 = Tables.ttInt32 := rfl
    rw [h1, h2] at h
    rw [h]
    simp
  · have h1 : actType 16 = Tables.ttInt16 := rfl
    have h2 : biasType 16 = Tables.ttInt64 := rfl
    rw [h1, h2] at h
    rw [h]
    simp

/-! ## the main theorem -/

/-- every ORIGINAL operator of the output -/
theorem orig_ok (rx : String → String → Bool) (env : Env) (st : Recipe.State)
    (qsvs : Option Qsvs) (m' : Model) (tbl : List Param) (hnf : PipelineWF.NF env st)
    (hns : MatTotal.NoSkip st) (h : quantizePure rx env st qsvs = .ok (m', tbl))
    (hfl : FloatModel env.model) (hdr : DataRuntime rx env st) (hwc : WeightConst16 rx env st)
    (s : Nat) (sg' : Subgraph) (hsg' : m'.subgraphs[s]? = some sg') (o : Op) (ho : o ∈ sg'.ops)
    (k : Nat) (hk : o.orig = some k) :
    opOK m' sg' o = true ∧
    ∃ sg op code, env.model.subgraphs[s]? = some sg ∧ sg.ops[k]? = some op ∧
      env.model.opcodes[op.code]? = some code ∧
      (nameOfCode code = none → opSig m' sg' o = opSig env.model sg op) := by
  have R := run_of rx env st qsvs m' tbl hnf h
  obtain ⟨sg, hsg⟩ := R.source s sg' hsg'
  obtain ⟨op, hop⟩ := orig_source R hnf.tagged s sg sg' hsg hsg' o ho k hk
  have hsgm : sg ∈ env.model.subgraphs := List.mem_of_getElem? hsg
  have hopm : op ∈ sg.ops := List.mem_of_getElem? hop
  have hsgOK : SgOK env.model sg := ((modelOK_iff env.model).1 hnf.wf).2.1 sg hsgm
  have hO := hsgOK.ops k op hop
  obtain ⟨code, hcode⟩ : ∃ code, env.model.opcodes[op.code]? = some code :=
    ⟨_, List.getElem?_eq_getElem hO.code⟩
  have L : Loc env m' s sg sg' k op code := ⟨R, hsg, hsg', hop, hcode, hO⟩
  obtain ⟨hflN, hflU⟩ := hfl.get sg hsgm op hopm code hcode
  -- a named operator whose output twin has a row of the table
  have named : ∀ nm, opNameOfCode code = some nm → (∃ o', Same sg' k op o' ∧
      accepts nm (o'.inputs.map (dtypeAt sg')) (o'.outputs.map (dtypeAt sg')) = true) →
      opOK m' sg' o = true ∧
      ∃ sg op code, env.model.subgraphs[s]? = some sg ∧ sg.ops[k]? = some op ∧
        env.model.opcodes[op.code]? = some code ∧
        (nameOfCode code = none → opSig m' sg' o = opSig env.model sg op) := by
    rintro nm hnm ⟨o', S, hacc⟩
    have : o = o' := S.uniq o ho hk
    subst this
    obtain ⟨hn1, -, -⟩ := nameOfCode_named code nm hnm
    refine ⟨opOK_of m' sg' o code nm (L.code' S) hn1 hacc, sg, op, code, hsg, hop, hcode, ?_⟩
    intro hnone
    rw [hn1] at hnone
    cases hnone
  -- the code of a resolution is the code of the operator
  rcases op_mode rx env st hns hnf.wf sg hsgm k op hop with hnq | ⟨nm, cfg, hres, hmode⟩ | ⟨nm, hres, hfc⟩
  · -- unquantized: same signature
    obtain ⟨o', S, hsig⟩ := noquant_sig rx env st qsvs m' tbl hnf h s sg sg' k op code L hnq
    have : o = o' := S.uniq o ho hk
    subst this
    refine ⟨?_, sg, op, code, hsg, hop, hcode, fun _ => hsig⟩
    unfold opOK
    rw [hsig]
    unfold opSig
    rw [hcode]
    simp only [Option.map_some, sigOK]
    cases hnm : opNameOfCode code with
    | none =>
      obtain ⟨c1, c2⟩ := hflU hnm
      rw [nameOfCode_none code hnm c1 c2]
    | some nm =>
      obtain ⟨hn1, hn2, hn3⟩ := nameOfCode_named code nm hnm
      rw [hn1]
      exact accepts_float nm hn2 hn3 _ _ (hflN nm hnm)
  · -- the min/max algorithm
    have hnm : opNameOfCode code = some nm := by
      obtain ⟨code', scope, c1, c2, -⟩ := hres
      rw [hcode] at c1
      cases c1
      exact c2
    obtain ⟨-, hn2, hn3⟩ := nameOfCode_named code nm hnm
    have fl := hflN nm hnm
    have hmemn := name_mem code nm hnm
    apply named nm hnm
    obtain ⟨w, hw, hwb, hcases⟩ := sigMode_cases nm cfg hmode
    rcases hcases with ⟨hcp, a, ha, hab, hio⟩ | ⟨hcp, hact, hdrq, hhy, h4⟩ | ⟨hcp, hact, hed, hwo⟩
    · -- static range
      have hnio := names_not_io
      rw [List.all_eq_true] at hnio
      have := hnio nm hmemn
      simp only [Bool.and_eq_true, bne_iff_ne, ne_eq] at this
      rcases hio with e | e | ⟨hint, h4⟩
      · exact absurd e this.1
      · exact absurd e this.2
      · obtain ⟨o', S, hs⟩ := srq_sig rx env st qsvs m' tbl hnf h s sg sg' k op code L nm hnm fl cfg hres hcp a ha
          hab w hw hwb h4 (fun hwop hne => hdr sg hsgm op hopm nm cfg hres hcp hwop hne)
          (fun h16 hwop hne => hwc sg hsgm op hopm nm cfg a hres hcp ha h16 hwop hne)
        exact ⟨o', S, accepts_int nm hn2 hn3 _ _ hint a.bits hab hs⟩
    · -- dynamic range
      obtain ⟨o', S, hs⟩ := drq_sig rx env st qsvs m' tbl hnf h s sg sg' k op code L nm hnm fl cfg hres hcp hact
        hdrq w hw hwb h4
        (fun hne => hdr sg hsgm op hopm nm cfg hres hcp (by unfold weightOp; rw [wo_eq_drq]; exact hdrq) hne)
      refine ⟨o', S, ?_⟩
      rcases hs with hs | hs
      · exact accepts_float nm hn2 hn3 _ _ hs
      · exact accepts_hybrid nm hn2 hn3 _ _ hhy hs
    · -- weight only
      obtain ⟨o', S, hs⟩ := wo_sig rx env st qsvs m' tbl hnf h s sg sg' k op code L nm hnm fl cfg hres hcp hed hact
        hwo w hw
      exact ⟨o', S, accepts_float nm hn2 hn3 _ _ hs⟩
  · -- float casting
    have hnm : opNameOfCode code = some nm := by
      obtain ⟨code', scope, cfg, c1, c2, -⟩ := hres
      rw [hcode] at c1
      cases c1
      exact c2
    obtain ⟨-, hn2, hn3⟩ := nameOfCode_named code nm hnm
    apply named nm hnm
    obtain ⟨o', S, hs⟩ := f16_sig rx env st qsvs m' tbl hnf h s sg sg' k op code L nm hnm (hflN nm hnm) hres hfc
      (fun hT o' S t ht => by
        subst hT
        have fl := hflN "CONV_2D_TRANSPOSE" hnm
        rcases fl_slot L fl 0 t ht with ⟨hk0, -, -⟩ | ⟨h0, tn, htn, hcase⟩
        · exact absurd hk0 (by decide)
        · have hd : tn.dtype ≠ Tables.ttFloat32 := by
            rcases hcase with ⟨-, hd⟩ | ⟨hk0, -⟩
            · rw [hd]; exact f32_ne_i32
            · exact absurd (by decide) hk0
          obtain ⟨z1, z2⟩ := F32.nonf32_slot rx env st qsvs m' tbl hnf h hfl s sg sg' hsg hsg' k op hop 0 t ht h0 tn htn
            hd o' S.mem S.orig
          exact ⟨t, z1, by rw [dtypeAt_some _ _ h0 _ z2, dtypeAt_some _ _ h0 _ htn]⟩)
    exact ⟨o', S, accepts_float nm hn2 hn3 _ _ hs⟩

/-- **every operator of the output has a signature of the table** -/
theorem all_ok (rx : String → String → Bool) (env : Env) (st : Recipe.State)
    (qsvs : Option Qsvs) (m' : Model) (tbl : List Param) (hnf : PipelineWF.NF env st)
    (hns : MatTotal.NoSkip st) (h : quantizePure rx env st qsvs = .ok (m', tbl))
    (hfl : FloatModel env.model) (hdr : DataRuntime rx env st) (hwc : WeightConst16 rx env st) :
    modelOK m' = true := by
  have hiw : InsertedWidths m' := inserted_widths rx env st qsvs m' tbl hnf hns h
  unfold modelOK
  rw [List.all_eq_true]
  intro sg' hsg'
  rw [List.all_eq_true]
  intro o ho
  obtain ⟨s, hs⟩ := List.mem_iff_getElem?.1 hsg'
  cases hk : o.orig with
  | none => exact ins_sig rx env st qsvs m' tbl hnf h hiw s sg' hs o ho hk
  | some k => exact (orig_ok rx env st qsvs m' tbl hnf hns h hfl hdr hwc s sg' hs o ho k hk).1

end KernelSig
