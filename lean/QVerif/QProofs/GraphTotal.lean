import QProofs.GenInstsOK
/-!
# Totality of the graph stage (C08b)

`QProofs.GraphInv` / `QProofs.GenInstsOK` prove PARTIAL correctness: if the performer (or instruction
generation followed by the performer) returns `.ok m'`, then `m'` is well-formed.  Here the dual is
proved: under the same hypotheses plus

* `ParamsKnown`   -- every instruction that quantizes carries a parameter, the parameter table knows it
                     and the type table knows its bit width (`dtypeOf` succeeds);
* `HasConsumers`  -- an instruction that inserts an operator has at least one consumer (`min([])`);

the performer cannot raise, and under `ReqOK` plus the request-level analogues (`ReqParamsKnown`,
`NoMixed`) neither can `modify`.  Both added hypotheses are necessary (counterexamples in
`QProps/C08b.lean`).
-/
open Graph Perform GraphStep GraphFrame GraphInv

namespace GraphTotal

/-! ## generic facts on `Except` -/

theorem ok_ne_error {α} {x : PyM α} (h : ∃ a, x = .ok a) (e : PyErr) (he : x = .error e) : False := by
  obtain ⟨a, ha⟩ := h
  rw [ha] at he
  cases he

theorem bind_total {α β} {x : PyM α} {f : α → PyM β} (P : α → Prop)
    (hx : ∃ a, x = .ok a ∧ P a) (hf : ∀ a, P a → ∃ b, f a = .ok b) : ∃ b, (x >>= f) = .ok b := by
  obtain ⟨a, ha, hP⟩ := hx
  obtain ⟨b, hb⟩ := hf a hP
  exact ⟨b, by rw [ha]; exact hb⟩

theorem pure_bind_total {α β} (a : α) (f : α → PyM β) (h : ∃ b, f a = .ok b) :
    ∃ b, (pure a >>= f) = .ok b := h

theorem ite3_bind_total {α β} (c1 c2 : Prop) [Decidable c1] [Decidable c2] (x y z : PyM α) (f : α → PyM β)
    (a : α) (ha : (if c1 then x else if c2 then y else z) = .ok a) (hf : ∃ b, f a = .ok b) :
    ∃ b, (if c1 then x >>= f else if c2 then y >>= f else z >>= f) = .ok b := by
  obtain ⟨b, hb⟩ := hf
  refine ⟨b, ?_⟩
  by_cases h1 : c1
  · simp only [h1, if_true] at ha ⊢; rw [ha]; exact hb
  · by_cases h2 : c2
    · simp only [h1, h2, if_true, if_false] at ha ⊢; rw [ha]; exact hb
    · simp only [h1, h2, if_false] at ha ⊢; rw [ha]; exact hb

theorem mapM_total {α β} (f : α → PyM β) : ∀ (l : List α), (∀ x ∈ l, ∃ y, f x = .ok y) →
    ∃ r, l.mapM f = .ok r := by
  intro l
  induction l with
  | nil => intro _; exact ⟨[], rfl⟩
  | cons a as ih =>
    intro h
    obtain ⟨b, hb⟩ := h a List.mem_cons_self
    obtain ⟨bs, hbs⟩ := ih (fun x hx => h x (List.mem_cons_of_mem _ hx))
    refine ⟨b :: bs, ?_⟩
    simp only [List.mapM_cons, hb, hbs, bind, Except.bind, pure, Except.pure]

/-- totality rule for a `for` loop in the `Except` monad -/
theorem forIn_total {α β} (f : α → β → PyM (ForInStep β)) (P : β → Prop) :
    ∀ (l : List α) (init : β), P init →
      (∀ x ∈ l, ∀ s, P s → ∃ s', f x s = .ok s' ∧ P (match s' with | .done b => b | .yield b => b)) →
      ∃ r, forIn l init f = .ok r ∧ P r := by
  intro l
  induction l with
  | nil =>
    intro init hP _
    exact ⟨init, rfl, hP⟩
  | cons a as ih =>
    intro init hP hstep
    obtain ⟨s', hf, hs⟩ := hstep a List.mem_cons_self init hP
    cases s' with
    | done b =>
      refine ⟨b, ?_, hs⟩
      simp only [List.forIn_cons, bind, Except.bind, hf]
      rfl
    | yield b =>
      obtain ⟨r, hr, hPr⟩ := ih b hs (fun x hx => hstep x (List.mem_cons_of_mem _ hx))
      refine ⟨r, ?_, hPr⟩
      simp only [List.forIn_cons, bind, Except.bind, hf]
      exact hr

/-- totality rule for `foldlM` in the `Except` monad -/
theorem foldlM_total {α β} (f : β → α → PyM β) (P : β → Prop) :
    ∀ (l : List α) (init : β), P init →
      (∀ x ∈ l, ∀ s, P s → ∃ s', f s x = .ok s' ∧ P s') →
      ∃ r, l.foldlM f init = .ok r ∧ P r := by
  intro l
  induction l with
  | nil =>
    intro init hP _
    exact ⟨init, rfl, hP⟩
  | cons a as ih =>
    intro init hP hstep
    obtain ⟨s', hf, hs⟩ := hstep a List.mem_cons_self init hP
    obtain ⟨r, hr, hPr⟩ := ih s' hs (fun x hx => hstep x (List.mem_cons_of_mem _ hx))
    refine ⟨r, ?_, hPr⟩
    simp only [List.foldlM_cons, bind, Except.bind, hf]
    exact hr

/-! ## the hypotheses that exclude the remaining raise sites -/

/-- the parameter of a quantizing instruction is usable: it is present (`None.quantized_data` would
    raise AttributeError), the parameter table has an entry for it, and the type table knows the bit
    width (`quant_params_to_tflite_type` would raise ValueError) -/
def ParamOK (pt : PTable) (param : Option PId) : Prop :=
  ∃ p pi ty, param = some p ∧ pinfo pt p = some pi ∧ dtypeOf pi = .ok ty

/-- every parameter mentioned by an instruction that the performer executes (`isInsertion`: QUANTIZE /
    DEQUANTIZE insertion, in-place quantization) is usable -/
def ParamsKnown (pt : PTable) (tis : List TInsts) : Prop :=
  ∀ ti ∈ tis, ∀ ins ∈ ti.insts, isInsertion ins.xf = true → ParamOK pt ins.param

/-- an instruction that inserts an operator has at least one consumer (the insertion position is
    `max(producer+1, min(consumers))`, and Python's `min([])` raises ValueError) -/
def HasConsumers (tis : List TInsts) : Prop :=
  ∀ ti ∈ tis, ∀ ins ∈ ti.insts, (ins.xf = .addQuant ∨ ins.xf = .addDequant) → ins.consumers ≠ []

/-! ## the pieces of one transformation -/

theorem index_total {α} (l : List α) (t : Int) (h0 : 0 ≤ t) (h1 : t < l.length) :
    ∃ a, Py.index l t = .ok a ∧ l[t.toNat]? = some a := by
  have hlt : t.toNat < l.length := by omega
  refine ⟨l[t.toNat], ?_, List.getElem?_eq_getElem hlt⟩
  unfold Py.index
  simp only [show ¬ t < 0 by omega, if_false]
  rw [if_neg (show ¬ (False ∨ t ≥ (l.length : Int)) by rintro (h | h); exact h; omega), List.getElem?_eq_getElem hlt]

theorem quantizeTensor_total (pt : PTable) (bufs : List BufContent) (sg : Subgraph) (t : Int)
    (param : Option PId) (h0 : 0 ≤ t) (h1 : t < sg.tensors.length)
    (hbuf : ∀ tn, sg.tensors[t.toNat]? = some tn → tn.buffer < bufs.length)
    (hpar : ParamOK pt param) :
    ∃ r, quantizeTensor pt bufs sg t param = .ok r := by
  obtain ⟨p, pi, ty, rfl, hpi, hty⟩ := hpar
  obtain ⟨tn, hg, hget⟩ := index_total sg.tensors t h0 h1
  have hb := hbuf tn hget
  unfold quantizeTensor getTensor
  simp only [hg, hpi, hty, hb, if_true, bind, Except.bind, pure, Except.pure]
  split <;> exact ⟨_, rfl⟩

theorem rewire_total (cons : List Int) (t n : Int) : ∀ (ops : List Op),
    (∀ c ∈ cons, c < 0 ∨ c < ops.length) → ∃ ops2, rewire ops cons t n = .ok ops2 := by
  induction cons with
  | nil => intro ops _; exact ⟨ops, rfl⟩
  | cons c cs ih =>
    intro ops h
    simp only [rewire, List.foldlM_cons, bind, Except.bind]
    rcases h c List.mem_cons_self with hc | hc
    · simp only [hc, if_true, pure, Except.pure]
      exact ih ops (fun c' hc' => h c' (List.mem_cons_of_mem _ hc'))
    · by_cases hneg : c < 0
      · simp only [hneg, if_true, pure, Except.pure]
        exact ih ops (fun c' hc' => h c' (List.mem_cons_of_mem _ hc'))
      · have hlt : c.toNat < ops.length := by omega
        simp only [hneg, if_false, hlt, if_true, pure, Except.pure]
        refine ih _ (fun c' hc' => ?_)
        rw [List.length_modify]
        exact h c' (List.mem_cons_of_mem _ hc')

theorem minCons_total (l : List Int) (h : l ≠ []) : ∃ first, minCons l = .ok first := by
  cases l with
  | nil => exact absurd rfl h
  | cons x xs => exact ⟨_, rfl⟩

theorem wireNewOp_total (sg : Subgraph) (inp : TIn) (newT : Int) (op : Op)
    (hne : inp.consumers ≠ [])
    (hca : ∀ c ∈ inp.consumers, c < 0 ∨ c < sg.ops.length) :
    ∃ r, wireNewOp sg inp newT op = .ok r := by
  obtain ⟨first, hf⟩ := minCons_total _ hne
  obtain ⟨ops2, ho⟩ := rewire_total inp.consumers inp.tensor newT sg.ops hca
  unfold wireNewOp
  simp only [hf, ho, bind, Except.bind, pure, Except.pure]
  exact ⟨_, rfl⟩

/-- a successful `quantizeTensor` leaves the operators alone -/
theorem quantizeTensor_ops (pt : PTable) (bufs bufs' : List BufContent) (sg sg' : Subgraph) (t : Int)
    (param : Option PId) (h0 : 0 ≤ t) (h : quantizeTensor pt bufs sg t param = .ok (bufs', sg')) :
    sg'.ops = sg.ops := by
  obtain ⟨tn, tn', _, rfl, _⟩ := quantizeTensor_spec pt bufs bufs' sg sg' t param h0 h
  rfl

theorem quantizeOnly_total (pt : PTable) (m : Model) (sgi : Nat) (sg : Subgraph) (inp : TIn)
    (hsg : m.subgraphs[sgi]? = some sg) (hSg : SgOK m sg) (hinp : InpOK pt m sg inp)
    (hpar : ParamOK pt inp.param) : ∃ r, quantizeOnly pt m sgi inp = .ok r := by
  have hv := (validT_iff _ _).1 hinp.tvalid
  unfold ValidT at hv
  obtain ⟨r, hr⟩ := quantizeTensor_total pt m.buffers sg inp.tensor inp.param hv.1 hv.2
    (fun tn htn => hSg.bufr tn (List.mem_of_getElem? htn)) hpar
  unfold quantizeOnly
  simp only [hsg, hr, bind, Except.bind, pure, Except.pure]
  exact ⟨_, rfl⟩

theorem insertQuant_total (pt : PTable) (m : Model) (sgi : Nat) (sg : Subgraph) (inp : TIn)
    (hsg : m.subgraphs[sgi]? = some sg) (hinp : InpOK pt m sg inp)
    (hb : 0 < m.buffers.length) (hpar : ParamOK pt inp.param) (hne : inp.consumers ≠ []) :
    ∃ r, insertQuant pt m sgi inp = .ok r := by
  have hv := (validT_iff _ _).1 hinp.tvalid
  unfold ValidT at hv
  have hca : ∀ c ∈ inp.consumers, c < 0 ∨ c < sg.ops.length := fun c hc =>
    (hinp.consAfter c hc).imp id (fun h => h.2)
  unfold insertQuant
  simp only [hsg, bind, Except.bind, pure, Except.pure]
  split
  · rename_i e he
    exact (ok_ne_error (Exists.imp (fun _ h => h.1) (index_total sg.tensors inp.tensor hv.1 hv.2)) e he).elim
  · rename_i tn hg
    split
    · rename_i e he
      refine (ok_ne_error (quantizeTensor_total pt _ _ _ _ (by omega)
        (by simp only [List.length_append, List.length_cons, List.length_nil]; omega) ?_ hpar) e he).elim
      intro tq hget
      simp at hget
      subst hget
      exact hb
    · rename_i r hq
      obtain ⟨bufs, sg2⟩ := r
      have hops := quantizeTensor_ops _ _ _ _ _ _ _ (by omega) hq
      split
      · rename_i e he
        refine (ok_ne_error (wireNewOp_total sg2 inp _ _ hne ?_) e he).elim
        rw [hops]; exact hca
      · exact ⟨_, rfl⟩

theorem insertDequant_total (pt : PTable) (m : Model) (sgi : Nat) (sg : Subgraph) (inp : TIn)
    (hsg : m.subgraphs[sgi]? = some sg) (hSg : SgOK m sg) (hinp : InpOK pt m sg inp)
    (hpar : ParamOK pt inp.param) (hne : inp.consumers ≠ []) :
    ∃ r, insertDequant pt m sgi inp = .ok r := by
  have hv := (validT_iff _ _).1 hinp.tvalid
  unfold ValidT at hv
  have hca : ∀ c ∈ inp.consumers, c < 0 ∨ c < sg.ops.length := fun c hc =>
    (hinp.consAfter c hc).imp id (fun h => h.2)
  unfold insertDequant
  simp only [hsg, bind, Except.bind, pure, Except.pure]
  split
  · rename_i e he
    exact (ok_ne_error (Exists.imp (fun _ h => h.1) (index_total sg.tensors inp.tensor hv.1 hv.2)) e he).elim
  · rename_i tn hg
    split
    · rename_i e he
      refine (ok_ne_error (quantizeTensor_total pt _ _ _ _ hv.1
        (by simp only [List.length_append, List.length_cons, List.length_nil]; omega) ?_ hpar) e he).elim
      intro tq hget
      rw [List.getElem?_append_left (by omega)] at hget
      exact hSg.bufr tq (List.mem_of_getElem? hget)
    · rename_i r hq
      obtain ⟨bufs, sg2⟩ := r
      have hops := quantizeTensor_ops _ _ _ _ _ _ _ hv.1 hq
      split
      · rename_i e he
        refine (ok_ne_error (wireNewOp_total sg2 inp _ _ hne ?_) e he).elim
        rw [hops]; exact hca
      · exact ⟨_, rfl⟩

/-- the registered insertion-type transformations cannot raise on a consistent input -/
theorem runXf_total (pt : PTable) (m : Model) (sgi : Nat) (sg : Subgraph) (x : Xf) (inp : TIn)
    (hsg : m.subgraphs[sgi]? = some sg) (hwf : WF.modelOK m = true) (hinp : InpOK pt m sg inp)
    (hx : isInsertion x = true) (hpar : ParamOK pt inp.param)
    (hne : (x = .addQuant ∨ x = .addDequant) → inp.consumers ≠ []) :
    ∃ r, runXf pt m sgi x inp = .ok r := by
  obtain ⟨hb0, hsgs, -⟩ := (modelOK_iff m).1 hwf
  have hSg : SgOK m sg := hsgs sg (List.mem_of_getElem? hsg)
  have hblen : 0 < m.buffers.length := (List.getElem?_eq_some_iff.1 hb0).1
  unfold runXf
  cases x with
  | noQuant => cases hx
  | emulated => cases hx
  | addQuant => exact insertQuant_total pt m sgi sg inp hsg hinp hblen hpar (hne (.inl rfl))
  | addDequant => exact insertDequant_total pt m sgi sg inp hsg hSg hinp hpar (hne (.inr rfl))
  | quantTensor => exact quantizeOnly_total pt m sgi sg inp hsg hSg hinp hpar

/-! ## one instruction -/

theorem xlatProducer_total (ins : Inst) (om am : List Int)
    (hr : -1 ≤ ins.producer ∧ ins.producer < om.length) : ∃ producer, xlatProducer ins om am = .ok producer := by
  unfold xlatProducer
  by_cases h0 : ins.producer < 0
  · rw [if_pos h0]; exact ⟨_, rfl⟩
  · rw [if_neg h0, if_pos hr.2]
    exact Exists.imp (fun _ h => h.1) (index_total om ins.producer (by omega) hr.2)

theorem xlatConsumers_total (om : List Int) (cons : List Int)
    (h : ∀ c ∈ cons, c < 0 ∨ c < om.length) :
    ∃ consumers, cons.mapM (fun c => if c < 0 then pure (-1 : Int) else Py.index om c) = .ok consumers := by
  refine mapM_total _ _ ?_
  intro c hc
  by_cases h0 : c < 0
  · rw [if_pos h0]; exact ⟨_, rfl⟩
  · rw [if_neg h0]
    rcases h c hc with h1 | h1
    · exact absurd h1 h0
    · exact Exists.imp (fun _ h => h.1) (index_total om c (by omega) h1)

theorem mapM_length {α β} (f : α → PyM β) : ∀ (l : List α) (r : List β), l.mapM f = .ok r →
    r.length = l.length := by
  intro l
  induction l with
  | nil =>
    intro r h
    simp only [List.mapM_nil, pure, Except.pure, Except.ok.injEq] at h
    subst h; rfl
  | cons a as ih =>
    intro r h
    simp only [List.mapM_cons, bind, Except.bind, pure, Except.pure] at h
    cases ha : f a with
    | error e => simp [ha] at h
    | ok b =>
      simp only [ha] at h
      cases has : as.mapM f with
      | error e => simp [has] at h
      | ok bs =>
        simp only [has, Except.ok.injEq] at h
        subst h
        simp [ih bs has]

theorem applySingle_total (pt : PTable) (m0 : Model) (st : PState) (ti : TInsts) (idx : Nat)
    (sg0 : Subgraph) (ins : Inst)
    (hinv : Inv m0 st) (hsg0 : m0.subgraphs[ti.sg]? = some sg0) (hins : ti.insts[idx]? = some ins)
    (hok : InstOK pt m0 sg0 ins) (hx : isInsertion ins.xf = true) (hpar : ParamOK pt ins.param)
    (hne : (ins.xf = .addQuant ∨ ins.xf = .addDequant) → ins.consumers ≠ []) :
    ∃ r, applySingle pt st ti idx = .ok r := by
  have hlt : ti.sg < m0.subgraphs.length := (List.getElem?_eq_some_iff.1 hsg0).1
  obtain ⟨om, hom⟩ : ∃ om, st.origMap[ti.sg]? = some om :=
    ⟨_, List.getElem?_eq_getElem (by rw [hinv.nom]; exact hlt)⟩
  obtain ⟨am, ham⟩ : ∃ am, st.addedMap[ti.sg]? = some am :=
    ⟨_, List.getElem?_eq_getElem (by rw [hinv.nam]; exact hlt)⟩
  obtain ⟨sgc, hsgc⟩ : ∃ sgc, st.model.subgraphs[ti.sg]? = some sgc :=
    ⟨_, List.getElem?_eq_getElem (by rw [hinv.nsg]; exact hlt)⟩
  have I := hinv.sg _ _ _ _ hsg0 hsgc hom
  obtain ⟨producer, hprod⟩ := xlatProducer_total ins om am (by rw [I.len]; exact hok.prodRange)
  obtain ⟨consumers, hcons⟩ := xlatConsumers_total om ins.consumers (fun c hc => by
    rw [I.len]; exact (hok.consAfter c hc).imp id (fun h => h.2))
  have hinp := inpOK_of_inv pt m0 sg0 st.model sgc om am ins producer consumers I hok hprod hcons
  have hlen := mapM_length _ _ _ hcons
  obtain ⟨r, hrun⟩ := runXf_total pt st.model ti.sg sgc ins.xf ⟨ins.tensor, producer, consumers, ins.param⟩
    hsgc hinv.wf hinp hx hpar (fun h => by
      have := hne h
      intro hc
      apply this
      have hl : consumers.length = 0 := by rw [show consumers = [] from hc]; rfl
      rw [hlen] at hl
      exact List.length_eq_zero_iff.1 hl)
  obtain ⟨m', info⟩ := r
  obtain ⟨-, ⟨sg', F⟩, -⟩ := runXf_ok pt st.model m' ti.sg sgc ins.xf _ info hsgc hinv.wf hinp hrun
  have hsa : m'.subgraphs[ti.sg]? = some sg' := by
    rw [F.subs, List.getElem?_set_self (by rw [hinv.nsg]; exact hlt)]
  unfold xlatProducer at hprod
  unfold runXf at hrun
  unfold applySingle
  simp only [hins, hom, ham, hsgc]
  refine pure_bind_total _ _ ?_
  refine pure_bind_total _ _ ?_
  refine pure_bind_total _ _ ?_
  refine ite3_bind_total _ _ _ _ _ _ producer hprod ?_
  refine bind_total (fun c => c = consumers) ⟨consumers, hcons, rfl⟩ ?_
  rintro _ rfl
  refine pure_bind_total _ _ ?_
  cases hxf : ins.xf <;> rw [hxf] at hx <;> simp only [hxf] at hrun ⊢
  · cases hx
  · refine bind_total (fun r => r = (m', info)) ⟨_, hrun, rfl⟩ ?_
    rintro _ rfl
    simp only [hsa]
    exact ⟨_, rfl⟩
  · refine bind_total (fun r => r = (m', info)) ⟨_, hrun, rfl⟩ ?_
    rintro _ rfl
    simp only [hsa]
    exact ⟨_, rfl⟩
  · refine bind_total (fun r => r = (m', info)) ⟨_, hrun, rfl⟩ ?_
    rintro _ rfl
    simp only [hsa]
    exact ⟨_, rfl⟩
  · cases hx

/-! ## all instructions of one tensor, all tensors -/

theorem applyAll_total (pt : PTable) (m0 : Model) (st : PState) (ti : TInsts)
    (hinv : Inv m0 st) (hok : TInstsOK pt m0 ti)
    (hpar : ∀ ins ∈ ti.insts, isInsertion ins.xf = true → ParamOK pt ins.param)
    (hne : ∀ ins ∈ ti.insts, (ins.xf = .addQuant ∨ ins.xf = .addDequant) → ins.consumers ≠ []) :
    ∃ st', applyAll pt st ti = .ok st' ∧ Inv m0 st' := by
  have hex : ∃ st', applyAll pt st ti = .ok st' := by
    obtain ⟨sg0, hsg0, hall⟩ := hok.insts
    unfold applyAll
    simp only
    refine bind_total (fun c : PState × TInsts => Inv m0 c.1 ∧ c.2 = ti)
      (forIn_total _ (fun c : PState × TInsts => Inv m0 c.1 ∧ c.2 = ti) _ (st, ti) ⟨hinv, rfl⟩ ?_) ?_
    · rintro idx - ⟨s, t⟩ ⟨hI, ht⟩
      simp only at hI ht
      subst ht
      cases hi : t.insts[idx]? with
      | none => exact ⟨_, rfl, hI, rfl⟩
      | some i =>
        simp only
        have hmem := List.mem_of_getElem? hi
        by_cases hx : isInsertion i.xf = true
        · obtain ⟨r, hr⟩ := applySingle_total pt m0 s t idx sg0 i hI hsg0 hi (hall i hmem) hx
            (hpar i hmem hx) (hne i hmem)
          obtain ⟨s', t'⟩ := r
          have := applySingle_inv pt m0 s s' t t' idx sg0 i hI hsg0 hi (hall i hmem) hok.noChain hr
          refine ⟨.yield (s', t'), ?_, this⟩
          simp only [hx, if_true, hr, bind, Except.bind, pure, Except.pure]
        · refine ⟨.yield (s, t), ?_, hI, rfl⟩
          simp only [hx]
          rfl
    · rintro ⟨s, t⟩ ⟨-, ht⟩
      simp only at ht
      subst ht
      have hem : (t.insts.any fun x => x.xf == Xf.emulated) = false := by
        rw [Bool.eq_false_iff]
        intro h
        obtain ⟨i, hi, hxf⟩ := List.any_eq_true.1 h
        exact (hall i hi).notEmulated (by simpa using hxf)
      simp only [hem]
      exact ⟨_, rfl⟩
  obtain ⟨st', h⟩ := hex
  exact ⟨st', h, applyAll_inv pt m0 st st' ti hinv hok h⟩

/-- **the transformation performer cannot raise** on consistent, chain-free instruction lists over a
    well-formed model, provided the parameters are known and op-adding instructions have consumers -/
theorem transformGraph_total (pt : PTable) (m : Model) (tis : List TInsts)
    (hwf : WF.modelOK m = true) (hok : ∀ ti ∈ tis, TInstsOK pt m ti)
    (hpar : ParamsKnown pt tis) (hcons : HasConsumers tis) :
    ∃ m', transformGraph pt m tis = .ok m' := by
  unfold transformGraph
  simp only
  refine bind_total (Inv m) (foldlM_total (applyAll pt) (Inv m) tis _ (inv_init m hwf) ?_) ?_
  · intro ti hti s hs
    exact applyAll_total pt m s ti hs (hok ti hti) (hpar ti hti) (hcons ti hti)
  · intro st _
    exact ⟨_, rfl⟩

/-! ## instruction generation -/

section Gen
open InstGen GenInstsInfo GenInstsGroup GenInstsOK

/-- request-level form of `ParamsKnown`: an operator entry (producer or consumer side) that asks for a
    quantizing transformation carries a usable parameter -/
def ReqParamsKnown (pt : PTable) (r : TReq) : Prop :=
  ∀ o, (r.producer = some o ∨ ∃ cs, r.consumers = some cs ∧ o ∈ cs) →
    (∃ x ∈ o.xfs, isInsertion x = true) → ParamOK pt o.param

/-- `_check_tensor_transformation_instructions_valid` raises ValueError when a tensor is both left
    float by somebody (`NO_QUANTIZE`) and quantized in place / dequantized for somebody else.  With the
    closed request shape of `ReqOK` this happens exactly when a `NO_QUANTIZE` entry (the producer's or a
    consumer's) meets a consumer entry `QUANTIZE_TENSOR` or `ADD_DEQUANTIZE`. -/
def NoMixed (r : TReq) : Prop :=
  ∀ cs, r.consumers = some cs →
    ((∃ p, r.producer = some p ∧ p.xfs = [.noQuant]) ∨ ∃ c ∈ cs, c.xfs = [.noQuant]) →
    ∀ c ∈ cs, c.xfs ≠ [.quantTensor] ∧ c.xfs ≠ [.addDequant]

theorem instsValid_of (l : List Inst) (hem : ∀ i ∈ l, i.xf ≠ .emulated)
    (h : (∀ i ∈ l, i.xf ≠ .noQuant) ∨ (∀ i ∈ l, i.xf ≠ .quantTensor ∧ i.xf ≠ .addDequant)) :
    instsValid l = true := by
  have hem' : l.any (·.xf == .emulated) = false := by
    rw [Bool.eq_false_iff]
    intro h
    obtain ⟨i, hi, hx⟩ := List.any_eq_true.1 h
    exact hem i hi (by simpa using hx)
  unfold instsValid
  simp only [hem', Bool.false_and, Bool.not_false, Bool.and_true]
  rcases h with h | h
  · have : l.any (·.xf == .noQuant) = false := by
      rw [Bool.eq_false_iff]
      intro h'
      obtain ⟨i, hi, hx⟩ := List.any_eq_true.1 h'
      exact h i hi (by simpa using hx)
    simp [this]
  · have : l.any (fun i => i.xf == .quantTensor || i.xf == .addDequant) = false := by
      rw [Bool.eq_false_iff]
      intro h'
      obtain ⟨i, hi, hx⟩ := List.any_eq_true.1 h'
      have := h i hi
      simp only [Bool.or_eq_true, beq_iff_eq] at hx
      rcases hx with hx | hx
      · exact this.1 hx
      · exact this.2 hx
    simp [this]

/-- what `vstep` can return -/
theorem vstep_cases (P r x : Inst) (hx : x ∈ vstep P r) :
    (x = r ∧ interacts P r = false) ∨
    (P.xf = .addDequant ∧ x.consumers = r.consumers ∧
      ((x.xf = .quantTensor ∧ x.param = P.param) ∨
       (x.xf = .quantTensor ∧ x.param = r.param ∧ r.xf = .addQuant) ∨
       (x.xf = .addQuant ∧ x.param = r.param ∧ r.xf = .addQuant) ∨
       (x.xf = .addDequant ∧ x.param = P.param))) := by
  unfold vstep at hx
  unfold interacts
  split at hx
  · rename_i hc
    simp only [Bool.and_eq_true, beq_iff_eq] at hc
    rw [List.mem_singleton.1 hx]
    exact .inr ⟨hc.1.1, rfl, .inr (.inl ⟨rfl, rfl, hc.1.2⟩)⟩
  · split at hx
    · rename_i hc
      simp only [Bool.and_eq_true, beq_iff_eq] at hc
      rcases List.mem_cons.1 hx with rfl | hx
      · exact .inr ⟨hc.1, rfl, .inl ⟨rfl, rfl⟩⟩
      · rw [List.mem_singleton.1 hx]
        exact .inr ⟨hc.1, rfl, .inr (.inr (.inl ⟨rfl, rfl, hc.2⟩))⟩
    · split at hx
      · rename_i hc
        simp only [Bool.and_eq_true, beq_iff_eq] at hc
        rw [List.mem_singleton.1 hx]
        exact .inr ⟨hc.1, rfl, .inr (.inr (.inr ⟨rfl, rfl⟩))⟩
      · rename_i h1 h2 h3
        refine .inl ⟨List.mem_singleton.1 hx, ?_⟩
        revert h2 h3
        cases (P.xf == Xf.addDequant) <;> cases (r.xf == Xf.addQuant) <;> cases (r.xf == Xf.noQuant) <;> simp

/-- what `applyVertical` can return -/
theorem applyVertical_mem (P : Inst) (rules : List Inst) (x : Inst) (hx : x ∈ (applyVertical P rules).1) :
    (∃ rem, rem ≠ [] ∧ x = { P with consumers := rem }) ∨ (∃ r ∈ rules, x ∈ vstep P r) ∨
    (P.xf = .addDequant ∧
      x = { xf := .quantTensor, tensor := P.tensor, producer := P.producer, consumers := [], param := P.param }) := by
  rw [applyVertical_eq] at hx
  split at hx
  · rename_i hne
    rcases List.mem_cons.1 hx with rfl | hx
    · refine .inl ⟨_, ?_, rfl⟩
      intro h
      rw [h] at hne
      simp at hne
    · obtain ⟨r, hr, hxr⟩ := List.mem_flatMap.1 hx
      exact .inr (.inl ⟨r, hr, hxr⟩)
  · split at hx
    · rename_i hc
      simp only [Bool.and_eq_true, beq_iff_eq] at hc
      exact .inr (.inr ⟨hc.2, List.mem_singleton.1 hx⟩)
    · obtain ⟨r, hr, hxr⟩ := List.mem_flatMap.1 hx
      exact .inr (.inl ⟨r, hr, hxr⟩)

/-- a consumer-side rule: non-empty consumers, kind and parameter of one of the consumer entries -/
def RuleOf (cs : List O2T) (r : Inst) : Prop :=
  r.consumers ≠ [] ∧ ∃ f ∈ cs, ∃ x, f.xfs = [x] ∧ r.xf = x ∧ r.param = f.param

theorem rules_ruleOf (cs : List O2T) (info : TInfo) (G : List (List Nat)) (hG : GInv cs G)
    (hshape : ∀ c ∈ cs, ∃ x, c.xfs = [x] ∧ x ≠ .emulated) :
    ∀ r ∈ G.map (instOfGroup cs info 0), RuleOf cs r := by
  intro r hr
  obtain ⟨g, hg, rfl⟩ := List.mem_map.1 hr
  obtain ⟨h, tl, rfl⟩ := List.exists_cons_of_ne_nil (hG.ne g hg)
  have hf := getD_mem cs h (hG.lt _ hg h List.mem_cons_self)
  obtain ⟨x, hx, -⟩ := hshape _ hf
  refine ⟨by simp [instOfGroup], _, hf, x, hx, ?_, rfl⟩
  show (cs.getD h default).xfs.getD 0 .noQuant = x
  rw [hx]; rfl

/-- closed form of the instruction list: no producer request -/
theorem instsOf_none (info : TInfo) (req : TReq) (l : List Inst) (hp : req.producer = none)
    (hun : vertUnavail (groupConsumers req.consumers) (req.consumers.getD []) info = [])
    (hav : vertAvail (groupConsumers req.consumers) (req.consumers.getD []) info = l) :
    instsOf info req = l := by
  unfold instsOf
  simp only [hun, hav, hp, List.append_nil]
  rfl

/-- closed form of the instruction list: a producer request with one transformation -/
theorem instsOf_some (info : TInfo) (req : TReq) (l : List Inst) (p : O2T) (x : Xf)
    (hp : req.producer = some p) (hxs : p.xfs = [x])
    (hun : vertUnavail (groupConsumers req.consumers) (req.consumers.getD []) info = [])
    (hav : vertAvail (groupConsumers req.consumers) (req.consumers.getD []) info = l) :
    instsOf info req =
      (applyVertical { xf := x, tensor := info.tensorId, producer := info.producer,
                       consumers := info.consumers, param := p.param } l).1 := by
  unfold instsOf
  simp only [hun, hav, hp, hxs, List.append_nil, List.map_cons, List.map_nil, List.getLast?_singleton,
    List.dropLast_singleton, List.nil_append]

theorem isInsertion_iff (x : Xf) : isInsertion x = true ↔ x = .addDequant ∨ x = .quantTensor ∨ x = .addQuant := by
  cases x <;> simp [isInsertion]

/-- the three facts totality needs about the instruction list of one request -/
theorem instsOf_facts (pt : PTable) (m : Model) (s : Nat) (sg : Subgraph) (t : Nat) (req : TReq)
    (hsg : m.subgraphs[s]? = some sg)
    (hinfo : Py.dictGet? (nameMap m) req.name = some (tensorInfo s sg t))
    (hreq : ReqOK pt m req) (hpk : ReqParamsKnown pt req) (hmix : NoMixed req) :
    instsValid (instsOf (tensorInfo s sg t) req) = true ∧
    (∀ ins ∈ instsOf (tensorInfo s sg t) req, isInsertion ins.xf = true → ParamOK pt ins.param) ∧
    (∀ ins ∈ instsOf (tensorInfo s sg t) req,
      (ins.xf = .addQuant ∨ ins.xf = .addDequant) → ins.consumers ≠ []) := by
  have hem : ∀ ins ∈ instsOf (tensorInfo s sg t) req, ins.xf ≠ .emulated := fun ins hins =>
    ((instsOf_ok pt m s sg t req hsg hinfo hreq).1 ins hins).notEmulated
  have hshape : ∀ c ∈ req.consumers.getD [], ∃ x, c.xfs = [x] ∧ x ≠ .emulated := by
    intro c hc
    obtain ⟨cs, h1, h2⟩ := getD_consumers req c hc
    exact hreq.consShape cs c h1 h2
  have hlen : ∀ cs, req.consumers = some cs → ∀ c ∈ cs, c.xfs.length = 1 := by
    intro cs h1 c h2
    obtain ⟨x, hx, _⟩ := hreq.consShape cs c h1 h2
    rw [hx]; rfl
  obtain ⟨hun, G, hG, hav⟩ := groups_shape req.consumers (tensorInfo s sg t) hlen
  have hrule := rules_ruleOf (req.consumers.getD []) (tensorInfo s sg t) G hG hshape
  generalize G.map (instOfGroup (req.consumers.getD []) (tensorInfo s sg t) 0) = rules at hav hrule
  -- parameters of the consumer-side rules
  have hrpar : ∀ r ∈ rules, isInsertion r.xf = true → ParamOK pt r.param := by
    intro r hr hx
    obtain ⟨-, f, hf, x, hfx, hrx, hrp⟩ := hrule r hr
    obtain ⟨cs, h1, h2⟩ := getD_consumers req f hf
    rw [hrp]
    exact hpk f (.inr ⟨cs, h1, h2⟩) ⟨x, by rw [hfx]; exact List.mem_singleton.2 rfl, hrx ▸ hx⟩
  -- kinds of the consumer-side rules
  have hrkind : ∀ r ∈ rules, ∀ y, r.xf = y → ∃ cs, req.consumers = some cs ∧ ∃ f ∈ cs, f.xfs = [y] := by
    intro r hr y hy
    obtain ⟨-, f, hf, x, hfx, hrx, -⟩ := hrule r hr
    obtain ⟨cs, h1, h2⟩ := getD_consumers req f hf
    exact ⟨cs, h1, f, h2, by rw [hfx, ← hrx, hy]⟩
  have hrNoQ : ((∃ p, req.producer = some p ∧ p.xfs = [.noQuant]) ∨
        ∃ cs, req.consumers = some cs ∧ ∃ c ∈ cs, c.xfs = [.noQuant]) →
      ∀ r ∈ rules, r.xf ≠ .quantTensor ∧ r.xf ≠ .addDequant := by
    intro htrig r hr
    have key : ∀ y, r.xf = y → (y = .quantTensor ∨ y = .addDequant) → False := by
      intro y hy hyq
      obtain ⟨cs, h1, f, hf, hfx⟩ := hrkind r hr y hy
      have htrig' : (∃ p, req.producer = some p ∧ p.xfs = [.noQuant]) ∨ ∃ c ∈ cs, c.xfs = [.noQuant] := by
        rcases htrig with h | ⟨cs', h1', h⟩
        · exact .inl h
        · rw [h1] at h1'; cases h1'; exact .inr h
      have := hmix cs h1 htrig' f hf
      rcases hyq with rfl | rfl
      · exact this.1 hfx
      · exact this.2 hfx
    exact ⟨fun h => key _ h (.inl rfl), fun h => key _ h (.inr rfl)⟩
  cases hp : req.producer with
  | none =>
    rw [instsOf_none _ req rules hp hun hav] at hem ⊢
    refine ⟨instsValid_of _ hem ?_, hrpar, fun r hr _ => (hrule r hr).1⟩
    by_cases hnq : ∃ cs, req.consumers = some cs ∧ ∃ c ∈ cs, c.xfs = [.noQuant]
    · exact .inr (hrNoQ (.inr hnq))
    · left
      intro r hr hx
      obtain ⟨cs, h1, f, hf, hfx⟩ := hrkind r hr _ hx
      exact hnq ⟨cs, h1, f, hf, hfx⟩
  | some p =>
    have hx : ∃ x, p.xfs = [x] ∧ (x = .noQuant ∨ x = .addDequant) := by
      rcases hreq.prodShape p hp with h | h
      · exact ⟨_, h, .inl rfl⟩
      · exact ⟨_, h, .inr rfl⟩
    obtain ⟨x, hxs, hxv⟩ := hx
    rw [instsOf_some _ req rules p x hp hxs hun hav] at hem ⊢
    have hPpar : isInsertion x = true → ParamOK pt p.param := fun h =>
      hpk p (.inl hp) ⟨x, by rw [hxs]; exact List.mem_singleton.2 rfl, h⟩
    refine ⟨instsValid_of _ hem ?_, ?_, ?_⟩
    · rcases hxv with rfl | rfl
      · -- the producer stays float: nobody quantizes in place / dequantizes
        right
        intro ins hins
        rcases applyVertical_mem _ _ _ hins with ⟨rem, -, rfl⟩ | ⟨r, hr, hv⟩ | ⟨hP, -⟩
        · exact ⟨by simp, by simp⟩
        · rcases vstep_cases _ _ _ hv with ⟨rfl, -⟩ | ⟨hP, -⟩
          · exact hrNoQ (.inl ⟨p, hp, hxs⟩) _ hr
          · cases hP
        · cases hP
      · -- the producer is quantized: nobody stays float
        left
        intro ins hins
        rcases applyVertical_mem _ _ _ hins with ⟨rem, -, rfl⟩ | ⟨r, hr, hv⟩ | ⟨-, rfl⟩
        · simp
        · rcases vstep_cases _ _ _ hv with ⟨rfl, hni⟩ | ⟨-, -, h | h | h | h⟩
          · exfalso
            obtain ⟨-, f, hf, y, hfy, hry, -⟩ := hrule _ hr
            obtain ⟨cs, h1, h2⟩ := getD_consumers req f hf
            have hyy : y = .addQuant ∨ y = .noQuant := by
              rcases hreq.prodCons p cs f hp hxs h1 h2 with h | h <;> rw [hfy] at h <;>
                simp only [List.cons.injEq, and_true] at h
              · exact .inl h
              · exact .inr h
            unfold interacts at hni
            rw [hry] at hni
            rcases hyy with rfl | rfl <;> simp at hni
          · rw [h.1]; simp
          · rw [h.1]; simp
          · rw [h.1]; simp
          · rw [h.1]; simp
        · simp
    · intro ins hins hxi
      rcases applyVertical_mem _ _ _ hins with ⟨rem, -, rfl⟩ | ⟨r, hr, hv⟩ | ⟨hP, rfl⟩
      · exact hPpar hxi
      · rcases vstep_cases _ _ _ hv with ⟨rfl, -⟩ | ⟨hP, -, h | h | h | h⟩
        · exact hrpar _ hr hxi
        · rw [h.2]; exact hPpar (by rw [show x = Xf.addDequant from hP]; rfl)
        · rw [h.2.1]; exact hrpar r hr (by rw [h.2.2]; rfl)
        · rw [h.2.1]; exact hrpar r hr (by rw [h.2.2]; rfl)
        · rw [h.2]; exact hPpar (by rw [show x = Xf.addDequant from hP]; rfl)
      · exact hPpar (by rw [show x = Xf.addDequant from hP]; rfl)
    · intro ins hins hxi
      rcases applyVertical_mem _ _ _ hins with ⟨rem, hne, rfl⟩ | ⟨r, hr, hv⟩ | ⟨-, rfl⟩
      · exact hne
      · rcases vstep_cases _ _ _ hv with ⟨rfl, -⟩ | ⟨-, hc, -⟩
        · exact (hrule _ hr).1
        · rw [hc]; exact (hrule r hr).1
      · rcases hxi with h | h <;> cases h

/-- `_quant_params_to_transformation_insts` cannot raise on a request of the closed shape, and its
    result satisfies the performer's parameter / consumer hypotheses -/
theorem tensorInsts_total (pt : PTable) (m : Model) (req : TReq)
    (hreq : ReqOK pt m req) (hpk : ReqParamsKnown pt req) (hmix : NoMixed req) :
    ∃ ti, tensorInsts (nameMap m) req = .ok ti ∧
      (∀ ins ∈ ti.insts, isInsertion ins.xf = true → ParamOK pt ins.param) ∧
      (∀ ins ∈ ti.insts, (ins.xf = .addQuant ∨ ins.xf = .addDequant) → ins.consumers ≠ []) := by
  obtain ⟨info, hinfo⟩ := hreq.known
  obtain ⟨s, sg, t, hsg, -, rfl⟩ := nameMap_get m _ _ hinfo
  obtain ⟨hv, h1, h2⟩ := instsOf_facts pt m s sg t req hsg hinfo hreq hpk hmix
  refine ⟨⟨req.name, (tensorInfo s sg t).sg, instsOf (tensorInfo s sg t) req⟩, ?_, h1, h2⟩
  rw [tensorInsts_eq]
  simp only [hinfo, hv, if_true]

theorem mapM_ok_total {α β} (f : α → PyM β) (Q : β → Prop) : ∀ (l : List α),
    (∀ x ∈ l, ∃ y, f x = .ok y ∧ Q y) → ∃ r, l.mapM f = .ok r ∧ ∀ y ∈ r, Q y := by
  intro l h
  obtain ⟨r, hr⟩ := mapM_total f l (fun x hx => Exists.imp (fun _ h => h.1) (h x hx))
  refine ⟨r, hr, ?_⟩
  intro y hy
  obtain ⟨x, hx, hfx⟩ := mapM_ok f l r hr y hy
  obtain ⟨y', hy', hQ⟩ := h x hx
  rw [hfx] at hy'
  cases hy'
  exact hQ

theorem genInsts_total (pt : PTable) (m : Model) (reqs : List TReq)
    (hreq : ∀ r ∈ reqs, ReqOK pt m r) (hpk : ∀ r ∈ reqs, ReqParamsKnown pt r)
    (hmix : ∀ r ∈ reqs, NoMixed r) :
    ∃ tis, genInsts m reqs = .ok tis ∧ ParamsKnown pt tis ∧ HasConsumers tis := by
  obtain ⟨tis, h, hQ⟩ := mapM_ok_total (tensorInsts (nameMap m))
    (fun ti => (∀ ins ∈ ti.insts, isInsertion ins.xf = true → ParamOK pt ins.param) ∧
      (∀ ins ∈ ti.insts, (ins.xf = .addQuant ∨ ins.xf = .addDequant) → ins.consumers ≠ []))
    reqs (fun r hr => tensorInsts_total pt m r (hreq r hr) (hpk r hr) (hmix r hr))
  exact ⟨tis, h, fun ti hti => (hQ ti hti).1, fun ti hti => (hQ ti hti).2⟩

/-- **instruction generation followed by the performer cannot raise** on requests of the closed shape -/
theorem modify_total (pt : PTable) (m : Model) (reqs : List TReq)
    (hwf : WF.modelOK m = true) (hnames : namesUnique m)
    (hreq : ∀ r ∈ reqs, ReqOK pt m r) (hpk : ∀ r ∈ reqs, ReqParamsKnown pt r)
    (hmix : ∀ r ∈ reqs, NoMixed r) :
    ∃ m', Perform.modify pt m reqs = .ok m' := by
  obtain ⟨tis, hgen, hpar, hcons⟩ := genInsts_total pt m reqs hreq hpk hmix
  unfold Perform.modify
  refine bind_total (fun x => x = tis) ⟨tis, hgen, rfl⟩ ?_
  intro x hx
  rw [hx]
  exact transformGraph_total pt m tis hwf (genInsts_ok pt m reqs tis hwf hnames hreq hgen) hpar hcons

end Gen

end GraphTotal
