import QProofs.PipeAbs
/-!
# `nameMap` under unique names, and the transfer `EntryOK` (concrete requests) → `ReqOK` (abstract)
-/
open Graph Mat Cfg Pipeline InstGen GenInstsOK

namespace Pipe

/-! ## dictionary lemmas -/

theorem dget_mem {ν} (d : List (String × ν)) (n : String) (v : ν)
    (h : Py.dictGet? d n = some v) : (n, v) ∈ d := by
  unfold Py.dictGet? at h
  cases hf : d.find? (·.1 == n) with
  | none => rw [hf] at h; cases h
  | some e =>
    rw [hf] at h
    simp only [Option.map_some, Option.some.injEq] at h
    have h1 := List.mem_of_find?_eq_some hf
    have h2 := List.find?_some hf
    simp only [beq_iff_eq] at h2
    obtain ⟨k, w⟩ := e
    simp only at h h2
    subst h; subst h2
    exact h1

theorem mem_dset {ν} (d : List (String × ν)) (k : String) (v : ν) (e : String × ν)
    (h : e ∈ Py.dictSet d k v) : e ∈ d ∨ e = (k, v) := by
  induction d with
  | nil => simpa [Py.dictSet] using h
  | cons e' d ih =>
    obtain ⟨k', v'⟩ := e'
    by_cases hk : k' = k
    · simp only [Py.dictSet, hk, beq_self_eq_true, if_true, List.mem_cons] at h
      rcases h with h | h
      · exact Or.inr h
      · exact Or.inl (List.mem_cons_of_mem _ h)
    · have hb : (k' == k) = false := by simpa using hk
      simp only [Py.dictSet, hb, Bool.false_eq_true, if_false, List.mem_cons] at h
      rcases h with h | h
      · exact Or.inl (h ▸ List.mem_cons_self)
      · rcases ih h with h | h
        · exact Or.inl (List.mem_cons_of_mem _ h)
        · exact Or.inr h

theorem key_dset {ν} (d : List (String × ν)) (k n : String) (v : ν)
    (h : n = k ∨ n ∈ d.map (·.1)) : n ∈ (Py.dictSet d k v).map (·.1) := by
  induction d with
  | nil => simpa [Py.dictSet] using h
  | cons e' d ih =>
    obtain ⟨k', v'⟩ := e'
    by_cases hk : k' = k
    · subst hk
      simp only [Py.dictSet, beq_self_eq_true, if_true, List.map_cons, List.mem_cons] at h ⊢
      rcases h with h | h | h
      · exact Or.inl h
      · exact Or.inl h
      · exact Or.inr h
    · have hb : (k' == k) = false := by simpa using hk
      simp only [Py.dictSet, hb, Bool.false_eq_true, if_false, List.map_cons, List.mem_cons] at h ⊢
      rcases h with h | h | h
      · exact Or.inr (ih (Or.inl h))
      · exact Or.inl h
      · exact Or.inr (ih (Or.inr h))

theorem dget_of_key {ν} (d : List (String × ν)) (n : String) (h : n ∈ d.map (·.1)) :
    ∃ v, Py.dictGet? d n = some v := by
  obtain ⟨e, he, hen⟩ := List.mem_map.1 h
  unfold Py.dictGet?
  cases hf : d.find? (·.1 == n) with
  | none =>
    have := List.find?_eq_none.1 hf e he
    simp [hen] at this
  | some e' => exact ⟨e'.2, rfl⟩

theorem foldl_reach {α β} (f : β → α → β) (P : β → Prop) (l : List α) (init : β) (x : α) (hx : x ∈ l)
    (hmono : ∀ y acc, P acc → P (f acc y)) (hintro : ∀ acc, P (f acc x)) : P (l.foldl f init) := by
  induction l generalizing init with
  | nil => cases hx
  | cons y ys ih =>
    simp only [List.foldl_cons]
    rcases List.mem_cons.1 hx with rfl | hx
    · exact GenInstsInfo.foldl_inv f P ys _ (fun z _ acc hacc => hmono z acc hacc) (hintro init)
    · exact ih _ hx

/-! ## `nameMap` -/

theorem nameMap_entries (m : Model) :
    ∀ e ∈ nameMap m, ∃ s sg i, Loc m e.1 s sg i ∧ e.2 = tensorInfo s sg i := by
  unfold nameMap
  refine GenInstsInfo.foldl_inv _
    (fun acc : List (String × TInfo) => ∀ e ∈ acc, ∃ s sg i, Loc m e.1 s sg i ∧ e.2 = tensorInfo s sg i)
    _ _ ?_ (by simp)
  intro p hp acc hacc
  refine GenInstsInfo.foldl_inv _
    (fun acc : List (String × TInfo) => ∀ e ∈ acc, ∃ s sg i, Loc m e.1 s sg i ∧ e.2 = tensorInfo s sg i)
    _ _ ?_ hacc
  intro q hq acc' hacc' e he
  rcases mem_dset _ _ _ _ he with he | rfl
  · exact hacc' e he
  · have h1 := List.mem_zipIdx_iff_getElem?.1 hp
    have h2 := List.mem_zipIdx_iff_getElem?.1 hq
    exact ⟨p.2, p.1, q.2, ⟨h1, q.1, h2, rfl⟩, rfl⟩

/-- every entry of the name map is the graph information of a tensor with that name -/
theorem nameMap_some (m : Model) (n : String) (info : TInfo)
    (h : Py.dictGet? (nameMap m) n = some info) : ∃ s sg i, Loc m n s sg i ∧ info = tensorInfo s sg i :=
  nameMap_entries m (n, info) (dget_mem _ _ _ h)

theorem nameMap_key (m : Model) (n : String) (s : Nat) (sg : Subgraph) (i : Nat)
    (h : Loc m n s sg i) : n ∈ (nameMap m).map (·.1) := by
  obtain ⟨hs, t, ht, htn⟩ := h
  unfold nameMap
  refine foldl_reach _ (fun acc : List (String × TInfo) => n ∈ acc.map (·.1)) _ _ (sg, s)
    (List.mem_zipIdx_iff_getElem?.2 hs) ?_ ?_
  · intro p acc hacc
    refine GenInstsInfo.foldl_inv _ (fun acc : List (String × TInfo) => n ∈ acc.map (·.1)) _ _ ?_ hacc
    intro q _ acc' hacc'
    exact key_dset _ _ _ _ (Or.inr hacc')
  · intro acc
    refine foldl_reach _ (fun acc : List (String × TInfo) => n ∈ acc.map (·.1)) _ _ (t, i)
      (List.mem_zipIdx_iff_getElem?.2 ht) ?_ ?_
    · intro q acc' hacc'
      exact key_dset _ _ _ _ (Or.inr hacc')
    · intro acc'
      exact key_dset _ _ _ _ (Or.inl htn.symm)

/-- with unique names the name map sends a tensor's name to that tensor's graph information -/
theorem nameMap_loc (m : Model) (hnu : namesUnique m) (n : String) (s : Nat) (sg : Subgraph) (i : Nat)
    (h : Loc m n s sg i) : Py.dictGet? (nameMap m) n = some (tensorInfo s sg i) := by
  obtain ⟨info, hinfo⟩ := dget_of_key _ _ (nameMap_key m n s sg i h)
  obtain ⟨s', sg', i', hloc, rfl⟩ := nameMap_some m n info hinfo
  obtain ⟨rfl, rfl, rfl⟩ := loc_unique m hnu n s s' sg sg' i i' h hloc
  exact hinfo

/-! ## `tensorInfo` versus `ProducedAt` / `ConsumedAt` -/

theorem produced_ref (s : Nat) (sg : Subgraph) (i : Nat) (o : Int) (h : ProducedAt sg i o) :
    0 ≤ (tensorInfo s sg i).producer ∨ (i : Int) ∈ sg.inputs := by
  rcases h with ⟨_, op, hop, hmem⟩ | ⟨_, hmem⟩
  · left
    rcases GenInstsInfo.tensorInfo_producer s sg i with ⟨_, hno⟩ | ⟨j, _, hj, _, _⟩
    · exact absurd hmem (hno _ _ hop)
    · rw [hj]; omega
  · exact .inr hmem

theorem consumed_mem (s : Nat) (sg : Subgraph) (i : Nat) (o : Int) (h : ConsumedAt sg i o) :
    o ∈ (tensorInfo s sg i).consumers := by
  unfold tensorInfo
  simp only
  rcases h with ⟨h0, op, hop, hmem⟩ | ⟨rfl, hmem⟩
  · have hm : o ∈ (sg.ops.zipIdx.filter (fun p => memI (i : Int) p.1.inputs)).map (fun p => (p.2 : Int)) := by
      refine List.mem_map.2 ⟨(op, o.toNat), List.mem_filter.2 ⟨List.mem_zipIdx_iff_getElem?.2 hop, ?_⟩, ?_⟩
      · exact (GraphStep.memI_iff _ _).2 hmem
      · show ((o.toNat : Nat) : Int) = o
        omega
    split
    · exact List.mem_cons_of_mem _ hm
    · exact hm
  · rw [if_pos ((GraphStep.memI_iff _ _).2 hmem)]
    exact List.mem_cons_self

theorem produced_notConst (m : Model) (sg : Subgraph) (i : Nat) (o : Int) (hsg : GraphStep.SgOK m sg)
    (hin : ∀ t ∈ sg.inputs, isConst m sg t = false) (h : ProducedAt sg i o) : isConst m sg i = false := by
  rcases h with ⟨_, op, hop, hmem⟩ | ⟨_, hmem⟩
  · rcases (hsg.ops _ _ hop).outs _ hmem with h | ⟨_, _, h, _⟩
    · omega
    · exact h
  · exact hin _ hmem

/-! ## reading `AbsO` / `AbsR` / `Pointwise` -/

theorem Pointwise.mem_right {α β} {R : α → β → Prop} {l1 : List α} {l2 : List β} (h : Pointwise R l1 l2)
    {b : β} (hb : b ∈ l2) : ∃ a ∈ l1, R a b := by
  obtain ⟨j, hj⟩ := List.mem_iff_getElem?.1 hb
  have hlt : j < l1.length := by
    have := (List.getElem?_eq_some_iff.1 hj).1
    rw [h.1]; exact this
  exact ⟨l1[j], List.getElem_mem hlt, h.2 j _ _ (List.getElem?_eq_getElem hlt) hj⟩

theorem AbsR.prod {tbl : List Param} {r : CReq} {a : TReq} (h : AbsR tbl r a) {o : O2T}
    (ho : a.producer = some o) : ∃ c, r.producer = some c ∧ AbsO tbl c o := by
  obtain ⟨_, h2, _⟩ := h
  rw [ho] at h2
  cases hr : r.producer with
  | none => rw [hr] at h2; exact h2.elim
  | some c => rw [hr] at h2; exact ⟨c, rfl, h2⟩

theorem AbsR.cons {tbl : List Param} {r : CReq} {a : TReq} (h : AbsR tbl r a) {os : List O2T}
    (ho : a.consumers = some os) : ∃ cs, r.consumers = some cs ∧ Pointwise (AbsO tbl) cs os := by
  obtain ⟨_, _, h3⟩ := h
  rw [ho] at h3
  cases hr : r.consumers with
  | none => rw [hr] at h3; exact h3.elim
  | some cs => rw [hr] at h3; exact ⟨cs, rfl, h3⟩

/-- an abstract consumer entry comes from a concrete one -/
theorem AbsR.cons_mem {tbl : List Param} {r : CReq} {a : TReq} (h : AbsR tbl r a) {os : List O2T} {o : O2T}
    (ho : a.consumers = some os) (hm : o ∈ os) :
    ∃ cs c, r.consumers = some cs ∧ c ∈ cs ∧ AbsO tbl c o := by
  obtain ⟨cs, hcs, hpw⟩ := h.cons ho
  obtain ⟨c, hc, hR⟩ := hpw.mem_right hm
  exact ⟨cs, c, hcs, hc, hR⟩

theorem AbsO.param_some {tbl : List Param} {c : CO2T} {o : O2T} (h : AbsO tbl c o) {p : PId}
    (hp : o.param = some p) : ∃ q0, c.param = some q0 ∧ tbl.findIdx? (fun q => q.eqv q0) = some p := by
  obtain ⟨_, _, h3⟩ := h
  rw [hp] at h3
  cases hc : c.param with
  | none => rw [hc] at h3; exact h3.elim
  | some q0 => rw [hc] at h3; exact ⟨q0, rfl, h3⟩

theorem AbsO.param_eq {tbl : List Param} {c c' : CO2T} {o o' : O2T} (h : AbsO tbl c o) (h' : AbsO tbl c' o')
    (hp : c.param = c'.param) : o.param = o'.param := by
  obtain ⟨_, _, h3⟩ := h
  obtain ⟨_, _, h3'⟩ := h'
  rw [← hp] at h3'
  cases hc : c.param <;> cases ho : o.param <;> cases ho' : o'.param <;>
    simp only [hc, ho, ho'] at h3 h3' ⊢
  rw [h3] at h3'
  exact h3'

/-! ## the fields of `ReqOK` -/

section fields
variable {m : Model} {tbl : List Param} {r : CReq} {a : TReq}

theorem fld_get (hnu : namesUnique m) (hA : AbsR tbl r a) {s : Nat} {sg : Subgraph} {i : Nat}
    (hloc : Loc m r.name s sg i) : Py.dictGet? (nameMap m) a.name = some (tensorInfo s sg i) := by
  rw [hA.1]; exact nameMap_loc m hnu _ _ _ _ hloc

theorem fld_referenced (hE : EntryOK m (fun _ _ => True) r.name r) {s : Nat} {sg : Subgraph} {i : Nat}
    (hloc : Loc m r.name s sg i) :
    0 ≤ (tensorInfo s sg i).producer ∨ (tensorInfo s sg i).consumers ≠ [] ∨
      ∃ sg', m.subgraphs[(tensorInfo s sg i).sg]? = some sg' ∧ ((tensorInfo s sg i).tensorId : Int) ∈ sg'.inputs := by
  rcases hE.used with hp | ⟨cs, c, hcs, hc⟩
  · cases hrp : r.producer with
    | none => exact absurd hrp hp
    | some p =>
      rcases produced_ref s sg i _ (hE.prod p hrp s sg i hloc).2 with h | h
      · exact .inl h
      · exact .inr (.inr ⟨sg, hloc.1, h⟩)
  · right; left
    exact List.ne_nil_of_mem (consumed_mem s sg i _ (hE.cons cs c hcs hc s sg i hloc).2)

theorem fld_prodShape (hE : EntryOK m (fun _ _ => True) r.name r) (hA : AbsR tbl r a)
    (p : O2T) (hp : a.producer = some p) : p.xfs = [.noQuant] ∨ p.xfs = [.addDequant] := by
  obtain ⟨c, hc, hO⟩ := hA.prod hp
  obtain ⟨s, sg, i, hloc⟩ := hE.loc
  rw [hO.2.1]
  exact (hE.prod c hc s sg i hloc).1.xf

theorem fld_consShape (hE : EntryOK m (fun _ _ => True) r.name r) (hA : AbsR tbl r a)
    (os : List O2T) (o : O2T) (hos : a.consumers = some os) (ho : o ∈ os) : ∃ x, o.xfs = [x] ∧ x ≠ .emulated := by
  obtain ⟨cs, c, hcs, hc, hO⟩ := hA.cons_mem hos ho
  obtain ⟨s, sg, i, hloc⟩ := hE.loc
  obtain ⟨x, hx, hne, _⟩ := (hE.cons cs c hcs hc s sg i hloc).1.xf
  exact ⟨x, by rw [hO.2.1]; exact hx, hne⟩

theorem fld_consReal (hE : EntryOK m (fun _ _ => True) r.name r) (hA : AbsR tbl r a)
    {s : Nat} {sg : Subgraph} {i : Nat} (hloc : Loc m r.name s sg i)
    (os : List O2T) (o : O2T) (hos : a.consumers = some os) (ho : o ∈ os) :
    o.opId ∈ (tensorInfo s sg i).consumers := by
  obtain ⟨cs, c, hcs, hc, hO⟩ := hA.cons_mem hos ho
  rw [hO.1]
  exact consumed_mem s sg i _ (hE.cons cs c hcs hc s sg i hloc).2

theorem fld_consSameOp (hE : EntryOK m (fun _ _ => True) r.name r) (hA : AbsR tbl r a)
    (os : List O2T) (o o' : O2T) (hos : a.consumers = some os) (ho : o ∈ os) (ho' : o' ∈ os)
    (hid : o.opId = o'.opId) : o.xfs = o'.xfs ∧ o.param = o'.param := by
  obtain ⟨cs, hcs, hpw⟩ := hA.cons hos
  obtain ⟨c, hc, hO⟩ := hpw.mem_right ho
  obtain ⟨c', hc', hO'⟩ := hpw.mem_right ho'
  have hcid : c.opId = c'.opId := by rw [← hO.1, ← hO'.1]; exact hid
  obtain ⟨h1, h2⟩ := hE.coh cs c c' hcs hc hc' hcid
  exact ⟨by rw [hO.2.1, hO'.2.1]; exact h1, hO.param_eq hO' h2⟩

theorem fld_prodCons (hwf : WF.modelOK m = true)
    (hin : ∀ sg ∈ m.subgraphs, ∀ t ∈ sg.inputs, isConst m sg t = false)
    (hE : EntryOK m (fun _ _ => True) r.name r) (hA : AbsR tbl r a)
    (p : O2T) (os : List O2T) (o : O2T) (hp : a.producer = some p) (hos : a.consumers = some os) (ho : o ∈ os) :
    o.xfs = [.addQuant] ∨ o.xfs = [.noQuant] := by
  obtain ⟨cp, hcp, _⟩ := hA.prod hp
  obtain ⟨cs, c, hcs, hc, hO⟩ := hA.cons_mem hos ho
  obtain ⟨s, sg, i, hloc⟩ := hE.loc
  have hsgm : sg ∈ m.subgraphs := List.mem_of_getElem? hloc.1
  have hsg := ((GraphStep.modelOK_iff m).1 hwf).2.1 sg hsgm
  have hnc := produced_notConst m sg i _ hsg (hin sg hsgm) (hE.prod cp hcp s sg i hloc).2
  obtain ⟨x, hx, hne, himp⟩ := (hE.cons cs c hcs hc s sg i hloc).1.xf
  rw [hO.2.1, hx]
  cases x with
  | noQuant => exact .inr rfl
  | addQuant => exact .inl rfl
  | addDequant => have := himp (.inr rfl); rw [hnc] at this; cases this
  | quantTensor => have := himp (.inl rfl); rw [hnc] at this; cases this
  | emulated => exact absurd rfl hne

theorem fld_dataConst (hE : EntryOK m (fun _ _ => True) r.name r) (hA : AbsR tbl r a)
    {s : Nat} {sg : Subgraph} {i : Nat} (hloc : Loc m r.name s sg i)
    (o : O2T) (p : PId) (pi : PInfo)
    (hwho : a.producer = some o ∨ ∃ os, a.consumers = some os ∧ o ∈ os) (hp : o.param = some p)
    (hpi : pinfo (ptableOf tbl) p = some pi) (hd : pi.hasData = true) : isConst m sg i = true := by
  have key : ∃ c, AbsO tbl c o ∧ ∀ q, c.param = some q → hasData q = true → isConst m sg i = true := by
    rcases hwho with ho | ⟨os, hos, ho⟩
    · obtain ⟨c, hc, hO⟩ := hA.prod ho
      exact ⟨c, hO, (hE.prod c hc s sg i hloc).1.data⟩
    · obtain ⟨cs, c, hcs, hc, hO⟩ := hA.cons_mem hos ho
      exact ⟨c, hO, (hE.cons cs c hcs hc s sg i hloc).1.data⟩
  obtain ⟨c, hO, hdata⟩ := key
  obtain ⟨q0, hq0, hfi⟩ := hO.param_some hp
  obtain ⟨hlt, heqv, _⟩ := List.findIdx?_eq_some_iff_getElem.1 hfi
  rw [pinfo_ptableOf, List.getElem?_eq_getElem hlt] at hpi
  simp only [Option.map_some, Option.some.injEq] at hpi
  subst hpi
  rw [hasData_pinfoOf, eqv_hasData _ _ heqv] at hd
  exact hdata q0 hq0 hd

end fields

theorem reqOK_of_abs (m : Model) (hwf : WF.modelOK m = true) (hnu : namesUnique m)
    (hin : ∀ sg ∈ m.subgraphs, ∀ t ∈ sg.inputs, isConst m sg t = false)
    (tbl : List Param) (r : CReq) (a : TReq) (hE : EntryOK m (fun _ _ => True) r.name r)
    (hA : AbsR tbl r a) : ReqOK (ptableOf tbl) m a := by
  obtain ⟨s, sg, i, hloc⟩ := hE.loc
  have hget := fld_get hnu hA hloc
  refine ⟨⟨_, hget⟩, ?_, fld_prodShape hE hA, fld_consShape hE hA, ?_, fld_consSameOp hE hA, ?_, ?_⟩
  · intro info hinfo
    rw [hget] at hinfo
    cases hinfo
    exact fld_referenced hE hloc
  · intro os o info hos ho hinfo
    rw [hget] at hinfo
    cases hinfo
    exact fld_consReal hE hA hloc os o hos ho
  · intro p os o hp _ hos ho
    exact fld_prodCons hwf hin hE hA p os o hp hos ho
  · intro info sg' o p pi hinfo hsg' hwho hp hpi hd
    rw [hget] at hinfo
    cases hinfo
    have hs : m.subgraphs[s]? = some sg' := hsg'
    rw [hloc.1] at hs
    cases hs
    exact fld_dataConst hE hA hloc o p pi hwho hp hpi hd

/-- **transfer**: if every concrete request satisfies the dictionary-entry invariant, the abstracted
    requests have the closed shape `ReqOK` w.r.t. the table of their parameters -/
theorem reqOK_of_entryOK (m : Model) (hwf : WF.modelOK m = true) (hnu : namesUnique m)
    (hin : ∀ sg ∈ m.subgraphs, ∀ t ∈ sg.inputs, isConst m sg t = false)
    (reqs : List CReq) (h : ∀ r ∈ reqs, EntryOK m (fun _ _ => True) r.name r) :
    ∀ a ∈ (absReqs reqs).2, ReqOK (ptableOf (absReqs reqs).1) m a := by
  intro a ha
  obtain ⟨r, hr, hA⟩ := (absReqs_spec reqs).mem_right ha
  exact reqOK_of_abs m hwf hnu hin _ r a (h r hr) hA

end Pipe
