import QProofs.NumericSites
/-!
# No numeric raise site of `Mat.generate` on bounded data (C08, numeric half)

`MatTotal.Bounded`: constants and statistics finite with magnitude at most `NumT.B = 2^63`, statistics of the runtime
tensors per-tensor, plus three shape conditions (bias vector, data operand of a biased convolution, rank of a constant
operand of a same-as-output operator) and the float16 range for float-cast weights.  Under `Hyp` and `Bounded` no NUMERIC
site of `generate` fires (`genSite_num_absurd`).  Two invariants of the walk over the operator list:
* `StatsInv`: the relevant entries of the evolving statistics dictionary are good -- kept by the write-backs of the
  same-as-input operators (copies of a good entry) and of the fixed-range operators (hard-coded ranges, `fixed_minMax_good`);
* `FreshInv`: an entry of the operator list writes only at the names of its results (`opReqs_frame`), so the entry of a
  tensor that no walked operator produces is still the given one -- this is what ties the parameters a CONCATENATION hands
  to its constant operands to the given statistics.
-/
open Graph Mat Arith Cfg Num Nd Pipe PipeNF GraphStep GenInstsOK NumT MatParams

set_option autoImplicit false

namespace MatTotal

/-! ## the hypothesis -/

/-- the names whose statistics entry matters: the FLOAT32 runtime tensors that an operator selected for min/max quantization
    reads or writes, and the float32 operand of a selected same-as-input operator (RESHAPE, TRANSPOSE, …: its entry is copied
    to the results) even when it is a constant.  The entries of integer tensors (indices, the shape of a RESHAPE, …), which
    `calibrate()` records too, are never read. -/
def StatName (rx : String → String → Bool) (env : Env) (st : Recipe.State) (n : String) : Prop :=
  ∃ sg ∈ env.model.subgraphs, ∃ q ∈ allOps sg, ∃ k scope ops fn, Selected rx env st sg q k scope ops fn ∧
    (Recipe.resolve rx st k scope).1 = Tables.algMinMax ∧
    ∃ a ∈ q.1.inputs ++ q.1.outputs, a ≠ -1 ∧ ∃ t, tensorAt sg a = .ok t ∧ t.name = n ∧ t.dtype = Tables.ttFloat32 ∧
      (constData env t = none ∨ ((kindOf (Recipe.resolve rx st k scope).1 fn).isPass = true ∧ a ∈ q.1.inputs))

/-- data / weight / bias positions of the convolution-like kinds -/
def convSlots : Kind → Option (Nat × Nat × Nat)
  | .conv => some (0, 1, 2)
  | .convT => some (2, 1, 3)
  | _ => none

/-- **bounded inputs** (`B = NumT.B = 2^63`) -/
structure Bounded (rx : String → String → Bool) (env : Env) (st : Recipe.State) (qsvs : Option Qsvs) : Prop where
  /-- every constant is finite: magnitudes at most `B` -/
  consts : ∀ sg ∈ env.model.subgraphs, ∀ t ∈ sg.tensors, ∀ d, constData env t = some d → ∀ x ∈ d.data, |x| ≤ B
  /-- every relevant statistics entry is good: float32 / float64 / `exact`, `min`/`max` of one all-ones shape, magnitudes at most `B`
      (NO order between `min` and `max` is required) -/
  stats : ∀ n, StatName rx env st n → ∀ mn mx, Py.dictGet? (qsvs.getD []) n = some (some (mn, mx)) → StatGood mn mx
  /-- a CONSTANT float operand of a same-as-output operator (CONCATENATION) has the rank of the statistics of the result
      (= the rank of the result, for calibrated statistics): it is quantized with the parameters of the result -/
  concat : ∀ sg ∈ env.model.subgraphs, ∀ q ∈ allOps sg, ∀ k scope ops fn, Selected rx env st sg q k scope ops fn →
    ∀ gi, kindOf (Recipe.resolve rx st k scope).1 fn = .std .sameAsOutput gi →
    ∀ a ∈ q.1.inputs, a ≠ -1 → ∀ t, tensorAt sg a = .ok t → t.dtype = Tables.ttFloat32 → constData env t ≠ none →
    ∀ b ∈ q.1.outputs, b ≠ -1 → ∀ t', tensorAt sg b = .ok t' →
    ∀ mn mx, Py.dictGet? (qsvs.getD []) t'.name = some (some (mn, mx)) → mn.arr.shape.length = t.shape.length
  /-- a bias under static-range quantization is a vector with one element per output channel of the weight, and the
      data operand of the operator is a runtime tensor -/
  bias : ∀ sg ∈ env.model.subgraphs, ∀ q ∈ allOps sg, ∀ k scope ops fn, Selected rx env st sg q k scope ops fn →
    isSRQ (Recipe.resolve rx st k scope).2 = true →
    ∀ iIn iW iB, convSlots (kindOf (Recipe.resolve rx st k scope).1 fn) = some (iIn, iW, iB) →
    ∀ a bt, q.1.inputs[iB]? = some a → a ≠ -1 → tensorAt sg a = .ok bt →
      (∃ n, shapeNat bt = [n] ∧ ∀ aw tW, q.1.inputs[iW]? = some aw → tensorAt sg aw = .ok tW →
        ∀ qd, Py.dictGet? Tables.weightQDim k = some qd → (shapeNat tW).getD qd 1 = n) ∧
      (∀ ai tI, q.1.inputs[iIn]? = some ai → tensorAt sg ai = .ok tI → constData env tI = none)
  /-- the weights of a float-cast operator are within the float16 range -/
  cast : ∀ sg ∈ env.model.subgraphs, ∀ q ∈ allOps sg, ∀ k scope ops fn, Selected rx env st sg q k scope ops fn →
    ∀ a b c, kindOf (Recipe.resolve rx st k scope).1 fn = .cast a b c →
    ∀ slot tw d, q.1.inputs[b]? = some slot → tensorAt sg slot = .ok tw → constData env tw = some d → ∀ x ∈ d.data, |x| ≤ 65504

/-- the invariant of the walk: the relevant entries of the (evolving) statistics dictionary are good -/
def StatsInv (rx : String → String → Bool) (env : Env) (st : Recipe.State) (qs : Qsvs) : Prop :=
  ∀ n, StatName rx env st n → ∀ mn mx, Py.dictGet? qs n = some (some (mn, mx)) → StatGood mn mx

/-! ## a checker for closed instances, and the hard-coded ranges -/

def finB (v : Rat) : Bool := decide (-1000000 ≤ v) && decide (v ≤ 1000000)

/-- Boolean form of `StatGood` (magnitudes at most `10^6`) for closed instances -/
def statGoodB (mm : FArr × FArr) : Bool :=
  (mm.1.pr == .f32 || mm.1.pr == .f64 || mm.1.pr == .exact) && (mm.2.pr == .f32 || mm.2.pr == .f64 || mm.2.pr == .exact) && mm.1.arr.shape == mm.2.arr.shape &&
    mm.1.arr.data.all finB && mm.2.arr.data.all finB && mm.1.arr.shape.all (· == 1)

theorem finB_sound (v : Rat) (h : finB v = true) : |v| ≤ B := by
  unfold finB at h
  simp only [Bool.and_eq_true, decide_eq_true_eq] at h
  have hB : (1000000:Rat) ≤ B := by unfold B; norm_num
  exact abs_le.mpr ⟨by linarith, by linarith⟩

theorem statGoodB_sound (mm : FArr × FArr) (h : statGoodB mm = true) : StatGood mm.1 mm.2 := by
  unfold statGoodB at h
  simp only [Bool.and_eq_true, Bool.or_eq_true, beq_iff_eq, List.all_eq_true] at h
  obtain ⟨⟨⟨⟨⟨h1, h2⟩, h3⟩, h4⟩, h5⟩, h6⟩ := h
  exact ⟨⟨or_assoc.1 h1, or_assoc.1 h2, h3,
    fun v hv => finB_sound v (h4 v hv), fun v hv => finB_sound v (h5 v hv)⟩, h6⟩

theorem fixed_closed (sl sym : Bool) (bits : Nat) (hb : bits = 8 ∨ bits = 16) :
    (match fixedParams sl bits with
     | none => true
     | some fp => (match minMaxFromParams bits sym fp with | .ok mm => statGoodB mm | .error _ => true)) = true := by
  rcases hb with rfl | rfl <;> cases sl <;> cases sym <;> decide +kernel

theorem fixedParams_bits (sl : Bool) (bits : Nat) (fp : QParams) (h : fixedParams sl bits = some fp) : bits = 8 ∨ bits = 16 := by
  unfold fixedParams at h
  simp only [] at h
  by_cases h8 : bits = 8
  · exact .inl h8
  · by_cases h16 : bits = 16
    · exact .inr h16
    · cases sl <;> simp [h8, h16] at h

/-- **the ranges written back by the fixed-range operators are good statistics** -/
theorem fixed_minMax_good (sl sym : Bool) (bits : Nat) (fp : QParams) (mm : FArr × FArr)
    (hf : fixedParams sl bits = some fp) (hm : minMaxFromParams bits sym fp = .ok mm) : StatGood mm.1 mm.2 := by
  have := fixed_closed sl sym bits (fixedParams_bits sl bits fp hf)
  rw [hf] at this
  simp only [hm] at this
  exact statGoodB_sound mm this

/-! ## dictionary writes -/

theorem applyW_get (w : List (String × Qsv)) : ∀ (qs : Qsvs) (n : String) (v : Qsv),
    Py.dictGet? (Locality.applyW w qs) n = some v → (∃ e ∈ w, e.2 = v) ∨ Py.dictGet? qs n = some v := by
  induction w with
  | nil => intro qs n v h; exact .inr h
  | cons e w ih =>
    intro qs n v h
    have h' : Py.dictGet? (Locality.applyW w (Py.dictSet qs e.1 e.2)) n = some v := h
    rcases ih _ n v h' with ⟨e', he', hv⟩ | hold
    · exact .inl ⟨e', List.mem_cons_of_mem _ he', hv⟩
    · rw [CalibProofs.dictGet?_dictSet] at hold
      split at hold
      · simp only [Option.some.injEq] at hold
        exact .inl ⟨e, List.mem_cons_self, hold⟩
      · exact .inr hold

/-! ## the invariant is kept by one entry of the operator list -/

theorem opReqs_statsInv (rx : String → String → Bool) (env : Env) (st : Recipe.State) (sg : Subgraph)
    (hsg : sg ∈ env.model.subgraphs) (sIdx : Nat) (q : Op × Option String × Int) (hq : q ∈ allOps sg)
    (qs : Qsvs) (rs : List CReq) (qs' : Qsvs) (hinv : StatsInv rx env st qs)
    (h : opReqs rx env st sIdx sg qs q = .ok (rs, qs')) : StatsInv rx env st qs' := by
  rcases opReqs_ok_cases rx env st sIdx sg qs q rs qs' h with ⟨_, rfl⟩ | ⟨k, scope, ops, fn, S, hrun⟩
  · exact hinv
  -- `standardOp`: unchanged, or copies of the entry of the operand of a same-as-input operator
  have hstd : ∀ (oi : OpInfo) con gi r q', oi.op = q.1 →
      (con = .sameAsInput → (kindOf (Recipe.resolve rx st k scope).1 fn).isPass = true ∧
        (Recipe.resolve rx st k scope).1 = Tables.algMinMax) →
      standardOp env sg qs oi con gi [] = .ok (r, q') → StatsInv rx env st q' := by
    intro oi con gi r q' hop hpass hs
    rcases standardOp_qs env sg qs oi con gi [] r q' hs with rfl | ⟨hc, t, iq, outT, hI, _, hiq, rfl⟩
    · exact hinv
    · intro n hn mn mx hget
      rcases applyW_get _ qs n _ hget with ⟨e, he, hv⟩ | hold
      · obtain ⟨o, _, rfl⟩ := List.mem_map.1 he
        simp only [] at hv
        subst hv
        refine hinv t.name ?_ mn mx hiq
        obtain ⟨i, a, hia, hane, hat, hfl, _⟩ := floatSlots_mem sg oi.op true gi [t] hI t List.mem_cons_self
        simp only [if_true] at hia
        rw [hop] at hia
        obtain ⟨hp, halg⟩ := hpass hc
        exact ⟨sg, hsg, q, hq, k, scope, ops, fn, S, halg, a, List.mem_append_left _ (List.mem_of_getElem? hia), hane, t, hat, rfl,
          hfl, .inr ⟨hp, List.mem_of_getElem? hia⟩⟩
      · exact hinv n hn mn mx hold
  cases hk : kindOf (Recipe.resolve rx st k scope).1 fn with
  | unknown => rw [hk] at hrun; cases hrun
  | std con gi =>
    have hspec := (kindSpec_of_registry _ k fn ops S.hops S.hfn).1
    rw [hk] at hrun hstd hspec
    refine hstd _ con gi rs qs' rfl ?_ hrun
    rintro rfl
    simp only [kindSpec, Bool.and_eq_true, beq_iff_eq] at hspec
    exact ⟨rfl, hspec.1⟩
  | conv =>
    rw [hk] at hrun hstd
    simp only [runKind] at hrun
    obtain ⟨⟨r, q'⟩, hs, hrun⟩ := GraphInv.bind_ok _ _ _ hrun
    obtain ⟨r', _, hrun⟩ := GraphInv.bind_ok _ _ _ hrun
    simp only [pure, Except.pure, Except.ok.injEq, Prod.mk.injEq] at hrun
    rw [← hrun.2]
    exact hstd _ .none [2] r q' rfl (fun h => by cases h) hs
  | convT =>
    rw [hk] at hrun hstd
    simp only [runKind] at hrun
    obtain ⟨⟨r, q'⟩, hs, hrun⟩ := GraphInv.bind_ok _ _ _ hrun
    split at hrun
    · cases hrun
    · obtain ⟨r', _, hrun⟩ := GraphInv.bind_ok _ _ _ hrun
      simp only [pure, Except.pure, Except.ok.injEq, Prod.mk.injEq] at hrun
      rw [← hrun.2]
      exact hstd _ .none [0, 3] r q' rfl (fun h => by cases h) hs
  | fixed sl =>
    rw [hk] at hrun hstd
    simp only [runKind] at hrun
    obtain ⟨_, reqs, q', hs, hcase⟩ := fixedRangeOp_spec env sg qs _ sl rs qs' hrun
    have h1 := hstd _ .none [] reqs q' rfl (fun h => by cases h) hs
    rcases hcase with ⟨_, rfl, _⟩ | ⟨last, a, pr, fp, mm, _, _, _, hfp, hmm, _, rfl⟩
    · exact h1
    · intro n hn mn mx hget
      rw [CalibProofs.dictGet?_dictSet] at hget
      split at hget
      · simp only [Option.some.injEq] at hget
        have := fixed_minMax_good sl a.symmetric a.bits.toNat fp mm hfp hmm
        rw [hget] at this
        exact this
      · exact h1 n hn mn mx hget
  | cast a b c =>
    rw [hk] at hrun
    simp only [runKind] at hrun
    obtain ⟨r, _, hrun⟩ := GraphInv.bind_ok _ _ _ hrun
    simp only [pure, Except.pure, Except.ok.injEq, Prod.mk.injEq] at hrun
    rw [← hrun.2]
    exact hinv

theorem reach_statsInv_aux (rx : String → String → Bool) (env : Env) (st : Recipe.State) :
    ∀ (l : List ((Subgraph × Nat) × (Op × Option String × Int))) (s0 s : GState),
    (∀ x ∈ l, x ∈ flatOps env.model) → StatsInv rx env st s0.1 → l.foldlM (flatStep rx env st) s0 = .ok s →
    StatsInv rx env st s.1 := by
  intro l
  induction l with
  | nil =>
    intro s0 s _ hI h
    simp only [List.foldlM_nil, pure, Except.pure, Except.ok.injEq] at h
    subst h
    exact hI
  | cons x xs ih =>
    intro s0 s hmem hI h
    rw [List.foldlM_cons] at h
    obtain ⟨s1, h1, h⟩ := GraphInv.bind_ok _ _ _ h
    refine ih s1 s (fun y hy => hmem y (List.mem_cons_of_mem _ hy)) ?_ h
    obtain ⟨hsg, hq⟩ := mem_flatOps env.model x (hmem x List.mem_cons_self)
    obtain ⟨rs, hr, _⟩ := opStep_ok rx env st x.1.2 x.1.1 s0 s1 x.2 h1
    exact opReqs_statsInv rx env st x.1.1 (List.mem_of_getElem? hsg) x.1.2 x.2 hq s0.1 rs s1.1 hI hr

theorem reach_statsInv (rx : String → String → Bool) (env : Env) (st : Recipe.State) (qsvs : Option Qsvs)
    (Bd : Bounded rx env st qsvs) (pre post : List ((Subgraph × Nat) × (Op × Option String × Int))) (s : GState)
    (hl : flatOps env.model = pre ++ post) (h : Reach rx env st qsvs pre s) : StatsInv rx env st s.1 :=
  reach_statsInv_aux rx env st pre (qsvs.getD [], []) s (fun x hx => by rw [hl]; exact List.mem_append_left _ hx) Bd.stats h

/-! ## the entries of tensors that no walked operator produces are the given ones -/

theorem slotTensor_outName (sg : Subgraph) (op : Op) (go : List Nat) (t : Tensor) (h : SlotTensor sg op false go t) :
    t.name ∈ outNames sg op := by
  obtain ⟨i, a, hia, hane, hat, _, _⟩ := h
  simp only [Bool.false_eq_true, if_false] at hia
  unfold outNames
  refine List.mem_filterMap.2 ⟨a, List.mem_filter.2 ⟨List.mem_of_getElem? hia, by simpa using hane⟩, ?_⟩
  simp only [nameAt, hat]

theorem applyW_other (w : List (String × Qsv)) (n : String) (hw : ∀ e ∈ w, e.1 ≠ n) :
    ∀ (qs : Qsvs), Py.dictGet? (Locality.applyW w qs) n = Py.dictGet? qs n := by
  induction w with
  | nil => intro qs; rfl
  | cons e w ih =>
    intro qs
    have h2 : Locality.applyW (e :: w) qs = Locality.applyW w (Py.dictSet qs e.1 e.2) := rfl
    rw [h2, ih (fun e' he' => hw e' (List.mem_cons_of_mem _ he')), CalibProofs.dictGet?_dictSet,
      if_neg (hw e List.mem_cons_self)]

/-- one entry of the operator list writes only at the names of its results -/
theorem opReqs_frame (rx : String → String → Bool) (env : Env) (st : Recipe.State) (sIdx : Nat) (sg : Subgraph)
    (q : Op × Option String × Int) (qs : Qsvs) (rs : List CReq) (qs' : Qsvs)
    (h : opReqs rx env st sIdx sg qs q = .ok (rs, qs')) :
    ∀ n, n ∉ outNames sg q.1 → Py.dictGet? qs' n = Py.dictGet? qs n := by
  intro n hn
  rcases opReqs_ok_cases rx env st sIdx sg qs q rs qs' h with ⟨_, rfl⟩ | ⟨k, scope, ops, fn, S, hrun⟩
  · rfl
  have hstd : ∀ (oi : OpInfo) con gi r q', oi.op = q.1 →
      standardOp env sg qs oi con gi [] = .ok (r, q') → Py.dictGet? q' n = Py.dictGet? qs n := by
    intro oi con gi r q' hop hs
    rcases standardOp_qs env sg qs oi con gi [] r q' hs with rfl | ⟨_, t, iq, outT, _, hO, _, rfl⟩
    · rfl
    · refine applyW_other _ n ?_ qs
      intro e he
      obtain ⟨o, ho, rfl⟩ := List.mem_map.1 he
      have := slotTensor_outName sg oi.op [] o (floatSlots_mem sg oi.op false [] outT hO o ho)
      rw [hop] at this
      intro hh
      simp only [] at hh
      exact hn (hh ▸ this)
  cases hk : kindOf (Recipe.resolve rx st k scope).1 fn with
  | unknown => rw [hk] at hrun; cases hrun
  | std con gi =>
    rw [hk] at hrun
    exact hstd _ con gi rs qs' rfl hrun
  | conv =>
    rw [hk] at hrun
    simp only [runKind] at hrun
    obtain ⟨⟨r, q'⟩, hs, hrun⟩ := GraphInv.bind_ok _ _ _ hrun
    obtain ⟨r', _, hrun⟩ := GraphInv.bind_ok _ _ _ hrun
    simp only [pure, Except.pure, Except.ok.injEq, Prod.mk.injEq] at hrun
    rw [← hrun.2]
    exact hstd _ .none [2] r q' rfl hs
  | convT =>
    rw [hk] at hrun
    simp only [runKind] at hrun
    obtain ⟨⟨r, q'⟩, hs, hrun⟩ := GraphInv.bind_ok _ _ _ hrun
    split at hrun
    · cases hrun
    · obtain ⟨r', _, hrun⟩ := GraphInv.bind_ok _ _ _ hrun
      simp only [pure, Except.pure, Except.ok.injEq, Prod.mk.injEq] at hrun
      rw [← hrun.2]
      exact hstd _ .none [0, 3] r q' rfl hs
  | fixed sl =>
    rw [hk] at hrun
    simp only [runKind] at hrun
    obtain ⟨_, reqs, q', hs, hcase⟩ := fixedRangeOp_spec env sg qs _ sl rs qs' hrun
    have h1 := hstd _ .none [] reqs q' rfl hs
    rcases hcase with ⟨_, rfl, _⟩ | ⟨last, a, pr, fp, mm, hl, _, hpr, _, _, _, rfl⟩
    · exact h1
    · rw [CalibProofs.dictGet?_dictSet, if_neg ?_]
      · exact h1
      · intro hh
        have hp := (standardOp_prodNames env sg qs _ .none [] [] reqs q' hs).1
        have hmem : last.name ∈ prodNames reqs := by
          unfold prodNames
          exact List.mem_map.2 ⟨last, List.mem_filter.2 ⟨List.mem_of_getLast? hl, by rw [hpr]; rfl⟩, rfl⟩
        rw [hp, hh] at hmem
        exact hn hmem
  | cast a b c =>
    rw [hk] at hrun
    simp only [runKind] at hrun
    obtain ⟨r, _, hrun⟩ := GraphInv.bind_ok _ _ _ hrun
    simp only [pure, Except.pure, Except.ok.injEq, Prod.mk.injEq] at hrun
    rw [← hrun.2]

/-- the entries of the names that no entry walked so far produces are still the given ones -/
def FreshInv (qsvs : Option Qsvs) (pre : List ((Subgraph × Nat) × (Op × Option String × Int))) (qs : Qsvs) : Prop :=
  ∀ n, n ∉ producedBy pre → Py.dictGet? qs n = Py.dictGet? (qsvs.getD []) n

theorem reach_fresh_aux (rx : String → String → Bool) (env : Env) (st : Recipe.State) (qsvs : Option Qsvs) :
    ∀ (l acc : List ((Subgraph × Nat) × (Op × Option String × Int))) (s0 s : GState),
    FreshInv qsvs acc s0.1 → l.foldlM (flatStep rx env st) s0 = .ok s → FreshInv qsvs (acc ++ l) s.1 := by
  intro l
  induction l with
  | nil =>
    intro acc s0 s hI h
    simp only [List.foldlM_nil, pure, Except.pure, Except.ok.injEq] at h
    subst h
    rw [List.append_nil]; exact hI
  | cons x xs ih =>
    intro acc s0 s hI h
    rw [List.foldlM_cons] at h
    obtain ⟨s1, h1, h⟩ := GraphInv.bind_ok _ _ _ h
    have := ih (acc ++ [x]) s1 s ?_ h
    · simpa using this
    · obtain ⟨rs, hr, _⟩ := opStep_ok rx env st x.1.2 x.1.1 s0 s1 x.2 h1
      intro n hn
      unfold producedBy at hn
      rw [List.flatMap_append, List.mem_append, not_or] at hn
      simp only [List.flatMap_cons, List.flatMap_nil, List.append_nil] at hn
      rw [opReqs_frame rx env st x.1.2 x.1.1 x.2 s0.1 rs s1.1 hr n hn.2]
      exact hI n hn.1

theorem reach_fresh (rx : String → String → Bool) (env : Env) (st : Recipe.State) (qsvs : Option Qsvs)
    (pre : List ((Subgraph × Nat) × (Op × Option String × Int))) (s : GState)
    (h : Reach rx env st qsvs pre s) : FreshInv qsvs pre s.1 := by
  have := reach_fresh_aux rx env st qsvs pre [] (qsvs.getD [], []) s (fun _ _ => rfl) h
  simpa using this

/-! ## the numeric facts of one selected entry -/

def Kind.isConv : Kind → Bool
  | .conv => true
  | .convT => true
  | _ => false

theorem conv_notBMM :
    Tables.registry.all (fun e => e.2.all (fun p => !(kindOf e.1 p.2).isConv || p.1 != "BATCH_MATMUL")) = true := by
  decide +kernel

theorem conv_notBMM_of (alg k fn : String) (ops : List (String × String))
    (hr : Py.dictGet? Tables.registry alg = some ops) (hf : Py.dictGet? ops k = some fn) (hc : (kindOf alg fn).isConv = true) :
    k ≠ "BATCH_MATMUL" := by
  have h1 := C13.mem_of_dictGet _ _ _ hr
  have h2 := C13.mem_of_dictGet _ _ _ hf
  have hall := conv_notBMM
  rw [List.all_eq_true] at hall
  have := hall _ h1
  simp only [List.all_eq_true] at this
  have := this _ h2
  simp only [hc, Bool.not_true, Bool.false_or, bne_iff_ne, ne_eq] at this
  exact this

theorem numKind_of_bounded (rx : String → String → Bool) (env : Env) (st : Recipe.State) (qsvs : Option Qsvs)
    (H : Hyp rx env st qsvs) (Bd : Bounded rx env st qsvs) (sg : Subgraph) (hsg : sg ∈ env.model.subgraphs) (sIdx : Nat)
    (q : Op × Option String × Int) (hq : q ∈ allOps sg) (k scope fn : String) (ops : List (String × String))
    (S : Selected rx env st sg q k scope ops fn) (qs : Qsvs) (hinv : StatsInv rx env st qs)
    (hfresh : ∀ n ∈ outNames sg q.1, Py.dictGet? qs n = Py.dictGet? (qsvs.getD []) n)
    (C : KindCtx env sg qs
      { sgIdx := sIdx, op := q.1, opName := k, opId := q.2.2, cfg := (Recipe.resolve rx st k scope).2 }
      (kindOf (Recipe.resolve rx st k scope).1 fn)) :
    NumKind env sg qs
      { sgIdx := sIdx, op := q.1, opName := k, opId := q.2.2, cfg := (Recipe.resolve rx st k scope).2 }
      (kindOf (Recipe.resolve rx st k scope).1 fn) := by
  have hS : SgOK env.model sg := ((modelOK_iff _).1 H.nf.wf).2.1 sg hsg
  obtain ⟨hspec, hpseudo⟩ := kindSpec_of_registry _ k fn ops S.hops S.hfn
  -- the results of a real operator are runtime tensors
  have houtRun : (kindOf (Recipe.resolve rx st k scope).1 fn).isStdNone = false → ∀ (go : List Nat) (t : Tensor),
      SlotTensor sg q.1 false go t → constData env t = none := by
    intro hkn go t ⟨i, a, hia, hane, hat, _, _⟩
    simp only [Bool.false_eq_true, if_false] at hia
    rcases mem_allOps sg q hq with ⟨j, op, hop, rfl⟩ | rfl | rfl
    · have hO := hS.ops j op hop
      rcases hO.outs a (List.mem_of_getElem? hia) with h | h
      · exact absurd h hane
      · obtain ⟨h1, h2⟩ := tensorAt_valid sg a t h.1 hat
        have := constData_isSome env sg a.toNat t h1
        rw [h2, h.2.2.1] at this
        cases hc : constData env t with
        | none => rfl
        | some d => rw [hc] at this; cases this
    · have : k = "INPUT" := by
        have := S.hkey; simp only [keyOf, inEntry, pure, Except.pure, Except.ok.injEq, Option.some.injEq] at this
        exact this.symm
      rw [hpseudo (.inl this)] at hkn; cases hkn
    · have : k = "OUTPUT" := by
        have := S.hkey; simp only [keyOf, outEntry, pure, Except.pure, Except.ok.injEq, Option.some.injEq] at this
        exact this.symm
      rw [hpseudo (.inr this)] at hkn; cases hkn
  have hrun : (Recipe.resolve rx st k scope).1 = Tables.algMinMax → ∀ (b : Bool) (gg : List Nat) (t : Tensor),
      SlotTensor sg q.1 b gg t → constData env t = none →
      ∀ mn mx, Py.dictGet? qs t.name = some (some (mn, mx)) → StatGood mn mx := by
    intro halg b gg t ⟨i, a, hia, hane, hat, hfl, _⟩ hc mn mx hg
    refine hinv t.name ⟨sg, hsg, q, hq, k, scope, ops, fn, S, halg, a, ?_, hane, t, hat, rfl, hfl, .inl hc⟩ mn mx hg
    cases b
    · exact List.mem_append_right _ (List.mem_of_getElem? hia)
    · exact List.mem_append_left _ (List.mem_of_getElem? hia)
  have mkStd : ∀ con gi, (Recipe.resolve rx st k scope).1 = Tables.algMinMax →
      C13.modeOK k (Recipe.resolve rx st k scope).2 = true →
      (con = .sameAsInput → kindOf (Recipe.resolve rx st k scope).1 fn = .std .sameAsInput gi) →
      (con = .sameAsOutput → kindOf (Recipe.resolve rx st k scope).1 fn = .std .sameAsOutput gi) →
      NumStd env sg qs
        { sgIdx := sIdx, op := q.1, opName := k, opId := q.2.2, cfg := (Recipe.resolve rx st k scope).2 } con gi [] := by
    intro con gi halg hmode h1 h2
    refine { mode := hmode, run := fun b t hst => hrun halg b _ t hst, const := Bd.consts sg hsg, outRun := ?_, inRank := ?_ }
    · intro hc t hst
      exact houtRun (by rw [h1 hc]; rfl) [] t hst
    · intro hc t' hst'
      refine ⟨houtRun (by rw [h2 hc]; rfl) [] t' hst', ?_⟩
      intro mn mx hent t ⟨i, a, hia, hane, hat, hf, _⟩ d hd
      simp only [if_true] at hia
      obtain ⟨i', b, hib, hbne, hbt, _, _⟩ := hst'
      simp only [Bool.false_eq_true, if_false] at hib
      rw [hfresh t'.name (slotTensor_outName sg q.1 [] t' ⟨i', b, hib, hbne, hbt, ‹_›, ‹_›⟩)] at hent
      rw [(constData_shape env t d hd).2]
      exact Bd.concat sg hsg q hq k scope ops fn S gi (h2 hc) a (List.mem_of_getElem? hia) hane t hat hf
        (by rw [hd]; exact fun h => by cases h) b (List.mem_of_getElem? hib) hbne t' hbt mn mx hent
  have mkBias : ∀ iIn iW iB, convSlots (kindOf (Recipe.resolve rx st k scope).1 fn) = some (iIn, iW, iB) →
      NumBias env sg
        { sgIdx := sIdx, op := q.1, opName := k, opId := q.2.2, cfg := (Recipe.resolve rx st k scope).2 } iIn iW iB := by
    intro iIn iW iB hcs
    have hconv : (kindOf (Recipe.resolve rx st k scope).1 fn).isConv = true := by
      cases hkk : kindOf (Recipe.resolve rx st k scope).1 fn <;> rw [hkk] at hcs <;> first | rfl | cases hcs
    refine { notBMM := conv_notBMM_of _ k fn ops S.hops S.hfn hconv, shape := ?_, dataRun := ?_ }
    · intro hsrq a bt ha hne hat
      exact (Bd.bias sg hsg q hq k scope ops fn S hsrq iIn iW iB hcs a bt ha hne hat).1
    · intro hsrq a ha hne ai tI hai hati
      obtain ⟨bt, hbt⟩ : ∃ bt, tensorAt sg a = .ok bt := by
        obtain ⟨hvI, _⟩ := entry_valid env.model sg hS q hq
        exact tensorAt_total sg a (hvI a (List.mem_of_getElem? ha)) (H.tensorsNE sg hsg)
      exact (Bd.bias sg hsg q hq k scope ops fn S hsrq iIn iW iB hcs a bt ha hne hbt).2 ai tI hai hati
  cases hk : kindOf (Recipe.resolve rx st k scope).1 fn with
  | unknown => trivial
  | std con gi =>
    rw [hk] at C mkStd hspec
    simp only [kindSpec, Bool.and_eq_true, beq_iff_eq] at hspec
    exact mkStd con gi hspec.1 C.mode (fun h => by rw [h]) (fun h => by rw [h])
  | conv =>
    rw [hk] at C mkStd mkBias hspec
    simp only [kindSpec, Bool.and_eq_true, beq_iff_eq] at hspec
    exact ⟨mkStd .none [2] hspec.1 C.1.mode (fun h => by cases h) (fun h => by cases h), mkBias 0 1 2 rfl⟩
  | convT =>
    rw [hk] at C mkStd mkBias hspec
    simp only [kindSpec, Bool.and_eq_true, beq_iff_eq] at hspec
    exact ⟨mkStd .none [0, 3] hspec.1 C.1.mode (fun h => by cases h) (fun h => by cases h), mkBias 2 1 3 rfl⟩
  | fixed sl =>
    rw [hk] at C mkStd hspec
    simp only [kindSpec, Bool.and_eq_true, beq_iff_eq] at hspec
    exact mkStd .none [] hspec.1 C.std.mode (fun h => by cases h) (fun h => by cases h)
  | cast a b c =>
    intro slot tw d hs ht hd
    exact Bd.cast sg hsg q hq k scope ops fn S a b c hk slot tw d hs ht hd

/-! ## no numeric site -/

/-- **no numeric raise site of `generate`** under the normal-form hypotheses, on bounded inputs -/
theorem genSite_num_absurd (rx : String → String → Bool) (env : Env) (st : Recipe.State) (qsvs : Option Qsvs)
    (H : Hyp rx env st qsvs) (Bd : Bounded rx env st qsvs) (e : PyErr) : ¬ GenSite rx env st qsvs true e := by
  intro hsite
  generalize hnum : true = num at hsite
  cases hsite with
  | notFloat => cases hnum
  | dupNames => cases hnum
  | noStats => cases hnum
  | sharing => cases hnum
  | unreadOwn => cases hnum
  | atOp num pre post sg sIdx q s e hl hreach hstep =>
    subst hnum
    have hx : ((sg, sIdx), q) ∈ flatOps env.model := by rw [hl]; exact List.mem_append_right _ List.mem_cons_self
    obtain ⟨hsg, hq⟩ := mem_flatOps env.model _ hx
    have hsgm : sg ∈ env.model.subgraphs := List.mem_of_getElem? hsg
    have hI := reach_inv rx env st qsvs H pre _ s hl hreach
    have hSI := reach_statsInv rx env st qsvs Bd pre _ s hl hreach
    generalize hnum : true = num at hstep
    cases hstep with
    | opcode => cases hnum
    | slot => cases hnum
    | unregistered => cases hnum
    | conflict => cases hnum
    | op num k scope fn ops e hk hs hne ho hf hop =>
      subst hnum
      have S : Selected rx env st sg q k scope ops fn := ⟨hk, hs, hne, ho, hf⟩
      have C := entry_ctx rx env st qsvs H sg hsgm sIdx q hq k scope fn ops S s.1 hI.present
      have hF := reach_fresh rx env st qsvs pre s hreach
      have hfresh : ∀ n ∈ outNames sg q.1, Py.dictGet? s.1 n = Py.dictGet? (qsvs.getD []) n := by
        intro n hn
        refine hF n (fun hp => ?_)
        exact fresh_outNames env.model H.nf.wf H.names pre post ((sg, sIdx), q) hl n hp hn
      exact opSite_num_absurd env sg s.1 _ _ e C
        (numKind_of_bounded rx env st qsvs H Bd sg hsgm sIdx q hq k scope fn ops S s.1 hSI hfresh C) hop

end MatTotal
