import QProofs.LocalityShare
import QProofs.LocalityPipe
/-!
# C19 — the buffer-sharing check is local for requests without `add_quant` sides

`compatO2T` on sides whose transformation list is a singleton other than `add_quant` is an equivalence
(`compatO2T_iff`: same class {no_quant} / {quantize_tensor, add_dequant} / {emulated}, and equal
parameters except in the class {no_quant}), hence `compatReq` is Euclidean on such requests
(`compatReq_euclid`) and the check of the whole model, which compares every reader of a constant buffer
with the FIRST reader only, implies the check of any extracted subgraph (`check_local_full`).
-/
open Graph Mat SharingProofs
namespace Locality

/-- singleton transformation list whose element is not `add_quant` -/
def NoAQ (o : CO2T) : Prop := ∃ x, o.xfs = [x] ∧ x ≠ .addQuant

/-- the compatibility class of a request side without `add_quant` -/
def xcls : Xf → Nat
  | .noQuant => 0 | .quantTensor => 1 | .addDequant => 1 | .emulated => 2 | .addQuant => 3

theorem optParamEq_iff (p q : Option Param) : optParamEq p q = true ↔ p.map pkey = q.map pkey :=
  optEq_iff Param.eqv pkey eqv_iff p q

theorem compatO2T_iff (a b : CO2T) (x y : Xf) (ha : a.xfs = [x]) (hb : b.xfs = [y]) (hx : x ≠ .addQuant) (hy : y ≠ .addQuant) :
    compatO2T a b = .ok true ↔ (xcls x = xcls y ∧ (x = .noQuant ∨ a.param.map pkey = b.param.map pkey)) := by
  unfold compatO2T
  rw [ha, hb, ← optParamEq_iff]
  cases hpe : optParamEq a.param b.param <;> cases x <;> cases y <;> simp [xcls, pure, Except.pure] at hx hy ⊢ <;> decide

theorem compatO2T_self (a : CO2T) : compatO2T a a = .ok true := by
  unfold compatO2T
  have : optParamEq a.param a.param = true := (optParamEq_iff _ _).2 rfl
  simp [this]
  rfl

/-- the relation `compatO2T · · = ok true` is Euclidean on sides without `add_quant` -/
theorem compatO2T_euclid (f a b : CO2T) (hf : NoAQ f) (ha : NoAQ a) (hb : NoAQ b)
    (h1 : compatO2T f a = .ok true) (h2 : compatO2T f b = .ok true) : compatO2T a b = .ok true := by
  obtain ⟨z, hz, hz'⟩ := hf
  obtain ⟨x, hx, hx'⟩ := ha
  obtain ⟨y, hy, hy'⟩ := hb
  obtain ⟨c1, p1⟩ := (compatO2T_iff f a z x hz hx hz' hx').1 h1
  obtain ⟨c2, p2⟩ := (compatO2T_iff f b z y hz hy hz' hy').1 h2
  refine (compatO2T_iff a b x y hx hy hx' hy').2 ⟨c1.symm.trans c2, ?_⟩
  rcases p1 with p1 | p1
  · subst p1
    left
    cases x <;> simp [xcls] at c1 ⊢
  · rcases p2 with p2 | p2
    · subst p2
      left
      cases x <;> simp [xcls] at c1 ⊢
    · exact Or.inr (p1.symm.trans p2)

theorem compatO2T_symm (a b : CO2T) (ha : NoAQ a) (hb : NoAQ b) (h : compatO2T a b = .ok true) :
    compatO2T b a = .ok true :=
  compatO2T_euclid a b a ha hb ha h (compatO2T_self a)

/-! ## `compatReq` -/

theorem compatReq_producers (a b : CReq) (h : compatReq a b = .ok true) :
    (a.producer = none ∧ b.producer = none) ∨
      ∃ pa pb, a.producer = some pa ∧ b.producer = some pb ∧ compatO2T pa pb = .ok true := by
  unfold compatReq at h
  dsimp only at h
  split at h
  · rename_i pa pb hpa hpb
    simp only [bind, Except.bind] at h
    split at h
    · cases h
    · rename_i v hv
      cases v with
      | false => simp [pure, Except.pure] at h
      | true => exact Or.inr ⟨pa, pb, hpa, hpb, hv⟩
  · rename_i hpa hpb
    exact Or.inl ⟨hpa, hpb⟩
  · simp [pure, Except.pure] at h

theorem forIn_allTrue {α} (g : α → PyM Bool) : ∀ (l : List α), (∀ c ∈ l, g c = .ok true) →
    forIn l ((none, ()) : Option Bool × Unit) (fun c _ => do
        let r ← g c
        if (!r) = true then pure (ForInStep.done (some false, ())) else pure (ForInStep.yield (none, ())))
      = .ok (none, ()) := by
  intro l
  induction l with
  | nil => intro _; rfl
  | cons x xs ih =>
    intro h
    simp only [List.forIn_cons, h x List.mem_cons_self, bind, Except.bind, Bool.not_true, Bool.false_eq_true,
      if_false, pure, Except.pure]
    exact ih (fun c hc => h c (List.mem_cons_of_mem _ hc))

theorem compatReq_intro (a b : CReq)
    (hp : (a.producer = none ∧ b.producer = none) ∨
      ∃ pa pb, a.producer = some pa ∧ b.producer = some pb ∧ compatO2T pa pb = .ok true)
    (hc : (a.consumers = none ∧ b.consumers = none) ∨
      ∃ ca cb a0 b0, a.consumers = some ca ∧ b.consumers = some cb ∧ ca.head? = some a0 ∧ cb.head? = some b0 ∧
        (∀ c ∈ ca, compatO2T c a0 = .ok true) ∧ (∀ c ∈ cb, compatO2T c b0 = .ok true) ∧
        compatO2T a0 b0 = .ok true) : compatReq a b = .ok true := by
  unfold compatReq
  dsimp only
  rcases hc with ⟨c1, c2⟩ | ⟨ca, cb, a0, b0, c1, c2, h3, h4, h5, h6, h7⟩
  · rcases hp with ⟨h1, h2⟩ | ⟨pa, pb, h1, h2, hpp⟩
    · rw [h1, h2, c1, c2]; rfl
    · rw [h1, h2, c1, c2]
      simp only [hpp, bind, Except.bind, Bool.not_true, Bool.false_eq_true, if_false]
      rfl
  · have e1 := forIn_allTrue (fun c => compatO2T c a0) ca h5
    have e2 := forIn_allTrue (fun c => compatO2T c b0) cb h6
    simp only [bind, Except.bind, pure, Except.pure] at e1 e2
    rcases hp with ⟨h1, h2⟩ | ⟨pa, pb, h1, h2, hpp⟩
    · rw [h1, h2, c1, c2]
      simp only [h3, h4, bind, Except.bind, pure, Except.pure, e1, e2, h7]
      rfl
    · rw [h1, h2, c1, c2]
      simp only [hpp, h3, h4, bind, Except.bind, pure, Except.pure, e1, e2, h7, Bool.not_true, Bool.false_eq_true,
        if_false]

/-- the request sides of a request -/
def allO (r : CReq) : List CO2T := r.producer.toList ++ r.consumers.getD []

def RNoAQ (r : CReq) : Prop := ∀ o ∈ allO r, NoAQ o

theorem mem_allO_prod {r : CReq} {p : CO2T} (h : r.producer = some p) : p ∈ allO r := by
  simp [allO, h]

theorem mem_allO_cons {r : CReq} {cs : List CO2T} {c : CO2T} (h : r.consumers = some cs) (hc : c ∈ cs) : c ∈ allO r := by
  simp [allO, h, hc]

theorem compatReq_self_left (a b : CReq) (h : compatReq a b = .ok true) : compatReq a a = .ok true := by
  refine compatReq_intro a a ?_ ?_
  · rcases compatReq_producers a b h with ⟨h1, _⟩ | ⟨pa, pb, h1, _, _⟩
    · exact Or.inl ⟨h1, h1⟩
    · exact Or.inr ⟨pa, pa, h1, h1, compatO2T_self pa⟩
  · rcases compatReq_consumers a b h with ⟨h1, _⟩ | ⟨ca, cb, a0, b0, h1, _, h3, _, h5, _, _⟩
    · exact Or.inl ⟨h1, h1⟩
    · exact Or.inr ⟨ca, ca, a0, a0, h1, h1, h3, h3, h5, h5, compatO2T_self a0⟩

theorem compatReq_self_right (a b : CReq) (h : compatReq a b = .ok true) : compatReq b b = .ok true := by
  refine compatReq_intro b b ?_ ?_
  · rcases compatReq_producers a b h with ⟨_, h1⟩ | ⟨pa, pb, _, h1, _⟩
    · exact Or.inl ⟨h1, h1⟩
    · exact Or.inr ⟨pb, pb, h1, h1, compatO2T_self pb⟩
  · rcases compatReq_consumers a b h with ⟨_, h1⟩ | ⟨ca, cb, a0, b0, _, h1, _, h3, _, h5, _⟩
    · exact Or.inl ⟨h1, h1⟩
    · exact Or.inr ⟨cb, cb, b0, b0, h1, h1, h3, h3, h5, h5, compatO2T_self b0⟩

/-- two requests compatible with a common third one are compatible with each other, when no side is
    `add_quant` -/
theorem compatReq_euclid (f a b : CReq) (hf : RNoAQ f) (ha : RNoAQ a) (hb : RNoAQ b)
    (h1 : compatReq f a = .ok true) (h2 : compatReq f b = .ok true) : compatReq a b = .ok true := by
  refine compatReq_intro a b ?_ ?_
  · rcases compatReq_producers f a h1 with ⟨f1, a1⟩ | ⟨pf, pa, f1, a1, c1⟩
    · rcases compatReq_producers f b h2 with ⟨_, b1⟩ | ⟨pf', pb, f1', _, _⟩
      · exact Or.inl ⟨a1, b1⟩
      · rw [f1] at f1'; cases f1'
    · rcases compatReq_producers f b h2 with ⟨f1', _⟩ | ⟨pf', pb, f1', b1, c2⟩
      · rw [f1] at f1'; cases f1'
      · rw [f1] at f1'; cases f1'
        exact Or.inr ⟨pa, pb, a1, b1, compatO2T_euclid pf pa pb (hf _ (mem_allO_prod f1)) (ha _ (mem_allO_prod a1))
          (hb _ (mem_allO_prod b1)) c1 c2⟩
  · rcases compatReq_consumers f a h1 with ⟨f1, a1⟩ | ⟨cf, ca, f0, a0, f1, a1, hf0, ha0, _, hA, c1⟩
    · rcases compatReq_consumers f b h2 with ⟨_, b1⟩ | ⟨cf', cb, f0', b0, f1', _, _, _, _, _, _⟩
      · exact Or.inl ⟨a1, b1⟩
      · rw [f1] at f1'; cases f1'
    · rcases compatReq_consumers f b h2 with ⟨f1', _⟩ | ⟨cf', cb, f0', b0, f1', b1, hf0', hb0, _, hB, c2⟩
      · rw [f1] at f1'; cases f1'
      · rw [f1] at f1'; cases f1'
        rw [hf0] at hf0'; cases hf0'
        have m0 : f0 ∈ cf := List.mem_of_mem_head? hf0
        have ma : a0 ∈ ca := List.mem_of_mem_head? ha0
        have mb : b0 ∈ cb := List.mem_of_mem_head? hb0
        exact Or.inr ⟨ca, cb, a0, b0, a1, b1, ha0, hb0, hA, hB,
          compatO2T_euclid f0 a0 b0 (hf _ (mem_allO_cons f1 m0)) (ha _ (mem_allO_cons a1 ma))
            (hb _ (mem_allO_cons b1 mb)) c1 c2⟩

theorem compatReq_symm (a b : CReq) (ha : RNoAQ a) (hb : RNoAQ b) (h : compatReq a b = .ok true) :
    compatReq b a = .ok true :=
  compatReq_euclid a b a ha hb ha h (compatReq_self_left a b h)

/-- **the buffer-sharing check of the extracted model follows from that of the whole model**, provided no
    request on a tensor over a constant buffer has an `add_quant` side -/
theorem check_local_full (m : Model) (res : List (String × CReq)) (hnu : GenInstsOK.namesUnique m) (j : Nat)
    (sg : Subgraph) (hsg : m.subgraphs[j]? = some sg)
    (hconst : ∀ b n, (b, n) ∈ occ m → (∃ c, m.buffers[b]? = some (some c)) →
      ∀ r, Py.dictGet? res n = some r → RNoAQ r)
    (h : checkBufferSharing m res = .ok ()) :
    checkBufferSharing (extract m j sg) (keep (nameIn sg) res) = .ok () := by
  obtain ⟨S1, S2⟩ := check_sound m res h
  obtain ⟨pre, post, hsplit, _⟩ := subgraphs_split m j sg hsg
  have hmemsg : sg ∈ m.subgraphs := List.mem_of_getElem? hsg
  have hin : ∀ e ∈ occSg sg, nameIn sg e.2 = true := by
    intro e he
    obtain ⟨t, ht, _, htn⟩ := occSg_name sg e he
    rw [← htn]
    exact nameIn_of_mem sg t ht
  have hget : ∀ n, nameIn sg n = true → Py.dictGet? (keep (nameIn sg) res) n = Py.dictGet? res n :=
    fun n hn => dictGet?_keep (nameIn sg) res n hn
  -- the big list of a buffer contains the small one as a segment
  have hseg : ∀ b, ∃ A C, namesAt (occ m) b = A ++ namesAt (occSg sg) b ++ C := by
    intro b
    refine ⟨namesAt (pre.flatMap occSg) b, namesAt (post.flatMap occSg) b, ?_⟩
    unfold occ
    rw [hsplit, List.flatMap_append, List.flatMap_cons, namesAt_append, namesAt_append, List.append_assoc]
  -- what the big check says about a constant buffer
  have hbig : ∀ b, (∃ c, m.buffers[b]? = some (some c)) → namesAt (occ m) b ≠ [] →
      (∀ n ∈ namesAt (occ m) b, ∀ p, Py.dictGet? res n = some p → compatReq p p = .ok true) ∧
      (2 ≤ (namesAt (occ m) b).length →
        (∀ n ∈ namesAt (occ m) b, ∃ p, Py.dictGet? res n = some p) ∧
        ∀ n ∈ namesAt (occ m) b, ∀ n' ∈ namesAt (occ m) b, ∀ p p', Py.dictGet? res n = some p →
          Py.dictGet? res n' = some p' → compatReq p p' = .ok true) := by
    intro b hb hne
    have hent : (b, namesAt (occ m) b) ∈ bufferToTensors m := (b2t_entry m b _).2 ⟨rfl, hne⟩
    obtain ⟨A, B⟩ := S1 _ hent hb
    have hshape : ∀ n ∈ namesAt (occ m) b, ∀ r, Py.dictGet? res n = some r → RNoAQ r :=
      fun n hn r hr => hconst b n ((mem_namesAt _ _ _).1 hn) hb r hr
    generalize hL : namesAt (occ m) b = L at A B hshape hne ⊢
    match L, hne with
    | [only], _ =>
      refine ⟨?_, fun h2 => by simp at h2⟩
      intro n hn p hp
      rw [List.mem_singleton.1 hn] at hp
      exact A only rfl p hp
    | first :: second :: rest, _ =>
      obtain ⟨fp, hfp, hall⟩ := B first (second :: rest) rfl (by simp)
      have hF : RNoAQ fp := hshape first List.mem_cons_self fp hfp
      have key : ∀ n ∈ first :: second :: rest, ∀ p, Py.dictGet? res n = some p → compatReq fp p = .ok true := by
        intro n hn p hp
        rcases List.mem_cons.1 hn with rfl | hn
        · rw [hfp] at hp; cases hp
          obtain ⟨tp, _, hc⟩ := hall second List.mem_cons_self
          exact compatReq_self_left fp tp hc
        · obtain ⟨tp, htp, hc⟩ := hall n hn
          rw [htp] at hp; cases hp
          exact hc
      refine ⟨?_, fun _ => ⟨?_, ?_⟩⟩
      · intro n hn p hp
        exact compatReq_self_right fp p (key n hn p hp)
      · intro n hn
        rcases List.mem_cons.1 hn with rfl | hn
        · exact ⟨fp, hfp⟩
        · obtain ⟨tp, htp, _⟩ := hall n hn
          exact ⟨tp, htp⟩
      · intro n hn n' hn' p p' hp hp'
        exact compatReq_euclid fp p p' hF (hshape n hn p hp) (hshape n' hn' p' hp') (key n hn p hp) (key n' hn' p' hp')
  refine check_complete _ _ ?_ ?_
  · -- first loop
    rintro ⟨b, l⟩ he hdata
    obtain ⟨rfl, hne⟩ := (b2t_entry _ b l).1 he
    rw [occ_extract] at hne ⊢
    have hdata' : ∃ c, m.buffers[b]? = some (some c) := hdata
    obtain ⟨A, C, hAC⟩ := hseg b
    have hsubl : ∀ n ∈ namesAt (occSg sg) b, n ∈ namesAt (occ m) b := by
      intro n hn; rw [hAC]; simp [hn]
    have hneL : namesAt (occ m) b ≠ [] := by
      intro h0
      obtain ⟨n0, hn0⟩ := List.exists_mem_of_ne_nil _ hne
      have := hsubl n0 hn0
      rw [h0] at this
      cases this
    obtain ⟨B1, B2⟩ := hbig b hdata' hneL
    have hnames : ∀ n ∈ namesAt (occSg sg) b, nameIn sg n = true :=
      fun n hn => hin (b, n) ((mem_namesAt _ _ _).1 hn)
    refine ⟨?_, ?_⟩
    · intro only ho p hp
      have hm : only ∈ namesAt (occSg sg) b := by simp only at ho; rw [ho]; exact List.mem_cons_self
      rw [hget only (hnames only hm)] at hp
      exact B1 only (hsubl only hm) p hp
    · intro first rest ho hr
      simp only at ho
      have hlen : 2 ≤ (namesAt (occ m) b).length := by
        rw [hAC, ho]
        cases rest with
        | nil => exact absurd rfl hr
        | cons x xs => simp only [List.length_append, List.length_cons]; omega
      obtain ⟨C1, C2⟩ := B2 hlen
      have hmf : first ∈ namesAt (occSg sg) b := by rw [ho]; exact List.mem_cons_self
      obtain ⟨fp, hfp⟩ := C1 first (hsubl first hmf)
      refine ⟨fp, by rw [hget first (hnames first hmf)]; exact hfp, ?_⟩
      intro n hn
      have hmn : n ∈ namesAt (occSg sg) b := by rw [ho]; exact List.mem_cons_of_mem _ hn
      obtain ⟨tp, htp⟩ := C1 n (hsubl n hmn)
      exact ⟨tp, by rw [hget n (hnames n hmn)]; exact htp,
        C2 first (hsubl first hmf) n (hsubl n hmn) fp tp hfp htp⟩
  · -- second loop
    intro sg' hsg' t ht hun hdata n hn sp hsp
    have hsg'' : sg' = sg := by simpa [extract] using hsg'
    subst hsg''
    have hdata' : ∃ c, m.buffers[t.buffer]? = some (some c) := hdata
    have hun' : t.name ∉ (bufferToTensors m).flatMap (·.2) := by
      intro hmem
      apply hun
      obtain ⟨b, hb⟩ := (operands_mem m t.name).1 hmem
      refine (operands_mem _ t.name).2 ⟨b, ?_⟩
      rw [occ_extract]
      exact occ_own m hnu j sg' hsg b t.name (nameIn_of_mem sg' t ht) hb
    rw [b2t_get, occ_extract] at hn
    by_cases hnil : namesAt (occSg sg') t.buffer = []
    · rw [if_pos hnil] at hn; cases hn
    · rw [if_neg hnil] at hn
      simp only [Option.getD_some] at hn
      obtain ⟨A, C, hAC⟩ := hseg t.buffer
      have hnL : n ∈ namesAt (occ m) t.buffer := by rw [hAC]; simp [hn]
      have hn' : n ∈ (Py.dictGet? (bufferToTensors m) t.buffer).getD [] := by
        rw [b2t_get]
        have : namesAt (occ m) t.buffer ≠ [] := by intro h0; rw [h0] at hnL; cases hnL
        rw [if_neg this]
        exact hnL
      have hnn : nameIn sg' n = true := hin (t.buffer, n) ((mem_namesAt _ _ _).1 hn)
      rw [hget n hnn] at hsp
      exact S2 sg' hmemsg t ht hun' hdata' n hn' sp hsp

end Locality
