import QProofs.IOStep
/-!
# C02, I/O contract, graph stage: the graph outputs, the new tensors and the signatures through the
whole run of `transformGraph`

Invariants carried through the run (rule `IOStep.run_ruleO`):
* `News`: every NEW tensor `n` was appended by ONE op-adding instruction `ins` of `tis` (`NewT`): its
  record is EXACTLY `newRecord …` -- float32 over buffer 0 (retyped for a QUANTIZE), the shape of the ORIGINAL
  tensor `ins.tensor`, and the name `uniqueName (names of the tensors before n) (original name ++ suffix)`;
  the inserted operator `newOp ci ins.tensor n` is in the graph and `ci` resolves to QUANTIZE / DEQUANTIZE;
* `Outs`: graph output position `j` holds the original output tensor `t`, or a NEW tensor created by an
  op-adding instruction on `t` that lists the graph-output marker;
* `SigKeep`: a signature output entry that does not denote a graph output is unchanged;
* `WiredOut` (per instruction): after an op-adding instruction on `t` that lists the graph-output marker,
  every graph output position that held `t` holds a NEW tensor.
-/
open Graph Perform GraphStep GraphFrame GraphInv Skeleton SkeletonProof StepTypes Wiring SharingE2E TypingGraph
open IOStep

namespace IOInv

/-- the NEW tensor `n` of the current subgraph `sg` was appended by the op-adding instruction `ins` -/
structure NewT (pt : PTable) (tis : List TInsts) (st : PState) (s : Nat) (sg0 sg : Subgraph) (n : Nat)
    (ti : TInsts) (ins : Inst) : Prop where
  hti : ti ∈ tis
  hins : ins ∈ ti.insts
  hs : ti.sg = s
  adds : addsOp ins.xf = true
  ge : sg0.tensors.length ≤ n
  t0 : 0 ≤ ins.tensor
  record : ∃ tn0 p pi ty, sg0.tensors[ins.tensor.toNat]? = some tn0 ∧ ins.param = some p ∧
    pinfo pt p = some pi ∧ dtypeOf pi = .ok ty ∧
    sg.tensors[n]? = some (newRecord pi p ty ins.xf
      (uniqueName ((sg.tensors.take n).map (·.name)) (tn0.name ++ sfx ins.xf)) tn0)
  op : ∃ ci, newOp ci ins.tensor (n : Int) ∈ sg.ops ∧ st.model.opcodes[ci]? = some (insCode ins.xf)

theorem NewT.lt {pt : PTable} {tis : List TInsts} {st : PState} {s : Nat} {sg0 sg : Subgraph} {n : Nat}
    {ti : TInsts} {ins : Inst} (N : NewT pt tis st s sg0 sg n ti ins) : n < sg.tensors.length := by
  obtain ⟨_, _, _, _, _, _, _, _, hr⟩ := N.record
  exact (List.getElem?_eq_some_iff.1 hr).1

theorem NewT.mono {pt : PTable} {tis : List TInsts} {st : PState} {s : Nat} {sg0 sg : Subgraph} {n : Nat}
    {ti : TInsts} {ins : Inst} (N : NewT pt tis st s sg0 sg n ti ins) (st' : PState) (sg' : Subgraph)
    (hT : sg'.tensors[n]? = sg.tensors[n]?)
    (hN : (sg'.tensors.take n).map (·.name) = (sg.tensors.take n).map (·.name))
    (hop : ∀ o ∈ sg.ops, o.orig = none → o ∈ sg'.ops)
    (hc : ∀ (i : Nat) (c : Nat), st.model.opcodes[i]? = some c → st'.model.opcodes[i]? = some c) :
    NewT pt tis st' s sg0 sg' n ti ins := by
  obtain ⟨tn0, p, pi, ty, r1, r2, r3, r4, r5⟩ := N.record
  obtain ⟨ci, o1, o2⟩ := N.op
  exact ⟨N.hti, N.hins, N.hs, N.adds, N.ge, N.t0, ⟨tn0, p, pi, ty, r1, r2, r3, r4, by rw [hT, hN]; exact r5⟩,
    ⟨ci, hop _ o1 rfl, hc _ _ o2⟩⟩

/-! ## what one step does, in the form used below -/

theorem step_facts {pt : PTable} {m : Model} {ti : TInsts} {ins : Inst} {st st' : PState}
    (S : StepO pt m ti.sg ins st st') (sg0 : Subgraph) (h0 : m.subgraphs[ti.sg]? = some sg0) :
    ∃ (sg sg' : Subgraph) (tn0 tn : Tensor), st.model.subgraphs[ti.sg]? = some sg ∧
      st'.model.subgraphs[ti.sg]? = some sg' ∧ 0 ≤ ins.tensor ∧ ins.tensor < sg0.tensors.length ∧
      sg0.tensors[ins.tensor.toNat]? = some tn0 ∧ sg.tensors[ins.tensor.toNat]? = some tn ∧
      tn.name = tn0.name ∧ tn.shape = tn0.shape ∧ sg0.tensors.length ≤ sg.tensors.length ∧
      (∀ i, i < sg.tensors.length → i ≠ ins.tensor.toNat → sg'.tensors[i]? = sg.tensors[i]?) ∧
      (∀ n, n ≤ sg.tensors.length → (sg'.tensors.take n).map (·.name) = (sg.tensors.take n).map (·.name)) ∧
      sg'.tensors.length = sg.tensors.length + (if addsOp ins.xf = true then 1 else 0) ∧
      SkInv sg0 sg ∧ sg.outputs.length = sg0.outputs.length := by
  obtain ⟨sg, sg', tn0, tn, p, pi, ty, d1, d2, d3, d4, d5, d6, d7, d8, d9, d10, d11, d12, d13⟩ :=
    S.stepI.stepB.digest sg0 h0
  have hv := S.stepI.stepB.step.tvalid sg0 h0
  have K := S.stepI.stepB.step.base.sk.sgs _ sg0 sg h0 d1
  have hlt : ins.tensor.toNat < sg0.tensors.length := (List.getElem?_eq_some_iff.1 d4).1
  have hfr := K.tframe
  rw [tensorFrame_eq, tensorFrame_eq] at hfr
  have hfr' := congrArg (·[ins.tensor.toNat]?) hfr
  simp only [List.getElem?_take, hlt, if_true, List.getElem?_map, d5, d4, Option.map_some,
    Option.some.injEq, ns, Prod.mk.injEq] at hfr'
  refine ⟨sg, sg', tn0, tn, d1, d2, d3, hv.2, d4, d5, hfr'.1, hfr'.2, d10, ?_, ?_, ?_, K, ?_⟩
  · intro i hi hne
    have hg : sg.tensors[i]? = some sg.tensors[i] := List.getElem?_eq_getElem hi
    rw [d11 i _ hg, if_neg (fun h => hne h.2), hg]
  · intro n hn
    apply List.ext_getElem?
    intro j
    simp only [List.getElem?_map, List.getElem?_take]
    by_cases hjn : j < n
    · simp only [hjn, if_true]
      have hj : j < sg.tensors.length := by omega
      have hg : sg.tensors[j]? = some sg.tensors[j] := List.getElem?_eq_getElem hj
      rw [d11 j _ hg, hg]
      simp only [Option.map_some, Option.some.injEq]
      split
      · rename_i hc
        rw [retype_name]
        have : sg.tensors[j]? = some tn := by rw [hc.2]; exact d5
        rw [hg] at this
        cases this
        rfl
      · rfl
    · simp only [hjn, if_false]
  · obtain ⟨_, sga, sgb, _, _, _, pp, ppi, pty, ptn, pnm, g0, g1, g1', _, _, _, _, _, _, _, _, hT, _⟩ :=
      S.stepI.stepB.step.eff
    rw [d1] at g1; cases g1
    rw [d2] at g1'; cases g1'
    rw [hT, List.length_append]
    congr 1
    · split <;> simp
    · split <;> rfl
  · have := congrArg List.length K.outs
    unfold eraseOutputs at this
    simpa using this

/-- the record / operator of the tensor appended by this step -/
theorem newT_self {pt : PTable} {m : Model} {tis : List TInsts} {ti : TInsts} {ins : Inst} {st st' : PState}
    (hti : ti ∈ tis) (hins : ins ∈ ti.insts) (S : StepO pt m ti.sg ins st st')
    (hadd : addsOp ins.xf = true) (sg0 sg sg' : Subgraph) (h0 : m.subgraphs[ti.sg]? = some sg0)
    (h1 : st.model.subgraphs[ti.sg]? = some sg) (h2 : st'.model.subgraphs[ti.sg]? = some sg') :
    NewT pt tis st' ti.sg sg0 sg' sg.tensors.length ti ins := by
  obtain ⟨sgx, sgx', tn0, tn, d1, d2, d3, d3', d4, d5, d6, d7, d8, d9, d10, d11, K, -⟩ := step_facts S sg0 h0
  rw [h1] at d1; cases d1
  rw [h2] at d2; cases d2
  obtain ⟨tnc, p, pi, ty, n1, n2, n3, n4, n5⟩ := S.newT hadd sg sg' h1 h2
  rw [d5] at n1; cases n1
  refine ⟨hti, hins, rfl, hadd, d8, d3, ⟨tn0, p, pi, ty, d4, n2, n3, n4, ?_⟩, ?_⟩
  · rw [n5, d10 _ (Nat.le_refl _), List.take_length, d6, newRecord_congr _ _ _ _ _ _ _ d7]
  · rcases S.stepI.sub sg sg' h1 h2 with ⟨hna, -⟩ | ⟨-, ci, hci1, hci2, -⟩
    · rw [hadd] at hna; cases hna
    · exact ⟨ci, hci1, hci2⟩

/-! ## the new tensors -/

def News (pt : PTable) (m : Model) (tis : List TInsts) (st : PState) : Prop :=
  ∀ (s : Nat) (sg0 sg : Subgraph), m.subgraphs[s]? = some sg0 → st.model.subgraphs[s]? = some sg →
    ∀ n, sg0.tensors.length ≤ n → n < sg.tensors.length → ∃ ti ins, NewT pt tis st s sg0 sg n ti ins

theorem news_init (pt : PTable) (m : Model) (tis : List TInsts) : News pt m tis (st0 m) := by
  intro s sg0 sg h0 h1 n hn hn'
  have h1' : m.subgraphs[s]? = some sg := h1
  rw [h0] at h1'; cases h1'
  omega

theorem news_step {pt : PTable} {m : Model} {tis : List TInsts} {ti : TInsts} {ins : Inst} {st st' : PState}
    (hti : ti ∈ tis) (hins : ins ∈ ti.insts) (S : StepO pt m ti.sg ins st st') (J : News pt m tis st) :
    News pt m tis st' := by
  intro s sg0 sgN h0 h1' n hn hn'
  by_cases hs : s = ti.sg
  · subst hs
    obtain ⟨sg, sg', tn0, tn, d1, d2, d3, d3', d4, d5, d6, d7, d8, d9, d10, d11, K, -⟩ := step_facts S sg0 h0
    rw [h1'] at d2; cases d2
    by_cases hold : n < sg.tensors.length
    · obtain ⟨ti1, ins1, N⟩ := J _ sg0 sg h0 d1 n hn hold
      exact ⟨ti1, ins1, N.mono st' sgN (d9 n hold (by omega)) (d10 n (by omega))
        (S.stepI.keep sg sgN d1 h1') S.stepI.codes⟩
    · have hadd : addsOp ins.xf = true := by
        cases hna : addsOp ins.xf with
        | true => rfl
        | false =>
          rw [hna] at d11
          simp only [Bool.false_eq_true, if_false] at d11
          omega
      rw [if_pos hadd] at d11
      have hnn : n = sg.tensors.length := by omega
      subst hnn
      exact ⟨ti, ins, newT_self hti hins S hadd sg0 sg sgN h0 d1 h1'⟩
  · obtain ⟨e1, e2⟩ := S.stepI.stepB.step.others s hs
    rw [e1] at h1'
    obtain ⟨ti1, ins1, N⟩ := J s sg0 sgN h0 h1' n hn hn'
    exact ⟨ti1, ins1, N.mono st' sgN rfl rfl (fun o ho _ => ho) S.stepI.codes⟩

/-! ## the graph outputs -/

def Outs (pt : PTable) (m : Model) (tis : List TInsts) (st : PState) : Prop :=
  ∀ (s : Nat) (sg0 sg : Subgraph), m.subgraphs[s]? = some sg0 → st.model.subgraphs[s]? = some sg →
    ∀ (j : Nat) (t : Int), sg0.outputs[j]? = some t →
      sg.outputs[j]? = some t ∨
      ∃ (n : Nat) (ti : TInsts) (ins : Inst), sg.outputs[j]? = some (n : Int) ∧ ins.tensor = t ∧
        ListsOut ins ∧ NewT pt tis st s sg0 sg n ti ins

theorem outs_init (pt : PTable) (m : Model) (tis : List TInsts) : Outs pt m tis (st0 m) := by
  intro s sg0 sg h0 h1 j t hj
  have h1' : m.subgraphs[s]? = some sg := h1
  rw [h0] at h1'; cases h1'
  exact .inl hj

theorem outs_step {pt : PTable} {m : Model} {tis : List TInsts} {ti : TInsts} {ins : Inst} {st st' : PState}
    (hti : ti ∈ tis) (hins : ins ∈ ti.insts) (S : StepO pt m ti.sg ins st st') (J : Outs pt m tis st) :
    Outs pt m tis st' := by
  intro s sg0 sgN h0 h1' j t hj
  by_cases hs : s = ti.sg
  · subst hs
    obtain ⟨sg, sg', tn0, tn, d1, d2, d3, d3', d4, d5, d6, d7, d8, d9, d10, d11, K, -⟩ := step_facts S sg0 h0
    rw [h1'] at d2; cases d2
    have hmono : ∀ n ti1 ins1, NewT pt tis st ti.sg sg0 sg n ti1 ins1 →
        NewT pt tis st' ti.sg sg0 sgN n ti1 ins1 := fun n ti1 ins1 N =>
      N.mono st' sgN (d9 n N.lt (by have := N.ge; omega)) (d10 n (by have := N.lt; omega))
        (S.stepI.keep sg sgN d1 h1') S.stepI.codes
    by_cases hc : addsOp ins.xf = true ∧ ListsOut ins
    · have hO := S.outsYes hc.1 hc.2 sg sgN d1 h1'
      rcases J _ sg0 sg h0 d1 j t hj with h | ⟨n, ti1, ins1, hn, e1, e2, N⟩
      · by_cases hte : t = ins.tensor
        · right
          refine ⟨sg.tensors.length, ti, ins, ?_, hte.symm, hc.2,
            newT_self hti hins S hc.1 sg0 sg sgN h0 d1 h1'⟩
          rw [hO, List.getElem?_map, h, Option.map_some, if_pos (by rw [hte]; exact beq_self_eq_true _)]
        · left
          rw [hO, List.getElem?_map, h, Option.map_some, if_neg (by simpa using hte)]
      · right
        refine ⟨n, ti1, ins1, ?_, e1, e2, hmono n ti1 ins1 N⟩
        have hne : ¬ ((n : Int) = ins.tensor) := by have := N.ge; omega
        rw [hO, List.getElem?_map, hn, Option.map_some, if_neg (by simpa using hne)]
    · have hO := S.outsNo hc sg sgN d1 h1'
      rw [hO]
      rcases J _ sg0 sg h0 d1 j t hj with h | ⟨n, ti1, ins1, hn, e1, e2, N⟩
      · exact .inl h
      · exact .inr ⟨n, ti1, ins1, hn, e1, e2, hmono n ti1 ins1 N⟩
  · obtain ⟨e1, e2⟩ := S.stepI.stepB.step.others s hs
    rw [e1] at h1'
    rcases J s sg0 sgN h0 h1' j t hj with h | ⟨n, ti1, ins1, hn, e1, e2, N⟩
    · exact .inl h
    · exact .inr ⟨n, ti1, ins1, hn, e1, e2, N.mono st' sgN rfl rfl (fun o ho _ => ho) S.stepI.codes⟩

/-- after an op-adding instruction on `t` that lists the graph-output marker, every graph output position
    that held `t` holds a NEW tensor -/
def WiredOut (m : Model) (ti : TInsts) (ins : Inst) (st : PState) : Prop :=
  addsOp ins.xf = true → ListsOut ins → ∀ (sg0 sg : Subgraph), m.subgraphs[ti.sg]? = some sg0 →
    st.model.subgraphs[ti.sg]? = some sg → ∀ j : Nat, sg0.outputs[j]? = some ins.tensor →
    ∃ x, sg.outputs[j]? = some x ∧ (sg0.tensors.length : Int) ≤ x

theorem wiredOut_self {pt : PTable} {m : Model} {tis : List TInsts} {ti : TInsts} {ins : Inst}
    {st st' : PState} (S : StepO pt m ti.sg ins st st') (J : Outs pt m tis st) : WiredOut m ti ins st' := by
  intro hadd hl sg0 sgN h0 h1' j hj
  obtain ⟨sg, sg', tn0, tn, d1, d2, d3, d3', d4, d5, d6, d7, d8, d9, d10, d11, K, -⟩ := step_facts S sg0 h0
  rw [h1'] at d2; cases d2
  have hO := S.outsYes hadd hl sg sgN d1 h1'
  rcases J _ sg0 sg h0 d1 j _ hj with h | ⟨n, ti1, ins1, hn, e1, e2, N⟩
  · refine ⟨(sg.tensors.length : Int), ?_, by omega⟩
    rw [hO, List.getElem?_map, h, Option.map_some, if_pos (beq_self_eq_true _)]
  · refine ⟨(n : Int), ?_, by have := N.ge; omega⟩
    have hne : ¬ ((n : Int) = ins.tensor) := by have := N.ge; omega
    rw [hO, List.getElem?_map, hn, Option.map_some, if_neg (by simpa using hne)]

theorem wiredOut_step {pt : PTable} {m : Model} {ti ti' : TInsts} {ins ins' : Inst}
    {st st' : PState} (S : StepO pt m ti.sg ins st st') (W : WiredOut m ti' ins' st) :
    WiredOut m ti' ins' st' := by
  intro hadd hl sg0 sgN h0 h1' j hj
  by_cases hs : ti'.sg = ti.sg
  · rw [hs] at h0 h1'
    obtain ⟨sg, sg', tn0, tn, d1, d2, d3, d3', d4, d5, d6, d7, d8, d9, d10, d11, K, -⟩ := step_facts S sg0 h0
    rw [h1'] at d2; cases d2
    obtain ⟨x, hx, hxl⟩ := W hadd hl sg0 sg (hs ▸ h0) (hs ▸ d1) j hj
    refine ⟨x, ?_, hxl⟩
    by_cases hc : addsOp ins.xf = true ∧ ListsOut ins
    · have hne : ¬ (x = ins.tensor) := by omega
      rw [S.outsYes hc.1 hc.2 sg sgN d1 h1', List.getElem?_map, hx, Option.map_some,
        if_neg (by simpa using hne)]
    · rw [S.outsNo hc sg sgN d1 h1']; exact hx
  · obtain ⟨e1, -⟩ := S.stepI.stepB.step.others ti'.sg hs
    rw [e1] at h1'
    exact W hadd hl sg0 sgN h0 h1' j hj

/-! ## signature output entries that do not denote a graph output -/

def SigKeep (m : Model) (st : PState) : Prop :=
  ∀ (i : Nat) (s0 s1 : Sig) (sg0 : Subgraph), m.sigs[i]? = some s0 → st.model.sigs[i]? = some s1 →
    m.subgraphs[s0.sg]? = some sg0 → ∀ (k : Nat) (e0 : String × Int), s0.outputs[k]? = some e0 →
    e0.2 ∉ sg0.outputs → s1.outputs[k]? = some e0

theorem sigKeep_init (m : Model) : SigKeep m (st0 m) := by
  intro i s0 s1 sg0 h0 h1 _ k e0 hk _
  have h1' : m.sigs[i]? = some s1 := h1
  rw [h0] at h1'; cases h1'
  exact hk

theorem sigKeep_step {pt : PTable} {m : Model} {tis : List TInsts} {ti : TInsts} {ins : Inst}
    {st st' : PState} (hwf : WF.modelOK m = true) (S : StepO pt m ti.sg ins st st')
    (JO : Outs pt m tis st) (J : SigKeep m st) : SigKeep m st' := by
  intro i s0 s1' sg0s h0 h1' h2 k e0 hk hne
  obtain ⟨sg0t, _, _, _, _, _, _, _, _, _, _, g0, _⟩ := S.stepI.stepB.step.eff
  obtain ⟨sg, sg', tn0, tn, d1, d2, d3, d3', d4, d5, d6, d7, d8, d9, d10, d11, K, hol⟩ := step_facts S sg0t g0
  have hsig := S.sigs sg sg' d1 d2
  rw [hsig, updateSigs_eq, List.getElem?_map] at h1'
  cases hsi : st.model.sigs[i]? with
  | none => simp [hsi] at h1'
  | some s1 =>
    simp only [hsi, Option.map_some, Option.some.injEq] at h1'
    subst h1'
    have hk1 := J i s0 s1 sg0s h0 hsi h2 k e0 hk hne
    obtain ⟨sgc, -, hsgc, -, -⟩ := S.stepI.stepB.step.base.cur s0.sg sg0s h2
    have R := S.stepI.stepB.step.base.sk.sigs i s0 s1 sg0s sgc h0 hsi h2 hsgc
    by_cases hs : s0.sg = ti.sg
    · have h2' : m.subgraphs[ti.sg]? = some sg0s := hs ▸ h2
      rw [g0] at h2'; cases h2'
      -- the entry is not a CURRENT graph output either
      have hcur : e0.2 ∉ sg.outputs := by
        intro hmem
        obtain ⟨j, hj⟩ := List.mem_iff_getElem?.1 hmem
        have hjl : j < sg0s.outputs.length := by rw [← hol]; exact (List.getElem?_eq_some_iff.1 hj).1
        rcases JO _ sg0s sg g0 d1 j _ (List.getElem?_eq_getElem hjl) with h | ⟨n, ti1, ins1, hn, -, -, N⟩
        · rw [hj] at h
          have he : e0.2 = sg0s.outputs[j] := Option.some.inj h
          exact hne (he ▸ List.getElem_mem hjl)
        · rw [hj] at hn
          have hsigOK := ((modelOK_iff m).1 hwf).2.2 s0 (List.mem_of_getElem? h0)
          unfold WF.sigOK at hsigOK
          rw [hs, g0] at hsigOK
          simp only [Bool.and_eq_true, List.all_eq_true] at hsigOK
          have hv := (validT_iff _ _).1 (hsigOK.2 e0 (List.mem_of_getElem? hk))
          unfold ValidT at hv
          have := N.ge
          have he : e0.2 = (n : Int) := Option.some.inj hn
          omega
      unfold updSig
      split
      · exact hk1
      · split
        · exact hk1
        · simp only [List.getElem?_map, hk1, Option.map_some]
          have hnone : (((sg.outputs.zip sg'.outputs).filter fun p => p.1 != p.2).reverse.find?
              (·.1 == e0.2)) = none := by
            rw [List.find?_eq_none]
            intro p hp
            have hz := (List.mem_filter.1 (List.mem_reverse.1 hp)).1
            have hp1 : p.1 ∈ sg.outputs := (List.of_mem_zip (a := p.1) (b := p.2) hz).1
            simp only [beq_iff_eq]
            intro heq
            exact hcur (heq ▸ hp1)
          rw [hnone]
    · rw [updSig_other _ _ _ _ (by rw [R.sgi]; exact hs)]
      exact hk1

/-! ## the whole run -/

structure IOFin (pt : PTable) (m : Model) (tis : List TInsts) (st : PState) : Prop where
  base : Base m st
  news : News pt m tis st
  outs : Outs pt m tis st
  sigk : SigKeep m st
  wired : ∀ ti ∈ tis, ∀ ins ∈ ti.insts, WiredOut m ti ins st

theorem run_io (pt : PTable) (m m' : Model) (tis : List TInsts)
    (hwf : WF.modelOK m = true) (htag : origTagged m = true)
    (hok : ∀ ti ∈ tis, TInstsOK pt m ti) (h : transformGraph pt m tis = .ok m') :
    ∃ st, st.model = m' ∧ IOFin pt m tis st := by
  unfold transformGraph at h
  simp only at h
  obtain ⟨st, hfold, h⟩ := bind_ok _ _ _ h
  cases h
  obtain ⟨B, ⟨j1, j2, j3⟩, d⟩ := run_ruleO pt m tis
    (fun s => News pt m tis s ∧ Outs pt m tis s ∧ SigKeep m s)
    (fun ti ins s => WiredOut m ti ins s) hwf hok
    (fun ti hti ins hins s s' S j =>
      ⟨news_step hti hins S j.1, outs_step hti hins S j.2.1, sigKeep_step hwf S j.2.1 j.2.2⟩)
    (fun ti hti ins hins s s' S j => wiredOut_self S j.2.1)
    (fun ti hti ins hins ti' ins' s s' S j hd => wiredOut_step S hd)
    (st0 m) st (base_init m hwf htag) ⟨news_init pt m tis, outs_init pt m tis, sigKeep_init m⟩ hfold
  exact ⟨st, rfl, B, j1, j2, j3,
    fun ti hti ins hins hadd => d ti hti ins hins (addsOp_insertion _ hadd) hadd⟩

/-! ## reading off the final state -/

/-- `tis` contains an op-adding instruction on tensor `t` of subgraph `s` that lists the graph-output
    marker -/
def WiresOut (tis : List TInsts) (s : Nat) (t : Int) : Prop :=
  ∃ ti ∈ tis, ∃ ins ∈ ti.insts, ti.sg = s ∧ ins.tensor = t ∧ addsOp ins.xf = true ∧ ListsOut ins

/-- **graph output position `j` of the output**: it holds the original output tensor `t` and no op-adding
    instruction on `t` lists the graph-output marker, or it holds a NEW tensor appended by such an
    instruction -/
theorem out_final {pt : PTable} {m : Model} {tis : List TInsts} {st : PState} (F : IOFin pt m tis st)
    (hwf : WF.modelOK m = true) (s : Nat) (sg sg' : Subgraph) (hsg : m.subgraphs[s]? = some sg)
    (hsg' : st.model.subgraphs[s]? = some sg') (j : Nat) (t : Int) (hj : sg.outputs[j]? = some t) :
    (sg'.outputs[j]? = some t ∧ ¬ WiresOut tis s t) ∨
    ∃ (n : Nat) (ti : TInsts) (ins : Inst), sg'.outputs[j]? = some (n : Int) ∧ ins.tensor = t ∧
      ListsOut ins ∧ NewT pt tis st s sg sg' n ti ins := by
  rcases F.outs s sg sg' hsg hsg' j t hj with h | h
  · left
    refine ⟨h, ?_⟩
    rintro ⟨ti, hti, ins, hins, rfl, rfl, hadd, hl⟩
    obtain ⟨x, hx, hxl⟩ := F.wired ti hti ins hins hadd hl sg sg' hsg hsg' j hj
    rw [h] at hx
    cases hx
    have hsgOK : SgOK m sg := ((modelOK_iff m).1 hwf).2.1 sg (List.mem_of_getElem? hsg)
    have hv := hsgOK.outs _ (List.mem_of_getElem? hj)
    unfold ValidT at hv
    omega
  · exact .inr h

end IOInv
