import QProofs.BlockwiseLaws
/-!
# The per-block reference (`Blockwise.refMinMax`, `refParams`, `refQuantize`): what honouring the granularity would mean

Statistics reduced over the block axis only (`axis=(0, 2)`): one (zero point, scale) per (block, channel), at flat
position `b * o + c` of the `[1, f/bs, 1, o]` parameter arrays; every element is quantized with the parameters of ITS block.
-/
open Num Nd Arith MatParams Blockwise

set_option autoImplicit false

namespace BlockwiseL

open GraphInv (bind_ok)

theorem cell_block (o bs j c : Nat) (hc : c < o) : (j * o + c) / (bs * o) * o + (j * o + c) % o = j / bs * o + c := by
  rw [idx_mod o j c hc, Nat.mul_comm bs o, ← Nat.div_div_eq_div_mul, idx_div o j c hc]

theorem blk_lt (f bs b k : Nat) (hdvd : bs ∣ f) (hb : b < f / bs) (hk : k < bs) : b * bs + k < f := by
  calc b * bs + k < b * bs + bs := by omega
    _ = (b + 1) * bs := by rw [Nat.add_mul, Nat.one_mul]
    _ ≤ f / bs * bs := Nat.mul_le_mul_right _ hb
    _ = f := Nat.div_mul_cancel hdvd

theorem blk_div (bs b k : Nat) (hk : k < bs) : (b * bs + k) / bs = b := by
  have h0 : 0 < bs := by omega
  rw [Nat.add_comm, Nat.add_mul_div_right _ _ h0, Nat.div_eq_of_lt hk, Nat.zero_add]

/-- **per-block statistics**: cell `(b, c)` of `np.min/np.max(reshaped, axis=(0,2))` is the extremum of block `b` of row `c` -/
theorem block_stats (f' : Rat → Rat → Rat) (R : Rat → Rat → Prop) (hf : Sel f' R) (o f bs : Nat) (hdvd : bs ∣ f)
    (d : List Rat) (r : Arr Rat)
    (h : reduceKeep f' ⟨[1, f / bs, bs, o], tdata o f d⟩ (some [0, 2]) = .ok r) :
    0 < o ∧ 0 < f ∧ r.shape = [1, f / bs, 1, o] ∧ r.data.length = f / bs * o ∧
    ∀ c < o, ∀ b < f / bs, IsSel R (fun k => el d f c (b * bs + k)) bs (r.data.getD (b * o + c) 0) := by
  have hfb : f / bs * bs = f := Nat.div_mul_cancel hdvd
  have hsize : ∀ i, i < (⟨[1, f / bs, bs, o], tdata o f d⟩ : Arr Rat).size ↔ i < f * o := by
    intro i; show i < (tdata o f d).length ↔ _; rw [tdata_length]
  have hks : keepShape [1, f / bs, bs, o] (some [0, 2]) = [1, f / bs, 1, o] := keep02 _ _ _ _
  obtain ⟨hne, hs, hl, hc⟩ := reduce_cells f' R hf _ _ r h (fun i => i / (bs * o) * o + i % o)
    (fun i hi => by
      show bindex [1, f / bs, bs, o] (keepShape [1, f / bs, bs, o] (some [0, 2])) i = _
      rw [hks]
      exact bindex_block _ _ _ i (by rw [hfb]; exact (hsize i).1 hi))
  have hne' : tdata o f d ≠ [] := hne
  have hlen : 0 < f * o := by
    have : (tdata o f d).length ≠ 0 := fun h0 => hne' (List.eq_nil_of_length_eq_zero h0)
    rw [tdata_length] at this; omega
  obtain ⟨hf0, ho0⟩ := pos_of_mul_pos hlen
  have hbs0 : 0 < bs := by
    rcases Nat.eq_zero_or_pos bs with h0 | h0
    · rw [h0, Nat.mul_zero] at hfb; omega
    · exact h0
  have hs' : r.shape = [1, f / bs, 1, o] := hs.trans hks
  have hnum : numel (keepShape [1, f / bs, bs, o] (some [0, 2])) = f / bs * o := by rw [hks, numel4]; simp
  have hl' : r.data.length = f / bs * o := hl.trans hnum
  refine ⟨ho0, hf0, hs', hl', ?_⟩
  intro c hco b hb
  have hm : b * o + c < f / bs * o := idx_lt o (f / bs) b c hco hb
  have hwit : (b * bs + 0) * o + c < f * o := idx_lt o f _ c hco (blk_lt f bs b 0 hdvd hb hbs0)
  obtain ⟨⟨i, hi, hji, e⟩, hall⟩ := hc (b * o + c) (by rw [hnum]; exact hm)
    ⟨(b * bs + 0) * o + c, (hsize _).2 hwit, by
      show ((b * bs + 0) * o + c) / (bs * o) * o + ((b * bs + 0) * o + c) % o = b * o + c
      rw [cell_block o bs _ c hco, blk_div bs b 0 hbs0]⟩
  have hi' : i < f * o := (hsize i).1 hi
  -- decompose `i = j * o + c'`
  have hio : i / o * o + i % o = i := by rw [Nat.mul_comm]; exact Nat.div_add_mod i o
  have hc' : i % o < o := Nat.mod_lt _ ho0
  have hji' : i / (bs * o) * o + i % o = b * o + c := hji
  have hcell : i / o / bs * o + i % o = b * o + c := by
    have := cell_block o bs (i / o) (i % o) hc'
    rw [hio] at this
    rw [← this]; exact hji'
  have hcc : i % o = c := by
    have h1 := idx_mod o (i / o / bs) (i % o) hc'
    rw [hcell, idx_mod o b c hco] at h1
    exact h1.symm
  have hbb : i / o / bs = b := by
    have h1 := idx_div o (i / o / bs) (i % o) hc'
    rw [hcell, idx_div o b c hco] at h1
    exact h1.symm
  have hjdec : b * bs + i / o % bs = i / o := by
    rw [← hbb, Nat.mul_comm]; exact Nat.div_add_mod (i / o) bs
  refine ⟨⟨i / o % bs, Nat.mod_lt _ hbs0, ?_⟩, ?_⟩
  · have e' : r.data.getD (b * o + c) 0 = (tdata o f d).getD i 0 := e
    rw [e', tdata_getD o f d i hi', hcc]
    show d.getD (c * f + i / o) 0 = el d f c (b * bs + i / o % bs)
    rw [hjdec]
    rfl
  · intro k hk
    have hj : b * bs + k < f := blk_lt f bs b k hdvd hb hk
    have := hall ((b * bs + k) * o + c) ((hsize _).2 (idx_lt o f _ c hco hj)) (by
      show ((b * bs + k) * o + c) / (bs * o) * o + ((b * bs + k) * o + c) % o = b * o + c
      rw [cell_block o bs _ c hco, blk_div bs b k hk])
    have e' : R (r.data.getD (b * o + c) 0) ((tdata o f d).getD ((b * bs + k) * o + c) 0) := this
    rw [tdata_el o f d _ c hco hj] at e'
    exact e'

/-- `Blockwise.refMinMax`: shape `[1, f/bs, 1, o]`; cell `(b, c)` holds the extrema of block `b` of row `c` -/
theorem refMinMax_spec (o f bs : Nat) (d : List Rat) (pr : Prec) (mn mx : FArr)
    (h : refMinMax ⟨⟨[o, f], d⟩, pr⟩ bs = .ok (mn, mx)) :
    0 < bs ∧ bs ∣ f ∧ 0 < o ∧ 0 < f ∧ mn.pr = pr ∧ mx.pr = pr ∧
    mn.arr.shape = [1, f / bs, 1, o] ∧ mx.arr.shape = [1, f / bs, 1, o] ∧
    ∀ c < o, ∀ b < f / bs, mn.arr.data.getD (b * o + c) 0 = blockMin d f bs c b ∧
      mx.arr.data.getD (b * o + c) 0 = blockMax d f bs c b := by
  unfold refMinMax at h
  obtain ⟨r, hr, h⟩ := bind_ok _ _ _ h
  obtain ⟨a, ha, h⟩ := bind_ok _ _ _ h
  obtain ⟨b, hb, h⟩ := bind_ok _ _ _ h
  simp only [pure, Except.pure, Except.ok.injEq, Prod.mk.injEq] at h
  obtain ⟨rfl, rfl⟩ := h
  obtain ⟨hbs, hdvd, rfl⟩ := reshaped_ok o f bs d r hr
  obtain ⟨ho, hf, s1, _, c1⟩ := block_stats minR _ sel_min o f bs hdvd d a ha
  obtain ⟨_, _, s2, _, c2⟩ := block_stats maxR _ sel_max o f bs hdvd d b hb
  refine ⟨hbs, hdvd, ho, hf, rfl, rfl, s1, s2, ?_⟩
  intro c hc bb hbb
  exact ⟨isSel_le_unique (c1 c hc bb hbb) (segMin_isSel _ bs hbs), isSel_ge_unique (c2 c hc bb hbb) (segMax_isSel _ bs hbs)⟩

/-- `Blockwise.refParams`: one (zero point, scale) per (block, channel), from the extrema of THAT block -/
theorem refParams_spec (o f bs bits : Nat) (sym : Bool) (d : List Rat) (pr : Prec) (qp : QParams)
    (h : Blockwise.refParams ⟨⟨[o, f], d⟩, pr⟩ bs bits sym = .ok qp) :
    0 < bs ∧ bs ∣ f ∧ 0 < o ∧ 0 < f ∧
    qp.bits = bits ∧ qp.symmetric = sym ∧ qp.scale.pr = pr ∧ qp.zp.w = storageBits bits ∧
    qp.scale.arr.shape = [1, f / bs, 1, o] ∧ qp.zp.arr.shape = [1, f / bs, 1, o] ∧
    ∀ c < o, ∀ b < f / bs, zpScale1 pr bits sym (blockMin d f bs c b) (blockMax d f bs c b)
      = .ok (qp.zp.arr.data.getD (b * o + c) 0, qp.scale.arr.data.getD (b * o + c) 0) := by
  unfold Blockwise.refParams at h
  obtain ⟨mm, hmm, h⟩ := bind_ok _ _ _ h
  obtain ⟨mn, mx⟩ := mm
  obtain ⟨hbs, hdvd, ho, hf, p1, p2, s1, s2, hc⟩ := refMinMax_spec o f bs d pr mn mx hmm
  obtain ⟨q1, q2, _, q4, q5, q6, q7, _, _, hel⟩ := paramsOf_spec bits sym mn mx _ s1 s2 qp h
  have hn : numel [1, f / bs, 1, o] = f / bs * o := by rw [numel4]; simp
  rw [p1, p2, join_self] at q4 hel
  refine ⟨hbs, hdvd, ho, hf, q1, q2, q4, q5, q6, q7, ?_⟩
  intro c hco b hb
  have := hel (b * o + c) (by rw [hn]; exact idx_lt o (f / bs) b c hco hb)
  rw [(hc c hco b hb).1, (hc c hco b hb).2] at this
  exact this

/-- `Blockwise.refQuantize`: element `w[c][b*bs + k]` is quantized with the parameters of block `b` of channel `c` -/
theorem refQuantize_spec (o f bs bits : Nat) (sym : Bool) (d : List Rat) (pr : Prec) (q : IArr)
    (h : refQuantize ⟨⟨[o, f], d⟩, pr⟩ bs bits sym = .ok q) :
    ∃ qp, Blockwise.refParams ⟨⟨[o, f], d⟩, pr⟩ bs bits sym = .ok qp ∧
      q.w = storageBits bits ∧ q.arr.shape = [1, f / bs, bs, o] ∧ q.arr.data.length = f * o ∧
      ∀ c < o, ∀ b < f / bs, ∀ k < bs,
        quantize1 pr pr (storageBits bits) bits sym (el d f c (b * bs + k))
          (qp.scale.arr.data.getD (b * o + c) 0) (qp.zp.arr.data.getD (b * o + c) 0)
          = .ok (q.arr.data.getD ((b * bs + k) * o + c) 0) := by
  unfold refQuantize at h
  obtain ⟨qp, hp, h⟩ := bind_ok _ _ _ h
  obtain ⟨_, hdvd, _, _, q1, q2, q4, q5, q6, q7, _⟩ := refParams_spec o f bs bits sym d pr qp hp
  obtain ⟨_, _, w1, w2, w3, hel⟩ := quantizeWith_spec o f bs d pr qp _ q6 q7 (compat_block _ _ _) q h
  refine ⟨qp, hp, by rw [w1, q1], w2, w3, ?_⟩
  intro c hc b hb k hk
  have hj : b * bs + k < f := blk_lt f bs b k hdvd hb hk
  have := hel c hc (b * bs + k) hj
  rw [bindex_block _ _ _ _ (by rw [Nat.div_mul_cancel hdvd]; exact idx_lt o f _ c hc hj),
    cell_block o bs _ c hc, blk_div bs b k hk, q1, q2, q4, q5] at this
  exact this

end BlockwiseL
