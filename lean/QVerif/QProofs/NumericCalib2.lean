import QProofs.NumericCalib
/-!
# Statistics of RESUMED and MULTI-SUBGRAPH calibrations are good (C08 ∘ C09 ∘ C10)

`NumericCalib` treats ONE fresh `calibrate()` of a one-subgraph model on float32 contents.  Here:

* the moving average in ANY of the formats statistics have (`emaArr_elem`: float32 when both operands are float32,
  float64 otherwise -- statistics of integer tensors are `exact`, their average is float64): it is monotone and
  `B = 2^63` is a fixed point of it in both formats;
* `StatOrdK k`: good, ordered statistics of rank `k` in one of the formats float32 / float64 / `exact`, `min` and `max`
  of ONE format; kept by `minMaxAll` and `ema`;
* the invariant `SInv P rk` ("under every name of `P` the dictionary holds no statistics, or good ordered statistics
  of rank `rk n`") is kept by `mergeStep`, `opStep`, `calibrateSample`, `calibrate` (whatever `previous` is, as long as
  it satisfies the invariant) and hence by a whole list of SESSIONS `calibrateSessions` (each session = one call of
  `Quantizer.calibrate` on one signature / subgraph with the previous result passed back);
* recorded statistics are never lost (`HS` is monotone), so after the sessions the statistics are COMPLETE for every
  subgraph that some session calibrated on at least one sample.
-/
open Graph Mat Arith Cfg Num Nd Calib CalibExact NumT MatParams Pipe

set_option autoImplicit false

namespace MatTotal

/-! ## the moving average in any format -/

/-- dtype of `_update_moving_average` -/
def emaPr (a b : Prec) : Prec :=
  match a.join b with
  | .f32 => if a == .f32 && b == .f32 then .f32 else .f64
  | .f16 => .f16
  | _ => .f64

/-- the weight of the old value, as an array of format `p` sees the Python float `0.95` -/
def emaC1 (p : Prec) : Rat := p.rn (Prec.f64.rn (19/20))
/-- the weight of the new value: the Python float `1 - 0.95` -/
def emaC2 (p : Prec) : Rat := p.rn (Prec.f64.rn (1 - Prec.f64.rn (19/20)))
/-- one element of `_update_moving_average` in format `p` -/
def emaEl (p : Prec) (w u : Rat) : Rat := p.rn (p.rn (emaC1 p * w) + p.rn (emaC2 p * u))

theorem emaEl_f32 (w u : Rat) : emaEl .f32 w u = emaE w u := rfl

theorem emaArr_unfold (w u : FArr) :
    emaArr w u = (do
      let a ← w.arr.mapM fun x => (emaPr w.pr u.pr).chk (emaC1 (emaPr w.pr u.pr) * x)
      let b ← u.arr.mapM fun x => (emaPr w.pr u.pr).chk (emaC2 (emaPr w.pr u.pr) * x)
      let s ← zipB (fun x y => (emaPr w.pr u.pr).chk (x + y)) a b
      pure ⟨s, emaPr w.pr u.pr⟩) := rfl

theorem rn_mul_zero (p : Prec) (c : Rat) : p.rn (c * 0) = 0 := by
  rw [mul_zero]; exact PrecL.rn_zero p

/-- **every element of the moving average**, in whatever format: `rn (rn (c1·w) + rn (c2·u))` (`w` old, `u` new; numpy
    broadcasting of the two shapes) -/
theorem emaArr_elem (w u r : FArr) (h : emaArr w u = .ok r) :
    r.pr = emaPr w.pr u.pr ∧ ∃ rs, bshapeAny w.arr.shape u.arr.shape = some rs ∧ r.arr.shape = rs ∧
      r.arr.data = (List.range (numel rs)).map fun i =>
        emaEl (emaPr w.pr u.pr) (w.arr.data.getD (bindex rs w.arr.shape i) 0) (u.arr.data.getD (bindex rs u.arr.shape i) 0) := by
  rw [emaArr_unfold w u] at h
  generalize emaPr w.pr u.pr = p at h ⊢
  simp only [Arr.mapM, bind, Except.bind] at h
  cases ha : w.arr.data.mapM (fun x => p.chk (emaC1 p * x)) with
  | error e => simp [ha] at h
  | ok a =>
    simp only [ha, pure, Except.pure] at h
    cases hb : u.arr.data.mapM (fun x => p.chk (emaC2 p * x)) with
    | error e => simp [hb] at h
    | ok b =>
      simp only [hb] at h
      have ea := mapM_chk p (fun x => emaC1 p * x) _ a ha
      have eb := mapM_chk p (fun x => emaC2 p * x) _ b hb
      unfold zipB at h
      simp only at h
      cases hs : bshapeAny w.arr.shape u.arr.shape with
      | none => simp [hs] at h
      | some rs =>
        simp only [hs, bind, Except.bind] at h
        generalize hd : List.mapM (m := PyM) _ (List.range (numel rs)) = dr at h
        cases dr with
        | error e => simp at h
        | ok d =>
          simp only [pure, Except.pure, Except.ok.injEq] at h
          subst h
          refine ⟨rfl, rs, rfl, rfl, ?_⟩
          have ed := mapM_chk p _ _ d hd
          show d = _
          rw [ed]
          refine List.map_congr_left (fun i _ => ?_)
          have e1 : ∀ j, a[j]?.getD default = p.rn (emaC1 p * w.arr.data.getD j 0) := by
            intro j
            rw [ea, show (default : Rat) = p.rn (emaC1 p * 0) from (rn_mul_zero p _).symm,
              List.getElem?_map, Option.getD_map, List.getD_eq_getElem?_getD]
          have e2 : ∀ j, b[j]?.getD default = p.rn (emaC2 p * u.arr.data.getD j 0) := by
            intro j
            rw [eb, show (default : Rat) = p.rn (emaC2 p * 0) from (rn_mul_zero p _).symm,
              List.getElem?_map, Option.getD_map, List.getD_eq_getElem?_getD]
          unfold emaEl
          rw [List.getD_eq_getElem?_getD, List.getD_eq_getElem?_getD, e1, e2]

theorem emaC1_nonneg (p : Prec) : 0 ≤ emaC1 p := PrecL.rn_nonneg _ (PrecL.rn_nonneg _ (by norm_num))

theorem emaC2_nonneg (p : Prec) : 0 ≤ emaC2 p := by
  refine PrecL.rn_nonneg _ (PrecL.rn_nonneg _ ?_)
  have h0 : (19:Rat)/20 ≤ (2:Rat)^(0:Int) := by norm_num
  have := rn_le_pow .f64 0 (.inr (by simp [Prec.emin])) h0
  simp only [zpow_zero] at this
  linarith

/-- **the moving average is monotone** in every format -/
theorem emaEl_mono (p : Prec) {w w' u u' : Rat} (hw : w ≤ w') (hu : u ≤ u') : emaEl p w u ≤ emaEl p w' u' := by
  unfold emaEl
  refine PrecL.rn_mono _ (add_le_add (PrecL.rn_mono _ ?_) (PrecL.rn_mono _ ?_))
  · exact mul_le_mul_of_nonneg_left hw (emaC1_nonneg p)
  · exact mul_le_mul_of_nonneg_left hu (emaC2_nonneg p)

/-- `B = 2^63` is a fixed point of the float64 moving average too (closed evaluation: `0.95 + (1 − 0.95) = 1` exactly in
    float64) -/
theorem emaEl64_B : emaEl .f64 ((2:Rat)^(63:Int)) ((2:Rat)^(63:Int)) = (2:Rat)^(63:Int) ∧
    emaEl .f64 (-(2:Rat)^(63:Int)) (-(2:Rat)^(63:Int)) = -(2:Rat)^(63:Int) := by
  constructor <;> decide +kernel

theorem emaEl_bounded (p : Prec) (hp : p = .f32 ∨ p = .f64) {w u : Rat} (hw : |w| ≤ B) (hu : |u| ≤ B) : |emaEl p w u| ≤ B := by
  rcases hp with rfl | rfl
  · rw [emaEl_f32]; exact emaE_bounded hw hu
  · obtain ⟨w1, w2⟩ := abs_le.mp hw
    obtain ⟨u1, u2⟩ := abs_le.mp hu
    have h1 := emaEl_mono .f64 w2 u2
    have h2 := emaEl_mono .f64 w1 u1
    unfold B at h1 h2 ⊢
    rw [emaEl64_B.1] at h1
    rw [emaEl64_B.2] at h2
    exact abs_le.mpr ⟨h2, h1⟩

theorem emaPr_cases (a b : Prec) (ha : F3264 a) (hb : F3264 b) : emaPr a b = .f32 ∨ emaPr a b = .f64 := by
  rcases ha with rfl | rfl | rfl <;> rcases hb with rfl | rfl | rfl <;> decide

/-! ## good, ordered statistics of a given rank -/

/-- **good AND ordered statistics of rank `k`**: `min` and `max` of ONE format (float32, float64 or `exact`) and one
    all-ones shape of rank `k`, magnitudes at most `B`, `min ≤ max` -/
structure StatOrdK (k : Nat) (mn mx : FArr) : Prop where
  pr : F3264 mn.pr
  prEq : mx.pr = mn.pr
  shape : mn.arr.shape = mx.arr.shape
  ones : ∀ d ∈ mn.arr.shape, d = 1
  rank : mn.arr.shape.length = k
  bMn : ∀ v ∈ mn.arr.data, |v| ≤ B
  bMx : ∀ v ∈ mx.arr.data, |v| ≤ B
  ord : ∀ j, mn.arr.data.getD j 0 ≤ mx.arr.data.getD j 0

theorem StatOrdK.good {k : Nat} {mn mx : FArr} (h : StatOrdK k mn mx) : StatGood mn mx :=
  ⟨⟨h.pr, by rw [h.prEq]; exact h.pr, h.shape, h.bMn, h.bMx⟩, h.ones⟩

theorem StatOrd.toK {mn mx : FArr} (h : StatOrd mn mx) : StatOrdK mn.arr.shape.length mn mx :=
  ⟨.inl h.prMn, by rw [h.prMx, h.prMn], h.shape, h.ones, rfl, h.bMn, h.bMx, h.ord⟩

/-- the whole-tensor min / max of bounded contents (float32 tensors; integer tensors are `exact`) -/
theorem minMaxAll_ordK (d : FArr) (hpr : F3264 d.pr) (hb : ∀ v ∈ d.arr.data, |v| ≤ B) (v : Qsv)
    (h : minMaxAll d = .ok v) : ∃ mn mx, v = some (mn, mx) ∧ StatOrdK d.arr.shape.length mn mx := by
  unfold minMaxAll at h
  obtain ⟨lo, hlo, h⟩ := GraphInv.bind_ok _ _ _ h
  obtain ⟨hi, hhi, h⟩ := GraphInv.bind_ok _ _ _ h
  simp only [pure, Except.pure, Except.ok.injEq] at h
  subst h
  obtain ⟨hs, hle⟩ := reduceKeep_min_le_max d.arr none lo hi hlo hhi
  have hsh := (reduceKeep_spec _ _ sel_min d.arr none lo hlo).2.1
  refine ⟨_, _, rfl, hpr, rfl, hs, ?_, ?_, reduceKeep_bounded _ _ sel_min _ _ _ hlo hb,
    reduceKeep_bounded _ _ sel_max _ _ _ hhi hb, hle⟩
  · intro x hx
    simp only [] at hx
    rw [hsh] at hx
    simp only [keepShape, List.mem_map] at hx
    obtain ⟨_, _, rfl⟩ := hx
    rfl
  · show lo.shape.length = _
    rw [hsh]
    simp only [keepShape, List.length_map]

/-- **`moving_average_update` keeps good, ordered statistics of rank `k` good, ordered and of rank `k`** -- in every
    format: two float32 pairs give a float32 pair, every other combination a float64 pair -/
theorem ema_ordK (k : Nat) (mn mx nmn nmx : FArr) (O : StatOrdK k mn mx) (N : StatOrdK k nmn nmx) (v : Qsv)
    (h : ema (some (mn, mx)) (some (nmn, nmx)) = .ok v) : ∃ a b, v = some (a, b) ∧ StatOrdK k a b := by
  unfold ema at h
  obtain ⟨a, ha, h⟩ := GraphInv.bind_ok _ _ _ h
  obtain ⟨b, hb, h⟩ := GraphInv.bind_ok _ _ _ h
  simp only [pure, Except.pure, Except.ok.injEq] at h
  subst h
  obtain ⟨pa, rs, hrs, hsa, hda⟩ := emaArr_elem mn nmn a ha
  obtain ⟨pb, rs', hrs', hsb, hdb⟩ := emaArr_elem mx nmx b hb
  rw [← O.shape, ← N.shape, hrs] at hrs'
  cases hrs'
  rw [O.prEq, N.prEq] at pb hdb
  have hones := ones_bshapeAny _ _ O.ones N.ones rs hrs
  have hmxo : ∀ d ∈ mx.arr.shape, d = 1 := by rw [← O.shape]; exact O.ones
  have hnmxo : ∀ d ∈ nmx.arr.shape, d = 1 := by rw [← N.shape]; exact N.ones
  have hp := emaPr_cases mn.pr nmn.pr O.pr N.pr
  have hrk : rs.length = k := by
    rw [bshapeAny_ones_left _ _ O.ones] at hrs
    cases hrs
    rw [padLeft_length, O.rank, N.rank]
    omega
  refine ⟨a, b, rfl, ?_, by rw [pa, pb], by rw [hsa, hsb], by rw [hsa]; exact hones, by rw [hsa]; exact hrk, ?_, ?_, ?_⟩
  · rw [pa]
    rcases hp with h | h <;> rw [h]
    · exact .inl rfl
    · exact .inr (.inl rfl)
  · intro x hx
    rw [hda] at hx
    obtain ⟨i, _, rfl⟩ := List.mem_map.1 hx
    exact emaEl_bounded _ hp (getD0_bounded _ _ O.bMn) (getD0_bounded _ _ N.bMn)
  · intro x hx
    rw [hdb] at hx
    obtain ⟨i, _, rfl⟩ := List.mem_map.1 hx
    exact emaEl_bounded _ hp (getD0_bounded _ _ O.bMx) (getD0_bounded _ _ N.bMx)
  · intro j
    rw [hda, hdb]
    by_cases hj : j < numel rs
    · rw [List.getD_eq_getElem?_getD, List.getD_eq_getElem?_getD,
        List.getElem?_eq_getElem (by simpa using hj), List.getElem?_eq_getElem (by simpa using hj)]
      simp only [List.getElem_map, List.getElem_range, Option.getD_some]
      rw [bindex_ones rs _ O.ones, bindex_ones rs _ N.ones, bindex_ones rs _ hmxo, bindex_ones rs _ hnmxo]
      exact emaEl_mono _ (O.ord 0) (N.ord 0)
    · rw [List.getD_eq_getElem?_getD, List.getD_eq_getElem?_getD,
        List.getElem?_eq_none (by simpa using hj), List.getElem?_eq_none (by simpa using hj)]

/-! ## the invariant of calibration -/

/-- **the invariant**: under every name of `P` the dictionary holds no statistics, or good ordered ones of rank `rk n` -/
def SInv (P : String → Prop) (rk : String → Nat) (qs : Qsvs) : Prop :=
  ∀ n, P n → ∀ mn mx, Py.dictGet? qs n = some (some (mn, mx)) → StatOrdK (rk n) mn mx

/-- the contents of one sample under the names of `P`: float32 / float64 / `exact` (integer tensors) arrays of rank `rk n`
    with magnitudes at most `B` -/
def ContOK (P : String → Prop) (rk : String → Nat) (c : Contents) : Prop :=
  ∀ n, P n → ∀ d, Py.dictGet? c n = some d → F3264 d.pr ∧ d.arr.shape.length = rk n ∧ ∀ v ∈ d.arr.data, |v| ≤ B

theorem sInv_nil (P : String → Prop) (rk : String → Nat) : SInv P rk [] := by
  intro n _ mn mx h
  cases h

theorem mergeStep_sinv (P : String → Prop) (rk : String → Nat) (s s' : CalibProofs.MState) (e : String × Qsv)
    (he : P e.1 → ∃ mn mx, e.2 = some (mn, mx) ∧ StatOrdK (rk e.1) mn mx) (hI : SInv P rk s.1)
    (h : CalibProofs.mergeStep s e = .ok s') : SInv P rk s'.1 := by
  unfold CalibProofs.mergeStep at h
  by_cases hc : s.2.contains e.1 = true
  · simp only [if_pos hc, pure, Except.pure, Except.ok.injEq] at h
    subst h; exact hI
  · simp only [if_neg hc] at h
    cases hg : Py.dictGet? s.1 e.1 with
    | none =>
      simp only [hg, pure, Except.pure, Except.ok.injEq] at h
      subst h
      intro n hn mn mx hget
      by_cases hne : e.1 = n
      · subst hne
        have h2 : Py.dictGet? (s.1 ++ [e]) e.1 = some e.2 := dictGet?_append_new _ _ hg
        have h3 : Py.dictGet? (s.1 ++ [e]) e.1 = some (some (mn, mx)) := hget
        rw [h2] at h3
        obtain ⟨a, b, hab, O⟩ := he hn
        rw [hab] at h3
        simp only [Option.some.injEq, Prod.mk.injEq] at h3
        obtain ⟨rfl, rfl⟩ := h3
        exact O
      · have h3 : Py.dictGet? (s.1 ++ [e]) n = some (some (mn, mx)) := hget
        rw [dictGet?_append_ne _ _ _ hne] at h3
        exact hI n hn mn mx h3
    | some old =>
      simp only [hg] at h
      cases hema : ema old e.2 with
      | error err => simp [hema] at h
      | ok nv =>
        simp only [hema, pure, Except.pure, Except.ok.injEq] at h
        subst h
        intro n hn mn mx hget
        have h3 : Py.dictGet? (Py.dictSet s.1 e.1 nv) n = some (some (mn, mx)) := hget
        rw [CalibProofs.dictGet?_dictSet] at h3
        by_cases hne : e.1 = n
        · subst hne
          rw [if_pos rfl] at h3
          simp only [Option.some.injEq] at h3
          subst h3
          obtain ⟨a, b, hab, N⟩ := he hn
          rw [hab] at hema
          cases old with
          | none =>
            simp only [ema, pure, Except.pure, Except.ok.injEq, Option.some.injEq, Prod.mk.injEq] at hema
            obtain ⟨rfl, rfl⟩ := hema
            exact N
          | some o =>
            obtain ⟨omn, omx⟩ := o
            have O := hI e.1 hn omn omx hg
            obtain ⟨a', b', hab', R⟩ := ema_ordK _ omn omx a b O N _ hema
            simp only [Option.some.injEq, Prod.mk.injEq] at hab'
            obtain ⟨rfl, rfl⟩ := hab'
            exact R
        · rw [if_neg hne] at h3
          exact hI n hn mn mx h3

theorem sampleStat_ordK (P : String → Prop) (rk : String → Nat) (c : Contents) (hc : ContOK P rk c) (n : String) (v : Qsv)
    (hn : P n) (h : sampleStat n c = .ok v) : ∃ mn mx, v = some (mn, mx) ∧ StatOrdK (rk n) mn mx := by
  unfold sampleStat at h
  cases hd : Py.dictGet? c n with
  | none => rw [hd] at h; cases h
  | some d =>
    rw [hd] at h
    obtain ⟨hp, hr, hb⟩ := hc n hn d hd
    rw [← hr]
    exact minMaxAll_ordK d hp hb v h

theorem opStep_sinv (P : String → Prop) (rk : String → Nat) (rx : String → String → Bool) (env : Env) (st : Recipe.State)
    (sg : Subgraph) (c : Contents) (hc : ContOK P rk c) (s s' : CalibProofs.MState) (q : Op × Option String)
    (hI : SInv P rk s.1) (h : CalibProofs.opStep rx env st sg c s q = .ok s') : SInv P rk s'.1 := by
  rcases opStep_cases rx env st sg c s s' q h with rfl | ⟨opq, hcal, hm⟩
  · exact hI
  · have hent := calibrateOp_entries env sg q.1 c opq hcal
    exact GraphFrame.foldlM_inv CalibProofs.mergeStep (fun r => SInv P rk r.1) opq s s' hI
      (fun e he r r' hr hstep => mergeStep_sinv P rk r r' e
        (fun hp => sampleStat_ordK P rk c hc e.1 e.2 hp (hent e he).1) hr hstep) hm

/-- **one sample keeps the invariant** (whatever subgraph is calibrated) -/
theorem calibrateSample_sinv (P : String → Prop) (rk : String → Nat) (rx : String → String → Bool) (env : Env)
    (st : Recipe.State) (sgi : Nat) (q0 qs : Qsvs) (c : Contents) (hc : ContOK P rk c) (hI : SInv P rk q0)
    (h : calibrateSample rx env st sgi q0 c = .ok qs) : SInv P rk qs := by
  rw [CalibProofs.calibrateSample_eq] at h
  unfold CalibProofs.sampleFold at h
  cases hsg : env.model.subgraphs[sgi]? with
  | none => simp [hsg] at h
  | some sg =>
    simp only [hsg] at h
    cases hf : (CalibProofs.allOps sg).foldlM (CalibProofs.opStep rx env st sg c) (q0, []) with
    | error err => simp [hf] at h
    | ok r =>
      simp only [hf, Except.ok.injEq] at h
      subst h
      exact GraphFrame.foldlM_inv (CalibProofs.opStep rx env st sg c) (fun s => SInv P rk s.1) (CalibProofs.allOps sg)
        (q0, []) r hI (fun q _ s s' hs hstep => opStep_sinv P rk rx env st sg c hc s s' q hs hstep) hf

/-- unfolding `calibrate`: it starts from `initModel` when `previous` is `None` or empty, from `previous` otherwise -/
theorem calibrate_cases (rx : String → String → Bool) (env : Env) (st : Recipe.State) (sgi : Nat) (previous : Option Qsvs)
    (samples : List Contents) (qs : Qsvs) (hneed : Recipe.needCalibration st = true)
    (h : calibrate rx env st sgi previous samples = .ok qs) :
    ∃ q0, (((previous.getD []).isEmpty = true ∧ initModel rx env st = .ok q0) ∨
        ((previous.getD []).isEmpty = false ∧ q0 = previous.getD [])) ∧
      samples.foldlM (calibrateSample rx env st sgi) q0 = .ok qs := by
  unfold calibrate at h
  simp only [hneed, Bool.not_true, Bool.false_eq_true, if_false, bind, Except.bind] at h
  by_cases he : (previous.getD []).isEmpty = true
  · simp only [he, if_true] at h
    cases hi : initModel rx env st with
    | error err => simp [hi] at h
    | ok q0 => simp only [hi] at h; exact ⟨q0, .inl ⟨he, rfl⟩, h⟩
  · have he' : (previous.getD []).isEmpty = false := by simpa using he
    simp only [he', Bool.false_eq_true, if_false, pure, Except.pure] at h
    exact ⟨_, .inr ⟨he', rfl⟩, h⟩

/-- **one `calibrate()` keeps the invariant**, fresh or resumed -- provided no name of `P` is the name of a constant
    (whose entry `initModel` fills) -/
theorem calibrate_sinv (P : String → Prop) (rk : String → Nat) (rx : String → String → Bool) (env : Env) (st : Recipe.State)
    (hP : ∀ n, P n → ¬ ConstNamed env n) (sgi : Nat) (previous : Option Qsvs) (samples : List Contents) (qs : Qsvs)
    (hneed : Recipe.needCalibration st = true) (hprev : SInv P rk (previous.getD []))
    (hcont : ∀ c ∈ samples, ContOK P rk c)
    (h : calibrate rx env st sgi previous samples = .ok qs) : SInv P rk qs := by
  obtain ⟨q0, hq0, hfold⟩ := calibrate_cases rx env st sgi previous samples qs hneed h
  have h0 : SInv P rk q0 := by
    rcases hq0 with ⟨_, hi⟩ | ⟨_, rfl⟩
    · intro n hn mn mx hget
      have := initFold_no_stats rx env st q0 (by rw [← initModel_eq]; exact hi) n (hP n hn)
      rw [hget] at this
      cases this
    · exact hprev
  exact GraphFrame.foldlM_inv (calibrateSample rx env st sgi) (SInv P rk) samples q0 qs h0
    (fun c hc s s' hs hstep => calibrateSample_sinv P rk rx env st sgi s s' c (hcont c hc) hs hstep) hfold

/-! ## sessions -/

/-- **a calibration history**: `Quantizer.calibrate` is called once per session `(subgraph index, samples)` -- one
    signature of a multi-signature model, or one more batch of data for a signature already calibrated --, each time
    with the result of the previous call passed back as `previous_calibration_result` (what the harness's
    `calibrate_all` does for multi-signature models) -/
def calibrateSessions (rx : String → String → Bool) (env : Env) (st : Recipe.State) (previous : Option Qsvs)
    (L : List (Nat × List Contents)) : PyM (Option Qsvs) :=
  L.foldlM (fun p s => do
    let q ← calibrate rx env st s.1 p s.2
    pure (some q)) previous

theorem session_step (rx : String → String → Bool) (env : Env) (st : Recipe.State) (p p' : Option Qsvs)
    (s : Nat × List Contents)
    (h : (do let q ← calibrate rx env st s.1 p s.2; pure (some q) : PyM (Option Qsvs)) = .ok p') :
    ∃ q, calibrate rx env st s.1 p s.2 = .ok q ∧ p' = some q := by
  obtain ⟨q, hq, h⟩ := GraphInv.bind_ok _ _ _ h
  simp only [pure, Except.pure, Except.ok.injEq] at h
  exact ⟨q, hq, h.symm⟩

/-- **the invariant holds after any list of sessions** (induction over the list) -/
theorem sessions_sinv (P : String → Prop) (rk : String → Nat) (rx : String → String → Bool) (env : Env) (st : Recipe.State)
    (hP : ∀ n, P n → ¬ ConstNamed env n) (hneed : Recipe.needCalibration st = true)
    (previous : Option Qsvs) (L : List (Nat × List Contents)) (r : Option Qsvs)
    (hprev : SInv P rk (previous.getD []))
    (hcont : ∀ s ∈ L, ∀ c ∈ s.2, ContOK P rk c)
    (h : calibrateSessions rx env st previous L = .ok r) : SInv P rk (r.getD []) := by
  unfold calibrateSessions at h
  refine GraphFrame.foldlM_inv _ (fun p => SInv P rk (p.getD [])) L previous r hprev ?_ h
  intro s hs p p' hp hstep
  obtain ⟨q, hq, rfl⟩ := session_step rx env st p p' s hstep
  exact calibrate_sinv P rk rx env st hP s.1 p s.2 q hneed hp (hcont s hs) hq

/-! ## statistics are never lost; completeness after the sessions -/

theorem mergeStep_HS (s s' : CalibProofs.MState) (e : String × Qsv) (he : ∃ w, e.2 = some w) (n : String)
    (hn : CalibProofs.HS s.1 n) (h : CalibProofs.mergeStep s e = .ok s') : CalibProofs.HS s'.1 n := by
  obtain ⟨w, hw⟩ := he
  unfold CalibProofs.mergeStep at h
  by_cases hc : s.2.contains e.1 = true
  · simp only [if_pos hc, pure, Except.pure, Except.ok.injEq] at h
    subst h; exact hn
  · simp only [if_neg hc] at h
    cases hg : Py.dictGet? s.1 e.1 with
    | none =>
      simp only [hg, pure, Except.pure, Except.ok.injEq] at h
      subst h
      obtain ⟨v, hv⟩ := hn
      exact ⟨v, CalibProofs.dictGet?_append_some _ _ _ _ hv⟩
    | some old =>
      simp only [hg] at h
      cases hema : ema old e.2 with
      | error err => simp [hema] at h
      | ok nv =>
        simp only [hema, pure, Except.pure, Except.ok.injEq] at h
        subst h
        rw [hw] at hema
        obtain ⟨v, hv⟩ := CalibProofs.ema_some old w nv hema
        show ∃ v, Py.dictGet? (Py.dictSet s.1 e.1 nv) n = some (some v)
        rw [CalibProofs.dictGet?_dictSet]
        by_cases hen : e.1 = n
        · rw [if_pos hen]; exact ⟨v, by rw [hv]⟩
        · rw [if_neg hen]; exact hn

theorem opStep_HS (rx : String → String → Bool) (env : Env) (st : Recipe.State) (sg : Subgraph) (c : Contents)
    (s s' : CalibProofs.MState) (q : Op × Option String) (n : String) (hn : CalibProofs.HS s.1 n)
    (h : CalibProofs.opStep rx env st sg c s q = .ok s') : CalibProofs.HS s'.1 n := by
  rcases opStep_cases rx env st sg c s s' q h with rfl | ⟨opq, hcal, hm⟩
  · exact hn
  · have hv := CalibProofs.calibrateOp_vals env sg q.1 c opq hcal
    exact GraphFrame.foldlM_inv CalibProofs.mergeStep (fun r => CalibProofs.HS r.1 n) opq s s' hn
      (fun e he r r' hr hstep => mergeStep_HS r r' e (hv e he) n hr hstep) hm

theorem calibrateSample_HS (rx : String → String → Bool) (env : Env) (st : Recipe.State) (sgi : Nat) (q0 qs : Qsvs)
    (c : Contents) (n : String) (hn : CalibProofs.HS q0 n) (h : calibrateSample rx env st sgi q0 c = .ok qs) :
    CalibProofs.HS qs n := by
  rw [CalibProofs.calibrateSample_eq] at h
  unfold CalibProofs.sampleFold at h
  cases hsg : env.model.subgraphs[sgi]? with
  | none => simp [hsg] at h
  | some sg =>
    simp only [hsg] at h
    cases hf : (CalibProofs.allOps sg).foldlM (CalibProofs.opStep rx env st sg c) (q0, []) with
    | error err => simp [hf] at h
    | ok r =>
      simp only [hf, Except.ok.injEq] at h
      subst h
      exact GraphFrame.foldlM_inv (CalibProofs.opStep rx env st sg c) (fun s => CalibProofs.HS s.1 n) (CalibProofs.allOps sg)
        (q0, []) r hn (fun q _ s s' hs hstep => opStep_HS rx env st sg c s s' q n hs hstep) hf

/-- **a later `calibrate()` never loses recorded statistics** -/
theorem calibrate_HS (rx : String → String → Bool) (env : Env) (st : Recipe.State) (sgi : Nat) (previous : Option Qsvs)
    (samples : List Contents) (qs : Qsvs) (hneed : Recipe.needCalibration st = true) (n : String)
    (hn : CalibProofs.HS (previous.getD []) n)
    (h : calibrate rx env st sgi previous samples = .ok qs) : CalibProofs.HS qs n := by
  obtain ⟨q0, hq0, hfold⟩ := calibrate_cases rx env st sgi previous samples qs hneed h
  have h0 : CalibProofs.HS q0 n := by
    rcases hq0 with ⟨he, _⟩ | ⟨_, rfl⟩
    · obtain ⟨v, hv⟩ := hn
      rw [List.isEmpty_iff.1 he] at hv
      cases hv
    · exact hn
  exact GraphFrame.foldlM_inv (calibrateSample rx env st sgi) (fun s => CalibProofs.HS s n) samples q0 qs h0
    (fun c _ s s' hs hstep => calibrateSample_HS rx env st sgi s s' c n hs hstep) hfold

/-- **after the sessions, the statistics of every calibrated subgraph are there**: a session on subgraph `sgi` with at least
    one sample records statistics for every runtime operand / result of every operator of `sgi` selected for min/max, and
    no later session removes them -/
theorem sessions_complete (rx : String → String → Bool) (env : Env) (st : Recipe.State)
    (hneed : Recipe.needCalibration st = true) (previous : Option Qsvs) (L : List (Nat × List Contents))
    (r : Option Qsvs) (h : calibrateSessions rx env st previous L = .ok r)
    (s : Nat × List Contents) (hs : s ∈ L) (hne : s.2 ≠ [])
    (sg : Subgraph) (hsg : env.model.subgraphs[s.1]? = some sg)
    (op : Op) (k scope : String) (hop : CalibProofs.IsOp env sg op k) (hscope : opScope sg op = .ok scope)
    (hsel : (Recipe.resolve rx st k scope).1 = Tables.algMinMax)
    (i : Int) (hi : i ∈ op.inputs ++ op.outputs) (hi1 : i ≠ -1) (t : Tensor) (ht : tensorAt sg i = .ok t)
    (hnc : constAny env t = none) : CalibProofs.HS (r.getD []) t.name := by
  unfold calibrateSessions at h
  refine (CalibProofs.foldlM_reach _ (fun _ => True) (fun p => CalibProofs.HS (p.getD []) t.name) L previous r trivial
    (fun _ _ _ _ _ _ => trivial) ?_ s hs ?_ h).2
  · intro x _ p p' _ hq hstep
    obtain ⟨q, hq', rfl⟩ := session_step rx env st p p' x hstep
    exact calibrate_HS rx env st x.1 p x.2 q hneed t.name hq hq'
  · intro p p' _ hstep
    obtain ⟨q, hq', rfl⟩ := session_step rx env st p p' s hstep
    obtain ⟨mn, mx, hget⟩ := CalibProofs.stats_complete rx env st s.1 sg hsg p s.2 hne q hneed hq' op k scope hop hscope hsel
      i hi hi1 t ht hnc
    exact ⟨(mn, mx), hget⟩

end MatTotal
