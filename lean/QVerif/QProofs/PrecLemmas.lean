import QProofs.RoundingMono
import QModel.Arith
/-!
# Properties of `Prec.rn` for every format (incl. `exact`)
-/
open Num

namespace PrecL

theorem p_pos (pr : Prec) : 1 ≤ pr.p := by cases pr <;> simp [Prec.p]
theorem emin_le (pr : Prec) : pr.emin ≤ (pr.p : Int) - 1 := by cases pr <;> simp [Prec.p, Prec.emin]

theorem rn_eq (pr : Prec) (h : pr ≠ .exact) (x : Rat) : pr.rn x = Num.rn pr.p pr.emin x := by
  cases pr <;> simp_all [Prec.rn]

theorem rn_mono (pr : Prec) {x y : Rat} (h : x ≤ y) : pr.rn x ≤ pr.rn y := by
  by_cases he : pr = .exact
  · subst he; simpa [Prec.rn] using h
  · rw [rn_eq pr he, rn_eq pr he]; exact Rounding.rn_mono _ (p_pos pr) _ h

theorem rn_zero (pr : Prec) : pr.rn 0 = 0 := by
  cases pr <;> simp [Prec.rn, Num.rn]

theorem rn_nonneg (pr : Prec) {x : Rat} (h : 0 ≤ x) : 0 ≤ pr.rn x := by
  have := rn_mono pr h; rwa [rn_zero] at this

theorem rn_nonpos (pr : Prec) {x : Rat} (h : x ≤ 0) : pr.rn x ≤ 0 := by
  have := rn_mono pr h; rwa [rn_zero] at this

theorem rn_relerr (pr : Prec) (x : Rat) (hn : (2:Rat)^pr.emin ≤ |x|) :
    |pr.rn x - x| ≤ (2:Rat)^(-(pr.p:Int)) * |x| := by
  by_cases he : pr = .exact
  · subst he; simp [Prec.rn]
  · rw [rn_eq pr he]; exact Rounding.rn_relerr _ _ _ hn

/-- integers of magnitude below `2^p` are exactly representable -/
theorem rn_int_exact (pr : Prec) (z : Int) (hz : z.natAbs < 2^pr.p) : pr.rn (z : Rat) = z := by
  by_cases he : pr = .exact
  · subst he; simp [Prec.rn]
  · rw [rn_eq pr he]
    unfold Num.rn
    rcases lt_trichotomy z 0 with h | h | h
    · have hq : ((z:Int):Rat) < 0 := by exact_mod_cast h
      rw [if_neg (ne_of_lt hq), if_neg (not_lt.mpr (le_of_lt hq))]
      have hn : (-(z:Rat)) = ((z.natAbs : Nat) : Rat) := by
        rw [Nat.cast_natAbs, abs_of_neg h]; push_cast; ring
      rw [hn, Rounding.rnPos_nat_exact _ _ (emin_le pr) _ (by omega) hz]
      linarith
    · subst h; simp
    · have hq : (0:Rat) < ((z:Int):Rat) := by exact_mod_cast h
      rw [if_neg (ne_of_gt hq), if_pos hq]
      have hn : ((z:Int):Rat) = ((z.natAbs : Nat) : Rat) := by
        rw [Nat.cast_natAbs, abs_of_pos h]
      rw [hn, Rounding.rnPos_nat_exact _ _ (emin_le pr) _ (by omega) hz]

/-- lower bound `rn x ≥ x(1-2^-p)` for positive normal `x`; in particular positive -/
theorem rn_pos_of_normal (pr : Prec) {x : Rat} (hn : (2:Rat)^pr.emin ≤ x) : 0 < pr.rn x := by
  have hx : 0 < x := lt_of_lt_of_le (zpow_pos (by norm_num) _) hn
  have h := rn_relerr pr x (by rwa [abs_of_pos hx])
  rw [abs_of_pos hx] at h
  have hu : (2:Rat)^(-(pr.p:Int)) ≤ 1/2 := by
    have : (2:Rat)^(-(pr.p:Int)) ≤ (2:Rat)^(-1:Int) :=
      zpow_le_zpow_right₀ (by norm_num) (by have := p_pos pr; omega)
    simpa using this
  have h2 := (abs_le.mp h).1
  nlinarith

theorem wrapInt_id (w : Nat) (hw : 1 ≤ w) (z : Int) (h1 : -((2:Int)^(w-1)) ≤ z) (h2 : z < (2:Int)^(w-1)) :
    wrapInt w z = z := by
  unfold wrapInt
  simp only []
  have hm : (2:Int)^w = 2 * (2:Int)^(w-1) := by
    conv_lhs => rw [show w = (w-1) + 1 by omega]
    rw [pow_succ]; ring
  rw [hm]
  have : (z + (2:Int)^(w-1)) % (2 * (2:Int)^(w-1)) = z + (2:Int)^(w-1) :=
    Int.emod_eq_of_lt (by omega) (by omega)
  rw [this]; ring

end PrecL
