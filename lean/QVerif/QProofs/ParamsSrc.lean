import QProofs.ConstProv
import QProofs.TypingSrq
import QProofs.TypingShape
/-!
# C04 end to end, request stage: where EVERY parameter object of a request of `Mat.generate` comes from

`ConstProv.Src` tracks the quantized DATA of the parameter objects of constants; this file tracks the
PARAMETERS (scales, zero points, quantized dimension, bit width, symmetry) of all of them.

`PSrc env sg qs oi t P`: the parameter object `P`, attached by the materialisation of operator `oi` of
subgraph `sg` -- under the statistics dictionary `qs` in force at that moment -- to a request for tensor
`t`, is one of

* `ref`   -- the reference parameters (`MatParams.refParams`: the min/max formula under the configured bit
  width, symmetry and granularity) of `t`'s OWN statistics (`MatParams.statsOf`: the entry of `qs` for a
  runtime tensor, the true per-tensor / per-channel min/max of the data for a constant) under the tensor
  config that `oi` applies to `t` (`MatParams.tcfgOf`);
* `lent`  -- the reference parameters of ANOTHER operand / result `t0` of the same operator (same-as-input:
  `t0` the data operand, `t` a result; same-as-output: `t0` the result, `t` an operand), with `t`'s own
  quantized values when `t` is a constant;
* `fixed` -- the range fixed by the runtime kernel (SOFTMAX / LOGISTIC / TANH results);
* `bias`  -- `symmetric_quantize_bias_tensor` of the reference parameters of the data operand and the weight;
* `f16`   -- float casting.

`materializeOp_src`, `opReqs_src`: every parameter object of every request emitted for one entry of the
operator list has such a source.
-/
open Graph Mat Cfg Pipeline InstGen GenInstsOK GraphStep GraphInv PipeNF Pipe SharingGen Arith Nd MatParams Num

set_option autoImplicit false

namespace ParamsSrc

/-! ## definitions -/

/-- `(qp, dat)` are the reference parameters (and quantized values, for a constant) of tensor `t` under
    the tensor config operator `oi` applies to it and the statistics dictionary `qs` -/
def RefOf (env : Env) (qs : Qsvs) (oi : OpInfo) (t : Tensor) (qp : QParams) (dat : Option IArr) : Prop :=
  ∃ tc mn mx qdim, tcfgOf env oi t = some tc ∧ statsOf env qs oi t = .ok (some (mn, mx)) ∧
    refQDim env oi tc (constData env t) = .ok qdim ∧
    refParams tc.bits.toNat tc.symmetric qdim mn mx = .ok qp ∧ refData tc (constData env t) qp = .ok dat

/-- the quantized values tensor `t` attaches to BORROWED parameters `qp`: none for a runtime tensor,
    `uniform_quantize(data, qp)` for a constant (repair D21) -/
def LentData (env : Env) (t : Tensor) (qp : QParams) (dat : Option IArr) : Prop :=
  (constData env t = none ∧ dat = none) ∨
  ∃ d q, constData env t = some d ∧ uniformQuantize ⟨d, .f32⟩ qp = .ok q ∧ dat = some q

/-- `t` is the tensor in a non-absent operand (`b = true`) / result (`b = false`) slot of `op` -/
def SlotOf (sg : Subgraph) (op : Op) (b : Bool) (t : Tensor) : Prop :=
  ∃ p ∈ cslots (if b then op.inputs else op.outputs), tensorAt sg p.1 = .ok t

/-- the operator is not one of those with a weight config (weight-only / dynamic-range capable); the
    constrained operators (same-as-input, same-as-output) are of this kind -/
def NotWeightOp (oi : OpInfo) : Prop :=
  Tables.woOps.contains oi.opName = false ∧ Tables.drqOps.contains oi.opName = false

/-- where a parameter object comes from -/
inductive PSrc (env : Env) (sg : Subgraph) (qs : Qsvs) (oi : OpInfo) (t : Tensor) : Param → Prop
  | ref (qp : QParams) (dat : Option IArr) : RefOf env qs oi t qp dat → PSrc env sg qs oi t (.uniform qp dat)
  | lent (b : Bool) (t0 : Tensor) (qp : QParams) (dat0 dat : Option IArr) :
      SlotOf sg oi.op b t0 → SlotOf sg oi.op (!b) t → RefOf env qs oi t0 qp dat0 → LentData env t qp dat →
      NotWeightOp oi → PSrc env sg qs oi t (.uniform qp dat)
  | fixed (sl : Bool) (a : TCfg) (fp : QParams) :
      oi.cfg.act = some a → fixedParams sl a.bits.toNat = some fp → SlotOf sg oi.op false t →
      PSrc env sg qs oi t (.uniform fp none)
  | bias (aIn aW : Int) (tin tw : Tensor) (qi : QParams) (di : Option IArr) (qw : QParams) (dw : Option IArr)
      (bd : Arr Rat) (qp : QParams) (q : IArr) :
      oi.op.inputs[dataSlot oi.opName]? = some aIn → tensorAt sg aIn = .ok tin →
      oi.op.inputs[1]? = some aW → tensorAt sg aW = .ok tw →
      RefOf env qs oi tin qi di → RefOf env qs oi tw qw dw → constData env t = some bd →
      quantizeBias ⟨bd, .f32⟩ qi qw = .ok (qp, q) → PSrc env sg qs oi t (.uniform qp (some q))
  | f16 (d : Arr Rat) (h : List Rat) :
      constData env t = some d → d.data.mapM Prec.f16.chk = .ok h →
      PSrc env sg qs oi t (.nonlinear 16 (some ⟨d.shape, h⟩))

/-- a side of a request for tensor `t` made by operator `oi` -/
def SideSrc (env : Env) (sg : Subgraph) (qs : Qsvs) (oi : OpInfo) (t : Tensor) (c : CO2T) : Prop :=
  c.opId = oi.opId ∧ ∀ P, c.param = some P → PSrc env sg qs oi t P

/-- request `r` is a request for tensor `t` made by operator `oi`, all of whose parameter objects have
    a source -/
def ReqSrcT (env : Env) (sg : Subgraph) (qs : Qsvs) (oi : OpInfo) (t : Tensor) (r : CReq) : Prop :=
  r.name = t.name ∧ (∀ c, r.producer = some c → SideSrc env sg qs oi t c) ∧
    ∀ cs c, r.consumers = some cs → c ∈ cs → SideSrc env sg qs oi t c

def ReqSrc (env : Env) (sg : Subgraph) (qs : Qsvs) (oi : OpInfo) (r : CReq) : Prop :=
  ∃ t ∈ sg.tensors, ReqSrcT env sg qs oi t r

/-! ## single-side requests -/

theorem reqSrcT_single (env : Env) (sg : Subgraph) (qs : Qsvs) (oi : OpInfo) (t : Tensor) (xfs : List Xf)
    (p : Option Param) (inbound : Bool) (hp : ∀ P, p = some P → PSrc env sg qs oi t P) :
    ReqSrcT env sg qs oi t (if inbound then ⟨t.name, none, some [(⟨oi.opId, xfs, p⟩ : CO2T)]⟩
      else ⟨t.name, some (⟨oi.opId, xfs, p⟩ : CO2T), none⟩) := by
  cases inbound
  · refine ⟨rfl, ?_, fun cs c h => by simp at h⟩
    intro c hc
    simp only [Bool.false_eq_true, if_false, Option.some.injEq] at hc
    subst hc
    exact ⟨rfl, hp⟩
  · refine ⟨rfl, fun c h => (by simp at h), ?_⟩
    intro cs c hcs hc
    simp only [if_true, Option.some.injEq] at hcs
    subst hcs
    rw [List.mem_singleton.1 hc]
    exact ⟨rfl, hp⟩

theorem reqSrcT_noQuantReq (env : Env) (sg : Subgraph) (qs : Qsvs) (oi : OpInfo) (t : Tensor) (inbound : Bool) :
    ReqSrcT env sg qs oi t (noQuantReq t.name oi.opId inbound) := by
  have := reqSrcT_single env sg qs oi t [.noQuant] none inbound (fun P hP => by cases hP)
  cases inbound
  · rw [noQuantReq_prod]; exact this
  · rw [noQuantReq_cons]; exact this

theorem reqSrcT_mkReq (env : Env) (sg : Subgraph) (qs : Qsvs) (oi : OpInfo) (t : Tensor) (inbound : Bool)
    (p : Option Param) (isC : Bool) (r : CReq) (h : mkReq t.name oi inbound p isC = .ok r)
    (hp : ∀ P, p = some P → PSrc env sg qs oi t P) : ReqSrcT env sg qs oi t r := by
  obtain ⟨xfs, -, hr⟩ := mkReq_spec _ _ _ _ _ _ h
  rw [hr]
  exact reqSrcT_single env sg qs oi t xfs p inbound hp

/-- the parameter object of a request made by `mkReq`, as read by `reqParam0` / the producer side -/
theorem mkReq_param (name : String) (oi : OpInfo) (inbound : Bool) (p : Option Param) (isC : Bool) (r : CReq)
    (h : mkReq name oi inbound p isC = .ok r) :
    (inbound = true → reqParam0 r = .ok p ∧ r.producer = none) ∧
    (inbound = false → (∃ pr, r.producer = some pr ∧ pr.param = p) ∧ r.consumers = none) := by
  obtain ⟨xfs, -, hr⟩ := mkReq_spec _ _ _ _ _ _ h
  subst hr
  cases inbound
  · exact ⟨fun h => Bool.noConfusion h, fun _ => ⟨⟨_, rfl, rfl⟩, rfl⟩⟩
  · exact ⟨fun _ => ⟨rfl, rfl⟩, fun h => Bool.noConfusion h⟩

/-! ## `wrapper` -/

/-- what is handed to a request: nothing, or data-free reference parameters of the tensor `t0` in a
    slot of side `b` -/
def Handed (env : Env) (sg : Subgraph) (qs : Qsvs) (oi : OpInfo) (b : Bool) (g : Option Param) : Prop :=
  g = none ∨ ∃ t0 qp dat0, g = some (.uniform qp none) ∧ SlotOf sg oi.op b t0 ∧ RefOf env qs oi t0 qp dat0 ∧
    NotWeightOp oi

/-- **a request made by `wrapper` without given parameters**: no parameters, or the reference ones -/
theorem wrapper_none_src (env : Env) (qs : Qsvs) (oi : OpInfo) (t : Tensor) (inbound : Bool) (r : CReq)
    (h : wrapper env qs oi t inbound none = .ok r) :
    ∃ p, mkReq t.name oi inbound p (constData env t).isSome = .ok r ∧
      (p = none ∨ ∃ qp dat, p = some (.uniform qp dat) ∧ RefOf env qs oi t qp dat) := by
  rcases (wrapper_none_ok_iff env qs oi t inbound r).1 h with ⟨_, hm⟩ |
    ⟨tc, mn, mx, qdim, qp, dat, htc, hst, hq, hp, hdat, hm⟩
  · exact ⟨none, hm, .inl rfl⟩
  · exact ⟨_, hm, .inr ⟨qp, dat, rfl, tc, mn, mx, qdim, htc, hst, hq, hp, hdat⟩⟩

theorem wrapper_src (env : Env) (sg : Subgraph) (qs : Qsvs) (oi : OpInfo) (t : Tensor) (inbound : Bool)
    (g : Option Param) (r : CReq) (ht : SlotOf sg oi.op inbound t)
    (hg : Handed env sg qs oi (!inbound) g) (h : wrapper env qs oi t inbound g = .ok r) :
    ReqSrcT env sg qs oi t r := by
  rcases hg with rfl | ⟨t0, qp, dat0, rfl, hslot, href, hnw⟩
  · obtain ⟨p, hm, hp⟩ := wrapper_none_src env qs oi t inbound r h
    refine reqSrcT_mkReq env sg qs oi t inbound p _ r hm ?_
    intro P hP
    rcases hp with rfl | ⟨qp, dat, rfl, href⟩
    · cases hP
    · cases hP
      exact .ref qp dat href
  · rw [wrapper_given_eq] at h
    cases hc : constData env t with
    | none =>
      rw [hc] at h
      simp only [] at h
      refine reqSrcT_mkReq env sg qs oi t inbound _ _ r h ?_
      intro P hP
      cases hP
      exact .lent (!inbound) t0 qp dat0 none hslot (by rw [Bool.not_not]; exact ht) href (.inl ⟨hc, rfl⟩) hnw
    | some d =>
      rw [hc] at h
      simp only [] at h
      cases hu : uniformQuantize ⟨d, .f32⟩ qp with
      | error e => rw [hu] at h; cases h
      | ok q =>
        rw [hu] at h
        simp only [] at h
        refine reqSrcT_mkReq env sg qs oi t inbound _ _ r h ?_
        intro P hP
        cases hP
        exact .lent (!inbound) t0 qp dat0 (some q) hslot (by rw [Bool.not_not]; exact ht) href
          (.inr ⟨d, q, hc, hu, rfl⟩) hnw

/-! ## `standardOp` -/

theorem refOf_nodata (env : Env) (qs : Qsvs) (oi : OpInfo) (t : Tensor) (qp : QParams) (dat : Option IArr)
    (hnc : constData env t = none) (h : RefOf env qs oi t qp dat) : dat = none := by
  obtain ⟨tc, mn, mx, qdim, -, -, -, -, hd⟩ := h
  rw [hnc] at hd
  simp only [refData, Except.ok.injEq] at hd
  exact hd.symm

/-- the request of one operand slot -/
def InSlot (env : Env) (sg : Subgraph) (qs : Qsvs) (oi : OpInfo) (con : Constraint) (p : Int × Nat) (r : CReq) : Prop :=
  ∃ t, tensorAt sg p.1 = .ok t ∧ ReqSrcT env sg qs oi t r ∧ r.producer = none ∧
    (con = .none → ∀ qp dat, reqParam0 r = .ok (some (.uniform qp dat)) → RefOf env qs oi t qp dat)

/-- the request of one result slot -/
def OutSlot (env : Env) (sg : Subgraph) (qs : Qsvs) (oi : OpInfo) (p : Int × Nat) (r : CReq) : Prop :=
  ∃ t, tensorAt sg p.1 = .ok t ∧ ReqSrcT env sg qs oi t r ∧ r.consumers = none

/-- **`standardOp`**: operand requests then result requests, in slot order, each with its source -/
theorem standardOp_src (env : Env) (sg : Subgraph) (qs : Qsvs) (oi : OpInfo) (con : Constraint)
    (gIn gOut : List Nat) (rs : List CReq) (qs' : Qsvs) (hnc : ConstProv.OutNC env sg oi.op.outputs)
    (hcon : con ≠ .none → NotWeightOp oi)
    (h : standardOp env sg qs oi con gIn gOut = .ok (rs, qs')) :
    ∃ rin rout, rs = rin ++ rout ∧
      Pointwise (InSlot env sg qs oi con) (cslots oi.op.inputs) rin ∧
      Pointwise (OutSlot env sg qs oi) (cslots oi.op.outputs) rout := by
  obtain ⟨inIgn, outIgn, rin, rout, g, gO, -, -, hrs, hrin, hrout, hg, hgO⟩ :=
    standardOp_shape env sg qs oi con gIn gOut rs qs' h
  have hG : Handed env sg qs oi false g ∧ (con = .none → g = none) := by
    rcases hg with rfl | ⟨hc, p, hp, t, orq, -, ht, hw, rfl⟩
    · exact ⟨.inl rfl, fun _ => rfl⟩
    · refine ⟨?_, fun hcn => by rw [hcn] at hc; cases hc⟩
      obtain ⟨p', hm, hp'⟩ := wrapper_none_src env qs oi t false orq hw
      obtain ⟨pr, hpr, hpp⟩ := ((mkReq_param _ _ _ _ _ _ hm).2 rfl).1
      simp only [hpr, hpp]
      rcases hp' with rfl | ⟨qp, dat, rfl, href⟩
      · exact .inl rfl
      · have := refOf_nodata env qs oi t qp dat (hnc p hp t ht) href
        subst this
        exact .inr ⟨t, qp, none, rfl, ⟨p, hp, ht⟩, href, hcon (by rw [hc]; decide)⟩
  have hGO : Handed env sg qs oi true gO := by
    rcases hgO with rfl | ⟨hc, p, hp, t, ir, p0, -, ht, hw, hp0, rfl⟩
    · exact .inl rfl
    · obtain ⟨p', hm, hp'⟩ := wrapper_none_src env qs oi t true ir hw
      rw [((mkReq_param _ _ _ _ _ _ hm).1 rfl).1] at hp0
      cases hp0
      rcases hp' with rfl | ⟨qp, dat, rfl, href⟩
      · exact .inl rfl
      · refine .inr ⟨t, qp, dat, ?_, ⟨p, hp, ht⟩, href, hcon (by rw [hc]; decide)⟩
        cases dat <;> rfl
  refine ⟨rin, rout, hrs, ⟨hrin.1, ?_⟩, ⟨hrout.1, ?_⟩⟩
  · intro j p r hp hr
    obtain ⟨t, ht, hcase⟩ := hrin.2 j p r hp hr
    refine ⟨t, ht, ?_⟩
    split at hcase
    · subst hcase
      refine ⟨reqSrcT_noQuantReq env sg qs oi t true, rfl, ?_⟩
      intro _ qp dat hq
      cases hq
    · have hslot : SlotOf sg oi.op true t := ⟨p, List.mem_of_getElem? hp, ht⟩
      refine ⟨wrapper_src env sg qs oi t true g r hslot hG.1 hcase, ?_, ?_⟩
      · obtain ⟨prm, hm⟩ := SharingData.wrapper_mkReq env qs oi t true g r hcase
        exact ((mkReq_param _ _ _ _ _ _ hm).1 rfl).2
      · intro hcn qp dat hq
        rw [hG.2 hcn] at hcase
        obtain ⟨p', hm, hp'⟩ := wrapper_none_src env qs oi t true r hcase
        rw [((mkReq_param _ _ _ _ _ _ hm).1 rfl).1] at hq
        cases hq
        rcases hp' with hp' | ⟨qp', dat', hp', href⟩
        · cases hp'
        · cases hp'
          exact href
  · intro j p r hp hr
    obtain ⟨t, ht, hcase⟩ := hrout.2 j p r hp hr
    refine ⟨t, ht, ?_⟩
    split at hcase
    · subst hcase
      exact ⟨reqSrcT_noQuantReq env sg qs oi t false, rfl⟩
    · have hslot : SlotOf sg oi.op false t := ⟨p, List.mem_of_getElem? hp, ht⟩
      exact ⟨wrapper_src env sg qs oi t false gO r hslot hGO hcase,
        SharingData.wrapper_false_noCons env qs oi t gO r hcase⟩

/-! ## `biasFor` -/

theorem biasFor_src (env : Env) (sg : Subgraph) (qs : Qsvs) (oi : OpInfo) (reqs rs : List CReq) (iIn iW iB : Nat)
    (hR : ∀ r ∈ reqs, ReqSrc env sg qs oi r)
    (hpar : ∀ bslot rin rw qi di qw dw, oi.op.inputs[iB]? = some bslot → reqs[iIn]? = some rin →
      reqs[iW]? = some rw →
      reqParam0 rin = .ok (some (.uniform qi di)) → reqParam0 rw = .ok (some (.uniform qw dw)) →
      ∃ aIn aW tin tw, oi.op.inputs[dataSlot oi.opName]? = some aIn ∧ tensorAt sg aIn = .ok tin ∧
        oi.op.inputs[1]? = some aW ∧ tensorAt sg aW = .ok tw ∧
        RefOf env qs oi tin qi di ∧ RefOf env qs oi tw qw dw)
    (h : biasFor env sg oi reqs iIn iW iB = .ok rs) : ∀ r ∈ rs, ReqSrc env sg qs oi r := by
  unfold biasFor at h
  split at h
  · simp only [pure, Except.pure, Except.ok.injEq] at h; subst h; exact hR
  · rename_i bslot hb
    split at h
    · simp only [pure, Except.pure, Except.ok.injEq] at h; subst h; exact hR
    · obtain ⟨bt, hbt, h⟩ := bind_ok _ _ _ h
      have fin : ∀ bp, (∀ P, bp = some P → PSrc env sg qs oi bt P) →
          (mkReq bt.name oi true bp (isSRQ oi.cfg) >>= fun r =>
            if iB < reqs.length then pure (reqs.set iB r) else throw PyErr.indexError) = .ok rs →
          ∀ r ∈ rs, ReqSrc env sg qs oi r := by
        intro bp hbp h
        obtain ⟨r, hr, h⟩ := bind_ok _ _ _ h
        split at h
        · simp only [pure, Except.pure, Except.ok.injEq] at h
          subst h
          intro y hy
          rcases mem_set_cases _ _ _ _ hy with rfl | ⟨j, _, hj⟩
          · exact ⟨bt, ConstProv.tensorAt_mem _ _ _ hbt, reqSrcT_mkReq env sg qs oi bt true bp _ _ hr hbp⟩
          · exact hR y (List.mem_of_getElem? hj)
        · cases h
      simp only [] at h
      split at h
      · split at h
        · obtain ⟨_, h', _⟩ := bind_ok _ _ _ h
          cases h'
        · rename_i bd hbd
          obtain ⟨pin, hpin, h⟩ := bind_ok _ _ _ h
          obtain ⟨pw, hpw, h⟩ := bind_ok _ _ _ h
          split at h
          · rename_i qi di qw dw _
            obtain ⟨bp, hbp, h⟩ := bind_ok _ _ _ h
            obtain ⟨v, hv, hbp⟩ := bind_ok _ _ _ hbp
            simp only [pure, Except.pure, Except.ok.injEq] at hbp
            subst hbp
            refine fin _ ?_ h
            intro P hP
            cases hP
            cases hin : reqs[iIn]? with
            | none => rw [hin] at hpin; cases hpin
            | some rin =>
              cases hw : reqs[iW]? with
              | none => rw [hw] at hpw; cases hpw
              | some rw' =>
                rw [hin] at hpin
                rw [hw] at hpw
                obtain ⟨aIn, aW, tin, tw, e1, e2, e3, e4, e5, e6⟩ := hpar bslot rin rw' qi di qw dw hb hin hw hpin hpw
                exact .bias aIn aW tin tw qi di qw dw bd v.1 v.2 e1 e2 e3 e4 e5 e6 hbd hv
          · obtain ⟨_, h', _⟩ := bind_ok _ _ _ h
            cases h'
      · obtain ⟨bp, hbp, h⟩ := bind_ok _ _ _ h
        simp only [pure, Except.pure, Except.ok.injEq] at hbp
        subst hbp
        exact fin none (fun P hP => by cases hP) h

/-! ## the fixed-range post-processing -/

theorem fixPost_src (env : Env) (sg : Subgraph) (qs : Qsvs) (oi : OpInfo) (b : Bool) (rs0 rs : List CReq)
    (q0 qs' : Qsvs) (hR : ∀ r ∈ rs0, ReqSrc env sg qs oi r)
    (hlast : ∀ last pr, rs0.getLast? = some last → last.producer = some pr →
      ∃ t ∈ sg.tensors, SlotOf sg oi.op false t ∧ ReqSrcT env sg qs oi t last)
    (h : Locality.fixPost oi b (rs0, q0) = .ok (rs, qs')) : ∀ r ∈ rs, ReqSrc env sg qs oi r := by
  unfold Locality.fixPost at h
  simp only [] at h
  split at h
  · rename_i last a hl hact
    split at h
    · simp only [pure, Except.pure, Except.ok.injEq, Prod.mk.injEq] at h
      rw [← h.1]; exact hR
    · rename_i pr hpr
      split at h
      · cases h
      · rename_i fp hfp
        obtain ⟨mm, hmm, h⟩ := bind_ok _ _ _ h
        split at h
        · cases h
        · simp only [pure, Except.pure, Except.ok.injEq, Prod.mk.injEq] at h
          rw [← h.1]
          intro r hr
          rcases List.mem_append.1 hr with hr | hr
          · exact hR r (List.dropLast_subset _ hr)
          · rw [List.mem_singleton.1 hr]
            obtain ⟨t, htm, hslot, hn, hp, hc⟩ := hlast last pr hl hpr
            refine ⟨t, htm, hn, ?_, hc⟩
            intro c hc'
            simp only [Option.some.injEq] at hc'
            subst hc'
            refine ⟨(hp pr hpr).1, ?_⟩
            intro P hP
            simp only [Option.some.injEq] at hP
            subst hP
            exact .fixed b a fp hact hfp hslot
  · simp only [pure, Except.pure, Except.ok.injEq, Prod.mk.injEq] at h
    rw [← h.1]; exact hR

/-! ## the min/max algorithm -/

theorem minmax_table_conv : ∀ e ∈ minmaxOps,
    (e.2 = "materialize_fc_conv" ∨ e.2 = "materialize_conv2d_transpose") → Tables.woOps.contains e.1 = true := by
  decide

theorem biasSlot_gt_one (k : String) (b : Nat) (h : biasSlot k = some b) : 1 < b := by
  unfold biasSlot at h
  split at h
  · cases h; decide
  · split at h
    · cases h; decide
    · cases h

/-- **every parameter object requested by the min/max algorithm for one operator has a source** -/
theorem materializeOp_minmax_src (env : Env) (sg : Subgraph) (qs : Qsvs) (oi : OpInfo) (fn : String)
    (rs : List CReq) (qs' : Qsvs) (hfn : (oi.opName, fn) ∈ minmaxOps)
    (hmand : ∀ b, biasSlot oi.opName = some b → ∀ i < b, oi.op.inputs[i]? ≠ some (-1))
    (hnc : ConstProv.OutNC env sg oi.op.outputs)
    (h : materializeOp env sg qs oi Tables.algMinMax fn = .ok (rs, qs')) :
    ∀ r ∈ rs, ReqSrc env sg qs oi r := by
  obtain ⟨con, gIn, rs0, q0, hstd, -, hcon, hpost⟩ :=
    TypingSrq.materializeOp_minmax_cases env sg qs oi fn rs qs' hfn h
  obtain ⟨rin, rout, hrs0, hin, hout⟩ := standardOp_src env sg qs oi con gIn [] rs0 q0 hnc hcon hstd
  have hbase : ∀ r ∈ rs0, ReqSrc env sg qs oi r := by
    intro r hr
    rw [hrs0] at hr
    rcases List.mem_append.1 hr with hr | hr
    · obtain ⟨j, p, -, -, t, ht, hS, -⟩ := pointwise_mem hin r hr
      exact ⟨t, ConstProv.tensorAt_mem _ _ _ ht, hS⟩
    · obtain ⟨j, p, -, -, t, ht, hS, -⟩ := pointwise_mem hout r hr
      exact ⟨t, ConstProv.tensorAt_mem _ _ _ ht, hS⟩
  rcases hpost with ⟨rfl, -⟩ | ⟨iIn, iB, hbs, -, hds, -, hlt, hbf, hnconv⟩ | ⟨b, -, hfp, -⟩
  · exact hbase
  · -- the bias of a convolution-like operator
    have hcn : con = .none := by
      by_contra hne
      have hfalse := (hcon hne).1
      have hconv : fn = "materialize_fc_conv" ∨ fn = "materialize_conv2d_transpose" := by
        by_cases h1 : fn = "materialize_fc_conv"
        · exact .inl h1
        · by_cases h2 : fn = "materialize_conv2d_transpose"
          · exact .inr h2
          · exact absurd ⟨h1, h2⟩ hnconv
      have htrue := minmax_table_conv _ hfn hconv
      simp only at htrue
      rw [hfalse] at htrue
      cases htrue
    refine biasFor_src env sg qs oi rs0 rs iIn 1 iB hbase ?_ hbf
    intro bslot rq rw' qi di qw dw hb e3 e4 e5 e6
    have hpre := hmand iB hbs
    have h1lt : 1 < iB := biasSlot_gt_one _ _ hbs
    have hBlen : iB < oi.op.inputs.length := (List.getElem?_eq_some_iff.1 hb).1
    -- the request at position `n < iB` is the request of slot `n`
    have hslot : ∀ n, n < iB → ∀ r qp dat, rs0[n]? = some r → reqParam0 r = .ok (some (.uniform qp dat)) →
        ∃ a t, oi.op.inputs[n]? = some a ∧ tensorAt sg a = .ok t ∧ RefOf env qs oi t qp dat := by
      intro n hn r qp dat hr hq
      have hlen : n < oi.op.inputs.length := by omega
      have hne : oi.op.inputs[n] ≠ -1 := by
        intro e
        exact hpre n hn (by rw [List.getElem?_eq_getElem hlen, e])
      have hci := cslots_get oi.op.inputs n oi.op.inputs[n] (fun i hi => hpre i (by omega))
        (List.getElem?_eq_getElem hlen) hne
      have hlin : n < rin.length := by rw [← hin.1]; exact (List.getElem?_eq_some_iff.1 hci).1
      rw [hrs0, List.getElem?_append_left hlin] at hr
      obtain ⟨t, ht, -, -, href⟩ := hin.2 n _ _ hci hr
      exact ⟨_, t, List.getElem?_eq_getElem hlen, ht, href hcn qp dat hq⟩
    obtain ⟨aIn, tin, i1, i2, i3⟩ := hslot iIn hlt rq qi di e3 e5
    obtain ⟨aW, tw, w1, w2, w3⟩ := hslot 1 h1lt rw' qw dw e4 e6
    exact ⟨aIn, aW, tin, tw, by rw [← hds]; exact i1, i2, w1, w2, i3, w3⟩
  · -- fixed output range
    refine fixPost_src env sg qs oi b rs0 rs q0 qs' hbase ?_ hfp
    intro last pr hl hpr
    have hmem : last ∈ rs0 := List.mem_of_getLast? hl
    rw [hrs0] at hmem
    rcases List.mem_append.1 hmem with hm | hm
    · obtain ⟨j, p, -, -, t, -, -, hnp, -⟩ := pointwise_mem hin last hm
      rw [hnp] at hpr
      cases hpr
    · obtain ⟨j, p, hp, -, t, ht, hS, -⟩ := pointwise_mem hout last hm
      exact ⟨t, ConstProv.tensorAt_mem _ _ _ ht, ⟨p, List.mem_of_getElem? hp, ht⟩, hS⟩

/-! ## float casting, the dispatch, one entry of the operator list -/

theorem floatCastOp_src (env : Env) (sg : Subgraph) (qs : Qsvs) (oi : OpInfo) (iIn iW iB : Nat) (rs : List CReq)
    (h : floatCastOp env sg oi iIn iW iB = .ok rs) : ∀ r ∈ rs, ReqSrc env sg qs oi r := by
  unfold floatCastOp at h
  simp only [] at h
  obtain ⟨sIn, hsIn, h⟩ := bind_ok _ _ _ h
  obtain ⟨tin, htin, h⟩ := bind_ok _ _ _ h
  obtain ⟨sW, hsW, h⟩ := bind_ok _ _ _ h
  obtain ⟨tw, htw, h⟩ := bind_ok _ _ _ h
  obtain ⟨sOut, hsOut, h⟩ := bind_ok _ _ _ h
  obtain ⟨tout, htout, h⟩ := bind_ok _ _ _ h
  obtain ⟨wd, hwd, h⟩ := bind_ok _ _ _ h
  obtain ⟨hh, hmap, h⟩ := bind_ok _ _ _ h
  have e4 : constData env tw = some wd := by
    split at hwd
    · rename_i d hd; simp only [pure, Except.pure, Except.ok.injEq] at hwd; rw [hd, hwd]
    · cases hwd
  have hw : ReqSrc env sg qs oi ⟨tw.name, none, some [(⟨oi.opId, [.addDequant],
      some (Param.nonlinear 16 (some ⟨wd.shape, hh⟩))⟩ : CO2T)]⟩ := by
    refine ⟨tw, ConstProv.tensorAt_mem _ _ _ htw, ?_⟩
    have := reqSrcT_single env sg qs oi tw [.addDequant] (some (Param.nonlinear 16 (some ⟨wd.shape, hh⟩))) true
      (fun P hP => by cases hP; exact .f16 wd hh e4 hmap)
    simpa using this
  have base : ∀ r ∈ [noQuantReq tin.name oi.opId true,
      (⟨tw.name, none, some [(⟨oi.opId, [.addDequant], some (Param.nonlinear 16 (some ⟨wd.shape, hh⟩))⟩ : CO2T)]⟩ : CReq),
      noQuantReq tout.name oi.opId false], ReqSrc env sg qs oi r := by
    intro r hr
    simp only [List.mem_cons, List.mem_nil_iff, or_false] at hr
    rcases hr with rfl | rfl | rfl
    · exact ⟨tin, ConstProv.tensorAt_mem _ _ _ htin, reqSrcT_noQuantReq _ _ _ _ _ _⟩
    · exact hw
    · exact ⟨tout, ConstProv.tensorAt_mem _ _ _ htout, reqSrcT_noQuantReq _ _ _ _ _ _⟩
  split at h
  · split at h
    · obtain ⟨tb, htb, h⟩ := bind_ok _ _ _ h
      simp only [pure, Except.pure, Except.ok.injEq] at h
      subst h
      intro r hr
      rcases List.mem_append.1 hr with hr | hr
      · exact base r hr
      · rw [List.mem_singleton.1 hr]
        exact ⟨tb, ConstProv.tensorAt_mem _ _ _ htb, reqSrcT_noQuantReq _ _ _ _ _ _⟩
    · simp only [pure, Except.pure, Except.ok.injEq] at h
      subst h; exact base
  · simp only [pure, Except.pure, Except.ok.injEq] at h
    subst h; exact base

/-- **every parameter object requested for one operator by a registered materialisation function has a
    source** (`ops` is the registry row of the algorithm) -/
theorem materializeOp_src (env : Env) (sg : Subgraph) (qs : Qsvs) (oi : OpInfo) (alg fn : String)
    (rs : List CReq) (qs' : Qsvs) (ops : List (String × String))
    (hreg1 : Py.dictGet? Tables.registry alg = some ops) (hreg2 : Py.dictGet? ops oi.opName = some fn)
    (hmand : ∀ b, biasSlot oi.opName = some b → ∀ i < b, oi.op.inputs[i]? ≠ some (-1))
    (hnc : ConstProv.OutNC env sg oi.op.outputs)
    (h : materializeOp env sg qs oi alg fn = .ok (rs, qs')) : ∀ r ∈ rs, ReqSrc env sg qs oi r := by
  by_cases hF : (alg == Tables.algFloatCasting) = true
  · rw [materializeOp, if_pos hF] at h
    have fc : ∀ iIn iW iB, (floatCastOp env sg oi iIn iW iB >>= fun r => (pure (r, qs) : PyM (List CReq × Qsvs)))
        = .ok (rs, qs') → ∀ r ∈ rs, ReqSrc env sg qs oi r := by
      intro iIn iW iB h
      obtain ⟨r, hr, h⟩ := bind_ok _ _ _ h
      cases h
      exact floatCastOp_src env sg qs oi iIn iW iB _ hr
    by_cases h1 : (fn == "materialize_fc_conv" || fn == "materialize_embedding_lookup") = true
    · rw [if_pos h1] at h
      exact fc _ _ _ h
    · rw [if_neg h1] at h
      by_cases h2 : (fn == "materialize_conv2d_transpose") = true
      · rw [if_pos h2] at h
        exact fc _ _ _ h
      · rw [if_neg h2] at h
        cases h
  · by_cases hM : (alg == Tables.algMinMax) = true
    · have halg : alg = Tables.algMinMax := by simpa using hM
      subst halg
      rw [registry_minmax] at hreg1
      cases hreg1
      exact materializeOp_minmax_src env sg qs oi fn rs qs' (dictGet?_mem_key _ _ _ hreg2) hmand hnc h
    · rw [materializeOp, if_neg hF, if_neg hM] at h
      cases h

/-! ## invariant rule for `foldlM` with the PREFIX run so far -/

theorem foldlM_inv_prefix {α β} (f : β → α → PyM β) (P : β → Prop) (init : β) (h0 : P init) :
    ∀ (l : List α) (r : β),
      (∀ (j : Nat) (x : α) (s s' : β), l[j]? = some x → (l.take j).foldlM f init = .ok s → P s →
        f s x = .ok s' → P s') →
      l.foldlM f init = .ok r → P r := by
  intro l
  induction l using List.reverseRecOn with
  | nil =>
    intro r _ h
    simp only [List.foldlM_nil, pure, Except.pure, Except.ok.injEq] at h
    rw [← h]; exact h0
  | append_singleton l a ih =>
    intro r hstep h
    rw [List.foldlM_append] at h
    obtain ⟨s, hs, h⟩ := bind_ok _ _ _ h
    simp only [List.foldlM_cons, List.foldlM_nil] at h
    obtain ⟨s', hs', h⟩ := bind_ok _ _ _ h
    simp only [pure, Except.pure, Except.ok.injEq] at h
    subst h
    have hPs : P s := by
      refine ih s ?_ hs
      intro j x t t' hj ht hPt hf
      have hjl : j < l.length := (List.getElem?_eq_some_iff.1 hj).1
      refine hstep j x t t' ?_ ?_ hPt hf
      · rw [List.getElem?_append_left hjl]; exact hj
      · rw [List.take_append_of_le_length (by omega)]; exact ht
    refine hstep l.length a s s' ?_ ?_ hPs hs'
    · simp
    · simp only [List.take_left']; exact hs

/-! ## one entry of the operator list -/

/-- the `OpInfo` the generator builds for entry `q` of the operator list of subgraph `s`, resolved under
    the name `k` and the scope `scope` -/
def oiOf (rx : String → String → Bool) (st : Recipe.State) (s : Nat) (q : Op × Option String × Int)
    (k scope : String) : OpInfo :=
  { sgIdx := s, op := q.1, opName := k, opId := q.2.2, cfg := (Recipe.resolve rx st k scope).2 }

/-- entry `q` of the operator list of `sg` has the name `k` and the scope `scope`, and the recipe resolves
    them to a quantizing algorithm -/
def Resolves (rx : String → String → Bool) (env : Env) (st : Recipe.State) (sg : Subgraph)
    (q : Op × Option String × Int) (k scope : String) : Prop :=
  keyOf env q = .ok (some k) ∧ opScope sg q.1 = .ok scope ∧
    ((Recipe.resolve rx st k scope).1 == Tables.algNoQuantize) = false

/-- no side of the request carries parameters -/
def NoParams (r : CReq) : Prop :=
  (∀ c, r.producer = some c → c.param = none) ∧ ∀ cs c, r.consumers = some cs → c ∈ cs → c.param = none

theorem noParams_noQuantReq (n : String) (o : Int) (b : Bool) : NoParams (noQuantReq n o b) := by
  cases b
  · rw [noQuantReq_prod]
    refine ⟨?_, fun cs c h => by cases h⟩
    intro c hc
    cases hc
    rfl
  · rw [noQuantReq_cons]
    refine ⟨fun c hc => (by cases hc), ?_⟩
    intro cs c hcs hc
    cases hcs
    rw [List.mem_singleton.1 hc]

theorem noQuantOp_noParams (sg : Subgraph) (op : Op) (opId : Int) (rs : List CReq)
    (h : noQuantOp sg op opId = .ok rs) : ∀ r ∈ rs, NoParams r := by
  unfold noQuantOp at h
  obtain ⟨ins, hins, h⟩ := bind_ok _ _ _ h
  obtain ⟨outs, houts, h⟩ := bind_ok _ _ _ h
  simp only [pure, Except.pure, Except.ok.injEq] at h
  subst h
  intro r hr
  rcases List.mem_append.1 hr with hr | hr
  · obtain ⟨i, _, hf⟩ := GraphFrame.mapM_ok _ _ _ hins r hr
    obtain ⟨t, _, hf⟩ := bind_ok _ _ _ hf
    simp only [pure, Except.pure, Except.ok.injEq] at hf
    subst hf; exact noParams_noQuantReq _ _ _
  · obtain ⟨i, _, hf⟩ := GraphFrame.mapM_ok _ _ _ houts r hr
    obtain ⟨t, _, hf⟩ := bind_ok _ _ _ hf
    simp only [pure, Except.pure, Except.ok.injEq] at hf
    subst hf; exact noParams_noQuantReq _ _ _

/-- **the requests of one entry of the operator list**: without parameters (operator left unquantized),
    or every parameter object has a source under the resolved config -/
theorem opReqs_src (rx : String → String → Bool) (env : Env) (st : Recipe.State)
    (s : Nat) (sg : Subgraph) (qs : Qsvs) (q : Op × Option String × Int) (rs : List CReq) (qs' : Qsvs)
    (hmand : ∀ k, keyOf env q = .ok (some k) → ∀ b, biasSlot k = some b → ∀ i < b, q.1.inputs[i]? ≠ some (-1))
    (hnc : ConstProv.OutNC env sg q.1.outputs)
    (h : opReqs rx env st s sg qs q = .ok (rs, qs')) :
    ∀ r ∈ rs, NoParams r ∨ ∃ k scope, Resolves rx env st sg q k scope ∧
      ReqSrc env sg qs (oiOf rx st s q k scope) r := by
  unfold opReqs at h
  split at h
  · cases h
  · split at h
    · cases h
    · rename_i r hr
      cases h
      intro r' hr'
      exact .inl (noQuantOp_noParams sg _ _ _ hr r' hr')
  · rename_i k hk
    split at h
    · cases h
    · rename_i scope hscope
      split at h
      · split at h
        · cases h
        · rename_i r hr
          cases h
          intro r' hr'
          exact .inl (noQuantOp_noParams sg _ _ _ hr r' hr')
      · rename_i halg
        split at h
        · cases h
        · rename_i ops hops
          split at h
          · cases h
          · rename_i fn hfn
            intro r hr
            refine .inr ⟨k, scope, ⟨hk, hscope, by simpa using halg⟩, ?_⟩
            exact materializeOp_src env sg qs (oiOf rx st s q k scope) _ fn rs qs' ops hops hfn
              (hmand k hk) hnc h r hr

theorem mand_allOps (env : Env) (st : Recipe.State) (hg : GenHyp env st) (sg : Subgraph)
    (hsg : sg ∈ env.model.subgraphs) (q : Op × Option String × Int) (hq : q ∈ allOps sg) :
    ∀ k, keyOf env q = .ok (some k) → ∀ b, biasSlot k = some b → ∀ i < b, q.1.inputs[i]? ≠ some (-1) := by
  unfold allOps at hq
  rcases List.mem_append.1 hq with hq | hq
  · obtain ⟨⟨op, j⟩, hj, rfl⟩ := List.mem_map.1 hq
    have hop : sg.ops[j]? = some op := by
      have := List.mem_zipIdx_iff_getElem?.1 hj
      simpa using this
    intro k hk b hb
    have hn := keyOf_real env op _ k hk
    exact (hg.mandatory sg hsg op (List.mem_of_getElem? hop) k hn b hb).1
  · simp only [List.mem_cons, List.mem_nil_iff, or_false] at hq
    rcases hq with rfl | rfl
    · intro k hk b hb
      simp only [keyOf, pure, Except.pure, Except.ok.injEq, Option.some.injEq] at hk
      subst hk
      have : biasSlot "INPUT" = none := by decide
      rw [this] at hb; cases hb
    · intro k hk b hb
      simp only [keyOf, pure, Except.pure, Except.ok.injEq, Option.some.injEq] at hk
      subst hk
      have : biasSlot "OUTPUT" = none := by decide
      rw [this] at hb; cases hb

/-! ## the whole materialisation loop -/

/-- `qs` is the statistics dictionary in force when entry `j` of the operator list of subgraph `s` (= `sg`)
    is materialised: the first component of the loop state after the subgraphs before `s` and the entries
    before `j` -/
def StatsAt (rx : String → String → Bool) (env : Env) (st : Recipe.State) (qsvs : Option Qsvs)
    (s : Nat) (sg : Subgraph) (j : Nat) (qs : Qsvs) : Prop :=
  ∃ (g1 : GState) (res : List (String × CReq)),
    (env.model.subgraphs.zipIdx.take s).foldlM (sgStep rx env st) (qsvs.getD [], []) = .ok g1 ∧
    ((allOps sg).take j).foldlM (opStep rx env st s sg) g1 = .ok (qs, res)

/-- **provenance of one side** (filed under the tensor name `n`) of an entry of the result dictionary: its
    parameter object was attached by the materialisation of entry `j` (= `q`, the side's operator id) of the
    operator list of a subgraph `sg`, resolved to a quantizing algorithm under name `k` and scope `scope`,
    with the statistics `qs` in force at that moment, to the tensor `t` of `sg` named `n`, and has a
    source `PSrc` there -/
def SideAt (rx : String → String → Bool) (env : Env) (st : Recipe.State) (qsvs : Option Qsvs)
    (n : String) (c : CO2T) : Prop :=
  ∀ P, c.param = some P → ∃ (s : Nat) (sg : Subgraph) (j : Nat) (q : Op × Option String × Int)
    (k scope : String) (qs : Qsvs) (t : Tensor),
    env.model.subgraphs[s]? = some sg ∧ (allOps sg)[j]? = some q ∧ Resolves rx env st sg q k scope ∧
    StatsAt rx env st qsvs s sg j qs ∧ c.opId = q.2.2 ∧ t ∈ sg.tensors ∧ t.name = n ∧
    PSrc env sg qs (oiOf rx st s q k scope) t P

/-- **every parameter object in the result dictionary of `Mat.generate` has a source** -/
theorem generate_src (rx : String → String → Bool) (env : Env) (st : Recipe.State) (qsvs : Option Qsvs)
    (hg : GenHyp env st) (qs : Qsvs) (res : List (String × CReq))
    (hfold : env.model.subgraphs.zipIdx.foldlM (sgStep rx env st) (qsvs.getD [], []) = .ok (qs, res)) :
    TypingShape.DSides (SideAt rx env st qsvs) (SideAt rx env st qsvs) res := by
  refine foldlM_inv_prefix (sgStep rx env st)
    (fun x : GState => TypingShape.DSides (SideAt rx env st qsvs) (SideAt rx env st qsvs) x.2)
    (qsvs.getD [], []) (by intro e he; cases he) _ (qs, res) ?_ hfold
  intro s p g1 g2 hp hpre hP hstep
  rw [List.getElem?_zipIdx] at hp
  cases hsg : env.model.subgraphs[s]? with
  | none => rw [hsg] at hp; cases hp
  | some sg =>
    rw [hsg] at hp
    simp only [Option.map_some, Nat.zero_add, Option.some.injEq] at hp
    subst hp
    have hmem : sg ∈ env.model.subgraphs := List.mem_of_getElem? hsg
    unfold sgStep at hstep
    refine foldlM_inv_prefix (opStep rx env st s sg)
      (fun x : GState => TypingShape.DSides (SideAt rx env st qsvs) (SideAt rx env st qsvs) x.2)
      g1 hP _ g2 ?_ hstep
    intro j q x x' hq hprej hx hstepq
    obtain ⟨rs, hr, hu⟩ := opStep_ok rx env st s sg x x' q hstepq
    have hqm : q ∈ allOps sg := List.mem_of_getElem? hq
    have hsrc := opReqs_src rx env st s sg x.1 q rs x'.1 (mand_allOps env st hg sg hmem q hqm)
      (ConstProv.outNC_allOps env st hg sg hmem q hqm) hr
    refine TypingShape.updateResults_sides _ _ rs _ _ hx ?_ hu
    intro r hrm
    have hstat : StatsAt rx env st qsvs s sg j x.1 := ⟨g1, x.2, hpre, hprej⟩
    have side : ∀ c, (r.producer = some c ∨ ∃ cs, r.consumers = some cs ∧ c ∈ cs) →
        SideAt rx env st qsvs r.name c := by
      intro c hc P hP
      rcases hsrc r hrm with hno | ⟨k, scope, hres, t, htm, hname, hprod, hcons⟩
      · rcases hc with hc | ⟨cs, hcs, hc⟩
        · rw [hno.1 c hc] at hP; cases hP
        · rw [hno.2 cs c hcs hc] at hP; cases hP
      · have hS : SideSrc env sg x.1 (oiOf rx st s q k scope) t c := by
          rcases hc with hc | ⟨cs, hcs, hc⟩
          · exact hprod c hc
          · exact hcons cs c hcs hc
        exact ⟨s, sg, j, q, k, scope, x.1, t, hsg, hq, hres, hstat, hS.1, htm, hname.symm, hS.2 P hP⟩
    exact ⟨fun c hc => side c (.inl hc), fun cs c hcs hc => side c (.inr ⟨cs, hcs, hc⟩)⟩

end ParamsSrc
