import QProofs.SharingData
import QProofs.LocalityShape
/-!
# C03 end to end, request stage: the requests of one operator reach the result dictionary

`Has res r`: the dictionary `res` of `Mat.generate` contains the request `r` (its producer side is
the entry's producer side, its consumer sides are among the entry's consumer sides).
`generate_has`: after the materialisation loop every request emitted for every (pseudo-)operator of
every subgraph is contained in the final dictionary.
-/
open Graph Mat Cfg Pipeline InstGen GenInstsOK Pipe

namespace TypingReq

/-- the dictionary contains request `r` -/
def Has (res : List (String × CReq)) (r : CReq) : Prop :=
  ∃ e, Py.dictGet? res r.name = some e ∧ (∀ p, r.producer = some p → e.producer = some p) ∧
    ∀ cs, r.consumers = some cs → ∃ ecs, e.consumers = some ecs ∧ ∀ c ∈ cs, c ∈ ecs

/-- the dictionary `res'` contains every request that `res` contains -/
def Grows (res res' : List (String × CReq)) : Prop := ∀ r, Has res r → Has res' r

theorem Grows.refl (res : List (String × CReq)) : Grows res res := fun _ h => h

theorem Grows.trans {a b c : List (String × CReq)} (h1 : Grows a b) (h2 : Grows b c) : Grows a c :=
  fun r h => h2 r (h1 r h)

theorem stepF_has (res res' : List (String × CReq)) (r : CReq) (h : stepF res r = .ok res') :
    Has res' r ∧ Grows res res' := by
  unfold stepF at h
  cases hg : Py.dictGet? res r.name with
  | none =>
    rw [hg] at h
    simp only [pure, Except.pure, Except.ok.injEq] at h
    subst h
    refine ⟨⟨r, CalibProofs.dictGet?_append_none res (r.name, r) hg, fun p hp => hp,
      fun cs hcs => ⟨cs, hcs, fun c hc => hc⟩⟩, ?_⟩
    rintro r0 ⟨e, h1, h2, h3⟩
    exact ⟨e, CalibProofs.dictGet?_append_some _ _ _ _ h1, h2, h3⟩
  | some cur =>
    rw [hg] at h
    simp only [] at h
    split at h
    · cases h
    · rename_i hnot
      simp only [pure, Except.pure, Except.ok.injEq] at h
      subst h
      refine ⟨⟨_, by rw [CalibProofs.dictGet?_dictSet, if_pos rfl], ?_, ?_⟩, ?_⟩
      · intro p hp
        simp only [hp]
      · intro cs hcs
        simp only [hcs]
        cases hcc : cur.consumers with
        | none => exact ⟨cs, rfl, fun c hc => hc⟩
        | some c0 => exact ⟨c0 ++ cs, rfl, fun c hc => List.mem_append_right _ hc⟩
      · rintro r0 ⟨e, h1, h2, h3⟩
        by_cases hn : r.name = r0.name
        · rw [← hn, hg] at h1
          cases h1
          refine ⟨_, by rw [CalibProofs.dictGet?_dictSet, if_pos hn], ?_, ?_⟩
          · intro p hp
            have hcp := h2 p hp
            simp only
            cases hrp : r.producer with
            | none => exact hcp
            | some q => exact absurd hcp (by intro hc; exact hnot q p hrp hc)
          · intro cs hcs
            obtain ⟨ecs, he, hsub⟩ := h3 cs hcs
            simp only [he]
            cases hrc : r.consumers with
            | none => exact ⟨ecs, rfl, hsub⟩
            | some c => exact ⟨ecs ++ c, rfl, fun x hx => List.mem_append_left _ (hsub x hx)⟩
        · exact ⟨e, by rw [CalibProofs.dictGet?_dictSet, if_neg hn]; exact h1, h2, h3⟩

theorem updateResults_has : ∀ (rs : List CReq) (res res' : List (String × CReq)),
    updateResults res rs = .ok res' → (∀ r ∈ rs, Has res' r) ∧ Grows res res' := by
  intro rs
  induction rs with
  | nil =>
    intro res res' h
    simp only [updateResults_eq, List.foldlM_nil, pure, Except.pure, Except.ok.injEq] at h
    subst h
    exact ⟨fun r hr => (by cases hr), Grows.refl _⟩
  | cons r rs ih =>
    intro res res' h
    rw [updateResults_eq, List.foldlM_cons] at h
    obtain ⟨res2, h2, h⟩ := GraphInv.bind_ok _ _ _ h
    obtain ⟨a1, a2⟩ := stepF_has res res2 r h2
    obtain ⟨b1, b2⟩ := ih res2 res' h
    refine ⟨?_, a2.trans b2⟩
    intro r' hr'
    rcases List.mem_cons.1 hr' with rfl | hr'
    · exact b2 _ a1
    · exact b1 r' hr'

/-- a fold whose steps are related by a preorder: every element's own step is bracketed -/
theorem foldlM_bracket {α β} (f : β → α → PyM β) (R : β → β → Prop) (hrefl : ∀ s, R s s)
    (htrans : ∀ a b c, R a b → R b c → R a c) (hR : ∀ s x s', f s x = .ok s' → R s s') :
    ∀ (l : List α) (init r : β), l.foldlM f init = .ok r →
      R init r ∧ ∀ x ∈ l, ∃ s s', f s x = .ok s' ∧ R init s ∧ R s' r := by
  intro l
  induction l with
  | nil =>
    intro init r h
    simp only [List.foldlM_nil, pure, Except.pure, Except.ok.injEq] at h
    subst h
    exact ⟨hrefl _, fun x hx => (by cases hx)⟩
  | cons a as ih =>
    intro init r h
    rw [List.foldlM_cons] at h
    obtain ⟨s1, h1, h⟩ := GraphInv.bind_ok _ _ _ h
    obtain ⟨g1, g2⟩ := ih s1 r h
    have h01 := hR _ _ _ h1
    refine ⟨htrans _ _ _ h01 g1, ?_⟩
    intro x hx
    rcases List.mem_cons.1 hx with rfl | hx
    · exact ⟨init, s1, h1, hrefl _, g1⟩
    · obtain ⟨s, s', e1, e2, e3⟩ := g2 x hx
      exact ⟨s, s', e1, htrans _ _ _ h01 e2, e3⟩

theorem opStep_grows (rx : String → String → Bool) (env : Env) (st : Recipe.State) (sIdx : Nat) (sg : Subgraph)
    (s s' : GState) (q : Op × Option String × Int) (h : opStep rx env st sIdx sg s q = .ok s') :
    Grows s.2 s'.2 := by
  obtain ⟨rs, -, hu⟩ := opStep_ok rx env st sIdx sg s s' q h
  exact (updateResults_has rs _ _ hu).2

theorem sgStep_grows (rx : String → String → Bool) (env : Env) (st : Recipe.State) (s s' : GState)
    (p : Subgraph × Nat) (h : sgStep rx env st s p = .ok s') : Grows s.2 s'.2 := by
  unfold sgStep at h
  exact (foldlM_bracket (opStep rx env st p.2 p.1) (fun a b : GState => Grows a.2 b.2)
    (fun _ => Grows.refl _) (fun _ _ _ => Grows.trans)
    (fun a x b hab => opStep_grows rx env st p.2 p.1 a b x hab) _ _ _ h).1

/-- **every request of every (pseudo-)operator reaches the final dictionary** -/
theorem generate_has (rx : String → String → Bool) (env : Env) (st : Recipe.State) (init qs : Qsvs)
    (res : List (String × CReq))
    (hfold : env.model.subgraphs.zipIdx.foldlM (sgStep rx env st) (init, []) = .ok (qs, res))
    (s : Nat) (sg : Subgraph) (hsg : env.model.subgraphs[s]? = some sg)
    (q : Op × Option String × Int) (hq : q ∈ allOps sg) :
    ∃ qs0 rs qs1, opReqs rx env st s sg qs0 q = .ok (rs, qs1) ∧ ∀ r ∈ rs, Has res r := by
  obtain ⟨-, hb⟩ := foldlM_bracket (sgStep rx env st) (fun a b : GState => Grows a.2 b.2)
    (fun _ => Grows.refl _) (fun _ _ _ => Grows.trans)
    (fun a x b hab => sgStep_grows rx env st a b x hab) _ _ _ hfold
  obtain ⟨s1, s2, h12, -, hs2⟩ := hb (sg, s) (List.mem_zipIdx_iff_getElem?.2 hsg)
  unfold sgStep at h12
  obtain ⟨-, hb'⟩ := foldlM_bracket (opStep rx env st s sg) (fun a b : GState => Grows a.2 b.2)
    (fun _ => Grows.refl _) (fun _ _ _ => Grows.trans)
    (fun a x b hab => opStep_grows rx env st s sg a b x hab) _ _ _ h12
  obtain ⟨t1, t2, ht, -, ht2⟩ := hb' q hq
  obtain ⟨rs, hr, hu⟩ := opStep_ok rx env st s sg t1 t2 q ht
  exact ⟨t1.1, rs, t2.1, hr, fun r hr' => hs2 r (ht2 r ((updateResults_has rs _ _ hu).1 r hr'))⟩

/-! ## the requests of an operator that is not quantized -/

theorem noQuantOp_mem (sg : Subgraph) (op : Op) (opId : Int) (rs : List CReq)
    (h : noQuantOp sg op opId = .ok rs) :
    (∀ t ∈ op.inputs, t ≠ -1 → ∃ tn, tensorAt sg t = .ok tn ∧ noQuantReq tn.name opId true ∈ rs) ∧
    (∀ t ∈ op.outputs, t ≠ -1 → ∃ tn, tensorAt sg t = .ok tn ∧ noQuantReq tn.name opId false ∈ rs) := by
  unfold noQuantOp at h
  obtain ⟨ins, hins, h⟩ := GraphInv.bind_ok _ _ _ h
  obtain ⟨outs, houts, h⟩ := GraphInv.bind_ok _ _ _ h
  simp only [pure, Except.pure, Except.ok.injEq] at h
  subst h
  refine ⟨?_, ?_⟩
  · intro t ht hne
    obtain ⟨y, hy, hf⟩ := Wiring.mapM_ok' _ _ _ hins t
      (List.mem_filter.2 ⟨ht, by simpa using hne⟩)
    obtain ⟨tn, htn, hf⟩ := GraphInv.bind_ok _ _ _ hf
    simp only [pure, Except.pure, Except.ok.injEq] at hf
    subst hf
    exact ⟨tn, htn, List.mem_append_left _ hy⟩
  · intro t ht hne
    obtain ⟨y, hy, hf⟩ := Wiring.mapM_ok' _ _ _ houts t
      (List.mem_filter.2 ⟨ht, by simpa using hne⟩)
    obtain ⟨tn, htn, hf⟩ := GraphInv.bind_ok _ _ _ hf
    simp only [pure, Except.pure, Except.ok.injEq] at hf
    subst hf
    exact ⟨tn, htn, List.mem_append_right _ hy⟩

/-! ## every consumer request lands in a group -/

/-- index `i` occurs in some group -/
def Covered (G : List (List Nat)) (i : Nat) : Prop := ∃ g ∈ G, i ∈ g

theorem placeInto_cover (cs : List O2T) (d : Nat) (cur : List Nat) (ci : Nat) (G : List (List Nat)) :
    Covered (placeInto cs d cur ci G) ci ∧ ∀ j, Covered G j → Covered (placeInto cs d cur ci G) j := by
  induction G with
  | nil =>
    refine ⟨⟨[ci], by simp [placeInto], by simp⟩, ?_⟩
    rintro j ⟨g, hg, _⟩
    cases hg
  | cons ng rest ih =>
    obtain ⟨ih1, ih2⟩ := ih
    have lift : ∀ j, Covered rest j → Covered (ng :: placeInto cs d cur ci rest) j := by
      rintro j hj
      obtain ⟨g, hg, hjg⟩ := ih2 j hj
      exact ⟨g, List.mem_cons_of_mem _ hg, hjg⟩
    have skip : Covered (ng :: placeInto cs d cur ci rest) ci ∧
        ∀ j, Covered (ng :: rest) j → Covered (ng :: placeInto cs d cur ci rest) j := by
      refine ⟨?_, ?_⟩
      · obtain ⟨g, hg, hc⟩ := ih1
        exact ⟨g, List.mem_cons_of_mem _ hg, hc⟩
      · rintro j ⟨g, hg, hjg⟩
        rcases List.mem_cons.1 hg with rfl | hg
        · exact ⟨g, List.mem_cons_self, hjg⟩
        · exact lift j ⟨g, hg, hjg⟩
    simp only [placeInto]
    split
    · split
      · refine ⟨⟨ng ++ [ci], List.mem_cons_self, by simp⟩, ?_⟩
        rintro j ⟨g, hg, hjg⟩
        rcases List.mem_cons.1 hg with rfl | hg
        · exact ⟨g ++ [ci], List.mem_cons_self, List.mem_append_left _ hjg⟩
        · exact ⟨g, List.mem_cons_of_mem _ hg, hjg⟩
      · exact skip
    · exact skip

theorem nextDepth_cover (cs : List O2T) (hlen : ∀ c ∈ cs, c.xfs.length = 1) :
    ∀ i < cs.length, Covered (nextDepth cs 0 [List.range cs.length]) i := by
  unfold nextDepth
  have key : ∀ (l : List Nat) (acc : List (List Nat)), (∀ ci ∈ l, ci < cs.length) →
      (∀ ci ∈ l, Covered (l.foldl (fun next ci =>
          if 0 < (cs.getD ci default).xfs.length then
            [List.range cs.length].foldl (fun next g => if g.contains ci then placeInto cs 0 g ci next else next) next
          else next) acc) ci) ∧
      ∀ j, Covered acc j → Covered (l.foldl (fun next ci =>
          if 0 < (cs.getD ci default).xfs.length then
            [List.range cs.length].foldl (fun next g => if g.contains ci then placeInto cs 0 g ci next else next) next
          else next) acc) j := by
    intro l
    induction l with
    | nil => intro acc _; exact ⟨fun ci h => (by cases h), fun j h => h⟩
    | cons c l ih =>
      intro acc hl
      have hc : c < cs.length := hl c List.mem_cons_self
      have h0 : 0 < (cs.getD c default).xfs.length := by
        rw [hlen _ (GenInstsGroup.getD_mem cs c hc)]; exact Nat.one_pos
      have hcont : (List.range cs.length).contains c = true := by
        rw [List.contains_iff_mem]; exact List.mem_range.2 hc
      simp only [List.foldl_cons, List.foldl_nil, h0, if_true, hcont]
      obtain ⟨i1, i2⟩ := ih (placeInto cs 0 (List.range cs.length) c acc)
        (fun ci h => hl ci (List.mem_cons_of_mem _ h))
      obtain ⟨p1, p2⟩ := placeInto_cover cs 0 (List.range cs.length) c acc
      refine ⟨?_, fun j hj => i2 j (p2 j hj)⟩
      intro ci hci
      rcases List.mem_cons.1 hci with rfl | hci
      · exact i2 _ p1
      · exact i1 ci hci
  intro i hi
  exact (key (List.range cs.length) [] (fun ci h => List.mem_range.1 h)).1 i (List.mem_range.2 hi)

/-- the closed shape of the consumer-side instructions, with coverage -/
theorem groups_cover (cons : Option (List O2T)) (info : TInfo)
    (hlen : ∀ cs, cons = some cs → ∀ c ∈ cs, c.xfs.length = 1) :
    vertUnavail (groupConsumers cons) (cons.getD []) info = [] ∧
    ∃ G, GenInstsGroup.GInv (cons.getD []) G ∧ (∀ i < (cons.getD []).length, Covered G i) ∧
      vertAvail (groupConsumers cons) (cons.getD []) info = G.map (instOfGroup (cons.getD []) info 0) := by
  cases cons with
  | none => exact ⟨rfl, [], GenInstsGroup.GInv_nil _, fun i h => absurd h (by simp), rfl⟩
  | some cs =>
    cases cs with
    | nil => exact ⟨rfl, [], GenInstsGroup.GInv_nil _, fun i h => absurd h (by simp), rfl⟩
    | cons c cs' =>
      have hl := hlen _ rfl
      rw [GenInstsGroup.groupConsumers_cons c cs' hl]
      exact ⟨rfl, _, GenInstsGroup.nextDepth_inv _ hl, nextDepth_cover _ hl, rfl⟩

/-! ## the consumer-side rule of one consumer request -/

theorem instOfGroup_first (os : List O2T) (info : TInfo) (G : List (List Nat)) (hG : GenInstsGroup.GInv os G)
    (g : List Nat) (hg : g ∈ G) (j : Nat) (hj : j ∈ g) :
    (instOfGroup os info 0 g).xf = (os.getD j default).xfs.getD 0 .noQuant ∧
    (instOfGroup os info 0 g).param = (os.getD j default).param := by
  obtain ⟨h, tl, rfl⟩ := List.exists_cons_of_ne_nil (hG.ne g hg)
  have hk := hG.same _ hg h List.mem_cons_self j hj
  unfold GenInstsGroup.K at hk
  simp only [Prod.mk.injEq] at hk
  refine ⟨?_, ?_⟩
  · show ((os.getD h default).xfs.getD 0 .noQuant) = _
    rw [hk.2]
  · show (os.getD h default).param = _
    exact hk.1

/-- the group rule that lists the consumer request `o`: it exists, and every rule listing `o.opId`
    has `o`'s transformation and parameter -/
theorem rule_of_consumer (os : List O2T) (info : TInfo) (G : List (List Nat)) (hG : GenInstsGroup.GInv os G)
    (hcov : ∀ i < os.length, Covered G i)
    (hsame : ∀ c ∈ os, ∀ c' ∈ os, c.opId = c'.opId → c.xfs = c'.xfs ∧ c.param = c'.param)
    (o : O2T) (ho : o ∈ os) (x : Xf) (hx : o.xfs = [x]) :
    (∃ r ∈ G.map (instOfGroup os info 0), o.opId ∈ r.consumers ∧ r.xf = x ∧ r.param = o.param ∧
      r.tensor = info.tensorId ∧ r.producer = info.producer) ∧
    ∀ r ∈ G.map (instOfGroup os info 0), o.opId ∈ r.consumers → r.xf = x ∧ r.param = o.param := by
  obtain ⟨i, hi⟩ := List.mem_iff_getElem?.1 ho
  have hil : i < os.length := (List.getElem?_eq_some_iff.1 hi).1
  have hgi : os.getD i default = o := by rw [List.getD_eq_getElem?_getD, hi]; rfl
  refine ⟨?_, ?_⟩
  · obtain ⟨g, hg, hig⟩ := hcov i hil
    obtain ⟨f1, f2⟩ := instOfGroup_first os info G hG g hg i hig
    refine ⟨_, List.mem_map.2 ⟨g, hg, rfl⟩, ?_, ?_, ?_, rfl, rfl⟩
    · exact List.mem_map.2 ⟨i, hig, by rw [hgi]⟩
    · rw [f1, hgi, hx]; rfl
    · rw [f2, hgi]
  · intro r hr hmem
    obtain ⟨g, hg, rfl⟩ := List.mem_map.1 hr
    obtain ⟨j, hj, hjo⟩ := List.mem_map.1 hmem
    have hjl : j < os.length := hG.lt g hg j hj
    have hs := hsame _ (GenInstsGroup.getD_mem os j hjl) o ho hjo
    obtain ⟨f1, f2⟩ := instOfGroup_first os info G hG g hg j hj
    exact ⟨by rw [f1, hs.1, hx]; rfl, by rw [f2, hs.2]⟩

/-- every rule comes from a consumer request -/
theorem rule_source (os : List O2T) (info : TInfo) (G : List (List Nat)) (hG : GenInstsGroup.GInv os G)
    (r : Inst) (hr : r ∈ G.map (instOfGroup os info 0)) :
    ∃ o ∈ os, o.opId ∈ r.consumers ∧ r.xf = o.xfs.getD 0 .noQuant ∧ r.param = o.param ∧
      r.tensor = info.tensorId := by
  obtain ⟨g, hg, rfl⟩ := List.mem_map.1 hr
  obtain ⟨h, tl, rfl⟩ := List.exists_cons_of_ne_nil (hG.ne g hg)
  have hl := hG.lt _ hg h List.mem_cons_self
  obtain ⟨f1, f2⟩ := instOfGroup_first os info G hG _ hg h List.mem_cons_self
  exact ⟨_, GenInstsGroup.getD_mem os h hl, List.mem_map.2 ⟨h, List.mem_cons_self, rfl⟩, f1, f2, rfl⟩

/-! ## closed form of the instruction list of one tensor -/

/-- the producer rule -/
def prodInst (info : TInfo) (p : O2T) (y : Xf) : Inst :=
  { xf := y, tensor := info.tensorId, producer := info.producer, consumers := info.consumers, param := p.param }

theorem instsOf_closed (info : TInfo) (a : TReq)
    (hlen : ∀ cs, a.consumers = some cs → ∀ c ∈ cs, c.xfs.length = 1) :
    ∃ G, GenInstsGroup.GInv (a.consumers.getD []) G ∧ (∀ i < (a.consumers.getD []).length, Covered G i) ∧
      (a.producer = none → instsOf info a = G.map (instOfGroup (a.consumers.getD []) info 0)) ∧
      (∀ p y, a.producer = some p → p.xfs = [y] →
        instsOf info a = (applyVertical (prodInst info p y) (G.map (instOfGroup (a.consumers.getD []) info 0))).1) := by
  obtain ⟨hun, G, hG, hcov, hav⟩ := groups_cover a.consumers info hlen
  refine ⟨G, hG, hcov, ?_, ?_⟩
  · intro hp
    unfold instsOf
    simp only [hun, hav, List.append_nil, hp, List.getLast?_nil]
  · intro p y hp hy
    unfold instsOf
    simp only [hun, hav, List.append_nil, hp, hy, List.map_cons, List.map_nil, List.getLast?_singleton,
      List.dropLast_singleton, List.nil_append]
    rfl

theorem mem_applyVertical (P : Inst) (rules : List Inst) (ins : Inst) (h : ins ∈ (applyVertical P rules).1) :
    ins = { P with consumers := vremAll P rules } ∨ ins ∈ rules.flatMap (vstep P) ∨
    (ins = ⟨.quantTensor, P.tensor, P.producer, [], P.param⟩ ∧ P.xf = .addDequant) := by
  rw [applyVertical_eq] at h
  split at h
  · rcases List.mem_cons.1 h with h | h
    · exact .inl h
    · exact .inr (.inl h)
  · split at h
    · rename_i hc
      simp only [Bool.and_eq_true, beq_iff_eq] at hc
      exact .inr (.inr ⟨List.mem_singleton.1 h, hc.2⟩)
    · exact .inr (.inl h)

theorem flat_mem_applyVertical (P : Inst) (rules : List Inst) (ins : Inst)
    (h : ins ∈ rules.flatMap (vstep P)) : ins ∈ (applyVertical P rules).1 := by
  rw [applyVertical_eq]
  split
  · exact List.mem_cons_of_mem _ h
  · split
    · rename_i hc
      simp only [Bool.and_eq_true, List.isEmpty_iff] at hc
      rw [hc.1] at h
      cases h
    · exact h

theorem vstep_noDq (P r : Inst) (h : P.xf ≠ .addDequant) : vstep P r = [r] := by
  unfold vstep
  have : (P.xf == Xf.addDequant) = false := by simpa using h
  simp [this]

theorem vstep_dq_noQuant (P r : Inst) (h : P.xf = .addDequant) (hr : r.xf = .noQuant) :
    vstep P r = [⟨.addDequant, r.tensor, r.producer, r.consumers, P.param⟩] := by
  unfold vstep
  simp [h, hr]

theorem vstep_dq_addQuant_same (P r : Inst) (h : P.xf = .addDequant) (hr : r.xf = .addQuant)
    (hp : P.param = r.param) :
    vstep P r = [⟨.quantTensor, r.tensor, r.producer, r.consumers, r.param⟩] := by
  unfold vstep
  simp [h, hr, hp]

theorem vstep_dq_addQuant_diff (P r : Inst) (h : P.xf = .addDequant) (hr : r.xf = .addQuant)
    (hp : P.param ≠ r.param) :
    vstep P r = [⟨.quantTensor, r.tensor, r.producer, r.consumers, P.param⟩,
                 ⟨.addQuant, r.tensor, r.producer, r.consumers, r.param⟩] := by
  unfold vstep
  have : (P.param == r.param) = false := by simpa using hp
  simp [h, hr, this]

/-- an instruction list that passed `instsValid` and contains a NO_QUANTIZE instruction contains no
    retyping instruction -/
theorem instsValid_noRetype (L : List Inst) (hv : instsValid L = true) (hn : ∃ ins ∈ L, ins.xf = .noQuant) :
    ∀ ins ∈ L, Wiring.retypes ins.xf = false := by
  intro ins hins
  obtain ⟨n, hnL, hnx⟩ := hn
  unfold instsValid at hv
  simp only [Bool.and_eq_true, Bool.not_eq_true', Bool.and_eq_false_iff] at hv
  rcases hv.1 with h | h
  · rw [List.any_eq_false] at h
    have := h n hnL
    simp [hnx] at this
  · rw [List.any_eq_false] at h
    have := h ins hins
    cases hx : ins.xf <;> simp [hx] at this ⊢ <;> rfl

theorem hlen_of_shape (a : TReq)
    (hshape : ∀ cs c, a.consumers = some cs → c ∈ cs → ∃ x, c.xfs = [x] ∧ x ≠ .emulated) :
    ∀ cs, a.consumers = some cs → ∀ c ∈ cs, c.xfs.length = 1 := by
  intro cs h1 c h2
  obtain ⟨x, hx, _⟩ := hshape cs c h1 h2
  rw [hx]; rfl

theorem hsame_getD (a : TReq)
    (hsame : ∀ cs c c', a.consumers = some cs → c ∈ cs → c' ∈ cs → c.opId = c'.opId →
      c.xfs = c'.xfs ∧ c.param = c'.param) :
    ∀ c ∈ a.consumers.getD [], ∀ c' ∈ a.consumers.getD [], c.opId = c'.opId →
      c.xfs = c'.xfs ∧ c.param = c'.param := by
  intro c hc c' hc'
  obtain ⟨cs, h1, h2⟩ := getD_consumers a c hc
  obtain ⟨cs', h1', h2'⟩ := getD_consumers a c' hc'
  rw [h1] at h1'; cases h1'
  exact hsame cs c c' h1 h2 h2'

section OneTensor
variable (info : TInfo) (a : TReq)
  (hshape : ∀ cs c, a.consumers = some cs → c ∈ cs → ∃ x, c.xfs = [x] ∧ x ≠ .emulated)
  (hsame : ∀ cs c c', a.consumers = some cs → c ∈ cs → c' ∈ cs → c.opId = c'.opId →
    c.xfs = c'.xfs ∧ c.param = c'.param)
include hshape hsame

/-- **a NO_QUANTIZE consumer of a tensor that is not produced quantized**: the list contains a
    NO_QUANTIZE instruction, and no op-adding instruction lists that consumer -/
theorem noQuant_float (os : List O2T) (hos : a.consumers = some os) (o : O2T) (ho : o ∈ os)
    (hx : o.xfs = [.noQuant])
    (hprod : a.producer = none ∨ ∃ p, a.producer = some p ∧ p.xfs = [.noQuant]) :
    (∃ ins ∈ instsOf info a, ins.xf = .noQuant) ∧
    ∀ ins ∈ instsOf info a, Wiring.addsOp ins.xf = true → o.opId ∉ ins.consumers := by
  obtain ⟨G, hG, hcov, hnone, hsome⟩ := instsOf_closed info a (hlen_of_shape a hshape)
  have hos' : a.consumers.getD [] = os := by rw [hos]; rfl
  rw [hos'] at hG hcov hnone hsome
  have hs := hsame_getD a hsame
  rw [hos'] at hs
  obtain ⟨⟨r, hr, r1, r2, r3, -⟩, huniq⟩ := rule_of_consumer os info G hG hcov hs o ho _ hx
  rcases hprod with hp | ⟨p, hp, hy⟩
  · rw [hnone hp]
    refine ⟨⟨r, hr, r2⟩, ?_⟩
    intro ins hins hadd hmem
    rw [(huniq ins hins hmem).1] at hadd
    cases hadd
  · rw [hsome p _ hp hy]
    have hPx : (prodInst info p .noQuant).xf ≠ .addDequant := by simp [prodInst]
    refine ⟨⟨r, flat_mem_applyVertical _ _ _
      (List.mem_flatMap.2 ⟨r, hr, by rw [vstep_noDq _ _ hPx]; exact List.mem_singleton.2 rfl⟩), r2⟩, ?_⟩
    intro ins hins hadd hmem
    rcases mem_applyVertical _ _ _ hins with rfl | h | ⟨-, h⟩
    · cases hadd
    · obtain ⟨r', hr', hir⟩ := List.mem_flatMap.1 h
      rw [vstep_noDq _ _ hPx, List.mem_singleton] at hir
      subst hir
      rw [(huniq ins hr' hmem).1] at hadd
      cases hadd
    · exact hPx h

/-- **a NO_QUANTIZE consumer of a tensor that is produced quantized**: an ADD_DEQUANTIZE instruction
    lists that consumer, and every op-adding instruction that lists it is an ADD_DEQUANTIZE -/
theorem noQuant_dequant (os : List O2T) (hos : a.consumers = some os) (o : O2T) (ho : o ∈ os)
    (hx : o.xfs = [.noQuant]) (p : O2T) (hp : a.producer = some p) (hy : p.xfs = [.addDequant]) :
    (∃ ins ∈ instsOf info a, ins.xf = .addDequant ∧ o.opId ∈ ins.consumers ∧ ins.tensor = info.tensorId) ∧
    ∀ ins ∈ instsOf info a, Wiring.addsOp ins.xf = true → o.opId ∈ ins.consumers → ins.xf = .addDequant := by
  obtain ⟨G, hG, hcov, -, hsome⟩ := instsOf_closed info a (hlen_of_shape a hshape)
  have hos' : a.consumers.getD [] = os := by rw [hos]; rfl
  rw [hos'] at hG hcov hsome
  have hs := hsame_getD a hsame
  rw [hos'] at hs
  obtain ⟨⟨r, hr, r1, r2, r3, r4, -⟩, huniq⟩ := rule_of_consumer os info G hG hcov hs o ho _ hx
  rw [hsome p _ hp hy]
  have hPx : (prodInst info p .addDequant).xf = .addDequant := rfl
  refine ⟨⟨⟨.addDequant, r.tensor, r.producer, r.consumers, (prodInst info p .addDequant).param⟩,
    flat_mem_applyVertical _ _ _
      (List.mem_flatMap.2 ⟨r, hr, by rw [vstep_dq_noQuant _ _ hPx r2]; exact List.mem_singleton.2 rfl⟩),
    rfl, r1, r4⟩, ?_⟩
  intro ins hins hadd hmem
  rcases mem_applyVertical _ _ _ hins with rfl | h | ⟨rfl, -⟩
  · rfl
  · obtain ⟨r', hr', hir⟩ := List.mem_flatMap.1 h
    have hc := (vstep_mem _ _ _ hir).2.2.1
    rw [hc] at hmem
    rw [vstep_dq_noQuant _ _ hPx (huniq r' hr' hmem).1, List.mem_singleton] at hir
    rw [hir]
  · cases hadd

omit hsame in
/-- **a tensor whose producer request is NO_QUANTIZE and whose consumers are float readers** has no
    retyping instruction -/
theorem prod_noQuant_noRetype (p : O2T) (hp : a.producer = some p) (hy : p.xfs = [.noQuant])
    (hcons : ∀ cs c, a.consumers = some cs → c ∈ cs → c.xfs = [.noQuant] ∨ c.xfs = [.addQuant]) :
    ∀ ins ∈ instsOf info a, Wiring.retypes ins.xf = false := by
  obtain ⟨G, hG, hcov, -, hsome⟩ := instsOf_closed info a (hlen_of_shape a hshape)
  rw [hsome p _ hp hy]
  have hPx : (prodInst info p .noQuant).xf ≠ .addDequant := by simp [prodInst]
  intro ins hins
  rcases mem_applyVertical _ _ _ hins with rfl | h | ⟨-, h⟩
  · rfl
  · obtain ⟨r', hr', hir⟩ := List.mem_flatMap.1 h
    rw [vstep_noDq _ _ hPx, List.mem_singleton] at hir
    subst hir
    obtain ⟨o, ho, -, hxf, -⟩ := rule_source _ info G hG ins hr'
    obtain ⟨cs, h1, h2⟩ := getD_consumers a o ho
    rcases hcons cs o h1 h2 with h | h <;> rw [hxf, h] <;> rfl
  · exact absurd h hPx

omit hsame in
/-- **where the parameter of a performed instruction comes from**: the producer side `[ADD_DEQUANTIZE]`
    (never for an ADD_QUANTIZE instruction), or a consumer side that is not `[NO_QUANTIZE]` (an
    `[ADD_QUANTIZE]` side for an ADD_QUANTIZE instruction) -/
theorem inst_source (hprod : ∀ p, a.producer = some p → p.xfs = [.noQuant] ∨ p.xfs = [.addDequant]) :
    ∀ ins ∈ instsOf info a, Perform.isInsertion ins.xf = true →
      (∃ p, a.producer = some p ∧ p.xfs = [.addDequant] ∧ ins.param = p.param ∧ ins.xf ≠ .addQuant) ∨
      (∃ os o x, a.consumers = some os ∧ o ∈ os ∧ ins.param = o.param ∧ o.xfs = [x] ∧ x ≠ .noQuant ∧
        (ins.xf = .addQuant → x = .addQuant)) := by
  obtain ⟨G, hG, hcov, hnone, hsome⟩ := instsOf_closed info a (hlen_of_shape a hshape)
  -- a rule that is performed
  have hrule : ∀ r ∈ G.map (instOfGroup (a.consumers.getD []) info 0), ∀ (xf : Xf) (prm : Option PId),
      Perform.isInsertion xf = true → prm = r.param → (xf = r.xf ∨ r.xf = .addQuant) →
      ∃ os o x, a.consumers = some os ∧ o ∈ os ∧ prm = o.param ∧ o.xfs = [x] ∧ x ≠ .noQuant ∧
        (xf = .addQuant → x = .addQuant) := by
    intro r hr xf prm hxi hprm hxr
    obtain ⟨o, ho, -, hxf, hpar, -⟩ := rule_source _ info G hG r hr
    obtain ⟨os, hos, hoo⟩ := getD_consumers a o ho
    obtain ⟨x, hx, -⟩ := hshape os o hos hoo
    have hrx : r.xf = x := by rw [hxf, hx]; rfl
    refine ⟨os, o, x, hos, hoo, by rw [hprm, hpar], hx, ?_, ?_⟩
    · intro hxn
      rcases hxr with h | h
      · rw [h, hrx, hxn] at hxi; cases hxi
      · rw [hrx, hxn] at h; cases h
    · intro hq
      rcases hxr with h | h
      · rw [← hrx, ← h]; exact hq
      · rw [← hrx]; exact h
  intro ins hins hxi
  cases hp : a.producer with
  | none =>
    rw [hnone hp] at hins
    exact .inr (hrule ins hins ins.xf ins.param hxi rfl (.inl rfl))
  | some p =>
    rcases hprod p hp with hy | hy
    · rw [hsome p _ hp hy] at hins
      have hPx : (prodInst info p .noQuant).xf ≠ .addDequant := by simp [prodInst]
      rcases mem_applyVertical _ _ _ hins with rfl | h | ⟨-, h⟩
      · cases hxi
      · obtain ⟨r', hr', hir⟩ := List.mem_flatMap.1 h
        rw [vstep_noDq _ _ hPx, List.mem_singleton] at hir
        subst hir
        exact .inr (hrule ins hr' ins.xf ins.param hxi rfl (.inl rfl))
      · exact absurd h hPx
    · rw [hsome p _ hp hy] at hins
      have hPx : (prodInst info p .addDequant).xf = .addDequant := rfl
      rcases mem_applyVertical _ _ _ hins with rfl | h | ⟨rfl, -⟩
      · exact .inl ⟨p, rfl, hy, rfl, by simp [prodInst]⟩
      · obtain ⟨r', hr', hir⟩ := List.mem_flatMap.1 h
        by_cases hq : r'.xf = .addQuant
        · by_cases hpp : (prodInst info p .addDequant).param = r'.param
          · rw [vstep_dq_addQuant_same _ _ hPx hq hpp, List.mem_singleton] at hir
            subst hir
            exact .inr (hrule r' hr' _ _ rfl rfl (.inr hq))
          · rw [vstep_dq_addQuant_diff _ _ hPx hq hpp] at hir
            simp only [List.mem_cons, List.not_mem_nil, or_false] at hir
            rcases hir with rfl | rfl
            · exact .inl ⟨p, rfl, hy, rfl, by simp⟩
            · exact .inr (hrule r' hr' _ _ rfl rfl (.inr hq))
        · by_cases hn : r'.xf = .noQuant
          · rw [vstep_dq_noQuant _ _ hPx hn, List.mem_singleton] at hir
            subst hir
            exact .inl ⟨p, rfl, hy, rfl, by simp⟩
          · have : vstep (prodInst info p .addDequant) r' = [r'] := by
              unfold vstep
              have h1 : (r'.xf == Xf.addQuant) = false := by simpa using hq
              have h2 : (r'.xf == Xf.noQuant) = false := by simpa using hn
              simp [h1, h2]
            rw [this, List.mem_singleton] at hir
            subst hir
            exact .inr (hrule ins hr' ins.xf ins.param hxi rfl (.inl rfl))
      · exact .inl ⟨p, rfl, hy, rfl, by simp⟩

/-- **an `[ADD_QUANTIZE]` consumer**: every op-adding instruction that lists it is an ADD_QUANTIZE with
    its parameter; there is one unless the tensor is produced quantized with the same parameter, and
    then no op-adding instruction lists it -/
theorem addQuant_consumer (hnd : info.consumers.Nodup) (os : List O2T) (hos : a.consumers = some os)
    (o : O2T) (ho : o ∈ os) (hx : o.xfs = [.addQuant])
    (hprod : ∀ p, a.producer = some p → p.xfs = [.noQuant] ∨ p.xfs = [.addDequant])
    (hpc : ∀ p, a.producer = some p → p.xfs = [.addDequant] → ∀ c ∈ os, c.xfs = [.addQuant] ∨ c.xfs = [.noQuant]) :
    (∀ ins ∈ instsOf info a, Wiring.addsOp ins.xf = true → o.opId ∈ ins.consumers →
      ins.xf = .addQuant ∧ ins.param = o.param) ∧
    ((∃ p, a.producer = some p ∧ p.xfs = [.addDequant] ∧ p.param = o.param) →
      ∀ ins ∈ instsOf info a, Wiring.addsOp ins.xf = true → o.opId ∉ ins.consumers) ∧
    ((¬ ∃ p, a.producer = some p ∧ p.xfs = [.addDequant] ∧ p.param = o.param) →
      ∃ ins ∈ instsOf info a, ins.xf = .addQuant ∧ o.opId ∈ ins.consumers ∧ ins.param = o.param ∧
        ins.tensor = info.tensorId) := by
  obtain ⟨G, hG, hcov, hnone, hsome⟩ := instsOf_closed info a (hlen_of_shape a hshape)
  have hos' : a.consumers.getD [] = os := by rw [hos]; rfl
  rw [hos'] at hG hcov hnone hsome
  have hs := hsame_getD a hsame
  rw [hos'] at hs
  obtain ⟨⟨r, hr, r1, r2, r3, r4, -⟩, huniq⟩ := rule_of_consumer os info G hG hcov hs o ho _ hx
  cases hp : a.producer with
  | none =>
    rw [hnone hp]
    refine ⟨fun ins hins _ hmem => huniq ins hins hmem, ?_, fun _ => ⟨r, hr, r2, r1, r3, r4⟩⟩
    rintro ⟨p, hp', -⟩
    cases hp'
  | some p =>
    rcases hprod p hp with hy | hy
    · rw [hsome p _ hp hy]
      have hPx : (prodInst info p .noQuant).xf ≠ .addDequant := by simp [prodInst]
      refine ⟨?_, ?_, fun _ => ⟨r, flat_mem_applyVertical _ _ _
        (List.mem_flatMap.2 ⟨r, hr, by rw [vstep_noDq _ _ hPx]; exact List.mem_singleton.2 rfl⟩), r2, r1, r3, r4⟩⟩
      · intro ins hins hadd hmem
        rcases mem_applyVertical _ _ _ hins with rfl | h | ⟨-, h⟩
        · cases hadd
        · obtain ⟨r', hr', hir⟩ := List.mem_flatMap.1 h
          rw [vstep_noDq _ _ hPx, List.mem_singleton] at hir
          subst hir
          exact huniq ins hr' hmem
        · exact absurd h hPx
      · rintro ⟨p', hp', hy', -⟩
        cases hp'
        rw [hy] at hy'; cases hy'
    · rw [hsome p _ hp hy]
      have hPx : (prodInst info p .addDequant).xf = .addDequant := rfl
      have hR3 : ∀ r' ∈ G.map (instOfGroup os info 0), r'.xf = .addQuant ∨ r'.xf = .noQuant := by
        intro r' hr'
        obtain ⟨o', ho', -, hxf, -⟩ := rule_source os info G hG r' hr'
        rcases hpc p hp hy o' ho' with h | h <;> rw [hxf, h]
        · exact .inl rfl
        · exact .inr rfl
      obtain ⟨-, hrem⟩ := vremAll_spec (prodInst info p .addDequant) (G.map (instOfGroup os info 0))
        (prodInst info p .addDequant).consumers hnd
      have hint : interacts (prodInst info p .addDequant) r = true := by
        unfold interacts; rw [hPx, r2]; rfl
      have hnotrem : o.opId ∉ vremAll (prodInst info p .addDequant) (G.map (instOfGroup os info 0)) :=
        hrem r hr hint _ r1
      refine ⟨?_, ?_, ?_⟩
      · intro ins hins hadd hmem
        rcases mem_applyVertical _ _ _ hins with rfl | h | ⟨rfl, -⟩
        · exact absurd hmem hnotrem
        · obtain ⟨r', hr', hir⟩ := List.mem_flatMap.1 h
          have hc := (vstep_mem _ _ _ hir).2.2.1
          rw [hc] at hmem
          obtain ⟨u1, u2⟩ := huniq r' hr' hmem
          by_cases hpp : (prodInst info p .addDequant).param = r'.param
          · rw [vstep_dq_addQuant_same _ _ hPx u1 hpp, List.mem_singleton] at hir
            subst hir
            cases hadd
          · rw [vstep_dq_addQuant_diff _ _ hPx u1 hpp] at hir
            simp only [List.mem_cons, List.not_mem_nil, or_false] at hir
            rcases hir with rfl | rfl
            · cases hadd
            · exact ⟨rfl, u2⟩
        · cases hadd
      · rintro ⟨p', hp', -, hpar⟩
        cases hp'
        intro ins hins hadd hmem
        rcases mem_applyVertical _ _ _ hins with rfl | h | ⟨rfl, -⟩
        · exact hnotrem hmem
        · obtain ⟨r', hr', hir⟩ := List.mem_flatMap.1 h
          have hc := (vstep_mem _ _ _ hir).2.2.1
          rw [hc] at hmem
          obtain ⟨u1, u2⟩ := huniq r' hr' hmem
          have hpp : (prodInst info p .addDequant).param = r'.param := by rw [u2]; exact hpar
          rw [vstep_dq_addQuant_same _ _ hPx u1 hpp, List.mem_singleton] at hir
          subst hir
          cases hadd
        · cases hadd
      · intro hne
        have hpp : (prodInst info p .addDequant).param ≠ r.param := by
          intro e
          exact hne ⟨p, rfl, hy, by rw [← r3]; exact e⟩
        refine ⟨⟨.addQuant, r.tensor, r.producer, r.consumers, r.param⟩, flat_mem_applyVertical _ _ _
          (List.mem_flatMap.2 ⟨r, hr, by rw [vstep_dq_addQuant_diff _ _ hPx r2 hpp]; simp⟩), rfl, r1, r3, r4⟩

omit hsame in
/-- **a tensor that is produced quantized** has a retyping instruction, and every retyping instruction
    carries the producer's parameter -/
theorem prod_dequant_retype (p : O2T) (hp : a.producer = some p) (hy : p.xfs = [.addDequant])
    (hpc : ∀ cs c, a.consumers = some cs → c ∈ cs → c.xfs = [.addQuant] ∨ c.xfs = [.noQuant]) :
    (∃ ins ∈ instsOf info a, Wiring.retypes ins.xf = true ∧ ins.tensor = info.tensorId) ∧
    ∀ ins ∈ instsOf info a, Wiring.retypes ins.xf = true → ins.param = p.param := by
  obtain ⟨G, hG, hcov, -, hsome⟩ := instsOf_closed info a (hlen_of_shape a hshape)
  rw [hsome p _ hp hy]
  have hPx : (prodInst info p .addDequant).xf = .addDequant := rfl
  have hR3 : ∀ r' ∈ G.map (instOfGroup (a.consumers.getD []) info 0), r'.xf = .addQuant ∨ r'.xf = .noQuant := by
    intro r' hr'
    obtain ⟨o', ho', -, hxf, -⟩ := rule_source _ info G hG r' hr'
    obtain ⟨cs, h1, h2⟩ := getD_consumers a o' ho'
    rcases hpc cs o' h1 h2 with h | h <;> rw [hxf, h]
    · exact .inl rfl
    · exact .inr rfl
  have hrt : ∀ r' ∈ G.map (instOfGroup (a.consumers.getD []) info 0), r'.tensor = info.tensorId := by
    intro r' hr'
    obtain ⟨_, _, _, _, _, h⟩ := rule_source _ info G hG r' hr'
    exact h
  -- the retyping instructions among `vstep P r`
  have hvs : ∀ r' ∈ G.map (instOfGroup (a.consumers.getD []) info 0),
      (∃ x ∈ vstep (prodInst info p .addDequant) r', Wiring.retypes x.xf = true ∧ x.tensor = info.tensorId) ∧
      ∀ x ∈ vstep (prodInst info p .addDequant) r', Wiring.retypes x.xf = true → x.param = p.param := by
    intro r' hr'
    rcases hR3 r' hr' with hq | hn
    · by_cases hpp : (prodInst info p .addDequant).param = r'.param
      · rw [vstep_dq_addQuant_same _ _ hPx hq hpp]
        refine ⟨⟨_, List.mem_singleton.2 rfl, rfl, hrt r' hr'⟩, ?_⟩
        intro x hx _
        rw [List.mem_singleton.1 hx]
        exact hpp.symm
      · rw [vstep_dq_addQuant_diff _ _ hPx hq hpp]
        refine ⟨⟨_, List.mem_cons_self, rfl, hrt r' hr'⟩, ?_⟩
        intro x hx hr
        simp only [List.mem_cons, List.not_mem_nil, or_false] at hx
        rcases hx with rfl | rfl
        · rfl
        · cases hr
    · rw [vstep_dq_noQuant _ _ hPx hn]
      refine ⟨⟨_, List.mem_singleton.2 rfl, rfl, hrt r' hr'⟩, ?_⟩
      intro x hx _
      rw [List.mem_singleton.1 hx]
      rfl
  refine ⟨?_, ?_⟩
  · rw [applyVertical_eq]
    split
    · exact ⟨_, List.mem_cons_self, rfl, rfl⟩
    · split
      · exact ⟨_, List.mem_singleton.2 rfl, rfl, rfl⟩
      · rename_i hc
        simp only [Bool.and_eq_true, beq_iff_eq, List.isEmpty_iff, not_and] at hc
        have hne : (G.map (instOfGroup (a.consumers.getD []) info 0)).flatMap
            (vstep (prodInst info p .addDequant)) ≠ [] := fun e => hc e rfl
        obtain ⟨x, hx⟩ := List.exists_mem_of_ne_nil _ hne
        obtain ⟨r', hr', -⟩ := List.mem_flatMap.1 hx
        obtain ⟨⟨y, hy', h1, h2⟩, -⟩ := hvs r' hr'
        exact ⟨y, List.mem_flatMap.2 ⟨r', hr', hy'⟩, h1, h2⟩
  · intro ins hins hr
    rcases mem_applyVertical _ _ _ hins with rfl | h | ⟨rfl, -⟩
    · rfl
    · obtain ⟨r', hr', hir⟩ := List.mem_flatMap.1 h
      exact (hvs r' hr').2 ins hir hr
    · rfl

/-- **a consumer side on a tensor without producer request** (a constant): its group rule is in the
    list, and every instruction that lists the consumer has its transformation and parameter -/
theorem consumer_noProd (hp : a.producer = none) (os : List O2T) (hos : a.consumers = some os)
    (o : O2T) (ho : o ∈ os) (x : Xf) (hx : o.xfs = [x]) :
    (∃ ins ∈ instsOf info a, ins.xf = x ∧ o.opId ∈ ins.consumers ∧ ins.param = o.param ∧
      ins.tensor = info.tensorId) ∧
    ∀ ins ∈ instsOf info a, o.opId ∈ ins.consumers → ins.xf = x ∧ ins.param = o.param := by
  obtain ⟨G, hG, hcov, hnone, -⟩ := instsOf_closed info a (hlen_of_shape a hshape)
  have hos' : a.consumers.getD [] = os := by rw [hos]; rfl
  rw [hos'] at hG hcov hnone
  have hs := hsame_getD a hsame
  rw [hos'] at hs
  obtain ⟨⟨r, hr, r1, r2, r3, r4, -⟩, huniq⟩ := rule_of_consumer os info G hG hcov hs o ho _ hx
  rw [hnone hp]
  exact ⟨⟨r, hr, r2, r1, r3, r4⟩, huniq⟩

end OneTensor

end TypingReq
