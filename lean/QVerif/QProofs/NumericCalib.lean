import QProofs.CalibExact
import QProofs.NumericTotal
import QProofs.MatTotalCalib
/-!
# Statistics recorded by `calibrate()` are good: finite, per-tensor, ordered (C08 ∘ C09)

The recorded entry of a runtime tensor is the `ema` fold of the per-sample whole-tensor min / max
(`CalibExact.runtime_stats_exact`).  The moving average `rn (rn (c1·w) + rn (c2·u))` is monotone in both arguments
(`PrecL.rn_mono`, `c1, c2 ≥ 0`), hence keeps `min ≤ max`; and `B = 2^63` is a fixed point of it (closed evaluation: the
two weights sum to `1 − 1.1e-8`, which rounds to 1), hence it keeps `|·| ≤ B`.
-/
open Graph Mat Arith Cfg Num Nd Calib CalibExact NumT MatParams Pipe

set_option autoImplicit false

namespace MatTotal

/-- good AND ordered float32 statistics -/
structure StatOrd (mn mx : FArr) : Prop where
  prMn : mn.pr = .f32
  prMx : mx.pr = .f32
  shape : mn.arr.shape = mx.arr.shape
  ones : ∀ d ∈ mn.arr.shape, d = 1
  bMn : ∀ v ∈ mn.arr.data, |v| ≤ B
  bMx : ∀ v ∈ mx.arr.data, |v| ≤ B
  ord : ∀ k, mn.arr.data.getD k 0 ≤ mx.arr.data.getD k 0

theorem StatOrd.good {mn mx : FArr} (h : StatOrd mn mx) : StatGood mn mx :=
  ⟨⟨.inl h.prMn, .inl h.prMx, h.shape, h.bMn, h.bMx⟩, h.ones⟩

/-! ## one sample -/

theorem minMaxAll_ord (d : FArr) (hpr : d.pr = .f32) (hb : ∀ v ∈ d.arr.data, |v| ≤ B) (v : Qsv)
    (h : minMaxAll d = .ok v) : ∃ mn mx, v = some (mn, mx) ∧ StatOrd mn mx := by
  unfold minMaxAll at h
  obtain ⟨lo, hlo, h⟩ := GraphInv.bind_ok _ _ _ h
  obtain ⟨hi, hhi, h⟩ := GraphInv.bind_ok _ _ _ h
  simp only [pure, Except.pure, Except.ok.injEq] at h
  subst h
  obtain ⟨hs, hle⟩ := reduceKeep_min_le_max d.arr none lo hi hlo hhi
  refine ⟨_, _, rfl, hpr, hpr, hs, ?_, reduceKeep_bounded _ _ sel_min _ _ _ hlo hb,
    reduceKeep_bounded _ _ sel_max _ _ _ hhi hb, hle⟩
  intro x hx
  have := (reduceKeep_spec _ _ sel_min d.arr none lo hlo).2.1
  simp only [] at hx
  rw [this] at hx
  simp only [keepShape, List.mem_map] at hx
  obtain ⟨_, _, rfl⟩ := hx
  rfl

/-! ## the moving average -/

/-- one element of `_update_moving_average` on float32 statistics -/
def emaE (w u : Rat) : Rat := Prec.f32.rn (Prec.f32.rn (c1 * w) + Prec.f32.rn (c2 * u))

theorem c1_nonneg : 0 ≤ c1 := PrecL.rn_nonneg _ (PrecL.rn_nonneg _ (by norm_num))
theorem c2_nonneg : 0 ≤ c2 := by decide +kernel

/-- **the moving average is monotone** -/
theorem emaE_mono {w w' u u' : Rat} (hw : w ≤ w') (hu : u ≤ u') : emaE w u ≤ emaE w' u' := by
  unfold emaE
  refine PrecL.rn_mono _ (add_le_add (PrecL.rn_mono _ ?_) (PrecL.rn_mono _ ?_))
  · exact mul_le_mul_of_nonneg_left hw c1_nonneg
  · exact mul_le_mul_of_nonneg_left hu c2_nonneg

/-- `B = 2^63` is a fixed point of the moving average (closed evaluation) -/
theorem emaE_B : emaE ((2:Rat)^(63:Int)) ((2:Rat)^(63:Int)) = (2:Rat)^(63:Int) ∧
    emaE (-(2:Rat)^(63:Int)) (-(2:Rat)^(63:Int)) = -(2:Rat)^(63:Int) := by
  constructor <;> decide +kernel

theorem emaE_bounded {w u : Rat} (hw : |w| ≤ B) (hu : |u| ≤ B) : |emaE w u| ≤ B := by
  obtain ⟨w1, w2⟩ := abs_le.mp hw
  obtain ⟨u1, u2⟩ := abs_le.mp hu
  have h1 := emaE_mono w2 u2
  have h2 := emaE_mono w1 u1
  unfold B at h1 h2 ⊢
  rw [emaE_B.1] at h1
  rw [emaE_B.2] at h2
  exact abs_le.mpr ⟨h2, h1⟩

theorem ones_bshapeAny (a b : List Nat) (ha : ∀ d ∈ a, d = 1) (hb : ∀ d ∈ b, d = 1) (rs : List Nat)
    (h : bshapeAny a b = some rs) : ∀ d ∈ rs, d = 1 := by
  rw [bshapeAny_ones_left a b ha] at h
  cases h
  exact padLeft_ones _ _ hb

theorem getD0_bounded (l : List Rat) (i : Nat) (h : ∀ v ∈ l, |v| ≤ B) : |l.getD i 0| ≤ B := getD_bounded l i h

/-- **`moving_average_update` keeps good, ordered statistics good and ordered** -/
theorem ema_ord (mn mx nmn nmx : FArr) (O : StatOrd mn mx) (N : StatOrd nmn nmx) (v : Qsv)
    (h : ema (some (mn, mx)) (some (nmn, nmx)) = .ok v) : ∃ a b, v = some (a, b) ∧ StatOrd a b := by
  unfold ema at h
  obtain ⟨a, ha, h⟩ := GraphInv.bind_ok _ _ _ h
  obtain ⟨b, hb, h⟩ := GraphInv.bind_ok _ _ _ h
  simp only [pure, Except.pure, Except.ok.injEq] at h
  subst h
  obtain ⟨pa, rs, hrs, hsa, hda⟩ := emaArr_f32_elem mn nmn a O.prMn N.prMn ha
  obtain ⟨pb, rs', hrs', hsb, hdb⟩ := emaArr_f32_elem mx nmx b O.prMx N.prMx hb
  rw [← O.shape, ← N.shape, hrs] at hrs'
  cases hrs'
  have hones := ones_bshapeAny _ _ O.ones N.ones rs hrs
  have hmxo : ∀ d ∈ mx.arr.shape, d = 1 := by rw [← O.shape]; exact O.ones
  have hnmxo : ∀ d ∈ nmx.arr.shape, d = 1 := by rw [← N.shape]; exact N.ones
  refine ⟨a, b, rfl, pa, pb, by rw [hsa, hsb], by rw [hsa]; exact hones, ?_, ?_, ?_⟩
  · intro x hx
    rw [hda] at hx
    obtain ⟨i, _, rfl⟩ := List.mem_map.1 hx
    exact emaE_bounded (getD0_bounded _ _ O.bMn) (getD0_bounded _ _ N.bMn)
  · intro x hx
    rw [hdb] at hx
    obtain ⟨i, _, rfl⟩ := List.mem_map.1 hx
    exact emaE_bounded (getD0_bounded _ _ O.bMx) (getD0_bounded _ _ N.bMx)
  · intro k
    rw [hda, hdb]
    by_cases hk : k < numel rs
    · rw [List.getD_eq_getElem?_getD, List.getD_eq_getElem?_getD,
        List.getElem?_eq_getElem (by simpa using hk), List.getElem?_eq_getElem (by simpa using hk)]
      simp only [List.getElem_map, List.getElem_range, Option.getD_some]
      rw [bindex_ones rs _ O.ones, bindex_ones rs _ N.ones, bindex_ones rs _ hmxo, bindex_ones rs _ hnmxo]
      exact emaE_mono (O.ord 0) (N.ord 0)
    · rw [List.getD_eq_getElem?_getD, List.getD_eq_getElem?_getD,
        List.getElem?_eq_none (by simpa using hk), List.getElem?_eq_none (by simpa using hk)]

/-- good-and-ordered, as a predicate on entries -/
def QsvOrd (v : Qsv) : Prop := ∃ mn mx, v = some (mn, mx) ∧ StatOrd mn mx

theorem foldlM_ema_ord : ∀ (vs : List Qsv) (q v : Qsv), QsvOrd q → (∀ x ∈ vs, QsvOrd x) → vs.foldlM ema q = .ok v → QsvOrd v := by
  intro vs
  induction vs with
  | nil =>
    intro q v hq _ h
    simp only [List.foldlM_nil, pure, Except.pure, Except.ok.injEq] at h
    subst h
    exact hq
  | cons x vs ih =>
    intro q v hq hall h
    rw [List.foldlM_cons] at h
    obtain ⟨q1, h1, h⟩ := GraphInv.bind_ok _ _ _ h
    refine ih q1 v ?_ (fun y hy => hall y (List.mem_cons_of_mem _ hy)) h
    obtain ⟨mn, mx, rfl, O⟩ := hq
    obtain ⟨nmn, nmx, rfl, N⟩ := hall x List.mem_cons_self
    exact ema_ord mn mx nmn nmx O N q1 h1

theorem emaSpec_ord (vs : List Qsv) (hne : vs ≠ []) (hall : ∀ x ∈ vs, QsvOrd x) (v : Qsv) (h : emaSpec vs = .ok v) : QsvOrd v := by
  cases vs with
  | nil => exact absurd rfl hne
  | cons q rest =>
    exact foldlM_ema_ord rest q v (hall q List.mem_cons_self) (fun x hx => hall x (List.mem_cons_of_mem _ hx)) h

theorem mapM_sampleStat_ord (n : String) : ∀ (samples : List Contents) (vs : List Qsv),
    (∀ c ∈ samples, ∀ d, Py.dictGet? c n = some d → d.pr = .f32 ∧ ∀ v ∈ d.arr.data, |v| ≤ B) →
    samples.mapM (sampleStat n) = .ok vs → vs.length = samples.length ∧ ∀ x ∈ vs, QsvOrd x := by
  intro samples
  induction samples with
  | nil =>
    intro vs _ h
    have h0 : ([] : List Contents).mapM (sampleStat n) = .ok [] := rfl
    rw [h0] at h
    cases h
    exact ⟨rfl, fun x hx => by cases hx⟩
  | cons c rest ih =>
    intro vs hc h
    rw [List.mapM_cons] at h
    obtain ⟨v, hv, h⟩ := GraphInv.bind_ok _ _ _ h
    obtain ⟨vs', hvs', h⟩ := GraphInv.bind_ok _ _ _ h
    simp only [pure, Except.pure, Except.ok.injEq] at h
    subst h
    obtain ⟨hl, hall⟩ := ih vs' (fun c' hc' => hc c' (List.mem_cons_of_mem _ hc')) hvs'
    refine ⟨by simp [hl], ?_⟩
    intro x hx
    rcases List.mem_cons.1 hx with rfl | hx
    · unfold sampleStat at hv
      cases hd : Py.dictGet? c n with
      | none => rw [hd] at hv; cases hv
      | some d =>
        rw [hd] at hv
        obtain ⟨hp, hb⟩ := hc c List.mem_cons_self d hd
        exact minMaxAll_ord d hp hb x hv
    · exact hall x hx

/-- **after `calibrate()` the entry of a runtime tensor is good and ordered**: float32, per-tensor, `min ≤ max`,
    magnitudes at most `B` -- whenever the tensor's contents in every sample are float32 with magnitudes at most `B`
    (hypotheses of `C09.runtime_stats_exact`) -/
theorem calibrated_entry_ord (rx : String → String → Bool) (env : Env) (st : Recipe.State)
    (sgi : Nat) (sg : Subgraph) (hsg : env.model.subgraphs[sgi]? = some sg)
    (samples : List Contents) (hne : samples ≠ []) (qs : Qsvs)
    (hneed : Recipe.needCalibration st = true)
    (h : calibrate rx env st sgi none samples = .ok qs)
    (op : Op) (k scope : String) (hop : CalibProofs.IsOp env sg op k) (hscope : opScope sg op = .ok scope)
    (hsel : (Recipe.resolve rx st k scope).1 = Tables.algMinMax)
    (i : Int) (hi : i ∈ op.inputs ++ op.outputs) (hi1 : i ≠ -1) (t : Tensor) (ht : tensorAt sg i = .ok t)
    (hnc : constAny env t = none) (hname : ¬ ConstNamed env t.name)
    (hcont : ∀ c ∈ samples, ∀ d, Py.dictGet? c t.name = some d → d.pr = .f32 ∧ ∀ v ∈ d.arr.data, |v| ≤ B) :
    ∃ mn mx, Py.dictGet? qs t.name = some (some (mn, mx)) ∧ StatOrd mn mx := by
  obtain ⟨vs, hvs, v, hv, hget⟩ := runtime_stats_exact rx env st sgi sg hsg samples hne qs hneed h op k scope hop hscope hsel
    i hi hi1 t ht hnc hname
  obtain ⟨hl, hall⟩ := mapM_sampleStat_ord t.name samples vs hcont hvs
  have hvne : vs ≠ [] := by
    intro h0
    rw [h0] at hl
    exact hne (List.length_eq_zero_iff.1 hl.symm)
  obtain ⟨mn, mx, rfl, O⟩ := emaSpec_ord vs hvne hall v hv
  exact ⟨mn, mx, hget, O⟩

/-- **after a fresh `calibrate()` the clause `Bounded.stats` holds** (model with one subgraph, unique tensor names, at least
    one sample, same-as-input operators on runtime tensors -- the hypotheses of `C08.stats_of_calibration`), and the recorded
    `min` / `max` are ordered -- whenever all tensor contents of all samples are float32 with magnitudes at most `B` -/
theorem stats_bounded_of_calibration (rx : String → String → Bool) (env : Env) (st : Recipe.State) (sg : Subgraph)
    (hone : env.model.subgraphs = [sg]) (hnd : (sg.tensors.map (·.name)).Nodup)
    (hpass : ∀ q ∈ allOps sg, ∀ k scope ops fn, Selected rx env st sg q k scope ops fn →
      (kindOf (Recipe.resolve rx st k scope).1 fn).isPass = true →
      ∀ a ∈ q.1.inputs ++ q.1.outputs, a ≠ -1 → ∀ t, tensorAt sg a = .ok t → constData env t = none)
    (samples : List Contents) (hne : samples ≠ []) (qs : Qsvs)
    (hneed : Recipe.needCalibration st = true)
    (h : calibrate rx env st 0 none samples = .ok qs)
    (hcont : ∀ c ∈ samples, ∀ n d, Py.dictGet? c n = some d → d.pr = .f32 ∧ ∀ v ∈ d.arr.data, |v| ≤ B) :
    ∀ n, StatName rx env st n → ∀ mn mx, Py.dictGet? qs n = some (some (mn, mx)) → StatOrd mn mx := by
  rintro n ⟨sg', hsg', q, hq, k, scope, ops, fn, S, halg, a, ha, hane, t, hat, rfl, _, hc⟩ mn mx hget
  have hsg'' : sg' = sg := by rw [hone] at hsg'; simpa using hsg'
  subst hsg''
  have hsg0 : env.model.subgraphs[0]? = some sg' := by rw [hone]; rfl
  have hop : CalibProofs.IsOp env sg' q.1 k := by
    rcases mem_allOps sg' q hq with ⟨j, op, hop, rfl⟩ | rfl | rfl
    · refine .real op k (List.mem_of_getElem? hop) ?_
      have := S.hkey
      unfold keyOf at this
      unfold opKey
      exact this
    · have : k = "INPUT" := by
        have := S.hkey; simp only [keyOf, inEntry, pure, Except.pure, Except.ok.injEq, Option.some.injEq] at this
        exact this.symm
      subst this
      exact .input
    · have : k = "OUTPUT" := by
        have := S.hkey; simp only [keyOf, outEntry, pure, Except.pure, Except.ok.injEq, Option.some.injEq] at this
        exact this.symm
      subst this
      exact .output
  have hnc : constAny env t = none := by
    rcases hc with hc | ⟨hp, _⟩
    · exact hc
    · exact hpass q hq k scope ops fn S hp a ha hane t hat
  have hname : ¬ ConstNamed env t.name := by
    rintro ⟨sg2, hsg2, t2, ht2, hn2, d, hd, _⟩
    have : sg2 = sg' := by rw [hone] at hsg2; simpa using hsg2
    subst this
    have := nodup_map_inj (·.name) sg2.tensors hnd t2 ht2 t (Locality.tensorAt_mem sg2 a t hat) hn2
    subst this
    rw [hnc] at hd
    cases hd
  obtain ⟨mn', mx', hget', O⟩ := calibrated_entry_ord rx env st 0 sg' hsg0 samples hne qs hneed h q.1 k scope hop S.hscope halg
    a ha hane t hat hnc hname (fun c hc d hd => hcont c hc t.name d hd)
  rw [hget] at hget'
  simp only [Option.some.injEq, Prod.mk.injEq] at hget'
  obtain ⟨rfl, rfl⟩ := hget'
  exact O

end MatTotal
