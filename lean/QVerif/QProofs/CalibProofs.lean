import QModel.Calib
import QProofs.GraphFrame
/-!
# Calibration: resumption law and completeness of the statistics (C09 / C10)

Both theorems are proved against an explicit `foldlM` restatement of `Calib.calibrateSample`
(`sampleFold`, shown equal to the `do`-block in `calibrateSample_eq`).
-/
open Graph Arith Cfg Num Nd Mat Calib

namespace CalibProofs

/-! ## generic rules for `forIn` / `foldlM` in the `Except` monad -/

/-- a `for` loop whose body always yields is a `foldlM` -/
theorem forIn_eq_foldlM {α β} (f : α → β → PyM (ForInStep β)) (g : β → α → PyM β)
    (hfg : ∀ a b, f a b = (g b a >>= fun c => pure (ForInStep.yield c))) :
    ∀ (l : List α) (init : β), forIn l init f = l.foldlM g init := by
  intro l
  induction l with
  | nil => intro init; rfl
  | cons a as ih =>
    intro init
    simp only [List.forIn_cons, List.foldlM_cons, hfg, bind, Except.bind, pure, Except.pure]
    cases g init a with
    | error e => rfl
    | ok c => exact ih c

/-- reachability rule for `foldlM`: an invariant `P`, and a property `Q` that is established by the
    step on a distinguished element `x0` and preserved by every step -/
theorem foldlM_reach {α β} (f : β → α → PyM β) (P Q : β → Prop) (l : List α) (init r : β)
    (hP : P init)
    (hstepP : ∀ x ∈ l, ∀ s s', P s → f s x = .ok s' → P s')
    (hstepQ : ∀ x ∈ l, ∀ s s', P s → Q s → f s x = .ok s' → Q s')
    (x0 : α) (hx0 : x0 ∈ l) (hx0Q : ∀ s s', P s → f s x0 = .ok s' → Q s')
    (h : l.foldlM f init = .ok r) : P r ∧ Q r := by
  obtain ⟨l1, l2, rfl⟩ := List.append_of_mem hx0
  rw [List.foldlM_append] at h
  simp only [bind, Except.bind] at h
  cases h1 : List.foldlM f init l1 with
  | error e => simp [h1] at h
  | ok s1 =>
    simp only [h1, List.foldlM_cons, bind, Except.bind] at h
    have hP1 : P s1 := GraphFrame.foldlM_inv f P l1 init s1 hP
      (fun x hx => hstepP x (List.mem_append_left _ hx)) h1
    cases h2 : f s1 x0 with
    | error e => simp [h2] at h
    | ok s2 =>
      simp only [h2] at h
      have hP2 : P s2 := hstepP x0 hx0 s1 s2 hP1 h2
      have hQ2 : Q s2 := hx0Q s1 s2 hP1 h2
      refine GraphFrame.foldlM_inv f (fun s => P s ∧ Q s) l2 s2 r ⟨hP2, hQ2⟩ ?_ h
      intro x hx s s' hs hf
      have hx' : x ∈ l1 ++ x0 :: l2 := List.mem_append_right _ (List.mem_cons_of_mem _ hx)
      exact ⟨hstepP x hx' s s' hs.1 hf, hstepQ x hx' s s' hs.1 hs.2 hf⟩

/-! ## string-keyed dictionaries -/

section Dict
variable {ν : Type}

theorem dictGet?_dictSet (d : List (String × ν)) (k n : String) (v : ν) :
    Py.dictGet? (Py.dictSet d k v) n = if k = n then some v else Py.dictGet? d n := by
  induction d with
  | nil =>
    by_cases hkn : k = n <;> simp [Py.dictSet, Py.dictGet?, hkn]
  | cons e d ih =>
    obtain ⟨k', v'⟩ := e
    by_cases hk : k' = k
    · subst hk
      by_cases hkn : k' = n <;> simp [Py.dictSet, Py.dictGet?, hkn]
    · have hb : (k' == k) = false := by simpa using hk
      simp only [Py.dictSet, hb, Bool.false_eq_true, if_false]
      by_cases hk'n : k' = n
      · subst hk'n
        have hkn : ¬ k = k' := fun h => hk h.symm
        simp [Py.dictGet?, hkn]
      · have hb' : (k' == n) = false := by simpa using hk'n
        have e1 : ∀ (l : List (String × ν)), Py.dictGet? ((k', v') :: l) n = Py.dictGet? l n := by
          intro l; simp [Py.dictGet?, hb']
        rw [e1, e1, ih]

theorem dictGet?_append_some (d l : List (String × ν)) (n : String) (v : ν)
    (h : Py.dictGet? d n = some v) : Py.dictGet? (d ++ l) n = some v := by
  unfold Py.dictGet? at h ⊢
  rw [List.find?_append]
  cases hf : List.find? (fun x => x.1 == n) d with
  | none => simp [hf] at h
  | some e => simpa [hf] using h

theorem dictGet?_append_none (d : List (String × ν)) (e : String × ν)
    (h : Py.dictGet? d e.1 = none) : Py.dictGet? (d ++ [e]) e.1 = some e.2 := by
  unfold Py.dictGet? at h ⊢
  rw [List.find?_append]
  cases hf : List.find? (fun x => x.1 == e.1) d with
  | none => simp
  | some e' => simp [hf] at h

theorem length_dictSet_of_get (d : List (String × ν)) (k : String) (v old : ν)
    (h : Py.dictGet? d k = some old) : (Py.dictSet d k v).length = d.length := by
  induction d with
  | nil => simp [Py.dictGet?] at h
  | cons e d ih =>
    obtain ⟨k', v'⟩ := e
    by_cases hk : k' = k
    · simp [Py.dictSet, hk]
    · have h' : Py.dictGet? d k = some old := by
        simpa [Py.dictGet?, hk] using h
      simp [Py.dictSet, hk, ih h']

theorem mem_dictSet (d : List (String × ν)) (k : String) (v : ν) (e : String × ν)
    (h : e ∈ Py.dictSet d k v) : e ∈ d ∨ e = (k, v) := by
  induction d with
  | nil => simpa [Py.dictSet] using h
  | cons e' d ih =>
    obtain ⟨k', v'⟩ := e'
    by_cases hk : k' = k
    · simp only [Py.dictSet, hk, beq_self_eq_true, if_true, List.mem_cons] at h
      rcases h with h | h
      · exact Or.inr h
      · exact Or.inl (List.mem_cons_of_mem _ h)
    · have hb : (k' == k) = false := by simpa using hk
      simp only [Py.dictSet, hb, Bool.false_eq_true, if_false, List.mem_cons] at h
      rcases h with h | h
      · exact Or.inl (h ▸ List.mem_cons_self)
      · rcases ih h with h | h
        · exact Or.inl (List.mem_cons_of_mem _ h)
        · exact Or.inr h

theorem key_mem_dictSet (d : List (String × ν)) (k n : String) (v : ν)
    (h : n = k ∨ n ∈ d.map (·.1)) : n ∈ (Py.dictSet d k v).map (·.1) := by
  induction d with
  | nil => simpa [Py.dictSet] using h
  | cons e' d ih =>
    obtain ⟨k', v'⟩ := e'
    by_cases hk : k' = k
    · subst hk
      simp only [Py.dictSet, beq_self_eq_true, if_true, List.map_cons, List.mem_cons] at h ⊢
      rcases h with h | h | h
      · exact Or.inl h
      · exact Or.inl h
      · exact Or.inr h
    · have hb : (k' == k) = false := by simpa using hk
      simp only [Py.dictSet, hb, Bool.false_eq_true, if_false, List.map_cons, List.mem_cons] at h ⊢
      rcases h with h | h | h
      · exact Or.inr (ih (Or.inl h))
      · exact Or.inl h
      · exact Or.inr (ih (Or.inr h))

end Dict

/-! ## `calibrateSample` as a nested `foldlM` -/

/-- loop state of one sample: the dictionary and the names already updated in this sample -/
abbrev MState := Qsvs × List String

/-- merging one entry of an operator's statistics -/
def mergeStep (s : MState) (e : String × Qsv) : PyM MState :=
  if s.2.contains e.1 then pure s
  else match Py.dictGet? s.1 e.1 with
    | none => pure (s.1 ++ [e], s.2 ++ [e.1])
    | some old =>
      match ema old e.2 with
      | .error err => .error err
      | .ok nv => pure (Py.dictSet s.1 e.1 nv, s.2 ++ [e.1])

/-- the key of an entry of the operator list (pseudo-operators carry their key) -/
def keyOf (env : Env) (q : Op × Option String) : PyM (Option String) :=
  match q.2 with
  | some k => pure (some k)
  | none => opKey env q.1

/-- one operator of one sample -/
def opStep (rx : String → String → Bool) (env : Env) (st : Recipe.State) (sg : Subgraph)
    (contents : Contents) (s : MState) (q : Op × Option String) : PyM MState :=
  match keyOf env q with
  | .error err => .error err
  | .ok none => pure s
  | .ok (some k) =>
    match opScope sg q.1 with
    | .error err => .error err
    | .ok scope =>
      if (Recipe.resolve rx st k scope).1 == Tables.algNoQuantize then pure s
      else if !registeredFor (Recipe.resolve rx st k scope).1 k then .error .valueError
      else if collects (Recipe.resolve rx st k scope).1 then
        match calibrateOp env sg q.1 contents with
        | .error err => .error err
        | .ok opq => opq.foldlM mergeStep s
      else pure s

/-- the operator list of a subgraph: real operators, then INPUT and OUTPUT -/
def allOps (sg : Subgraph) : List (Op × Option String) :=
  sg.ops.map (fun o => (o, none)) ++
    [({ code := 0, inputs := [], outputs := sg.inputs }, some "INPUT"),
     ({ code := 0, inputs := sg.outputs, outputs := [] }, some "OUTPUT")]

def sampleFold (rx : String → String → Bool) (env : Env) (st : Recipe.State) (sgIdx : Nat)
    (qs : Qsvs) (contents : Contents) : PyM Qsvs :=
  match env.model.subgraphs[sgIdx]? with
  | none => .error .indexError
  | some sg =>
    match (allOps sg).foldlM (opStep rx env st sg contents) (qs, []) with
    | .error err => .error err
    | .ok r => .ok r.1

theorem calibrateSample_eq (rx : String → String → Bool) (env : Env) (st : Recipe.State) (sgIdx : Nat)
    (qs : Qsvs) (contents : Contents) :
    calibrateSample rx env st sgIdx qs contents = sampleFold rx env st sgIdx qs contents := by
  unfold calibrateSample sampleFold
  cases hsg : env.model.subgraphs[sgIdx]? with
  | none => rfl
  | some sg =>
    simp only [pure, Except.pure, bind, Except.bind]
    rw [forIn_eq_foldlM _ (opStep rx env st sg contents)]
    · unfold allOps
      generalize List.foldlM (m := PyM) _ _ _ = r
      cases r <;> rfl
    · intro q s
      obtain ⟨op, ko⟩ := q
      obtain ⟨qs, upd⟩ := s
      simp only [opStep, keyOf, pure, Except.pure, bind, Except.bind, throw, throwThe,
        MonadExceptOf.throw]
      cases ko with
      | some k =>
        simp only []
        cases opScope sg op with
        | error e => rfl
        | ok scope =>
          simp only []
          generalize (Recipe.resolve rx st k scope).fst = alg
          by_cases h1 : (alg == Tables.algNoQuantize) = true
          · simp only [if_pos h1]
          · by_cases h2 : (!registeredFor alg k) = true
            · simp only [if_neg h1, if_pos h2]
            · by_cases h3 : collects alg = true
              · simp only [if_neg h1, if_neg h2, if_pos h3]
                cases calibrateOp env sg op contents with
                | error e => rfl
                | ok opq =>
                  simp only []
                  rw [forIn_eq_foldlM _ mergeStep]
                  case hfg =>
                    intro e s'
                    obtain ⟨qs', upd'⟩ := s'
                    simp only [mergeStep, bind, Except.bind, pure, Except.pure]
                    by_cases h4 : upd'.contains e.1 = true
                    · simp only [if_pos h4]
                    · simp only [if_neg h4]
                      cases Py.dictGet? qs' e.1 with
                      | none => rfl
                      | some old => simp only []; cases ema old e.2 <;> rfl
              · simp only [if_neg h1, if_neg h2, if_neg h3]
      | none =>
        simp only []
        cases opKey env op with
        | error e => rfl
        | ok key =>
          cases key with
          | none => rfl
          | some k =>
            simp only []
            cases opScope sg op with
            | error e => rfl
            | ok scope =>
              simp only []
              generalize (Recipe.resolve rx st k scope).fst = alg
              by_cases h1 : (alg == Tables.algNoQuantize) = true
              · simp only [if_pos h1]
              · by_cases h2 : (!registeredFor alg k) = true
                · simp only [if_neg h1, if_pos h2]
                · by_cases h3 : collects alg = true
                  · simp only [if_neg h1, if_neg h2, if_pos h3]
                    cases calibrateOp env sg op contents with
                    | error e => rfl
                    | ok opq =>
                      simp only []
                      rw [forIn_eq_foldlM _ mergeStep]
                      case hfg =>
                        intro e s'
                        obtain ⟨qs', upd'⟩ := s'
                        simp only [mergeStep, bind, Except.bind, pure, Except.pure]
                        by_cases h4 : upd'.contains e.1 = true
                        · simp only [if_pos h4]
                        · simp only [if_neg h4]
                          cases Py.dictGet? qs' e.1 with
                          | none => rfl
                          | some old => simp only []; cases ema old e.2 <;> rfl
                  · simp only [if_neg h1, if_neg h2, if_neg h3]

/-! ## the dictionary never shrinks -/

theorem mergeStep_length (s s' : MState) (e : String × Qsv) (h : mergeStep s e = .ok s') :
    s.1.length ≤ s'.1.length := by
  unfold mergeStep at h
  by_cases hc : s.2.contains e.1 = true
  · simp only [if_pos hc, pure, Except.pure, Except.ok.injEq] at h
    subst h; exact Nat.le_refl _
  · simp only [if_neg hc] at h
    cases hg : Py.dictGet? s.1 e.1 with
    | none =>
      simp only [hg, pure, Except.pure, Except.ok.injEq] at h
      subst h; simp
    | some old =>
      simp only [hg] at h
      cases hema : ema old e.2 with
      | error err => simp [hema] at h
      | ok nv =>
        simp only [hema, pure, Except.pure, Except.ok.injEq] at h
        subst h
        simp only [length_dictSet_of_get _ _ _ _ hg]
        exact Nat.le_refl _

theorem opStep_length (rx : String → String → Bool) (env : Env) (st : Recipe.State) (sg : Subgraph)
    (contents : Contents) (s s' : MState) (q : Op × Option String)
    (h : opStep rx env st sg contents s q = .ok s') : s.1.length ≤ s'.1.length := by
  unfold opStep at h
  cases hk : keyOf env q with
  | error err => simp [hk] at h
  | ok key =>
    cases key with
    | none =>
      simp only [hk, pure, Except.pure, Except.ok.injEq] at h
      subst h; exact Nat.le_refl _
    | some k =>
      simp only [hk] at h
      cases hs : opScope sg q.1 with
      | error err => simp [hs] at h
      | ok scope =>
        simp only [hs] at h
        split at h
        · simp only [pure, Except.pure, Except.ok.injEq] at h
          subst h; exact Nat.le_refl _
        · split at h
          · cases h
          · split at h
            · cases hc : calibrateOp env sg q.1 contents with
              | error err => simp [hc] at h
              | ok opq =>
                simp only [hc] at h
                exact GraphFrame.foldlM_inv mergeStep (fun r => s.1.length ≤ r.1.length) opq s s'
                  (Nat.le_refl _)
                  (fun e _ r r' hr hm => Nat.le_trans hr (mergeStep_length r r' e hm)) h
            · simp only [pure, Except.pure, Except.ok.injEq] at h
              subst h; exact Nat.le_refl _

theorem calibrateSample_length (rx : String → String → Bool) (env : Env) (st : Recipe.State)
    (sgIdx : Nat) (qs qs' : Qsvs) (contents : Contents)
    (h : calibrateSample rx env st sgIdx qs contents = .ok qs') : qs.length ≤ qs'.length := by
  rw [calibrateSample_eq] at h
  unfold sampleFold at h
  cases hsg : env.model.subgraphs[sgIdx]? with
  | none => simp [hsg] at h
  | some sg =>
    simp only [hsg] at h
    cases hf : (allOps sg).foldlM (opStep rx env st sg contents) (qs, []) with
    | error err => simp [hf] at h
    | ok r =>
      simp only [hf, Except.ok.injEq] at h
      subst h
      exact GraphFrame.foldlM_inv (opStep rx env st sg contents) (fun r => qs.length ≤ r.1.length)
        (allOps sg) (qs, []) r (Nat.le_refl _)
        (fun q _ r r' hr hm => Nat.le_trans hr (opStep_length rx env st sg contents r r' q hm)) hf

theorem foldlM_calibrateSample_length (rx : String → String → Bool) (env : Env) (st : Recipe.State)
    (sgIdx : Nat) (D : List Contents) (q0 q1 : Qsvs)
    (h : D.foldlM (calibrateSample rx env st sgIdx) q0 = .ok q1) : q0.length ≤ q1.length :=
  GraphFrame.foldlM_inv (calibrateSample rx env st sgIdx) (fun r => q0.length ≤ r.length) D q0 q1
    (Nat.le_refl _)
    (fun c _ r r' hr hm => Nat.le_trans hr (calibrateSample_length rx env st sgIdx r r' c hm)) h

/-- **resumption**: calibrating on `D1` and continuing on `D2` from the returned result gives exactly
    the result of one pass over `D1 ++ D2` -/
theorem resume (rx : String → String → Bool) (env : Env) (st : Recipe.State) (sgi : Nat)
    (D1 D2 : List Contents) (q1 : Qsvs)
    (h1 : calibrate rx env st sgi none D1 = .ok q1) :
    calibrate rx env st sgi (some q1) D2 = calibrate rx env st sgi none (D1 ++ D2) := by
  unfold calibrate at h1 ⊢
  by_cases hn : (!Recipe.needCalibration st) = true
  · simp only [if_pos hn]
  · simp only [if_neg hn, Option.getD_none, Option.getD_some, List.isEmpty_nil, if_true, bind,
      Except.bind] at h1 ⊢
    cases hi : initModel rx env st with
    | error err => simp [hi] at h1
    | ok q0 =>
      simp only [hi] at h1 ⊢
      rw [List.foldlM_append]
      simp only [bind, Except.bind, h1]
      by_cases he : q1.isEmpty = true
      · have hlen := foldlM_calibrateSample_length rx env st sgi D1 q0 q1 h1
        have hq1 : q1 = [] := List.isEmpty_iff.1 he
        subst hq1
        have hq0 : q0 = [] := List.eq_nil_of_length_eq_zero (Nat.le_zero.1 hlen)
        subst hq0
        simp only [List.isEmpty_nil, if_true]
      · simp only [if_neg he, pure, Except.pure]

/-! ## completeness of the statistics -/

/-- the key holds min/max statistics -/
def HS (qs : Qsvs) (n : String) : Prop := ∃ v, Py.dictGet? qs n = some (some v)

/-- every name updated in this sample holds statistics -/
def Inv (s : MState) : Prop := ∀ n ∈ s.2, HS s.1 n

theorem ema_some (old : Qsv) (w : FArr × FArr) (nv : Qsv) (h : ema old (some w) = .ok nv) :
    ∃ v, nv = some v := by
  cases old with
  | none =>
    simp only [ema, pure, Except.pure, Except.ok.injEq] at h
    exact ⟨w, h.symm⟩
  | some o =>
    obtain ⟨mn, mx⟩ := o
    obtain ⟨nmn, nmx⟩ := w
    simp only [ema, bind, Except.bind] at h
    cases ha : emaArr mn nmn with
    | error err => simp [ha] at h
    | ok a =>
      simp only [ha] at h
      cases hb : emaArr mx nmx with
      | error err => simp [hb] at h
      | ok b =>
        simp only [hb, pure, Except.pure, Except.ok.injEq] at h
        exact ⟨(a, b), h.symm⟩

theorem minMaxAll_some (d : FArr) (q : Qsv) (h : minMaxAll d = .ok q) : ∃ w, q = some w := by
  simp only [minMaxAll, bind, Except.bind] at h
  cases ha : reduceKeep minR d.arr none with
  | error err => simp [ha] at h
  | ok a =>
    simp only [ha] at h
    cases hb : reduceKeep maxR d.arr none with
    | error err => simp [hb] at h
    | ok b =>
      simp only [hb, pure, Except.pure, Except.ok.injEq] at h
      exact ⟨_, h.symm⟩

theorem mergeStep_inv (s s' : MState) (e : String × Qsv) (he : ∃ w, e.2 = some w) (hI : Inv s)
    (h : mergeStep s e = .ok s') : Inv s' ∧ e.1 ∈ s'.2 ∧ ∀ n ∈ s.2, n ∈ s'.2 := by
  obtain ⟨w, hw⟩ := he
  unfold mergeStep at h
  by_cases hc : s.2.contains e.1 = true
  · simp only [if_pos hc, pure, Except.pure, Except.ok.injEq] at h
    subst h
    exact ⟨hI, List.contains_iff_mem.1 hc, fun n hn => hn⟩
  · simp only [if_neg hc] at h
    cases hg : Py.dictGet? s.1 e.1 with
    | none =>
      simp only [hg, pure, Except.pure, Except.ok.injEq] at h
      subst h
      refine ⟨?_, by simp, fun n hn => List.mem_append_left _ hn⟩
      intro n hn
      rcases List.mem_append.1 hn with hn | hn
      · obtain ⟨v, hv⟩ := hI n hn
        exact ⟨v, dictGet?_append_some _ _ _ _ hv⟩
      · have hne : n = e.1 := by simpa using hn
        subst hne
        exact ⟨w, by rw [dictGet?_append_none _ _ hg, hw]⟩
    | some old =>
      simp only [hg] at h
      cases hema : ema old e.2 with
      | error err => simp [hema] at h
      | ok nv =>
        simp only [hema, pure, Except.pure, Except.ok.injEq] at h
        subst h
        rw [hw] at hema
        obtain ⟨v, hv⟩ := ema_some old w nv hema
        refine ⟨?_, by simp, fun n hn => List.mem_append_left _ hn⟩
        intro n hn
        show ∃ v, Py.dictGet? (Py.dictSet s.1 e.1 nv) n = some (some v)
        rw [dictGet?_dictSet]
        by_cases hen : e.1 = n
        · simp only [if_pos hen]
          exact ⟨v, by rw [hv]⟩
        · simp only [if_neg hen]
          rcases List.mem_append.1 hn with hn | hn
          · exact hI n hn
          · exact absurd (by simpa using hn : n = e.1).symm hen

theorem mergeAll_inv : ∀ (opq : List (String × Qsv)) (s s' : MState),
    (∀ e ∈ opq, ∃ w, e.2 = some w) → Inv s → opq.foldlM mergeStep s = .ok s' →
    Inv s' ∧ (∀ n ∈ s.2, n ∈ s'.2) ∧ ∀ e ∈ opq, e.1 ∈ s'.2 := by
  intro opq
  induction opq with
  | nil =>
    intro s s' _ hI h
    simp only [List.foldlM_nil, pure, Except.pure, Except.ok.injEq] at h
    subst h
    exact ⟨hI, fun n hn => hn, fun e he => by simp at he⟩
  | cons e opq ih =>
    intro s s' hall hI h
    simp only [List.foldlM_cons, bind, Except.bind] at h
    cases hm : mergeStep s e with
    | error err => simp [hm] at h
    | ok s1 =>
      simp only [hm] at h
      obtain ⟨hI1, he1, hmono1⟩ := mergeStep_inv s s1 e (hall e List.mem_cons_self) hI hm
      obtain ⟨hI', hmono', hkeys'⟩ :=
        ih s1 s' (fun x hx => hall x (List.mem_cons_of_mem _ hx)) hI1 h
      refine ⟨hI', fun n hn => hmono' n (hmono1 n hn), ?_⟩
      intro x hx
      rcases List.mem_cons.1 hx with rfl | hx
      · exact hmono' _ he1
      · exact hkeys' x hx

/-- every entry produced by `calibrateOp` carries statistics -/
theorem calibrateOp_vals (env : Env) (sg : Subgraph) (op : Op) (contents : Contents)
    (opq : List (String × Qsv)) (h : calibrateOp env sg op contents = .ok opq) :
    ∀ e ∈ opq, ∃ w, e.2 = some w := by
  unfold calibrateOp at h
  refine GraphFrame.foldlM_inv _ (fun acc => ∀ e ∈ acc, ∃ w, e.2 = some w) _ [] opq
    (fun e he => by simp at he) ?_ h
  intro i _ acc acc' hacc hstep
  simp only [bind, Except.bind] at hstep
  cases ht : tensorAt sg i with
  | error err => simp [ht] at hstep
  | ok t =>
    simp only [ht] at hstep
    split at hstep
    · simp only [pure, Except.pure, Except.ok.injEq] at hstep
      subst hstep; exact hacc
    · split at hstep
      · cases hstep
      · rename_i d _
        cases hq : minMaxAll d with
        | error err => simp [hq] at hstep
        | ok q =>
          simp only [hq, pure, Except.pure, Except.ok.injEq] at hstep
          subst hstep
          intro e he
          rcases mem_dictSet _ _ _ _ he with he | he
          · exact hacc e he
          · subst he
            exact minMaxAll_some d q hq

/-- `calibrateOp` produces an entry for every non-constant operand / result -/
theorem calibrateOp_key (env : Env) (sg : Subgraph) (op : Op) (contents : Contents)
    (opq : List (String × Qsv)) (h : calibrateOp env sg op contents = .ok opq)
    (i : Int) (hi : i ∈ op.inputs ++ op.outputs) (hi1 : i ≠ -1) (t : Tensor)
    (ht : tensorAt sg i = .ok t) (hnc : constAny env t = none) :
    t.name ∈ opq.map (·.1) := by
  unfold calibrateOp at h
  have hmem : i ∈ (op.inputs ++ op.outputs).filter (· != -1) := by
    simp only [List.mem_filter, hi, true_and]
    simpa using hi1
  refine (foldlM_reach _ (fun _ => True) (fun acc => t.name ∈ acc.map (·.1)) _ [] opq trivial
    (fun _ _ _ _ _ _ => trivial) ?_ i hmem ?_ h).2
  · intro j _ acc acc' _ hacc hstep
    simp only [bind, Except.bind] at hstep
    cases ht' : tensorAt sg j with
    | error err => simp [ht'] at hstep
    | ok t' =>
      simp only [ht'] at hstep
      split at hstep
      · simp only [pure, Except.pure, Except.ok.injEq] at hstep
        subst hstep; exact hacc
      · split at hstep
        · cases hstep
        · rename_i d _
          cases hq : minMaxAll d with
          | error err => simp [hq] at hstep
          | ok q =>
            simp only [hq, pure, Except.pure, Except.ok.injEq] at hstep
            subst hstep
            exact key_mem_dictSet _ _ _ _ (Or.inr hacc)
  · intro acc acc' _ hstep
    simp only [bind, Except.bind, ht, hnc, Option.isSome_none, Bool.false_eq_true, if_false]
      at hstep
    split at hstep
    · cases hstep
    · rename_i d _
      cases hq : minMaxAll d with
      | error err => simp [hq] at hstep
      | ok q =>
        simp only [hq, pure, Except.pure, Except.ok.injEq] at hstep
        subst hstep
        exact key_mem_dictSet _ _ _ _ (Or.inl rfl)

theorem opStep_inv (rx : String → String → Bool) (env : Env) (st : Recipe.State) (sg : Subgraph)
    (contents : Contents) (s s' : MState) (q : Op × Option String) (hI : Inv s)
    (h : opStep rx env st sg contents s q = .ok s') : Inv s' ∧ ∀ n ∈ s.2, n ∈ s'.2 := by
  unfold opStep at h
  cases hk : keyOf env q with
  | error err => simp [hk] at h
  | ok key =>
    cases key with
    | none =>
      simp only [hk, pure, Except.pure, Except.ok.injEq] at h
      subst h; exact ⟨hI, fun n hn => hn⟩
    | some k =>
      simp only [hk] at h
      cases hs : opScope sg q.1 with
      | error err => simp [hs] at h
      | ok scope =>
        simp only [hs] at h
        split at h
        · simp only [pure, Except.pure, Except.ok.injEq] at h
          subst h; exact ⟨hI, fun n hn => hn⟩
        · split at h
          · cases h
          · split at h
            · cases hc : calibrateOp env sg q.1 contents with
              | error err => simp [hc] at h
              | ok opq =>
                simp only [hc] at h
                obtain ⟨h1, h2, _⟩ :=
                  mergeAll_inv opq s s' (calibrateOp_vals env sg q.1 contents opq hc) hI h
                exact ⟨h1, h2⟩
            · simp only [pure, Except.pure, Except.ok.injEq] at h
              subst h; exact ⟨hI, fun n hn => hn⟩

theorem algMinMax_ne_noQuantize : (Tables.algMinMax == Tables.algNoQuantize) = false := by decide

/-- the step on an operator selected for min/max records every non-constant operand / result -/
theorem opStep_hit (rx : String → String → Bool) (env : Env) (st : Recipe.State) (sg : Subgraph)
    (contents : Contents) (s s' : MState) (q : Op × Option String) (k scope : String)
    (hk : keyOf env q = .ok (some k)) (hscope : opScope sg q.1 = .ok scope)
    (hsel : (Recipe.resolve rx st k scope).1 = Tables.algMinMax)
    (i : Int) (hi : i ∈ q.1.inputs ++ q.1.outputs) (hi1 : i ≠ -1) (t : Tensor)
    (ht : tensorAt sg i = .ok t) (hnc : constAny env t = none) (hI : Inv s)
    (h : opStep rx env st sg contents s q = .ok s') : t.name ∈ s'.2 := by
  unfold opStep at h
  simp only [hk, hscope, hsel, algMinMax_ne_noQuantize, Bool.false_eq_true, if_false] at h
  split at h
  · cases h
  · have hcol : collects Tables.algMinMax = true := by simp [collects]
    simp only [hcol, if_true] at h
    cases hc : calibrateOp env sg q.1 contents with
    | error err => simp [hc] at h
    | ok opq =>
      simp only [hc] at h
      obtain ⟨_, _, h3⟩ :=
        mergeAll_inv opq s s' (calibrateOp_vals env sg q.1 contents opq hc) hI h
      have hkey := calibrateOp_key env sg q.1 contents opq hc i hi hi1 t ht hnc
      obtain ⟨e, he, hen⟩ := List.mem_map.1 hkey
      rw [← hen]
      exact h3 e he

/-- an operator slot of the calibrated subgraph: a real operator or the INPUT / OUTPUT pseudo-operator -/
inductive IsOp (env : Env) (sg : Subgraph) : Op → String → Prop where
  | real (op : Op) (k : String) : op ∈ sg.ops → opKey env op = .ok (some k) → IsOp env sg op k
  | input : IsOp env sg { code := 0, inputs := [], outputs := sg.inputs } "INPUT"
  | output : IsOp env sg { code := 0, inputs := sg.outputs, outputs := [] } "OUTPUT"

theorem IsOp.mem_allOps {env : Env} {sg : Subgraph} {op : Op} {k : String} (h : IsOp env sg op k) :
    ∃ q ∈ allOps sg, q.1 = op ∧ keyOf env q = .ok (some k) := by
  cases h with
  | real op k hmem hkey =>
    refine ⟨(op, none), ?_, rfl, hkey⟩
    exact List.mem_append_left _ (List.mem_map.2 ⟨op, hmem, rfl⟩)
  | input =>
    exact ⟨(_, some "INPUT"), List.mem_append_right _ List.mem_cons_self, rfl, rfl⟩
  | output =>
    exact ⟨(_, some "OUTPUT"),
      List.mem_append_right _ (List.mem_cons_of_mem _ List.mem_cons_self), rfl, rfl⟩

/-- completeness after one sample -/
theorem sample_complete (rx : String → String → Bool) (env : Env) (st : Recipe.State) (sgi : Nat)
    (sg : Subgraph) (hsg : env.model.subgraphs[sgi]? = some sg)
    (q0 qs : Qsvs) (contents : Contents)
    (h : calibrateSample rx env st sgi q0 contents = .ok qs)
    (op : Op) (k scope : String) (hop : IsOp env sg op k) (hscope : opScope sg op = .ok scope)
    (hsel : (Recipe.resolve rx st k scope).1 = Tables.algMinMax)
    (i : Int) (hi : i ∈ op.inputs ++ op.outputs) (hi1 : i ≠ -1) (t : Tensor) (ht : tensorAt sg i = .ok t)
    (hnc : constAny env t = none) : HS qs t.name := by
  rw [calibrateSample_eq] at h
  unfold sampleFold at h
  simp only [hsg] at h
  cases hf : (allOps sg).foldlM (opStep rx env st sg contents) (q0, []) with
  | error err => simp [hf] at h
  | ok r =>
    simp only [hf, Except.ok.injEq] at h
    subst h
    obtain ⟨q, hq, hq1, hqk⟩ := hop.mem_allOps
    subst hq1
    have hfin := foldlM_reach (opStep rx env st sg contents) Inv (fun s => t.name ∈ s.2)
      (allOps sg) (q0, []) r (fun n hn => by simp at hn)
      (fun x _ s s' hI hs => (opStep_inv rx env st sg contents s s' x hI hs).1)
      (fun x _ s s' hI hQ hs => (opStep_inv rx env st sg contents s s' x hI hs).2 _ hQ)
      q hq
      (fun s s' hI hs => opStep_hit rx env st sg contents s s' q k scope hqk hscope hsel i hi hi1 t
        ht hnc hI hs)
      hf
    exact hfin.1 _ hfin.2

/-- **statistics are complete**: after calibrating on at least one sample, every non-constant tensor
    that is an operand or result of an operator selected for the min/max algorithm has recorded
    min/max statistics (so quantization never finds them missing) -/
theorem stats_complete (rx : String → String → Bool) (env : Env) (st : Recipe.State) (sgi : Nat)
    (sg : Subgraph) (hsg : env.model.subgraphs[sgi]? = some sg)
    (previous : Option Qsvs) (samples : List Contents) (hne : samples ≠ []) (qs : Qsvs)
    (hneed : Recipe.needCalibration st = true)
    (h : calibrate rx env st sgi previous samples = .ok qs)
    (op : Op) (k scope : String) (hop : IsOp env sg op k) (hscope : opScope sg op = .ok scope)
    (hsel : (Recipe.resolve rx st k scope).1 = Tables.algMinMax)
    (i : Int) (hi : i ∈ op.inputs ++ op.outputs) (hi1 : i ≠ -1) (t : Tensor) (ht : tensorAt sg i = .ok t)
    (hnc : constAny env t = none) :
    ∃ mn mx, Py.dictGet? qs t.name = some (some (mn, mx)) := by
  -- the run ends with `calibrateSample` on the last sample
  have hlast : ∃ qm c, calibrateSample rx env st sgi qm c = .ok qs := by
    obtain ⟨D, c, rfl⟩ : ∃ D c, samples = D ++ [c] :=
      ⟨samples.dropLast, samples.getLast hne, (List.dropLast_concat_getLast hne).symm⟩
    have hfold : ∃ q0, (D ++ [c]).foldlM (calibrateSample rx env st sgi) q0 = .ok qs := by
      unfold calibrate at h
      simp only [hneed, Bool.not_true, Bool.false_eq_true, if_false, bind, Except.bind] at h
      split at h
      · cases hi : initModel rx env st with
        | error err => simp [hi] at h
        | ok q0 => simp only [hi] at h; exact ⟨q0, h⟩
      · exact ⟨_, h⟩
    obtain ⟨q0, hfold⟩ := hfold
    rw [List.foldlM_append] at hfold
    simp only [bind, Except.bind] at hfold
    cases hD : D.foldlM (calibrateSample rx env st sgi) q0 with
    | error err => simp [hD] at hfold
    | ok qm =>
      simp only [hD, List.foldlM_cons, List.foldlM_nil, bind, Except.bind] at hfold
      cases hc : calibrateSample rx env st sgi qm c with
      | error err => simp [hc] at hfold
      | ok q' =>
        simp only [hc, pure, Except.pure, Except.ok.injEq] at hfold
        subst hfold
        exact ⟨qm, c, hc⟩
  obtain ⟨qm, c, hc⟩ := hlast
  obtain ⟨⟨mn, mx⟩, hv⟩ :=
    sample_complete rx env st sgi sg hsg qm qs c hc op k scope hop hscope hsel i hi hi1 t ht hnc
  exact ⟨mn, mx, hv⟩

end CalibProofs
