import QProofs.BlockwiseLaws
/-!
# `Blockwise.channelwise` IS the ordinary per-channel path of the materialisation model

`Mat.initMinMax` followed by `Mat.tensorQuantParams` (what `Mat.wrapper` does for a constant operand) on a FULLY_CONNECTED
weight under a CHANNELWISE weight configuration computes exactly `Blockwise.channelwise`; so `C17.blockwise_is_channelwise`
compares BLOCKWISE with the per-channel quantization the rest of the model (and the correspondence check of the pipeline) uses.
-/
open Graph Mat Arith Cfg Num Nd MatParams Blockwise

set_option autoImplicit false

namespace BlockwiseL

theorem channelwise_is_mat (env : Env) (oi : OpInfo) (t : Tensor) (tc : TCfg) (o f : Nat) (d : List Rat)
    (hname : oi.opName = "FULLY_CONNECTED") (hw : oi.cfg.weight = some tc) (hg : tc.gran = .channelwise)
    (hrank : t.shape.length = 2) :
    (initMinMax env oi t ⟨[o, f], d⟩ >>= fun mm => tensorQuantParams env oi (some mm) tc (some ⟨[o, f], d⟩))
      = (channelwise ⟨⟨[o, f], d⟩, .f32⟩ tc.bits.toNat tc.symmetric).map (fun r => Param.uniform r.1 (some r.2)) := by
  have hwb : weightBlockwise oi = false := by
    unfold weightBlockwise; rw [hw]; simp only [hg]; rfl
  have hbm : (oi.opName == "BATCH_MATMUL") = false := by rw [hname]; decide
  have hfind : Tables.weightQDim.find? (·.1 == oi.opName) = some ("FULLY_CONNECTED", 0) := by rw [hname]; rfl
  have hq : statQDim env oi 2 = some 0 := by
    unfold statQDim; rw [hw]; simp only [hg, hbm, hfind]; rfl
  have hdims : reduceDims (some 0) 2 = some [1] := by decide
  have hcw : (tc.gran == Gran.channelwise) = true := by rw [hg]; rfl
  have hbw : (tc.gran == Gran.blockwise) = false := by rw [hg]; rfl
  rw [initMinMax_eq, hwb, channelwise_eq]
  simp only [Bool.false_eq_true, if_false]
  have hlen : (⟨[o, f], d⟩ : Arr Rat).shape.length = 2 := rfl
  rw [hlen, hrank, hq, hdims]
  cases h1 : reduceKeep minR ⟨[o, f], d⟩ (some [1]) with
  | error e => rfl
  | ok mn =>
    cases h2 : reduceKeep maxR ⟨[o, f], d⟩ (some [1]) with
    | error e => rfl
    | ok mx =>
      simp only [bind, Except.bind, Except.map, tensorQuantParams_eq, refTensorParams, refQDim, refData, hcw, hbw, hbm, hfind,
        if_true, Bool.false_eq_true, if_false, pure, Except.pure]
      cases h3 : zpScale tc.bits.toNat tc.symmetric ⟨mn, .f32⟩ ⟨mx, .f32⟩ with
      | error e => rfl
      | ok zs =>
        simp only []
        cases h4 : uniformQuantize ⟨⟨[o, f], d⟩, .f32⟩
            { bits := tc.bits.toNat, qdim := some 0, scale := zs.2, zp := zs.1, symmetric := tc.symmetric } <;> rfl

end BlockwiseL
