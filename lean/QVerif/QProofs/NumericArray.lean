import QProofs.NumericScalar
import QProofs.MatParams
import QProofs.GraphTotal
/-!
# Array totality of the arithmetic (C08, numeric half)

`zipB`, `Arith.zpScale`, `Arith.uniformQuantize`, `Arith.quantizeBias` return whenever the shapes broadcast and
the scalar cores succeed on the elements they are applied to (`NumericScalar`).
-/
open Num Nd Arith PrecL ArithL MatParams

set_option autoImplicit false

namespace NumT

/-! ## shapes -/

/-- operand shape `s` broadcasts to `r` without enlarging it: same rank, every dimension is 1 or that of `r` -/
abbrev Compat (s r : List Nat) : Prop := List.Forall₂ (fun k r => k = 1 ∨ k = r) s r

theorem Compat.refl : ∀ (r : List Nat), Compat r r
  | [] => List.Forall₂.nil
  | _ :: r => List.Forall₂.cons (.inr rfl) (Compat.refl r)

theorem Compat.length {s r : List Nat} (h : Compat s r) : s.length = r.length := List.Forall₂.length_eq h

theorem bshape_compat : ∀ {s r : List Nat}, Compat s r → bshape r s = some r := by
  intro s r h
  induction h with
  | nil => rfl
  | @cons k d s r hk _ ih =>
    unfold bshape
    rw [ih]
    simp only []
    rcases hk with rfl | rfl
    · by_cases h : d = 1
      · subst h; simp
      · simp [h]
    · simp

theorem bshape_compat' : ∀ {s r : List Nat}, Compat s r → bshape s r = some r := by
  intro s r h
  induction h with
  | nil => rfl
  | @cons k d s r hk _ ih =>
    unfold bshape
    rw [ih]
    simp only []
    rcases hk with rfl | rfl
    · by_cases h : 1 = d
      · subst h; simp
      · simp [h]
    · simp

theorem padLeft_same (n : Nat) (s : List Nat) (h : n ≤ s.length) : padLeft n s = s := by
  unfold padLeft
  rw [Nat.sub_eq_zero_of_le h]
  rfl

theorem bshapeAny_compat {s r : List Nat} (h : Compat s r) : bshapeAny r s = some r := by
  simp only [bshapeAny, h.length, Nat.max_self]
  rw [padLeft_same _ _ (Nat.le_refl _), padLeft_same _ _ (Nat.le_of_eq h.length.symm)]
  exact bshape_compat h

/-- the cell of an operand that broadcasts to `r` is inside the operand -/
theorem bindex_compat_lt {s r : List Nat} (h : Compat s r) (i : Nat) (hi : i < numel r) : bindex r s i < numel s := by
  unfold bindex
  rw [padLeft_same _ _ (Nat.le_of_eq h.length.symm)]
  exact ravel_bproj_lt _ _ _ (unravel_lt r i hi) h

theorem getD_mem_or {α} (l : List α) (i : Nat) (d : α) : l.getD i d ∈ l ∨ l.getD i d = d := by
  rw [List.getD_eq_getElem?_getD]
  cases h : l[i]? with
  | none => exact .inr rfl
  | some x => exact .inl (List.mem_of_getElem? h)

theorem getD_mem {α} (l : List α) (i : Nat) (d : α) (h : i < l.length) : l.getD i d ∈ l := by
  rw [List.getD_eq_getElem?_getD, List.getElem?_eq_getElem h]
  exact List.getElem_mem h

/-! ## `zipB` -/

theorem zipB_total {α β γ} [Inhabited α] [Inhabited β] (f : α → β → PyM γ) (a : Arr α) (b : Arr β) (rs : List Nat)
    (hrs : bshapeAny a.shape b.shape = some rs)
    (hf : ∀ i < numel rs, ∃ c, f (a.data.getD (bindex rs a.shape i) default) (b.data.getD (bindex rs b.shape i) default) = .ok c) :
    ∃ c, zipB f a b = .ok c := by
  unfold zipB
  rw [hrs]
  simp only []
  obtain ⟨d, hd⟩ := GraphTotal.mapM_total (fun i =>
      f (a.data.getD (bindex rs a.shape i) default) (b.data.getD (bindex rs b.shape i) default)) (List.range (numel rs))
    (fun i hi => hf i (List.mem_range.1 hi))
  exact ⟨⟨rs, d⟩, by rw [hd]; rfl⟩

/-- every element of a successful `zipB` is `f` on one cell of each operand -/
theorem zipB_mem {α β γ} [Inhabited α] [Inhabited β] (f : α → β → PyM γ) (a : Arr α) (b : Arr β) (c : Arr γ)
    (h : zipB f a b = .ok c) (x : γ) (hx : x ∈ c.data) :
    ∃ rs i, bshapeAny a.shape b.shape = some rs ∧ i < numel rs ∧
      f (a.data.getD (bindex rs a.shape i) default) (b.data.getD (bindex rs b.shape i) default) = .ok x := by
  obtain ⟨rs, hrs, _, hlen, hel⟩ := zipB_ok f a b c h
  obtain ⟨i, hi, hxi⟩ := List.getElem_of_mem hx
  refine ⟨rs, i, hrs, by omega, hel i x ?_⟩
  rw [List.getElem?_eq_getElem hi, hxi]

/-! ## `tensor_zp_scale_from_min_max` -/

/-- finite statistics: float32 / float64 / `exact` (integer tensors, python numbers) arrays of one shape, every value
    within the bound -/
structure StatFin (mn mx : FArr) : Prop where
  prMn : F3264 mn.pr
  prMx : F3264 mx.pr
  shape : mn.arr.shape = mx.arr.shape
  bMn : ∀ v ∈ mn.arr.data, |v| ≤ B
  bMx : ∀ v ∈ mx.arr.data, |v| ≤ B

theorem getD_bounded (l : List Rat) (i : Nat) (h : ∀ v ∈ l, |v| ≤ B) : |l.getD i default| ≤ B := by
  rcases getD_mem_or l i default with h1 | h1
  · exact h _ h1
  · rw [h1]
    show |(0:Rat)| ≤ B
    rw [abs_zero]; exact le_of_lt B_pos

/-- usable quantization parameters: scales at least `L`, zero points within the 64-bit range, arrays of one shape
    with as many elements as the shape says -/
structure QPGood (L : Rat) (qp : QParams) : Prop where
  pr : F3264 qp.scale.pr
  shape : qp.scale.arr.shape = qp.zp.arr.shape
  slen : qp.scale.arr.data.length = numel qp.scale.arr.shape
  zlen : qp.zp.arr.data.length = numel qp.scale.arr.shape
  lo : ∀ s ∈ qp.scale.arr.data, L ≤ s
  zp : ∀ z ∈ qp.zp.arr.data, |((z : Int) : Rat)| ≤ (2:Rat)^(63:Int)

/-- **`tensor_zp_scale_from_min_max` is total on finite statistics** -/
theorem zpScale_total (bits : Nat) (hb2 : 2 ≤ bits) (hb16 : bits ≤ 16) (sym : Bool) (mn mx : FArr) (S : StatFin mn mx) :
    ∃ zs, zpScale bits sym mn mx = .ok zs := by
  simp only [zpScale]
  have hj := F3264.join S.prMn S.prMx
  obtain ⟨both, hb⟩ := zipB_total (fun a b => zpScale1 (mn.pr.join mx.pr) bits sym a b) mn.arr mx.arr mn.arr.shape
    (by rw [← S.shape]; exact bshapeAny_self _)
    (fun i _ => by
      obtain ⟨z, s, h, _⟩ := zpScale1_total _ hj bits hb2 hb16 sym _ _ (getD_bounded _ _ S.bMn) (getD_bounded _ _ S.bMx)
      exact ⟨_, h⟩)
  exact ⟨_, by rw [hb]; rfl⟩

/-- what it returns: scales in `[2^-30, 2^63]`, of the statistics' shape and format -/
theorem zpScale_good (bits : Nat) (hb2 : 2 ≤ bits) (hb16 : bits ≤ 16) (sym : Bool) (mn mx : FArr) (S : StatFin mn mx)
    (qdim : Option Nat) (zp : IArr) (scale : FArr) (h : zpScale bits sym mn mx = .ok (zp, scale)) :
    QPGood sLo { bits := bits, qdim := qdim, scale := scale, zp := zp, symmetric := sym } ∧
    scale.arr.shape = mn.arr.shape ∧ (∀ s ∈ scale.arr.data, s ≤ B) := by
  have hj := F3264.join S.prMn S.prMx
  obtain ⟨hw, hpr, rs, hrs, hzs, hss, hzl, hsl, hel⟩ := zpScale_elems bits sym mn mx zp scale h
  rw [← S.shape, bshapeAny_self] at hrs
  cases hrs
  have key : ∀ i (hi : i < scale.arr.data.length), sLo ≤ scale.arr.data[i] ∧ scale.arr.data[i] ≤ B ∧
      |((zp.arr.data.getD i 0 : Int) : Rat)| ≤ (2:Rat)^(63:Int) := by
    intro i hi
    have hiz : i < zp.arr.data.length := by omega
    have := hel i zp.arr.data[i] scale.arr.data[i] (List.getElem?_eq_getElem hiz) (List.getElem?_eq_getElem hi)
    obtain ⟨z, s, h1, h2, h3⟩ := zpScale1_total _ hj bits hb2 hb16 sym _ _
      (getD_bounded mn.arr.data (bindex mn.arr.shape mn.arr.shape i) S.bMn)
      (getD_bounded mx.arr.data (bindex mn.arr.shape mx.arr.shape i) S.bMx)
    rw [this] at h1
    simp only [Except.ok.injEq, Prod.mk.injEq] at h1
    refine ⟨by rw [h1.2]; exact h2, by rw [h1.2]; exact h3, ?_⟩
    rw [List.getD_eq_getElem?_getD, List.getElem?_eq_getElem hiz, Option.getD_some]
    -- the zero point is 0 (symmetric) or a wrapped storage integer
    have hz := this
    unfold zpScale1 at hz
    cases sym with
    | true =>
      simp only [if_true] at hz
      split at hz
      · simp only [Except.ok.injEq, Prod.mk.injEq] at hz
        rw [← hz.1]
        simp only [Int.cast_zero, abs_zero]
        exact le_of_lt (two_pos _)
      · cases hz
    | false =>
      simp only [Bool.false_eq_true, if_false] at hz
      split at hz
      · simp only [Except.ok.injEq, Prod.mk.injEq] at hz
        rw [← hz.1]
        exact storage_zp_abs _ _
      · cases hz
  refine ⟨⟨by rw [hpr]; exact hj, by rw [hzs, hss], hsl.trans (by rw [hss]), hzl.trans (by rw [hss]), ?_, ?_⟩, hss, ?_⟩
  · intro s hs
    obtain ⟨i, hi, rfl⟩ := List.getElem_of_mem hs
    exact (key i hi).1
  · intro z hz
    obtain ⟨i, hi, rfl⟩ := List.getElem_of_mem hz
    have := (key i (by simp only [] at hi ⊢; omega)).2.2
    rwa [List.getD_eq_getElem?_getD, List.getElem?_eq_getElem hi, Option.getD_some] at this
  · intro s hs
    obtain ⟨i, hi, rfl⟩ := List.getElem_of_mem hs
    exact (key i hi).2.1

/-! ## `uniform_quantize` -/

/-- **`uniform_quantize` is total**: finite data, parameters of the data's rank whose shape broadcasts to the
    data's, scales of at least `2^-60` -/
theorem uniformQuantize_total (x : FArr) (qp : QParams) (hx : F3264 x.pr) (hxb : ∀ v ∈ x.arr.data, |v| ≤ B)
    (G : QPGood ((2:Rat)^(-60:Int)) qp) (hc : Compat qp.scale.arr.shape x.arr.shape) :
    ∃ q, uniformQuantize x qp = .ok q := by
  have hrank : x.arr.shape.length = qp.scale.arr.rank := hc.length.symm
  unfold uniformQuantize
  have h1 : fixRank x.arr.shape qp = .ok qp := by unfold fixRank; simp only [hrank, if_true]
  have h2 : validParams x.arr.shape qp = .ok () := by
    unfold validParams
    rw [if_neg (by rw [G.shape]; exact fun h => h rfl), if_neg (by rw [hrank]; exact fun h => h rfl)]
  simp only [h1, h2, bind, Except.bind]
  -- the (scale, zero point) pairs
  obtain ⟨sz, hsz⟩ := zipB_total (fun (s : Rat) (z : Int) => (pure (s, z) : PyM (Rat × Int))) qp.scale.arr qp.zp.arr
    qp.scale.arr.shape (by rw [← G.shape]; exact bshapeAny_self _) (fun i _ => ⟨_, rfl⟩)
  rw [hsz]
  simp only []
  obtain ⟨rs, hrs, hshape, hlen, hel⟩ := zipB_ok _ _ _ _ hsz
  rw [← G.shape, bshapeAny_self] at hrs
  cases hrs
  have hpair : ∀ j < numel sz.shape, (2:Rat)^(-60:Int) ≤ (sz.data.getD j default).1 ∧
      |(((sz.data.getD j default).2 : Int) : Rat)| ≤ (2:Rat)^(63:Int) := by
    intro j hj0
    have hj : j < numel qp.scale.arr.shape := by rw [← hshape]; exact hj0
    have hj' : j < sz.data.length := by omega
    have := hel j sz.data[j] (List.getElem?_eq_getElem hj')
    simp only [pure, Except.pure, Except.ok.injEq] at this
    rw [List.getD_eq_getElem?_getD, List.getElem?_eq_getElem hj', Option.getD_some, ← this]
    constructor
    · refine G.lo _ (getD_mem _ _ _ ?_)
      rw [G.slen]
      exact bindex_compat_lt (Compat.refl _) j hj
    · show |(((qp.zp.arr.data.getD (bindex qp.scale.arr.shape qp.zp.arr.shape j) default : Int)) : Rat)| ≤ _
      rcases getD_mem_or qp.zp.arr.data (bindex qp.scale.arr.shape qp.zp.arr.shape j) default with h | h
      · exact G.zp _ h
      · rw [h]
        show |((0 : Int) : Rat)| ≤ _
        simp only [Int.cast_zero, abs_zero]
        exact le_of_lt (two_pos _)
  have hc' : Compat sz.shape x.arr.shape := by rw [hshape]; exact hc
  obtain ⟨out, hout⟩ := zipB_total (fun v (p : Rat × Int) =>
      quantize1 x.pr qp.scale.pr qp.zp.w qp.bits qp.symmetric v p.1 p.2) x.arr sz x.arr.shape
    (bshapeAny_compat hc')
    (fun i hi => by
      have hj := bindex_compat_lt hc' i hi
      obtain ⟨h1, h2⟩ := hpair _ hj
      exact quantize1_total x.pr qp.scale.pr hx G.pr _ _ _ _ _ _ (getD_bounded _ _ hxb) h1 h2)
  rw [hout]
  exact ⟨_, rfl⟩

/-! ## the bias -/

theorem numel_append (a b : List Nat) : numel (a ++ b) = numel a * numel b := by
  induction a with
  | nil => simp [numel_nil]
  | cons x a ih => rw [List.cons_append, numel_cons, numel_cons, ih, Nat.mul_assoc]

theorem numel_replicate_one (n : Nat) : numel (List.replicate n 1) = 1 := by
  induction n with
  | zero => rfl
  | succ n ih => rw [List.replicate_succ, numel_cons, ih]

theorem numel_padLeft (n : Nat) (s : List Nat) : numel (padLeft n s) = numel s := by
  unfold padLeft
  rw [numel_append, numel_replicate_one, Nat.one_mul]

theorem numel_filter (s : List Nat) : numel (s.filter (· ≠ 1)) = numel s := by
  induction s with
  | nil => rfl
  | cons a s ih =>
    by_cases h : a = 1
    · subst h
      rw [List.filter_cons_of_neg (by simp), ih, numel_cons, Nat.one_mul]
    · rw [List.filter_cons_of_pos (by simpa using h), numel_cons, numel_cons, ih]

theorem numel_ones' (s : List Nat) (h : ∀ d ∈ s, d = 1) : numel s = 1 := by
  induction s with
  | nil => rfl
  | cons a s ih =>
    rw [numel_cons, h a List.mem_cons_self, ih (fun d hd => h d (List.mem_cons_of_mem _ hd))]

/-- at most one dimension differs from 1 (a per-tensor or per-channel parameter array) -/
def OneDim (s : List Nat) : Prop := (s.filter (· ≠ 1)).length ≤ 1

theorem filter_padLeft (n : Nat) (s : List Nat) : (padLeft n s).filter (· ≠ 1) = s.filter (· ≠ 1) := by
  unfold padLeft
  rw [List.filter_append]
  have : (List.replicate (n - s.length) 1).filter (· ≠ 1) = [] := by
    rw [List.filter_eq_nil_iff]
    intro a ha
    rw [List.eq_of_mem_replicate ha]
    simp
  rw [this, List.nil_append]

theorem oneDim_ones (s : List Nat) (h : ∀ d ∈ s, d = 1) : OneDim s := by
  unfold OneDim
  have : s.filter (· ≠ 1) = [] := by
    rw [List.filter_eq_nil_iff]
    intro a ha
    rw [h a ha]
    simp
  rw [this]
  exact Nat.zero_le _

/-- `np.squeeze` of an array with at most one proper dimension is the flat vector -/
theorem squeeze1_eq (a : Arr Rat) : squeeze1 a =
    if (a.shape.filter (· ≠ 1)).isEmpty then ⟨[1], a.data⟩ else ⟨a.shape.filter (· ≠ 1), a.data⟩ := rfl

theorem squeeze1_oneDim (a : Arr Rat) (h : OneDim a.shape) : (squeeze1 a).shape = [numel a.shape] ∧ (squeeze1 a).data = a.data := by
  rw [squeeze1_eq]
  have hn := numel_filter a.shape
  unfold OneDim at h
  rcases hf : a.shape.filter (· ≠ 1) with _ | ⟨c, _ | ⟨c', l⟩⟩
  · rw [hf] at hn
    simp only [hf, List.isEmpty_nil, if_true]
    exact ⟨by rw [← hn]; rfl, trivial⟩
  · rw [hf] at hn
    simp only [hf, List.isEmpty_cons, Bool.false_eq_true, if_false]
    refine ⟨?_, trivial⟩
    rw [← hn, numel_cons, numel_nil, Nat.mul_one]
  · rw [hf] at h
    simp at h

theorem bshape_ones_left : ∀ (a b : List Nat), (∀ d ∈ a, d = 1) → a.length = b.length → bshape a b = some b := by
  intro a
  induction a with
  | nil =>
    intro b _ hl
    cases b with
    | nil => rfl
    | cons _ _ => cases hl
  | cons x a ih =>
    intro b h hl
    cases b with
    | nil => cases hl
    | cons y b =>
      unfold bshape
      rw [ih b (fun d hd => h d (List.mem_cons_of_mem _ hd)) (by simpa using hl)]
      simp only []
      have hx : x = 1 := h x List.mem_cons_self
      subst hx
      by_cases hy : 1 = y
      · subst hy; simp
      · simp [hy]

theorem padLeft_ones (n : Nat) (s : List Nat) (h : ∀ d ∈ s, d = 1) : ∀ d ∈ padLeft n s, d = 1 := by
  intro d hd
  unfold padLeft at hd
  rcases List.mem_append.1 hd with h1 | h1
  · exact List.eq_of_mem_replicate h1
  · exact h d h1

theorem padLeft_length (n : Nat) (s : List Nat) : (padLeft n s).length = max n s.length := by
  unfold padLeft
  simp only [List.length_append, List.length_replicate]
  omega

theorem bproj_ones : ∀ (s idx : List Nat), (∀ d ∈ s, d = 1) → ravel s (bproj s idx) = 0 := by
  intro s
  induction s with
  | nil => intro idx _; cases idx <;> rfl
  | cons d s ih =>
    intro idx h
    cases idx with
    | nil => rfl
    | cons i idx =>
      simp only [bproj, ravel, h d List.mem_cons_self, if_true, Nat.zero_mul, Nat.zero_add]
      exact ih idx (fun d hd => h d (List.mem_cons_of_mem _ hd))

/-- a per-tensor array broadcasts against anything: its only cell is used everywhere -/
theorem bindex_ones (rs s : List Nat) (h : ∀ d ∈ s, d = 1) (i : Nat) : bindex rs s i = 0 := by
  unfold bindex
  exact bproj_ones _ _ (padLeft_ones _ _ h)

theorem bshapeAny_ones_left (a b : List Nat) (h : ∀ d ∈ a, d = 1) :
    bshapeAny a b = some (padLeft (max a.length b.length) b) := by
  unfold bshapeAny
  exact bshape_ones_left _ _ (padLeft_ones _ _ h) (by rw [padLeft_length, padLeft_length]; omega)

/-- **`symmetric_quantize_bias_tensor` is total**: a per-tensor data scale, a per-tensor or per-channel weight scale
    (both in `[2^-30, 2^63]`: the product neither overflows nor underflows), a finite bias vector with one element per
    channel -/
theorem quantizeBias_total (bd : Arr Rat) (n : Nat) (qi qw : QParams) (hbs : bd.shape = [n]) (hbb : ∀ v ∈ bd.data, |v| ≤ B)
    (Gi : QPGood sLo qi) (Gw : QPGood sLo qw) (hiB : ∀ s ∈ qi.scale.arr.data, s ≤ B) (hwB : ∀ s ∈ qw.scale.arr.data, s ≤ B)
    (hones : ∀ d ∈ qi.scale.arr.shape, d = 1) (hone : OneDim qw.scale.arr.shape)
    (hch : numel qw.scale.arr.shape = 1 ∨ numel qw.scale.arr.shape = n) :
    ∃ r, quantizeBias ⟨bd, .f32⟩ qi qw = .ok r := by
  unfold quantizeBias
  have hj := F3264.join Gi.pr Gw.pr
  set rs := padLeft (max qi.scale.arr.shape.length qw.scale.arr.shape.length) qw.scale.arr.shape with hrsdef
  have hrs : bshapeAny qi.scale.arr.shape qw.scale.arr.shape = some rs := bshapeAny_ones_left _ _ hones
  have hnum : numel rs = numel qw.scale.arr.shape := numel_padLeft _ _
  have hcw : Compat (padLeft rs.length qw.scale.arr.shape) rs := by
    have : padLeft rs.length qw.scale.arr.shape = rs := by
      rw [hrsdef, padLeft_length]
      congr 1
      omega
    rw [this]
    exact Compat.refl _
  have hprodEl : ∀ i < numel rs, ∃ s, (qi.scale.pr.join qw.scale.pr).chk
      (qi.scale.arr.data.getD (bindex rs qi.scale.arr.shape i) default *
        qw.scale.arr.data.getD (bindex rs qw.scale.arr.shape i) default) = .ok s ∧ (2:Rat)^(-60:Int) ≤ s := by
    intro i hi
    have hia : qi.scale.arr.data.getD (bindex rs qi.scale.arr.shape i) default ∈ qi.scale.arr.data := by
      rw [bindex_ones _ _ hones]
      exact getD_mem _ _ _ (by rw [Gi.slen, numel_ones' _ hones]; exact Nat.one_pos)
    have hib : qw.scale.arr.data.getD (bindex rs qw.scale.arr.shape i) default ∈ qw.scale.arr.data := by
      refine getD_mem _ _ _ ?_
      rw [Gw.slen]
      have := ravel_bproj_lt _ _ _ (unravel_lt rs i hi) hcw
      rw [numel_padLeft] at this
      exact this
    exact scaleProd_total _ hj _ _ (Gi.lo _ hia) (hiB _ hia) (Gw.lo _ hib) (hwB _ hib)
  obtain ⟨prod, hprod⟩ := zipB_total (fun a b => (qi.scale.pr.join qw.scale.pr).chk (a * b)) qi.scale.arr qw.scale.arr rs hrs
    (fun i hi => by obtain ⟨s, h, _⟩ := hprodEl i hi; exact ⟨s, h⟩)
  simp only [hprod, bind, Except.bind]
  obtain ⟨rs', hrs', hpshape, hplen, hpel⟩ := zipB_ok _ _ _ _ hprod
  rw [hrs] at hrs'
  cases hrs'
  have hone' : OneDim prod.shape := by
    rw [hpshape]
    unfold OneDim
    rw [hrsdef, filter_padLeft]
    exact hone
  obtain ⟨hes, hed⟩ := squeeze1_oneDim prod hone'
  have hlo : ∀ s ∈ (squeeze1 prod).data, (2:Rat)^(-60:Int) ≤ s := by
    intro s hs
    rw [hed] at hs
    obtain ⟨i, hi, rfl⟩ := List.getElem_of_mem hs
    obtain ⟨s', h1, h2⟩ := hprodEl i (by omega)
    have := hpel i prod.data[i] (List.getElem?_eq_getElem hi)
    rw [h1] at this
    cases this
    exact h2
  have hshape_e : (squeeze1 prod).shape = [numel qw.scale.arr.shape] := by rw [hes, hpshape, hnum]
  have G : QPGood ((2:Rat)^(-60:Int))
      { bits := if qi.bits = 16 then 64 else 32,
        qdim := if (squeeze1 prod).shape.head? = some 1 then none else some 0,
        scale := ⟨squeeze1 prod, qi.scale.pr.join qw.scale.pr⟩,
        zp := ⟨(squeeze1 prod).map (fun _ => 0), 32⟩, symmetric := true } :=
    { pr := hj, shape := rfl
      slen := by
        show (squeeze1 prod).data.length = numel (squeeze1 prod).shape
        rw [hed, hes, numel_cons, numel_nil, Nat.mul_one, hplen, hpshape]
      zlen := by
        show ((squeeze1 prod).data.map (fun _ => (0:Int))).length = numel (squeeze1 prod).shape
        rw [List.length_map, hed, hes, numel_cons, numel_nil, Nat.mul_one, hplen, hpshape]
      lo := hlo
      zp := by
        intro z hz
        have : z = 0 := by
          have hz' : z ∈ (squeeze1 prod).data.map (fun _ => (0:Int)) := hz
          obtain ⟨_, _, h⟩ := List.mem_map.1 hz'
          exact h.symm
        rw [this]
        simp only [Int.cast_zero, abs_zero]
        exact le_of_lt (two_pos _) }
  have hc : Compat (squeeze1 prod).shape [n] := by
    rw [hshape_e]
    refine List.Forall₂.cons ?_ List.Forall₂.nil
    rcases hch with h | h
    · exact .inl h
    · exact .inr h
  obtain ⟨q, hq⟩ := uniformQuantize_total ⟨bd, .f32⟩ _ (.inl rfl) hbb G (by rw [hbs]; exact hc)
  rw [hq]
  exact ⟨_, rfl⟩

/-! ## closed witnesses -/

/-- beyond `B`: a bias of `2^80` with the smallest scales a 16-bit activation / 8-bit weight config can produce overflows
    float32 in `bias / (s_in · s_w)`; data and weights of magnitude `2^71` give scales (`≈ 2^64` each) whose float32 product
    overflows -- `B = 2^63` is within 8 binary orders of the best possible bound … -/
theorem bias_overflow :
    isNonfinite (quantizeBias ⟨⟨[1], [(2:Rat)^80]⟩, .f32⟩
      { bits := 16, qdim := none, scale := ⟨⟨[1], [1/655350000]⟩, .f32⟩, zp := ⟨⟨[1], [0]⟩, 16⟩, symmetric := false }
      { bits := 8, qdim := none, scale := ⟨⟨[1], [1/1270000]⟩, .f32⟩, zp := ⟨⟨[1], [0]⟩, 8⟩, symmetric := true }) = true ∧
    isNonfinite (quantizeBias ⟨⟨[1], [1]⟩, .f32⟩
      { bits := 8, qdim := none, scale := ⟨⟨[1], [(2:Rat)^64]⟩, .f32⟩, zp := ⟨⟨[1], [0]⟩, 8⟩, symmetric := false }
      { bits := 8, qdim := none, scale := ⟨⟨[1], [(2:Rat)^64]⟩, .f32⟩, zp := ⟨⟨[1], [0]⟩, 8⟩, symmetric := true }) = true := by
  constructor <;> decide +kernel

/-- … and scales whose product underflows to 0 in float32 make it fail whatever the bias (findings D25 / D33): such scales
    are below `2^-30`, which `tensor_zp_scale_from_min_max` never returns (`min_bound = 1e-4`) -/
theorem bias_underflow :
    isNonfinite (quantizeBias ⟨⟨[1], [1]⟩, .f32⟩
      { bits := 8, qdim := none, scale := ⟨⟨[1], [(2:Rat)^(-80:Int)]⟩, .f32⟩, zp := ⟨⟨[1], [0]⟩, 8⟩, symmetric := false }
      { bits := 8, qdim := none, scale := ⟨⟨[1], [(2:Rat)^(-80:Int)]⟩, .f32⟩, zp := ⟨⟨[1], [0]⟩, 8⟩, symmetric := true }) = true := by
  decide +kernel

end NumT
