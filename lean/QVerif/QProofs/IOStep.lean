import QProofs.TypingGraph
/-!
# C02, I/O contract, graph stage: what one performer step does to the GRAPH OUTPUTS, to the record of
the tensor it appends (its exact NAME included) and to the signatures

`TypingGraph.StepI` describes the tensors / operators / opcode table after one `applySingle`.  `StepO`
adds
* `outsYes` / `outsNo`: the graph outputs are retargeted exactly when the instruction adds an operator
  and lists a negative consumer (the graph-output marker `-1`);
* `newT`: the exact record appended for the new tensor: `_quantized` / `_dequant` appended to the CURRENT
  name of the transformed tensor, made unique against the CURRENT tensor names (`uniqueName`);
* `sigs`: the signature table is `updateSigs` of the old one along the old / new graph outputs.
The loops `applyAll_idxO`, `run_ruleO` are those of `TypingGraph`, with `StepO`.
-/
open Graph Perform GraphStep GraphFrame GraphInv Skeleton SkeletonProof StepTypes Wiring SharingE2E TypingGraph

namespace IOStep

/-- the suffix of the name of the tensor appended by an op-adding transformation -/
def sfx (x : Xf) : String := if x = .addQuant then "_quantized" else "_dequant"

/-- the instruction lists the graph-output marker among its consumers -/
def ListsOut (ins : Inst) : Prop := ∃ c ∈ ins.consumers, c < 0

/-- the record appended for the new tensor of an op-adding transformation `x` with parameter `p` on a
    tensor with record `tn`: float32 over the empty buffer 0 with the shape of `tn`; retyped when the
    new tensor is the result of a QUANTIZE -/
def newRecord (pi : PInfo) (p : PId) (ty : Nat) (x : Xf) (nm : String) (tn : Tensor) : Tensor :=
  if x = .addQuant then retype pi p ty (fresh nm tn) else fresh nm tn

theorem fresh_congr (nm : String) (tn tn' : Tensor) (h : tn.shape = tn'.shape) : fresh nm tn = fresh nm tn' := by
  unfold fresh; rw [h]

theorem newRecord_congr (pi : PInfo) (p : PId) (ty : Nat) (x : Xf) (nm : String) (tn tn' : Tensor)
    (h : tn.shape = tn'.shape) : newRecord pi p ty x nm tn = newRecord pi p ty x nm tn' := by
  unfold newRecord; rw [fresh_congr nm tn tn' h]

theorem newRecord_name (pi : PInfo) (p : PId) (ty : Nat) (x : Xf) (nm : String) (tn : Tensor) :
    (newRecord pi p ty x nm tn).name = nm := by
  unfold newRecord; split
  · rw [retype_name]; rfl
  · rfl

theorem newRecord_shape (pi : PInfo) (p : PId) (ty : Nat) (x : Xf) (nm : String) (tn : Tensor) :
    (newRecord pi p ty x nm tn).shape = tn.shape := by
  unfold newRecord; split
  · rw [retype_shape]; rfl
  · rfl

/-! ## one registered transformation: graph outputs and the appended record -/

theorem runXf_io (pt : PTable) (m m' : Model) (sgi : Nat) (sg sgA : Subgraph) (x : Xf) (inp : TIn)
    (info : TInfoOut) (hsg : m.subgraphs[sgi]? = some sg) (hinp : InpOK pt m sg inp)
    (h : runXf pt m sgi x inp = .ok (m', info)) (hA : m'.subgraphs[sgi]? = some sgA) :
    (addsOp x = true → memI (-1) inp.consumers = true →
      sgA.outputs = sg.outputs.map (fun o => if o == inp.tensor then (sg.tensors.length : Int) else o)) ∧
    (¬ (addsOp x = true ∧ memI (-1) inp.consumers = true) → sgA.outputs = sg.outputs) ∧
    (addsOp x = true → ∃ tn p pi ty, sg.tensors[inp.tensor.toNat]? = some tn ∧ inp.param = some p ∧
      pinfo pt p = some pi ∧ dtypeOf pi = .ok ty ∧
      sgA.tensors[sg.tensors.length]? =
        some (newRecord pi p ty x (uniqueName (sg.tensors.map (·.name)) (tn.name ++ sfx x)) tn)) := by
  obtain ⟨p, pi, ty, hp, hpi, hty⟩ := runXf_params pt m m' sgi sg x inp info hsg h
  have hv := (validT_iff _ _).1 hinp.tvalid
  have hlenSet : ∀ (l : List Tensor) (i : Nat) (a b : Tensor),
      (l.set i a ++ [b])[l.length]? = some b := by
    intro l i a b
    rw [List.getElem?_append_right (by simp)]
    simp
  unfold runXf at h
  cases x <;> simp only at h
  · cases h
  · -- addQuant
    obtain ⟨tn, ops2, hget, -, hT, -, -, hOut, -⟩ :=
      insertQuant_exact pt m m' sgi sg sgA inp info p pi ty hsg hA hinp hp hpi hty h
    refine ⟨?_, ?_, ?_⟩
    · intro _ hm
      rw [hOut, newOutputs, if_pos hm]
    · intro hn
      rw [hOut, newOutputs, if_neg (fun hm => hn ⟨rfl, hm⟩)]
    · intro _
      refine ⟨tn, p, pi, ty, hget, hp, hpi, hty, ?_⟩
      rw [hT, List.getElem?_append_right (Nat.le_refl _)]
      simp only [Nat.sub_self, List.getElem?_cons_zero, newRecord, if_true, sfx, fresh]
  · -- addDequant
    obtain ⟨tn, ops2, hget, -, hT, -, -, hOut, -⟩ :=
      insertDequant_exact pt m m' sgi sg sgA inp info p pi ty hsg hA hinp hp hpi hty h
    refine ⟨?_, ?_, ?_⟩
    · intro _ hm
      rw [hOut, newOutputs, if_pos hm]
    · intro hn
      rw [hOut, newOutputs, if_neg (fun hm => hn ⟨rfl, hm⟩)]
    · intro _
      refine ⟨tn, p, pi, ty, hget, hp, hpi, hty, ?_⟩
      rw [hT, hlenSet]
      simp only [newRecord, reduceCtorEq, if_false, sfx, fresh]
  · -- quantTensor
    obtain ⟨tn, hget, rfl, -⟩ :=
      quantizeOnly_exact pt m m' sgi sg sgA inp info p pi ty hsg hA hp hpi hty hv.1 h
    refine ⟨fun ha => ?_, fun _ => rfl, fun ha => ?_⟩ <;> cases ha
  · cases h

/-! ## one performer step -/

structure StepO (pt : PTable) (m0 : Model) (s : Nat) (ins : Inst) (st st' : PState) : Prop where
  stepI : StepI pt m0 s ins st st'
  outsYes : addsOp ins.xf = true → ListsOut ins → ∀ sg sg', st.model.subgraphs[s]? = some sg →
    st'.model.subgraphs[s]? = some sg' →
    sg'.outputs = sg.outputs.map (fun o => if o == ins.tensor then (sg.tensors.length : Int) else o)
  outsNo : ¬ (addsOp ins.xf = true ∧ ListsOut ins) → ∀ sg sg', st.model.subgraphs[s]? = some sg →
    st'.model.subgraphs[s]? = some sg' → sg'.outputs = sg.outputs
  newT : addsOp ins.xf = true → ∀ sg sg', st.model.subgraphs[s]? = some sg →
    st'.model.subgraphs[s]? = some sg' →
    ∃ tn p pi ty, sg.tensors[ins.tensor.toNat]? = some tn ∧ ins.param = some p ∧
      pinfo pt p = some pi ∧ dtypeOf pi = .ok ty ∧
      sg'.tensors[sg.tensors.length]? =
        some (newRecord pi p ty ins.xf (uniqueName (sg.tensors.map (·.name)) (tn.name ++ sfx ins.xf)) tn)
  sigs : ∀ sg sg', st.model.subgraphs[s]? = some sg → st'.model.subgraphs[s]? = some sg' →
    st'.model.sigs = updateSigs st.model.sigs s sg.outputs sg'.outputs

theorem applySingle_stepO (pt : PTable) (m0 : Model) (st st' : PState) (ti ti' : TInsts) (idx : Nat)
    (sg0 : Subgraph) (ins : Inst) (hwf0 : WF.modelOK m0 = true)
    (hb : Base m0 st) (hsg0 : m0.subgraphs[ti.sg]? = some sg0) (hins : ti.insts[idx]? = some ins)
    (hok : InstOK pt m0 sg0 ins) (hnc : NoChain ti.insts)
    (h : applySingle pt st ti idx = .ok (st', ti')) : StepO pt m0 ti.sg ins st st' ∧ ti' = ti := by
  obtain ⟨S, e⟩ := applySingle_stepI pt m0 st st' ti ti' idx sg0 ins hwf0 hb hsg0 hins hok hnc h
  refine ⟨?_, e⟩
  have hlt : ti.sg < m0.subgraphs.length := (List.getElem?_eq_some_iff.1 hsg0).1
  obtain ⟨om, hom⟩ : ∃ om, st.origMap[ti.sg]? = some om :=
    ⟨_, List.getElem?_eq_getElem (by rw [hb.inv.nom]; exact hlt)⟩
  obtain ⟨am, ham⟩ : ∃ am, st.addedMap[ti.sg]? = some am :=
    ⟨_, List.getElem?_eq_getElem (by rw [hb.inv.nam]; exact hlt)⟩
  obtain ⟨sgc, hsgc⟩ : ∃ sgc, st.model.subgraphs[ti.sg]? = some sgc :=
    ⟨_, List.getElem?_eq_getElem (by rw [hb.inv.nsg]; exact hlt)⟩
  have I := hb.inv.sg _ _ _ _ hsg0 hsgc hom
  obtain ⟨producer, consumers, m', info, sgAfter, am', newProd, hprod, hcons, hrun, hsa, rfl, -⟩ :=
    applySingle_spec pt st st' ti ti' idx ins om am sgc hins hom ham hsgc h
  have hinp := inpOK_of_inv pt m0 sg0 st.model sgc om am ins producer consumers I hok hprod hcons
  obtain ⟨-, ⟨sgF, F⟩, -⟩ := runXf_ok pt st.model m' ti.sg sgc ins.xf _ info hsgc hb.inv.wf hinp hrun
  obtain ⟨hyes, hno, hnew⟩ := runXf_io pt st.model m' ti.sg sgc sgAfter ins.xf _ info hsgc hinp hrun hsa
  have hmem : memI (-1) consumers = true ↔ ListsOut ins := by
    rw [memI_iff]
    constructor
    · intro hm
      obtain ⟨c, hc, hfc⟩ := mapM_ok _ _ _ hcons (-1) hm
      by_cases hc0 : c < 0
      · exact ⟨c, hc, hc0⟩
      · exfalso
        rw [if_neg hc0] at hfc
        have hget := index_ok _ _ _ (by omega) hfc
        have := (I.pos _ _ hget).1
        omega
    · rintro ⟨c, hc, hc0⟩
      obtain ⟨a, ha, hfa⟩ := mapM_ok' _ _ _ hcons c hc
      rw [if_pos hc0] at hfa
      cases hfa
      exact ha
  refine ⟨S, ?_, ?_, ?_, ?_⟩
  · intro hadd hl sg sg' h1 h2
    rw [hsgc] at h1; cases h1
    have h2' : m'.subgraphs[ti.sg]? = some sg' := h2
    rw [hsa] at h2'; cases h2'
    exact hyes hadd (hmem.2 hl)
  · intro hn sg sg' h1 h2
    rw [hsgc] at h1; cases h1
    have h2' : m'.subgraphs[ti.sg]? = some sg' := h2
    rw [hsa] at h2'; cases h2'
    exact hno (fun hc => hn ⟨hc.1, hmem.1 hc.2⟩)
  · intro hadd sg sg' h1 h2
    rw [hsgc] at h1; cases h1
    have h2' : m'.subgraphs[ti.sg]? = some sg' := h2
    rw [hsa] at h2'; cases h2'
    exact hnew hadd
  · intro sg sg' h1 h2
    rw [hsgc] at h1; cases h1
    have h2' : m'.subgraphs[ti.sg]? = some sg' := h2
    rw [hsa] at h2'; cases h2'
    show updateSigs m'.sigs ti.sg _ _ = _
    rw [F.sigs]

/-! ## the loops, with `StepO` -/

theorem applyAll_idxO (pt : PTable) (m0 : Model) (st st' : PState) (ti : TInsts)
    (hwf0 : WF.modelOK m0 = true) (hok : TInstsOK pt m0 ti) (Q : Nat → PState → Prop)
    (hb : Base m0 st) (h0 : Q 0 st)
    (hstep : ∀ (idx : Nat) (ins : Inst) (s s' : PState), ti.insts[idx]? = some ins →
      isInsertion ins.xf = true → StepO pt m0 ti.sg ins s s' → Q idx s → Q (idx + 1) s')
    (hskip : ∀ (idx : Nat) (ins : Inst) (s : PState), ti.insts[idx]? = some ins →
      isInsertion ins.xf = false → Q idx s → Q (idx + 1) s)
    (h : applyAll pt st ti = .ok st') : Base m0 st' ∧ Q ti.insts.length st' := by
  obtain ⟨sg0, hsg0, hall⟩ := hok.insts
  unfold applyAll at h
  simp only at h
  obtain ⟨cur, hloop, h⟩ := bind_ok _ _ _ h
  have hP : (Base m0 cur.1 ∧ cur.2 = ti) ∧ Q (0 + (List.range ti.insts.length).length) cur.1 := by
    refine forIn_idx_inv _ (fun i c => (Base m0 c.1 ∧ c.2 = ti) ∧ Q i c.1) _ 0 (st, ti) cur
      ⟨⟨hb, rfl⟩, h0⟩ ?_ hloop
    rintro i idx ⟨s, t⟩ s' hi ⟨⟨hB, ht⟩, hQ⟩ hf
    simp only at hB ht hQ hf
    subst ht
    have hidx : idx = i := by
      have hil : i < t.insts.length := by
        have := (List.getElem?_eq_some_iff.1 hi).1
        simpa using this
      rw [List.getElem?_range hil] at hi
      cases hi; rfl
    subst hidx
    rw [Nat.zero_add] at hQ
    cases hins : t.insts[idx]? with
    | none =>
      exfalso
      have := (List.getElem?_eq_some_iff.1 hi).1
      simp only [List.length_range] at this
      rw [List.getElem?_eq_none_iff] at hins
      omega
    | some ins =>
      simp only [hins] at hf
      split at hf
      · rename_i hx
        obtain ⟨c, hc, hf⟩ := bind_ok _ _ _ hf
        cases hf
        obtain ⟨c1, c2⟩ := c
        have hiok := hall ins (List.mem_of_getElem? hins)
        obtain ⟨S, e⟩ := applySingle_stepO pt m0 s c1 t c2 idx sg0 ins hwf0 hB hsg0 hins hiok
          hok.noChain hc
        refine ⟨_, rfl, ⟨S.stepI.stepB.step.base', e⟩, ?_⟩
        rw [Nat.zero_add]
        exact hstep idx ins s c1 hins hx S hQ
      · rename_i hx
        cases hf
        refine ⟨_, rfl, ⟨hB, rfl⟩, ?_⟩
        rw [Nat.zero_add]
        exact hskip idx ins s hins (by simpa using hx) hQ
  split at h
  · obtain ⟨_, e, _⟩ := bind_ok _ _ _ h
    cases e
  · cases h
    refine ⟨hP.1.1, ?_⟩
    have := hP.2
    rwa [Nat.zero_add, List.length_range] at this

/-- invariant rule for the whole run (as `TypingGraph.run_ruleI`, with `StepO`) -/
theorem run_ruleO (pt : PTable) (m0 : Model) (tis : List TInsts) (J : PState → Prop)
    (D : TInsts → Inst → PState → Prop)
    (hwf : WF.modelOK m0 = true) (hok : ∀ ti ∈ tis, TInstsOK pt m0 ti)
    (hJ : ∀ ti ∈ tis, ∀ ins ∈ ti.insts, ∀ st st', StepO pt m0 ti.sg ins st st' → J st → J st')
    (hD : ∀ ti ∈ tis, ∀ ins ∈ ti.insts, ∀ st st', StepO pt m0 ti.sg ins st st' → J st → D ti ins st')
    (hDp : ∀ ti ∈ tis, ∀ ins ∈ ti.insts, ∀ (ti' : TInsts) (ins' : Inst) st st',
      StepO pt m0 ti.sg ins st st' → J st → D ti' ins' st → D ti' ins' st')
    (s0 st : PState) (hb0 : Base m0 s0) (h0 : J s0)
    (hfold : tis.foldlM (applyAll pt) s0 = .ok st) :
    Base m0 st ∧ J st ∧ ∀ ti ∈ tis, ∀ ins ∈ ti.insts, isInsertion ins.xf = true → D ti ins st := by
  have key := foldlM_idx_inv (applyAll pt)
    (fun i s => Base m0 s ∧ J s ∧ ∀ (k : Nat) (ti : TInsts), k < i → tis[k]? = some ti →
      ∀ ins ∈ ti.insts, isInsertion ins.xf = true → D ti ins s) tis 0 s0 st
    ⟨hb0, h0, fun k _ hk => absurd hk (by omega)⟩ ?_ hfold
  · obtain ⟨B, j, d⟩ := key
    refine ⟨B, j, fun ti hti ins hins hx => ?_⟩
    obtain ⟨k, hk⟩ := List.mem_iff_getElem?.1 hti
    exact d k ti (by have := (List.getElem?_eq_some_iff.1 hk).1; omega) hk ins hins hx
  · intro i x s s' hi ⟨hB0, hJ0, hD0⟩ hf
    rw [Nat.zero_add] at hD0
    rw [Nat.zero_add]
    have hx := List.mem_of_getElem? hi
    obtain ⟨b, q⟩ := applyAll_idxO pt m0 s s' x hwf (hok x hx)
      (fun j c => J c ∧ (∀ (k : Nat) (ti : TInsts), k < i → tis[k]? = some ti →
          ∀ ins ∈ ti.insts, isInsertion ins.xf = true → D ti ins c) ∧
        ∀ (j' : Nat) (ins : Inst), j' < j → x.insts[j']? = some ins → isInsertion ins.xf = true →
          D x ins c) hB0
      ⟨hJ0, hD0, fun j' _ hj' => absurd hj' (by omega)⟩
      (fun idx ins c c' h1 hxf S ⟨q1, q2, q3⟩ => by
        have hm := List.mem_of_getElem? h1
        refine ⟨hJ x hx ins hm c c' S q1, ?_, ?_⟩
        · intro k ti hk hti ins' hins' hx'
          exact hDp x hx ins hm ti ins' c c' S q1 (q2 k ti hk hti ins' hins' hx')
        · intro j' ins' hj' hins' hx'
          by_cases hjj : j' = idx
          · subst hjj
            rw [h1] at hins'; cases hins'
            exact hD x hx ins hm c c' S q1
          · exact hDp x hx ins hm x ins' c c' S q1 (q3 j' ins' (by omega) hins' hx'))
      (fun idx ins c h1 hxf ⟨q1, q2, q3⟩ => by
        refine ⟨q1, q2, ?_⟩
        intro j' ins' hj' hins' hx'
        by_cases hjj : j' = idx
        · subst hjj
          rw [h1] at hins'; cases hins'
          rw [hxf] at hx'; cases hx'
        · exact q3 j' ins' (by omega) hins' hx') hf
    obtain ⟨q1, q2, q3⟩ := q
    refine ⟨b, q1, ?_⟩
    intro k ti hk hti ins hins hxf
    by_cases hki : k = i
    · subst hki
      rw [hi] at hti; cases hti
      obtain ⟨j', hj'⟩ := List.mem_iff_getElem?.1 hins
      exact q3 j' ins (List.getElem?_eq_some_iff.1 hj').1 hj' hxf
    · exact q2 k ti (by omega) hti ins hins hxf

end IOStep
