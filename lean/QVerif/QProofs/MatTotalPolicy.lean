import QProps.C13
import QProofs.MatTotal
/-!
# What recipe resolution can select (C08): registered functions and legal configs

For a recipe state without `skip_checks` rules -- every state built through the API by default, in
particular every shipped recipe -- `Recipe.resolve` returns `no_quantize` or a rule that
`Policy.accepts`; an accepted (algorithm, operator) pair has a registered materialize function that
the dispatch of `Mat.materializeOp` knows (`kindOf … ≠ unknown`), and an accepted config is one of
the runtime modes of `C13.modeOK` / `C13.accepted_float_casting`.
-/
open Graph Mat Arith Cfg Num Nd Pipe

set_option autoImplicit false

namespace MatTotal

/-- no rule of the recipe state opts out of the policy check -/
def NoSkip (st : Recipe.State) : Prop := ∀ e ∈ st, ∀ r ∈ e.2, r.cfg.skipChecks = false

/-- **what resolution returns**: the default, or an applicable rule that passed the policy check -/
theorem resolve_cases (rx : String → String → Bool) (st : Recipe.State) (k scope : String) :
    Recipe.resolve rx st k scope = (Tables.algNoQuantize, {}) ∨
    ∃ e ∈ st, ∃ r ∈ e.2, Recipe.resolve rx st k scope = (r.alg, r.cfg) ∧
      (r.operation = Tables.allOpsKey ∨ r.operation = k) ∧
      (r.alg = Tables.algNoQuantize ∨ Policy.accepts r.alg k r.cfg = true) := by
  unfold Recipe.resolve
  refine GenInstsInfo.foldl_inv _ (fun acc : String × OpCfg => acc = (Tables.algNoQuantize, {}) ∨
    ∃ e ∈ st, ∃ r ∈ e.2, acc = (r.alg, r.cfg) ∧ (r.operation = Tables.allOpsKey ∨ r.operation = k) ∧
      (r.alg = Tables.algNoQuantize ∨ Policy.accepts r.alg k r.cfg = true)) _ _ ?_ (.inl rfl)
  intro e he acc hacc
  split
  · refine GenInstsInfo.foldl_inv _ (fun acc : String × OpCfg => acc = (Tables.algNoQuantize, {}) ∨
      ∃ e ∈ st, ∃ r ∈ e.2, acc = (r.alg, r.cfg) ∧ (r.operation = Tables.allOpsKey ∨ r.operation = k) ∧
        (r.alg = Tables.algNoQuantize ∨ Policy.accepts r.alg k r.cfg = true)) _ _ ?_ hacc
    intro r hr acc' hacc'
    split
    · exact hacc'
    · rename_i hop
      split
      · exact hacc'
      · rename_i hacp
        refine .inr ⟨e, he, r, hr, rfl, ?_, ?_⟩
        · simp only [bne_iff_ne, ne_eq, Bool.and_eq_true, not_and, Decidable.not_not] at hop
          by_cases h1 : r.operation = Tables.allOpsKey
          · exact .inl h1
          · exact .inr (hop h1)
        · simp only [bne_iff_ne, ne_eq, Bool.and_eq_true, Bool.not_eq_true', not_and, Bool.not_eq_false] at hacp
          by_cases h1 : r.alg = Tables.algNoQuantize
          · exact .inl h1
          · exact .inr (hacp h1)
  · exact hacc

/-! ## registered ⇒ a known materialize function -/

def Kind.isUnknown : Kind → Bool
  | .unknown => true
  | _ => false

/-- the dispatch knows every function of the regenerated registry -/
theorem registry_known :
    Tables.registry.all (fun e => e.2.all (fun p => !(kindOf e.1 p.2).isUnknown)) = true := by
  decide +kernel

theorem registered_fn (alg k : String) (h : Policy.registered alg k = true) :
    ∃ ops fn, Py.dictGet? Tables.registry alg = some ops ∧ Py.dictGet? ops k = some fn ∧
      (kindOf alg fn).isUnknown = false := by
  unfold Policy.registered at h
  cases hr : Py.dictGet? Tables.registry alg with
  | none => rw [hr] at h; cases h
  | some ops =>
    rw [hr] at h
    simp only [List.any_eq_true] at h
    obtain ⟨p, hp, hpk⟩ := h
    have hfind : ∃ q, ops.find? (·.1 == k) = some q := by
      cases hf : ops.find? (·.1 == k) with
      | some q => exact ⟨q, rfl⟩
      | none =>
        have := List.find?_eq_none.1 hf p hp
        exact absurd hpk this
    obtain ⟨q, hq⟩ := hfind
    refine ⟨ops, q.2, rfl, by unfold Py.dictGet?; rw [hq]; rfl, ?_⟩
    have hmem := C13.mem_of_dictGet _ _ _ hr
    have hall := registry_known
    rw [List.all_eq_true] at hall
    have h1 := hall _ hmem
    simp only [List.all_eq_true] at h1
    have := h1 q (List.mem_of_find?_eq_some hq)
    simpa using this

/-! ## the facts about an accepted config that the materialisation relies on -/

/-- the operators whose constant operand is quantized with the WEIGHT config -/
def weightOp (k : String) : Bool := Tables.woOps.contains k || Tables.drqOps.contains k

/-- a config the materialisation of operator `k` under algorithm `alg` can work with -/
structure CfgGood (alg k : String) (c : OpCfg) : Prop where
  /-- min/max: a legal runtime mode -/
  minmax : alg = Tables.algMinMax → C13.modeOK k c = true
  /-- float casting: float16 weight-only on a supported operator -/
  cast : alg = Tables.algFloatCasting → Tables.fcSupportedOps.contains k = true ∧ c.cp = .float ∧ c.act = none ∧
      ∃ w, c.weight = some w ∧ w.bits = 16 ∧ w.dtype = .float
  alg : alg = Tables.algMinMax ∨ alg = Tables.algFloatCasting

theorem accepts_alg (alg k : String) (c : OpCfg) (hs : c.skipChecks = false) (h : Policy.accepts alg k c = true) :
    alg = Tables.algMinMax ∨ alg = Tables.algFloatCasting := by
  obtain ⟨_, fn, hfn, _⟩ := C13.accepts_unfold _ _ _ hs h
  unfold Py.dictGet? Tables.checkRegistry at hfn
  simp only [List.find?] at hfn
  by_cases h1 : alg = Tables.algMinMax
  · exact .inl h1
  · by_cases h2 : alg = Tables.algFloatCasting
    · exact .inr h2
    · exfalso
      have e1 : ("min_max_uniform_quantize" == alg) = false := by
        simp only [beq_eq_false_iff_ne, ne_eq]; exact fun hh => h1 hh.symm
      have e2 : ("float_casting" == alg) = false := by
        simp only [beq_eq_false_iff_ne, ne_eq]; exact fun hh => h2 hh.symm
      simp only [e1, e2] at hfn
      cases hfn

theorem accepts_good (alg k : String) (c : OpCfg) (hs : c.skipChecks = false) (h : Policy.accepts alg k c = true) :
    CfgGood alg k c ∧ Policy.registered alg k = true :=
  ⟨⟨fun ha => C13.accepted_minmax_legal k c hs (ha ▸ h), fun ha => C13.accepted_float_casting k c hs (ha ▸ h),
    accepts_alg alg k c hs h⟩, (C13.accepts_unfold _ _ _ hs h).1⟩

/-- **what resolution selects under a recipe without `skip_checks`**: `no_quantize`, or an algorithm
    with a registered, modelled materialize function for the operator and a config that is a legal
    runtime mode -/
theorem resolve_selected (rx : String → String → Bool) (st : Recipe.State) (hns : NoSkip st) (k scope : String)
    (hne : (Recipe.resolve rx st k scope).1 ≠ Tables.algNoQuantize) :
    CfgGood (Recipe.resolve rx st k scope).1 k (Recipe.resolve rx st k scope).2 ∧
    ∃ ops fn, Py.dictGet? Tables.registry (Recipe.resolve rx st k scope).1 = some ops ∧ Py.dictGet? ops k = some fn ∧
      (kindOf (Recipe.resolve rx st k scope).1 fn).isUnknown = false := by
  rcases resolve_cases rx st k scope with h | ⟨e, he, r, hr, h, _, hacc⟩
  · rw [h] at hne; exact absurd rfl hne
  · rw [h] at hne ⊢
    simp only [] at hne ⊢
    rcases hacc with hacc | hacc
    · exact absurd hacc hne
    · obtain ⟨hg, hreg⟩ := accepts_good r.alg k r.cfg (hns e he r hr) hacc
      exact ⟨hg, registered_fn r.alg k hreg⟩


/-! ## what the registry says about the kind of an operator's materialize function -/

def Kind.isStdNone : Kind → Bool
  | .std .none [] => true
  | _ => false

/-- facts about the function registered for operator `k` under algorithm `alg` -/
def kindSpec (alg k : String) : Kind → Bool
  | .std con _ => alg == Tables.algMinMax && (con == .none || !weightOp k)
  | .conv => alg == Tables.algMinMax && Tables.woOps.contains k
  | .convT => alg == Tables.algMinMax && Tables.woOps.contains k
  | .fixed _ => alg == Tables.algMinMax && !weightOp k
  | .cast _ _ _ => alg == Tables.algFloatCasting
  | .unknown => false

theorem registry_kindSpec :
    Tables.registry.all (fun e => e.2.all (fun p =>
      kindSpec e.1 p.1 (kindOf e.1 p.2) && ((p.1 != "INPUT" && p.1 != "OUTPUT") || (kindOf e.1 p.2).isStdNone))) = true := by
  decide +kernel

theorem kindSpec_of_registry (alg k fn : String) (ops : List (String × String))
    (hr : Py.dictGet? Tables.registry alg = some ops) (hf : Py.dictGet? ops k = some fn) :
    kindSpec alg k (kindOf alg fn) = true ∧ ((k = "INPUT" ∨ k = "OUTPUT") → (kindOf alg fn).isStdNone = true) := by
  have h1 := C13.mem_of_dictGet _ _ _ hr
  have h2 := C13.mem_of_dictGet _ _ _ hf
  have hall := registry_kindSpec
  rw [List.all_eq_true] at hall
  have := hall _ h1
  simp only [List.all_eq_true] at this
  have := this _ h2
  simp only [Bool.and_eq_true, Bool.or_eq_true, bne_iff_ne, ne_eq] at this
  refine ⟨this.1, ?_⟩
  rintro (rfl | rfl)
  · rcases this.2 with h | h
    · exact absurd rfl h.1
    · exact h
  · rcases this.2 with h | h
    · exact absurd rfl h.2
    · exact h

end MatTotal
