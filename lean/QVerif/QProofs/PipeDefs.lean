import QProofs.GenInstsOK
import QModel.Pipeline
import Mathlib.Data.List.Nodup
/-!
# Definitions shared by the proofs about `Mat.generate` (see `QProofs/PipelineWF.lean`)

* `Loc`: "`n` is the name of tensor `i` of subgraph `s`" and its uniqueness (`loc_unique`);
* `ConsShape` / `ProdShape`: the closed shape of one consumer / producer request, stated on the
  *concrete* requests (`CO2T`, parameters not yet abstracted to ids);
* `OpReqs`: what the request list of **one operator** looks like;
* `EntryOK`: the invariant of one entry of the result dictionary of `generate`.
-/
open Graph Mat Cfg Pipeline InstGen GenInstsOK

namespace Pipe

/-- does the concrete parameter object carry quantized data -/
def hasData : Param → Bool
  | .uniform _ d => d.isSome
  | .nonlinear _ d => d.isSome

theorem hasData_pinfoOf (p : Param) : (pinfoOf p).hasData = hasData p := by
  cases p <;> rfl

/-- what `Mat.standardOp` (same-as-input) does to the parameter object of the data operand before
    handing it to the results: uniform parameters lose their quantized values -/
def stripData (p : Option Param) : Option Param :=
  match p with
  | some (.uniform qp (some _)) => some (.uniform qp none)
  | x => x

/-- stripped uniform parameters carry no data -/
theorem stripData_nodata (p : Option Param) (hu : ∀ q, p = some q → ∃ qp d, q = .uniform qp d) :
    ∀ q, stripData p = some q → hasData q = false := by
  intro q hq
  cases p with
  | none => cases hq
  | some q0 =>
    obtain ⟨qp, d, rfl⟩ := hu q0 rfl
    cases d with
    | none => cases hq; rfl
    | some v => cases hq; rfl

/-- `n` is the name of tensor `i` of subgraph `sg = m.subgraphs[s]` -/
def Loc (m : Model) (n : String) (s : Nat) (sg : Subgraph) (i : Nat) : Prop :=
  m.subgraphs[s]? = some sg ∧ ∃ t, sg.tensors[i]? = some t ∧ t.name = n

/-- a (pseudo-)operator with id `o` has tensor `i` among its results: a real operator, or the
    INPUT pseudo-operator (`o = -1`, results = graph inputs) -/
def ProducedAt (sg : Subgraph) (i : Nat) (o : Int) : Prop :=
  (0 ≤ o ∧ ∃ op, sg.ops[o.toNat]? = some op ∧ (i : Int) ∈ op.outputs) ∨ (o = -1 ∧ (i : Int) ∈ sg.inputs)

/-- a (pseudo-)operator with id `o` has tensor `i` among its operands: a real operator, or the
    OUTPUT pseudo-operator (`o = -1`, operands = graph outputs) -/
def ConsumedAt (sg : Subgraph) (i : Nat) (o : Int) : Prop :=
  (0 ≤ o ∧ ∃ op, sg.ops[o.toNat]? = some op ∧ (i : Int) ∈ op.inputs) ∨ (o = -1 ∧ (i : Int) ∈ sg.outputs)

/-- closed shape of a consumer request for tensor `i` of `sg` -/
structure ConsShape (m : Model) (sg : Subgraph) (i : Nat) (c : CO2T) : Prop where
  xf : ∃ x, c.xfs = [x] ∧ x ≠ .emulated ∧ ((x = .quantTensor ∨ x = .addDequant) → isConst m sg i = true)
  data : ∀ p, c.param = some p → hasData p = true → isConst m sg i = true

/-- closed shape of a producer request for tensor `i` of `sg` -/
structure ProdShape (m : Model) (sg : Subgraph) (i : Nat) (p : CO2T) : Prop where
  xf : p.xfs = [.noQuant] ∨ p.xfs = [.addDequant]
  data : ∀ q, p.param = some q → hasData q = true → isConst m sg i = true

/-- the request list `rs` emitted for one (pseudo-)operator `op` with id `opId` of subgraph `sg`:
    every request is for an operand (consumer form) or a result (producer form) of `op`, has the
    closed shape, and two consumer requests for the same tensor are identical -/
structure OpReqs (m : Model) (sg : Subgraph) (op : Op) (opId : Int) (rs : List CReq) : Prop where
  each : ∀ r ∈ rs, ∃ (i : Nat) (t : Tensor), sg.tensors[i]? = some t ∧ r.name = t.name ∧
    ((r.producer = none ∧ ∃ c, r.consumers = some [c] ∧ c.opId = opId ∧ (i : Int) ∈ op.inputs ∧
        ConsShape m sg i c) ∨
     (r.consumers = none ∧ ∃ p, r.producer = some p ∧ p.opId = opId ∧ (i : Int) ∈ op.outputs ∧
        ProdShape m sg i p))
  coherent : ∀ r ∈ rs, ∀ r' ∈ rs, r.name = r'.name → ∀ c c', r.consumers = some [c] →
    r'.consumers = some [c'] → c.xfs = c'.xfs ∧ c.param = c'.param

/-- invariant of the entry `(n, r)` of the result dictionary.  `Wk n c` is a bookkeeping predicate
    ("consumer entry `c` of name `n` comes from an operator that has already been walked"); it is
    what makes the consumer ids of one entry pairwise different across operators. -/
structure EntryOK (m : Model) (Wk : String → CO2T → Prop) (n : String) (r : CReq) : Prop where
  name : r.name = n
  loc : ∃ s sg i, Loc m n s sg i
  prod : ∀ p, r.producer = some p → ∀ s sg i, Loc m n s sg i → ProdShape m sg i p ∧ ProducedAt sg i p.opId
  cons : ∀ cs c, r.consumers = some cs → c ∈ cs → ∀ s sg i, Loc m n s sg i →
    ConsShape m sg i c ∧ ConsumedAt sg i c.opId
  walked : ∀ cs c, r.consumers = some cs → c ∈ cs → Wk n c
  coh : ∀ cs c c', r.consumers = some cs → c ∈ cs → c' ∈ cs → c.opId = c'.opId →
    c.xfs = c'.xfs ∧ c.param = c'.param
  used : r.producer ≠ none ∨ ∃ cs c, r.consumers = some cs ∧ c ∈ cs

theorem EntryOK.mono {m : Model} {Wk Wk' : String → CO2T → Prop} {n : String} {r : CReq}
    (h : EntryOK m Wk n r) (hW : ∀ c, Wk n c → Wk' n c) : EntryOK m Wk' n r :=
  ⟨h.name, h.loc, h.prod, h.cons, fun cs c h1 h2 => hW c (h.walked cs c h1 h2), h.coh, h.used⟩

/-! ## uniqueness of locations -/

theorem Loc.name_mem {m : Model} {n : String} {s : Nat} {sg : Subgraph} {i : Nat} (h : Loc m n s sg i) :
    n ∈ sg.tensors.map (·.name) := by
  obtain ⟨_, t, ht, rfl⟩ := h
  exact List.mem_map.2 ⟨t, List.mem_of_getElem? ht, rfl⟩

theorem loc_unique (m : Model) (hnu : namesUnique m) (n : String) (s s' : Nat) (sg sg' : Subgraph) (i i' : Nat)
    (h : Loc m n s sg i) (h' : Loc m n s' sg' i') : s = s' ∧ sg = sg' ∧ i = i' := by
  unfold namesUnique at hnu
  obtain ⟨hnd, hpw⟩ := List.nodup_flatMap.1 hnu
  have hss : s = s' := by
    by_contra hne
    have hmem := h.name_mem
    have hmem' := h'.name_mem
    obtain ⟨hs, hsg⟩ := List.getElem?_eq_some_iff.1 h.1
    obtain ⟨hs', hsg'⟩ := List.getElem?_eq_some_iff.1 h'.1
    rcases Nat.lt_or_gt_of_ne hne with hlt | hlt
    · have := List.pairwise_iff_getElem.1 hpw s s' hs hs' hlt
      rw [hsg, hsg'] at this
      exact this hmem hmem'
    · have := List.pairwise_iff_getElem.1 hpw s' s hs' hs hlt
      rw [hsg, hsg'] at this
      exact this hmem' hmem
  subst hss
  have hsg : sg = sg' := by
    have := h.1; rw [h'.1] at this; cases this; rfl
  subst hsg
  refine ⟨rfl, rfl, ?_⟩
  obtain ⟨_, t, ht, htn⟩ := h
  obtain ⟨_, t', ht', htn'⟩ := h'
  have hnd' := hnd sg (List.mem_of_getElem? ‹_›)
  obtain ⟨hi, hti⟩ := List.getElem?_eq_some_iff.1 ht
  obtain ⟨hi', hti'⟩ := List.getElem?_eq_some_iff.1 ht'
  have h1 : (sg.tensors.map (·.name))[i]'(by simpa using hi) = n := by simp [hti, htn]
  have h2 : (sg.tensors.map (·.name))[i']'(by simpa using hi') = n := by simp [hti', htn']
  exact (List.Nodup.getElem_inj_iff hnd').1 (h1.trans h2.symm)

/-! ## pointwise relation of two lists (index form) -/

/-- `l1` and `l2` have the same length and are related position by position -/
def Pointwise {α β} (R : α → β → Prop) (l1 : List α) (l2 : List β) : Prop :=
  l1.length = l2.length ∧ ∀ (j : Nat) a b, l1[j]? = some a → l2[j]? = some b → R a b

end Pipe
