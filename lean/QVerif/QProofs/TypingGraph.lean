import QProofs.SharingE2E
/-!
# Graph stage of C03, end to end: every operand slot, every tensor, every inserted operator

`Wiring` carries ONE distinguished instruction through the run of `transformGraph`; here three
state invariants are carried that talk about ALL operators / tensors at once:

* `SlotInv`: the ORIGINAL operator `k` keeps its opcode index and its results, and in every operand
  slot it reads the original tensor or a NEW tensor, the latter only if `tis` contains an op-adding
  instruction on that tensor that lists `k` (`Wires`);
* `InsInv`: every inserted operator (`orig = none`) is `newOp ci t n` for an op-adding instruction
  on `t` of `tis`, `ci` resolves to QUANTIZE / DEQUANTIZE accordingly and the record of `n` is the one
  written when it was created;
* (from `SharingE2E`) `BInv.orig`: an original tensor has its original record or was written by a
  retyping instruction.

The step description `StepI` extends `SharingE2E.StepB` by the inserted operator and the opcode table.
-/
open Graph Perform GraphStep GraphFrame GraphInv Skeleton SkeletonProof StepTypes Wiring SharingE2E

namespace TypingGraph

/-! ## the operator list / opcode table after one registered transformation -/

/-- `add_op_code` returns an index of the requested builtin code and only appends -/
theorem addOpCode_get (codes : List Nat) (code : Nat) :
    (addOpCode codes code).1[(addOpCode codes code).2]? = some code ∧
    ∃ ext, (addOpCode codes code).1 = codes ++ ext := by
  unfold addOpCode
  cases h : codes.findIdx? (· == code) with
  | some i =>
    simp only []
    refine ⟨?_, [], by simp⟩
    obtain ⟨hi, hp, _⟩ := List.findIdx?_eq_some_iff_getElem.mp h
    simp at hp
    rw [List.getElem?_eq_getElem hi, hp]
  | none =>
    simp only []
    exact ⟨by simp, [code], rfl⟩

theorem mem_insertIdx_sub {α} (l : List α) (k : Nat) (a x : α) (h : x ∈ l.insertIdx k a) :
    x = a ∨ x ∈ l := by
  by_cases hk : k ≤ l.length
  · exact (List.mem_insertIdx hk).1 h
  · rw [List.insertIdx_of_length_lt (by omega)] at h
    exact .inr h

theorem runXf_ins (pt : PTable) (m m' : Model) (sgi : Nat) (sg sgA : Subgraph) (x : Xf) (inp : TIn)
    (info : TInfoOut) (hsg : m.subgraphs[sgi]? = some sg) (hinp : InpOK pt m sg inp)
    (h : runXf pt m sgi x inp = .ok (m', info)) (hA : m'.subgraphs[sgi]? = some sgA) :
    (∀ (i : Nat) (c : Nat), m.opcodes[i]? = some c → m'.opcodes[i]? = some c) ∧
    ((addsOp x = false ∧ sgA.ops = sg.ops) ∨
     (addsOp x = true ∧ ∃ ops2 k ci,
        rewire sg.ops inp.consumers inp.tensor (sg.tensors.length : Int) = .ok ops2 ∧
        sgA.ops = ops2.insertIdx k (newOp ci inp.tensor (sg.tensors.length : Int)) ∧
        m'.opcodes[ci]? = some (if x = .addQuant then Tables.opQuantize else Tables.opDequantize) ∧
        k ≤ ops2.length)) := by
  obtain ⟨p, pi, ty, hp, hpi, hty⟩ := runXf_params pt m m' sgi sg x inp info hsg h
  have hv := (validT_iff _ _).1 hinp.tvalid
  unfold runXf at h
  cases x <;> simp only at h
  · cases h
  · obtain ⟨tn, ops2, -, hrw, -, hO, -, -, -, hc, -, -, i1, i2, -⟩ :=
      insertQuant_exact pt m m' sgi sg sgA inp info p pi ty hsg hA hinp hp hpi hty h
    obtain ⟨g1, ext, g2⟩ := addOpCode_get m.opcodes Tables.opQuantize
    obtain ⟨hl2, -⟩ := rewire_exact _ _ _ _ _ hrw
    refine ⟨?_, .inr ⟨rfl, ops2, _, _, hrw, hO, ?_, by omega⟩⟩
    · intro i c hi
      rw [hc, g2, List.getElem?_append_left (List.getElem?_eq_some_iff.1 hi).1]; exact hi
    · rw [hc, if_pos rfl]; exact g1
  · obtain ⟨tn, ops2, -, hrw, -, hO, -, -, -, hc, -, -, i1, i2, -⟩ :=
      insertDequant_exact pt m m' sgi sg sgA inp info p pi ty hsg hA hinp hp hpi hty h
    obtain ⟨g1, ext, g2⟩ := addOpCode_get m.opcodes Tables.opDequantize
    obtain ⟨hl2, -⟩ := rewire_exact _ _ _ _ _ hrw
    refine ⟨?_, .inr ⟨rfl, ops2, _, _, hrw, hO, ?_, by omega⟩⟩
    · intro i c hi
      rw [hc, g2, List.getElem?_append_left (List.getElem?_eq_some_iff.1 hi).1]; exact hi
    · rw [hc, if_neg (by decide)]; exact g1
  · obtain ⟨tn, -, rfl, -, hc, -⟩ :=
      quantizeOnly_exact pt m m' sgi sg sgA inp info p pi ty hsg hA hp hpi hty hv.1 h
    exact ⟨fun i c hi => by rw [hc]; exact hi, .inl ⟨rfl, rfl⟩⟩
  · cases h

/-- the builtin code of the operator inserted by an op-adding transformation -/
def insCode (x : Xf) : Nat := if x = .addQuant then Tables.opQuantize else Tables.opDequantize

/-- one performer step with its effect on buffers, inserted operators and the opcode table -/
structure StepI (pt : PTable) (m0 : Model) (s : Nat) (ins : Inst) (st st' : PState) : Prop where
  stepB : StepB pt m0 s ins st st'
  codes : ∀ (i : Nat) (c : Nat), st.model.opcodes[i]? = some c → st'.model.opcodes[i]? = some c
  sub : ∀ sg sg', st.model.subgraphs[s]? = some sg → st'.model.subgraphs[s]? = some sg' →
    (addsOp ins.xf = false ∧ ∀ o ∈ sg'.ops, o.orig = none → o ∈ sg.ops) ∨
    (addsOp ins.xf = true ∧ ∃ ci, newOp ci ins.tensor (sg.tensors.length : Int) ∈ sg'.ops ∧
      st'.model.opcodes[ci]? = some (insCode ins.xf) ∧
      ∀ o ∈ sg'.ops, o.orig = none → o ∈ sg.ops ∨ o = newOp ci ins.tensor (sg.tensors.length : Int))
  keep : ∀ sg sg', st.model.subgraphs[s]? = some sg → st'.model.subgraphs[s]? = some sg' →
    ∀ o ∈ sg.ops, o.orig = none → o ∈ sg'.ops

theorem applySingle_stepI (pt : PTable) (m0 : Model) (st st' : PState) (ti ti' : TInsts) (idx : Nat)
    (sg0 : Subgraph) (ins : Inst) (hwf0 : WF.modelOK m0 = true)
    (hb : Base m0 st) (hsg0 : m0.subgraphs[ti.sg]? = some sg0) (hins : ti.insts[idx]? = some ins)
    (hok : InstOK pt m0 sg0 ins) (hnc : NoChain ti.insts)
    (h : applySingle pt st ti idx = .ok (st', ti')) : StepI pt m0 ti.sg ins st st' ∧ ti' = ti := by
  obtain ⟨S, e⟩ := applySingle_stepB pt m0 st st' ti ti' idx sg0 ins hwf0 hb hsg0 hins hok hnc h
  refine ⟨?_, e⟩
  have hlt : ti.sg < m0.subgraphs.length := (List.getElem?_eq_some_iff.1 hsg0).1
  obtain ⟨om, hom⟩ : ∃ om, st.origMap[ti.sg]? = some om :=
    ⟨_, List.getElem?_eq_getElem (by rw [hb.inv.nom]; exact hlt)⟩
  obtain ⟨am, ham⟩ : ∃ am, st.addedMap[ti.sg]? = some am :=
    ⟨_, List.getElem?_eq_getElem (by rw [hb.inv.nam]; exact hlt)⟩
  obtain ⟨sgc, hsgc⟩ : ∃ sgc, st.model.subgraphs[ti.sg]? = some sgc :=
    ⟨_, List.getElem?_eq_getElem (by rw [hb.inv.nsg]; exact hlt)⟩
  have I := hb.inv.sg _ _ _ _ hsg0 hsgc hom
  have K := hb.sk.sgs _ _ _ hsg0 hsgc
  have hok0 : SgOK m0 sg0 := ((modelOK_iff _).1 hwf0).2.1 sg0 (List.mem_of_getElem? hsg0)
  obtain ⟨producer, consumers, m', info, sgAfter, am', newProd, hprod, hcons, hrun, hsa, rfl, -⟩ :=
    applySingle_spec pt st st' ti ti' idx ins om am sgc hins hom ham hsgc h
  have hinp := inpOK_of_inv pt m0 sg0 st.model sgc om am ins producer consumers I hok hprod hcons
  obtain ⟨hcodes, hops⟩ := runXf_ins pt st.model m' ti.sg sgc sgAfter ins.xf _ info hsgc hinp hrun hsa
  have hnoCons : ∀ (j : Nat) (b : Op), sgc.ops[j]? = some b → b.orig = none → (j : Int) ∉ consumers :=
    fun j b hb hn hjc =>
      consumers_orig m0 sg0 st.model sgc om ins consumers I K hok0 hcons j b hjc hb hn
  refine ⟨S, hcodes, ?_, ?_⟩
  · intro sg sg' h1 h2
    rw [hsgc] at h1; cases h1
    have h2' : m'.subgraphs[ti.sg]? = some sg' := h2
    rw [hsa] at h2'; cases h2'
    rcases hops with ⟨hna, hsame⟩ | ⟨hadd, ops2, k, ci, hrw, hO, hci, hk⟩
    · exact .inl ⟨hna, fun o ho _ => by rw [hsame] at ho; exact ho⟩
    · refine .inr ⟨hadd, ci, by rw [hO]; exact (List.mem_insertIdx hk).2 (.inl rfl), hci, ?_⟩
      intro o ho hn
      rw [hO] at ho
      rcases mem_insertIdx_sub _ _ _ _ ho with rfl | ho
      · exact .inr rfl
      · left
        obtain ⟨j, hj⟩ := List.mem_iff_getElem?.1 ho
        obtain ⟨hl, hg⟩ := rewire_exact _ _ _ _ _ hrw
        have hjl : j < sgc.ops.length := by rw [← hl]; exact (List.getElem?_eq_some_iff.1 hj).1
        have hold : sgc.ops[j]? = some sgc.ops[j] := List.getElem?_eq_getElem hjl
        rw [hg j, hold] at hj
        by_cases hjc : (j : Int) ∈ consumers
        · exfalso
          rw [if_pos hjc] at hj
          simp only [Option.map_some, Option.some.injEq] at hj
          refine hnoCons j _ hold ?_ hjc
          rw [← hj] at hn
          exact hn
        · rw [if_neg hjc] at hj
          cases hj
          exact List.getElem_mem hjl
  · intro sg sg' h1 h2 o ho hn
    rw [hsgc] at h1; cases h1
    have h2' : m'.subgraphs[ti.sg]? = some sg' := h2
    rw [hsa] at h2'; cases h2'
    rcases hops with ⟨-, hsame⟩ | ⟨hadd, ops2, k, ci, hrw, hO, hci, -⟩
    · rw [hsame]; exact ho
    · obtain ⟨j, hj⟩ := List.mem_iff_getElem?.1 ho
      obtain ⟨hl, hg⟩ := rewire_exact _ _ _ _ _ hrw
      have h2j : ops2[j]? = some o := by
        rw [hg j, if_neg (hnoCons j o hj hn), hj]
      rw [hO]
      by_cases hk : k ≤ ops2.length
      · exact (List.mem_insertIdx hk).2 (.inr (List.mem_of_getElem? h2j))
      · rw [List.insertIdx_of_length_lt (by omega)]
        exact List.mem_of_getElem? h2j

/-! ## the loops, with `StepI` -/

theorem applyAll_idxI (pt : PTable) (m0 : Model) (st st' : PState) (ti : TInsts)
    (hwf0 : WF.modelOK m0 = true) (hok : TInstsOK pt m0 ti) (Q : Nat → PState → Prop)
    (hb : Base m0 st) (h0 : Q 0 st)
    (hstep : ∀ (idx : Nat) (ins : Inst) (s s' : PState), ti.insts[idx]? = some ins →
      isInsertion ins.xf = true → StepI pt m0 ti.sg ins s s' → Q idx s → Q (idx + 1) s')
    (hskip : ∀ (idx : Nat) (ins : Inst) (s : PState), ti.insts[idx]? = some ins →
      isInsertion ins.xf = false → Q idx s → Q (idx + 1) s)
    (h : applyAll pt st ti = .ok st') : Base m0 st' ∧ Q ti.insts.length st' := by
  obtain ⟨sg0, hsg0, hall⟩ := hok.insts
  unfold applyAll at h
  simp only at h
  obtain ⟨cur, hloop, h⟩ := bind_ok _ _ _ h
  have hP : (Base m0 cur.1 ∧ cur.2 = ti) ∧ Q (0 + (List.range ti.insts.length).length) cur.1 := by
    refine forIn_idx_inv _ (fun i c => (Base m0 c.1 ∧ c.2 = ti) ∧ Q i c.1) _ 0 (st, ti) cur
      ⟨⟨hb, rfl⟩, h0⟩ ?_ hloop
    rintro i idx ⟨s, t⟩ s' hi ⟨⟨hB, ht⟩, hQ⟩ hf
    simp only at hB ht hQ hf
    subst ht
    have hidx : idx = i := by
      have hil : i < t.insts.length := by
        have := (List.getElem?_eq_some_iff.1 hi).1
        simpa using this
      rw [List.getElem?_range hil] at hi
      cases hi; rfl
    subst hidx
    rw [Nat.zero_add] at hQ
    cases hins : t.insts[idx]? with
    | none =>
      exfalso
      have := (List.getElem?_eq_some_iff.1 hi).1
      simp only [List.length_range] at this
      rw [List.getElem?_eq_none_iff] at hins
      omega
    | some ins =>
      simp only [hins] at hf
      split at hf
      · rename_i hx
        obtain ⟨c, hc, hf⟩ := bind_ok _ _ _ hf
        cases hf
        obtain ⟨c1, c2⟩ := c
        have hiok := hall ins (List.mem_of_getElem? hins)
        obtain ⟨S, e⟩ := applySingle_stepI pt m0 s c1 t c2 idx sg0 ins hwf0 hB hsg0 hins hiok
          hok.noChain hc
        refine ⟨_, rfl, ⟨S.stepB.step.base', e⟩, ?_⟩
        rw [Nat.zero_add]
        exact hstep idx ins s c1 hins hx S hQ
      · rename_i hx
        cases hf
        refine ⟨_, rfl, ⟨hB, rfl⟩, ?_⟩
        rw [Nat.zero_add]
        exact hskip idx ins s hins (by simpa using hx) hQ
  split at h
  · obtain ⟨_, e, _⟩ := bind_ok _ _ _ h
    cases e
  · cases h
    refine ⟨hP.1.1, ?_⟩
    have := hP.2
    rwa [Nat.zero_add, List.length_range] at this

/-- invariant rule for the whole run (as `SharingE2E.run_rule`, with `StepI`) -/
theorem run_ruleI (pt : PTable) (m0 : Model) (tis : List TInsts) (J : PState → Prop)
    (D : TInsts → Inst → PState → Prop)
    (hwf : WF.modelOK m0 = true) (hok : ∀ ti ∈ tis, TInstsOK pt m0 ti)
    (hJ : ∀ ti ∈ tis, ∀ ins ∈ ti.insts, ∀ st st', StepI pt m0 ti.sg ins st st' → J st → J st')
    (hD : ∀ ti ∈ tis, ∀ ins ∈ ti.insts, ∀ st st', StepI pt m0 ti.sg ins st st' → J st → D ti ins st')
    (hDp : ∀ ti ∈ tis, ∀ ins ∈ ti.insts, ∀ (ti' : TInsts) (ins' : Inst) st st',
      StepI pt m0 ti.sg ins st st' → J st → D ti' ins' st → D ti' ins' st')
    (s0 st : PState) (hb0 : Base m0 s0) (h0 : J s0)
    (hfold : tis.foldlM (applyAll pt) s0 = .ok st) :
    Base m0 st ∧ J st ∧ ∀ ti ∈ tis, ∀ ins ∈ ti.insts, isInsertion ins.xf = true → D ti ins st := by
  have key := foldlM_idx_inv (applyAll pt)
    (fun i s => Base m0 s ∧ J s ∧ ∀ (k : Nat) (ti : TInsts), k < i → tis[k]? = some ti →
      ∀ ins ∈ ti.insts, isInsertion ins.xf = true → D ti ins s) tis 0 s0 st
    ⟨hb0, h0, fun k _ hk => absurd hk (by omega)⟩ ?_ hfold
  · obtain ⟨B, j, d⟩ := key
    refine ⟨B, j, fun ti hti ins hins hx => ?_⟩
    obtain ⟨k, hk⟩ := List.mem_iff_getElem?.1 hti
    exact d k ti (by have := (List.getElem?_eq_some_iff.1 hk).1; omega) hk ins hins hx
  · intro i x s s' hi ⟨hB0, hJ0, hD0⟩ hf
    rw [Nat.zero_add] at hD0
    rw [Nat.zero_add]
    have hx := List.mem_of_getElem? hi
    obtain ⟨b, q⟩ := applyAll_idxI pt m0 s s' x hwf (hok x hx)
      (fun j c => J c ∧ (∀ (k : Nat) (ti : TInsts), k < i → tis[k]? = some ti →
          ∀ ins ∈ ti.insts, isInsertion ins.xf = true → D ti ins c) ∧
        ∀ (j' : Nat) (ins : Inst), j' < j → x.insts[j']? = some ins → isInsertion ins.xf = true →
          D x ins c) hB0
      ⟨hJ0, hD0, fun j' _ hj' => absurd hj' (by omega)⟩
      (fun idx ins c c' h1 hxf S ⟨q1, q2, q3⟩ => by
        have hm := List.mem_of_getElem? h1
        refine ⟨hJ x hx ins hm c c' S q1, ?_, ?_⟩
        · intro k ti hk hti ins' hins' hx'
          exact hDp x hx ins hm ti ins' c c' S q1 (q2 k ti hk hti ins' hins' hx')
        · intro j' ins' hj' hins' hx'
          by_cases hjj : j' = idx
          · subst hjj
            rw [h1] at hins'; cases hins'
            exact hD x hx ins hm c c' S q1
          · exact hDp x hx ins hm x ins' c c' S q1 (q3 j' ins' (by omega) hins' hx'))
      (fun idx ins c h1 hxf ⟨q1, q2, q3⟩ => by
        refine ⟨q1, q2, ?_⟩
        intro j' ins' hj' hins' hx'
        by_cases hjj : j' = idx
        · subst hjj
          rw [h1] at hins'; cases hins'
          rw [hxf] at hx'; cases hx'
        · exact q3 j' ins' (by omega) hins' hx') hf
    obtain ⟨q1, q2, q3⟩ := q
    refine ⟨b, q1, ?_⟩
    intro k ti hk hti ins hins hxf
    by_cases hki : k = i
    · subst hki
      rw [hi] at hti; cases hti
      obtain ⟨j', hj'⟩ := List.mem_iff_getElem?.1 hins
      exact q3 j' ins (List.getElem?_eq_some_iff.1 hj').1 hj' hxf
    · exact q2 k ti (by omega) hti ins hins hxf

/-! ## the operand slots of the original operators -/

/-- the ORIGINAL operator `k` keeps opcode index and results; every operand slot holds the original
    tensor or a NEW tensor -/
def SlotInv (m : Model) (st : PState) : Prop :=
  ∀ (s : Nat) (sg0 sg : Subgraph) (om : List Int) (k : Nat) (a : Int) (o0 oc : Op),
    m.subgraphs[s]? = some sg0 → st.model.subgraphs[s]? = some sg → st.origMap[s]? = some om →
    om[k]? = some a → sg0.ops[k]? = some o0 → sg.ops[a.toNat]? = some oc →
    oc.code = o0.code ∧ oc.outputs = o0.outputs ∧ oc.inputs.length = o0.inputs.length ∧
    ∀ (j : Nat) (t : Int), o0.inputs[j]? = some t →
      oc.inputs[j]? = some t ∨ ∃ x, oc.inputs[j]? = some x ∧ (sg0.tensors.length : Int) ≤ x

theorem slot_init (m : Model) : SlotInv m (st0 m) := by
  intro s sg0 sg om k a o0 oc h0 h1 h2 h3 h4 h5
  have h1' : m.subgraphs[s]? = some sg := h1
  rw [h0] at h1'; cases h1'
  obtain ⟨-, rfl⟩ := st0_map m s sg0 om h0 h2 k a h3
  rw [Int.toNat_natCast, h4] at h5
  cases h5
  exact ⟨rfl, rfl, rfl, fun j t hj => .inl hj⟩

/-- what one step does to the ORIGINAL operator `k` of its subgraph: the operator before (`o`) and
    after (`oc'`) the step -/
theorem step_op {pt : PTable} {m : Model} {ti : TInsts} {ins : Inst} {st st' : PState}
    (S : Step pt m ti.sg ins st st')
    (sg0 sgN : Subgraph) (omN : List Int) (k : Nat) (a' : Int) (oc' : Op)
    (h0 : m.subgraphs[ti.sg]? = some sg0) (h1' : st'.model.subgraphs[ti.sg]? = some sgN)
    (h2' : st'.origMap[ti.sg]? = some omN) (h3' : omN[k]? = some a')
    (h5' : sgN.ops[a'.toNat]? = some oc') :
    ∃ (sg : Subgraph) (om : List Int) (a : Int) (o : Op), st.model.subgraphs[ti.sg]? = some sg ∧
      st.origMap[ti.sg]? = some om ∧ om[k]? = some a ∧ sg.ops[a.toNat]? = some o ∧
      ((addsOp ins.xf = true ∧ (k : Int) ∈ ins.consumers ∧
          oc' = rew ins.tensor (sg.tensors.length : Int) o) ∨
       (¬ (addsOp ins.xf = true ∧ (k : Int) ∈ ins.consumers) ∧ oc' = o)) := by
  obtain ⟨sg0e, sg, sg', om, om', cons, p, pi, ty, tn, nm, g0, g1, g1', g2, g2', hlen, hiok,
    e1, e2, e3, -, -, hc1, hc2, hpos⟩ := S.eff
  rw [h0] at g0; cases g0
  rw [h1'] at g1'; cases g1'
  rw [h2'] at g2'; cases g2'
  have hk : k < om.length := by rw [← hlen]; exact (List.getElem?_eq_some_iff.1 h3').1
  have hka : om[k]? = some om[k] := List.getElem?_eq_getElem hk
  obtain ⟨ha0, o, ho, horig⟩ := S.base.opAt _ sg0 sg om h0 g1 g2 k _ hka
  obtain ⟨a'', q1, q2⟩ := hpos k _ o hka ho
  rw [h3'] at q1; cases q1
  rw [h5'] at q2
  refine ⟨sg, om, om[k], o, g1, g2, hka, ho, ?_⟩
  by_cases hcond : addsOp ins.xf = true ∧ om[k] ∈ cons
  · rw [if_pos hcond] at q2
    cases q2
    left
    refine ⟨hcond.1, ?_, rfl⟩
    obtain ⟨c, hc, hc0, hca⟩ := hc1 _ hcond.2 ha0
    obtain ⟨-, o2, ho2, horig2⟩ := S.base.opAt _ sg0 sg om h0 g1 g2 c.toNat _ hca
    rw [ho] at ho2; cases ho2
    rw [horig] at horig2
    have hkc : (k : Int) = c := by cases horig2; omega
    rw [hkc]; exact hc
  · rw [if_neg hcond] at q2
    cases q2
    right
    refine ⟨?_, rfl⟩
    rintro ⟨hadd, hkc⟩
    apply hcond
    refine ⟨hadd, ?_⟩
    obtain ⟨a2, ha2, hget⟩ := hc2 (k : Int) hkc (by omega)
    rw [Int.toNat_natCast, hka] at hget
    cases hget
    exact ha2

theorem slot_step {pt : PTable} {m : Model} {ti : TInsts} {ins : Inst}
    {st st' : PState} (S : Step pt m ti.sg ins st st') (J : SlotInv m st) : SlotInv m st' := by
  intro s sg0 sgN omN k a' o0 oc' h0 h1' h2' h3' h4 h5'
  by_cases hs : s = ti.sg
  · subst hs
    obtain ⟨sg, om, a, o, g1, g2, g3, g4, hcase⟩ := step_op S sg0 sgN omN k a' oc' h0 h1' h2' h3' h5'
    obtain ⟨f1, f2, f3, f4⟩ := J _ sg0 sg om k a o0 o h0 g1 g2 g3 h4 g4
    have htl := (S.base.inv.sg _ sg0 sg om h0 g1 g2).tlen
    rcases hcase with ⟨-, -, rfl⟩ | ⟨-, rfl⟩
    · refine ⟨f1, f2, by simp [rew, f3], ?_⟩
      intro j t hj
      rcases f4 j t hj with hy | ⟨x, hx, hxl⟩
      · rw [rew_get _ _ _ _ _ hy]
        split
        · exact .inr ⟨_, rfl, by omega⟩
        · exact .inl rfl
      · rw [rew_get _ _ _ _ _ hx]
        split
        · exact .inr ⟨_, rfl, by omega⟩
        · exact .inr ⟨x, rfl, hxl⟩
    · exact ⟨f1, f2, f3, f4⟩
  · obtain ⟨e1, e2⟩ := S.others s hs
    rw [e1] at h1'; rw [e2] at h2'
    exact J s sg0 sgN omN k a' o0 oc' h0 h1' h2' h3' h4 h5'

/-- the fact established by an op-adding instruction: every listed real consumer reads, in the slots
    where the original operator read the instruction's tensor, a NEW tensor -/
def Wired (m : Model) (ti : TInsts) (ins : Inst) (st : PState) : Prop :=
  addsOp ins.xf = true → ∀ (sg0 sg : Subgraph) (om : List Int) (k : Nat) (a : Int) (o0 oc : Op),
    m.subgraphs[ti.sg]? = some sg0 → st.model.subgraphs[ti.sg]? = some sg →
    st.origMap[ti.sg]? = some om → (k : Int) ∈ ins.consumers → om[k]? = some a →
    sg0.ops[k]? = some o0 → sg.ops[a.toNat]? = some oc →
    ∀ j : Nat, o0.inputs[j]? = some ins.tensor →
      ∃ x, oc.inputs[j]? = some x ∧ (sg0.tensors.length : Int) ≤ x

theorem wired_self {pt : PTable} {m : Model} {ti : TInsts} {ins : Inst}
    {st st' : PState} (S : Step pt m ti.sg ins st st') (J : SlotInv m st) : Wired m ti ins st' := by
  intro hadd sg0 sgN omN k a' o0 oc' h0 h1' h2' hk h3' h4 h5' j hj
  obtain ⟨sg, om, a, o, g1, g2, g3, g4, hcase⟩ := step_op S sg0 sgN omN k a' oc' h0 h1' h2' h3' h5'
  obtain ⟨f1, f2, f3, f4⟩ := J _ sg0 sg om k a o0 o h0 g1 g2 g3 h4 g4
  have htl := (S.base.inv.sg _ sg0 sg om h0 g1 g2).tlen
  have hv := S.tvalid sg0 h0
  rcases hcase with ⟨-, -, rfl⟩ | ⟨hn, -⟩
  · rcases f4 j _ hj with hy | ⟨x, hx, hxl⟩
    · rw [rew_get _ _ _ _ _ hy, if_pos rfl]
      exact ⟨_, rfl, by omega⟩
    · rw [rew_get _ _ _ _ _ hx, if_neg (by omega)]
      exact ⟨x, rfl, hxl⟩
  · exact absurd ⟨hadd, hk⟩ hn

theorem wired_step {pt : PTable} {m : Model} {ti ti' : TInsts} {ins ins' : Inst}
    {st st' : PState} (S : Step pt m ti.sg ins st st')
    (W : Wired m ti' ins' st) : Wired m ti' ins' st' := by
  intro hadd sg0 sgN omN k a' o0 oc' h0 h1' h2' hk h3' h4 h5' j hj
  by_cases hs : ti'.sg = ti.sg
  · rw [hs] at h0 h1' h2'
    obtain ⟨sg, om, a, o, g1, g2, g3, g4, hcase⟩ := step_op S sg0 sgN omN k a' oc' h0 h1' h2' h3' h5'
    obtain ⟨x, hx, hxl⟩ := W hadd sg0 sg om k a o0 o (hs ▸ h0) (hs ▸ g1) (hs ▸ g2) hk g3 h4 g4 j hj
    have hv := S.tvalid sg0 h0
    rcases hcase with ⟨-, -, rfl⟩ | ⟨-, rfl⟩
    · rw [rew_get _ _ _ _ _ hx, if_neg (by omega)]
      exact ⟨x, rfl, hxl⟩
    · exact ⟨x, hx, hxl⟩
  · obtain ⟨e1, e2⟩ := S.others ti'.sg hs
    rw [e1] at h1'; rw [e2] at h2'
    exact W hadd sg0 sgN omN k a' o0 oc' h0 h1' h2' hk h3' h4 h5' j hj

/-! ## the new tensors and the inserted operators -/

/-- the record written for the tensor appended by the op-adding instruction `ins` -/
def NewRec (pt : PTable) (ins : Inst) (tn : Tensor) : Prop :=
  ∃ p pi ty nm tn0, ins.param = some p ∧ pinfo pt p = some pi ∧ dtypeOf pi = .ok ty ∧
    tn = if ins.xf = .addQuant then retype pi p ty (fresh nm tn0) else fresh nm tn0

/-- everything about the NEW tensor `n` of subgraph `s`: it was appended by ONE op-adding instruction
    `ins` of `tis`, still has the record written then, is the result of exactly one inserted operator
    `newOp ci ins.tensor n` (with `ci` resolving to QUANTIZE / DEQUANTIZE), and an ORIGINAL operator
    `k` reads it only in slots where it originally read `ins.tensor`, and only if `ins` lists `k` -/
def NewAt (pt : PTable) (tis : List TInsts) (st : PState) (s : Nat) (sg0 sg : Subgraph)
    (om : List Int) (n : Nat) : Prop :=
  ∃ ti ∈ tis, ∃ ins ∈ ti.insts, ti.sg = s ∧ addsOp ins.xf = true ∧
    (∃ tn, sg.tensors[n]? = some tn ∧ NewRec pt ins tn) ∧
    (∃ ci, newOp ci ins.tensor (n : Int) ∈ sg.ops ∧ st.model.opcodes[ci]? = some (insCode ins.xf) ∧
      ∀ o ∈ sg.ops, o.orig = none → o.outputs = [(n : Int)] → o = newOp ci ins.tensor (n : Int)) ∧
    ∀ (k : Nat) (a : Int) (o0 oc : Op), om[k]? = some a → sg0.ops[k]? = some o0 →
      sg.ops[a.toNat]? = some oc → ∀ j : Nat, oc.inputs[j]? = some (n : Int) →
        (k : Int) ∈ ins.consumers ∧ o0.inputs[j]? = some ins.tensor

def NewInv (pt : PTable) (m : Model) (tis : List TInsts) (st : PState) : Prop :=
  ∀ (s : Nat) (sg0 sg : Subgraph) (om : List Int), m.subgraphs[s]? = some sg0 →
    st.model.subgraphs[s]? = some sg → st.origMap[s]? = some om →
    ∀ n, sg0.tensors.length ≤ n → n < sg.tensors.length → NewAt pt tis st s sg0 sg om n

theorem new_init (pt : PTable) (m : Model) (tis : List TInsts) : NewInv pt m tis (st0 m) := by
  intro s sg0 sg om h0 h1 h2 n hn hn'
  have h1' : m.subgraphs[s]? = some sg := h1
  rw [h0] at h1'; cases h1'
  omega

theorem new_step {pt : PTable} {m : Model} {tis : List TInsts} {ti : TInsts} {ins : Inst}
    {st st' : PState} (hti : ti ∈ tis) (hins : ins ∈ ti.insts)
    (S : StepI pt m ti.sg ins st st') (JS : SlotInv m st) (J : NewInv pt m tis st) :
    NewInv pt m tis st' := by
  intro s sg0 sgN omN h0 h1' h2' n hn hn'
  by_cases hs : s = ti.sg
  · subst hs
    obtain ⟨sg, sg', tn0, tn, p, pi, ty, d1, d2, d3, d4, d5, d6, d7, d8, d9, d10, d11, d12, d13⟩ :=
      S.stepB.digest sg0 h0
    rw [h1'] at d2; cases d2
    obtain ⟨sgx, om, hx1, hom, hlen⟩ := S.stepB.step.base.cur _ sg0 h0
    rw [d1] at hx1; cases hx1
    have hlt0 : ins.tensor.toNat < sg0.tensors.length := (List.getElem?_eq_some_iff.1 d4).1
    have hsgOK : SgOK st.model sg :=
      ((modelOK_iff _).1 S.stepB.step.base.inv.wf).2.1 sg (List.mem_of_getElem? d1)
    -- length of the tensor list after the step
    have hlenN : sgN.tensors.length = sg.tensors.length + (if addsOp ins.xf = true then 1 else 0) := by
      obtain ⟨_, sga, sgb, _, _, _, pp, ppi, pty, ptn, pnm, g0, g1, g1', _, _, _, _, _, _, _, _, hT, _⟩ :=
        S.stepB.step.eff
      rw [d1] at g1; cases g1
      rw [h1'] at g1'; cases g1'
      rw [hT, List.length_append]
      congr 1
      · split <;> simp
      · split <;> rfl
    by_cases hold : n < sg.tensors.length
    · -- an old new tensor
      obtain ⟨ti1, hti1, ins1, hins1, e1, e2, ⟨tnn, e3, e4⟩, ⟨ci, e5, e6, e7⟩, e8⟩ :=
        J _ sg0 sg om h0 d1 hom n hn hold
      refine ⟨ti1, hti1, ins1, hins1, e1, e2, ⟨tnn, ?_, e4⟩, ⟨ci, ?_, S.codes _ _ e6, ?_⟩, ?_⟩
      · rw [d11 n tnn e3, if_neg]; omega
      · exact S.keep sg sgN d1 h1' _ e5 rfl
      · intro o ho hno hout
        rcases S.sub sg sgN d1 h1' with ⟨-, hsub⟩ | ⟨-, ci', -, -, hsub⟩
        · exact e7 o (hsub o ho hno) hno hout
        · rcases hsub o ho hno with h | rfl
          · exact e7 o h hno hout
          · simp only [newOp, List.cons.injEq, and_true] at hout
            omega
      · intro k a' o0 oc' h3' h4 h5' j hj
        obtain ⟨sgy, omy, a, o, g1, g2, g3, g4, hcase⟩ :=
          step_op S.stepB.step sg0 sgN omN k a' oc' h0 h1' h2' h3' h5'
        rw [d1] at g1; cases g1
        rw [hom] at g2; cases g2
        rcases hcase with ⟨-, -, rfl⟩ | ⟨-, he⟩
        · cases hy : o.inputs[j]? with
          | none =>
            have : (rew ins.tensor (sg.tensors.length : Int) o).inputs[j]? = none := by
              simp [rew, hy]
            rw [this] at hj; cases hj
          | some y =>
            rw [rew_get _ _ _ _ _ hy] at hj
            split at hj
            · simp only [Option.some.injEq] at hj; omega
            · simp only [Option.some.injEq] at hj
              subst hj
              exact e8 k a o0 o g3 h4 g4 j hy
        · rw [he] at hj; exact e8 k a o0 o g3 h4 g4 j hj
    · -- the tensor appended by this step
      have hadd : addsOp ins.xf = true := by
        cases hna : addsOp ins.xf with
        | true => rfl
        | false =>
          rw [hna] at hlenN
          simp only [Bool.false_eq_true, if_false] at hlenN
          omega
      rw [if_pos hadd] at hlenN
      have hnn : n = sg.tensors.length := by omega
      subst hnn
      obtain ⟨nm, tnx, hrec⟩ := newRec S.stepB.step hadd p pi ty d7 d8 d9 sg d1
      rcases S.sub sg sgN d1 h1' with ⟨hna, -⟩ | ⟨-, ci, hci1, hci2, hsub⟩
      · rw [hadd] at hna; cases hna
      refine ⟨ti, hti, ins, hins, rfl, hadd, ⟨_, hrec sgN h1', p, pi, ty, nm, tnx, d7, d8, d9, rfl⟩,
        ⟨ci, hci1, hci2, ?_⟩, ?_⟩
      · intro o ho hno hout
        rcases hsub o ho hno with h | h
        · exfalso
          have K := S.stepB.step.base.sk.sgs _ sg0 sg h0 d1
          obtain ⟨t, x, -, hox, -, -, hxl⟩ := K.ins.shape o h hno
          rw [hox] at hout
          simp only [List.cons.injEq, and_true] at hout
          omega
        · exact h
      · intro k a' o0 oc' h3' h4 h5' j hj
        obtain ⟨sgy, omy, a, o, g1, g2, g3, g4, hcase⟩ :=
          step_op S.stepB.step sg0 sgN omN k a' oc' h0 h1' h2' h3' h5'
        rw [d1] at g1; cases g1
        rw [hom] at g2; cases g2
        have hvalid : ∀ y, o.inputs[j]? = some y → y ≠ (sg.tensors.length : Int) := by
          intro y hy hye
          rcases (hsgOK.ops _ o g4).ins y (List.mem_of_getElem? hy) with h | h
          · omega
          · have := h.1.2; omega
        obtain ⟨f1, f2, f3, f4⟩ := JS _ sg0 sg om k a o0 o h0 d1 hom g3 h4 g4
        rcases hcase with ⟨-, hkc, rfl⟩ | ⟨-, he⟩
        · cases hy : o.inputs[j]? with
          | none =>
            have : (rew ins.tensor (sg.tensors.length : Int) o).inputs[j]? = none := by
              simp [rew, hy]
            rw [this] at hj; cases hj
          | some y =>
            rw [rew_get _ _ _ _ _ hy] at hj
            split at hj
            · rename_i hye
              subst hye
              refine ⟨hkc, ?_⟩
              -- the slot held the original tensor `ins.tensor`, so the original operator read it
              have hjl : j < o0.inputs.length := by
                rw [← f3]; exact (List.getElem?_eq_some_iff.1 hy).1
              rcases f4 j _ (List.getElem?_eq_getElem hjl) with h | ⟨x, hx, hxl⟩
              · rw [hy] at h
                rw [List.getElem?_eq_getElem hjl, ← Option.some.inj h]
              · rw [hy] at hx; cases hx; omega
            · simp only [Option.some.injEq] at hj
              exact absurd hj (hvalid y hy)
        · rw [he] at hj; exact absurd rfl (hvalid _ hj)
  · obtain ⟨e1, e2⟩ := S.stepB.step.others s hs
    rw [e1] at h1'; rw [e2] at h2'
    obtain ⟨ti1, hti1, ins1, hins1, a1, a2, a3, ⟨ci, a4, a5, a6⟩, a7⟩ := J s sg0 sgN omN h0 h1' h2' n hn hn'
    exact ⟨ti1, hti1, ins1, hins1, a1, a2, a3, ⟨ci, a4, S.codes _ _ a5, a6⟩, a7⟩

/-! ## the whole run -/

/-- a performed instruction carried a usable parameter -/
def HasParam (pt : PTable) (ins : Inst) : Prop :=
  ∃ p pi ty, ins.param = some p ∧ pinfo pt p = some pi ∧ dtypeOf pi = .ok ty

/-- everything known about the final performer state -/
structure Final (pt : PTable) (m : Model) (tis : List TInsts) (st : PState) : Prop where
  base : Base m st
  binv : BInv pt m tis st
  slots : SlotInv m st
  news : NewInv pt m tis st
  done : ∀ ti ∈ tis, ∀ ins ∈ ti.insts, Done pt m tis ti ins st
  wired : ∀ ti ∈ tis, ∀ ins ∈ ti.insts, Wired m ti ins st
  params : ∀ ti ∈ tis, ∀ ins ∈ ti.insts, isInsertion ins.xf = true → HasParam pt ins

theorem run_fin (pt : PTable) (m m' : Model) (tis : List TInsts)
    (hwf : WF.modelOK m = true) (htag : origTagged m = true)
    (hok : ∀ ti ∈ tis, TInstsOK pt m ti) (hcd : ConstData pt m tis)
    (h : transformGraph pt m tis = .ok m') :
    ∃ st, st.model = m' ∧ Final pt m tis st := by
  unfold transformGraph at h
  simp only at h
  obtain ⟨st, hfold, h⟩ := bind_ok _ _ _ h
  cases h
  obtain ⟨B, ⟨j1, j2, j3⟩, d⟩ := run_ruleI pt m tis
    (fun s => BInv pt m tis s ∧ SlotInv m s ∧ NewInv pt m tis s)
    (fun ti ins s => Done pt m tis ti ins s ∧ Wired m ti ins s ∧ HasParam pt ins) hwf hok
    (fun ti hti ins hins s s' S j =>
      ⟨j_step hwf hcd hti hins S.stepB j.1, slot_step S.stepB.step j.2.1,
        new_step hti hins S j.2.1 j.2.2⟩)
    (fun ti hti ins hins s s' S j => by
      refine ⟨fun hr sg0 tn0 h1 h2 => written_self hwf hcd hti hins S.stepB j.1 hr sg0 tn0 h1 h2,
        wired_self S.stepB.step j.2.1, ?_⟩
      obtain ⟨sg0, _, _, _, _, _, p, pi, ty, _, _, g0, _, _, _, _, _, _, e1, e2, e3, _⟩ := S.stepB.step.eff
      exact ⟨p, pi, ty, e1, e2, e3⟩)
    (fun ti hti ins hins ti' ins' s s' S j hd =>
      ⟨fun hr sg0 tn0 h1 h2 =>
        written_step hwf hcd hti hins S.stepB j.1 _ _ _ ⟨sg0, tn0, h1, h2, rfl⟩ (hd.1 hr sg0 tn0 h1 h2),
       wired_step S.stepB.step hd.2.1, hd.2.2⟩)
    (st0 m) st (base_init m hwf htag) ⟨j_init pt m tis, slot_init m, new_init pt m tis⟩ hfold
  exact ⟨st, rfl, B, j1, j2, j3,
    fun ti hti ins hins hr => (d ti hti ins hins (retypes_insertion _ hr)).1 hr,
    fun ti hti ins hins hadd => (d ti hti ins hins (addsOp_insertion _ hadd)).2.1 hadd,
    fun ti hti ins hins hx => (d ti hti ins hins hx).2.2⟩

/-! ## reading off the final state -/

/-- the `orig` tag identifies an operator of the current subgraph -/
theorem orig_unique (sg0 sg : Subgraph) (K : SkInv sg0 sg)
    (htag0 : ∀ (i : Nat) (o : Op), sg0.ops[i]? = some o → o.orig = some i)
    (o1 o2 : Op) (h1 : o1 ∈ sg.ops) (h2 : o2 ∈ sg.ops) (k : Nat)
    (e1 : o1.orig = some k) (e2 : o2.orig = some k) : o1 = o2 := by
  have key : ∀ o ∈ sg.ops, o.orig = some k → (sg.ops.filter (·.orig.isSome))[k]? = some o := by
    intro o ho e
    have hm : o ∈ sg.ops.filter (·.orig.isSome) := List.mem_filter.2 ⟨ho, by simp [e]⟩
    obtain ⟨i, hi⟩ := List.mem_iff_getElem?.1 hm
    have hops := K.ops
    unfold eraseOps at hops
    have := congrArg (·[i]?) hops
    simp only [List.getElem?_map, hi, Option.map_some] at this
    have ht := htag0 i _ this.symm
    simp only [e, Option.some.injEq] at ht
    subst ht
    exact hi
  have a := key o1 h1 e1
  rw [key o2 h2 e2] at a
  cases a
  rfl

/-- `tis` contains an op-adding instruction on tensor `t` of subgraph `s` that lists the ORIGINAL
    operator `k` as a consumer -/
def Wires (tis : List TInsts) (s : Nat) (t : Int) (k : Nat) : Prop :=
  ∃ ti ∈ tis, ∃ ins ∈ ti.insts, ti.sg = s ∧ ins.tensor = t ∧ addsOp ins.xf = true ∧
    (k : Int) ∈ ins.consumers

/-- the NEW tensor `x` of the output subgraph `sg'`, read by the ORIGINAL operator `k` in place of
    `t`: the op-adding instruction that created it acts on `t` and lists `k`; the record is the one
    written at creation; exactly one inserted operator `newOp ci t x` produces it, and `ci` resolves to
    QUANTIZE / DEQUANTIZE according to the kind of the instruction -/
def WiredTo (pt : PTable) (tis : List TInsts) (m' : Model) (s : Nat) (sg' : Subgraph) (t : Int) (k : Nat)
    (x : Int) : Prop :=
  ∃ (n : Nat) (ti : TInsts) (ins : Inst) (tn : Tensor) (ci : Nat), x = (n : Int) ∧ ti ∈ tis ∧
    ins ∈ ti.insts ∧ ti.sg = s ∧ ins.tensor = t ∧ addsOp ins.xf = true ∧ (k : Int) ∈ ins.consumers ∧
    sg'.tensors[n]? = some tn ∧ NewRec pt ins tn ∧ newOp ci t x ∈ sg'.ops ∧
    m'.opcodes[ci]? = some (insCode ins.xf) ∧
    (∀ o ∈ sg'.ops, o.orig = none → o.outputs = [x] → o = newOp ci t x) ∧ root sg' x = t

/-- **the ORIGINAL operator `k` in the output**: it is the only operator tagged `k`, keeps its opcode
    index and results, `root` maps its operands back; an operand slot whose tensor `t` has an op-adding
    instruction listing `k` holds a NEW tensor `WiredTo` it, every other slot holds `t` itself -/
theorem orig_op_final (pt : PTable) (m : Model) (tis : List TInsts) (st : PState) (F : Final pt m tis st)
    (htag : origTagged m = true) (s : Nat) (sg sg' : Subgraph)
    (hsg : m.subgraphs[s]? = some sg) (hsg' : st.model.subgraphs[s]? = some sg')
    (k : Nat) (o : Op) (ho : sg.ops[k]? = some o) :
    ∃ o', o' ∈ sg'.ops ∧ o'.orig = some k ∧ (∀ o'' ∈ sg'.ops, o''.orig = some k → o'' = o') ∧
      o'.code = o.code ∧ o'.outputs = o.outputs ∧ o'.inputs.length = o.inputs.length ∧
      o'.inputs.map (root sg') = o.inputs ∧
      ∀ (j : Nat) (t : Int), o.inputs[j]? = some t →
        (¬ Wires tis s t k → o'.inputs[j]? = some t) ∧
        (Wires tis s t k → ∃ x, o'.inputs[j]? = some x ∧ (sg.tensors.length : Int) ≤ x ∧
          WiredTo pt tis st.model s sg' t k x) := by
  obtain ⟨om, a, o', g2, g3, g4, g5, g6⟩ := final_op m st F.base htag s sg sg' hsg hsg' k o ho
  obtain ⟨f1, f2, f3, f4⟩ := F.slots s sg sg' om k a o o' hsg hsg' g2 g3 ho g4
  have K := F.base.sk.sgs s sg sg' hsg hsg'
  have hsgOK : SgOK st.model sg' :=
    ((modelOK_iff _).1 F.base.inv.wf).2.1 sg' (List.mem_of_getElem? hsg')
  -- a slot that holds a new tensor
  have hnew : ∀ (j : Nat) (t x : Int), o.inputs[j]? = some t → o'.inputs[j]? = some x →
      (sg.tensors.length : Int) ≤ x → WiredTo pt tis st.model s sg' t k x := by
    intro j t x hj hx hxl
    have hxv : x < sg'.tensors.length := by
      rcases (hsgOK.ops _ o' g4).ins x (List.mem_of_getElem? hx) with h | h
      · omega
      · exact h.1.2
    have hxn : ((x.toNat : Nat) : Int) = x := by omega
    obtain ⟨ti, hti, ins, hins, e1, e2, ⟨tn, e3, e4⟩, ⟨ci, e5, e6, e7⟩, e8⟩ :=
      F.news s sg sg' om hsg hsg' g2 x.toNat (by omega) (by omega)
    rw [hxn] at e5 e7 e8
    obtain ⟨u1, u2⟩ := e8 k a o o' g3 ho g4 j hx
    rw [hj] at u2
    have ht : t = ins.tensor := Option.some.inj u2
    refine ⟨x.toNat, ti, ins, tn, ci, hxn.symm, hti, hins, e1, ht.symm, e2, u1, e3, e4, by rw [ht]; exact e5,
      e6, by rw [ht]; exact e7, ?_⟩
    rw [ht]
    exact root_derived sg.tensors.length sg' K.ins _ ins.tensor x e5 rfl rfl rfl
  refine ⟨o', List.mem_of_getElem? g4, g5, ?_, f1, f2, f3, g6, ?_⟩
  · intro o'' ho'' e
    exact orig_unique sg sg' K (fun i x hx => origTagged_get m htag s sg hsg i x hx) o'' o' ho''
      (List.mem_of_getElem? g4) k e g5
  · intro j t hj
    refine ⟨fun hnw => ?_, ?_⟩
    · rcases f4 j t hj with h | ⟨x, hx, hxl⟩
      · exact h
      · obtain ⟨n, ti, ins, tn, ci, -, w1, w2, w3, w4, w5, w6, -⟩ := hnew j t x hj hx hxl
        exact absurd ⟨ti, w1, ins, w2, w3, w4, w5, w6⟩ hnw
    · rintro ⟨ti, hti, ins, hins, rfl, rfl, hadd, hk⟩
      obtain ⟨x, hx, hxl⟩ := F.wired ti hti ins hins hadd sg sg' om k a o o' hsg hsg' g2 hk g3 ho g4 j hj
      exact ⟨x, hx, hxl, hnew j _ x hj hx hxl⟩

/-- **an ORIGINAL tensor in the output**: same name, shape, buffer index; its record is the original
    one, or it was written by a retyping instruction of `tis` (and it WAS written if there is one) -/
theorem tensor_final (pt : PTable) (m : Model) (tis : List TInsts) (st : PState) (F : Final pt m tis st)
    (s : Nat) (sg sg' : Subgraph) (hsg : m.subgraphs[s]? = some sg)
    (hsg' : st.model.subgraphs[s]? = some sg') (i : Nat) (tn0 : Tensor) (ht : sg.tensors[i]? = some tn0) :
    ∃ tn', sg'.tensors[i]? = some tn' ∧ tn'.name = tn0.name ∧ tn'.shape = tn0.shape ∧
      tn'.buffer = tn0.buffer ∧
      (tn' = tn0 ∨ ∃ p, Retyped tis s i p ∧ TypedBy pt p tn') ∧
      ((∃ p, Retyped tis s i p) → ∃ p, Retyped tis s i p ∧ TypedBy pt p tn') := by
  obtain ⟨sgx, tn', o1, o2, o3, o4⟩ := F.binv.orig s sg i tn0 hsg ht
  rw [hsg'] at o1; cases o1
  have K := F.base.sk.sgs s sg sg' hsg hsg'
  have hlt : i < sg.tensors.length := (List.getElem?_eq_some_iff.1 ht).1
  have hfr := K.tframe
  rw [tensorFrame_eq, tensorFrame_eq] at hfr
  have hfr' := congrArg (·[i]?) hfr
  simp only [List.getElem?_take, hlt, if_true, List.getElem?_map, o2, ht, Option.map_some,
    Option.some.injEq, ns, Prod.mk.injEq] at hfr'
  refine ⟨tn', o2, hfr'.1, hfr'.2, o3, ?_, ?_⟩
  · rcases o4 with o4 | ⟨sgw, tnw, p, w1, w2, w3, w4, -⟩
    · exact .inl o4
    · rw [hsg'] at w1; cases w1
      rw [o2] at w2; cases w2
      exact .inr ⟨p, w3, w4⟩
  · rintro ⟨p, ti, hti, ins, hins, rfl, e2, hr, e4⟩
    have e5 : ins.tensor.toNat = i := by omega
    obtain ⟨sgw, tnw, p', w1, w2, w3, w4, -⟩ :=
      F.done ti hti ins hins hr sg tn0 hsg (by rw [e5]; exact ht)
    rw [hsg'] at w1; cases w1
    rw [e5] at w2 w3
    rw [o2] at w2; cases w2
    exact ⟨p', w3, w4⟩

/-- **an inserted operator of the output**: it is `newOp ci t n` for an op-adding instruction on the
    ORIGINAL tensor `t`; `n` is a NEW tensor with the record written at creation; `ci` resolves to
    QUANTIZE / DEQUANTIZE according to the kind of the instruction -/
theorem inserted_final (pt : PTable) (m : Model) (tis : List TInsts) (st : PState) (F : Final pt m tis st)
    (s : Nat) (sg sg' : Subgraph) (hsg : m.subgraphs[s]? = some sg)
    (hsg' : st.model.subgraphs[s]? = some sg') (o : Op) (ho : o ∈ sg'.ops) (hn : o.orig = none) :
    ∃ (ci : Nat) (n : Nat) (ti : TInsts) (ins : Inst) (tn : Tensor), o = newOp ci ins.tensor (n : Int) ∧
      sg.tensors.length ≤ n ∧ ti ∈ tis ∧ ins ∈ ti.insts ∧ ti.sg = s ∧ addsOp ins.xf = true ∧
      st.model.opcodes[ci]? = some (insCode ins.xf) ∧ sg'.tensors[n]? = some tn ∧ NewRec pt ins tn := by
  have K := F.base.sk.sgs s sg sg' hsg hsg'
  obtain ⟨sgx, om, h1, h2, -⟩ := F.base.cur s sg hsg
  rw [hsg'] at h1; cases h1
  obtain ⟨t, x, hin, hout, htl, hxl, hxu⟩ := K.ins.shape o ho hn
  have hxn : ((x.toNat : Nat) : Int) = x := by omega
  obtain ⟨ti, hti, ins, hins, e1, e2, ⟨tn, e3, e4⟩, ⟨ci, e5, e6, e7⟩, -⟩ :=
    F.news s sg sg' om hsg hsg' h2 x.toNat (by omega) (by omega)
  have := e7 o ho hn (by rw [hout, hxn])
  exact ⟨ci, x.toNat, ti, ins, tn, this, by omega, hti, hins, e1, e2, e6, e3, e4⟩

end TypingGraph
