import QProofs.GraphStep
/-!
# Frame facts of one graph transformation, and the op-id map update

`GraphStep` proves that one transformation preserves `WF.modelOK`.  To iterate it the performer
proof also needs to know *what else* a transformation leaves alone (`Frame`): the other subgraphs,
the signatures, the data/no-data pattern of the buffers, graph inputs, the existing tensors'
buffer indices, and -- up to the position shift caused by the inserted operator -- the `outputs`
of every existing operator (`OpsShift`).
-/
open Graph Perform GraphStep

namespace GraphFrame

/-! ## generic facts on `Except` loops -/

theorem mapM_ok {α β} (f : α → PyM β) : ∀ (l : List α) (r : List β), l.mapM f = .ok r →
    ∀ y ∈ r, ∃ x ∈ l, f x = .ok y := by
  intro l
  induction l with
  | nil =>
    intro r h y hy
    simp only [List.mapM_nil, pure, Except.pure, Except.ok.injEq] at h
    subst h; simp at hy
  | cons a as ih =>
    intro r h y hy
    simp only [List.mapM_cons, bind, Except.bind, pure, Except.pure] at h
    cases ha : f a with
    | error e => simp [ha] at h
    | ok b =>
      simp only [ha] at h
      cases has : as.mapM f with
      | error e => simp [has] at h
      | ok bs =>
        simp only [has, Except.ok.injEq] at h
        subst h
        rcases List.mem_cons.1 hy with rfl | hy
        · exact ⟨a, List.mem_cons_self, ha⟩
        · obtain ⟨x, hx, hfx⟩ := ih bs has y hy
          exact ⟨x, List.mem_cons_of_mem _ hx, hfx⟩

/-- invariant rule for a `for` loop in the `Except` monad -/
theorem forIn_inv {α β} (f : α → β → PyM (ForInStep β)) (P : β → Prop) :
    ∀ (l : List α) (init r : β), P init →
      (∀ x ∈ l, ∀ s s', P s → f x s = .ok s' → P (match s' with | .done b => b | .yield b => b)) →
      forIn l init f = .ok r → P r := by
  intro l
  induction l with
  | nil =>
    intro init r hP _ h
    simp only [List.forIn_nil, pure, Except.pure, Except.ok.injEq] at h
    subst h; exact hP
  | cons a as ih =>
    intro init r hP hstep h
    simp only [List.forIn_cons, bind, Except.bind] at h
    cases hf : f a init with
    | error e => simp [hf] at h
    | ok s' =>
      have hs := hstep a List.mem_cons_self init s' hP hf
      simp only [hf] at h
      cases s' with
      | done b =>
        simp only [pure, Except.pure, Except.ok.injEq] at h
        subst h; exact hs
      | yield b =>
        exact ih b r hs (fun x hx => hstep x (List.mem_cons_of_mem _ hx)) h

/-- invariant rule for `foldlM` in the `Except` monad -/
theorem foldlM_inv {α β} (f : β → α → PyM β) (P : β → Prop) :
    ∀ (l : List α) (init r : β), P init →
      (∀ x ∈ l, ∀ s s', P s → f s x = .ok s' → P s') →
      l.foldlM f init = .ok r → P r := by
  intro l
  induction l with
  | nil =>
    intro init r hP _ h
    simp only [List.foldlM_nil, pure, Except.pure, Except.ok.injEq] at h
    subst h; exact hP
  | cons a as ih =>
    intro init r hP hstep h
    simp only [List.foldlM_cons, bind, Except.bind] at h
    cases hf : f init a with
    | error e => simp [hf] at h
    | ok s' =>
      simp only [hf] at h
      exact ih s' r (hstep a List.mem_cons_self init s' hP hf)
        (fun x hx => hstep x (List.mem_cons_of_mem _ hx)) h

/-! ## the op-id map update -/

/-- the map update computed at the end of `applySingle` -/
def shiftMap (om : List Int) (opId : Int) (added : Nat) : List Int :=
  let first := (om.findIdx? (fun cur => decide (cur ≥ opId))).getD om.length
  om.zipIdx.map fun (p : Int × Nat) => if p.2 ≥ first then p.1 + (added : Int) else p.1

/-- strictly increasing -/
def Mono (om : List Int) : Prop :=
  ∀ (i j : Nat) (a b : Int), i < j → om[i]? = some a → om[j]? = some b → a < b

theorem shiftMap_length (om : List Int) (opId : Int) (added : Nat) :
    (shiftMap om opId added).length = om.length := by
  simp [shiftMap]

/-- because the map is increasing, "index at or after the first entry `≥ opId`" is the same as
    "entry `≥ opId`" -/
theorem shiftMap_get (om : List Int) (opId : Int) (added : Nat) (hm : Mono om) (j : Nat) (a : Int)
    (h : om[j]? = some a) :
    (shiftMap om opId added)[j]? = some (if a ≥ opId then a + (added : Int) else a) := by
  have hjl : j < om.length := (List.getElem?_eq_some_iff.1 h).1
  unfold shiftMap
  simp only [List.getElem?_map, List.getElem?_zipIdx, h, Option.map_some, Nat.zero_add]
  congr 1
  cases hf : om.findIdx? (fun cur => decide (cur ≥ opId)) with
  | none =>
    have hall := List.findIdx?_eq_none_iff.1 hf a (List.mem_of_getElem? h)
    simp only [decide_eq_false_iff_not] at hall
    simp only [Option.getD_none]
    rw [if_neg (by omega), if_neg hall]
  | some i =>
    obtain ⟨hi, hp, hlt⟩ := List.findIdx?_eq_some_iff_getElem.1 hf
    simp only [decide_eq_true_eq] at hp
    simp only [Option.getD_some]
    by_cases hji : j ≥ i
    · rw [if_pos hji]
      have : a ≥ opId := by
        by_cases heq : i = j
        · subst heq
          have : om[i]? = some om[i] := List.getElem?_eq_getElem hi
          rw [h] at this; cases this; exact hp
        · have := hm i j om[i] a (by omega) (List.getElem?_eq_getElem hi) h
          omega
      rw [if_pos this]
    · rw [if_neg hji]
      have := hlt j (by omega)
      simp only [decide_eq_true_eq] at this
      have hja : om[j] = a := by
        have : om[j]? = some om[j] := List.getElem?_eq_getElem hjl
        rw [h] at this; cases this; rfl
      rw [hja] at this
      rw [if_neg this]

/-! ## frame of one transformation -/

/-- how the operator list changes: nothing is inserted and the list is unchanged, or one operator
    is inserted at position `info.opId` and every old operator keeps its `outputs` -/
def OpsShift (ops ops' : List Op) (info : TInfoOut) : Prop :=
  (info.added = 0 ∧ ops' = ops) ∨
  (info.added = 1 ∧ 0 ≤ info.opId ∧ ops'.length = ops.length + 1 ∧
    ∀ (j : Nat) o, ops[j]? = some o →
      ∃ o', ops'[if (j : Int) < info.opId then j else j + 1]? = some o' ∧ o'.outputs = o.outputs)

structure Frame (m m' : Model) (sgi : Nat) (sg sg' : Subgraph) (info : TInfoOut) : Prop where
  subs : m'.subgraphs = m.subgraphs.set sgi sg'
  sigs : m'.sigs = m.sigs
  cst : ∀ i, constAt m'.buffers i = constAt m.buffers i
  inputs : sg'.inputs = sg.inputs
  tlen : sg.tensors.length ≤ sg'.tensors.length
  tbuf : ∀ i, i < sg.tensors.length → (sg'.tensors[i]?).map (·.buffer) = (sg.tensors[i]?).map (·.buffer)
  ops : OpsShift sg.ops sg'.ops info

theorem wireNewOp_info (sg2 sg3 : Subgraph) (inp : TIn) (newT : Int) (op : Op) (info : TInfoOut)
    (h : wireNewOp sg2 inp newT op = .ok (sg3, info)) :
    ∃ first, minCons inp.consumers = .ok first ∧
      info.opId = max (inp.producer + 1) first ∧ info.added = 1 := by
  unfold wireNewOp at h
  simp only [bind, Except.bind, pure, Except.pure] at h
  cases hm : minCons inp.consumers with
  | error e => simp [hm] at h
  | ok first =>
    simp only [hm] at h
    cases hr : rewire sg2.ops inp.consumers inp.tensor newT with
    | error e => simp [hr] at h
    | ok ops2 =>
      simp only [hr, Except.ok.injEq, Prod.mk.injEq] at h
      obtain ⟨-, rfl⟩ := h
      exact ⟨first, rfl, rfl, rfl⟩

theorem insert_frame (pt : PTable) (m : Model) (sg : Subgraph) (inp : TIn)
    (hinp : InpOK pt m sg inp) (nm : String) (shape : List Int) (qt : Int) (op : Op)
    (bufs : List BufContent) (sg2 sg3 : Subgraph) (info : TInfoOut)
    (hqt : qt = inp.tensor ∨ qt = (sg.tensors.length : Int))
    (hq : quantizeTensor pt m.buffers
      { sg with tensors := sg.tensors ++
          [{ name := nm, dtype := Tables.ttFloat32, shape := shape, buffer := 0 }] } qt inp.param
        = .ok (bufs, sg2))
    (hw : wireNewOp sg2 inp (sg.tensors.length : Int) op = .ok (sg3, info)) :
    sg3.inputs = sg.inputs ∧ sg.tensors.length ≤ sg3.tensors.length ∧
    (∀ i, constAt bufs i = constAt m.buffers i) ∧
    (∀ i, i < sg.tensors.length → (sg3.tensors[i]?).map (·.buffer) = (sg.tensors[i]?).map (·.buffer)) ∧
    OpsShift sg.ops sg3.ops info := by
  have hv := (validT_iff _ _).1 hinp.tvalid
  have hv' := hv
  unfold ValidT at hv'
  obtain ⟨h1, h2, h3, h4, h5, h6, h7, h8⟩ := quantizeTensor_ok pt m bufs _ sg2 qt inp.param
    (by omega) (by
      intro p pi e1 e2 e3 tq hget hne
      rcases hqt with rfl | rfl
      · rw [List.getElem?_append_left (by omega)] at hget
        exact hinp.dataConst_get hv.1 p pi e1 e2 e3 tq hget hne
      · simp at hget
        subst hget
        simp at hne) hq
  simp only [List.map_append, List.map_cons, List.map_nil] at h1 h2 h3 h4 h5
  have hlen : sg2.tensors.length = sg.tensors.length + 1 := by
    have := congrArg List.length h1; simpa using this
  obtain ⟨first, ops2, hmin, hrw, hT, hI, hO, -⟩ := wireNewOp_spec _ _ _ _ _ _ hw
  obtain ⟨first', hmin', hid, hadd⟩ := wireNewOp_info _ _ _ _ _ _ hw
  rw [hmin] at hmin'; cases hmin'
  rw [h3] at hrw
  obtain ⟨hfm, hfle⟩ := minCons_spec _ _ hmin
  obtain ⟨hl2, -⟩ := rewire_spec _ _ _ _ _ hrw
  have hpr := hinp.prodRange
  have hklen : (max (inp.producer + 1) first).toNat ≤ sg.ops.length := by
    have := hinp.consAfter first hfm; omega
  rw [pyInsert_eq _ _ _ (by omega) (by omega)] at hO
  refine ⟨by rw [hI, h4], by rw [hT, hlen]; omega, h8, ?_, .inr ⟨hadd, by rw [hid]; omega, ?_, ?_⟩⟩
  · intro i hi
    rw [hT, ← List.getElem?_map, h2, List.getElem?_append_left (by simpa using hi), List.getElem?_map]
  · rw [hO, List.length_insertIdx_of_le_length (by omega)]; omega
  · intro j o hj
    obtain ⟨o2, g1, g2⟩ := rewire_get' _ _ _ _ _ hrw j o hj
    refine ⟨o2, ?_, g2⟩
    rw [hO, hid]
    by_cases hlt : (j : Int) < max (inp.producer + 1) first
    · rw [if_pos hlt, List.getElem?_insertIdx_of_lt (by omega)]; exact g1
    · rw [if_neg hlt, List.getElem?_insertIdx_of_gt (by omega)]; exact g1

theorem quantizeOnly_frame (pt : PTable) (m m' : Model) (sgi : Nat) (sg : Subgraph) (inp : TIn)
    (info : TInfoOut) (hsg : m.subgraphs[sgi]? = some sg) (hinp : InpOK pt m sg inp)
    (h : quantizeOnly pt m sgi inp = .ok (m', info)) : ∃ sg', Frame m m' sgi sg sg' info := by
  unfold quantizeOnly at h
  simp only [hsg, bind, Except.bind, pure, Except.pure] at h
  cases hq : quantizeTensor pt m.buffers sg inp.tensor inp.param with
  | error e => simp [hq] at h
  | ok r =>
    obtain ⟨bufs', sg'⟩ := r
    simp only [hq, Except.ok.injEq, Prod.mk.injEq] at h
    obtain ⟨rfl, rfl⟩ := h
    have hv := (validT_iff _ _).1 hinp.tvalid
    obtain ⟨h1, h2, h3, h4, h5, h6, h7, h8⟩ :=
      quantizeTensor_ok pt m bufs' sg sg' inp.tensor inp.param hv.1 (hinp.dataConst_get hv.1) hq
    refine ⟨sg', rfl, rfl, h8, h4, ?_, ?_, .inl ⟨rfl, h3⟩⟩
    · have := congrArg List.length h1; simp at this; omega
    · intro i _
      rw [← List.getElem?_map, ← List.getElem?_map, h2]

theorem insertQuant_frame (pt : PTable) (m m' : Model) (sgi : Nat) (sg : Subgraph) (inp : TIn)
    (info : TInfoOut) (hsg : m.subgraphs[sgi]? = some sg) (hinp : InpOK pt m sg inp)
    (h : insertQuant pt m sgi inp = .ok (m', info)) : ∃ sg', Frame m m' sgi sg sg' info := by
  unfold insertQuant at h
  simp only [hsg, bind, Except.bind, pure, Except.pure] at h
  cases hg : getTensor sg inp.tensor with
  | error e => simp [hg] at h
  | ok tn =>
    simp only [hg] at h
    split at h
    · simp at h
    · rename_i r hq
      obtain ⟨bufs, sg2⟩ := r
      split at h
      · simp at h
      · rename_i r' hw
        obtain ⟨sg3, info'⟩ := r'
        simp only [Except.ok.injEq, Prod.mk.injEq] at h
        obtain ⟨rfl, rfl⟩ := h
        obtain ⟨f1, f2, f3, f4, f5⟩ :=
          insert_frame pt m sg inp hinp _ _ _ _ bufs sg2 sg3 info' (.inr rfl) hq hw
        exact ⟨sg3, rfl, rfl, f3, f1, f2, f4, f5⟩

theorem insertDequant_frame (pt : PTable) (m m' : Model) (sgi : Nat) (sg : Subgraph) (inp : TIn)
    (info : TInfoOut) (hsg : m.subgraphs[sgi]? = some sg) (hinp : InpOK pt m sg inp)
    (h : insertDequant pt m sgi inp = .ok (m', info)) : ∃ sg', Frame m m' sgi sg sg' info := by
  unfold insertDequant at h
  simp only [hsg, bind, Except.bind, pure, Except.pure] at h
  cases hg : getTensor sg inp.tensor with
  | error e => simp [hg] at h
  | ok tn =>
    simp only [hg] at h
    split at h
    · simp at h
    · rename_i r hq
      obtain ⟨bufs, sg2⟩ := r
      split at h
      · simp at h
      · rename_i r' hw
        obtain ⟨sg3, info'⟩ := r'
        simp only [Except.ok.injEq, Prod.mk.injEq] at h
        obtain ⟨rfl, rfl⟩ := h
        obtain ⟨f1, f2, f3, f4, f5⟩ :=
          insert_frame pt m sg inp hinp _ _ _ _ bufs sg2 sg3 info' (.inl rfl) hq hw
        exact ⟨sg3, rfl, rfl, f3, f1, f2, f4, f5⟩

end GraphFrame
