import QProofs.GenInstsOK
import QProofs.SkeletonProof
import QModel.Pipeline
import QProofs.PipeGen
/-!
# End to end: `quantizePure` returns a well-formed graph with the input's skeleton, or raises (C01/C02)

`generate_reqOK`, `quantizePure_wf`, `quantizePure_skeleton`, proved without `sorry`, extra axioms or
`native_decide`.

Structure of the proof of `generate_reqOK` (helper files `QProofs/Pipe*.lean`):
* `PipeGenEq`: `Mat.generate` as a nested `foldlM` (`generate_ok`);
* `PipeWrapper`, `PipeStdShape`, `PipeOps`, `PipeMat`: the request list of **one operator** has the closed
  shape `Pipe.OpReqs` (every request is for an operand / a result of the operator, carries its id,
  has one of the closed transformation shapes, data only on constants, and two operand requests for
  the same tensor are identical) -- for `noQuantOp`, `standardOp` (via the positional description
  `standardOp_shape` of `splitTensors`/`mergeReqs`), `fixedRangeOp`, `biasFor`, `floatCastOp` and the
  dispatch `materializeOp`;
* `PipeUpdate`: `updateResults` preserves the dictionary invariant `Pipe.EntryOK`;
* `PipeGen`: the invariant along both loops (`generate_entryOK`);
* `PipeAbs`, `PipeNameMap`: `absReqs` replaces every parameter by the index of the first
  `Param.eqv`-equal entry of the final table; `nameMap` under unique names; transfer
  `EntryOK → GenInstsOK.ReqOK` (`reqOK_of_entryOK`).
The slot tables `indexSlots`, `biasSlot`, `dataSlot`, `slotRole`, `OpNamed` used in
`NF` are defined (and documented) in `QProofs/PipeNF.lean`.
-/
open Graph Mat Cfg Pipeline PipeNF

namespace PipelineWF

/-- side conditions on the input ("converter normal form" as far as the graph stage needs it).
    Besides well-formedness and the `orig` tags these are the facts about the input model / recipe
    that the materialisation needs in order to emit requests of the closed shape
    `GenInstsOK.ReqOK`.  Every field is a property of real converter-produced float models and of
    API-accepted recipes; `OpNamed m op k` says that operator `op` has the quantizer's name `k`, and
    `slotRole k i ∈ {0 = regular, 1 = index/shape/axis operand, 2 = bias}` is the role the
    registered materialisation of `k` gives to operand position `i` (tables in `QProofs/PipeNF.lean`,
    restating the position lists hard-coded in `Mat.materializeOp`).

    No hypothesis on the data operand of the pass-through operators (RESHAPE, TRANSPOSE,
    AVERAGE_POOL_2D, STRIDED_SLICE, SPLIT; same-as-input constraint) is needed: `Mat.standardOp`
    hands the operand's parameters to the results *without* its quantized values
    (`Pipe.stripData`, `Pipe.stripData_nodata`), so `ReqOK.dataConst` holds for the results even
    when the data operand is a constant. -/
structure NF (env : Env) (st : Recipe.State) : Prop where
  wf : WF.modelOK env.model = true
  tagged : Skeleton.origTagged env.model = true
  /-- needed for `ReqOK.consShape` / `prodShape` (no `.emulated`): op replacement is outside the model -/
  noBlockwise : ∀ e ∈ st, ∀ r ∈ e.2, ∀ w, r.cfg.weight = some w → w.gran ≠ Gran.blockwise
  /-- **graph inputs are not constants** (they have no buffer data).  Needed for `ReqOK.prodCons`:
      the INPUT pseudo-operator emits a *producer* request for every graph input (`[addDequant]`
      under static-range quantization), while the consumers of a constant get `[quantTensor]`;
      `WF.modelOK` only excludes constants among the results of real operators. -/
  inputsNotConst : ∀ sg ∈ env.model.subgraphs, ∀ t ∈ sg.inputs, isConst env.model sg t = false
  /-- **slot roles**: an operator does not use one tensor in two operand positions that its
      materialisation treats differently by position (index/shape/axis operand vs. bias vs. regular
      operand; e.g. the bias of a convolution is not also its input, a RESHAPE's shape operand is
      not also its data operand).  Needed for `ReqOK.consSameOp`: the two requests of operator `op`
      for that tensor would differ (`noQuantReq` for the index slot, the `biasFor` request for the
      bias slot, `wrapper` for a regular slot), and `biasFor` overwrites the request *at the bias
      position*, which must not be the only request of another operand. -/
  slotRoles : ∀ sg ∈ env.model.subgraphs, ∀ op ∈ sg.ops, ∀ k, OpNamed env.model op k →
    ∀ (i j : Nat) a, op.inputs[i]? = some a → op.inputs[j]? = some a → a ≠ -1 → slotRole k i = slotRole k j
  /-- **a constant weight is not also the data operand** of a convolution-like operator
      (FULLY_CONNECTED, CONV_2D, DEPTHWISE_CONV_2D, CONV_2D_TRANSPOSE, EMBEDDING_LOOKUP: weight at
      position 1, data at `dataSlot k`).  Needed for `ReqOK.consSameOp` under float casting
      (`floatCastOp`: `[noQuant]` for the data operand, `[addDequant]` + fp16 data for the weight). -/
  constWeight : ∀ sg ∈ env.model.subgraphs, ∀ op ∈ sg.ops, ∀ k, OpNamed env.model op k →
    ∀ b a, biasSlot k = some b → op.inputs[1]? = some a → op.inputs[dataSlot k]? = some a → a ≠ -1 →
      isConst env.model sg a = false
  /-- **mandatory operands are present**: a convolution-like operator has no `-1` (absent optional
      tensor) before its bias position, and its first result is not `-1`.  Needed for
      `ReqOK.known`/`consReal`/`consSameOp`: `floatCastOp` reads these slots with Python indexing
      (`tensors[-1]` is the *last* tensor of the subgraph, which the operator does not use), and
      `biasFor` addresses the request list -- which skips `-1` slots -- by the raw bias position. -/
  mandatory : ∀ sg ∈ env.model.subgraphs, ∀ op ∈ sg.ops, ∀ k, OpNamed env.model op k →
    ∀ b, biasSlot k = some b → (∀ i < b, op.inputs[i]? ≠ some (-1)) ∧ op.outputs[0]? ≠ some (-1)

theorem NF.genHyp {env : Env} {st : Recipe.State} (h : NF env st) : Pipe.GenHyp env st :=
  ⟨h.wf, h.noBlockwise, h.inputsNotConst, h.slotRoles, h.constWeight, h.mandatory⟩

/-- a successful run of `generate` implies that all tensor names of the model are distinct -/
theorem generate_names (rx : String → String → Bool) (env : Env) (st : Recipe.State) (qsvs : Option Qsvs)
    (reqs : List CReq) (h : Mat.generate rx env st qsvs = .ok reqs) : GenInstsOK.namesUnique env.model :=
  (Pipe.generate_ok rx env st qsvs reqs h).1

/-- the requests produced by the materialisation, abstracted to parameter ids, have the closed
    shape required by the graph stage -/
theorem generate_reqOK (rx : String → String → Bool) (env : Env) (st : Recipe.State) (qsvs : Option Qsvs)
    (reqs : List CReq) (hnf : NF env st) (h : Mat.generate rx env st qsvs = .ok reqs) :
    ∀ r ∈ (absReqs reqs).2, GenInstsOK.ReqOK (ptableOf (absReqs reqs).1) env.model r := by
  obtain ⟨hnu, hE⟩ := Pipe.generate_entryOK rx env st qsvs reqs hnf.genHyp h
  exact Pipe.reqOK_of_entryOK env.model hnf.wf hnu hnf.inputsNotConst reqs hE

/-- what a successful `quantizePure` run consists of -/
theorem quantizePure_ok (rx : String → String → Bool) (env : Env) (st : Recipe.State) (qsvs : Option Qsvs)
    (m' : Model) (tbl : List Param) (h : quantizePure rx env st qsvs = .ok (m', tbl)) :
    ∃ reqs, Mat.generate rx env st qsvs = .ok reqs ∧ tbl = (absReqs reqs).1 ∧
      Perform.modify (ptableOf (absReqs reqs).1) env.model (absReqs reqs).2 = .ok m' := by
  unfold quantizePure at h
  split at h
  · cases h
  · obtain ⟨reqs, hgen, h⟩ := GraphInv.bind_ok _ _ _ h
    obtain ⟨m'', hmod, h⟩ := GraphInv.bind_ok _ _ _ h
    cases h
    exact ⟨reqs, hgen, rfl, hmod⟩

/-- **C01 (structural part), end to end**: for every model in normal form, every recipe state,
    every regex semantics and every statistics, `quantize()` raises or returns a well-formed graph -/
theorem quantizePure_wf (rx : String → String → Bool) (env : Env) (st : Recipe.State) (qsvs : Option Qsvs)
    (m' : Model) (tbl : List Param) (hnf : NF env st)
    (h : quantizePure rx env st qsvs = .ok (m', tbl)) : WF.modelOK m' = true := by
  obtain ⟨reqs, hgen, -, hmod⟩ := quantizePure_ok rx env st qsvs m' tbl h
  exact GenInstsOK.modify_ok _ env.model m' _ hnf.wf (generate_names rx env st qsvs reqs hgen)
    (generate_reqOK rx env st qsvs reqs hnf hgen) hmod

/-- **C02, end to end**: … and the result has exactly the input's skeleton and I/O contract -/
theorem quantizePure_skeleton (rx : String → String → Bool) (env : Env) (st : Recipe.State) (qsvs : Option Qsvs)
    (m' : Model) (tbl : List Param) (hnf : NF env st)
    (h : quantizePure rx env st qsvs = .ok (m', tbl)) : Skeleton.sameModelSkeleton env.model m' = true := by
  obtain ⟨reqs, hgen, -, hmod⟩ := quantizePure_ok rx env st qsvs m' tbl h
  unfold Perform.modify at hmod
  obtain ⟨tis, htis, htg⟩ := GraphInv.bind_ok _ _ _ hmod
  exact SkeletonProof.transformGraph_skeleton _ env.model m' tis hnf.wf hnf.tagged
    (GenInstsOK.genInsts_ok _ env.model _ tis hnf.wf (generate_names rx env st qsvs reqs hgen)
      (generate_reqOK rx env st qsvs reqs hnf hgen) htis) htg

end PipelineWF
