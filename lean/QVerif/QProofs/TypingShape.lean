import QProofs.LocalityShape
import QProofs.PipeGen
/-!
# C03 end to end, request stage: typing facts about every request side

A generic invariant rule for the result dictionary of `Mat.generate` (`generate_sides`: a property of
the producer / consumer sides that every operator's request list has is a property of every side of
every entry), instantiated with `PTyp` / `CTyp`:

* a producer side `[ADD_DEQUANTIZE]` and a consumer side `[ADD_QUANTIZE]` are only requested for
  float32 tensors (they come from `wrapper`, which is only called for slots that are not ignored);
* every parameter object is a uniform one, except the float16 parameters of the float-casting
  algorithm, which sit on a consumer side `[ADD_DEQUANTIZE]`.
-/
open Graph Mat Cfg Pipe Locality

namespace TypingShape

/-! ## generic: properties of request sides through the dictionary -/

section Generic
variable (Qp Qc : String → CO2T → Prop)

/-- every side of the request satisfies the side property -/
def RSides (r : CReq) : Prop :=
  (∀ p, r.producer = some p → Qp r.name p) ∧ (∀ cs c, r.consumers = some cs → c ∈ cs → Qc r.name c)

/-- every side of every entry satisfies the side property -/
def DSides (res : List (String × CReq)) : Prop :=
  ∀ e ∈ res, (∀ p, e.2.producer = some p → Qp e.1 p) ∧ (∀ cs c, e.2.consumers = some cs → c ∈ cs → Qc e.1 c)

theorem stepF_sides (res res' : List (String × CReq)) (r : CReq) (hd : DSides Qp Qc res)
    (hr : RSides Qp Qc r) (h : stepF res r = .ok res') : DSides Qp Qc res' := by
  unfold stepF at h
  cases hg : Py.dictGet? res r.name with
  | none =>
    rw [hg] at h
    simp only [pure, Except.pure, Except.ok.injEq] at h
    subst h
    intro e he
    rcases List.mem_append.1 he with he | he
    · exact hd e he
    · rw [List.mem_singleton.1 he]; exact hr
  | some cur =>
    rw [hg] at h
    simp only [] at h
    have hcur := hd (r.name, cur) (dictGet?_mem_key _ _ _ hg)
    split at h
    · cases h
    · simp only [pure, Except.pure, Except.ok.injEq] at h
      subst h
      intro e he
      rcases CalibProofs.mem_dictSet _ _ _ _ he with he | he
      · exact hd e he
      · subst he
        refine ⟨?_, ?_⟩
        · intro p hp
          simp only at hp
          cases hrp : r.producer with
          | some q => rw [hrp] at hp; cases hp; exact hr.1 _ hrp
          | none => rw [hrp] at hp; exact hcur.1 p hp
        · intro cs c hcs hc
          simp only at hcs
          cases hrc : r.consumers with
          | none => rw [hrc] at hcs; exact hcur.2 cs c hcs hc
          | some rc =>
            rw [hrc] at hcs
            cases hcc : cur.consumers with
            | none => rw [hcc] at hcs; cases hcs; exact hr.2 _ c hrc hc
            | some c0 =>
              rw [hcc] at hcs
              cases hcs
              rcases List.mem_append.1 hc with hc | hc
              · exact hcur.2 _ c hcc hc
              · exact hr.2 _ c hrc hc

theorem updateResults_sides : ∀ (rs : List CReq) (res res' : List (String × CReq)), DSides Qp Qc res →
    (∀ r ∈ rs, RSides Qp Qc r) → updateResults res rs = .ok res' → DSides Qp Qc res' := by
  intro rs
  induction rs with
  | nil =>
    intro res res' hd _ h
    simp only [updateResults_eq, List.foldlM_nil, pure, Except.pure, Except.ok.injEq] at h
    rw [← h]; exact hd
  | cons r rs ih =>
    intro res res' hd hrs h
    rw [updateResults_eq, List.foldlM_cons] at h
    obtain ⟨res2, h2, h⟩ := GraphInv.bind_ok _ _ _ h
    exact ih res2 res' (stepF_sides Qp Qc res res2 r hd (hrs r List.mem_cons_self) h2)
      (fun r' hr' => hrs r' (List.mem_cons_of_mem _ hr')) h

/-- **generic rule**: a side property of the request list of every (pseudo-)operator is a property of
    every side of the final dictionary -/
theorem generate_sides (rx : String → String → Bool) (env : Env) (st : Recipe.State) (init qs : Qsvs)
    (res : List (String × CReq))
    (hops : ∀ (s : Nat) (sg : Subgraph), env.model.subgraphs[s]? = some sg → ∀ q ∈ allOps sg,
      ∀ qs0 rs qs1, opReqs rx env st s sg qs0 q = .ok (rs, qs1) → ∀ r ∈ rs, RSides Qp Qc r)
    (hfold : env.model.subgraphs.zipIdx.foldlM (sgStep rx env st) (init, []) = .ok (qs, res)) :
    DSides Qp Qc res := by
  refine GraphFrame.foldlM_inv (sgStep rx env st) (fun s : GState => DSides Qp Qc s.2) _ (init, []) (qs, res)
    (by intro e he; cases he) ?_ hfold
  intro p hp s s' hs hstep
  have hsg : env.model.subgraphs[p.2]? = some p.1 := by
    have := List.mem_zipIdx_iff_getElem?.1 (show (p.1, p.2) ∈ _ from hp)
    exact this
  unfold sgStep at hstep
  refine GraphFrame.foldlM_inv (opStep rx env st p.2 p.1) (fun s : GState => DSides Qp Qc s.2) _ s s' hs ?_ hstep
  intro q hq x x' hx hstepq
  obtain ⟨rs, hr, hu⟩ := opStep_ok rx env st p.2 p.1 x x' q hstepq
  exact updateResults_sides Qp Qc rs _ _ hx (hops p.2 p.1 hsg q hq x.1 rs x'.1 hr) hu

end Generic

/-! ## the typing properties -/

/-- the tensor named `n` of `sg` is float32 -/
def F32 (sg : Subgraph) (n : String) : Prop := ∃ t ∈ sg.tensors, t.name = n ∧ t.dtype = Tables.ttFloat32

def UniformP (P : Param) : Prop := ∃ qp d, P = .uniform qp d

/-- producer side, relative to one subgraph -/
def PTypS (sg : Subgraph) (n : String) (p : CO2T) : Prop :=
  (p.xfs = [.addDequant] → F32 sg n) ∧ ∀ P, p.param = some P → UniformP P

/-- the tensor named `n` of `sg` is float32 and holds no constant data -/
def F32NC (env : Env) (sg : Subgraph) (n : String) : Prop :=
  ∃ t ∈ sg.tensors, t.name = n ∧ t.dtype = Tables.ttFloat32 ∧ (constData env t).isSome = false

/-- consumer side, relative to one subgraph -/
def CTypS (env : Env) (sg : Subgraph) (n : String) (c : CO2T) : Prop :=
  (c.xfs = [.addQuant] → F32NC env sg n) ∧
  ∀ P, c.param = some P → UniformP P ∨ (c.xfs = [.addDequant] ∧ ∃ d, P = .nonlinear 16 d)

abbrev RTyp (env : Env) (sg : Subgraph) (r : CReq) : Prop := RSides (PTypS sg) (CTypS env sg) r

theorem rtyp_noQuantReq (env : Env) (sg : Subgraph) (n : String) (o : Int) (b : Bool) : RTyp env sg (noQuantReq n o b) := by
  cases b
  · refine ⟨?_, fun cs c h => (by cases h)⟩
    intro p hp
    cases hp
    exact ⟨fun h => (by cases h), fun P h => (by cases h)⟩
  · refine ⟨fun p h => (by cases h), ?_⟩
    intro cs c hcs hc
    cases hcs
    rw [List.mem_singleton.1 hc]
    exact ⟨fun h => (by cases h), fun P h => (by cases h)⟩

/-- every path of `wrapper` ends in `mkReq`, with a uniform parameter object (or none) when the given
    one is -/
theorem wrapper_param (env : Env) (qs : Qsvs) (oi : OpInfo) (t : Tensor) (inbound : Bool) (g : Option Param)
    (hg : ∀ q, g = some q → UniformP q)
    (r : CReq) (h : wrapper env qs oi t inbound g = .ok r) :
    ∃ p, mkReq t.name oi inbound p (constData env t).isSome = .ok r ∧ ∀ q, p = some q → UniformP q := by
  have fin : ∀ (x : PyM Param), (∀ q, x = .ok q → UniformP q) →
      ((x >>= fun r => pure (some r)) >>= fun p => mkReq t.name oi inbound p (constData env t).isSome) = .ok r →
      ∃ p, mkReq t.name oi inbound p (constData env t).isSome = .ok r ∧ ∀ q, p = some q → UniformP q := by
    intro x hx h
    obtain ⟨p, hp, h⟩ := GraphInv.bind_ok _ _ _ h
    obtain ⟨q', hq', hp⟩ := GraphInv.bind_ok _ _ _ hp
    simp only [pure, Except.pure, Except.ok.injEq] at hp
    subst hp
    exact ⟨_, h, fun q hq => by cases hq; exact hx _ hq'⟩
  unfold wrapper at h
  simp only [] at h
  split at h
  · rename_i tc _
    have hu : ∀ mm q, tensorQuantParams env oi mm tc (constData env t) = .ok q → UniformP q :=
      fun mm q hq => tensorQuantParams_uniform _ _ _ _ _ _ hq
    split at h
    · split at h
      · obtain ⟨mm, _, h⟩ := GraphInv.bind_ok _ _ _ h
        exact fin _ (hu _) h
      · obtain ⟨mm, _, h⟩ := GraphInv.bind_ok _ _ _ h
        exact fin _ (hu _) h
    · split at h
      · obtain ⟨mm, hmm, h⟩ := GraphInv.bind_ok _ _ _ h
        cases hmm
      · obtain ⟨mm, _, h⟩ := GraphInv.bind_ok _ _ _ h
        exact fin _ (hu _) h
  · rename_i qp _
    split at h
    · obtain ⟨p, hp, h⟩ := GraphInv.bind_ok _ _ _ h
      obtain ⟨q', hq', hp⟩ := GraphInv.bind_ok _ _ _ hp
      simp only [pure, Except.pure, Except.ok.injEq] at hp
      subst hp
      exact ⟨_, h, fun q hq => by cases hq; exact ⟨_, _, rfl⟩⟩
    · obtain ⟨p, hp, h⟩ := GraphInv.bind_ok _ _ _ h
      simp only [pure, Except.pure, Except.ok.injEq] at hp
      subst hp
      exact ⟨_, h, hg⟩
  · obtain ⟨p, hp, h⟩ := GraphInv.bind_ok _ _ _ h
    simp only [pure, Except.pure, Except.ok.injEq] at hp
    subst hp
    exact ⟨_, h, hg⟩

theorem rtyp_mkReq (env : Env) (sg : Subgraph) (n : String) (oi : OpInfo) (b : Bool) (p : Option Param) (isC : Bool)
    (r : CReq) (h : mkReq n oi b p isC = .ok r) (hp : ∀ q, p = some q → UniformP q)
    (hfq : ∀ xfs, tensorXfs oi.cfg b isC = .ok xfs → xfs = [.addQuant] → F32NC env sg n)
    (hfd : ∀ xfs, tensorXfs oi.cfg b isC = .ok xfs → b = false → xfs = [.addDequant] → F32 sg n) :
    RTyp env sg r := by
  obtain ⟨xfs, hx, hr⟩ := mkReq_spec n oi b p isC r h
  subst hr
  cases b
  · refine ⟨?_, fun cs c h => (by cases h)⟩
    intro q hq
    simp only [Bool.false_eq_true, if_false, Option.some.injEq] at hq
    subst hq
    exact ⟨fun hxa => hfd xfs hx rfl hxa, fun P hP => hp P hP⟩
  · refine ⟨fun q h => (by cases h), ?_⟩
    intro cs c hcs hc
    simp only [if_true, Option.some.injEq] at hcs
    subst hcs
    rw [List.mem_singleton.1 hc]
    exact ⟨fun hxa => hfq xfs hx hxa, fun P hP => .inl (hp P hP)⟩

theorem wrapper_typ (env : Env) (sg : Subgraph) (qs : Qsvs) (oi : OpInfo) (t : Tensor) (ht : t ∈ sg.tensors)
    (hf : t.dtype = Tables.ttFloat32) (b : Bool) (g : Option Param) (hg : ∀ q, g = some q → UniformP q)
    (r : CReq) (h : wrapper env qs oi t b g = .ok r) : RTyp env sg r := by
  obtain ⟨p, hp, hu⟩ := wrapper_param env qs oi t b g hg r h
  refine rtyp_mkReq env sg t.name oi b p _ r hp hu ?_ (fun _ _ _ _ => ⟨t, ht, rfl, hf⟩)
  intro xfs hx hq
  obtain ⟨x, hxe, hxa⟩ := tensorXfs_shape _ _ _ _ hx
  rw [hxe] at hq
  cases hq
  exact ⟨t, ht, rfl, hf, hxa rfl⟩

/-! ## the materialisation functions -/

theorem uniform_of_wrapper_none (env : Env) (qs : Qsvs) (oi : OpInfo) (t : Tensor) (b : Bool) (r : CReq)
    (h : wrapper env qs oi t b none = .ok r) :
    (∀ pr q, r.producer = some pr → pr.param = some q → UniformP q) ∧
    (∀ cs c q, r.consumers = some cs → c ∈ cs → c.param = some q → UniformP q) :=
  wrapper_none_uniform env qs oi t b r h

theorem stripData_uniform (p0 : Option Param) (h : ∀ q, p0 = some q → UniformP q) :
    ∀ q, stripData p0 = some q → UniformP q := by
  intro q hq
  cases p0 with
  | none => cases hq
  | some q0 =>
    obtain ⟨qp, d, rfl⟩ := h q0 rfl
    cases d with
    | none => cases hq; exact ⟨_, _, rfl⟩
    | some v => cases hq; exact ⟨_, _, rfl⟩

theorem standardOp_typ (env : Env) (sg : Subgraph) (qs : Qsvs) (oi : OpInfo) (con : Constraint)
    (gIn gOut : List Nat) : AllReqs (RTyp env sg) (standardOp env sg qs oi con gIn gOut) := by
  intro rs q h
  obtain ⟨inIgn, outIgn, rin, rout, g, gO, hI, hO, hrs, hin, hout, hg, hgO⟩ :=
    standardOp_shape env sg qs oi con gIn gOut rs q h
  have hgu : ∀ q, g = some q → UniformP q := by
    rcases hg with rfl | ⟨-, p, -, t, orq, -, -, hw, rfl⟩
    · intro q hq; cases hq
    · intro q hq
      cases hpr : orq.producer with
      | none => rw [hpr] at hq; cases hq
      | some pr =>
        rw [hpr] at hq
        exact (uniform_of_wrapper_none env qs oi t false orq hw).1 pr q hpr hq
  have hgOu : ∀ q, gO = some q → UniformP q := by
    rcases hgO with rfl | ⟨-, p, -, t, ir, p0, -, -, hw, hp0, rfl⟩
    · intro q hq; cases hq
    · refine stripData_uniform p0 ?_
      intro q hq
      subst hq
      obtain ⟨cs, c, hcs, hc, hcp⟩ := reqParam0_mem ir _ hp0
      exact (uniform_of_wrapper_none env qs oi t true ir hw).2 cs c q hcs hc hcp.symm
  have key : ∀ (b : Bool) (slots : List Int) (given ign : List Nat) (g : Option Param),
      IgnSpec sg slots given ign → (∀ q, g = some q → UniformP q) →
      ∀ p ∈ cslots slots, ∀ r, SlotReq env sg qs oi b ign g p r → RTyp env sg r := by
    intro b slots given ign g hspec hgu p hp r hs
    obtain ⟨t, ht, hr⟩ := hs
    split at hr
    · rw [hr]; exact rtyp_noQuantReq env sg _ _ _
    · rename_i hc
      have hpm := (mem_cslots slots p).1 hp
      have hf : t.dtype = Tables.ttFloat32 := by
        by_contra hne
        exact hc ((hspec p.2 p.1 t hpm.1 ht).2 (.inl hne))
      exact wrapper_typ env sg qs oi t (tensorAt_mem sg p.1 t ht) hf b g hgu r hr
  intro r hr
  rw [hrs] at hr
  rcases List.mem_append.1 hr with hr | hr
  · obtain ⟨p, hp, hsr⟩ := hin.mem_right hr
    exact key _ _ _ _ _ hI hgu p hp r hsr
  · obtain ⟨p, hp, hsr⟩ := hout.mem_right hr
    exact key _ _ _ _ _ hO hgOu p hp r hsr

theorem noQuantOp_typ (env : Env) (sg : Subgraph) (op : Op) (opId : Int) (rs : List CReq)
    (h : noQuantOp sg op opId = .ok rs) : ∀ r ∈ rs, RTyp env sg r := by
  unfold noQuantOp at h
  obtain ⟨ins, hins, h⟩ := GraphInv.bind_ok _ _ _ h
  obtain ⟨outs, houts, h⟩ := GraphInv.bind_ok _ _ _ h
  simp only [pure, Except.pure, Except.ok.injEq] at h
  subst h
  intro r hr
  rcases List.mem_append.1 hr with hr | hr
  · obtain ⟨a, _, hf⟩ := GraphFrame.mapM_ok _ _ _ hins r hr
    obtain ⟨t, ht, hf⟩ := GraphInv.bind_ok _ _ _ hf
    simp only [pure, Except.pure, Except.ok.injEq] at hf
    rw [← hf]; exact rtyp_noQuantReq env sg _ _ _
  · obtain ⟨a, _, hf⟩ := GraphFrame.mapM_ok _ _ _ houts r hr
    obtain ⟨t, ht, hf⟩ := GraphInv.bind_ok _ _ _ hf
    simp only [pure, Except.pure, Except.ok.injEq] at hf
    rw [← hf]; exact rtyp_noQuantReq env sg _ _ _

theorem fixPost_typ (env : Env) (sg : Subgraph) (oi : OpInfo) (b : Bool) (reqs : List CReq) (q : Qsvs)
    (hreqs : ∀ r ∈ reqs, RTyp env sg r) (rs : List CReq) (q' : Qsvs)
    (h : fixPost oi b (reqs, q) = .ok (rs, q')) : ∀ r ∈ rs, RTyp env sg r := by
  unfold fixPost at h
  simp only [] at h
  split at h
  · rename_i last a hlast hact
    have hlastS : RTyp env sg last := hreqs last (List.mem_of_getLast? hlast)
    split at h
    · simp only [pure, Except.pure, Except.ok.injEq, Prod.mk.injEq] at h
      obtain ⟨rfl, rfl⟩ := h
      exact hreqs
    · rename_i pr hpr
      split at h
      · cases h
      · rename_i fp hfp
        obtain ⟨mm, hmm, h⟩ := GraphInv.bind_ok _ _ _ h
        split at h
        · cases h
        · simp only [pure, Except.pure, Except.ok.injEq, Prod.mk.injEq] at h
          obtain ⟨rfl, rfl⟩ := h
          intro r hr
          rcases List.mem_append.1 hr with hr | hr
          · exact hreqs r (List.dropLast_subset _ hr)
          · rw [List.mem_singleton.1 hr]
            refine ⟨?_, hlastS.2⟩
            intro p hp
            simp only [Option.some.injEq] at hp
            subst hp
            exact ⟨(hlastS.1 pr hpr).1, fun P hP => by cases hP; exact ⟨_, _, rfl⟩⟩
  · simp only [pure, Except.pure, Except.ok.injEq, Prod.mk.injEq] at h
    obtain ⟨rfl, rfl⟩ := h
    exact hreqs

theorem fixedRangeOp_typ (env : Env) (sg : Subgraph) (qs : Qsvs) (oi : OpInfo) (b : Bool) :
    AllReqs (RTyp env sg) (fixedRangeOp env sg qs oi b) := by
  intro rs q h
  rw [fixedRangeOp_eq] at h
  by_cases hc : oi.op.outputs.length ≠ 1
  · rw [if_pos hc] at h; cases h
  · rw [if_neg hc] at h
    obtain ⟨⟨reqs, q0⟩, hstd, h⟩ := GraphInv.bind_ok _ _ _ h
    exact fixPost_typ env sg oi b reqs q0 (standardOp_typ env sg qs oi .none [] [] reqs q0 hstd) rs q h

theorem floatCastOp_typ (env : Env) (sg : Subgraph) (oi : OpInfo) (iIn iW iB : Nat) (rs : List CReq)
    (h : floatCastOp env sg oi iIn iW iB = .ok rs) : ∀ r ∈ rs, RTyp env sg r := by
  unfold floatCastOp at h
  simp only [] at h
  obtain ⟨sIn, hsIn, h⟩ := GraphInv.bind_ok _ _ _ h
  obtain ⟨tin, htin, h⟩ := GraphInv.bind_ok _ _ _ h
  obtain ⟨sW, hsW, h⟩ := GraphInv.bind_ok _ _ _ h
  obtain ⟨tw, htw, h⟩ := GraphInv.bind_ok _ _ _ h
  obtain ⟨sOut, hsOut, h⟩ := GraphInv.bind_ok _ _ _ h
  obtain ⟨tout, htout, h⟩ := GraphInv.bind_ok _ _ _ h
  obtain ⟨wd, hwd, h⟩ := GraphInv.bind_ok _ _ _ h
  obtain ⟨hh, _, h⟩ := GraphInv.bind_ok _ _ _ h
  have hw : RTyp env sg ⟨tw.name, none,
      some [(⟨oi.opId, [.addDequant], some (Param.nonlinear 16 (some ⟨wd.shape, hh⟩))⟩ : CO2T)]⟩ := by
    refine ⟨fun p hp => (by cases hp), ?_⟩
    intro cs c hcs hc
    cases hcs
    rw [List.mem_singleton.1 hc]
    exact ⟨fun hx => (by cases hx), fun P hP => by cases hP; exact .inr ⟨rfl, _, rfl⟩⟩
  have base : ∀ r ∈ [noQuantReq tin.name oi.opId true,
      (⟨tw.name, none, some [(⟨oi.opId, [.addDequant], some (Param.nonlinear 16 (some ⟨wd.shape, hh⟩))⟩ : CO2T)]⟩ : CReq),
      noQuantReq tout.name oi.opId false], RTyp env sg r := by
    intro r hr
    simp only [List.mem_cons, List.not_mem_nil, or_false] at hr
    rcases hr with rfl | rfl | rfl
    · exact rtyp_noQuantReq env sg _ _ _
    · exact hw
    · exact rtyp_noQuantReq env sg _ _ _
  split at h
  · split at h
    · obtain ⟨tb, htb, h⟩ := GraphInv.bind_ok _ _ _ h
      simp only [pure, Except.pure, Except.ok.injEq] at h
      subst h
      intro r hr
      rcases List.mem_append.1 hr with hr | hr
      · exact base r hr
      · rw [List.mem_singleton.1 hr]; exact rtyp_noQuantReq env sg _ _ _
    · simp only [pure, Except.pure, Except.ok.injEq] at h
      subst h
      exact base
  · simp only [pure, Except.pure, Except.ok.injEq] at h
    subst h
    exact base

theorem biasFor_typ (env : Env) (sg : Subgraph) (oi : OpInfo) (reqs rs : List CReq) (iIn iW iB : Nat)
    (hreqs : ∀ r ∈ reqs, RTyp env sg r)
    (h : biasFor env sg oi reqs iIn iW iB = .ok rs) : ∀ r ∈ rs, RTyp env sg r := by
  unfold biasFor at h
  split at h
  · simp only [pure, Except.pure, Except.ok.injEq] at h; subst h; exact hreqs
  · rename_i bslot hb
    split at h
    · simp only [pure, Except.pure, Except.ok.injEq] at h; subst h; exact hreqs
    · obtain ⟨bt, hbt, h⟩ := GraphInv.bind_ok _ _ _ h
      have fin : ∀ bp, (∀ q, bp = some q → UniformP q) →
          (mkReq bt.name oi true bp (isSRQ oi.cfg) >>= fun r =>
            if iB < reqs.length then pure (reqs.set iB r) else throw PyErr.indexError) = .ok rs →
          ∀ r ∈ rs, RTyp env sg r := by
        intro bp hbp h
        obtain ⟨r, hr, h⟩ := GraphInv.bind_ok _ _ _ h
        split at h
        · simp only [pure, Except.pure, Except.ok.injEq] at h
          subst h
          intro r' hr'
          rcases mem_set_cases _ _ _ _ hr' with h | ⟨j, _, hj⟩
          · subst h
            refine rtyp_mkReq env sg bt.name oi true bp _ r' hr hbp ?_ (fun _ _ hb => by cases hb)
            intro xfs hx hq
            obtain ⟨x, hxe, hxa⟩ := tensorXfs_bias _ _ hx
            rw [hxe] at hq; cases hq; exact absurd rfl hxa
          · exact hreqs r' (List.mem_of_getElem? hj)
        · cases h
      simp only [] at h
      split at h
      · split at h
        · obtain ⟨_, h', _⟩ := GraphInv.bind_ok _ _ _ h
          cases h'
        · obtain ⟨pin, _, h⟩ := GraphInv.bind_ok _ _ _ h
          obtain ⟨pw, _, h⟩ := GraphInv.bind_ok _ _ _ h
          split at h
          · obtain ⟨bp, hbp, h⟩ := GraphInv.bind_ok _ _ _ h
            obtain ⟨qq, _, hbp⟩ := GraphInv.bind_ok _ _ _ hbp
            simp only [pure, Except.pure, Except.ok.injEq] at hbp
            subst hbp
            exact fin _ (fun q hq => by cases hq; exact ⟨_, _, rfl⟩) h
          · obtain ⟨_, h', _⟩ := GraphInv.bind_ok _ _ _ h
            cases h'
      · obtain ⟨bp, hbp, h⟩ := GraphInv.bind_ok _ _ _ h
        simp only [pure, Except.pure, Except.ok.injEq] at hbp
        subst hbp
        exact fin none (fun q hq => by cases hq) h

theorem opReqs_typ (rx : String → String → Bool) (env : Env) (st : Recipe.State) (s : Nat) (sg : Subgraph)
    (qs : Qsvs) (q : Op × Option String × Int) : AllReqs (RTyp env sg) (opReqs rx env st s sg qs q) := by
  have nq : AllReqs (RTyp env sg)
      (match noQuantOp sg q.1 q.2.2 with | .error e => .error e | .ok r => .ok (r, qs)) := by
    intro rs q' h
    cases hn : noQuantOp sg q.1 q.2.2 with
    | error e => rw [hn] at h; cases h
    | ok r =>
      rw [hn] at h
      simp only [Except.ok.injEq, Prod.mk.injEq] at h
      obtain ⟨rfl, rfl⟩ := h
      exact noQuantOp_typ env sg q.1 q.2.2 r hn
  unfold opReqs
  cases keyOf env q with
  | error e => exact AllReqs.error _
  | ok key =>
    cases key with
    | none => exact nq
    | some k =>
      simp only []
      cases opScope sg q.1 with
      | error e => exact AllReqs.error _
      | ok scope =>
        simp only []
        refine AllReqs.ite _ (fun _ => nq) (fun _ => ?_)
        cases Py.dictGet? Tables.registry (Recipe.resolve rx st k scope).1 with
        | none => exact AllReqs.error _
        | some ops =>
          simp only []
          cases Py.dictGet? ops k with
          | none => exact AllReqs.error _
          | some fn =>
            exact materializeOp_all _ env sg qs _ _ fn (fun con gi go => standardOp_typ env sg qs _ con gi go)
              (fun b => fixedRangeOp_typ env sg qs _ b)
              (fun a b c rs h => floatCastOp_typ env sg _ a b c rs h)
              (fun r r' a b c hr h => biasFor_typ env sg _ r r' a b c hr h)

/-! ## the result dictionary -/

/-- producer side of an entry -/
def PTyp (env : Env) (n : String) (p : CO2T) : Prop := ∃ sg ∈ env.model.subgraphs, PTypS sg n p

/-- consumer side of an entry -/
def CTyp (env : Env) (n : String) (c : CO2T) : Prop := ∃ sg ∈ env.model.subgraphs, CTypS env sg n c

theorem generate_typ (rx : String → String → Bool) (env : Env) (st : Recipe.State) (init qs : Qsvs)
    (res : List (String × CReq))
    (hfold : env.model.subgraphs.zipIdx.foldlM (sgStep rx env st) (init, []) = .ok (qs, res)) :
    DSides (PTyp env) (CTyp env) res := by
  refine generate_sides (PTyp env) (CTyp env) rx env st init qs res ?_ hfold
  intro s sg hsg q _ qs0 rs qs1 h r hr
  have hm : sg ∈ env.model.subgraphs := List.mem_of_getElem? hsg
  obtain ⟨h1, h2⟩ := opReqs_typ rx env st s sg qs0 q rs qs1 h r hr
  exact ⟨fun p hp => ⟨sg, hm, h1 p hp⟩, fun cs c hcs hc => ⟨sg, hm, h2 cs c hcs hc⟩⟩

end TypingShape
