import QProofs.GraphInv
import QModel.Skeleton
/-!
# The transformation performer preserves the graph skeleton and the I/O contract (C02)

Structure of the proof:
* generic list facts (`filter_insertIdx`, `filter_map_congr_idx`);
* `InsOK`: the shape of the inserted operators, and what `root` computes under it
  (`root_derived`, `root_fix`);
* `StepDesc`: a precise description of what one registered transformation does to a subgraph
  (`runXf_desc`);
* `step_sk`: one transformation preserves the per-subgraph invariant `SkInv` (`eraseOps`,
  `eraseOutputs`, inputs, tensor frame);
* `updSig` / `SigRel`: the signature update follows the graph outputs;
* `SkAll`: the model-level invariant, threaded through `applySingle` / `applyAll` /
  `transformGraph` next to `GraphInv.Inv` (which supplies well-formedness of the current graph and
  the op-id map facts).
-/
open Graph Perform GraphStep GraphFrame GraphInv Skeleton

namespace SkeletonProof

/-! ## generic list facts -/

theorem filter_insertIdx {α} (p : α → Bool) (x : α) (hx : p x = false) :
    ∀ (l : List α) (k : Nat), (l.insertIdx k x).filter p = l.filter p := by
  intro l
  induction l with
  | nil =>
    intro k
    cases k with
    | zero => simp [hx]
    | succ k => simp
  | cons a as ih =>
    intro k
    cases k with
    | zero => simp [hx]
    | succ k =>
      rw [List.insertIdx_succ_cons, List.filter_cons, List.filter_cons, ih k]

theorem filter_map_congr_idx {α β} (p : α → Bool) (f g : α → β) :
    ∀ (l2 l1 : List α), l2.length = l1.length →
      (∀ (j : Nat) a b, l2[j]? = some a → l1[j]? = some b → p a = p b ∧ (p b = true → f a = g b)) →
      (l2.filter p).map f = (l1.filter p).map g := by
  intro l2
  induction l2 with
  | nil =>
    intro l1 hl _
    cases l1 with
    | nil => rfl
    | cons b bs => simp at hl
  | cons a as ih =>
    intro l1 hl h
    cases l1 with
    | nil => simp at hl
    | cons b bs =>
      obtain ⟨h1, h2⟩ := h 0 a b rfl rfl
      have ht := ih bs (by simpa using hl) (fun j a' b' ha hb => h (j + 1) a' b' (by simpa using ha) (by simpa using hb))
      rw [List.filter_cons, List.filter_cons, h1]
      cases hb : p b with
      | false => simpa using ht
      | true =>
        simp only [if_true, List.map_cons]
        rw [h2 hb, ht]

/-! ## the inserted operators and `root` -/

/-- shape of the inserted operators of the current subgraph `sg`, `n0` = number of ORIGINAL tensors:
    a single operand which is an original tensor, a single result which is a new tensor, and two
    inserted operators with the same result have the same operand -/
structure InsOK (n0 : Nat) (sg : Subgraph) : Prop where
  shape : ∀ o ∈ sg.ops, o.orig = none → ∃ t n : Int, o.inputs = [t] ∧ o.outputs = [n] ∧
    t < n0 ∧ (n0 : Int) ≤ n ∧ n < sg.tensors.length
  uniq : ∀ o o', o ∈ sg.ops → o' ∈ sg.ops → o.orig = none → o'.orig = none →
    o.outputs = o'.outputs → o.inputs = o'.inputs

theorem insertedProducer_none (sg : Subgraph) (x : Int)
    (h : ∀ o ∈ sg.ops, o.orig = none → o.outputs ≠ [x]) : insertedProducer sg x = none := by
  unfold insertedProducer
  rw [List.find?_eq_none]
  intro o ho hp
  simp only [Bool.and_eq_true, Option.isNone_iff_eq_none, beq_iff_eq] at hp
  exact h o ho hp.1 hp.2

theorem rootOf_fix (sg : Subgraph) (x : Int) (h : insertedProducer sg x = none) :
    ∀ fuel, rootOf sg fuel x = x := by
  intro fuel
  cases fuel with
  | zero => rfl
  | succ f => simp only [rootOf, h]

/-- a tensor that no inserted operator produces is its own root -/
theorem root_fix (sg : Subgraph) (x : Int)
    (h : ∀ o ∈ sg.ops, o.orig = none → o.outputs ≠ [x]) : root sg x = x :=
  rootOf_fix sg x (insertedProducer_none sg x h) _

theorem root_fix_lt (n0 : Nat) (sg : Subgraph) (I : InsOK n0 sg) (x : Int) (hx : x < n0) :
    root sg x = x := by
  apply root_fix
  intro o ho hn he
  obtain ⟨t, n, _, h2, _, h4, _⟩ := I.shape o ho hn
  rw [h2] at he
  cases he
  omega

/-- the root of the result of an inserted operator is its operand -/
theorem root_derived (n0 : Nat) (sg : Subgraph) (I : InsOK n0 sg) (o : Op) (t x : Int)
    (ho : o ∈ sg.ops) (hn : o.orig = none) (hi : o.inputs = [t]) (hx : o.outputs = [x]) :
    root sg x = t := by
  obtain ⟨t1, n1, e1, e2, ht, _, _⟩ := I.shape o ho hn
  rw [hi] at e1
  cases e1
  obtain ⟨f, hf⟩ : ∃ f, sg.ops.length = f + 1 := by
    have := List.length_pos_of_mem ho
    exact ⟨sg.ops.length - 1, by omega⟩
  unfold root
  rw [hf]
  cases hfind : insertedProducer sg x with
  | none =>
    exfalso
    unfold insertedProducer at hfind
    rw [List.find?_eq_none] at hfind
    exact hfind o ho (by simp [hn, hx])
  | some o' =>
    have hmem : o' ∈ sg.ops := List.mem_of_find?_eq_some hfind
    have hp := List.find?_some hfind
    simp only [Bool.and_eq_true, Option.isNone_iff_eq_none, beq_iff_eq] at hp
    have hin : o'.inputs = [t] := by
      rw [I.uniq o' o hmem ho hp.1 hn (by rw [hp.2, hx]), hi]
    simp only [rootOf, hfind, hin]
    exact rootOf_fix sg t (insertedProducer_none sg t (by
      intro o2 ho2 hn2 he
      obtain ⟨_, n2, _, h2, _, h4, _⟩ := I.shape o2 ho2 hn2
      rw [h2] at he
      cases he
      omega)) f

theorem rootOf_congr (sg sg' : Subgraph) (h : sg'.ops = sg.ops) :
    ∀ fuel x, rootOf sg' fuel x = rootOf sg fuel x := by
  intro fuel
  induction fuel with
  | zero => intro x; rfl
  | succ f ih =>
    intro x
    have hp : insertedProducer sg' x = insertedProducer sg x := by
      unfold insertedProducer; rw [h]
    simp only [rootOf, hp]
    cases insertedProducer sg x with
    | none => rfl
    | some o =>
      simp only
      split
      · exact ih _
      · rfl

theorem root_congr (sg sg' : Subgraph) (h : sg'.ops = sg.ops) (x : Int) : root sg' x = root sg x := by
  unfold root
  rw [h]
  exact rootOf_congr sg sg' h _ x

/-! ## what one registered transformation does to its subgraph -/

/-- name and shape of a tensor -/
def ns (t : Tensor) : String × List Int := (t.name, t.shape)

/-- the inserted operator -/
def newOp (c : Nat) (t n : Int) : Op := { code := c, inputs := [t], outputs := [n], orig := none }

/-- retargeting of the graph outputs -/
def retOut (cons : List Int) (t n : Int) (o : Int) : Int :=
  if memI (-1) cons then (if o == t then n else o) else o

/-- precise effect of one registered transformation with input `inp` on the subgraph it is applied
    to: either only tensor attributes other than name/shape change, or one tensor is appended, the
    listed consumers are rewired, one operator is spliced in and the graph outputs are retargeted -/
structure StepDesc (sg sg' : Subgraph) (inp : TIn) : Prop where
  inputs : sg'.inputs = sg.inputs
  tens : ∃ ext, sg'.tensors.map ns = sg.tensors.map ns ++ ext
  ops : (sg'.ops = sg.ops ∧ sg'.outputs = sg.outputs) ∨
    (∃ ops2 k c, sg'.tensors.length = sg.tensors.length + 1 ∧
      rewire sg.ops inp.consumers inp.tensor (sg.tensors.length : Int) = .ok ops2 ∧
      k ≤ ops2.length ∧
      sg'.ops = ops2.insertIdx k (newOp c inp.tensor (sg.tensors.length : Int)) ∧
      sg'.outputs = sg.outputs.map (retOut inp.consumers inp.tensor (sg.tensors.length : Int)))

theorem StepDesc.tlen {sg sg' : Subgraph} {inp : TIn} (D : StepDesc sg sg' inp) :
    sg.tensors.length ≤ sg'.tensors.length := by
  obtain ⟨ext, h⟩ := D.tens
  have := congrArg List.length h
  simp only [List.length_map, List.length_append] at this
  omega

theorem quantizeTensor_ns (pt : PTable) (bufs bufs' : List BufContent) (sg sg' : Subgraph) (t : Int)
    (param : Option PId) (h0 : 0 ≤ t)
    (h : quantizeTensor pt bufs sg t param = .ok (bufs', sg')) :
    sg'.tensors.map ns = sg.tensors.map ns ∧ sg'.ops = sg.ops ∧ sg'.inputs = sg.inputs ∧
      sg'.outputs = sg.outputs := by
  unfold quantizeTensor at h
  simp only [bind, Except.bind] at h
  cases hg : getTensor sg t with
  | error e => simp [hg] at h
  | ok tn =>
    have hidx := index_ok _ _ _ h0 hg
    simp only [hg] at h
    cases param with
    | none => simp [throw, throwThe, MonadExceptOf.throw] at h
    | some p =>
      simp only at h
      cases hp : pinfo pt p with
      | none => simp [hp, throw, throwThe, MonadExceptOf.throw] at h
      | some pi =>
        simp only [hp] at h
        have hset : ∀ tn', setTensor sg t tn' = { sg with tensors := sg.tensors.set t.toNat tn' } := by
          intro tn'; simp [setTensor, show ¬ t < 0 by omega]
        have hthrow : (throw PyErr.indexError : PyM (List BufContent)) = Except.error PyErr.indexError := rfl
        cases hd : dtypeOf pi with
        | error e =>
          simp only [hd, pure, Except.pure, hthrow] at h
          by_cases hc : (decide (tn.buffer ≠ 0) && pi.hasData) = true
          · by_cases hlt : tn.buffer < bufs.length <;> simp only [hc, hlt, if_true, if_false] at h <;> cases h
          · simp only [hc] at h; cases h
        | ok ty =>
          simp only [hd, hset, pure, Except.pure, hthrow] at h
          have key : ∀ tn' : Tensor, ns tn' = ns tn →
              ({ sg with tensors := sg.tensors.set t.toNat tn' } : Subgraph) = sg' →
              sg'.tensors.map ns = sg.tensors.map ns ∧ sg'.ops = sg.ops ∧ sg'.inputs = sg.inputs ∧
                sg'.outputs = sg.outputs := by
            intro tn' hns he
            subst he
            exact ⟨map_set_same ns _ _ _ _ hidx hns, rfl, rfl, rfl⟩
          by_cases hc : (decide (tn.buffer ≠ 0) && pi.hasData) = true
          · by_cases hlt : tn.buffer < bufs.length
            · simp only [hc, hlt, if_true, Except.ok.injEq, Prod.mk.injEq] at h
              exact key _ (by split <;> rfl) h.2
            · simp only [hc, hlt, if_true, if_false] at h; cases h
          · simp only [hc, Bool.false_eq_true, if_false, Except.ok.injEq, Prod.mk.injEq] at h
            exact key _ (by split <;> rfl) h.2

theorem insert_desc (pt : PTable) (m : Model) (sg : Subgraph) (inp : TIn)
    (hinp : InpOK pt m sg inp) (nm : String) (shape : List Int) (qt : Int) (c : Nat)
    (bufs : List BufContent) (sg2 sg3 : Subgraph) (info : TInfoOut) (hqt : 0 ≤ qt)
    (hq : quantizeTensor pt m.buffers
      { sg with tensors := sg.tensors ++
          [{ name := nm, dtype := Tables.ttFloat32, shape := shape, buffer := 0 }] } qt inp.param
        = .ok (bufs, sg2))
    (hw : wireNewOp sg2 inp (sg.tensors.length : Int)
      { code := c, inputs := [inp.tensor], outputs := [(sg.tensors.length : Int)] } = .ok (sg3, info)) :
    StepDesc sg sg3 inp := by
  obtain ⟨h1, h3, h4, h5⟩ := quantizeTensor_ns pt _ bufs _ sg2 qt inp.param hqt hq
  simp only [List.map_append, List.map_cons, List.map_nil] at h1 h3 h4 h5
  have hlen : sg2.tensors.length = sg.tensors.length + 1 := by
    have := congrArg List.length h1; simpa using this
  obtain ⟨first, ops2, hmin, hrw, hT, hI, hO, hOut⟩ := wireNewOp_spec _ _ _ _ _ _ hw
  rw [h3] at hrw
  obtain ⟨hfm, hfle⟩ := minCons_spec _ _ hmin
  obtain ⟨hl2, -⟩ := GraphStep.rewire_spec _ _ _ _ _ hrw
  have hpr := hinp.prodRange
  have hklen : (max (inp.producer + 1) first).toNat ≤ sg.ops.length := by
    have := hinp.consAfter first hfm; omega
  rw [pyInsert_eq _ _ _ (by omega) (by omega)] at hO
  refine ⟨by rw [hI, h4], ⟨_, by rw [hT]; exact h1⟩, .inr ⟨ops2, _, c, by rw [hT, hlen], hrw, by omega, hO, ?_⟩⟩
  rw [hOut, h5]
  unfold retOut
  split
  · rfl
  · simp

theorem runXf_desc (pt : PTable) (m m' : Model) (sgi : Nat) (sg sgA : Subgraph) (x : Xf) (inp : TIn)
    (info : TInfoOut) (hsg : m.subgraphs[sgi]? = some sg) (hinp : InpOK pt m sg inp)
    (h : runXf pt m sgi x inp = .ok (m', info)) (hA : m'.subgraphs[sgi]? = some sgA) :
    StepDesc sg sgA inp := by
  have hlt : sgi < m.subgraphs.length := (List.getElem?_eq_some_iff.1 hsg).1
  have hv := (validT_iff _ _).1 hinp.tvalid
  unfold ValidT at hv
  unfold runXf at h
  cases x <;> simp only at h
  · cases h
  · -- addQuant
    unfold insertQuant at h
    simp only [hsg, bind, Except.bind, pure, Except.pure] at h
    cases hg : getTensor sg inp.tensor with
    | error e => simp [hg] at h
    | ok tn =>
      simp only [hg] at h
      split at h
      · simp at h
      · rename_i r hq
        obtain ⟨bufs, sg2⟩ := r
        split at h
        · simp at h
        · rename_i r' hw
          obtain ⟨sg3, info'⟩ := r'
          simp only [Except.ok.injEq, Prod.mk.injEq] at h
          obtain ⟨rfl, rfl⟩ := h
          simp only [List.getElem?_set_self hlt, Option.some.injEq] at hA
          subst hA
          exact insert_desc pt m sg inp hinp _ _ _ _ bufs sg2 sg3 info' (by omega) hq hw
  · -- addDequant
    unfold insertDequant at h
    simp only [hsg, bind, Except.bind, pure, Except.pure] at h
    cases hg : getTensor sg inp.tensor with
    | error e => simp [hg] at h
    | ok tn =>
      simp only [hg] at h
      split at h
      · simp at h
      · rename_i r hq
        obtain ⟨bufs, sg2⟩ := r
        split at h
        · simp at h
        · rename_i r' hw
          obtain ⟨sg3, info'⟩ := r'
          simp only [Except.ok.injEq, Prod.mk.injEq] at h
          obtain ⟨rfl, rfl⟩ := h
          simp only [List.getElem?_set_self hlt, Option.some.injEq] at hA
          subst hA
          exact insert_desc pt m sg inp hinp _ _ _ _ bufs sg2 sg3 info' hv.1 hq hw
  · -- quantTensor
    unfold quantizeOnly at h
    simp only [hsg, bind, Except.bind, pure, Except.pure] at h
    cases hq : quantizeTensor pt m.buffers sg inp.tensor inp.param with
    | error e => simp [hq] at h
    | ok r =>
      obtain ⟨bufs', sg'⟩ := r
      simp only [hq, Except.ok.injEq, Prod.mk.injEq] at h
      obtain ⟨rfl, rfl⟩ := h
      simp only [List.getElem?_set_self hlt, Option.some.injEq] at hA
      subst hA
      obtain ⟨h1, h3, h4, h5⟩ := quantizeTensor_ns pt _ bufs' sg sg' inp.tensor inp.param hv.1 hq
      exact ⟨h4, ⟨[], by simpa using h1⟩, .inl ⟨h3, h5⟩⟩
  · cases h

/-! ## the per-subgraph invariant and its preservation by one transformation -/

/-- relation between an ORIGINAL subgraph `sg0` and its current version `sg` -/
structure SkInv (sg0 sg : Subgraph) : Prop where
  ins : InsOK sg0.tensors.length sg
  ops : eraseOps sg = sg0.ops
  outs : eraseOutputs sg = sg0.outputs
  inputs : sg.inputs = sg0.inputs
  tframe : tensorFrame sg sg0.tensors.length = tensorFrame sg0 sg0.tensors.length
  tlen : sg0.tensors.length ≤ sg.tensors.length

theorem tensorFrame_eq (sg : Subgraph) (n : Nat) : tensorFrame sg n = (sg.tensors.map ns).take n := by
  unfold tensorFrame
  rw [List.map_take]
  rfl

theorem normOp_congr (b : Op) (f g : Int → Int) (hi : b.inputs.map f = b.inputs.map g)
    (ho : b.outputs.map f = b.outputs.map g) :
    ({ b with inputs := b.inputs.map f, outputs := b.outputs.map f } : Op) =
      { b with inputs := b.inputs.map g, outputs := b.outputs.map g } := by
  rw [hi, ho]

theorem step_sk (m : Model) (sg0 sg sg' : Subgraph) (inp : TIn) (K : SkInv sg0 sg) (hok : SgOK m sg)
    (D : StepDesc sg sg' inp) (ht : inp.tensor < sg0.tensors.length)
    (hcons : ∀ (j : Nat) b, (j : Int) ∈ inp.consumers → sg.ops[j]? = some b → b.orig ≠ none) :
    SkInv sg0 sg' := by
  have htl := D.tlen
  have hfr : tensorFrame sg' sg0.tensors.length = tensorFrame sg0 sg0.tensors.length := by
    rw [← K.tframe, tensorFrame_eq, tensorFrame_eq]
    obtain ⟨ext, he⟩ := D.tens
    rw [he, List.take_append_of_le_length (by simpa using K.tlen)]
  rcases D.ops with ⟨hops, houts⟩ | ⟨ops2, k, c, hlen, hrw, hk, hops, houts⟩
  · have hr : root sg' = root sg := funext (root_congr sg sg' hops)
    refine ⟨⟨?_, ?_⟩, ?_, ?_, D.inputs.trans K.inputs, hfr, Nat.le_trans K.tlen htl⟩
    · intro o ho hn
      rw [hops] at ho
      obtain ⟨t, n, h1, h2, h3, h4, h5⟩ := K.ins.shape o ho hn
      exact ⟨t, n, h1, h2, h3, h4, by omega⟩
    · rw [hops]; exact K.ins.uniq
    · rw [← K.ops]; simp only [eraseOps, hops, hr]
    · rw [← K.outs]; simp only [eraseOutputs, houts, hr]
  · have hn0 := K.tlen
    obtain ⟨hl2, hpt⟩ := GraphStep.rewire_spec _ _ _ _ _ hrw
    -- the inserted operators of `ops2` are those of `sg.ops`
    have memIns : ∀ o, o ∈ ops2 → o.orig = none → o ∈ sg.ops := by
      intro o ho hn
      obtain ⟨j, hj⟩ := List.mem_iff_getElem?.1 ho
      rcases hpt j with h | ⟨hc, h⟩
      · rw [h] at hj; exact List.mem_of_getElem? hj
      · rw [hj] at h
        cases hb : sg.ops[j]? with
        | none => simp [hb] at h
        | some b =>
          simp only [hb, Option.map_some, Option.some.injEq] at h
          subst h
          exact absurd hn (hcons j b hc hb)
    have memIns' : ∀ o, o ∈ sg.ops → o.orig = none → o ∈ ops2 := by
      intro o ho hn
      obtain ⟨j, hj⟩ := List.mem_iff_getElem?.1 ho
      rcases hpt j with h | ⟨hc, h⟩
      · rw [← h] at hj; exact List.mem_of_getElem? hj
      · exact absurd hn (hcons j o hc hj)
    have mem' : ∀ o, o ∈ sg'.ops ↔ o = newOp c inp.tensor (sg.tensors.length : Int) ∨ o ∈ ops2 := by
      intro o; rw [hops]; exact List.mem_insertIdx hk
    have ins' : InsOK sg0.tensors.length sg' := by
      constructor
      · intro o ho hn
        rcases (mem' o).1 ho with rfl | ho
        · exact ⟨inp.tensor, sg.tensors.length, rfl, rfl, ht, by omega, by omega⟩
        · obtain ⟨t, n, h1, h2, h3, h4, h5⟩ := K.ins.shape o (memIns o ho hn) hn
          exact ⟨t, n, h1, h2, h3, h4, by omega⟩
      · intro o o' ho ho' hn hn' he
        rcases (mem' o).1 ho with rfl | ho <;> rcases (mem' o').1 ho' with rfl | ho'
        · rfl
        · obtain ⟨t, n, h1, h2, h3, h4, h5⟩ := K.ins.shape o' (memIns o' ho' hn') hn'
          rw [h2] at he
          simp only [newOp, List.cons.injEq, and_true] at he
          omega
        · obtain ⟨t, n, h1, h2, h3, h4, h5⟩ := K.ins.shape o (memIns o ho hn) hn
          rw [h2] at he
          simp only [newOp, List.cons.injEq, and_true] at he
          omega
        · exact K.ins.uniq o o' (memIns o ho hn) (memIns o' ho' hn') hn hn' he
    have rootNew : root sg' (sg.tensors.length : Int) = inp.tensor :=
      root_derived _ sg' ins' _ _ _ ((mem' _).2 (.inl rfl)) rfl rfl rfl
    have rootT : root sg inp.tensor = inp.tensor := root_fix_lt _ sg K.ins _ ht
    have rootOld : ∀ x : Int, x < sg.tensors.length → root sg' x = root sg x := by
      intro x hx
      by_cases hex : ∃ o ∈ sg.ops, o.orig = none ∧ o.outputs = [x]
      · obtain ⟨o, ho, hn, hxo⟩ := hex
        obtain ⟨t1, n1, h1, h2, -⟩ := K.ins.shape o ho hn
        rw [root_derived _ sg' ins' o t1 x ((mem' o).2 (.inr (memIns' o ho hn))) hn h1 hxo,
          root_derived _ sg K.ins o t1 x ho hn h1 hxo]
      · rw [root_fix sg x (fun o ho hn he => hex ⟨o, ho, hn, he⟩)]
        apply root_fix
        intro o ho hn he
        rcases (mem' o).1 ho with rfl | ho
        · simp only [newOp, List.cons.injEq, and_true] at he
          omega
        · exact hex ⟨o, memIns o ho hn, hn, he⟩
    have hvalid : ∀ x : Int, x = -1 ∨ ValidT sg x → x < sg.tensors.length := by
      intro x hx
      unfold ValidT at hx
      omega
    have rootRet : ∀ x : Int, x < sg.tensors.length →
        root sg' (if x == inp.tensor then (sg.tensors.length : Int) else x) = root sg x := by
      intro x hx
      by_cases hxt : x = inp.tensor
      · subst hxt
        simp only [beq_self_eq_true, if_true]
        rw [rootNew, rootT]
      · simp only [beq_iff_eq, hxt, if_false]
        exact rootOld x hx
    refine ⟨ins', ?_, ?_, D.inputs.trans K.inputs, hfr, Nat.le_trans K.tlen htl⟩
    · rw [← K.ops]
      unfold eraseOps
      rw [hops, filter_insertIdx _ _ rfl]
      apply filter_map_congr_idx _ _ _ ops2 sg.ops hl2
      intro j a b ha hb
      have hbok := hok.ops j b hb
      have hbi : ∀ x ∈ b.inputs, x < sg.tensors.length := fun x hx =>
        hvalid x ((hbok.ins x hx).imp id (·.1))
      have hbo : ∀ x ∈ b.outputs, x < sg.tensors.length := fun x hx =>
        hvalid x ((hbok.outs x hx).imp id (·.1))
      have hout : b.outputs.map (root sg') = b.outputs.map (root sg) :=
        List.map_congr_left fun x hx => rootOld x (hbo x hx)
      rcases hpt j with h | ⟨hc, h⟩
      · rw [ha, hb] at h
        cases h
        refine ⟨rfl, fun _ => ?_⟩
        exact normOp_congr a _ _ (List.map_congr_left fun x hx => rootOld x (hbi x hx)) hout
      · rw [ha, hb] at h
        simp only [Option.map_some, Option.some.injEq] at h
        subst h
        refine ⟨rfl, fun _ => ?_⟩
        show ({ rew inp.tensor _ b with inputs := (rew inp.tensor _ b).inputs.map (root sg'),
                                        outputs := (rew inp.tensor _ b).outputs.map (root sg') } : Op) =
          { b with inputs := b.inputs.map (root sg), outputs := b.outputs.map (root sg) }
        have hin : (rew inp.tensor (sg.tensors.length : Int) b).inputs.map (root sg') =
            b.inputs.map (root sg) := by
          simp only [rew, List.map_map]
          exact List.map_congr_left fun x hx => rootRet x (hbi x hx)
        rw [hin]
        show ({ b with inputs := b.inputs.map (root sg), outputs := b.outputs.map (root sg') } : Op) = _
        rw [hout]
    · rw [← K.outs]
      unfold eraseOutputs
      rw [houts, List.map_map]
      apply List.map_congr_left
      intro q hq
      have hq' := hvalid q (.inr (hok.outs q hq))
      simp only [Function.comp, retOut]
      split
      · exact rootRet q hq'
      · exact rootOld q hq'

/-! ## signatures -/

/-- the update `updateSigs` applies to one signature -/
def updSig (sgi : Nat) (before after : List Int) (s : Sig) : Sig :=
  if ((before.zip after).filter fun p => p.1 != p.2).isEmpty then s else
    if s.sg != sgi then s else
    { s with outputs := s.outputs.map fun e =>
        match ((((before.zip after).filter fun p => p.1 != p.2)).reverse.find? (·.1 == e.2)) with
        | some p => (e.1, p.2)
        | none => e }

theorem updateSigs_eq (sigs : List Sig) (sgi : Nat) (before after : List Int) :
    updateSigs sigs sgi before after = sigs.map (updSig sgi before after) := by
  unfold updateSigs updSig
  simp only
  split
  · exact (List.map_id' sigs).symm
  · rfl

theorem updSig_other (sgi : Nat) (before after : List Int) (s : Sig) (h : s.sg ≠ sgi) :
    updSig sgi before after s = s := by
  unfold updSig
  split
  · rfl
  · rw [if_pos (by simpa using h)]

theorem updSig_basic (sgi : Nat) (before after : List Int) (s : Sig) :
    (updSig sgi before after s).key = s.key ∧ (updSig sgi before after s).sg = s.sg ∧
    (updSig sgi before after s).inputs = s.inputs ∧
    (updSig sgi before after s).outputs.map (·.1) = s.outputs.map (·.1) := by
  unfold updSig
  split
  · exact ⟨rfl, rfl, rfl, rfl⟩
  · split
    · exact ⟨rfl, rfl, rfl, rfl⟩
    · refine ⟨rfl, rfl, rfl, ?_⟩
      simp only [List.map_map]
      apply List.map_congr_left
      intro e _
      simp only [Function.comp]
      split <;> rfl

theorem mem_zip_map (before : List Int) (f : Int → Int) (p : Int × Int)
    (h : p ∈ before.zip (before.map f)) : p.1 ∈ before ∧ p.2 = f p.1 := by
  obtain ⟨i, hi⟩ := List.mem_iff_getElem?.1 h
  obtain ⟨h1, h2⟩ := List.getElem?_zip_eq_some.1 hi
  rw [List.getElem?_map, h1] at h2
  simp only [Option.map_some, Option.some.injEq] at h2
  exact ⟨List.mem_of_getElem? h1, h2.symm⟩

theorem zip_map_mem (before : List Int) (f : Int → Int) (q : Int) (h : q ∈ before) :
    (q, f q) ∈ before.zip (before.map f) := by
  obtain ⟨i, hi⟩ := List.mem_iff_getElem?.1 h
  apply List.mem_iff_getElem?.2
  exact ⟨i, List.getElem?_zip_eq_some.2 ⟨hi, by rw [List.getElem?_map, hi]; rfl⟩⟩

/-- the updated signature outputs follow the retargeted graph outputs -/
theorem updSig_outs (sgi : Nat) (before : List Int) (f : Int → Int) (s : Sig) (hs : s.sg = sgi)
    (i : Nat) (e' : String × Int) (h : (updSig sgi before (before.map f) s).outputs[i]? = some e') :
    ∃ e, s.outputs[i]? = some e ∧ ∀ q ∈ before, q = e.2 → f q = e'.2 := by
  have hB : ∀ q ∈ before, f q ≠ q →
      (q, f q) ∈ (before.zip (before.map f)).filter fun p => p.1 != p.2 := by
    intro q hq hne
    refine List.mem_filter.2 ⟨zip_map_mem before f q hq, ?_⟩
    simp only [bne_iff_ne, ne_eq]
    exact fun h => hne h.symm
  unfold updSig at h
  split at h
  · rename_i hemp
    refine ⟨e', h, ?_⟩
    intro q hq hqe
    rw [← hqe]
    by_cases hne : f q = q
    · exact hne
    exfalso
    have := hB q hq hne
    rw [List.isEmpty_iff] at hemp
    rw [hemp] at this
    simp at this
  · rw [if_neg (by simpa using hs)] at h
    simp only [List.getElem?_map] at h
    cases he : s.outputs[i]? with
    | none => simp [he] at h
    | some e =>
      refine ⟨e, rfl, ?_⟩
      simp only [he, Option.map_some, Option.some.injEq] at h
      intro q hq hqe
      split at h
      · rename_i p hp
        have hmem := List.mem_of_find?_eq_some hp
        rw [List.mem_reverse] at hmem
        have hp1 := List.find?_some hp
        simp only [beq_iff_eq] at hp1
        obtain ⟨-, h2⟩ := mem_zip_map before f p (List.mem_filter.1 hmem).1
        rw [← h, hqe, ← hp1]
        exact h2.symm
      · rename_i hnone
        rw [List.find?_eq_none] at hnone
        subst h
        rw [← hqe]
        by_cases hne : f q = q
        · exact hne
        exfalso
        have := hnone (q, f q) (List.mem_reverse.2 (hB q hq hne))
        simp only [beq_iff_eq] at this
        exact this hqe

/-- relation between an ORIGINAL signature `s0` (on the original subgraph `sg0`) and its current
    version `s` (on the current subgraph `sg`) -/
structure SigRel (sg0 sg : Subgraph) (s0 s : Sig) : Prop where
  key : s.key = s0.key
  sgi : s.sg = s0.sg
  inputs : s.inputs = s0.inputs
  names : s.outputs.map (·.1) = s0.outputs.map (·.1)
  outs : ∀ (i j : Nat) (e0 e : String × Int) (q0 q : Int), s0.outputs[i]? = some e0 →
    s.outputs[i]? = some e → sg0.outputs[j]? = some q0 → sg.outputs[j]? = some q → q0 = e0.2 → q = e.2

theorem SigRel_step (sg0 sg sg' : Subgraph) (s0 s : Sig) (sgi : Nat) (f : Int → Int)
    (R : SigRel sg0 sg s0 s) (hs : s.sg = sgi) (hf : sg'.outputs = sg.outputs.map f) :
    SigRel sg0 sg' s0 (updSig sgi sg.outputs sg'.outputs s) := by
  obtain ⟨b1, b2, b3, b4⟩ := updSig_basic sgi sg.outputs sg'.outputs s
  refine ⟨b1.trans R.key, b2.trans R.sgi, b3.trans R.inputs, b4.trans R.names, ?_⟩
  intro i j e0 e' q0 q' h1 h2 h3 h4 h5
  rw [hf] at h2 h4
  obtain ⟨e, he, hfe⟩ := updSig_outs sgi sg.outputs f s hs i e' h2
  rw [List.getElem?_map] at h4
  cases hq : sg.outputs[j]? with
  | none => simp [hq] at h4
  | some q =>
    simp only [hq, Option.map_some, Option.some.injEq] at h4
    rw [← h4]
    exact hfe q (List.mem_of_getElem? hq) (R.outs i j e0 e q0 q h1 he h3 hq h5)

theorem sameSig_of_rel (sg0 sg : Subgraph) (s0 s : Sig) (R : SigRel sg0 sg s0 s) :
    sameSig sg0 sg s0 s = true := by
  unfold sameSig
  simp only [Bool.and_eq_true, beq_iff_eq, List.all_eq_true, Bool.or_eq_true, bne_iff_ne, ne_eq,
    decide_eq_true_eq]
  refine ⟨⟨⟨⟨R.key, R.sgi⟩, R.inputs⟩, R.names⟩, ?_⟩
  intro p hp q hq
  obtain ⟨i, hi⟩ := List.mem_iff_getElem?.1 hp
  obtain ⟨j, hj⟩ := List.mem_iff_getElem?.1 hq
  obtain ⟨h1, h2⟩ := List.getElem?_zip_eq_some.1 hi
  obtain ⟨h3, h4⟩ := List.getElem?_zip_eq_some.1 hj
  by_cases hqe : q.1 = p.1.2
  · exact .inl (.inr (R.outs i j p.1 p.2 q.1 q.2 h1 h2 h3 h4 hqe))
  · exact .inl (.inl hqe)

/-! ## the model-level invariant -/

structure SkAll (m0 cur : Model) : Prop where
  sgs : ∀ (s : Nat) (sg0 sg : Subgraph), m0.subgraphs[s]? = some sg0 → cur.subgraphs[s]? = some sg →
    SkInv sg0 sg
  nsig : cur.sigs.length = m0.sigs.length
  sigs : ∀ (i : Nat) (s0 s : Sig) (sg0 sg : Subgraph), m0.sigs[i]? = some s0 → cur.sigs[i]? = some s →
    m0.subgraphs[s0.sg]? = some sg0 → cur.subgraphs[s0.sg]? = some sg → SigRel sg0 sg s0 s

theorem origTagged_spec (m : Model) (h : origTagged m = true) (sg : Subgraph) (hsg : sg ∈ m.subgraphs)
    (o : Op) (ho : o ∈ sg.ops) : o.orig ≠ none := by
  unfold origTagged at h
  rw [List.all_eq_true] at h
  have h1 := h sg hsg
  rw [List.all_eq_true] at h1
  obtain ⟨k, hk⟩ := List.mem_iff_getElem?.1 ho
  have h2 := h1 (o, k) (List.mem_zipIdx_iff_getElem?.2 hk)
  simp only [beq_iff_eq] at h2
  rw [h2]
  simp

theorem skInv_init (sg : Subgraph) (h : ∀ o ∈ sg.ops, o.orig ≠ none) : SkInv sg sg := by
  have hr : ∀ x, root sg x = x := fun x => root_fix sg x (fun o ho hn => absurd hn (h o ho))
  have hr' : root sg = id := funext hr
  refine ⟨⟨fun o ho hn => absurd hn (h o ho), fun o _ ho _ hn => absurd hn (h o ho)⟩, ?_, ?_, rfl, rfl,
    Nat.le_refl _⟩
  · unfold eraseOps
    rw [List.filter_eq_self.2 (fun o ho => by
      cases hh : o.orig with
      | none => exact absurd hh (h o ho)
      | some _ => rfl)]
    simp only [hr', List.map_id_fun, id_eq]
    exact List.map_id' _
  · unfold eraseOutputs
    rw [hr']
    exact List.map_id _

theorem skAll_init (m : Model) (htag : origTagged m = true) : SkAll m m := by
  refine ⟨?_, rfl, ?_⟩
  · intro s sg0 sg h0 h1
    rw [h0] at h1
    cases h1
    exact skInv_init sg0 (origTagged_spec m htag sg0 (List.mem_of_getElem? h0))
  · intro i s0 s sg0 sg h0 h1 h2 h3
    rw [h0] at h1
    cases h1
    rw [h2] at h3
    cases h3
    exact ⟨rfl, rfl, rfl, rfl, fun i j e0 e q0 q a1 a2 a3 a4 a5 => by
      rw [a1] at a2; cases a2
      rw [a3] at a4; cases a4
      exact a5⟩

/-! ## one instruction -/

/-- the translated consumer positions are positions of ORIGINAL operators -/
theorem consumers_orig (m0 : Model) (sg0 : Subgraph) (m : Model) (sg : Subgraph) (om : List Int)
    (ins : Inst) (consumers : List Int) (I : SgInv m0 sg0 m sg om) (K : SkInv sg0 sg)
    (hok0 : SgOK m0 sg0)
    (hcons : ins.consumers.mapM (fun c => if c < 0 then pure (-1 : Int) else Py.index om c) = .ok consumers)
    (j : Nat) (b : Op) (hj : (j : Int) ∈ consumers) (hb : sg.ops[j]? = some b) : b.orig ≠ none := by
  intro hn
  obtain ⟨c, hc, hfc⟩ := mapM_ok _ _ _ hcons (j : Int) hj
  by_cases hc0 : c < 0
  · rw [if_pos hc0] at hfc
    simp only [pure, Except.pure, Except.ok.injEq] at hfc
    omega
  · rw [if_neg hc0] at hfc
    have hget := index_ok _ _ _ (by omega) hfc
    have hlt : c.toNat < sg0.ops.length := by
      rw [← I.len]; exact (List.getElem?_eq_some_iff.1 hget).1
    have ho0 : sg0.ops[c.toNat]? = some sg0.ops[c.toNat] := List.getElem?_eq_getElem hlt
    obtain ⟨-, o, ho, hout⟩ := I.outs c.toNat (j : Int) _ hget ho0
    simp only [Int.toNat_natCast] at ho
    rw [hb] at ho
    cases ho
    obtain ⟨t, n, -, h2, -, h4, -⟩ := K.ins.shape b (List.mem_of_getElem? hb) hn
    have hmem : n ∈ sg0.ops[c.toNat].outputs := by rw [← hout, h2]; simp
    have := (hok0.ops _ _ ho0).outs n hmem
    unfold ValidT at this
    omega

theorem applySingle_sk (pt : PTable) (m0 : Model) (st st' : PState) (ti ti' : TInsts) (idx : Nat)
    (sg0 : Subgraph) (ins : Inst) (hwf0 : WF.modelOK m0 = true)
    (hinv : Inv m0 st) (hsk : SkAll m0 st.model)
    (hsg0 : m0.subgraphs[ti.sg]? = some sg0) (hins : ti.insts[idx]? = some ins)
    (hok : InstOK pt m0 sg0 ins)
    (h : applySingle pt st ti idx = .ok (st', ti')) : SkAll m0 st'.model := by
  have hlt : ti.sg < m0.subgraphs.length := (List.getElem?_eq_some_iff.1 hsg0).1
  obtain ⟨om, hom⟩ : ∃ om, st.origMap[ti.sg]? = some om :=
    ⟨_, List.getElem?_eq_getElem (by rw [hinv.nom]; exact hlt)⟩
  obtain ⟨am, ham⟩ : ∃ am, st.addedMap[ti.sg]? = some am :=
    ⟨_, List.getElem?_eq_getElem (by rw [hinv.nam]; exact hlt)⟩
  obtain ⟨sgc, hsgc⟩ : ∃ sgc, st.model.subgraphs[ti.sg]? = some sgc :=
    ⟨_, List.getElem?_eq_getElem (by rw [hinv.nsg]; exact hlt)⟩
  have I := hinv.sg _ _ _ _ hsg0 hsgc hom
  have K := hsk.sgs _ _ _ hsg0 hsgc
  obtain ⟨producer, consumers, m', info, sgAfter, am', newProd, hprod, hcons, hrun, hsa, rfl, -⟩ :=
    applySingle_spec pt st st' ti ti' idx ins om am sgc hins hom ham hsgc h
  have hinp := inpOK_of_inv pt m0 sg0 st.model sgc om am ins producer consumers I hok hprod hcons
  obtain ⟨-, ⟨sg', F⟩, -⟩ := runXf_ok pt st.model m' ti.sg sgc ins.xf _ info hsgc hinv.wf hinp hrun
  have D := runXf_desc pt st.model m' ti.sg sgc sgAfter ins.xf _ info hsgc hinp hrun hsa
  have hsgok : SgOK st.model sgc := ((modelOK_iff _).1 hinv.wf).2.1 sgc (List.mem_of_getElem? hsgc)
  have hok0 : SgOK m0 sg0 := ((modelOK_iff _).1 hwf0).2.1 sg0 (List.mem_of_getElem? hsg0)
  have hv := (validT_iff _ _).1 hok.tvalid
  have K' : SkInv sg0 sgAfter :=
    step_sk st.model sg0 sgc sgAfter _ K hsgok D hv.2
      (fun j b hj hb => consumers_orig m0 sg0 st.model sgc om ins consumers I K hok0 hcons j b hj hb)
  have hsubs : ∀ s, s ≠ ti.sg → m'.subgraphs[s]? = st.model.subgraphs[s]? := by
    intro s hs
    rw [F.subs, List.getElem?_set_ne (fun e => hs e.symm)]
  obtain ⟨f, hf⟩ : ∃ f, sgAfter.outputs = sgc.outputs.map f := by
    rcases D.ops with ⟨-, ho⟩ | ⟨_, _, _, _, _, _, _, ho⟩
    · exact ⟨id, by rw [ho, List.map_id]⟩
    · exact ⟨_, ho⟩
  refine ⟨?_, ?_, ?_⟩
  · intro s sg0s sgs h0 h1
    simp only at h1
    by_cases hs : s = ti.sg
    · subst hs
      rw [hsg0] at h0; cases h0
      rw [hsa] at h1; cases h1
      exact K'
    · rw [hsubs s hs] at h1
      exact hsk.sgs s sg0s sgs h0 h1
  · show (updateSigs m'.sigs ti.sg sgc.outputs sgAfter.outputs).length = _
    rw [updateSigs_eq, List.length_map, F.sigs]
    exact hsk.nsig
  · intro i s0 s1 sg0s sgs h0 h1 h2 h3
    simp only at h1 h3
    rw [updateSigs_eq, List.getElem?_map, F.sigs] at h1
    cases hsi : st.model.sigs[i]? with
    | none => simp [hsi] at h1
    | some s =>
      simp only [hsi, Option.map_some, Option.some.injEq] at h1
      subst h1
      by_cases hs : s0.sg = ti.sg
      · rw [hs] at h2 h3
        rw [hsg0] at h2; cases h2
        rw [hsa] at h3; cases h3
        have R := hsk.sigs i s0 s sg0 sgc h0 hsi (hs ▸ hsg0) (hs ▸ hsgc)
        exact SigRel_step sg0 sgc sgAfter s0 s ti.sg f R (R.sgi.trans hs) hf
      · rw [hsubs _ hs] at h3
        have R := hsk.sigs i s0 s sg0s sgs h0 hsi h2 h3
        rw [updSig_other _ _ _ _ (by rw [R.sgi]; exact hs)]
        exact R

/-! ## all instructions of one tensor, all tensors -/

theorem applyAll_sk (pt : PTable) (m0 : Model) (st st' : PState) (ti : TInsts)
    (hwf0 : WF.modelOK m0 = true) (hinv : Inv m0 st) (hsk : SkAll m0 st.model)
    (hok : TInstsOK pt m0 ti) (h : applyAll pt st ti = .ok st') : SkAll m0 st'.model := by
  obtain ⟨sg0, hsg0, hall⟩ := hok.insts
  unfold applyAll at h
  simp only at h
  obtain ⟨cur, hloop, h⟩ := bind_ok _ _ _ h
  have hP : (Inv m0 cur.1 ∧ SkAll m0 cur.1.model) ∧ cur.2 = ti := by
    refine forIn_inv _ (fun c => (Inv m0 c.1 ∧ SkAll m0 c.1.model) ∧ c.2 = ti) _ (st, ti) cur
      ⟨⟨hinv, hsk⟩, rfl⟩ ?_ hloop
    rintro idx - ⟨s, t⟩ s' ⟨⟨hI, hK⟩, ht⟩ hf
    simp only at hI hK ht hf
    subst ht
    cases hi : t.insts[idx]? with
    | none =>
      simp only [hi] at hf
      cases hf
      exact ⟨⟨hI, hK⟩, rfl⟩
    | some i =>
      simp only [hi] at hf
      split at hf
      · obtain ⟨c, hc, hf⟩ := bind_ok _ _ _ hf
        cases hf
        obtain ⟨c1, c2⟩ := c
        have hiok := hall i (List.mem_of_getElem? hi)
        obtain ⟨a1, a2⟩ := applySingle_inv pt m0 s c1 t c2 idx sg0 i hI hsg0 hi hiok hok.noChain hc
        exact ⟨⟨a1, applySingle_sk pt m0 s c1 t c2 idx sg0 i hwf0 hI hK hsg0 hi hiok hc⟩, a2⟩
      · cases hf
        exact ⟨⟨hI, hK⟩, rfl⟩
  split at h
  · obtain ⟨_, e, _⟩ := bind_ok _ _ _ h
    cases e
  · cases h
    exact hP.1.2

theorem sameSkeleton_of_inv (sg0 sg : Subgraph) (K : SkInv sg0 sg) : sameSkeleton sg0 sg = true := by
  unfold sameSkeleton
  simp only [Bool.and_eq_true, beq_iff_eq, decide_eq_true_eq]
  exact ⟨⟨⟨⟨K.ops, K.outs⟩, K.inputs⟩, K.tframe⟩, K.tlen⟩

theorem sameModelSkeleton_of_inv (m m' : Model) (hwf : WF.modelOK m = true)
    (hn : m'.subgraphs.length = m.subgraphs.length) (hsk : SkAll m m') :
    sameModelSkeleton m m' = true := by
  unfold sameModelSkeleton
  simp only [Bool.and_eq_true, beq_iff_eq, List.all_eq_true]
  refine ⟨⟨⟨hn.symm, ?_⟩, hsk.nsig.symm⟩, ?_⟩
  · intro p hp
    obtain ⟨i, hi⟩ := List.mem_iff_getElem?.1 hp
    obtain ⟨h1, h2⟩ := List.getElem?_zip_eq_some.1 hi
    exact sameSkeleton_of_inv _ _ (hsk.sgs i p.1 p.2 h1 h2)
  · intro p hp
    obtain ⟨i, hi⟩ := List.mem_iff_getElem?.1 hp
    obtain ⟨h1, h2⟩ := List.getElem?_zip_eq_some.1 hi
    have hsig := ((modelOK_iff m).1 hwf).2.2 p.1 (List.mem_of_getElem? h1)
    unfold WF.sigOK at hsig
    cases hsg : m.subgraphs[p.1.sg]? with
    | none => simp [hsg] at hsig
    | some sg =>
      have hlt : p.1.sg < m'.subgraphs.length := by
        rw [hn]; exact (List.getElem?_eq_some_iff.1 hsg).1
      have hsg' : m'.subgraphs[p.1.sg]? = some m'.subgraphs[p.1.sg] := List.getElem?_eq_getElem hlt
      rw [hsg']
      exact sameSig_of_rel _ _ _ _ (hsk.sigs i p.1 p.2 sg _ h1 h2 hsg hsg')

/-- **erasing the inserted QUANTIZE/DEQUANTIZE operators from the result gives back the input
    graph**: same operators in the same order with the same operands/results (`orig` stands for the
    options), no original tensor renamed/reshaped/dropped, graph inputs unchanged, graph outputs
    and signature outputs denote the same original tensors, signatures keep key and argument names -/
theorem transformGraph_skeleton (pt : PTable) (m m' : Model) (tis : List TInsts)
    (hwf : WF.modelOK m = true) (htag : origTagged m = true)
    (hok : ∀ ti ∈ tis, TInstsOK pt m ti)
    (h : transformGraph pt m tis = .ok m') : sameModelSkeleton m m' = true := by
  unfold transformGraph at h
  simp only at h
  obtain ⟨st, hfold, h⟩ := bind_ok _ _ _ h
  cases h
  have hI : Inv m st ∧ SkAll m st.model :=
    foldlM_inv (applyAll pt) (fun s => Inv m s ∧ SkAll m s.model) tis _ st
      ⟨inv_init m hwf, skAll_init m htag⟩
      (fun ti hti s s' hs hf => ⟨applyAll_inv pt m s s' ti hs.1 (hok ti hti) hf,
        applyAll_sk pt m s s' ti hwf hs.1 hs.2 (hok ti hti) hf⟩) hfold
  exact sameModelSkeleton_of_inv m st.model hwf hI.1.nsg hI.2

end SkeletonProof
