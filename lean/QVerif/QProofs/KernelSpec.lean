import QProofs.Rounding
import QProps.C07
import QProps.C17
import Mathlib.Tactic.Ring
import Mathlib.Tactic.Linarith
import Mathlib.Tactic.Positivity
import Mathlib.Tactic.NormNum
/-!
# Real-valued specification of the LiteRT kernels the quantizer targets, and what the quantizer's
# parameters guarantee for them (lemmas for `QProps/C06b.lean`, `QProps/C07b.lean`)

The kernels are **outside** the model (`QModel/**` stops at the flatbuffer).  This file writes down, over
exact `Rat`, what the TFLite quantization specification says the kernels compute:

* the *hybrid* (dynamic-range) fully-connected row: `tensor_utils::SymmetricQuantizeFloats` on the
  activations of one batch row (`sx = max|x| / 127`, `qx_i = clip(round(x_i / sx), -127, 127)`; when
  `max|x| = 0` all codes are 0 and the row result is the bias), then `y = sx·sw·Σ qx_i·qw_i + b`.  The
  library never sets `asymmetric_quantize_inputs`, so the symmetric variant is the one that runs.
* the *integer* fully-connected row: `qy = clip(round(acc·(sx·sw/sy)) + zy, qmin, qmax)` with
  `acc = Σ (qx_i − zx)·qw_i + qb` (`C07.acc`);
* the integer element-wise ADD: `qy = clip(round((s1(q1−z1) + s2(q2−z2))/sy) + zy, qmin, qmax)`.

**Rounding.**  `std::round` (`TfLiteRound`) rounds half away from zero, numpy rounds half to even.  All
theorems are stated for an ARBITRARY rounding `r : Rat → Int` with `|r t − t| ≤ 1/2` (`IsRounding`), so they
do not depend on tie-breaking; `Num.rhe` (half to even) and `rha` (half away from zero) are instances.

**Not modelled.**  The kernels' fixed-point rescaling (`acc·(sx·sw/sy)` is really a 32-bit multiplier and a
shift, `MultiplyByQuantizedMultiplier`; known findings D29/D33 are about it), float32 evaluation of the
hybrid kernel, and 32-bit accumulator overflow.  The theorems are about the real-valued specification.
-/
open Num

set_option autoImplicit false

namespace KernelSpec

/-! ## roundings -/

/-- a rounding to the nearest integer, with any tie-breaking rule -/
def IsRounding (r : Rat → Int) : Prop := ∀ t : Rat, |((r t : Int) : Rat) - t| ≤ 1/2

/-- numpy's `rint` (half to even) -/
theorem rhe_isRounding : IsRounding rhe := Rounding.rhe_err

/-- `std::round` / `TfLiteRound`: half away from zero -/
def rha (t : Rat) : Int := if 0 ≤ t then (t + 1/2).floor else -((-t + 1/2).floor)

theorem rha_isRounding : IsRounding rha := by
  intro t
  unfold rha
  split_ifs
  · have h1 := Rounding.floor_le' (t + 1/2)
    have h2 := Rounding.lt_floor_add_one' (t + 1/2)
    rw [abs_le]; constructor <;> linarith
  · have h1 := Rounding.floor_le' (-t + 1/2)
    have h2 := Rounding.lt_floor_add_one' (-t + 1/2)
    rw [abs_le]; push_cast; constructor <;> linarith

/-- the two tie-breaking rules really differ -/
example : rhe (1/2) = 0 ∧ rha (1/2) = 1 ∧ rhe (5/2) = 2 ∧ rha (5/2) = 3 ∧ rha (-1/2) = -1 := by decide +kernel

/-! ## clipping -/

/-- clipping an integer to `[lo, hi]` does not move it away from a real number of `[lo, hi]` -/
theorem clipI_closer (n lo hi : Int) (u : Rat) (h1 : (lo : Rat) ≤ u) (h2 : u ≤ (hi : Rat)) :
    |((clipI n lo hi : Int) : Rat) - u| ≤ |(n : Rat) - u| := by
  unfold clipI
  split_ifs with a b
  · have : (n : Rat) < lo := by exact_mod_cast a
    rw [abs_of_nonpos (by linarith), abs_of_nonpos (by linarith)]; linarith
  · have : (hi : Rat) < n := by exact_mod_cast b
    rw [abs_of_nonneg (by linarith), abs_of_nonneg (by linarith)]; linarith
  · exact le_refl _

/-- `np.clip` on rationals is 1-Lipschitz -/
theorem clipR_lipschitz (lo hi a b : Rat) (h : lo ≤ hi) : |clipR a lo hi - clipR b lo hi| ≤ |a - b| := by
  unfold clipR
  split_ifs <;> rw [abs_le] <;> constructor <;>
    first
    | (rcases abs_cases (a - b) with ⟨e, _⟩ | ⟨e, _⟩ <;> rw [e] <;> linarith)

theorem clipR_id (lo hi v : Rat) (h1 : lo ≤ v) (h2 : v ≤ hi) : clipR v lo hi = v := by
  unfold clipR
  rw [if_neg (by linarith), if_neg (by linarith)]

/-- dequantization `s·(q − z)` -/
def deq (s : Rat) (z q : Int) : Rat := s * ((q - z : Int) : Rat)

/-- dequantization commutes with clipping: the dequantized clipped code is the dequantized code clipped to
    the representable range `[s(qmin − z), s(qmax − z)]` -/
theorem deq_clipI (s : Rat) (hs : 0 < s) (z n lo hi : Int) :
    deq s z (clipI n lo hi) = clipR (deq s z n) (deq s z lo) (deq s z hi) := by
  unfold clipI clipR deq
  by_cases a : n < lo
  · have : s * ((n - z : Int) : Rat) < s * ((lo - z : Int) : Rat) :=
      mul_lt_mul_of_pos_left (by exact_mod_cast (by omega : n - z < lo - z)) hs
    rw [if_pos a, if_pos this]
  · have a' : ¬ s * ((n - z : Int) : Rat) < s * ((lo - z : Int) : Rat) := by
      rw [not_lt]
      exact mul_le_mul_of_nonneg_left (by exact_mod_cast (by omega : lo - z ≤ n - z)) (le_of_lt hs)
    rw [if_neg a, if_neg a']
    by_cases b : n > hi
    · have : s * ((n - z : Int) : Rat) > s * ((hi - z : Int) : Rat) :=
        mul_lt_mul_of_pos_left (by exact_mod_cast (by omega : hi - z < n - z)) hs
      rw [if_pos b, if_pos this]
    · have b' : ¬ s * ((n - z : Int) : Rat) > s * ((hi - z : Int) : Rat) := by
        rw [not_lt]
        exact mul_le_mul_of_nonneg_left (by exact_mod_cast (by omega : n - z ≤ hi - z)) (le_of_lt hs)
      rw [if_neg b, if_neg b']

/-! ## sums -/

/-- `max |x_i|` -/
def maxAbs : List Rat → Rat
  | [] => 0
  | x :: xs => max |x| (maxAbs xs)

theorem maxAbs_nonneg : ∀ xs : List Rat, 0 ≤ maxAbs xs
  | [] => le_refl _
  | x :: _ => le_trans (abs_nonneg x) (le_max_left _ _)

theorem le_maxAbs : ∀ (xs : List Rat) (t : Rat), t ∈ xs → |t| ≤ maxAbs xs
  | [], _, h => by cases h
  | x :: xs, t, h => by
    rcases List.mem_cons.mp h with rfl | h
    · exact le_max_left _ _
    · exact le_trans (le_maxAbs xs t h) (le_max_right _ _)

/-- `Σ |w_i|` -/
def absSum : List Rat → Rat
  | [] => 0
  | w :: ws => |w| + absSum ws

theorem absSum_nonneg : ∀ ws : List Rat, 0 ≤ absSum ws
  | [] => le_refl _
  | w :: ws => add_nonneg (abs_nonneg w) (absSum_nonneg ws)

/-- `Σ |q_i|` of integer codes -/
def l1 : List Int → Rat
  | [] => 0
  | q :: qs => |(q : Rat)| + l1 qs

theorem l1_nonneg : ∀ qs : List Int, 0 ≤ l1 qs
  | [] => le_refl _
  | _ :: qs => add_nonneg (abs_nonneg _) (l1_nonneg qs)

/-- dequantized symmetric weights `sw·q_i` -/
def deqW (sw : Rat) (qw : List Int) : List Rat := qw.map fun (q : Int) => sw * (q : Rat)

theorem absSum_deqW (sw : Rat) : ∀ qw : List Int, absSum (deqW sw qw) = |sw| * l1 qw
  | [] => by simp [deqW, absSum, l1]
  | q :: qs => by
    have ih := absSum_deqW sw qs
    simp only [deqW, List.map_cons, absSum, l1] at ih ⊢
    rw [ih, abs_mul]; ring

/-- integer dot product `Σ a_i·b_i` -/
def idot : List Int → List Int → Int
  | a :: as, b :: bs => a * b + idot as bs
  | _, _ => 0

/-! ## 1. the hybrid (dynamic-range) fully-connected row -/

/-- the runtime's activation scale of one batch row -/
def drqScale (x : List Rat) : Rat := maxAbs x / 127

/-- the runtime's activation code -/
def drqCode (r : Rat → Int) (sx t : Rat) : Int := clipI (r (t / sx)) (-127) 127

/-- hybrid kernel, one output row: `sx·sw·Σ qx_i·qw_i + b` (the bias alone when the activations are all 0) -/
def hybridRow (r : Rat → Int) (x : List Rat) (qw : List Int) (sw b : Rat) : Rat :=
  if maxAbs x = 0 then b
  else drqScale x * sw * ((idot (x.map (drqCode r (drqScale x))) qw : Int) : Rat) + b

/-- the reference of property C06: the float operator on the DEQUANTIZED weights -/
def refRow (x : List Rat) (qw : List Int) (sw b : Rat) : Rat := C07.dot x (deqW sw qw) + b

/-- one activation: the dequantized code is within half a step -/
theorem drqCode_err (r : Rat → Int) (hr : IsRounding r) (sx : Rat) (hs : 0 < sx) (t : Rat)
    (ht : |t| ≤ 127 * sx) : |sx * ((drqCode r sx t : Int) : Rat) - t| ≤ sx / 2 := by
  obtain ⟨t1, t2⟩ := abs_le.mp ht
  have u1 : ((-127 : Int) : Rat) ≤ t / sx := by rw [le_div_iff₀ hs]; push_cast; linarith
  have u2 : t / sx ≤ ((127 : Int) : Rat) := by rw [div_le_iff₀ hs]; push_cast; linarith
  have hc := le_trans (clipI_closer (r (t / sx)) (-127) 127 (t / sx) u1 u2) (hr (t / sx))
  have e : sx * ((drqCode r sx t : Int) : Rat) - t = sx * (((drqCode r sx t : Int) : Rat) - t / sx) := by
    field_simp
  rw [e, abs_mul, abs_of_pos hs]
  unfold drqCode
  calc sx * |((clipI (r (t / sx)) (-127) 127 : Int) : Rat) - t / sx| ≤ sx * (1/2) :=
        mul_le_mul_of_nonneg_left hc (le_of_lt hs)
    _ = sx / 2 := by ring

/-- the bound for ANY activation scale that covers the activations -/
theorem drq_core (r : Rat → Int) (hr : IsRounding r) (sx : Rat) (hs : 0 < sx) (sw : Rat) :
    ∀ (x : List Rat) (qw : List Int), (∀ t ∈ x, |t| ≤ 127 * sx) →
      |sx * sw * ((idot (x.map (drqCode r sx)) qw : Int) : Rat) - C07.dot x (deqW sw qw)|
        ≤ sx / 2 * absSum (deqW sw qw) := by
  intro x
  induction x with
  | nil =>
    intro qw _
    simp only [List.map_nil, idot, C07.dot, Int.cast_zero, mul_zero, sub_zero, abs_zero]
    exact mul_nonneg (by linarith) (absSum_nonneg _)
  | cons t ts ih =>
    intro qw hx
    cases qw with
    | nil => simp [idot, C07.dot, deqW, absSum]
    | cons q qs =>
      have h0 := drqCode_err r hr sx hs t (hx t (by simp))
      have h1 := ih qs (fun u hu => hx u (by simp [hu]))
      simp only [List.map_cons, idot, C07.dot, deqW, absSum] at h1 ⊢
      have e : sx * sw * ((drqCode r sx t * q + idot (ts.map (drqCode r sx)) qs : Int) : Rat)
            - (t * (sw * (q : Rat)) + C07.dot ts (qs.map fun (q : Int) => sw * (q : Rat)))
          = (sw * (q : Rat)) * (sx * ((drqCode r sx t : Int) : Rat) - t)
            + (sx * sw * ((idot (ts.map (drqCode r sx)) qs : Int) : Rat)
                - C07.dot ts (qs.map fun (q : Int) => sw * (q : Rat))) := by
        push_cast; ring
      rw [e]
      have a1 : |(sw * (q : Rat)) * (sx * ((drqCode r sx t : Int) : Rat) - t)| ≤ |sw * (q : Rat)| * (sx / 2) := by
        rw [abs_mul]; exact mul_le_mul_of_nonneg_left h0 (abs_nonneg _)
      have a2 := abs_add_le ((sw * (q : Rat)) * (sx * ((drqCode r sx t : Int) : Rat) - t))
        (sx * sw * ((idot (ts.map (drqCode r sx)) qs : Int) : Rat) - C07.dot ts (qs.map fun (q : Int) => sw * (q : Rat)))
      linarith

theorem dot_zero_of_maxAbs : ∀ (x ws : List Rat), maxAbs x = 0 → C07.dot x ws = 0
  | [], _, _ => by simp [C07.dot]
  | _ :: _, [], _ => by simp [C07.dot]
  | t :: ts, w :: ws, h => by
    have h1 : |t| ≤ 0 := h ▸ le_maxAbs (t :: ts) t (by simp)
    have h2 : maxAbs ts ≤ 0 := h ▸ (le_max_right |t| (maxAbs ts))
    have ht : t = 0 := abs_eq_zero.mp (le_antisymm h1 (abs_nonneg t))
    have := dot_zero_of_maxAbs ts ws (le_antisymm h2 (maxAbs_nonneg ts))
    simp [C07.dot, ht, this]

/-- **dynamic-range row bound, general weight-scale sign**: `|y − y_ref| ≤ (sx/2)·Σ|sw·qw_i|` -/
theorem drq_row_bound_abs (r : Rat → Int) (hr : IsRounding r) (x : List Rat) (qw : List Int) (sw b : Rat) :
    |hybridRow r x qw sw b - refRow x qw sw b| ≤ drqScale x / 2 * absSum (deqW sw qw) := by
  unfold hybridRow refRow
  by_cases h0 : maxAbs x = 0
  · rw [if_pos h0, dot_zero_of_maxAbs x _ h0]
    simp only [zero_add, sub_self, abs_zero]
    exact mul_nonneg (by unfold drqScale; rw [h0]; norm_num) (absSum_nonneg _)
  · rw [if_neg h0]
    have hpos : 0 < maxAbs x := lt_of_le_of_ne (maxAbs_nonneg x) (Ne.symm h0)
    have hs : 0 < drqScale x := by unfold drqScale; positivity
    have hcov : ∀ t ∈ x, |t| ≤ 127 * drqScale x := by
      intro t ht
      have := le_maxAbs x t ht
      unfold drqScale; linarith
    have := drq_core r hr (drqScale x) hs sw x qw hcov
    have e : drqScale x * sw * ((idot (x.map (drqCode r (drqScale x))) qw : Int) : Rat) + b
        - (C07.dot x (deqW sw qw) + b)
        = drqScale x * sw * ((idot (x.map (drqCode r (drqScale x))) qw : Int) : Rat)
          - C07.dot x (deqW sw qw) := by ring
    rw [e]; exact this

/-- **dynamic-range row bound**: `|y − y_ref| ≤ (sx/2)·sw·Σ|qw_i|` -/
theorem drq_row_bound (r : Rat → Int) (hr : IsRounding r) (x : List Rat) (qw : List Int) (sw b : Rat)
    (hsw : 0 ≤ sw) :
    |hybridRow r x qw sw b - refRow x qw sw b| ≤ drqScale x / 2 * sw * l1 qw := by
  have := drq_row_bound_abs r hr x qw sw b
  rw [absSum_deqW, abs_of_nonneg hsw] at this
  linarith

/-- relative form: `≤ (max|x| / 254)·Σ|sw·qw_i|` -/
theorem drq_row_bound_rel (r : Rat → Int) (hr : IsRounding r) (x : List Rat) (qw : List Int) (sw b : Rat) :
    |hybridRow r x qw sw b - refRow x qw sw b| ≤ maxAbs x / 254 * absSum (deqW sw qw) := by
  have := drq_row_bound_abs r hr x qw sw b
  have e : drqScale x / 2 = maxAbs x / 254 := by unfold drqScale; ring
  rwa [e] at this

/-! ### the bound is attained -/

/-- an integer within `1/2` of `1/2` is `0` or `1`, whatever the tie-breaking rule -/
theorem round_half (r : Rat → Int) (hr : IsRounding r) : r (1/2) = 0 ∨ r (1/2) = 1 := by
  obtain ⟨h1, h2⟩ := abs_le.mp (hr (1/2))
  have a : (0 : Rat) ≤ ((r (1/2) : Int) : Rat) := by linarith
  have b : ((r (1/2) : Int) : Rat) ≤ 1 := by linarith
  have a' : (0 : Int) ≤ r (1/2) := by exact_mod_cast a
  have b' : r (1/2) ≤ (1 : Int) := by exact_mod_cast b
  omega

theorem maxAbs_witness : maxAbs [127, 1/2] = 127 := by
  simp only [maxAbs]
  rw [abs_of_nonneg (by norm_num), abs_of_nonneg (by norm_num), max_eq_left (by norm_num)]

/-- **the bound is attained with equality**, for every rounding rule, every weight scale and bias:
    activations `[127, 1/2]` (so `sx = 1`, the second activation is a tie), weight codes `[0, 1]` -/
theorem drq_row_bound_attained (r : Rat → Int) (hr : IsRounding r) (sw b : Rat) (hsw : 0 ≤ sw) :
    |hybridRow r [127, 1/2] [0, 1] sw b - refRow [127, 1/2] [0, 1] sw b|
      = drqScale [127, 1/2] / 2 * sw * l1 [0, 1] := by
  have hs : drqScale [127, 1/2] = 1 := by unfold drqScale; rw [maxAbs_witness]; norm_num
  unfold hybridRow refRow
  rw [if_neg (by rw [maxAbs_witness]; norm_num), hs]
  simp only [List.map_cons, List.map_nil, idot, C07.dot, deqW, l1, drqCode]
  rcases round_half r hr with h | h
  · have h' : r (1 / 2 / 1) = 0 := by rw [div_one]; exact h
    rw [h']
    have : clipI 0 (-127) 127 = 0 := by decide
    rw [this]
    have e : (1:Rat) * sw * ((clipI (r (127 / 1)) (-127) 127 * 0 + (0 * 1 + 0) : Int) : Rat) + b
        - (127 * (sw * ((0:Int):Rat)) + (1 / 2 * (sw * ((1:Int):Rat)) + 0) + b) = -(sw / 2) := by
      push_cast; ring
    rw [e, abs_neg, abs_of_nonneg (by linarith)]
    norm_num
    ring
  · have h' : r (1 / 2 / 1) = 1 := by rw [div_one]; exact h
    rw [h']
    have : clipI 1 (-127) 127 = 1 := by decide
    rw [this]
    have e : (1:Rat) * sw * ((clipI (r (127 / 1)) (-127) 127 * 0 + (1 * 1 + 0) : Int) : Rat) + b
        - (127 * (sw * ((0:Int):Rat)) + (1 / 2 * (sw * ((1:Int):Rat)) + 0) + b) = sw / 2 := by
      push_cast; ring
    rw [e, abs_of_nonneg (by linarith)]
    norm_num
    ring

/-! ### whole operator: every output row, per-channel or per-tensor weight scales, every batch row -/

/-- one output channel of a hybrid fully-connected: weight codes, weight scale (per channel), float bias -/
structure Row where
  qw : List Int
  sw : Rat
  b : Rat

/-- the hybrid kernel on one batch row: ONE activation scale `drqScale x`, shared by all output channels -/
def hybridFC (r : Rat → Int) (x : List Rat) (rows : List Row) : List Rat :=
  rows.map fun ρ => hybridRow r x ρ.qw ρ.sw ρ.b

def refFC (x : List Rat) (rows : List Row) : List Rat := rows.map fun ρ => refRow x ρ.qw ρ.sw ρ.b

theorem hybridFC_length (r : Rat → Int) (x : List Rat) (rows : List Row) :
    (hybridFC r x rows).length = rows.length := by simp [hybridFC]
theorem refFC_length (x : List Rat) (rows : List Row) : (refFC x rows).length = rows.length := by simp [refFC]

theorem drq_fc_bound (r : Rat → Int) (hr : IsRounding r) (x : List Rat) (rows : List Row)
    (hsw : ∀ ρ ∈ rows, 0 ≤ ρ.sw) (j : Nat) (hj : j < rows.length) :
    |(hybridFC r x rows)[j]'(by rw [hybridFC_length]; exact hj)
        - (refFC x rows)[j]'(by rw [refFC_length]; exact hj)|
      ≤ drqScale x / 2 * rows[j].sw * l1 rows[j].qw := by
  simp only [hybridFC, refFC, List.getElem_map]
  exact drq_row_bound r hr x _ _ _ (hsw _ (List.getElem_mem hj))

/-- a batch of activation rows: each batch row gets its own activation scale -/
def hybridFCBatch (r : Rat → Int) (xs : List (List Rat)) (rows : List Row) : List (List Rat) :=
  xs.map fun x => hybridFC r x rows
def refFCBatch (xs : List (List Rat)) (rows : List Row) : List (List Rat) := xs.map fun x => refFC x rows

theorem drq_fc_batch_bound (r : Rat → Int) (hr : IsRounding r) (xs : List (List Rat)) (rows : List Row)
    (hsw : ∀ ρ ∈ rows, 0 ≤ ρ.sw) (i : Nat) (hi : i < xs.length) (j : Nat) (hj : j < rows.length) :
    |((hybridFCBatch r xs rows)[i]'(by simp [hybridFCBatch]; exact hi))[j]'(by
          simp [hybridFCBatch, hybridFC]; exact hj)
        - ((refFCBatch xs rows)[i]'(by simp [refFCBatch]; exact hi))[j]'(by
          simp [refFCBatch, refFC]; exact hj)|
      ≤ drqScale xs[i] / 2 * rows[j].sw * l1 rows[j].qw := by
  simp only [hybridFCBatch, refFCBatch, List.getElem_map]
  exact drq_fc_bound r hr xs[i] rows hsw j hj

/-! ### relation to the tolerance of the C06 check (`harness/fam_numeric.py`, `compare_float_modes`) -/

/-- the check's magnitude of one row: the reference run on `|inputs|` with `|constants|` -/
def absRow (x : List Rat) (qw : List Int) (sw b : Rat) : Rat :=
  C07.dot (x.map fun t => |t|) ((deqW sw qw).map fun t => |t|) + |b|

/-! ## 2. requantization to the output scale (shared by the integer FULLY_CONNECTED and ADD) -/

/-- `clip(round(A / sy) + zy, qmin, qmax)`: the output code for the real value `A` of the operator applied
    to the dequantized operands -/
def requant (r : Rat → Int) (sy : Rat) (zy qmin qmax : Int) (A : Rat) : Int :=
  clipI (r (A / sy) + zy) qmin qmax

/-- **requantization, saturating form**: if the float operator's result `F` is within `E` of the value `A`
    of the operator on the dequantized operands, the dequantized output code is within `sy/2 + E` of `F`
    clipped to the representable range `[sy(qmin − zy), sy(qmax − zy)]` -/
theorem requant_error_sat (r : Rat → Int) (hr : IsRounding r) (sy : Rat) (hsy : 0 < sy)
    (zy qmin qmax : Int) (hq : qmin ≤ qmax) (A F E : Rat) (hAF : |A - F| ≤ E) :
    |deq sy zy (requant r sy zy qmin qmax A) - clipR F (deq sy zy qmin) (deq sy zy qmax)| ≤ sy / 2 + E := by
  unfold requant
  rw [deq_clipI sy hsy]
  have hlohi : deq sy zy qmin ≤ deq sy zy qmax := by
    unfold deq
    exact mul_le_mul_of_nonneg_left (by exact_mod_cast (by omega : qmin - zy ≤ qmax - zy)) (le_of_lt hsy)
  refine le_trans (clipR_lipschitz _ _ _ _ hlohi) ?_
  have e : deq sy zy (r (A / sy) + zy) - F = sy * (((r (A / sy) : Int) : Rat) - A / sy) + (A - F) := by
    unfold deq; push_cast; field_simp; ring
  rw [e]
  have h1 : |sy * (((r (A / sy) : Int) : Rat) - A / sy)| ≤ sy / 2 := by
    rw [abs_mul, abs_of_pos hsy]
    calc sy * |((r (A / sy) : Int) : Rat) - A / sy| ≤ sy * (1/2) :=
          mul_le_mul_of_nonneg_left (hr _) (le_of_lt hsy)
      _ = sy / 2 := by ring
  have := abs_add_le (sy * (((r (A / sy) : Int) : Rat) - A / sy)) (A - F)
  linarith

/-- **requantization, inside the range** -/
theorem requant_error (r : Rat → Int) (hr : IsRounding r) (sy : Rat) (hsy : 0 < sy)
    (zy qmin qmax : Int) (hq : qmin ≤ qmax) (A F E : Rat) (hAF : |A - F| ≤ E)
    (hlo : deq sy zy qmin ≤ F) (hhi : F ≤ deq sy zy qmax) :
    |deq sy zy (requant r sy zy qmin qmax A) - F| ≤ sy / 2 + E := by
  have := requant_error_sat r hr sy hsy zy qmin qmax hq A F E hAF
  rwa [clipR_id _ _ _ hlo hhi] at this

/-- far above the range the output code IS the largest code -/
theorem requant_saturates_hi (r : Rat → Int) (hr : IsRounding r) (sy : Rat) (hsy : 0 < sy)
    (zy qmin qmax : Int) (hq : qmin ≤ qmax) (A F E : Rat) (hAF : |A - F| ≤ E)
    (hF : deq sy zy qmax + sy / 2 + E ≤ F) : requant r sy zy qmin qmax A = qmax := by
  have hA : deq sy zy qmax + sy / 2 ≤ A := by have := (abs_le.mp hAF).1; linarith
  have hd : ((qmax - zy : Int) : Rat) + 1/2 ≤ A / sy := by
    rw [le_div_iff₀ hsy]; unfold deq at hA; linarith
  have hr1 := (abs_le.mp (hr (A / sy))).1
  have : ((qmax - zy : Int) : Rat) ≤ ((r (A / sy) : Int) : Rat) := by linarith
  have hge : qmax - zy ≤ r (A / sy) := by exact_mod_cast this
  unfold requant clipI
  split_ifs <;> omega

/-- far below the range the output code IS the smallest code -/
theorem requant_saturates_lo (r : Rat → Int) (hr : IsRounding r) (sy : Rat) (hsy : 0 < sy)
    (zy qmin qmax : Int) (hq : qmin ≤ qmax) (A F E : Rat) (hAF : |A - F| ≤ E)
    (hF : F ≤ deq sy zy qmin - sy / 2 - E) : requant r sy zy qmin qmax A = qmin := by
  have hA : A ≤ deq sy zy qmin - sy / 2 := by have := (abs_le.mp hAF).2; linarith
  have hd : A / sy ≤ ((qmin - zy : Int) : Rat) - 1/2 := by
    rw [div_le_iff₀ hsy]; unfold deq at hA; linarith
  have hr1 := (abs_le.mp (hr (A / sy))).2
  have : ((r (A / sy) : Int) : Rat) ≤ ((qmin - zy : Int) : Rat) := by linarith
  have hge : r (A / sy) ≤ qmin - zy := by exact_mod_cast this
  unfold requant clipI
  split_ifs <;> omega

/-- two outputs whose float values differ by more than the two error bounds get different codes -/
theorem ne_of_far (s : Rat) (z q q' : Int) (F F' B B' : Rat)
    (h1 : |deq s z q - F| ≤ B) (h2 : |deq s z q' - F'| ≤ B') (hv : B + B' < |F - F'|) : q ≠ q' := by
  rintro rfl
  have e : F - F' = -(deq s z q - F) + (deq s z q - F') := by ring
  have := abs_add_le (-(deq s z q - F)) (deq s z q - F')
  rw [← e, abs_neg] at this
  linarith

/-- an output whose float value is further than the error bound from the ends of the representable range is
    not saturated -/
theorem not_saturated (s : Rat) (z q qmin qmax : Int) (F B : Rat) (h : |deq s z q - F| ≤ B)
    (hlo : deq s z qmin + B < F) (hhi : F < deq s z qmax - B) : q ≠ qmin ∧ q ≠ qmax := by
  obtain ⟨h1, h2⟩ := abs_le.mp h
  constructor <;> rintro rfl <;> linarith

/-! ## 3. the integer fully-connected row -/

/-- the integer kernel of one output channel, per the TFLite quantization spec -/
def fcRowQ (r : Rat → Int) (sx sw sy : Rat) (zx zy qmin qmax : Int) (qx qw : List Int) (qb : Int) : Int :=
  clipI (r (((C07.acc zx qx qw qb : Int) : Rat) * (sx * sw / sy)) + zy) qmin qmax

/-- by `C07.accumulator_exact`, the kernel requantizes the float operator on the dequantized operands -/
theorem fcRowQ_eq (r : Rat → Int) (sx sw sy : Rat) (zx zy qmin qmax : Int) (qx qw : List Int) (qb : Int) :
    fcRowQ r sx sw sy zx zy qmin qmax qx qw qb
      = requant r sy zy qmin qmax (C07.deqDot sx sw zx qx qw qb) := by
  unfold fcRowQ requant
  rw [← C07.accumulator_exact]
  congr 3
  ring

/-- `Σ (|x_i|·dw + |w_i|·dx + dx·dw)` -/
def pertSum (dx dw : Rat) : List Rat → List Rat → Rat
  | x :: xs, w :: ws => (|x| * dw + |w| * dx + dx * dw) + pertSum dx dw xs ws
  | _, _ => 0

/-- one product: operands within `dx`, `dw` of the float values -/
theorem prod_close (x w x' w' dx dw : Rat) (hx : |x - x'| ≤ dx) (hw : |w - w'| ≤ dw) :
    |x' * w' - x * w| ≤ |x| * dw + |w| * dx + dx * dw := by
  have e : x' * w' - x * w = x * (w' - w) + w * (x' - x) + (x' - x) * (w' - w) := by ring
  have hx' : |x' - x| ≤ dx := by rwa [abs_sub_comm]
  have hw' : |w' - w| ≤ dw := by rwa [abs_sub_comm]
  have hdx : 0 ≤ dx := le_trans (abs_nonneg _) hx
  have t1 : |x * (w' - w)| ≤ |x| * dw := by
    rw [abs_mul]; exact mul_le_mul_of_nonneg_left hw' (abs_nonneg _)
  have t2 : |w * (x' - x)| ≤ |w| * dx := by
    rw [abs_mul]; exact mul_le_mul_of_nonneg_left hx' (abs_nonneg _)
  have t3 : |(x' - x) * (w' - w)| ≤ dx * dw := by
    rw [abs_mul]; exact mul_le_mul hx' hw' (abs_nonneg _) hdx
  have a1 := abs_add_le (x * (w' - w) + w * (x' - x)) ((x' - x) * (w' - w))
  have a2 := abs_add_le (x * (w' - w)) (w * (x' - x))
  rw [e]; linarith

/-- the float operator on the dequantized operands is within `Σ(|x_i|dw + |w_i|dx + dx·dw) + db` of the
    float operator on the original operands -/
theorem deqDot_close (sx sw : Rat) (zx : Int) (dx dw db : Rat) (b : Rat) (qb : Int)
    (hb : |b - sx * sw * (qb : Rat)| ≤ db) :
    ∀ (x : List Rat) (qx : List Int), List.Forall₂ (fun t q => |t - deq sx zx q| ≤ dx) x qx →
    ∀ (w : List Rat) (qw : List Int), List.Forall₂ (fun t (q : Int) => |t - sw * (q : Rat)| ≤ dw) w qw →
      |C07.deqDot sx sw zx qx qw qb - (C07.dot x w + b)| ≤ pertSum dx dw x w + db := by
  intro x qx hx
  induction hx with
  | nil =>
    intro w qw _
    simp only [C07.deqDot, C07.dot, pertSum, zero_add]
    rwa [abs_sub_comm]
  | @cons t q ts qs h0 _ ih =>
    intro w qw hw
    cases hw with
    | nil =>
      simp only [C07.deqDot, C07.dot, pertSum, zero_add]
      rwa [abs_sub_comm]
    | @cons u p us ps g0 g =>
      have := ih us ps g
      have hp := prod_close t u (sx * ((q - zx : Int) : Rat)) (sw * (p : Rat)) dx dw h0 g0
      simp only [C07.deqDot, C07.dot, pertSum]
      have e : sx * ((q - zx : Int) : Rat) * (sw * (p : Rat)) + C07.deqDot sx sw zx qs ps qb
            - (t * u + C07.dot ts us + b)
          = (sx * ((q - zx : Int) : Rat) * (sw * (p : Rat)) - t * u)
            + (C07.deqDot sx sw zx qs ps qb - (C07.dot ts us + b)) := by ring
      rw [e]
      have := abs_add_le (sx * ((q - zx : Int) : Rat) * (sw * (p : Rat)) - t * u)
        (C07.deqDot sx sw zx qs ps qb - (C07.dot ts us + b))
      linarith

theorem pertSum_le (dx dw X W : Rat) (hdx : 0 ≤ dx) (hdw : 0 ≤ dw) (hX : 0 ≤ X) (hW : 0 ≤ W) :
    ∀ (x w : List Rat), (∀ t ∈ x, |t| ≤ X) → (∀ t ∈ w, |t| ≤ W) →
      pertSum dx dw x w ≤ (x.length : Rat) * (X * dw + W * dx + dx * dw) := by
  have hterm : 0 ≤ X * dw + W * dx + dx * dw := by positivity
  intro x
  induction x with
  | nil => intro w _ _; simp [pertSum]
  | cons t ts ih =>
    intro w hx hw
    cases w with
    | nil =>
      simp only [pertSum, List.length_cons]
      exact mul_nonneg (by positivity) hterm
    | cons u us =>
      have h1 := ih us (fun v hv => hx v (by simp [hv])) (fun v hv => hw v (by simp [hv]))
      have a := hx t (by simp)
      have c := hw u (by simp)
      have a1 : |t| * dw ≤ X * dw := mul_le_mul_of_nonneg_right a hdw
      have c1 : |u| * dx ≤ W * dx := mul_le_mul_of_nonneg_right c hdx
      simp only [pertSum, List.length_cons, Nat.cast_add, Nat.cast_one]
      linarith

/-! ## 4. the integer element-wise ADD -/

/-- the integer ADD kernel, per the TFLite quantization spec (real-valued rescaling) -/
def addQ (r : Rat → Int) (s1 s2 sy : Rat) (z1 z2 zy qmin qmax : Int) (q1 q2 : Int) : Int :=
  requant r sy zy qmin qmax (deq s1 z1 q1 + deq s2 z2 q2)

theorem add_close (a b a' b' d1 d2 : Rat) (h1 : |a - a'| ≤ d1) (h2 : |b - b'| ≤ d2) :
    |a' + b' - (a + b)| ≤ d1 + d2 := by
  have e : a' + b' - (a + b) = -(a - a') + -(b - b') := by ring
  have := abs_add_le (-(a - a')) (-(b - b'))
  rw [e]; rw [abs_neg, abs_neg] at this; linarith

/-! ## 5. assembled statements -/

/-- integer FC row, general operand tolerances `dx`, `dw`, `db`, saturating form -/
theorem fc_row_sat_gen (r : Rat → Int) (hr : IsRounding r) (sx sw sy : Rat) (hsy : 0 < sy)
    (zx zy qmin qmax : Int) (hq : qmin ≤ qmax) (dx dw db : Rat)
    (x w : List Rat) (b : Rat) (qx qw : List Int) (qb : Int)
    (hx : List.Forall₂ (fun t q => |t - deq sx zx q| ≤ dx) x qx)
    (hw : List.Forall₂ (fun t (q : Int) => |t - sw * (q : Rat)| ≤ dw) w qw)
    (hb : |b - sx * sw * (qb : Rat)| ≤ db) :
    |deq sy zy (fcRowQ r sx sw sy zx zy qmin qmax qx qw qb)
        - clipR (C07.dot x w + b) (deq sy zy qmin) (deq sy zy qmax)|
      ≤ sy / 2 + (pertSum dx dw x w + db) := by
  rw [fcRowQ_eq]
  exact requant_error_sat r hr sy hsy zy qmin qmax hq _ _ _
    (deqDot_close sx sw zx dx dw db b qb hb x qx hx w qw hw)

/-- the error bound of the integer FC row for half-step operand errors:
    `sy/2 + Σ(|x_i|·sw/2 + |w_i|·sx/2 + sx·sw/4) + sx·sw/2` -/
def fcBound (sx sw sy : Rat) (x w : List Rat) : Rat :=
  sy / 2 + pertSum (sx / 2) (sw / 2) x w + sx * sw / 2

/-- `pertSum (sx/2) (sw/2)` is the sum written in the statement of the property -/
theorem pertSum_half (sx sw : Rat) : ∀ x w : List Rat,
    pertSum (sx / 2) (sw / 2) x w = match x, w with
      | t :: ts, u :: us => (|t| * sw / 2 + |u| * sx / 2 + sx * sw / 4) + pertSum (sx / 2) (sw / 2) ts us
      | _, _ => 0
  | [], _ => by simp [pertSum]
  | _ :: _, [] => by simp [pertSum]
  | t :: ts, u :: us => by simp only [pertSum]; ring

/-- the library's quantization of one value in ideal arithmetic (`uniform_quantize`, `Prec.exact`) -/
def quantIdeal (bits : Nat) (narrow : Bool) (zw : Nat) (s : Rat) (zp : Int) (t : Rat) : Int :=
  Arith.roundClip bits narrow (Arith.qSum .exact .exact zw t s zp)

/-- `C17.dq_q_ideal`, in the vocabulary of this file -/
theorem quantIdeal_close (bits : Nat) (hb2 : 2 ≤ bits) (hb : bits ≤ 32) (narrow : Bool) (zw : Nat)
    (s : Rat) (hs : 0 < s) (zp : Int) (t : Rat)
    (hlo : deq s zp (Arith.qmin bits + (if narrow then 1 else 0)) ≤ t)
    (hhi : t ≤ deq s zp (Arith.qmax bits)) :
    |t - deq s zp (quantIdeal bits narrow zw s zp t)| ≤ s / 2 := by
  unfold deq at *
  have := C17.dq_q_ideal bits hb2 hb narrow zw s hs zp t (by rw [mul_comm]; exact hlo) (by rw [mul_comm]; exact hhi)
  rw [abs_sub_comm, mul_comm]
  exact this

theorem quantIdeal_list_close (bits : Nat) (hb2 : 2 ≤ bits) (hb : bits ≤ 32) (narrow : Bool) (zw : Nat)
    (s : Rat) (hs : 0 < s) (zp : Int) :
    ∀ x : List Rat,
      (∀ t ∈ x, deq s zp (Arith.qmin bits + (if narrow then 1 else 0)) ≤ t ∧ t ≤ deq s zp (Arith.qmax bits)) →
      List.Forall₂ (fun t q => |t - deq s zp q| ≤ s / 2) x (x.map (quantIdeal bits narrow zw s zp))
  | [], _ => List.Forall₂.nil
  | t :: ts, h =>
    List.Forall₂.cons
      (quantIdeal_close bits hb2 hb narrow zw s hs zp t (h t (by simp)).1 (h t (by simp)).2)
      (quantIdeal_list_close bits hb2 hb narrow zw s hs zp ts (fun u hu => h u (by simp [hu])))

theorem deq_zero (s : Rat) (q : Int) : deq s 0 q = s * (q : Rat) := by simp [deq]

end KernelSpec
