import QProofs.MatTotalParams
import QProofs.PipelineWF
/-!
# `Pipeline.quantizePure` is total up to the numeric sites of the materialisation stage (C08)
-/
open Graph Mat Arith Cfg Num Nd Pipe PipeNF GraphStep GenInstsOK SharingGen SharingData Perform Pipeline

set_option autoImplicit false

namespace MatTotal

theorem eqv_bitsOK (Q P : Param) (h : Q.eqv P = true) (hP : bitsOK P) : bitsOK Q := by
  cases Q with
  | uniform q d =>
    cases P with
    | uniform p d' =>
      simp only [Param.eqv, Bool.and_eq_true, beq_iff_eq] at h
      simp only [bitsOK] at hP ⊢
      rw [h.1.1.1.1.1]; exact hP
    | nonlinear b d' => cases h
  | nonlinear b d =>
    cases P with
    | uniform p d' => cases h
    | nonlinear b' d' =>
      simp only [Param.eqv, Bool.and_eq_true, beq_iff_eq] at h
      simp only [bitsOK] at hP ⊢
      rw [h.1]; exact hP

theorem dtypeOf_ok (Q : Param) (h : bitsOK Q) : ∃ ty, dtypeOf (pinfoOf Q) = .ok ty := by
  cases Q with
  | uniform q d =>
    unfold bitsOK at h
    unfold dtypeOf pinfoOf
    simp only [if_true]
    repeat' split
    all_goals exact ⟨_, rfl⟩
  | nonlinear b d =>
    unfold bitsOK at h
    unfold dtypeOf pinfoOf
    simp only [Bool.false_eq_true, if_false]
    rcases h with rfl | rfl
    · exact ⟨_, rfl⟩
    · exact ⟨_, rfl⟩

/-- a good concrete side abstracts to a side with usable parameters -/
theorem paramOK_of_good (tbl : List Param) (c : CO2T) (o : O2T) (hA : AbsO tbl c o) (hg : SideGood c)
    (hx : ∃ x ∈ o.xfs, isInsertion x = true) : GraphTotal.ParamOK (ptableOf tbl) o.param := by
  obtain ⟨_, hxf, hpar⟩ := hA
  rw [hxf] at hx
  have hsome := hg.2 hx
  cases hcp : c.param with
  | none => rw [hcp] at hsome; cases hsome
  | some P =>
    have hP := hg.1 P hcp
    rw [hcp] at hpar
    cases hop : o.param with
    | none => rw [hop] at hpar; exact hpar.elim
    | some i =>
      rw [hop] at hpar
      simp only [] at hpar
      obtain ⟨hi, hq, _⟩ := List.findIdx?_eq_some_iff_getElem.1 hpar
      have hQ := eqv_bitsOK _ P hq hP
      obtain ⟨ty, hty⟩ := dtypeOf_ok _ hQ
      refine ⟨i, pinfoOf tbl[i], ty, rfl, ?_, hty⟩
      rw [pinfo_ptableOf, List.getElem?_eq_getElem hi]
      rfl

theorem mem_allO_prod' {r : CReq} {p : CO2T} (h : r.producer = some p) : p ∈ Locality.allO r := by
  simp [Locality.allO, h]

theorem mem_allO_cons' {r : CReq} {cs : List CO2T} {c : CO2T} (h : r.consumers = some cs) (hc : c ∈ cs) :
    c ∈ Locality.allO r := by
  simp [Locality.allO, h, hc]

/-- **the graph stage's request-level hypotheses hold for the generated requests** -/
theorem graph_hyps {m : Model} {res : List (String × CReq)} (C : Ctx m res) (U : Unshared m) (hG : ResGood res) :
    (∀ a ∈ areqsOf res, GraphTotal.ReqParamsKnown (ptableOf (tblOf res)) a) ∧
    (∀ a ∈ areqsOf res, GraphTotal.NoMixed a) := by
  have hspec := absReqs_spec (res.map (·.2))
  have hent : ∀ a ∈ areqsOf res, ∃ e ∈ res, AbsR (tblOf res) e.2 a := by
    intro a ha
    obtain ⟨r, hr, hA⟩ := hspec.mem_right ha
    obtain ⟨e, he, rfl⟩ := List.mem_map.1 hr
    exact ⟨e, he, hA⟩
  refine ⟨?_, ?_⟩
  · intro a ha o ho hx
    obtain ⟨e, he, hA⟩ := hent a ha
    rcases ho with ho | ⟨os, hos, hom⟩
    · obtain ⟨c, hc, hO⟩ := hA.prod ho
      exact paramOK_of_good _ c o hO (hG e he c (mem_allO_prod' hc)) hx
    · obtain ⟨cs, c, hcs, hc, hO⟩ := hA.cons_mem hos hom
      exact paramOK_of_good _ c o hO (hG e he c (mem_allO_cons' hcs hc)) hx
  · intro a ha os hos htrig o hom
    obtain ⟨e, he, hA⟩ := hent a ha
    have hE := C.entries e he
    obtain ⟨s, sg, i, hloc⟩ := hE.loc
    -- a consumer entry that rewrites the tensor makes it a constant with ONE reader …
    have key : ∀ o ∈ os, (o.xfs = [.quantTensor] ∨ o.xfs = [.addDequant]) → False := by
      intro o hom hxo
      obtain ⟨cs, c, hcs, hc, hO⟩ := hA.cons_mem hos hom
      obtain ⟨hCS, hCA⟩ := hE.cons cs c hcs hc s sg i hloc
      obtain ⟨x, hx, _, hconst⟩ := hCS.xf
      have hcx : c.xfs = o.xfs := hO.2.1.symm
      have hconst' : isConst m sg (i : Int) = true := by
        refine hconst ?_
        rw [hcx] at hx
        rcases hxo with h | h <;> rw [h] at hx <;> cases hx
        · exact .inl rfl
        · exact .inr rfl
      -- … so no producer side, and every consumer entry is the reader's
      have hnp := const_noProd C e he s sg i hloc hconst'
      rcases htrig with ⟨p, hp, _⟩ | ⟨o', ho', hx'⟩
      · obtain ⟨c', hc', _⟩ := hA.prod hp
        rw [hnp] at hc'; cases hc'
      · obtain ⟨cs', c', hcs', hc', hO'⟩ := hA.cons_mem hos ho'
        rw [hcs] at hcs'; cases hcs'
        have hCA' := (hE.cons cs c' hcs hc' s sg i hloc).2
        have hid := U.oneReader sg (List.mem_of_getElem? hloc.1) i hconst' _ _ hCA hCA'
        obtain ⟨hxx, _⟩ := hE.coh cs c c' hcs hc hc' hid
        have : o.xfs = o'.xfs := by rw [hO.2.1, hO'.2.1, hxx]
        rw [hx'] at this
        rcases hxo with h | h <;> rw [h] at this <;> cases this
    exact ⟨fun h => key o hom (.inl h), fun h => key o hom (.inr h)⟩

/-- **C08, end to end (partial: up to the numeric sites of the materialisation stage)**: once
    `generate` has returned, the rest of `quantize()` cannot raise -/
theorem quantize_of_generate (rx : String → String → Bool) (env : Env) (st : Recipe.State) (qsvs : Option Qsvs)
    (H : Hyp rx env st qsvs) (U : Unshared env.model) (hrec : (Recipe.getRecipe st).isEmpty = false)
    (reqs : List CReq) (hgen : Mat.generate rx env st qsvs = .ok reqs) :
    ∃ m', quantizePure rx env st qsvs = .ok (m', (absReqs reqs).1) ∧ WF.modelOK m' = true := by
  obtain ⟨qs, res, hfold, _, _, hreqs⟩ := generate_ok_check rx env st qsvs reqs hgen
  have hcore : Locality.generateCore rx env st qsvs = .ok (qs, res) := hfold
  obtain ⟨C, _⟩ := ctx_of_core rx env st qsvs H.nf.genHyp H.names (qs, res) hcore
  have hreach : Reach rx env st qsvs (flatOps env.model) (qs, res) := by
    unfold Reach; rw [← generateCore_flat]; exact hcore
  have hG : ResGood res :=
    reach_resGood rx env st qsvs H (flatOps env.model) [] (qsvs.getD [], []) (qs, res) (fun _ h => h) (inv_init qsvs)
      (by intro e he; cases he) hreach
  obtain ⟨hpar, hmix⟩ := graph_hyps C U hG
  subst hreqs
  have hreq := reqOK_of_ctx C
  obtain ⟨m', hm'⟩ := GraphTotal.modify_total (ptableOf (tblOf res)) env.model (areqsOf res) H.nf.wf H.names hreq hpar hmix
  refine ⟨m', ?_, GenInstsOK.modify_ok _ env.model m' _ H.nf.wf H.names hreq hm'⟩
  unfold quantizePure
  rw [hrec]
  simp only [Bool.false_eq_true, if_false, hgen, bind, Except.bind]
  have hm'' : Perform.modify (ptableOf (absReqs (List.map (fun x => x.2) res)).1) env.model
      (absReqs (List.map (fun x => x.2) res)).2 = .ok m' := hm'
  rw [hm'']
  rfl

end MatTotal
