import QProofs.MatTotalPolicy
/-!
# The structural raise sites of one operator's materialisation are excluded (C08)

Under the facts that recipe resolution and the normal form of the model provide (`OpCtx`), no
STRUCTURAL site (`… false e`) of `Mat.materializeOp` can fire; what remains are the numeric sites.
-/
open Graph Mat Arith Cfg Num Nd Pipe PipeNF GraphStep

set_option autoImplicit false

namespace MatTotal

/-! ## what `C13.modeOK` says -/

theorem modeOK_facts (k : String) (c : OpCfg) (h : C13.modeOK k c = true) :
    ∃ w, c.weight = some w ∧ w.gran ≠ Gran.blockwise ∧ (w.bits = 4 ∨ w.bits = 8) ∧
      ((c.cp = .integer ∧ ∃ a, c.act = some a ∧ (a.bits = 8 ∨ a.bits = 16) ∧ a.gran = Gran.tensorwise) ∨
       (c.cp = .integer ∧ c.act = none ∧ Tables.drqOps.contains k = true) ∨
       (c.cp = .float ∧ c.act = none ∧ Tables.woOps.contains k = true ∧ c.explicitDeq = true)) := by
  unfold C13.modeOK at h
  cases hw : c.weight with
  | none => rw [hw] at h; cases h
  | some w =>
    rw [hw] at h
    simp only [Bool.and_eq_true, Bool.or_eq_true, beq_iff_eq, bne_iff_ne, ne_eq, Bool.not_eq_true'] at h
    obtain ⟨⟨⟨⟨⟨_, hb⟩, _⟩, hg⟩, _⟩, hmode⟩ := h
    refine ⟨w, rfl, hg, hb, ?_⟩
    cases hcp : c.cp <;> cases hact : c.act <;> rw [hcp, hact] at hmode <;> simp only [] at hmode
    · simp only [Bool.and_eq_true, Bool.not_eq_true'] at hmode
      exact .inr (.inl ⟨rfl, rfl, hmode.1.1⟩)
    · rename_i a
      simp only [Bool.and_eq_true, Bool.or_eq_true, beq_iff_eq] at hmode
      exact .inl ⟨rfl, a, rfl, hmode.1.1.1.1.2, hmode.1.1.1.2⟩
    · simp only [Bool.and_eq_true] at hmode
      exact .inr (.inr ⟨rfl, rfl, hmode.1, hmode.2⟩)
    · cases hmode

/-- statistics entry present and non-empty -/
def Present (qs : Qsvs) (n : String) : Prop := ∃ mm, Py.dictGet? qs n = some (some mm)

theorem tensorXfs_total (k : String) (c : OpCfg) (h : C13.modeOK k c = true) (inbound isC : Bool) :
    ∃ x, tensorXfs c inbound isC = .ok x := by
  obtain ⟨w, hw, hwg, _, hmodes⟩ := modeOK_facts _ _ h
  unfold tensorXfs
  rcases hmodes with ⟨hcp, a, ha, _, _⟩ | ⟨hcp, ha, _⟩ | ⟨hcp, ha, _, hed⟩
  · simp only [hcp, ha, beq_self_eq_true, Option.isSome_some, Bool.and_self, if_true]
    cases inbound <;> cases isC <;> exact ⟨_, rfl⟩
  · simp only [hcp, ha, beq_self_eq_true, Option.isSome_none, Bool.and_false, Bool.false_eq_true, if_false,
      Option.isNone_none, Bool.and_self, if_true]
    cases inbound <;> cases isC <;> exact ⟨_, rfl⟩
  · have hwg' : (w.gran == Gran.blockwise) = false := by
      cases hgg : w.gran <;> simp_all
    simp only [hcp, ha, hw, hed, hwg', show (CP.float == CP.integer) = false by decide, Bool.false_and, Bool.false_eq_true,
      if_false, beq_self_eq_true, Bool.and_self, if_true]
    cases inbound <;> cases isC <;> exact ⟨_, rfl⟩

theorem woOps_qdim : Tables.woOps.all (fun k => k == "BATCH_MATMUL" || (Tables.weightQDim.find? (·.1 == k)).isSome) = true := by
  decide
theorem drq_eq_wo : Tables.drqOps = Tables.woOps := by decide

open MatParams in
/-- **no structural site of a per-tensor materialisation** under a legal min/max mode, when the
    statistics of a runtime tensor are present and a constant is not empty -/
theorem tensorSite_struct_absurd (env : Env) (qs : Qsvs) (oi : OpInfo) (t : Tensor) (inbound : Bool)
    (g : Option Param) (e : PyErr) (hmode : C13.modeOK oi.opName oi.cfg = true)
    (hstats : oi.cfg.act.isSome = true → constData env t = none → Present qs t.name)
    (hne : ∀ d, constData env t = some d → d.data ≠ []) :
    ¬ TensorSite env qs oi t inbound g false e := by
  obtain ⟨w, hw, hwg, hwb, hmodes⟩ := modeOK_facts _ _ hmode
  -- the tensor config in use is never blockwise, and channelwise only as the weight config of a weight operator
  have htc : ∀ tc, tcfgOf env oi t = some tc → tc.gran ≠ Gran.blockwise ∧
      (tc.gran = Gran.channelwise → (constData env t).isSome = true ∧ Tables.woOps.contains oi.opName = true) := by
    intro tc h
    unfold tcfgOf at h
    split at h
    · rename_i hc
      rw [hw] at h
      cases h
      simp only [Bool.and_eq_true, Bool.or_eq_true] at hc
      refine ⟨hwg, fun _ => ⟨hc.1, ?_⟩⟩
      rcases hc.2 with h1 | h1
      · exact h1
      · rw [drq_eq_wo] at h1; exact h1
    · rcases hmodes with ⟨_, a, ha, _, hag⟩ | ⟨_, ha, _⟩ | ⟨_, ha, _⟩
      · rw [ha] at h; cases h
        exact ⟨by rw [hag]; decide, fun hh => by rw [hag] at hh; cases hh⟩
      · rw [ha] at h; cases h
      · rw [ha] at h; cases h
  intro hsite
  generalize hnum : false = num at hsite
  cases hsite with
  | statsMissing tc hg htcf hc hq =>
    have hact : oi.cfg.act.isSome = true := by
      rw [tcfgOf_nonconst env oi t hc] at htcf; rw [htcf]; rfl
    obtain ⟨mm, hmm⟩ := hstats hact hc
    rw [hq] at hmm; cases hmm
  | statsEmpty tc hg htcf hs =>
    unfold statsOf at hs
    cases hc : constData env t with
    | none =>
      have hact : oi.cfg.act.isSome = true := by
        rw [tcfgOf_nonconst env oi t hc] at htcf; rw [htcf]; rfl
      obtain ⟨mm, hmm⟩ := hstats hact hc
      rw [hc] at hs
      simp only [hmm] at hs
      cases hs
    | some d =>
      rw [hc] at hs
      simp only [] at hs
      have : d.data.isEmpty = false := by
        have := hne d hc
        cases hd : d.data with
        | nil => exact absurd hd this
        | cons a as => rfl
      rw [this] at hs
      simp only [Bool.false_eq_true, if_false] at hs
      cases hi : initMinMax env oi t d with
      | error e' => rw [hi] at hs; cases hs
      | ok r => rw [hi] at hs; cases hs
  | constBlockwise tc d hg htcf hc hbw =>
    unfold weightBlockwise at hbw
    rw [hw] at hbw
    simp only [beq_iff_eq] at hbw
    exact hwg hbw
  | qdim tc e hg htcf hq =>
    obtain ⟨_, hch⟩ := htc tc htcf
    unfold refQDim at hq
    by_cases hgr : (tc.gran == Gran.channelwise) = true
    · obtain ⟨hcs, hwo⟩ := hch (beq_iff_eq.1 hgr)
      rw [if_pos hgr] at hq
      by_cases hb : (oi.opName == "BATCH_MATMUL") = true
      · rw [if_pos hb] at hq
        cases hc : constData env t with
        | none => rw [hc] at hcs; cases hcs
        | some d => rw [hc] at hq; cases hq
      · rw [if_neg hb] at hq
        have hall := woOps_qdim
        rw [List.all_eq_true] at hall
        have := hall oi.opName (by simpa using hwo)
        simp only [Bool.or_eq_true] at this
        rcases this with h1 | h1
        · exact hb h1
        · cases hf : Tables.weightQDim.find? (·.1 == oi.opName) with
          | none => rw [hf] at h1; cases h1
          | some x => rw [hf] at hq; cases hq
    · rw [if_neg hgr] at hq
      cases hq
  | quantBlockwise tc d hg htcf hc hbw => exact (htc tc htcf).1 hbw
  | xfs e hx =>
    unfold tensorXfs at hx
    rcases hmodes with ⟨hcp, a, ha, _, _⟩ | ⟨hcp, ha, _⟩ | ⟨hcp, ha, _, hed⟩
    · simp only [hcp, ha, beq_self_eq_true, Option.isSome_some, Bool.and_self, if_true] at hx
      revert hx
      cases inbound <;> cases (constData env t).isSome <;> intro hx <;> simp at hx
    · simp only [hcp, ha, beq_self_eq_true, Option.isSome_none, Bool.and_false, Bool.false_eq_true, if_false,
        Option.isNone_none, Bool.and_self, if_true] at hx
      revert hx
      cases inbound <;> cases (constData env t).isSome <;> intro hx <;> simp at hx
    · have hwg' : (w.gran == Gran.blockwise) = false := by
        cases hgg : w.gran <;> simp_all
      simp only [hcp, ha, hw, hed, hwg', show (CP.float == CP.integer) = false by decide, Bool.false_and, Bool.false_eq_true,
        if_false, beq_self_eq_true, Bool.and_self, if_true] at hx
      revert hx
      cases inbound <;> cases (constData env t).isSome <;> intro hx <;> simp at hx
  | zpScale => cases hnum
  | quantize => cases hnum
  | givenQuantize => cases hnum


/-! ## slots -/

theorem tensorAt_total (sg : Subgraph) (a : Int) (h : a = -1 ∨ ValidT sg a) (hT : sg.tensors ≠ []) :
    ∃ t, tensorAt sg a = .ok t := by
  have hlen : 0 < sg.tensors.length := List.length_pos_iff.2 hT
  unfold tensorAt Py.index
  simp only []
  rcases h with rfl | ⟨h0, h1⟩
  · have e1 : (if (-1 : Int) < 0 then (-1 : Int) + (sg.tensors.length : Int) else -1) = ((sg.tensors.length - 1 : Nat) : Int) := by
      simp only [show ((-1 : Int) < 0) by decide, if_true]; omega
    rw [e1]
    rw [if_neg (by omega)]
    simp only [Int.toNat_natCast]
    have : sg.tensors.length - 1 < sg.tensors.length := by omega
    rw [List.getElem?_eq_getElem this]
    exact ⟨_, rfl⟩
  · rw [if_neg (by omega : ¬ a < 0), if_neg (by omega)]
    have : a.toNat < sg.tensors.length := by omega
    rw [List.getElem?_eq_getElem this]
    exact ⟨_, rfl⟩

theorem slotSite_absurd (sg : Subgraph) (slots : List Int) (e : PyErr) (hv : SlotsValid sg slots)
    (hT : sg.tensors ≠ []) : ¬ SlotSite sg slots e := by
  rintro ⟨a, ha, he⟩
  obtain ⟨t, ht⟩ := tensorAt_total sg a (hv a ha) hT
  rw [ht] at he
  cases he

theorem slotsValid_append {sg : Subgraph} {a b : List Int} (ha : SlotsValid sg a) (hb : SlotsValid sg b) :
    SlotsValid sg (a ++ b) := by
  intro x hx
  rcases List.mem_append.1 hx with h | h
  · exact ha x h
  · exact hb x h

/-! ## `standardOp` -/

/-- the statistics `standardOp` returns: unchanged, except that a same-as-input operator copies the
    entry of its data operand to its results -/
theorem standardOp_qs (env : Env) (sg : Subgraph) (qs : Qsvs) (oi : OpInfo) (con : Constraint) (gi go : List Nat)
    (rs : List CReq) (qs' : Qsvs) (h : standardOp env sg qs oi con gi go = .ok (rs, qs')) :
    qs' = qs ∨ (con = .sameAsInput ∧ ∃ t iq outT, FloatSlots sg oi.op.inputs gi [t] ∧ FloatSlots sg oi.op.outputs go outT ∧
      Py.dictGet? qs t.name = some iq ∧ qs' = Locality.applyW (outT.map fun o => (o.name, iq)) qs) := by
  unfold standardOp at h
  obtain ⟨inIgn, hinIgn, h1⟩ := GraphInv.bind_ok _ _ _ h
  clear h
  obtain ⟨outIgn, houtIgn, h2⟩ := GraphInv.bind_ok _ _ _ h1
  clear h1
  obtain ⟨⟨ignInT, inT, inIgnU⟩, hsplitIn, h3⟩ := GraphInv.bind_ok _ _ _ h2
  clear h2
  obtain ⟨⟨ignOutT, outT, outIgnU⟩, hsplitOut, h⟩ := GraphInv.bind_ok _ _ _ h3
  clear h3
  simp only [] at h
  by_cases he : (inT.isEmpty && outT.isEmpty) = true
  · rw [if_pos he] at h
    simp only [pure, Except.pure, Except.ok.injEq, Prod.mk.injEq] at h
    exact .inl h.2.symm
  · rw [if_neg he] at h
    cases con with
    | none =>
      simp only [] at h
      obtain ⟨ins, _, h1⟩ := GraphInv.bind_ok _ _ _ h
      clear h
      obtain ⟨outs, _, h⟩ := GraphInv.bind_ok _ _ _ h1
      simp only [pure, Except.pure, Except.ok.injEq, Prod.mk.injEq] at h
      exact .inl h.2.symm
    | sameAsOutput =>
      simp only [] at h
      obtain ⟨t, _, h1⟩ := GraphInv.bind_ok _ _ _ h
      clear h
      obtain ⟨orq, _, h2⟩ := GraphInv.bind_ok _ _ _ h1
      clear h1
      obtain ⟨ins, _, h⟩ := GraphInv.bind_ok _ _ _ h2
      simp only [pure, Except.pure, Except.ok.injEq, Prod.mk.injEq] at h
      exact .inl h.2.symm
    | sameAsInput =>
      simp only [] at h
      obtain ⟨t, ht, h1⟩ := GraphInv.bind_ok _ _ _ h
      clear h
      obtain ⟨ir, hir, h2⟩ := GraphInv.bind_ok _ _ _ h1
      clear h1
      obtain ⟨p, hp, h3⟩ := GraphInv.bind_ok _ _ _ h2
      clear h2
      obtain ⟨outs, houts, h4⟩ := GraphInv.bind_ok _ _ _ h3
      clear h3
      obtain ⟨iq, hiq, h5⟩ := GraphInv.bind_ok _ _ _ h4
      clear h4
      obtain ⟨qs2, hqs2, h⟩ := GraphInv.bind_ok _ _ _ h5
      clear h5
      simp only [pure, Except.pure, Except.ok.injEq, Prod.mk.injEq] at h
      have hinT : inT = [t] := by
        rcases inT with _ | ⟨a, _ | ⟨b, l⟩⟩
        · cases ht
        · simp only [pure, Except.pure, Except.ok.injEq] at ht
          rw [ht]
        · cases ht
      subst hinT
      rw [Locality.setLoop] at hqs2
      cases hqs2
      refine .inr ⟨rfl, t, iq, outT, ⟨inIgn, ignInT, inIgnU, hinIgn, hsplitIn⟩, ⟨outIgn, ignOutT, outIgnU, houtIgn, hsplitOut⟩, ?_, h.2.symm⟩
      rw [← Locality.wrapper_name env qs oi t true none ir hir]
      cases hd : Py.dictGet? qs ir.name with
      | none => rw [hd] at hiq; cases hiq
      | some v => rw [hd] at hiq; cases hiq; rfl

theorem floatSlots_unique {sg : Subgraph} {slots : List Int} {given : List Nat} {a b : List Tensor}
    (ha : FloatSlots sg slots given a) (hb : FloatSlots sg slots given b) : a = b := by
  obtain ⟨i1, s1, u1, h1, h2⟩ := ha
  obtain ⟨i2, s2, u2, h3, h4⟩ := hb
  rw [h1] at h3
  cases h3
  rw [h2] at h4
  cases h4
  rfl

/-- the facts about one (pseudo-)operator that exclude the structural sites of `standardOp` -/
structure StdCtx (env : Env) (sg : Subgraph) (qs : Qsvs) (oi : OpInfo) (con : Constraint) (gi go : List Nat) : Prop where
  validIn : SlotsValid sg oi.op.inputs
  validOut : SlotsValid sg oi.op.outputs
  tensors : sg.tensors ≠ []
  mode : C13.modeOK oi.opName oi.cfg = true
  /-- statistics of the runtime float tensors of the operator, if it quantizes activations -/
  stats : oi.cfg.act.isSome = true → ∀ b t, SlotTensor sg oi.op b (if b then gi else go) t → constData env t = none →
    Present qs t.name
  /-- constants are not empty -/
  constNE : ∀ t ∈ sg.tensors, ∀ d, constData env t = some d → d.data ≠ []
  /-- a same-as-input operator has exactly one float operand (or no float tensor at all), with statistics to copy -/
  arityIn : con = .sameAsInput → ∀ inT outT, FloatSlots sg oi.op.inputs gi inT → FloatSlots sg oi.op.outputs go outT →
    (inT = [] ∧ outT = []) ∨ (inT.length = 1 ∧ ∀ t ∈ inT, Present qs t.name)
  /-- a same-as-output operator has exactly one float result (or no float tensor at all) -/
  arityOut : con = .sameAsOutput → ∀ inT outT, FloatSlots sg oi.op.inputs gi inT → FloatSlots sg oi.op.outputs go outT →
    (inT = [] ∧ outT = []) ∨ outT.length = 1

theorem stdSite_struct_absurd (env : Env) (sg : Subgraph) (qs : Qsvs) (oi : OpInfo) (con : Constraint) (gi go : List Nat)
    (e : PyErr) (C : StdCtx env sg qs oi con gi go) : ¬ StdSite env sg qs oi con gi go false e := by
  intro hsite
  generalize hnum : false = num at hsite
  cases hsite with
  | slot e hs => exact slotSite_absurd sg _ e (slotsValid_append C.validIn C.validOut) C.tensors hs
  | arityIn inT outT hc hI hO hne hlen =>
    rcases C.arityIn hc inT outT hI hO with h | h
    · exact hne h
    · exact hlen h.1
  | arityOut inT outT hc hI hO hne hlen =>
    rcases C.arityOut hc inT outT hI hO with h | h
    · exact hne h
    · exact hlen h
  | tensor num t inbound g e ts hst _ _ hg hts =>
    subst hnum
    obtain ⟨i, a, _, _, hat, _, _⟩ := hst
    refine tensorSite_struct_absurd env qs oi t inbound g e C.mode (fun hact hc => C.stats hact inbound t ⟨i, a, ‹_›, ‹_›, hat, ‹_›, ‹_›⟩ hc)
      (C.constNE t (Locality.tensorAt_mem sg a t hat)) hts
  | copyStats t outT hc hI hO hq =>
    rcases C.arityIn hc [t] outT hI hO with h | h
    · cases h.1
    · obtain ⟨mm, hmm⟩ := h.2 t List.mem_cons_self
      rw [hq] at hmm
      cases hmm


/-! ## the bias of the convolution-like operators -/

/-- the request `standardOp` (no constraint) makes for a mandatory operand position -/
theorem std_none_in_req (env : Env) (sg : Subgraph) (qs : Qsvs) (oi : OpInfo) (gi : List Nat) (r : List CReq) (q : Qsvs)
    (h : standardOp env sg qs oi .none gi [] = .ok (r, q)) (i : Nat) (a : Int)
    (hpre : ∀ j < i, oi.op.inputs[j]? ≠ some (-1)) (hi : oi.op.inputs[i]? = some a) (ha : a ≠ -1) :
    ∃ t ri, tensorAt sg a = .ok t ∧ r[i]? = some ri ∧
      ((t.dtype ≠ Tables.ttFloat32 ∨ i ∈ gi) → ri = noQuantReq t.name oi.opId true) ∧
      (¬ (t.dtype ≠ Tables.ttFloat32 ∨ i ∈ gi) → wrapper env qs oi t true none = .ok ri) := by
  obtain ⟨inIgn, outIgn, rin, rout, g, gO, hIgnI, _, hrs, hrin, _, hg, _⟩ := standardOp_shape env sg qs oi .none gi [] r q h
  have hgn : g = none := by
    rcases hg with hg | ⟨hc, _⟩
    · exact hg
    · cases hc
  subst hgn
  have hc := cslots_get oi.op.inputs i a hpre hi ha
  have hlt : i < rin.length := by
    rw [← hrin.1]
    exact (List.getElem?_eq_some_iff.1 hc).1
  obtain ⟨t, hat, hreq⟩ := hrin.2 i (a, i) rin[i] hc (List.getElem?_eq_getElem hlt)
  refine ⟨t, rin[i], hat, ?_, ?_, ?_⟩
  · rw [hrs, List.getElem?_append_left hlt, List.getElem?_eq_getElem hlt]
  · intro hcond
    have := (hIgnI i a t hi hat).2 hcond
    simp only at hreq
    rw [if_pos this] at hreq
    exact hreq
  · intro hcond
    have : inIgn.contains i = false := by
      cases hcc : inIgn.contains i with
      | false => rfl
      | true => exact absurd ((hIgnI i a t hi hat).1 hcc) hcond
    simp only at hreq
    rw [this] at hreq
    simpa using hreq

/-- what the normal form says about a convolution-like operator -/
structure ConvCtx (env : Env) (sg : Subgraph) (oi : OpInfo) (gi : List Nat) (iIn iW iB : Nat) : Prop where
  validIn : SlotsValid sg oi.op.inputs
  validOut : SlotsValid sg oi.op.outputs
  tensors : sg.tensors ≠ []
  mode : C13.modeOK oi.opName oi.cfg = true
  lt : iIn < iB ∧ iW < iB
  notGiven : iIn ∉ gi ∧ iW ∉ gi
  /-- the mandatory operands (everything before the bias position) are there -/
  mandatory : ∀ i < iB, ∃ a, oi.op.inputs[i]? = some a ∧ a ≠ -1
  /-- data and weight are float32 tensors -/
  float : ∀ i a t, (i = iIn ∨ i = iW) → oi.op.inputs[i]? = some a → tensorAt sg a = .ok t → t.dtype = Tables.ttFloat32
  /-- under static-range quantization the bias is a constant -/
  biasConst : isSRQ oi.cfg = true → ∀ a bt, oi.op.inputs[iB]? = some a → a ≠ -1 → tensorAt sg a = .ok bt →
    constData env bt ≠ none
  weightOp : Tables.woOps.contains oi.opName = true

theorem ConvCtx.pre {env : Env} {sg : Subgraph} {oi : OpInfo} {gi : List Nat} {iIn iW iB : Nat}
    (C : ConvCtx env sg oi gi iIn iW iB) (i : Nat) (hi : i ≤ iB) : ∀ j < i, oi.op.inputs[j]? ≠ some (-1) := by
  intro j hj
  obtain ⟨a, ha, hne⟩ := C.mandatory j (by omega)
  rw [ha]
  intro hh
  cases hh
  exact hne rfl

open MatParams in
/-- under static-range quantization the request of a float32 mandatory operand carries uniform parameters -/
theorem srq_operand_uniform (env : Env) (qs : Qsvs) (oi : OpInfo) (t : Tensor) (ri : CReq)
    (hsrq : isSRQ oi.cfg = true) (hmode : C13.modeOK oi.opName oi.cfg = true)
    (hw : wrapper env qs oi t true none = .ok ri) : ∃ qp dat, reqParam0 ri = .ok (some (.uniform qp dat)) := by
  obtain ⟨w, hwc, _, _, _⟩ := modeOK_facts _ _ hmode
  have htc : ∃ tc, tcfgOf env oi t = some tc := by
    unfold tcfgOf
    split
    · exact ⟨w, hwc⟩
    · unfold isSRQ at hsrq
      simp only [Bool.and_eq_true] at hsrq
      cases ha : oi.cfg.act with
      | none => rw [ha] at hsrq; cases hsrq.2
      | some a => exact ⟨a, rfl⟩
  obtain ⟨tc, htc⟩ := htc
  rcases (wrapper_none_ok_iff env qs oi t true ri).1 hw with ⟨h0, _⟩ | ⟨tc', mn, mx, qdim, qp, dat, _, _, _, _, _, hmk⟩
  · rw [htc] at h0; cases h0
  · obtain ⟨xfs, _, hr⟩ := mkReq_spec _ _ _ _ _ _ hmk
    simp only [if_true] at hr
    subst hr
    exact ⟨qp, dat, rfl⟩

theorem biasSite_struct_absurd (env : Env) (sg : Subgraph) (qs : Qsvs) (oi : OpInfo) (gi : List Nat) (iIn iW iB : Nat)
    (r : List CReq) (q : Qsvs) (e : PyErr) (C : ConvCtx env sg oi gi iIn iW iB)
    (hstd : standardOp env sg qs oi .none gi [] = .ok (r, q)) : ¬ BiasSite env sg oi r iIn iW iB false e := by
  obtain ⟨aIn, haIn, hneIn⟩ := C.mandatory iIn C.lt.1
  obtain ⟨aW, haW, hneW⟩ := C.mandatory iW C.lt.2
  obtain ⟨tIn, rIn, hatIn, hrIn, _, hwIn⟩ := std_none_in_req env sg qs oi gi r q hstd iIn aIn (C.pre iIn (by have := C.lt.1; omega)) haIn hneIn
  obtain ⟨tW, rW, hatW, hrW, _, hwW⟩ := std_none_in_req env sg qs oi gi r q hstd iW aW (C.pre iW (by have := C.lt.2; omega)) haW hneW
  have hfIn : ¬ (tIn.dtype ≠ Tables.ttFloat32 ∨ iIn ∈ gi) := by
    rintro (h | h)
    · exact h (C.float iIn aIn tIn (.inl rfl) haIn hatIn)
    · exact C.notGiven.1 h
  have hfW : ¬ (tW.dtype ≠ Tables.ttFloat32 ∨ iW ∈ gi) := by
    rintro (h | h)
    · exact h (C.float iW aW tW (.inr rfl) haW hatW)
    · exact C.notGiven.2 h
  have hwIn' := hwIn hfIn
  have hwW' := hwW hfW
  intro hsite
  generalize hnum : false = num at hsite
  cases hsite with
  | slot e hs => exact slotSite_absurd sg _ e C.validIn C.tensors hs
  | notConst a bt ha hne hat hsrq hc => exact C.biasConst hsrq a bt ha hne hat hc
  | reqIndex hsrq h =>
    rcases h with h | h
    · rw [hrIn] at h; cases h
    · rw [hrW] at h; cases h
  | reqShape r0 e hsrq h he =>
    rcases h with h | h
    · rw [hrIn] at h; cases h
      obtain ⟨p, hp⟩ := reqParam0_of_wrapper env qs oi tIn none _ hwIn'
      rw [hp] at he; cases he
    · rw [hrW] at h; cases h
      obtain ⟨p, hp⟩ := reqParam0_of_wrapper env qs oi tW none _ hwW'
      rw [hp] at he; cases he
  | params rin rw pin pw hsrq h1 h2 h3 h4 hno =>
    rw [hrIn] at h1; cases h1
    rw [hrW] at h2; cases h2
    obtain ⟨qi, di, hpi⟩ := srq_operand_uniform env qs oi tIn _ hsrq C.mode hwIn'
    obtain ⟨qw, dw, hpw⟩ := srq_operand_uniform env qs oi tW _ hsrq C.mode hwW'
    rw [hpi] at h3; cases h3
    rw [hpw] at h4; cases h4
    exact hno qi di qw dw ⟨rfl, rfl⟩
  | xfs e hx =>
    obtain ⟨x, hx'⟩ := tensorXfs_total _ _ C.mode true (isSRQ oi.cfg)
    rw [hx'] at hx; cases hx
  | position a ha hne hlen =>
    obtain ⟨t, ri, _, hri, _, _⟩ := std_none_in_req env sg qs oi gi r q hstd iB a (C.pre iB (Nat.le_refl _)) ha hne
    exact hlen (List.getElem?_eq_some_iff.1 hri).1
  | quantize => cases hnum


/-! ## fixed output range (SOFTMAX, LOGISTIC, TANH) -/

/-- the hard-coded ranges dequantize without overflow (closed computation) -/
theorem fixed_minMax_ok (sl sym : Bool) (bits : Nat) (hb : bits = 8 ∨ bits = 16) :
    (match fixedParams sl bits with
     | none => false
     | some fp => (match minMaxFromParams bits sym fp with | .ok _ => true | .error _ => false)) = true := by
  rcases hb with rfl | rfl <;> cases sl <;> cases sym <;> decide +kernel

theorem wrapper_true_noProd (env : Env) (qs : Qsvs) (oi : OpInfo) (t : Tensor) (g : Option Param) (r : CReq)
    (h : wrapper env qs oi t true g = .ok r) : r.producer = none := by
  obtain ⟨p, hp⟩ := Locality.wrapper_mkReq env qs oi t true g r h
  obtain ⟨xfs, _, hr⟩ := mkReq_spec _ _ _ _ _ _ hp
  simp only [if_true] at hr
  subst hr
  rfl

structure FixedCtx (env : Env) (sg : Subgraph) (qs : Qsvs) (oi : OpInfo) : Prop where
  std : StdCtx env sg qs oi .none [] []
  outputs : oi.op.outputs.length = 1
  srq : isSRQ oi.cfg = true
  /-- the result is a float32 runtime tensor -/
  outFloat : ∀ a t, a ∈ oi.op.outputs → a ≠ -1 → tensorAt sg a = .ok t → t.dtype = Tables.ttFloat32 ∧ constData env t = none

theorem fixedSite_struct_absurd (env : Env) (sg : Subgraph) (qs : Qsvs) (oi : OpInfo) (sl : Bool) (e : PyErr)
    (C : FixedCtx env sg qs oi) : ¬ FixedSite env sg qs oi sl false e := by
  obtain ⟨w, hwc, _, _, hmodes⟩ := modeOK_facts _ _ C.std.mode
  have hact : ∃ a, oi.cfg.act = some a ∧ (a.bits = 8 ∨ a.bits = 16) := by
    rcases hmodes with ⟨_, a, ha, hb, _⟩ | ⟨_, ha, _⟩ | ⟨_, ha, _⟩
    · exact ⟨a, ha, hb⟩
    · have := C.srq; unfold isSRQ at this; rw [ha] at this; simp at this
    · have := C.srq; unfold isSRQ at this; rw [ha] at this; simp at this
  obtain ⟨a0, ha0, hb0⟩ := hact
  intro hsite
  generalize hnum : false = num at hsite
  cases hsite with
  | outputs h => exact h C.outputs
  | std num e h => subst hnum; exact stdSite_struct_absurd env sg qs oi .none [] [] e C.std h
  | bits a ha hf =>
    rw [ha0] at ha; cases ha
    rcases hb0 with hb | hb <;> rw [hb] at hf <;> cases sl <;> cases hf
  | minMax a fp e ha hf hmm =>
    rw [ha0] at ha; cases ha
    have hbn : a0.bits.toNat = 8 ∨ a0.bits.toNat = 16 := by
      rcases hb0 with hb | hb <;> rw [hb]
      · exact .inl rfl
      · exact .inr rfl
    have := fixed_minMax_ok sl a0.symmetric a0.bits.toNat hbn
    rw [hf] at this
    simp only [hmm] at this
    cases this
  | stats reqs qs' last hstd hl hp hd =>
    have hqs : qs' = qs := by
      rcases standardOp_qs env sg qs oi .none [] [] reqs qs' hstd with h | ⟨h, _⟩
      · exact h
      · cases h
    subst hqs
    obtain ⟨inIgn, outIgn, rin, rout, g, gO, _, hIgnO, hrs, hrin, hrout, _, _⟩ :=
      standardOp_shape env sg qs' oi .none [] [] reqs qs' hstd
    have hrinP : ∀ r ∈ rin, r.producer = none := by
      intro r hr
      obtain ⟨p, _, t, _, hreq⟩ := hrin.mem_right hr
      split at hreq
      · rw [hreq]; rfl
      · exact wrapper_true_noProd env qs' oi t g r hreq
    obtain ⟨a, hout⟩ : ∃ a, oi.op.outputs = [a] := by
      have := C.outputs
      rcases ho : oi.op.outputs with _ | ⟨a, _ | ⟨b, l⟩⟩
      · rw [ho] at this; cases this
      · exact ⟨a, rfl⟩
      · rw [ho] at this; simp at this
    by_cases ha : a = -1
    · have hcs : cslots oi.op.outputs = [] := by rw [hout, ha]; rfl
      have : rout = [] := by
        have := hrout.1; rw [hcs] at this
        exact List.length_eq_zero_iff.1 this.symm
      rw [hrs, this, List.append_nil] at hl
      have := hrinP last (List.mem_of_getLast? hl)
      rw [this] at hp
      cases hp
    · have hcs : cslots oi.op.outputs = [(a, 0)] := by
        rw [hout]; unfold cslots
        simp only [List.zipIdx_cons, List.zipIdx_nil, List.filter_cons, List.filter_nil]
        rw [if_pos (by simpa using ha)]
      obtain ⟨ro, hro⟩ : ∃ ro, rout = [ro] := by
        have := hrout.1; rw [hcs] at this
        exact List.length_eq_one_iff.1 this.symm
      rw [hrs, hro] at hl
      have hlast : last = ro := by simpa using hl.symm
      subst hlast
      obtain ⟨t, hat, hreq⟩ := hrout.2 0 (a, 0) last (by rw [hcs]; rfl) (by rw [hro]; rfl)
      have hname : last.name = t.name := by
        split at hreq
        · rw [hreq]; exact Locality.noQuantReq_name _ _ _
        · exact Locality.wrapper_name env qs' oi t false gO last hreq
      have hamem : a ∈ oi.op.outputs := by rw [hout]; exact List.mem_cons_self
      obtain ⟨hf, hc⟩ := C.outFloat a t hamem ha hat
      have hact : oi.cfg.act.isSome = true := by rw [ha0]; rfl
      obtain ⟨mm, hmm⟩ := C.std.stats hact false t ⟨0, a, by simp [hout], ha, hat, hf, by simp⟩ hc
      rw [hname, hmm] at hd
      cases hd

/-! ## float casting -/

structure CastCtx (env : Env) (sg : Subgraph) (oi : OpInfo) (iIn iW iB : Nat) : Prop where
  validIn : SlotsValid sg oi.op.inputs
  validOut : SlotsValid sg oi.op.outputs
  tensors : sg.tensors ≠ []
  /-- data operand, weight operand and result exist -/
  dataSlot : ∃ a, oi.op.inputs[iIn]? = some a
  weightSlot : ∃ a, oi.op.inputs[iW]? = some a
  out : ∃ a, oi.op.outputs[0]? = some a ∧ a ≠ -1
  /-- the weight is a constant -/
  weightConst : ∀ a tw, oi.op.inputs[iW]? = some a → tensorAt sg a = .ok tw → constData env tw ≠ none

theorem castSite_struct_absurd (env : Env) (sg : Subgraph) (oi : OpInfo) (iIn iW iB : Nat) (e : PyErr)
    (C : CastCtx env sg oi iIn iW iB) : ¬ CastSite env sg oi iIn iW iB false e := by
  intro hsite
  generalize hnum : false = num at hsite
  cases hsite with
  | noSlot h =>
    rcases h with h | h | h
    · obtain ⟨a, ha⟩ := C.dataSlot
      rw [ha] at h; cases h
    · obtain ⟨a, ha⟩ := C.weightSlot
      rw [ha] at h; cases h
    · obtain ⟨a, ha, _⟩ := C.out
      rw [ha] at h; cases h
  | slot e hs => exact slotSite_absurd sg _ e (slotsValid_append C.validIn C.validOut) C.tensors hs
  | weightNotConst a tw ha hat hc => exact C.weightConst a tw ha hat hc
  | f16 => cases hnum

/-! ## the dispatch -/

/-- the context facts needed for an operator of kind `k` -/
def KindCtx (env : Env) (sg : Subgraph) (qs : Qsvs) (oi : OpInfo) : Kind → Prop
  | .std con gi => StdCtx env sg qs oi con gi []
  | .conv => StdCtx env sg qs oi .none [2] [] ∧ ConvCtx env sg oi [2] 0 1 2
  | .convT => StdCtx env sg qs oi .none [0, 3] [] ∧ ConvCtx env sg oi [0, 3] 2 1 3
  | .fixed _ => FixedCtx env sg qs oi
  | .cast a b c => CastCtx env sg oi a b c
  | .unknown => False

/-- **no structural site of one operator's materialisation** -/
theorem opSite_struct_absurd (env : Env) (sg : Subgraph) (qs : Qsvs) (oi : OpInfo) (k : Kind) (e : PyErr)
    (C : KindCtx env sg qs oi k) : ¬ OpSite env sg qs oi k false e := by
  intro hsite
  generalize hnum : false = num at hsite
  cases hsite with
  | unknown => exact C
  | std num con gi e h => subst hnum; exact stdSite_struct_absurd env sg qs oi con gi [] e C h
  | convStd num e h => subst hnum; exact stdSite_struct_absurd env sg qs oi .none [2] [] e C.1 h
  | convBias num r q e hstd h => subst hnum; exact biasSite_struct_absurd env sg qs oi [2] 0 1 2 r q e C.2 hstd h
  | convTStd num e h => subst hnum; exact stdSite_struct_absurd env sg qs oi .none [0, 3] [] e C.1 h
  | convTArity r q hstd hlen =>
    obtain ⟨a, ha, hne⟩ := C.2.mandatory 1 (by decide)
    obtain ⟨t, ri, _, hri, _, _⟩ := std_none_in_req env sg qs oi [0, 3] r q hstd 1 a (C.2.pre 1 (by decide)) ha hne
    have := (List.getElem?_eq_some_iff.1 hri).1
    omega
  | convTBias num r q e hstd h => subst hnum; exact biasSite_struct_absurd env sg qs oi [0, 3] 2 1 3 r q e C.2 hstd h
  | fixed num sl e h => subst hnum; exact fixedSite_struct_absurd env sg qs oi sl e C h
  | cast num a b c e h => subst hnum; exact castSite_struct_absurd env sg oi a b c e C h

end MatTotal
