import QProofs.LocalityShape
import QProofs.MatParams
/-!
# Raise sites of the materialisation stage `Mat.generate` (C08)

`Sited S x` : every error of the computation `x` satisfies the site predicate `S`.  The sites form a
hierarchy of inductive predicates, one per function of the stage,

  `GenSite` (`generate`) → `StepSite` (one entry of the operator list) → `OpSite` (`materializeOp`, by the
  `Kind` of the registered function) → `StdSite` / `BiasSite` / `FixedSite` / `CastSite` → `TensorSite`
  (`wrapper`),

each indexed by a Boolean tag -- `true`: NUMERIC site (a failure of `tensor_zp_scale_from_min_max`,
`uniform_quantize`, `symmetric_quantize_bias_tensor`, the float16 cast, on the actual data), `false`:
STRUCTURAL site -- and by the error raised.  `generate_sited` is the inventory: every error of
`generate` arises at a `GenSite`.  The other `QProofs/MatTotal*.lean` files show that no structural site
can fire on normal-form inputs (`MatTotalMain.generate_total`), that the numeric sites are real
(`MatTotalSound.genSite_sound`), and that the graph stage then cannot raise (`MatTotalPipe`).
-/
open Graph Mat Arith Cfg Num Nd Pipe

set_option autoImplicit false

namespace MatTotal

/-! ## generic: where an error of a compound computation comes from -/

/-- every error `x` can end in is described by `S` -/
def Sited {α} (S : PyErr → Prop) (x : PyM α) : Prop := ∀ e, x = .error e → S e

theorem Sited.ok {α} {S : PyErr → Prop} (a : α) : Sited S (.ok a : PyM α) := by
  intro e h; cases h

theorem Sited.pure {α} {S : PyErr → Prop} (a : α) : Sited S (pure a : PyM α) := Sited.ok a

theorem Sited.error {α} {S : PyErr → Prop} {e : PyErr} (h : S e) : Sited S (.error e : PyM α) := by
  intro e' h'; cases h'; exact h

theorem Sited.throw {α} {S : PyErr → Prop} {e : PyErr} (h : S e) : Sited S (throw e : PyM α) := Sited.error h

theorem Sited.mono {α} {S S' : PyErr → Prop} {x : PyM α} (h : Sited S x) (hS : ∀ e, S e → S' e) : Sited S' x :=
  fun e he => hS e (h e he)

theorem Sited.bind {α β} {S : PyErr → Prop} {x : PyM α} {f : α → PyM β} (hx : Sited S x)
    (hf : ∀ a, x = .ok a → Sited S (f a)) : Sited S (x >>= f) := by
  intro e h
  cases hxv : x with
  | error e' =>
    rw [hxv] at h
    cases h
    exact hx e hxv
  | ok a =>
    rw [hxv] at h
    exact hf a hxv e h

theorem Sited.bind_error {α β} {S : PyErr → Prop} {e : PyErr} {f : α → PyM β} (h : S e) :
    Sited S ((.error e : PyM α) >>= f) := Sited.error h

theorem Sited.bind_throw {α β} {S : PyErr → Prop} {e : PyErr} {f : α → PyM β} (h : S e) :
    Sited S ((MonadExcept.throw e : PyM α) >>= f) := Sited.error h

theorem Sited.ite {α} {S : PyErr → Prop} (c : Prop) [Decidable c] {a b : PyM α}
    (ha : c → Sited S a) (hb : ¬ c → Sited S b) : Sited S (if c then a else b) := by
  by_cases h : c
  · rw [if_pos h]; exact ha h
  · rw [if_neg h]; exact hb h

theorem Sited.mapM {α β} {S : PyErr → Prop} (f : α → PyM β) : ∀ (l : List α),
    (∀ a ∈ l, Sited S (f a)) → Sited S (l.mapM f) := by
  intro l
  induction l with
  | nil => intro _; exact Sited.ok _
  | cons a as ih =>
    intro h
    rw [List.mapM_cons]
    refine Sited.bind (h a List.mem_cons_self) (fun b _ => ?_)
    refine Sited.bind (ih (fun c hc => h c (List.mem_cons_of_mem _ hc))) (fun bs _ => Sited.ok _)

theorem Sited.filterMapM {α β} {S : PyErr → Prop} (f : α → PyM (Option β)) : ∀ (l : List α),
    (∀ a ∈ l, Sited S (f a)) → Sited S (l.filterMapM f) := by
  intro l
  induction l with
  | nil => intro _; exact Sited.ok _
  | cons a as ih =>
    intro h
    rw [List.filterMapM_cons]
    refine Sited.bind (h a List.mem_cons_self) (fun b _ => ?_)
    have := ih (fun c hc => h c (List.mem_cons_of_mem _ hc))
    cases b with
    | none => exact this
    | some b => exact Sited.bind this (fun bs _ => Sited.ok _)

/-- an error of a monadic fold arises at some element, from a state reached by the fold so far -/
theorem Sited.foldlM {α β} {S : PyErr → Prop} (f : β → α → PyM β) (J : β → Prop) : ∀ (l : List α) (init : β),
    J init → (∀ a ∈ l, ∀ s, J s → Sited S (f s a) ∧ ∀ s', f s a = .ok s' → J s') →
    Sited S (l.foldlM f init) := by
  intro l
  induction l with
  | nil => intro init _ _; exact Sited.ok _
  | cons a as ih =>
    intro init h0 h
    rw [List.foldlM_cons]
    refine Sited.bind (h a List.mem_cons_self init h0).1 (fun s' hs' => ?_)
    exact ih s' ((h a List.mem_cons_self init h0).2 s' hs') (fun c hc => h c (List.mem_cons_of_mem _ hc))


theorem Sited.match_option {α β} {S : PyErr → Prop} (o : Option α) {a : PyM β} {f : α → PyM β}
    (ha : o = none → Sited S a) (hf : ∀ x, o = some x → Sited S (f x)) :
    Sited S (match o with | none => a | some x => f x) := by
  cases o with
  | none => exact ha rfl
  | some x => exact hf x rfl

/-- an error of a `foldlM` arises at one element, from the state the fold has reached on the prefix -/
theorem foldlM_error_split {α β} (f : β → α → PyM β) : ∀ (l : List α) (init : β) (e : PyErr),
    l.foldlM f init = .error e →
    ∃ pre x post s, l = pre ++ x :: post ∧ pre.foldlM f init = .ok s ∧ f s x = .error e := by
  intro l
  induction l with
  | nil => intro init e h; cases h
  | cons a as ih =>
    intro init e h
    rw [List.foldlM_cons] at h
    cases hf : f init a with
    | error e' =>
      rw [hf] at h
      cases h
      exact ⟨[], a, as, init, rfl, rfl, hf⟩
    | ok s' =>
      rw [hf] at h
      obtain ⟨pre, x, post, s, hl, hpre, hx⟩ := ih s' e h
      refine ⟨a :: pre, x, post, s, by rw [hl]; rfl, ?_, hx⟩
      rw [List.foldlM_cons, hf]
      exact hpre

/-- a site of either kind: structural (`false`) or numeric (`true`) -/
abbrev AnySite (S : Bool → PyErr → Prop) (e : PyErr) : Prop := ∃ num, S num e

/-! ## sites of one per-tensor materialisation (`Mat.wrapper`) -/

open MatParams in
/-- **why the materialisation of ONE tensor for ONE operator can fail**.  `qs` is the statistics
    dictionary at that point of the run, `g` the parameters handed over by a constrained operator. -/
inductive TensorSite (env : Env) (qs : Qsvs) (oi : OpInfo) (t : Tensor) (inbound : Bool) (g : Option Param) :
    Bool → PyErr → Prop
  /-- a runtime tensor that must be quantized has no entry in the statistics (ValueError) -/
  | statsMissing (tc : TCfg) : g = none → tcfgOf env oi t = some tc → constData env t = none →
      Py.dictGet? qs t.name = none → TensorSite env qs oi t inbound g false .valueError
  /-- the statistics entry is `{}` (never updated), or the constant has no elements (ValueError) -/
  | statsEmpty (tc : TCfg) : g = none → tcfgOf env oi t = some tc → statsOf env qs oi t = .ok none →
      TensorSite env qs oi t inbound g false .valueError
  /-- min/max of a constant under a BLOCKWISE weight config (out of model: `unsupported`) -/
  | constBlockwise (tc : TCfg) (d : Arr Rat) : g = none → tcfgOf env oi t = some tc → constData env t = some d →
      weightBlockwise oi = true → TensorSite env qs oi t inbound g false .unsupported
  /-- `tensor_zp_scale_from_min_max` fails: min/max of shapes that do not broadcast (ValueError) or a
      non-finite intermediate (`nonfinite`) -/
  | zpScale (tc : TCfg) (mn mx : FArr) (e : PyErr) : g = none → tcfgOf env oi t = some tc →
      statsOf env qs oi t = .ok (some (mn, mx)) → Arith.zpScale tc.bits.toNat tc.symmetric mn mx = .error e →
      TensorSite env qs oi t inbound g true e
  /-- CHANNELWISE config on a tensor without a quantized dimension: a BATCH_MATMUL runtime operand
      (AttributeError), an operator outside the `weightQDim` table (KeyError) -/
  | qdim (tc : TCfg) (e : PyErr) : g = none → tcfgOf env oi t = some tc →
      refQDim env oi tc (constData env t) = .error e → TensorSite env qs oi t inbound g false e
  /-- quantized values of a constant under a BLOCKWISE tensor config (out of model: `unsupported`) -/
  | quantBlockwise (tc : TCfg) (d : Arr Rat) : g = none → tcfgOf env oi t = some tc → constData env t = some d →
      tc.gran = Gran.blockwise → TensorSite env qs oi t inbound g false .unsupported
  /-- quantizing the constant's values fails: parameter rank/shape mismatch (ValueError, `unsupported`),
      non-finite intermediate (`nonfinite`) -/
  | quantize (tc : TCfg) (d : Arr Rat) (mn mx : FArr) (qdim : Option Nat) (qp : QParams) (e : PyErr) : g = none →
      tcfgOf env oi t = some tc → constData env t = some d → statsOf env qs oi t = .ok (some (mn, mx)) →
      refQDim env oi tc (constData env t) = .ok qdim → refParams tc.bits.toNat tc.symmetric qdim mn mx = .ok qp →
      tc.gran ≠ Gran.blockwise → uniformQuantize ⟨d, .f32⟩ qp = .error e → TensorSite env qs oi t inbound g true e
  /-- a constant that borrows data-free parameters (repair D21) cannot be quantized with them -/
  | givenQuantize (qp : QParams) (d : Arr Rat) (e : PyErr) : g = some (.uniform qp none) → constData env t = some d →
      uniformQuantize ⟨d, .f32⟩ qp = .error e → TensorSite env qs oi t inbound g true e
  /-- `get_tensor_transformations`: the op config is none of static-range / weight-only-integer /
      blockwise-emulated / float-with-explicit-dequantize (ValueError) -/
  | xfs (e : PyErr) : tensorXfs oi.cfg inbound (constData env t).isSome = .error e → TensorSite env qs oi t inbound g false e

theorem mkReq_sited (env : Env) (qs : Qsvs) (oi : OpInfo) (t : Tensor) (inbound : Bool) (g p : Option Param) :
    Sited (AnySite (TensorSite env qs oi t inbound g)) (mkReq t.name oi inbound p (constData env t).isSome) := by
  intro e h
  unfold mkReq at h
  cases hx : tensorXfs oi.cfg inbound (constData env t).isSome with
  | error e' =>
    rw [hx] at h
    cases h
    exact ⟨_, .xfs _ hx⟩
  | ok xfs => rw [hx] at h; cases h

open MatParams in
/-- **inventory of the raise sites of `wrapper`** -/
theorem wrapper_sited (env : Env) (qs : Qsvs) (oi : OpInfo) (t : Tensor) (inbound : Bool) (g : Option Param) :
    Sited (AnySite (TensorSite env qs oi t inbound g)) (wrapper env qs oi t inbound g) := by
  cases g with
  | none =>
    rw [wrapper_none_eq]
    cases htc : tcfgOf env oi t with
    | none => exact mkReq_sited env qs oi t inbound none none
    | some tc =>
      simp only []
      cases hs : statsOf env qs oi t with
      | error e =>
        simp only []
        refine Sited.error ?_
        unfold statsOf at hs
        cases hd : constData env t with
        | none =>
          rw [hd] at hs
          simp only [] at hs
          cases hq : Py.dictGet? qs t.name with
          | none => rw [hq] at hs; cases hs; exact ⟨_, .statsMissing tc rfl htc hd hq⟩
          | some v => rw [hq] at hs; cases hs
        | some d =>
          rw [hd] at hs
          simp only [] at hs
          split at hs
          · cases hs
          · rename_i hne
            have hne' : d.data.isEmpty = false := by simpa using hne
            cases hi : initMinMax env oi t d with
            | ok r => rw [hi] at hs; cases hs
            | error e' =>
              rw [hi] at hs
              cases hs
              rw [initMinMax_eq] at hi
              by_cases hbw : weightBlockwise oi = true
              · rw [if_pos hbw] at hi
                cases hi
                exact ⟨_, .constBlockwise tc d rfl htc hd hbw⟩
              · rw [if_neg hbw] at hi
                exfalso
                revert hi
                unfold reduceKeep
                simp only [hne', Bool.false_eq_true, if_false]
                intro hi
                cases hi
      | ok mm =>
        simp only [tensorQuantParams_eq]
        cases mm with
        | none => exact Sited.error ⟨_, .statsEmpty tc rfl htc hs⟩
        | some s =>
          obtain ⟨mn, mx⟩ := s
          simp only []
          cases hp : refTensorParams env oi tc (constData env t) mn mx with
          | ok p => exact mkReq_sited env qs oi t inbound none (some p)
          | error e =>
            simp only []
            refine Sited.error ?_
            unfold refTensorParams at hp
            cases hz : Arith.zpScale tc.bits.toNat tc.symmetric mn mx with
            | error e' => rw [hz] at hp; cases hp; exact ⟨_, .zpScale tc mn mx _ rfl htc hs hz⟩
            | ok zs =>
              rw [hz] at hp
              simp only [] at hp
              cases hq : refQDim env oi tc (constData env t) with
              | error e' => rw [hq] at hp; cases hp; exact ⟨_, .qdim tc _ rfl htc hq⟩
              | ok qdim =>
                rw [hq] at hp
                simp only [] at hp
                cases hdat : refData tc (constData env t)
                    { bits := tc.bits.toNat, qdim := qdim, scale := zs.2, zp := zs.1, symmetric := tc.symmetric } with
                | error e' =>
                  rw [hdat] at hp
                  cases hp
                  unfold refData at hdat
                  cases hd : constData env t with
                  | none => rw [hd] at hdat; cases hdat
                  | some d =>
                    rw [hd] at hdat
                    simp only [] at hdat
                    by_cases hb : (tc.gran == Gran.blockwise) = true
                    · rw [if_pos hb] at hdat
                      cases hdat
                      exact ⟨_, .quantBlockwise tc d rfl htc hd (beq_iff_eq.1 hb)⟩
                    · rw [if_neg hb] at hdat
                      cases hu : uniformQuantize ⟨d, .f32⟩
                          { bits := tc.bits.toNat, qdim := qdim, scale := zs.2, zp := zs.1, symmetric := tc.symmetric } with
                      | ok q => rw [hu] at hdat; cases hdat
                      | error e2 =>
                        rw [hu] at hdat
                        cases hdat
                        refine ⟨_, .quantize tc d mn mx qdim _ _ rfl htc hd hs hq ?_ (fun hh => hb (by rw [hh]; rfl)) hu⟩
                        unfold refParams
                        rw [hz]
                | ok dd => rw [hdat] at hp; cases hp
  | some p =>
    rw [wrapper_given_eq]
    cases p with
    | nonlinear b dd => exact mkReq_sited env qs oi t inbound _ _
    | uniform qp dd =>
      cases dd with
      | some v => exact mkReq_sited env qs oi t inbound _ _
      | none =>
        cases hd : constData env t with
        | none =>
          simp only []
          have := mkReq_sited env qs oi t inbound (some (.uniform qp none)) (some (.uniform qp none))
          rw [hd] at this
          exact this
        | some d =>
          simp only []
          cases hu : uniformQuantize ⟨d, .f32⟩ qp with
          | error e => exact Sited.error ⟨_, .givenQuantize qp d e rfl hd hu⟩
          | ok q =>
            simp only []
            have := mkReq_sited env qs oi t inbound (some (.uniform qp none)) (some (.uniform qp (some q)))
            rw [hd] at this
            exact this


/-! ## sites of `standardOp` -/

theorem Sited.forIn {α β} {S : PyErr → Prop} (f : α → β → PyM (ForInStep β)) : ∀ (l : List α) (init : β),
    (∀ a ∈ l, ∀ s, Sited S (f a s)) → Sited S (forIn l init f) := by
  intro l
  induction l with
  | nil => intro init _; exact Sited.ok _
  | cons a as ih =>
    intro init h
    rw [List.forIn_cons]
    refine Sited.bind (h a List.mem_cons_self init) (fun r _ => ?_)
    cases r with
    | done b => exact Sited.ok _
    | yield b => exact ih b (fun c hc => h c (List.mem_cons_of_mem _ hc))

/-- an operand / result slot that does not name a tensor of the subgraph (IndexError; excluded by
    `WF.modelOK`) -/
def SlotSite (sg : Subgraph) (slots : List Int) (e : PyErr) : Prop := ∃ a ∈ slots, tensorAt sg a = .error e

theorem mem_of_mem_zipIdx {α} (l : List α) (p : α × Nat) (h : p ∈ l.zipIdx) : p.1 ∈ l := by
  obtain ⟨a, i⟩ := p
  exact List.mem_of_getElem? (List.mem_zipIdx_iff_getElem?.1 h)

theorem ignoredSlots_sited (sg : Subgraph) (slots : List Int) (given : List Nat) :
    Sited (SlotSite sg slots) (ignoredSlots sg slots given) := by
  unfold ignoredSlots
  refine Sited.bind (Sited.filterMapM _ _ (fun p hp => ?_)) (fun _ _ => Sited.ok _)
  refine Sited.bind ?_ (fun _ _ => Sited.ok _)
  intro e he
  exact ⟨p.1, mem_of_mem_zipIdx _ _ hp, he⟩

theorem splitTensors_sited (sg : Subgraph) (slots : List Int) (ign : List Nat) :
    Sited (SlotSite sg slots) (splitTensors sg slots ign) := by
  rw [splitTensors_eq]
  refine Sited.bind (Sited.forIn _ _ _ (fun p hp s => ?_)) (fun _ _ => Sited.ok _)
  unfold splitBody
  refine Sited.ite _ (fun _ => Sited.ok _) (fun _ => ?_)
  refine Sited.bind ?_ (fun v _ => Sited.ite _ (fun _ => Sited.ok _) (fun _ => Sited.ok _))
  intro e he
  exact ⟨p.1, mem_of_mem_zipIdx _ _ hp, he⟩

/-- `t` is the tensor of an operand (`inbound`) / result slot of `op` that the materialisation does
    not ignore: the slot is not `-1`, the tensor is float32, the position is not in `given` -/
def SlotTensor (sg : Subgraph) (op : Op) (inbound : Bool) (given : List Nat) (t : Tensor) : Prop :=
  ∃ (i : Nat) (a : Int), (if inbound then op.inputs else op.outputs)[i]? = some a ∧ a ≠ -1 ∧
    tensorAt sg a = .ok t ∧ t.dtype = Tables.ttFloat32 ∧ i ∉ given

/-- the float operands / results `standardOp` materialises (in slot order) -/
def FloatSlots (sg : Subgraph) (slots : List Int) (given : List Nat) (ts : List Tensor) : Prop :=
  ∃ ign sel upd, ignoredSlots sg slots given = .ok ign ∧ splitTensors sg slots ign = .ok (sel, ts, upd)

theorem floatSlots_mem (sg : Subgraph) (op : Op) (inbound : Bool) (given : List Nat) (ts : List Tensor)
    (h : FloatSlots sg (if inbound then op.inputs else op.outputs) given ts) :
    ∀ t ∈ ts, SlotTensor sg op inbound given t := by
  obtain ⟨ign, sel, upd, hign, hsplit⟩ := h
  intro t ht
  obtain ⟨p, hp, hc, hat⟩ := (splitTensors_spec _ _ _ _ _ _ hsplit).oth_mem t ht
  obtain ⟨a, i⟩ := p
  unfold cslots at hp
  rw [List.mem_filter] at hp
  have hget := List.mem_zipIdx_iff_getElem?.1 hp.1
  have hne : a ≠ -1 := by simpa using hp.2
  have hspec := ignoredSlots_spec _ _ _ _ hign i a t hget hat
  have hnot : ¬ (t.dtype ≠ Tables.ttFloat32 ∨ i ∈ given) := by
    intro hh
    have := hspec.2 hh
    simp only at hc
    rw [this] at hc
    cases hc
  refine ⟨i, a, hget, hne, hat, ?_, fun hh => hnot (.inr hh)⟩
  by_contra hh
  exact hnot (.inl hh)

/-- where the parameters handed to a per-tensor materialisation come from -/
inductive GivenFrom (env : Env) (sg : Subgraph) (qs : Qsvs) (oi : OpInfo) (con : Constraint) (gi go : List Nat) :
    Bool → Option Param → Prop
  /-- no constraint, the data operand of a same-as-input operator, the result of a same-as-output operator -/
  | none (inbound : Bool) : (con = .none ∨ (con = .sameAsInput ∧ inbound = true) ∨ (con = .sameAsOutput ∧ inbound = false)) →
      GivenFrom env sg qs oi con gi go inbound none
  /-- same-as-input: the results get the parameters of the data operand, stripped of its values -/
  | fromInput (t : Tensor) (ir : CReq) (p0 : Option Param) : con = .sameAsInput →
      FloatSlots sg oi.op.inputs gi [t] → wrapper env qs oi t true none = .ok ir → reqParam0 ir = .ok p0 →
      GivenFrom env sg qs oi con gi go false (stripData p0)
  /-- same-as-output: the operands get the parameters of the result -/
  | fromOutput (t : Tensor) (orq : CReq) : con = .sameAsOutput →
      FloatSlots sg oi.op.outputs go [t] → wrapper env qs oi t false none = .ok orq →
      GivenFrom env sg qs oi con gi go true (match orq.producer with | some pr => pr.param | none => none)

/-- **why `materialize_standard_op` can fail** -/
inductive StdSite (env : Env) (sg : Subgraph) (qs : Qsvs) (oi : OpInfo) (con : Constraint) (gi go : List Nat) :
    Bool → PyErr → Prop
  | slot (e : PyErr) : SlotSite sg (oi.op.inputs ++ oi.op.outputs) e → StdSite env sg qs oi con gi go false e
  /-- a same-as-input operator with float operands/results that does not have exactly one float operand (ValueError) -/
  | arityIn (inT outT : List Tensor) : con = .sameAsInput → FloatSlots sg oi.op.inputs gi inT →
      FloatSlots sg oi.op.outputs go outT → ¬ (inT = [] ∧ outT = []) → inT.length ≠ 1 →
      StdSite env sg qs oi con gi go false .valueError
  /-- a same-as-output operator with float operands/results that does not have exactly one float result (ValueError) -/
  | arityOut (inT outT : List Tensor) : con = .sameAsOutput → FloatSlots sg oi.op.inputs gi inT →
      FloatSlots sg oi.op.outputs go outT → ¬ (inT = [] ∧ outT = []) → outT.length ≠ 1 →
      StdSite env sg qs oi con gi go false .valueError
  /-- the materialisation of one of its float tensors fails -/
  | tensor (num : Bool) (t : Tensor) (inbound : Bool) (g : Option Param) (e : PyErr) (ts : List Tensor) :
      SlotTensor sg oi.op inbound (if inbound then gi else go) t →
      FloatSlots sg (if inbound then oi.op.inputs else oi.op.outputs) (if inbound then gi else go) ts → t ∈ ts → GivenFrom env sg qs oi con gi go inbound g →
      TensorSite env qs oi t inbound g num e → StdSite env sg qs oi con gi go num e
  /-- same-as-input: the data operand has no statistics entry to copy to the results (KeyError) -/
  | copyStats (t : Tensor) (outT : List Tensor) : con = .sameAsInput → FloatSlots sg oi.op.inputs gi [t] →
      FloatSlots sg oi.op.outputs go outT → Py.dictGet? qs t.name = none →
      StdSite env sg qs oi con gi go false .keyError

theorem SlotSite.left {sg : Subgraph} {a b : List Int} {e : PyErr} (h : SlotSite sg a e) : SlotSite sg (a ++ b) e := by
  obtain ⟨x, hx, h⟩ := h
  exact ⟨x, List.mem_append_left _ hx, h⟩

theorem SlotSite.right {sg : Subgraph} {a b : List Int} {e : PyErr} (h : SlotSite sg b e) : SlotSite sg (a ++ b) e := by
  obtain ⟨x, hx, h⟩ := h
  exact ⟨x, List.mem_append_right _ hx, h⟩

theorem reqParam0_of_wrapper (env : Env) (qs : Qsvs) (oi : OpInfo) (t : Tensor) (g : Option Param) (r : CReq)
    (h : wrapper env qs oi t true g = .ok r) : ∃ p, reqParam0 r = .ok p := by
  obtain ⟨p, hp⟩ := Locality.wrapper_mkReq env qs oi t true g r h
  obtain ⟨xfs, _, hr⟩ := mkReq_spec _ _ _ _ _ _ hp
  simp only [if_true] at hr
  subst hr
  exact ⟨p, rfl⟩

theorem standardOp_sited (env : Env) (sg : Subgraph) (qs : Qsvs) (oi : OpInfo) (con : Constraint) (gi go : List Nat) :
    Sited (AnySite (StdSite env sg qs oi con gi go)) (standardOp env sg qs oi con gi go) := by
  unfold standardOp
  refine Sited.bind ((ignoredSlots_sited _ _ _).mono (fun e h => ⟨_, .slot e h.left⟩)) (fun inIgn hinIgn => ?_)
  refine Sited.bind ((ignoredSlots_sited _ _ _).mono (fun e h => ⟨_, .slot e h.right⟩)) (fun outIgn houtIgn => ?_)
  refine Sited.bind ((splitTensors_sited _ _ _).mono (fun e h => ⟨_, .slot e h.left⟩)) (fun x hsplitIn => ?_)
  obtain ⟨ignInT, inT, inIgnU⟩ := x
  refine Sited.bind ((splitTensors_sited _ _ _).mono (fun e h => ⟨_, .slot e h.right⟩)) (fun x hsplitOut => ?_)
  obtain ⟨ignOutT, outT, outIgnU⟩ := x
  simp only []
  have hFI : FloatSlots sg oi.op.inputs gi inT := ⟨inIgn, ignInT, inIgnU, hinIgn, hsplitIn⟩
  have hFO : FloatSlots sg oi.op.outputs go outT := ⟨outIgn, ignOutT, outIgnU, houtIgn, hsplitOut⟩
  have hin : ∀ t ∈ inT, SlotTensor sg oi.op true gi t := floatSlots_mem sg oi.op true gi inT hFI
  have hout : ∀ t ∈ outT, SlotTensor sg oi.op false go t := floatSlots_mem sg oi.op false go outT hFO
  have win : ∀ g, GivenFrom env sg qs oi con gi go true g →
      Sited (AnySite (StdSite env sg qs oi con gi go)) (inT.mapM fun i => wrapper env qs oi i true g) :=
    fun g hg => Sited.mapM _ _ (fun t ht => (wrapper_sited env qs oi t true g).mono
      (fun e h => h.elim fun num h => ⟨num, .tensor num t true g e inT (hin t ht) hFI ht hg h⟩))
  have wout : ∀ g, GivenFrom env sg qs oi con gi go false g →
      Sited (AnySite (StdSite env sg qs oi con gi go)) (outT.mapM fun i => wrapper env qs oi i false g) :=
    fun g hg => Sited.mapM _ _ (fun t ht => (wrapper_sited env qs oi t false g).mono
      (fun e h => h.elim fun num h => ⟨num, .tensor num t false g e outT (hout t ht) hFO ht hg h⟩))
  refine Sited.ite _ (fun _ => Sited.ok _) (fun hnone => ?_)
  have hnone' : ∀ a b : List Tensor, a = inT → b = outT → ¬ (a = [] ∧ b = []) := by
    rintro a b rfl rfl ⟨rfl, rfl⟩
    exact hnone rfl
  cases con with
  | none =>
    simp only []
    refine Sited.bind (win none (.none true (.inl rfl))) (fun ins _ => ?_)
    exact Sited.bind (wout none (.none false (.inl rfl))) (fun outs _ => Sited.ok _)
  | sameAsInput =>
    simp only []
    refine Sited.bind ?_ (fun t ht => ?_)
    · rcases inT with _ | ⟨a, _ | ⟨b, l⟩⟩
      · exact Sited.error ⟨_, .arityIn [] outT rfl hFI hFO (hnone' _ _ rfl rfl) (by simp)⟩
      · exact Sited.ok _
      · exact Sited.error ⟨_, .arityIn _ outT rfl hFI hFO (hnone' _ _ rfl rfl) (by simp)⟩
    have hinT : inT = [t] := by
      rcases inT with _ | ⟨a, _ | ⟨b, l⟩⟩
      · cases ht
      · simp only [pure, Except.pure, Except.ok.injEq] at ht
        rw [ht]
      · cases ht
    subst hinT
    have htS := hin t List.mem_cons_self
    refine Sited.bind ((wrapper_sited env qs oi t true none).mono
      (fun e h => h.elim fun num h => ⟨num, .tensor num t true none e [t] htS hFI List.mem_cons_self (.none true (.inr (.inl ⟨rfl, rfl⟩))) h⟩)) (fun ir hir => ?_)
    obtain ⟨p0, hp0⟩ := reqParam0_of_wrapper env qs oi t none ir hir
    rw [hp0]
    refine Sited.bind (Sited.ok _) (fun p0' hp0' => ?_)
    cases hp0'
    refine Sited.bind (wout _ (.fromInput t ir p0 rfl hFI hir hp0)) (fun outs _ => ?_)
    refine Sited.bind ?_ (fun iq _ => ?_)
    · cases hq : Py.dictGet? qs ir.name with
      | some v => exact Sited.ok _
      | none =>
        refine Sited.error ⟨_, .copyStats t outT rfl hFI hFO ?_⟩
        rw [← Locality.wrapper_name env qs oi t true none ir hir]
        exact hq
    rw [Locality.setLoop]
    exact Sited.bind (Sited.ok _) (fun _ _ => Sited.ok _)
  | sameAsOutput =>
    simp only []
    refine Sited.bind ?_ (fun t ht => ?_)
    · rcases outT with _ | ⟨a, _ | ⟨b, l⟩⟩
      · exact Sited.error ⟨_, .arityOut inT [] rfl hFI hFO (hnone' _ _ rfl rfl) (by simp)⟩
      · exact Sited.ok _
      · exact Sited.error ⟨_, .arityOut inT _ rfl hFI hFO (hnone' _ _ rfl rfl) (by simp)⟩
    have houtT : outT = [t] := by
      rcases outT with _ | ⟨a, _ | ⟨b, l⟩⟩
      · cases ht
      · simp only [pure, Except.pure, Except.ok.injEq] at ht
        rw [ht]
      · cases ht
    subst houtT
    have htS := hout t List.mem_cons_self
    refine Sited.bind ((wrapper_sited env qs oi t false none).mono
      (fun e h => h.elim fun num h => ⟨num, .tensor num t false none e [t] htS hFO List.mem_cons_self (.none false (.inr (.inr ⟨rfl, rfl⟩))) h⟩)) (fun orq horq => ?_)
    exact Sited.bind (win _ (.fromOutput t orq rfl hFO horq)) (fun ins _ => Sited.ok _)


/-! ## sites of the bias, fixed-range and float-casting materialisations -/

/-- **why `_materialize_bias_for_conv_ops` can fail** (`reqs`: the requests of the operator so far) -/
inductive BiasSite (env : Env) (sg : Subgraph) (oi : OpInfo) (reqs : List CReq) (iIn iW iB : Nat) : Bool → PyErr → Prop
  | slot (e : PyErr) : SlotSite sg oi.op.inputs e → BiasSite env sg oi reqs iIn iW iB false e
  /-- static-range quantization of a bias that is not a constant (out of model: `unsupported`) -/
  | notConst (a : Int) (bt : Tensor) : oi.op.inputs[iB]? = some a → a ≠ -1 → tensorAt sg a = .ok bt → isSRQ oi.cfg = true →
      constData env bt = none → BiasSite env sg oi reqs iIn iW iB false .unsupported
  /-- no request at the data / weight position (IndexError) -/
  | reqIndex : isSRQ oi.cfg = true → (reqs[iIn]? = none ∨ reqs[iW]? = none) → BiasSite env sg oi reqs iIn iW iB false .indexError
  /-- the request at the data / weight position has no consumer entry (TypeError) -/
  | reqShape (r : CReq) (e : PyErr) : isSRQ oi.cfg = true → (reqs[iIn]? = some r ∨ reqs[iW]? = some r) → reqParam0 r = .error e →
      BiasSite env sg oi reqs iIn iW iB false e
  /-- data or weight carry no uniform parameters (AttributeError) -/
  | params (rin rw : CReq) (pin pw : Option Param) : isSRQ oi.cfg = true → reqs[iIn]? = some rin → reqs[iW]? = some rw →
      reqParam0 rin = .ok pin → reqParam0 rw = .ok pw →
      (∀ qi di qw dw, ¬ (pin = some (.uniform qi di) ∧ pw = some (.uniform qw dw))) →
      BiasSite env sg oi reqs iIn iW iB false .attributeError
  /-- `symmetric_quantize_bias_tensor` fails (scale shapes, non-finite intermediate) on the parameters of the
      data and weight requests -/
  | quantize (a : Int) (bt : Tensor) (bd : Arr Rat) (rin rw : CReq) (qi qw : QParams) (di dw : Option IArr) (e : PyErr) :
      oi.op.inputs[iB]? = some a → a ≠ -1 → tensorAt sg a = .ok bt → isSRQ oi.cfg = true → constData env bt = some bd →
      reqs[iIn]? = some rin → reqs[iW]? = some rw → reqParam0 rin = .ok (some (.uniform qi di)) →
      reqParam0 rw = .ok (some (.uniform qw dw)) → quantizeBias ⟨bd, .f32⟩ qi qw = .error e →
      BiasSite env sg oi reqs iIn iW iB true e
  | xfs (e : PyErr) : tensorXfs oi.cfg true (isSRQ oi.cfg) = .error e → BiasSite env sg oi reqs iIn iW iB false e
  /-- the bias position is beyond the request list (IndexError) -/
  | position (a : Int) : oi.op.inputs[iB]? = some a → a ≠ -1 → ¬ iB < reqs.length → BiasSite env sg oi reqs iIn iW iB false .indexError

theorem biasFor_sited (env : Env) (sg : Subgraph) (oi : OpInfo) (reqs : List CReq) (iIn iW iB : Nat) :
    Sited (AnySite (BiasSite env sg oi reqs iIn iW iB)) (biasFor env sg oi reqs iIn iW iB) := by
  unfold biasFor
  cases hb : oi.op.inputs[iB]? with
  | none => exact Sited.ok _
  | some bslot =>
    simp only []
    refine Sited.ite _ (fun _ => Sited.ok _) (fun hne => ?_)
    have hne' : bslot ≠ -1 := by simpa using hne
    refine Sited.bind ?_ (fun bt hbt => ?_)
    · intro e he
      exact ⟨_, .slot e ⟨bslot, List.mem_of_getElem? hb, he⟩⟩
    have jp : ∀ bp, Sited (AnySite (BiasSite env sg oi reqs iIn iW iB))
        (mkReq bt.name oi true bp (isSRQ oi.cfg) >>= fun r =>
          if iB < reqs.length then pure (reqs.set iB r) else throw PyErr.indexError) := by
      intro bp
      refine Sited.bind ?_ (fun r _ => Sited.ite _ (fun _ => Sited.ok _) (fun h => Sited.error ⟨_, .position bslot hb hne' h⟩))
      intro e he
      unfold mkReq at he
      cases hx : tensorXfs oi.cfg true (isSRQ oi.cfg) with
      | error e' => rw [hx] at he; cases he; exact ⟨_, .xfs _ hx⟩
      | ok x => rw [hx] at he; cases he
    by_cases hs : isSRQ oi.cfg = true
    · rw [if_pos hs]
      cases hc : constData env bt with
      | none => exact Sited.bind_throw ⟨_, BiasSite.notConst bslot bt hb hne' hbt hs hc⟩
      | some bd =>
        simp only []
        refine Sited.bind ?_ (fun pin hpin => ?_)
        · cases hr : reqs[iIn]? with
          | none => exact Sited.error ⟨_, .reqIndex hs (.inl hr)⟩
          | some r => intro e he; exact ⟨_, .reqShape r e hs (.inl hr) he⟩
        refine Sited.bind ?_ (fun pw hpw => ?_)
        · cases hr : reqs[iW]? with
          | none => exact Sited.error ⟨_, .reqIndex hs (.inr hr)⟩
          | some r => intro e he; exact ⟨_, .reqShape r e hs (.inr hr) he⟩
        cases hrin : reqs[iIn]? with
        | none => rw [hrin] at hpin; cases hpin
        | some rin =>
          cases hrw : reqs[iW]? with
          | none => rw [hrw] at hpw; cases hpw
          | some rw' =>
            rw [hrin] at hpin
            rw [hrw] at hpw
            simp only [] at hpin hpw
            split
            · rename_i qi di qw dw
              refine Sited.bind ?_ (fun bp _ => jp bp)
              refine Sited.bind ?_ (fun x _ => Sited.ok _)
              intro e he
              exact ⟨_, .quantize bslot bt bd rin rw' qi qw di dw e hb hne' hbt hs hc hrin hrw hpin hpw he⟩
            · rename_i hno
              refine Sited.bind_throw ?_
              refine ⟨_, .params rin rw' pin pw hs hrin hrw hpin hpw ?_⟩
              rintro qi di qw dw ⟨rfl, rfl⟩
              exact hno qi di qw dw rfl rfl
    · rw [if_neg hs]
      exact Sited.bind (Sited.ok _) (fun bp _ => jp bp)

/-- **why `materialize_op_with_output_activation_constraint` (SOFTMAX, LOGISTIC, TANH) can fail** -/
inductive FixedSite (env : Env) (sg : Subgraph) (qs : Qsvs) (oi : OpInfo) (sl : Bool) : Bool → PyErr → Prop
  /-- the operator does not have exactly one result (ValueError) -/
  | outputs : oi.op.outputs.length ≠ 1 → FixedSite env sg qs oi sl false .valueError
  | std (num : Bool) (e : PyErr) : StdSite env sg qs oi .none [] [] num e → FixedSite env sg qs oi sl num e
  /-- no hard-coded output range for this activation bit width (ValueError) -/
  | bits (a : TCfg) : oi.cfg.act = some a → fixedParams sl a.bits.toNat = none → FixedSite env sg qs oi sl false .valueError
  /-- dequantizing the range ends of the hard-coded parameters fails -/
  | minMax (a : TCfg) (fp : QParams) (e : PyErr) : oi.cfg.act = some a → fixedParams sl a.bits.toNat = some fp →
      minMaxFromParams a.bits.toNat a.symmetric fp = .error e → FixedSite env sg qs oi sl false e
  /-- the result has no statistics entry to overwrite (KeyError) -/
  | stats (reqs : List CReq) (qs' : Qsvs) (last : CReq) : standardOp env sg qs oi .none [] [] = .ok (reqs, qs') →
      reqs.getLast? = some last → last.producer.isSome = true → Py.dictGet? qs' last.name = none →
      FixedSite env sg qs oi sl false .keyError

theorem fixedRangeOp_sited (env : Env) (sg : Subgraph) (qs : Qsvs) (oi : OpInfo) (sl : Bool) :
    Sited (AnySite (FixedSite env sg qs oi sl)) (fixedRangeOp env sg qs oi sl) := by
  unfold fixedRangeOp
  simp only []
  refine Sited.ite _ (fun h => Sited.bind_throw ⟨_, FixedSite.outputs h⟩) (fun _ => ?_)
  · 
    refine Sited.bind ((standardOp_sited env sg qs oi .none [] []).mono (fun e h => h.elim fun num h => ⟨num, .std num e h⟩)) (fun x hx => ?_)
    obtain ⟨reqs, qs'⟩ := x
    simp only []
    split
    · rename_i last a hl ha
      cases hp : last.producer with
      | none => exact Sited.ok _
      | some pr =>
        simp only []
        cases hf : fixedParams sl a.bits.toNat with
        | none => exact Sited.error ⟨_, .bits a ha hf⟩
        | some fp =>
          simp only []
          refine Sited.bind ?_ (fun mm _ => ?_)
          · intro e he
            exact ⟨_, .minMax a fp e ha hf he⟩
          cases hd : Py.dictGet? qs' last.name with
          | none => exact Sited.error ⟨_, .stats reqs qs' last hx hl (by rw [hp]; rfl) hd⟩
          | some v => exact Sited.ok _
    · exact Sited.ok _

/-- **why the float-casting materialisation can fail** -/
inductive CastSite (env : Env) (sg : Subgraph) (oi : OpInfo) (iIn iW iB : Nat) : Bool → PyErr → Prop
  /-- the operator has no data / weight operand or no result (IndexError) -/
  | noSlot : (oi.op.inputs[iIn]? = none ∨ oi.op.inputs[iW]? = none ∨ oi.op.outputs[0]? = none) →
      CastSite env sg oi iIn iW iB false .indexError
  | slot (e : PyErr) : SlotSite sg (oi.op.inputs ++ oi.op.outputs) e → CastSite env sg oi iIn iW iB false e
  /-- the weight is not a constant (AttributeError) -/
  | weightNotConst (a : Int) (tw : Tensor) : oi.op.inputs[iW]? = some a → tensorAt sg a = .ok tw →
      constData env tw = none → CastSite env sg oi iIn iW iB false .attributeError
  /-- a weight value overflows float16 (`nonfinite`) -/
  | f16 (a : Int) (tw : Tensor) (wd : Arr Rat) (x : Rat) (e : PyErr) : oi.op.inputs[iW]? = some a → tensorAt sg a = .ok tw →
      constData env tw = some wd → x ∈ wd.data → Prec.f16.chk x = .error e → CastSite env sg oi iIn iW iB true e

theorem floatCastOp_sited (env : Env) (sg : Subgraph) (oi : OpInfo) (iIn iW iB : Nat) :
    Sited (AnySite (CastSite env sg oi iIn iW iB)) (floatCastOp env sg oi iIn iW iB) := by
  unfold floatCastOp
  simp only []
  have hslotI : ∀ (i : Nat) (a : Int), oi.op.inputs[i]? = some a →
      Sited (AnySite (CastSite env sg oi iIn iW iB)) (tensorAt sg a) := by
    intro i a ha e he
    exact ⟨_, .slot e ⟨a, List.mem_append_left _ (List.mem_of_getElem? ha), he⟩⟩
  cases h1 : oi.op.inputs[iIn]? with
  | none => exact Sited.bind_throw ⟨_, CastSite.noSlot (.inl h1)⟩
  | some a1 =>
    refine Sited.bind (Sited.ok _) (fun a1' ha1' => ?_)
    cases ha1'
    refine Sited.bind (hslotI iIn a1 h1) (fun tin _ => ?_)
    cases h2 : oi.op.inputs[iW]? with
    | none => exact Sited.bind_throw ⟨_, CastSite.noSlot (.inr (.inl h2))⟩
    | some a2 =>
      refine Sited.bind (Sited.ok _) (fun a2' ha2' => ?_)
      cases ha2'
      refine Sited.bind (hslotI iW a2 h2) (fun tw htw => ?_)
      cases h3 : oi.op.outputs[0]? with
      | none => exact Sited.bind_throw ⟨_, CastSite.noSlot (.inr (.inr h3))⟩
      | some a3 =>
        refine Sited.bind (Sited.ok _) (fun a3' ha3' => ?_)
        cases ha3'
        refine Sited.bind ?_ (fun tout _ => ?_)
        · intro e he
          exact ⟨_, .slot e ⟨a3, List.mem_append_right _ (List.mem_of_getElem? h3), he⟩⟩
        cases hc : constData env tw with
        | none => exact Sited.bind_throw ⟨_, CastSite.weightNotConst a2 tw h2 htw hc⟩
        | some wd =>
          refine Sited.bind (Sited.ok _) (fun wd' hwd' => ?_)
          cases hwd'
          refine Sited.bind (Sited.mapM _ _ (fun x hx e he => ⟨_, .f16 a2 tw wd x e h2 htw hc hx he⟩)) (fun h _ => ?_)
          cases h4 : oi.op.inputs[iB]? with
          | none => exact Sited.ok _
          | some b =>
            simp only []
            refine Sited.ite _ (fun _ => ?_) (fun _ => Sited.ok _)
            exact Sited.bind (hslotI iB b h4) (fun _ _ => Sited.ok _)


/-! ## the dispatch `materializeOp` -/

/-- what the registered materialize function `fn` of algorithm `alg` does -/
inductive Kind where
  /-- `materialize_standard_op` with this constraint and these operand positions ignored -/
  | std (con : Constraint) (gi : List Nat)
  /-- FULLY_CONNECTED / CONV_2D / DEPTHWISE_CONV_2D: standard op, then the bias -/
  | conv
  /-- CONV_2D_TRANSPOSE -/
  | convT
  /-- fixed output range (`true`: SOFTMAX / LOGISTIC, `false`: TANH) -/
  | fixed (softmaxLike : Bool)
  /-- float casting with these data / weight / bias positions -/
  | cast (iIn iW iB : Nat)
  /-- not modelled (the `unsupported` fall-through) -/
  | unknown
  deriving DecidableEq, Repr

def kindOf (alg fn : String) : Kind :=
  if alg == Tables.algFloatCasting then
    if fn == "materialize_fc_conv" || fn == "materialize_embedding_lookup" then .cast 0 1 2
    else if fn == "materialize_conv2d_transpose" then .cast 2 1 3
    else .unknown
  else if alg == Tables.algMinMax then
    if fn == "materialize_input" || fn == "materialize_output" || fn == "materialize_add" || fn == "materialize_sub"
        || fn == "materialize_mul" || fn == "materialize_batch_matmul" || fn == "materialize_gelu" || fn == "materialize_rsqrt" then
      .std .none []
    else if fn == "materialize_embedding_lookup" then .std .none [0]
    else if fn == "materialize_mean" then .std .none [1]
    else if fn == "materialize_reshape" || fn == "materialize_transpose" then .std .sameAsInput [1]
    else if fn == "materialize_average_pool_2d" then .std .sameAsInput []
    else if fn == "materialize_strided_slice" then .std .sameAsInput [1, 2, 3]
    else if fn == "materialize_split" then .std .sameAsInput [0]
    else if fn == "materialize_concatenation" then .std .sameAsOutput []
    else if fn == "materialize_fc_conv" then .conv
    else if fn == "materialize_conv2d_transpose" then .convT
    else if fn == "materialize_softmax_and_logistic" then .fixed true
    else if fn == "materialize_tanh" then .fixed false
    else .unknown
  else .unknown

def runKind (env : Env) (sg : Subgraph) (qs : Qsvs) (oi : OpInfo) : Kind → PyM (List CReq × Qsvs)
  | .std con gi => standardOp env sg qs oi con gi []
  | .conv => standardOp env sg qs oi .none [2] [] >>= fun rq =>
      biasFor env sg oi rq.1 0 1 2 >>= fun r' => pure (r', rq.2)
  | .convT => standardOp env sg qs oi .none [0, 3] [] >>= fun rq =>
      if rq.1.length < 2 then throw .valueError else
      biasFor env sg oi rq.1 2 1 3 >>= fun r' => pure (r', rq.2)
  | .fixed sl => fixedRangeOp env sg qs oi sl
  | .cast a b c => floatCastOp env sg oi a b c >>= fun r => pure (r, qs)
  | .unknown => throw .unsupported

theorem materializeOp_kind (env : Env) (sg : Subgraph) (qs : Qsvs) (oi : OpInfo) (alg fn : String) :
    materializeOp env sg qs oi alg fn = runKind env sg qs oi (kindOf alg fn) := by
  unfold kindOf
  simp only [apply_ite (runKind env sg qs oi)]
  unfold materializeOp
  rfl


/-- **why the materialisation of one operator can fail** (`k`: what its registered function does) -/
inductive OpSite (env : Env) (sg : Subgraph) (qs : Qsvs) (oi : OpInfo) : Kind → Bool → PyErr → Prop
  /-- the registered function is not modelled (never for the regenerated registry: `registry_known`) -/
  | unknown : OpSite env sg qs oi .unknown false .unsupported
  | std (num : Bool) (con : Constraint) (gi : List Nat) (e : PyErr) : StdSite env sg qs oi con gi [] num e →
      OpSite env sg qs oi (.std con gi) num e
  | convStd (num : Bool) (e : PyErr) : StdSite env sg qs oi .none [2] [] num e → OpSite env sg qs oi .conv num e
  | convBias (num : Bool) (r : List CReq) (q : Qsvs) (e : PyErr) : standardOp env sg qs oi .none [2] [] = .ok (r, q) →
      BiasSite env sg oi r 0 1 2 num e → OpSite env sg qs oi .conv num e
  | convTStd (num : Bool) (e : PyErr) : StdSite env sg qs oi .none [0, 3] [] num e → OpSite env sg qs oi .convT num e
  /-- CONV_2D_TRANSPOSE with fewer than two operands/results in all (ValueError) -/
  | convTArity (r : List CReq) (q : Qsvs) : standardOp env sg qs oi .none [0, 3] [] = .ok (r, q) → r.length < 2 →
      OpSite env sg qs oi .convT false .valueError
  | convTBias (num : Bool) (r : List CReq) (q : Qsvs) (e : PyErr) : standardOp env sg qs oi .none [0, 3] [] = .ok (r, q) →
      BiasSite env sg oi r 2 1 3 num e → OpSite env sg qs oi .convT num e
  | fixed (num : Bool) (sl : Bool) (e : PyErr) : FixedSite env sg qs oi sl num e → OpSite env sg qs oi (.fixed sl) num e
  | cast (num : Bool) (a b c : Nat) (e : PyErr) : CastSite env sg oi a b c num e → OpSite env sg qs oi (.cast a b c) num e

theorem runKind_sited (env : Env) (sg : Subgraph) (qs : Qsvs) (oi : OpInfo) (k : Kind) :
    Sited (AnySite (OpSite env sg qs oi k)) (runKind env sg qs oi k) := by
  cases k with
  | std con gi => exact (standardOp_sited env sg qs oi con gi []).mono (fun e h => h.elim fun num h => ⟨num, .std num con gi e h⟩)
  | conv =>
    refine Sited.bind ((standardOp_sited env sg qs oi .none [2] []).mono (fun e h => h.elim fun num h => ⟨num, .convStd num e h⟩)) (fun rq hrq => ?_)
    obtain ⟨r, q⟩ := rq
    exact Sited.bind ((biasFor_sited env sg oi r 0 1 2).mono (fun e h => h.elim fun num h => ⟨num, .convBias num r q e hrq h⟩)) (fun _ _ => Sited.ok _)
  | convT =>
    refine Sited.bind ((standardOp_sited env sg qs oi .none [0, 3] []).mono (fun e h => h.elim fun num h => ⟨num, .convTStd num e h⟩)) (fun rq hrq => ?_)
    obtain ⟨r, q⟩ := rq
    refine Sited.ite _ (fun hl => Sited.error ⟨_, .convTArity r q hrq hl⟩) (fun _ => ?_)
    exact Sited.bind ((biasFor_sited env sg oi r 2 1 3).mono (fun e h => h.elim fun num h => ⟨num, .convTBias num r q e hrq h⟩)) (fun _ _ => Sited.ok _)
  | fixed sl => exact (fixedRangeOp_sited env sg qs oi sl).mono (fun e h => h.elim fun num h => ⟨num, .fixed num sl e h⟩)
  | cast a b c =>
    exact Sited.bind ((floatCastOp_sited env sg oi a b c).mono (fun e h => h.elim fun num h => ⟨num, .cast num a b c e h⟩)) (fun _ _ => Sited.ok _)
  | unknown => exact Sited.error ⟨_, .unknown⟩

/-! ## one entry of the operator list (`opReqs`, `opStep`) -/

theorem noQuantOp_sited (sg : Subgraph) (op : Op) (opId : Int) :
    Sited (SlotSite sg (op.inputs ++ op.outputs)) (noQuantOp sg op opId) := by
  unfold noQuantOp
  refine Sited.bind (Sited.mapM _ _ (fun a ha => ?_)) (fun ins _ => ?_)
  · refine Sited.bind ?_ (fun _ _ => Sited.ok _)
    intro e he
    exact ⟨a, List.mem_append_left _ (List.mem_filter.1 ha).1, he⟩
  refine Sited.bind (Sited.mapM _ _ (fun a ha => ?_)) (fun outs _ => Sited.ok _)
  refine Sited.bind ?_ (fun _ _ => Sited.ok _)
  intro e he
  exact ⟨a, List.mem_append_right _ (List.mem_filter.1 ha).1, he⟩

theorem opScope_sited (sg : Subgraph) (op : Op) : Sited (SlotSite sg (op.inputs ++ op.outputs)) (opScope sg op) := by
  unfold opScope
  refine Sited.foldlM _ (fun _ => True) _ _ trivial (fun a ha s _ => ⟨?_, fun _ _ => trivial⟩)
  refine Sited.bind ?_ (fun _ _ => Sited.ok _)
  intro e he
  exact ⟨a, List.mem_append_right _ (List.mem_filter.1 ha).1, he⟩

/-- **why one entry `q` of the operator list of subgraph `sg` can fail**, at statistics `qs` and result
    dictionary `res` -/
inductive StepSite (rx : String → String → Bool) (env : Env) (st : Recipe.State) (sIdx : Nat) (sg : Subgraph)
    (qs : Qsvs) (res : List (String × CReq)) (q : Op × Option String × Int) : Bool → PyErr → Prop
  /-- (b) the operator's opcode index is out of range (IndexError; excluded by `WF.modelOK`) -/
  | opcode : q.2.1 = none → env.model.opcodes[q.1.code]? = none → StepSite rx env st sIdx sg qs res q false .indexError
  /-- (c) an operand / result slot names no tensor (IndexError; excluded by `WF.modelOK`) -/
  | slot (e : PyErr) : SlotSite sg (q.1.inputs ++ q.1.outputs) e → StepSite rx env st sIdx sg qs res q false e
  /-- (d) the recipe selects an algorithm that has no materialize function for this operator (ValueError) -/
  | unregistered (k scope : String) : keyOf env q = .ok (some k) → opScope sg q.1 = .ok scope →
      (Recipe.resolve rx st k scope).1 ≠ Tables.algNoQuantize →
      ((Py.dictGet? Tables.registry (Recipe.resolve rx st k scope).1).bind fun ops => Py.dictGet? ops k) = none →
      StepSite rx env st sIdx sg qs res q false .valueError
  /-- (e) the materialisation of the operator fails -/
  | op (num : Bool) (k scope fn : String) (ops : List (String × String)) (e : PyErr) : keyOf env q = .ok (some k) →
      opScope sg q.1 = .ok scope → (Recipe.resolve rx st k scope).1 ≠ Tables.algNoQuantize →
      Py.dictGet? Tables.registry (Recipe.resolve rx st k scope).1 = some ops → Py.dictGet? ops k = some fn →
      OpSite env sg qs
        { sgIdx := sIdx, op := q.1, opName := k, opId := q.2.2, cfg := (Recipe.resolve rx st k scope).2 }
        (kindOf (Recipe.resolve rx st k scope).1 fn) num e →
      StepSite rx env st sIdx sg qs res q num e
  /-- (f) `_update_model_quant_results`: a second producer request for a tensor (RuntimeError) -/
  | conflict (rs : List CReq) (qs' : Qsvs) (pre post : List CReq) (r cur : CReq) (mid : List (String × CReq)) :
      opReqs rx env st sIdx sg qs q = .ok (rs, qs') → rs = pre ++ r :: post → updateResults res pre = .ok mid →
      Py.dictGet? mid r.name = some cur → r.producer.isSome = true → cur.producer.isSome = true →
      StepSite rx env st sIdx sg qs res q false .runtimeError

theorem updateResults_sited (res : List (String × CReq)) (rs : List CReq) :
    Sited (fun e => e = .runtimeError ∧ ∃ pre r post mid cur, rs = pre ++ r :: post ∧ updateResults res pre = .ok mid ∧
      Py.dictGet? mid r.name = some cur ∧ r.producer.isSome = true ∧ cur.producer.isSome = true)
      (updateResults res rs) := by
  intro e h
  rw [updateResults_eq] at h
  obtain ⟨pre, r, post, mid, hl, hpre, hx⟩ := foldlM_error_split _ _ _ _ h
  unfold stepF at hx
  cases hd : Py.dictGet? mid r.name with
  | none => rw [hd] at hx; cases hx
  | some cur =>
    rw [hd] at hx
    simp only [] at hx
    cases hp : r.producer with
    | none => rw [hp] at hx; cases hx
    | some p =>
      cases hc : cur.producer with
      | none => rw [hp, hc] at hx; cases hx
      | some p' =>
        rw [hp, hc] at hx
        cases hx
        exact ⟨rfl, pre, r, post, mid, cur, hl, hpre, hd, by rw [hp]; rfl, by rw [hc]; rfl⟩

theorem opReqs_sited (rx : String → String → Bool) (env : Env) (st : Recipe.State) (sIdx : Nat) (sg : Subgraph)
    (qs : Qsvs) (res : List (String × CReq)) (q : Op × Option String × Int) :
    Sited (AnySite (StepSite rx env st sIdx sg qs res q)) (opReqs rx env st sIdx sg qs q) := by
  have nq : Sited (AnySite (StepSite rx env st sIdx sg qs res q))
      (match noQuantOp sg q.1 q.2.2 with | .error e => .error e | .ok r => .ok (r, qs)) := by
    intro e he
    cases hn : noQuantOp sg q.1 q.2.2 with
    | error e' => rw [hn] at he; cases he; exact ⟨_, .slot _ (noQuantOp_sited sg q.1 q.2.2 _ hn)⟩
    | ok r => rw [hn] at he; cases he
  unfold opReqs
  cases hk : keyOf env q with
  | error e =>
    refine Sited.error ?_
    unfold keyOf at hk
    cases hio : q.2.1 with
    | some k => rw [hio] at hk; cases hk
    | none =>
      rw [hio] at hk
      simp only [] at hk
      cases hc : env.model.opcodes[q.1.code]? with
      | none => rw [hc] at hk; cases hk; exact ⟨_, .opcode hio hc⟩
      | some c => rw [hc] at hk; cases hk
  | ok key =>
    cases key with
    | none => exact nq
    | some k =>
      simp only []
      cases hs : opScope sg q.1 with
      | error e => exact Sited.error ⟨_, .slot _ (opScope_sited sg q.1 _ hs)⟩
      | ok scope =>
        simp only []
        refine Sited.ite _ (fun _ => nq) (fun hne => ?_)
        have hne' : (Recipe.resolve rx st k scope).1 ≠ Tables.algNoQuantize := by
          intro hh; exact hne (by rw [hh]; exact beq_self_eq_true _)
        cases hr : Py.dictGet? Tables.registry (Recipe.resolve rx st k scope).1 with
        | none => exact Sited.error ⟨_, .unregistered k scope hk hs hne' (by rw [hr]; rfl)⟩
        | some ops =>
          simp only []
          cases hf : Py.dictGet? ops k with
          | none => exact Sited.error ⟨_, .unregistered k scope hk hs hne' (by rw [hr]; exact hf)⟩
          | some fn =>
            simp only []
            rw [materializeOp_kind]
            exact (runKind_sited env sg qs _ _).mono (fun e h => h.elim fun num h => ⟨num, .op num k scope fn ops e hk hs hne' hr hf h⟩)

theorem opStep_sited (rx : String → String → Bool) (env : Env) (st : Recipe.State) (sIdx : Nat) (sg : Subgraph)
    (s : GState) (q : Op × Option String × Int) :
    Sited (AnySite (StepSite rx env st sIdx sg s.1 s.2 q)) (opStep rx env st sIdx sg s q) := by
  unfold opStep
  cases ho : opReqs rx env st sIdx sg s.1 q with
  | error e => exact Sited.error (opReqs_sited rx env st sIdx sg s.1 s.2 q e ho)
  | ok v =>
    obtain ⟨rs, qs'⟩ := v
    simp only []
    cases hu : updateResults s.2 rs with
    | ok res' => exact Sited.ok _
    | error e =>
      obtain ⟨rfl, pre, r, post, mid, cur, hl, hpre, hd, h1, h2⟩ := updateResults_sited s.2 rs e hu
      exact Sited.error ⟨_, .conflict rs qs' pre post r cur mid ho hl hpre hd h1 h2⟩

/-! ## the whole run as ONE fold over the flat operator list -/

/-- all entries of all operator lists, in the order `generate` walks them -/
def flatOps (m : Model) : List ((Subgraph × Nat) × (Op × Option String × Int)) :=
  m.subgraphs.zipIdx.flatMap fun p => (allOps p.1).map fun q => (p, q)

def flatStep (rx : String → String → Bool) (env : Env) (st : Recipe.State) (s : GState)
    (x : (Subgraph × Nat) × (Op × Option String × Int)) : PyM GState :=
  opStep rx env st x.1.2 x.1.1 s x.2

theorem foldlM_map' {α β γ} (g : α → β) (f : γ → β → PyM γ) : ∀ (l : List α) (init : γ),
    (l.map g).foldlM f init = l.foldlM (fun s a => f s (g a)) init := by
  intro l
  induction l with
  | nil => intro _; rfl
  | cons a as ih =>
    intro init
    simp only [List.map_cons, List.foldlM_cons]
    congr 1
    funext s
    exact ih s

theorem foldlM_flatMap' {α β γ} (g : α → List β) (f : γ → β → PyM γ) : ∀ (l : List α) (init : γ),
    (l.flatMap g).foldlM f init = l.foldlM (fun s a => (g a).foldlM f s) init := by
  intro l
  induction l with
  | nil => intro _; rfl
  | cons a as ih =>
    intro init
    simp only [List.flatMap_cons, List.foldlM_append, List.foldlM_cons]
    congr 1
    funext s
    exact ih s

theorem generateCore_flat (rx : String → String → Bool) (env : Env) (st : Recipe.State) (qsvs : Option Qsvs) :
    Locality.generateCore rx env st qsvs = (flatOps env.model).foldlM (flatStep rx env st) (qsvs.getD [], []) := by
  unfold Locality.generateCore flatOps
  rw [foldlM_flatMap']
  congr 1
  funext s p
  rw [foldlM_map']
  rfl

/-- the state `generate` has reached after walking the prefix `pre` of the operator list -/
def Reach (rx : String → String → Bool) (env : Env) (st : Recipe.State) (qsvs : Option Qsvs)
    (pre : List ((Subgraph × Nat) × (Op × Option String × Int))) (s : GState) : Prop :=
  pre.foldlM (flatStep rx env st) (qsvs.getD [], []) = .ok s

/-- **the raise sites of `generate`** -/
inductive GenSite (rx : String → String → Bool) (env : Env) (st : Recipe.State) (qsvs : Option Qsvs) : Bool → PyErr → Prop
  /-- (a) the model is already quantized (ValueError) -/
  | notFloat : (env.model.subgraphs.any fun sg => sg.tensors.any (·.quant.isSome)) = true →
      GenSite rx env st qsvs false .valueError
  /-- (a) two tensors of the model have the same name (ValueError) -/
  | dupNames : ¬ GenInstsOK.namesUnique env.model → GenSite rx env st qsvs false .valueError
  /-- (a) the recipe needs calibration and no statistics were given (RuntimeError) -/
  | noStats : Recipe.needCalibration st = true → qsvs = none → GenSite rx env st qsvs false .runtimeError
  /-- (b)–(f) at one entry of the operator list, from the state reached on the entries before it -/
  | atOp (num : Bool) (pre post : List ((Subgraph × Nat) × (Op × Option String × Int))) (sg : Subgraph) (sIdx : Nat)
      (q : Op × Option String × Int) (s : GState) (e : PyErr) : flatOps env.model = pre ++ ((sg, sIdx), q) :: post →
      Reach rx env st qsvs pre s → StepSite rx env st sIdx sg s.1 s.2 q num e → GenSite rx env st qsvs num e
  /-- (g) `_check_buffer_sharing` refuses the result dictionary -/
  | sharing (s : GState) (e : PyErr) : Reach rx env st qsvs (flatOps env.model) s →
      checkBufferSharing env.model s.2 = .error e → GenSite rx env st qsvs false e
  /-- (g) the unread-constant check refuses the result dictionary -/
  | unreadOwn (s : GState) (e : PyErr) : Reach rx env st qsvs (flatOps env.model) s →
      checkBufferSharing env.model s.2 = .ok () → checkUnreadOwn env.model s.2 = .error e → GenSite rx env st qsvs false e

/-- **C08, inventory of the raise sites of the materialisation stage** -/
theorem generate_sited (rx : String → String → Bool) (env : Env) (st : Recipe.State) (qsvs : Option Qsvs) :
    Sited (AnySite (GenSite rx env st qsvs)) (Mat.generate rx env st qsvs) := by
  rw [Locality.generate_eq]
  refine Sited.ite _ (fun h => Sited.error ⟨_, .notFloat h⟩) (fun _ => ?_)
  refine Sited.ite _ (fun h => Sited.error ⟨_, .dupNames ?_⟩) (fun _ => ?_)
  · intro hn
    unfold GenInstsOK.namesUnique at hn
    simp only [hn, decide_true, Bool.not_true, Bool.false_eq_true] at h
  refine Sited.ite _ (fun h => Sited.error ?_) (fun _ => ?_)
  · simp only [Bool.and_eq_true, Option.isNone_iff_eq_none] at h
    exact ⟨_, .noStats h.1 h.2⟩
  rw [generateCore_flat]
  cases hf : (flatOps env.model).foldlM (flatStep rx env st) (qsvs.getD [], []) with
  | error e =>
    simp only []
    refine Sited.error ?_
    obtain ⟨pre, x, post, s, hl, hpre, hx⟩ := foldlM_error_split _ _ _ _ hf
    obtain ⟨⟨sg, sIdx⟩, q⟩ := x
    obtain ⟨num, hsite⟩ := opStep_sited rx env st sIdx sg s q e hx
    exact ⟨num, .atOp num pre post sg sIdx q s e hl hpre hsite⟩
  | ok s =>
    simp only []
    cases hc : checkBufferSharing env.model s.2 with
    | error e => exact Sited.error ⟨_, .sharing s e hf hc⟩
    | ok u =>
      simp only []
      cases hc2 : checkUnreadOwn env.model s.2 with
      | error e => exact Sited.error ⟨_, .unreadOwn s e hf hc hc2⟩
      | ok u2 => exact Sited.ok _

end MatTotal
