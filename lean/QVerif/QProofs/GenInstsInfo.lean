import QProofs.GraphInv
import Mathlib.Data.List.Nodup
/-!
# `nameMap` / `tensorInfo` facts used by `QProofs.GenInstsOK`

* every value stored in `nameMap m` is `tensorInfo s sg t` of an existing tensor;
* what well-formedness says about `tensorInfo` (`tensorInfo_spec`, `instOK_of_core`).
-/
open Graph InstGen Perform GraphInv GraphStep

namespace GenInstsInfo

/-! ## generic list / dictionary lemmas -/

theorem foldl_inv {α β} (f : β → α → β) (I : β → Prop) (l : List α) (init : β)
    (hstep : ∀ x ∈ l, ∀ acc, I acc → I (f acc x)) (h0 : I init) : I (l.foldl f init) := by
  induction l generalizing init with
  | nil => exact h0
  | cons x xs ih =>
    simp only [List.foldl_cons]
    exact ih _ (fun y hy => hstep y (List.mem_cons_of_mem _ hy)) (hstep x List.mem_cons_self _ h0)

theorem dictSet_vals {ν} (Q : ν → Prop) (d : List (String × ν)) (k : String) (v : ν)
    (hd : ∀ e ∈ d, Q e.2) (hv : Q v) : ∀ e ∈ Py.dictSet d k v, Q e.2 := by
  induction d with
  | nil =>
    intro e he
    simp only [Py.dictSet, List.mem_singleton] at he
    subst he; exact hv
  | cons x xs ih =>
    obtain ⟨k', v'⟩ := x
    intro e he
    simp only [Py.dictSet] at he
    split at he
    · rcases List.mem_cons.1 he with rfl | he
      · exact hv
      · exact hd e (List.mem_cons_of_mem _ he)
    · rcases List.mem_cons.1 he with rfl | he
      · exact hd _ List.mem_cons_self
      · exact ih (fun e he => hd e (List.mem_cons_of_mem _ he)) e he

theorem dictGet?_mem {ν} (d : List (String × ν)) (k : String) (v : ν)
    (h : Py.dictGet? d k = some v) : ∃ e ∈ d, e.2 = v := by
  unfold Py.dictGet? at h
  cases hf : d.find? (·.1 == k) with
  | none => rw [hf] at h; cases h
  | some e =>
    rw [hf] at h
    simp only [Option.map_some, Option.some.injEq] at h
    exact ⟨e, List.mem_of_find?_eq_some hf, h⟩

/-! ## `nameMap` -/

/-- `info` is the graph information of an existing tensor -/
def IsInfo (m : Model) (info : TInfo) : Prop :=
  ∃ s sg t, m.subgraphs[s]? = some sg ∧ t < sg.tensors.length ∧ info = tensorInfo s sg t

theorem nameMap_vals (m : Model) : ∀ e ∈ nameMap m, IsInfo m e.2 := by
  unfold nameMap
  refine foldl_inv _ (fun acc : List (String × TInfo) => ∀ e ∈ acc, IsInfo m e.2) _ _ ?_ (by simp)
  intro p hp acc hacc
  refine foldl_inv _ (fun acc : List (String × TInfo) => ∀ e ∈ acc, IsInfo m e.2) _ _ ?_ hacc
  intro q hq acc' hacc'
  refine dictSet_vals _ _ _ _ hacc' ?_
  have h1 := List.mem_zipIdx_iff_getElem?.1 hp
  have h2 := List.mem_zipIdx_iff_getElem?.1 hq
  exact ⟨p.2, p.1, q.2, h1, (List.getElem?_eq_some_iff.1 h2).1, rfl⟩

theorem nameMap_get (m : Model) (name : String) (info : TInfo)
    (h : Py.dictGet? (nameMap m) name = some info) : IsInfo m info := by
  obtain ⟨e, he, rfl⟩ := dictGet?_mem _ _ _ h
  exact nameMap_vals m e he

/-! ## `tensorInfo` -/

theorem tensorInfo_id (s : Nat) (sg : Subgraph) (t : Nat) :
    (tensorInfo s sg t).tensorId = t ∧ (tensorInfo s sg t).sg = s := ⟨rfl, rfl⟩

theorem tensorInfo_producer (s : Nat) (sg : Subgraph) (t : Nat) :
    ((tensorInfo s sg t).producer = -1 ∧ ∀ (k : Nat) (o : Op), sg.ops[k]? = some o → (t : Int) ∉ o.outputs) ∨
    (∃ (j : Nat) (o : Op), (tensorInfo s sg t).producer = (j : Int) ∧ sg.ops[j]? = some o ∧ (t : Int) ∈ o.outputs) := by
  unfold tensorInfo
  simp only
  cases hf : sg.ops.zipIdx.find? (fun p => memI (t : Int) p.1.outputs) with
  | none =>
    left
    refine ⟨rfl, ?_⟩
    intro k o hk hmem
    have := List.find?_eq_none.1 hf (o, k) (List.mem_zipIdx_iff_getElem?.2 hk)
    exact this ((memI_iff _ _).2 hmem)
  | some p =>
    right
    exact ⟨p.2, p.1, rfl, List.mem_zipIdx_iff_getElem?.1 (List.mem_of_find?_eq_some hf),
      (memI_iff _ _).1 (@List.find?_some _ (fun p : Op × Nat => memI (t : Int) p.1.outputs) _ _ hf)⟩

theorem tensorInfo_consumers (s : Nat) (sg : Subgraph) (t : Nat) :
    (∀ c ∈ (tensorInfo s sg t).consumers, (c = -1 ∧ (t : Int) ∈ sg.outputs) ∨
      ∃ (k : Nat) (o : Op), c = (k : Int) ∧ sg.ops[k]? = some o ∧ (t : Int) ∈ o.inputs) ∧
    (tensorInfo s sg t).consumers.Nodup := by
  have hmem : ∀ c ∈ (sg.ops.zipIdx.filter (fun p => memI (t : Int) p.1.inputs)).map (fun p => (p.2 : Int)),
      ∃ (k : Nat) (o : Op), c = (k : Int) ∧ sg.ops[k]? = some o ∧ (t : Int) ∈ o.inputs := by
    intro c hc
    obtain ⟨p, hp, rfl⟩ := List.mem_map.1 hc
    obtain ⟨hp1, hp2⟩ := List.mem_filter.1 hp
    exact ⟨p.2, p.1, rfl, List.mem_zipIdx_iff_getElem?.1 hp1, (memI_iff _ _).1 hp2⟩
  have hnd : ((sg.ops.zipIdx.filter (fun p => memI (t : Int) p.1.inputs)).map (fun p => (p.2 : Int))).Nodup := by
    have hsub : ((sg.ops.zipIdx.filter (fun p => memI (t : Int) p.1.inputs)).map (fun p => (p.2 : Int))).Sublist
        (sg.ops.zipIdx.map (fun p => (p.2 : Int))) := List.Sublist.map _ List.filter_sublist
    refine List.Nodup.sublist hsub ?_
    have : sg.ops.zipIdx.map (fun p => (p.2 : Int)) = (sg.ops.zipIdx.map Prod.snd).map (fun (k : Nat) => (k : Int)) := by
      rw [List.map_map]; rfl
    rw [this, List.zipIdx_map_snd]
    exact List.Nodup.map (fun a b h => Int.ofNat.inj h) List.nodup_range'
  unfold tensorInfo
  simp only
  split
  · rename_i hout
    refine ⟨?_, ?_⟩
    · intro c hc
      rcases List.mem_cons.1 hc with rfl | hc
      · exact .inl ⟨rfl, (memI_iff _ _).1 hout⟩
      · exact .inr (hmem c hc)
    · refine List.nodup_cons.2 ⟨?_, hnd⟩
      intro hc
      obtain ⟨k, _, hk, _⟩ := hmem _ hc
      omega
  · exact ⟨fun c hc => .inr (hmem c hc), hnd⟩

/-! ## from well-formedness -/

/-- the part of `InstOK` that depends only on (`tensor`, `producer`, `consumers ⊆ info.consumers`) -/
structure Core (pt : PTable) (m : Model) (sg : Subgraph) (info : TInfo) (ins : Inst) : Prop where
  notEmulated : ins.xf ≠ .emulated
  tensor : ins.tensor = info.tensorId
  producer : ins.producer = info.producer
  consumers : ∀ c ∈ ins.consumers, c ∈ info.consumers
  dataConst : ∀ p pi, ins.param = some p → pinfo pt p = some pi → pi.hasData = true →
    isConst m sg info.tensorId = true

theorem instOK_of_core (pt : PTable) (m : Model) (s : Nat) (sg : Subgraph) (t : Nat) (ins : Inst)
    (hsg : SgOK m sg) (ht : t < sg.tensors.length)
    (href : 0 ≤ (tensorInfo s sg t).producer ∨ (tensorInfo s sg t).consumers ≠ [] ∨ (t : Int) ∈ sg.inputs)
    (hc : Core pt m sg (tensorInfo s sg t) ins) : InstOK pt m sg ins := by
  have hcons := (tensorInfo_consumers s sg t).1
  have hprod := tensorInfo_producer s sg t
  -- availability at a consumer position / at the end
  have availAt : ∀ (k : Nat) (o : Op), sg.ops[k]? = some o → (t : Int) ∈ o.inputs → Avail m sg k t := by
    intro k o hk hmem
    rcases (hsg.ops k o hk).ins _ hmem with h | h
    · omega
    · exact h.2
  -- a position producing `t` is the unique one
  have prodLe : ∀ (j : Nat) (o : Op), sg.ops[j]? = some o → (t : Int) ∈ o.outputs →
      (t : Int) ∉ sg.inputs ∧ isConst m sg t = false ∧
        ∀ (j' : Nat) (o' : Op), sg.ops[j']? = some o' → (t : Int) ∈ o'.outputs → j ≤ j' := by
    intro j o hj hmem
    rcases (hsg.ops j o hj).outs _ hmem with h | ⟨_, h1, h2, h3⟩
    · omega
    · refine ⟨h1, h2, ?_⟩
      intro j' o' hj' hmem'
      by_contra hlt
      exact h3 ⟨j', o', by omega, hj', hmem'⟩
  refine ⟨hc.notEmulated, ?_, ?_, ?_, ?_, ?_⟩
  · rw [hc.tensor, validT_iff]
    show (0 : Int) ≤ (t : Int) ∧ (t : Int) < sg.tensors.length
    omega
  · rw [hc.producer]
    rcases hprod with ⟨h, _⟩ | ⟨j, o, h, hj, _⟩
    · rw [h]; omega
    · rw [h]
      have := (List.getElem?_eq_some_iff.1 hj).1
      omega
  · rw [hc.tensor, hc.producer, avail_iff]
    show Avail m sg ((tensorInfo s sg t).producer + 1).toNat (t : Int)
    rcases hprod with ⟨h, hno⟩ | ⟨j, o, h, hj, hmem⟩
    · have hnp : ∀ k, ¬ ProdBefore sg.ops k (t : Int) := by
        rintro k ⟨j, o, _, hj, hmem⟩
        exact hno j o hj hmem
      have hsome : ∃ k, Avail m sg k t := by
        rcases href with h0 | hne | hin
        · omega
        · obtain ⟨c, hcm⟩ := List.exists_mem_of_ne_nil _ hne
          rcases hcons c hcm with ⟨_, hout⟩ | ⟨k, o, _, hk, hmem⟩
          · exact ⟨_, hsg.outsAvail _ hout⟩
          · exact ⟨k, availAt k o hk hmem⟩
        · exact ⟨0, .inl hin⟩
      obtain ⟨k, hk⟩ := hsome
      rcases hk with hk | hk | hk
      · exact .inl hk
      · exact .inr (.inl hk)
      · exact absurd hk (hnp k)
    · rw [h]
      exact .inr (.inr ⟨j, o, by omega, hj, hmem⟩)
  · intro c hcm
    rw [hc.producer]
    rcases hcons c (hc.consumers c hcm) with ⟨h, _⟩ | ⟨k, o, rfl, hk, hmem⟩
    · left; omega
    · right
      have hklt := (List.getElem?_eq_some_iff.1 hk).1
      refine ⟨?_, by omega⟩
      rcases hprod with ⟨h, _⟩ | ⟨j, oj, h, hj, hmemj⟩
      · rw [h]; omega
      · rw [h]
        obtain ⟨hni, hnc, hle⟩ := prodLe j oj hj hmemj
        rcases availAt k o hk hmem with ha | ha | ⟨j', o', hj'k, hj', hmem'⟩
        · exact absurd ha hni
        · rw [hnc] at ha; cases ha
        · have := hle j' o' hj' hmem'
          omega
  · intro p pi h1 h2 h3
    rw [hc.tensor]
    exact hc.dataConst p pi h1 h2 h3

end GenInstsInfo
