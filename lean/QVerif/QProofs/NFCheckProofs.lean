import QProofs.PipelineWF
import QModel.NFCheck
/-!
# Soundness of the executable normal-form check: `NFCheck.nfOK env st = true → PipelineWF.NF env st`

* the slot tables of `QModel/NFCheck.lean` agree with those of `QProofs/PipeNF.lean`;
* `PipeNF.OpNamed m op k ↔ NFCheck.opName m op = some k` (the opcode lookup is a function);
* one soundness lemma per field of `NF` (each check is in fact *equivalent* to its field; only the
  direction needed by the driver is stated);
* a non-vacuity example: the check accepts the FULLY_CONNECTED-with-bias model of
  `QProofs/PipelineWFExamples.lean` (re-stated here), by kernel evaluation.
-/
open Graph Mat Cfg PipeNF

namespace NFCheckProofs

/-! ## the copied tables agree -/

theorem indexSlots_eq (k : String) : NFCheck.indexSlots k = PipeNF.indexSlots k := rfl
theorem biasSlot_eq (k : String) : NFCheck.biasSlot k = PipeNF.biasSlot k := rfl
theorem dataSlot_eq (k : String) : NFCheck.dataSlot k = PipeNF.dataSlot k := rfl
theorem slotRole_eq (k : String) (i : Nat) : NFCheck.slotRole k i = PipeNF.slotRole k i := rfl

/-! ## `OpNamed` is the graph of `opName` -/

theorem opNamed_iff (m : Model) (op : Op) (k : String) :
    OpNamed m op k ↔ NFCheck.opName m op = some k := by
  unfold OpNamed NFCheck.opName
  constructor
  · rintro ⟨code, hc, hn⟩
    rw [hc]; exact hn
  · intro h
    split at h
    · next code hc => exact ⟨code, hc, h⟩
    · cases h

/-- what `allNamedOps` gives for one named operator -/
theorem allNamedOps_sound (m : Model) (f : Subgraph → Op → String → Bool)
    (h : NFCheck.allNamedOps m f = true) (sg : Subgraph) (hsg : sg ∈ m.subgraphs) (op : Op)
    (hop : op ∈ sg.ops) (k : String) (hk : OpNamed m op k) : f sg op k = true := by
  unfold NFCheck.allNamedOps at h
  have h1 := List.all_eq_true.mp (List.all_eq_true.mp h sg hsg) op hop
  rw [(opNamed_iff m op k).mp hk] at h1
  exact h1

/-! ## per-operator checks -/

theorem slotRolesOp_sound (op : Op) (k : String) (h : NFCheck.slotRolesOp op k = true)
    (i j : Nat) (a : Int) (hi : op.inputs[i]? = some a) (hj : op.inputs[j]? = some a) (hne : a ≠ -1) :
    PipeNF.slotRole k i = PipeNF.slotRole k j := by
  unfold NFCheck.slotRolesOp at h
  have hil : i < op.inputs.length := (List.getElem?_eq_some_iff.mp hi).1
  have hjl : j < op.inputs.length := (List.getElem?_eq_some_iff.mp hj).1
  have h1 := List.all_eq_true.mp (List.all_eq_true.mp h i (List.mem_range.mpr hil)) j
    (List.mem_range.mpr hjl)
  rw [hi, hj] at h1
  have h2 := of_decide_eq_true h1
  exact h2 rfl hne

theorem constWeightOp_sound (m : Model) (sg : Subgraph) (op : Op) (k : String)
    (h : NFCheck.constWeightOp m sg op k = true) (b : Nat) (a : Int)
    (hb : PipeNF.biasSlot k = some b) (h1 : op.inputs[1]? = some a)
    (hd : op.inputs[PipeNF.dataSlot k]? = some a) (hne : a ≠ -1) : isConst m sg a = false := by
  unfold NFCheck.constWeightOp at h
  rw [biasSlot_eq, hb] at h
  simp only [h1] at h
  exact of_decide_eq_true h hd hne

theorem mandatoryOp_sound (op : Op) (k : String) (h : NFCheck.mandatoryOp op k = true) (b : Nat)
    (hb : PipeNF.biasSlot k = some b) :
    (∀ i < b, op.inputs[i]? ≠ some (-1)) ∧ op.outputs[0]? ≠ some (-1) := by
  unfold NFCheck.mandatoryOp at h
  rw [biasSlot_eq, hb] at h
  simp only [Bool.and_eq_true] at h
  refine ⟨fun i hi => ?_, of_decide_eq_true h.2⟩
  exact of_decide_eq_true (List.all_eq_true.mp h.1 i (List.mem_range.mpr hi))

/-! ## the seven fields -/

theorem wfB_sound (env : Env) (st : Recipe.State) (h : NFCheck.wfB env st = true) :
    WF.modelOK env.model = true := h

theorem taggedB_sound (env : Env) (st : Recipe.State) (h : NFCheck.taggedB env st = true) :
    Skeleton.origTagged env.model = true := h

theorem noBlockwiseB_sound (env : Env) (st : Recipe.State) (h : NFCheck.noBlockwiseB env st = true) :
    ∀ e ∈ st, ∀ r ∈ e.2, ∀ w, r.cfg.weight = some w → w.gran ≠ Gran.blockwise := by
  intro e he r hr w hw
  unfold NFCheck.noBlockwiseB at h
  have h1 := List.all_eq_true.mp (List.all_eq_true.mp h e he) r hr
  simp only [hw] at h1
  exact of_decide_eq_true h1

theorem inputsNotConstB_sound (env : Env) (st : Recipe.State)
    (h : NFCheck.inputsNotConstB env st = true) :
    ∀ sg ∈ env.model.subgraphs, ∀ t ∈ sg.inputs, isConst env.model sg t = false := by
  intro sg hsg t ht
  unfold NFCheck.inputsNotConstB at h
  have h1 := List.all_eq_true.mp (List.all_eq_true.mp h sg hsg) t ht
  simpa using h1

theorem slotRolesB_sound (env : Env) (st : Recipe.State) (h : NFCheck.slotRolesB env st = true) :
    ∀ sg ∈ env.model.subgraphs, ∀ op ∈ sg.ops, ∀ k, OpNamed env.model op k →
      ∀ (i j : Nat) a, op.inputs[i]? = some a → op.inputs[j]? = some a → a ≠ -1 →
        slotRole k i = slotRole k j := by
  intro sg hsg op hop k hk i j a hi hj hne
  exact slotRolesOp_sound op k (allNamedOps_sound _ _ h sg hsg op hop k hk) i j a hi hj hne

theorem constWeightB_sound (env : Env) (st : Recipe.State) (h : NFCheck.constWeightB env st = true) :
    ∀ sg ∈ env.model.subgraphs, ∀ op ∈ sg.ops, ∀ k, OpNamed env.model op k →
      ∀ b a, biasSlot k = some b → op.inputs[1]? = some a → op.inputs[dataSlot k]? = some a → a ≠ -1 →
        isConst env.model sg a = false := by
  intro sg hsg op hop k hk b a hb h1 hd hne
  exact constWeightOp_sound env.model sg op k (allNamedOps_sound _ _ h sg hsg op hop k hk) b a hb h1 hd hne

theorem mandatoryB_sound (env : Env) (st : Recipe.State) (h : NFCheck.mandatoryB env st = true) :
    ∀ sg ∈ env.model.subgraphs, ∀ op ∈ sg.ops, ∀ k, OpNamed env.model op k →
      ∀ b, biasSlot k = some b → (∀ i < b, op.inputs[i]? ≠ some (-1)) ∧ op.outputs[0]? ≠ some (-1) := by
  intro sg hsg op hop k hk b hb
  exact mandatoryOp_sound op k (allNamedOps_sound _ _ h sg hsg op hop k hk) b hb

/-- **soundness of the executable normal-form check** -/
theorem nfOK_sound (env : Mat.Env) (st : Recipe.State) (h : NFCheck.nfOK env st = true) :
    PipelineWF.NF env st := by
  unfold NFCheck.nfOK at h
  simp only [Bool.and_eq_true] at h
  obtain ⟨⟨⟨⟨⟨⟨h1, h2⟩, h3⟩, h4⟩, h5⟩, h6⟩, h7⟩ := h
  exact ⟨wfB_sound env st h1, taggedB_sound env st h2, noBlockwiseB_sound env st h3,
    inputsNotConstB_sound env st h4, slotRolesB_sound env st h5, constWeightB_sound env st h6,
    mandatoryB_sound env st h7⟩

/-- the check and the end-to-end theorems fit together: on an accepted case, a successful
    `quantizePure` returns a well-formed graph with the input's skeleton -/
theorem quantizePure_of_nfOK (rx : String → String → Bool) (env : Env) (st : Recipe.State)
    (qsvs : Option Qsvs) (m' : Model) (tbl : List Param) (hnf : NFCheck.nfOK env st = true)
    (h : Pipeline.quantizePure rx env st qsvs = .ok (m', tbl)) :
    WF.modelOK m' = true ∧ Skeleton.sameModelSkeleton env.model m' = true :=
  ⟨PipelineWF.quantizePure_wf rx env st qsvs m' tbl (nfOK_sound env st hnf) h,
   PipelineWF.quantizePure_skeleton rx env st qsvs m' tbl (nfOK_sound env st hnf) h⟩

/-! ## non-vacuity: the check accepts a concrete FULLY_CONNECTED-with-bias model (the witness
`envA`/`stA` of `QProofs/PipelineWFExamples.lean`, re-stated), and rejects a RESHAPE whose shape
operand is its data operand (`mF` there) exactly in the field `slotRoles`. -/

def T (n : String) (dt : Nat) (sh : List Int) (b : Nat) : Tensor := { name := n, dtype := dt, shape := sh, buffer := b }
def cfgWO : OpCfg := { act := none, weight := some { bits := 8, symmetric := true, gran := .channelwise }, cp := .integer, skipChecks := true }
def stA : Recipe.State := [(".*", [⟨".*", "*", Tables.algMinMax, cfgWO⟩])]
def opA : Op := { code := 0, inputs := [0,1,2], outputs := [3], orig := some 0 }
def sgA : Subgraph := { tensors := [T "x" 0 [1,2] 0, T "w" 0 [2,2] 1, T "b" 0 [2] 2, T "y" 0 [1,2] 0], ops := [opA], inputs := [0], outputs := [3] }
def mA : Model := { subgraphs := [sgA], buffers := [none, some (.inl 0), some (.inl 1)], opcodes := [9], sigs := [] }
def envA : Env := { model := mA, consts := [(1, [1,2,3,4]), (2, [1,1])], adjY := [] }

example : NFCheck.opName mA opA = some "FULLY_CONNECTED" := by decide +kernel

theorem nfOK_envA : NFCheck.nfOK envA stA = true := by decide +kernel

theorem nf_envA : PipelineWF.NF envA stA := nfOK_sound envA stA nfOK_envA

def mF : Model :=
  { subgraphs := [{ tensors := [T "x" 0 [2] 0, T "y" 0 [2] 0],
                    ops := [{ code := 0, inputs := [0,0], outputs := [1], orig := some 0 }],
                    inputs := [0], outputs := [1] }],
    buffers := [none], opcodes := [22], sigs := [] }
def envF : Env := { model := mF, consts := [], adjY := [] }

example : NFCheck.report envF stA =
    [("wf", true), ("tagged", true), ("noBlockwise", true), ("inputsNotConst", true),
     ("slotRoles", false), ("constWeight", true), ("mandatory", true)] := by decide +kernel

end NFCheckProofs
