import QProofs.PipeDefs
import QProofs.CalibProofs
/-!
# `Mat.generate` as a nested `foldlM`
-/
open Graph Mat Cfg Pipeline InstGen GenInstsOK

namespace Pipe

/-- loop state of `generate`: the (private copy of the) statistics and the result dictionary -/
abbrev GState := Qsvs × List (String × CReq)

/-- the operator list of a subgraph: real operators (id = position), then INPUT and OUTPUT (id -1) -/
def allOps (sg : Subgraph) : List (Op × Option String × Int) :=
  (sg.ops.zipIdx.map fun (q : Op × Nat) => (q.1, (none : Option String), (q.2 : Int))) ++
    [(({ code := 0, inputs := [], outputs := sg.inputs } : Op), some "INPUT", (-1 : Int)),
     (({ code := 0, inputs := sg.outputs, outputs := [] } : Op), some "OUTPUT", (-1 : Int))]

/-- the key of an entry of the operator list -/
def keyOf (env : Env) (q : Op × Option String × Int) : PyM (Option String) :=
  match q.2.1 with
  | some k => pure (some k)
  | none =>
    match env.model.opcodes[q.1.code]? with
    | none => throw .indexError
    | some code => pure (opNameOfCode code)

/-- the requests of one operator and the statistics after it -/
def opReqs (rx : String → String → Bool) (env : Env) (st : Recipe.State) (sIdx : Nat) (sg : Subgraph)
    (qs : Qsvs) (q : Op × Option String × Int) : PyM (List CReq × Qsvs) :=
  match keyOf env q with
  | .error e => .error e
  | .ok none =>
    match noQuantOp sg q.1 q.2.2 with
    | .error e => .error e
    | .ok r => .ok (r, qs)
  | .ok (some k) =>
    match opScope sg q.1 with
    | .error e => .error e
    | .ok scope =>
      if (Recipe.resolve rx st k scope).1 == Tables.algNoQuantize then
        match noQuantOp sg q.1 q.2.2 with
        | .error e => .error e
        | .ok r => .ok (r, qs)
      else
        match Py.dictGet? Tables.registry (Recipe.resolve rx st k scope).1 with
        | none => .error .valueError
        | some ops =>
          match Py.dictGet? ops k with
          | none => .error .valueError
          | some fn =>
            materializeOp env sg qs
              { sgIdx := sIdx, op := q.1, opName := k, opId := q.2.2, cfg := (Recipe.resolve rx st k scope).2 }
              (Recipe.resolve rx st k scope).1 fn

/-- one operator: compute its requests, merge them into the dictionary -/
def opStep (rx : String → String → Bool) (env : Env) (st : Recipe.State) (sIdx : Nat) (sg : Subgraph)
    (s : GState) (q : Op × Option String × Int) : PyM GState :=
  match opReqs rx env st sIdx sg s.1 q with
  | .error e => .error e
  | .ok (rs, qs') =>
    match updateResults s.2 rs with
    | .error e => .error e
    | .ok res' => .ok (qs', res')

/-- one subgraph -/
def sgStep (rx : String → String → Bool) (env : Env) (st : Recipe.State) (s : GState) (p : Subgraph × Nat) :
    PyM GState :=
  (allOps p.1).foldlM (opStep rx env st p.2 p.1) s

/-- **a successful run of `generate`**: the model has unique tensor names and is float, and the
    result is the value list of the dictionary computed by the nested fold -/
theorem generate_ok (rx : String → String → Bool) (env : Env) (st : Recipe.State) (qsvs : Option Qsvs)
    (reqs : List CReq) (h : Mat.generate rx env st qsvs = .ok reqs) :
    namesUnique env.model ∧
    ∃ qs res, env.model.subgraphs.zipIdx.foldlM (sgStep rx env st) (qsvs.getD [], []) = .ok (qs, res) ∧
      reqs = res.map (·.2) := by
  unfold Mat.generate at h
  simp only [bind, Except.bind, pure, Except.pure, throw, throwThe, MonadExceptOf.throw] at h
  split at h
  · cases h
  split at h
  · cases h
  rename_i _ hnd
  split at h
  · cases h
  rw [CalibProofs.forIn_eq_foldlM _ (sgStep rx env st)] at h
  · refine ⟨?_, ?_⟩
    · simpa [namesUnique] using hnd
    · cases hf : List.foldlM (sgStep rx env st) (qsvs.getD [], []) env.model.subgraphs.zipIdx with
      | error e => rw [hf] at h; cases h
      | ok v =>
        rw [hf] at h
        obtain ⟨qs, res⟩ := v
        refine ⟨qs, res, rfl, ?_⟩
        simp only [] at h
        cases hc : checkBufferSharing env.model res with
        | error e => rw [hc] at h; cases h
        | ok u =>
          rw [hc] at h
          simp only [] at h
          cases hc2 : checkUnreadOwn env.model res with
          | error e => rw [hc2] at h; cases h
          | ok u2 =>
            rw [hc2] at h
            simp only [Except.ok.injEq] at h
            exact h.symm
  · intro p s
    obtain ⟨sg, sIdx⟩ := p
    obtain ⟨qs0, res0⟩ := s
    simp only [sgStep]
    rw [CalibProofs.forIn_eq_foldlM _ (opStep rx env st sIdx sg)]
    · simp only [allOps, List.map_cons, List.map_nil, bind, Except.bind, pure, Except.pure]
    · intro q s
      obtain ⟨op, io, opId⟩ := q
      obtain ⟨qs, res⟩ := s
      simp only [opStep, opReqs, keyOf, pure, Except.pure, bind, Except.bind, throw, throwThe,
        MonadExceptOf.throw]
      cases io with
      | some k =>
        simp only []
        cases opScope sg op with
        | error e => rfl
        | ok scope =>
          simp only []
          by_cases h1 : ((Recipe.resolve rx st k scope).1 == Tables.algNoQuantize) = true
          · simp only [if_pos h1]
            cases noQuantOp sg op opId with
            | error e => rfl
            | ok r => simp only []; cases updateResults res r <;> rfl
          · simp only [if_neg h1]
            cases Py.dictGet? Tables.registry (Recipe.resolve rx st k scope).1 with
            | none => rfl
            | some ops =>
              simp only []
              cases Py.dictGet? ops k with
              | none => rfl
              | some fn =>
                simp only []
                cases materializeOp env sg qs
                    { sgIdx := sIdx, op := op, opName := k, opId := opId, cfg := (Recipe.resolve rx st k scope).2 }
                    (Recipe.resolve rx st k scope).1 fn with
                | error e => rfl
                | ok v => obtain ⟨r, qs'⟩ := v; simp only []; cases updateResults res r <;> rfl
      | none =>
        simp only []
        cases env.model.opcodes[op.code]? with
        | none => rfl
        | some code =>
          simp only []
          cases opNameOfCode code with
          | none =>
            simp only []
            cases noQuantOp sg op opId with
            | error e => rfl
            | ok r => simp only []; cases updateResults res r <;> rfl
          | some k =>
            simp only []
            cases opScope sg op with
            | error e => rfl
            | ok scope =>
              simp only []
              by_cases h1 : ((Recipe.resolve rx st k scope).1 == Tables.algNoQuantize) = true
              · simp only [if_pos h1]
                cases noQuantOp sg op opId with
                | error e => rfl
                | ok r => simp only []; cases updateResults res r <;> rfl
              · simp only [if_neg h1]
                cases Py.dictGet? Tables.registry (Recipe.resolve rx st k scope).1 with
                | none => rfl
                | some ops =>
                  simp only []
                  cases Py.dictGet? ops k with
                  | none => rfl
                  | some fn =>
                    simp only []
                    cases materializeOp env sg qs
                        { sgIdx := sIdx, op := op, opName := k, opId := opId, cfg := (Recipe.resolve rx st k scope).2 }
                        (Recipe.resolve rx st k scope).1 fn with
                    | error e => rfl
                    | ok v => obtain ⟨r, qs'⟩ := v; simp only []; cases updateResults res r <;> rfl

end Pipe
