import QModel.Emulated
import QProofs.GraphStep
/-!
# Specification lemmas for the stages of `Emulated.apply`

* list lemmas for the operator list `pre ++ N ++ fc :: post` (insert after `N`, retarget the last of `N`, delete `fc`);
* `Chain`: the inserted operators form a chain that ends in the original result tensor, and its extension
  by "retarget the last operator to a fresh tensor and append an operator that produces the result";
* projections of `addAct` / `addConst`;
* what a successful `head` / `weight` / `io` / `plan` says.
-/
open Graph Perform Emulated GraphStep

namespace EmuSpec

/-! ## lists -/

theorem insertIdx_append_length {α} (l rest : List α) (x : α) :
    (l ++ rest).insertIdx l.length x = l ++ x :: rest := by
  induction l with
  | nil => simp
  | cons a l ih => simp [List.insertIdx_succ_cons, ih]

theorem pyInsert_mid (pre N rest : List Op) (i : Int) (x : Op)
    (hi : i = (pre.length : Int) + (N.length : Int)) :
    pyInsert (pre ++ N ++ rest) i x = pre ++ (N ++ [x]) ++ rest := by
  have h1 : i.toNat = (pre ++ N).length := by simp; omega
  rw [pyInsert_eq _ _ _ (by omega) (by rw [h1]; simp), h1, insertIdx_append_length]
  simp

theorem modify_append_left {α} (f : α → α) (l rest : List α) (i : Nat) (h : i < l.length) :
    (l ++ rest).modify i f = l.modify i f ++ rest := by
  apply List.ext_getElem?
  intro j
  by_cases hj : j < l.length
  · rw [List.getElem?_modify, List.getElem?_append_left hj,
      List.getElem?_append_left (by simpa using hj), List.getElem?_modify]
  · have hij : ¬ i = j := by omega
    simp [List.getElem?_append, hj, hij]

theorem modify_append_right {α} (f : α → α) (pre l : List α) (i : Nat) :
    (pre ++ l).modify (pre.length + i) f = pre ++ l.modify i f := by
  apply List.ext_getElem?
  intro j
  by_cases hj : j < pre.length
  · have hij : ¬ pre.length + i = j := by omega
    simp [List.getElem?_append, hj, hij]
  · by_cases h2 : i = j - pre.length
    · subst h2
      have hij : pre.length + (j - pre.length) = j := by omega
      simp [List.getElem?_append, hj, hij]
    · have hij : ¬ pre.length + i = j := by omega
      simp [List.getElem?_append, hj, hij, h2]

theorem setLastOut_mid (pre N rest : List Op) (t : Int) (hN : N ≠ []) :
    setLastOut (pre ++ N ++ rest) (pre.length + N.length - 1) t =
      pre ++ setLastOut N (N.length - 1) t ++ rest := by
  have hpos : 0 < N.length := List.length_pos_iff.2 hN
  unfold setLastOut
  rw [show pre.length + N.length - 1 = pre.length + (N.length - 1) by omega, List.append_assoc,
    modify_append_right, modify_append_left _ _ _ _ (by omega), List.append_assoc]

theorem eraseIdx_append_length {α} (l rest : List α) (a : α) :
    (l ++ a :: rest).eraseIdx l.length = l ++ rest := by
  induction l with
  | nil => simp
  | cons b l ih => simp [ih]

theorem eraseIdx_mid (pre N post : List Op) (fc : Op) :
    (pre ++ N ++ fc :: post).eraseIdx (pre.length + N.length) = pre ++ N ++ post := by
  rw [show pre.length + N.length = (pre ++ N).length by simp, eraseIdx_append_length]

theorem get_mid (pre N post : List Op) (fc : Op) :
    (pre ++ N ++ fc :: post)[pre.length + N.length]? = some fc := by
  rw [show pre.length + N.length = (pre ++ N).length by simp, List.getElem?_append_right (Nat.le_refl _)]
  simp

/-- an operator list with an operator at position `k` splits there -/
theorem split_at {α} (l : List α) (k : Nat) (a : α) (h : l[k]? = some a) :
    l = l.take k ++ a :: l.drop (k + 1) ∧ (l.take k).length = k := by
  obtain ⟨hlt, rfl⟩ := List.getElem?_eq_some_iff.1 h
  refine ⟨?_, by simp; omega⟩
  rw [List.getElem_cons_drop, List.take_append_drop]

/-! ## Python indexing -/

theorem index_last {α} (l : List α) (a : α) : Py.index (l ++ [a]) (-1) = .ok a := by
  unfold Py.index
  simp only [List.length_append, List.length_cons, List.length_nil]
  have h1 : ((-1 : Int) < 0) := by omega
  simp only [h1, if_true]
  have h2 : ¬ ((-1 : Int) + ((l.length + (0 + 1) : Nat) : Int) < 0 ∨
      (-1 : Int) + ((l.length + (0 + 1) : Nat) : Int) ≥ ((l.length + (0 + 1) : Nat) : Int)) := by omega
  rw [if_neg h2]
  have h3 : ((-1 : Int) + ((l.length + (0 + 1) : Nat) : Int)).toNat = l.length := by omega
  rw [h3]
  simp

theorem index_zero {α} (l : List α) (a : α) (h : Py.index l 0 = .ok a) : ∃ rest, l = a :: rest := by
  have := index_ok l 0 a (by omega) h
  cases l with
  | nil => simp at this
  | cons b rest => simp at this; exact ⟨rest, by rw [this]⟩

/-! ## the chain of inserted operators -/

/-- `N` is a chain: every operand is in `A` or a result of an earlier member; every member but the last
    has exactly one result, a tensor id in `[lo, nT)` not produced earlier in the chain; the last member
    produces exactly `y` -/
structure Chain (A : Int → Prop) (lo nT : Nat) (y : Int) (N : List Op) : Prop where
  ne : N ≠ []
  ins : ∀ (i : Nat) (o : Op), N[i]? = some o → ∀ t ∈ o.inputs,
    A t ∨ ∃ (j : Nat) (o' : Op), j < i ∧ N[j]? = some o' ∧ t ∈ o'.outputs
  mid : ∀ (i : Nat) (o : Op), N[i]? = some o → i + 1 < N.length →
    ∃ f : Nat, o.outputs = [(f : Int)] ∧ lo ≤ f ∧ f < nT ∧
      ∀ (j : Nat) (o' : Op), j < i → N[j]? = some o' → (f : Int) ∉ o'.outputs
  last : ∀ o : Op, N[N.length - 1]? = some o → o.outputs = [y]

theorem length_setLastOut (N : List Op) (i : Nat) (v : Int) : (setLastOut N i v).length = N.length := by
  simp [setLastOut]

theorem ext_get (N : List Op) (v : Int) (op : Op) (i : Nat) :
    (setLastOut N (N.length - 1) v ++ [op])[i]? =
      if i < N.length then
        (if N.length - 1 = i then (N[i]?).map (fun o => { o with outputs := [v] }) else N[i]?)
      else if i = N.length then some op else none := by
  by_cases h : i < N.length
  · rw [if_pos h, List.getElem?_append_left (by rw [length_setLastOut]; exact h)]
    unfold setLastOut
    rw [List.getElem?_modify]
    by_cases h2 : N.length - 1 = i <;> simp [h2]
  · rw [if_neg h, List.getElem?_append_right (by rw [length_setLastOut]; omega), length_setLastOut]
    by_cases h2 : i = N.length
    · subst h2; simp
    · rw [if_neg h2]
      have : i - N.length ≠ 0 := by omega
      cases hh : i - N.length with
      | zero => exact absurd hh this
      | succ n => simp

theorem Chain.extend {A : Int → Prop} {lo nT : Nat} {y : Int} {N : List Op} (h : Chain A lo nT y N)
    (op : Op) (hlo : lo ≤ nT) (hin : ∀ t ∈ op.inputs, A t ∨ t = (nT : Int)) (hout : op.outputs = [y]) :
    Chain A lo (nT + 1) y (setLastOut N (N.length - 1) (nT : Int) ++ [op]) := by
  have hpos : 0 < N.length := List.length_pos_iff.2 h.ne
  have hlen : (setLastOut N (N.length - 1) (nT : Int) ++ [op]).length = N.length + 1 := by
    simp [length_setLastOut]
  -- an earlier, non-last member is unchanged
  have hold : ∀ j o', j + 1 < N.length → ((setLastOut N (N.length - 1) (nT : Int) ++ [op])[j]? = some o' ↔
      N[j]? = some o') := by
    intro j o' hj
    rw [ext_get, if_pos (by omega), if_neg (by omega)]
  obtain ⟨oL, hoL⟩ : ∃ oL, N[N.length - 1]? = some oL :=
    ⟨N[N.length - 1]'(by omega), List.getElem?_eq_getElem (by omega)⟩
  have hnewlast : (setLastOut N (N.length - 1) (nT : Int) ++ [op])[N.length - 1]? =
      some { oL with outputs := [(nT : Int)] } := by
    rw [ext_get, if_pos (by omega), if_pos rfl, hoL]; rfl
  refine ⟨by simp, ?_, ?_, ?_⟩
  · intro i o hi t ht
    rw [ext_get] at hi
    by_cases h1 : i < N.length
    · rw [if_pos h1] at hi
      -- the operands are those of the old member
      obtain ⟨o0, ho0, hinp⟩ : ∃ o0, N[i]? = some o0 ∧ o.inputs = o0.inputs := by
        by_cases h2 : N.length - 1 = i
        · rw [if_pos h2] at hi
          cases hN : N[i]? with
          | none => rw [hN] at hi; simp at hi
          | some o0 => rw [hN] at hi; simp at hi; exact ⟨o0, rfl, by rw [← hi]⟩
        · rw [if_neg h2] at hi; exact ⟨o, hi, rfl⟩
      rw [hinp] at ht
      rcases h.ins i o0 ho0 t ht with hA | ⟨j, o', hj, ho', hto⟩
      · exact .inl hA
      · exact .inr ⟨j, o', hj, (hold j o' (by omega)).2 ho', hto⟩
    · rw [if_neg h1] at hi
      by_cases h2 : i = N.length
      · rw [if_pos h2] at hi
        cases hi
        rcases hin t ht with hA | rfl
        · exact .inl hA
        · exact .inr ⟨N.length - 1, _, by omega, hnewlast, by simp⟩
      · rw [if_neg h2] at hi; cases hi
  · intro i o hi hlt
    rw [hlen] at hlt
    by_cases h2 : N.length - 1 = i
    · -- the retargeted member
      subst h2
      rw [hnewlast] at hi
      cases hi
      refine ⟨nT, rfl, hlo, by omega, ?_⟩
      intro j o' hj ho'
      rw [hold j o' (by omega)] at ho'
      obtain ⟨f, hf, _, hfl, _⟩ := h.mid j o' ho' (by omega)
      rw [hf]
      simp
      omega
    · have hi' := (hold i o (by omega)).1 hi
      obtain ⟨f, hf, h3, h4, h5⟩ := h.mid i o hi' (by omega)
      refine ⟨f, hf, h3, by omega, ?_⟩
      intro j o' hj ho'
      exact h5 j o' hj ((hold j o' (by omega)).1 ho')
  · intro o ho
    rw [hlen, show N.length + 1 - 1 = N.length by omega, ext_get, if_neg (by omega), if_pos rfl] at ho
    cases ho
    exact hout

/-! ## `addAct` / `addConst` -/

section Add
variable (sg : Subgraph) (base : String) (shape : List Int)

@[simp] theorem addAct_ops : (addAct sg base shape).1.ops = sg.ops := rfl
@[simp] theorem addAct_inputs : (addAct sg base shape).1.inputs = sg.inputs := rfl
@[simp] theorem addAct_outputs : (addAct sg base shape).1.outputs = sg.outputs := rfl
@[simp] theorem addAct_id : (addAct sg base shape).2 = (sg.tensors.length : Int) := rfl
@[simp] theorem addAct_length : (addAct sg base shape).1.tensors.length = sg.tensors.length + 1 := by
  simp [addAct]
@[simp] theorem addAct_buffers :
    (addAct sg base shape).1.tensors.map (·.buffer) = sg.tensors.map (·.buffer) ++ [0] := by
  simp [addAct]
theorem addAct_tensors : ∃ t, (addAct sg base shape).1.tensors = sg.tensors ++ [t] ∧
    t.name = uniqueName (sg.tensors.map (·.name)) base ∧ t.buffer = 0 := ⟨_, rfl, rfl, rfl⟩

variable (bufs : List BufContent) (dtype : Nat) (content : Nat ⊕ PId)

@[simp] theorem addConst_ops : (addConst bufs sg base shape dtype content).2.1.ops = sg.ops := rfl
@[simp] theorem addConst_inputs : (addConst bufs sg base shape dtype content).2.1.inputs = sg.inputs := rfl
@[simp] theorem addConst_outputs : (addConst bufs sg base shape dtype content).2.1.outputs = sg.outputs := rfl
@[simp] theorem addConst_id : (addConst bufs sg base shape dtype content).2.2 = (sg.tensors.length : Int) := rfl
@[simp] theorem addConst_bufs : (addConst bufs sg base shape dtype content).1 = bufs ++ [some content] := rfl
@[simp] theorem addConst_length :
    (addConst bufs sg base shape dtype content).2.1.tensors.length = sg.tensors.length + 1 := by
  simp [addConst]
@[simp] theorem addConst_buffers :
    (addConst bufs sg base shape dtype content).2.1.tensors.map (·.buffer) =
      sg.tensors.map (·.buffer) ++ [bufs.length] := by
  simp [addConst]
theorem addConst_tensors : ∃ t, (addConst bufs sg base shape dtype content).2.1.tensors = sg.tensors ++ [t] ∧
    t.name = uniqueName (sg.tensors.map (·.name)) base ∧ t.buffer = bufs.length := ⟨_, rfl, rfl, rfl⟩
end Add

/-- appending a tensor whose name comes from `uniqueName` keeps the names distinct -/
theorem nodup_snoc (T : List Tensor) (t : Tensor) (base : String)
    (ht : t.name = uniqueName (T.map (·.name)) base) (h : (T.map (·.name)).Nodup) :
    ((T ++ [t]).map (·.name)).Nodup := by
  rw [List.map_append, List.nodup_append]
  refine ⟨h, by simp, ?_⟩
  intro a ha b hb
  simp only [List.map_cons, List.map_nil, List.mem_singleton] at hb
  subst hb
  intro hab
  subst hab
  rw [ht] at ha
  exact uniqueName_fresh _ _ ha

theorem addAct_nodup (sg : Subgraph) (base : String) (shape : List Int)
    (h : (sg.tensors.map (·.name)).Nodup) : ((addAct sg base shape).1.tensors.map (·.name)).Nodup :=
  nodup_snoc _ _ base rfl h

theorem addConst_nodup (bufs : List BufContent) (sg : Subgraph) (base : String) (shape : List Int) (dtype : Nat)
    (content : Nat ⊕ PId) (h : (sg.tensors.map (·.name)).Nodup) :
    ((addConst bufs sg base shape dtype content).2.1.tensors.map (·.name)).Nodup :=
  nodup_snoc _ _ base rfl h

/-! ## the stages that can raise -/

theorem head_spec (pt : PTable) (m : Model) (sg : Subgraph) (inp : TIn) (h : Head)
    (hh : head pt m sg inp = .ok h) :
    inp.consumers = [(h.k : Int)] ∧ sg.ops[h.k]? = some h.fc ∧ inp.producer = -1 ∧
    m.opcodes[h.fc.code]? = some opFullyConnected ∧
    resolveParam pt inp.param = .ok h.par ∧ nonUniform h.par = false := by
  unfold head at hh
  split at hh
  · cases hh
  rename_i hlen
  split at hh
  · cases hh
  rename_i par hpar
  split at hh
  · cases hh
  rename_i hnu
  split at hh
  · cases hh
  rename_i c0 hc0
  split at hh
  · cases hh
  rename_i hneg
  split at hh
  · cases hh
  rename_i fc hfc
  split at hh
  · cases hh
  rename_i code hcode
  split at hh
  · cases hh
  rename_i hcode9
  split at hh
  · cases hh
  rename_i hprod
  cases hh
  have h0 : 0 ≤ c0 := by omega
  have hc : inp.consumers = [c0] := by
    obtain ⟨rest, hr⟩ := index_zero _ _ hc0
    rw [hr] at hlen ⊢
    cases rest with
    | nil => rfl
    | cons b r => simp at hlen
  refine ⟨?_, ?_, ?_, ?_, hpar, by simpa using hnu⟩
  · rw [hc]; simp; omega
  · exact index_ok _ _ _ h0 hfc
  · simpa using hprod
  · have := index_ok _ _ _ (by omega) hcode
    simp at this
    rw [this]
    simp at hcode9
    rw [hcode9]

theorem weight_spec (env : EmuEnv) (m : Model) (sg : Subgraph) (inp : TIn) (par : Option (PId × PInfo))
    (wr : WRes) (h0 : 0 ≤ inp.tensor) (h : weight env m sg inp par = .ok wr) :
    ∃ pi ty, par = some (wr.p, pi) ∧ sg.tensors[inp.tensor.toNat]? = some wr.w ∧
      wr.w.buffer < m.buffers.length ∧
      wr.bufs = m.buffers.set wr.w.buffer (some (.inr wr.p)) ∧
      wr.sg = { sg with tensors := (sg.tensors.set inp.tensor.toNat
        { wr.w with dtype := ty, shape := env.qshape, quant := some env.unitQ }) } := by
  unfold weight at h
  split at h
  · cases h
  rename_i w hw
  split at h
  · cases h
  rename_i pp
  split at h
  · cases h
  rename_i ty hty
  split at h
  · cases h
  split at h
  · cases h
  rename_i hb
  split at h
  · cases h
  split at h
  · cases h
  cases h
  refine ⟨pp.2, ty, rfl, index_ok _ _ _ h0 hw, Nat.lt_of_not_le hb, rfl, ?_⟩
  simp [setTensor, show ¬ inp.tensor < 0 by omega]

theorem io_spec (env : EmuEnv) (fc : Op) (sg : Subgraph) (r : IORes) (h : io env fc sg = .ok r) :
    (∃ rest, fc.inputs = r.inId :: rest) ∧ (∃ rest, fc.outputs = r.outId :: rest) ∧
    (∃ inT, getTensor sg r.inId = .ok inT ∧ inT.shape.length = 3) ∧
    getTensor sg r.outId = .ok r.outT ∧ r.outPos = pos sg.tensors.length r.outId := by
  unfold io at h
  split at h
  · cases h
  rename_i inId hin
  split at h
  · cases h
  rename_i outId hout
  split at h
  · cases h
  rename_i inT hinT
  split at h
  · cases h
  rename_i outT houtT
  split at h
  · cases h
  rename_i hrank
  split at h
  · cases h
  split at h
  · cases h
  split at h
  · cases h
  split at h
  · cases h
  split at h
  · cases h
  cases h
  exact ⟨index_zero _ _ hin, index_zero _ _ hout, ⟨inT, hinT, by simpa using hrank⟩, houtT, rfl⟩

/-- the subgraph and buffer list on which `io` and the tail of the function run -/
def sg2 (env : EmuEnv) (wr : WRes) : Subgraph :=
  (addConst (addConst wr.bufs wr.sg (wr.w.name ++ "_scale") env.scaleShape Tables.ttFloat32 (.inr wr.p)).1
    (addConst wr.bufs wr.sg (wr.w.name ++ "_scale") env.scaleShape Tables.ttFloat32 (.inr wr.p)).2.1
    (wr.w.name ++ "_reduce_axes") [1] Tables.ttInt32 (.inl env.axesTok)).2.1

theorem plan_spec (pt : PTable) (env : EmuEnv) (m : Model) (sg : Subgraph) (inp : TIn) (pl : Plan)
    (h : plan pt env m sg inp = .ok pl) :
    ∃ hd wr, head pt m sg inp = .ok hd ∧ weight env m sg inp hd.par = .ok wr ∧
      io env hd.fc (sg2 env wr) = .ok pl.io ∧
      env.fused = some pl.fused ∧ (pl.fused = actNone ∨ pl.fused = actRelu) ∧
      pl.sg = sg2 env wr ∧
      pl.bufs = wr.bufs ++ [some (.inr wr.p), some (.inl env.axesTok)] ∧
      pl.k = hd.k ∧
      pl.scaleId = (wr.sg.tensors.length : Int) ∧ pl.axesId = (wr.sg.tensors.length : Int) + 1 ∧
      pl.codes = (addOpCode (addOpCode (addOpCode (addOpCode m.opcodes opReshape).1 opBatchMatmul).1 opMul).1 opSum).1 ∧
      pl.ciReshape = (addOpCode m.opcodes opReshape).2 ∧
      pl.ciBmm = (addOpCode (addOpCode m.opcodes opReshape).1 opBatchMatmul).2 ∧
      pl.ciMul = (addOpCode (addOpCode (addOpCode m.opcodes opReshape).1 opBatchMatmul).1 opMul).2 ∧
      pl.ciSum = (addOpCode (addOpCode (addOpCode (addOpCode m.opcodes opReshape).1 opBatchMatmul).1 opMul).1 opSum).2 := by
  unfold plan at h
  split at h
  · cases h
  rename_i hd hhd
  simp only at h
  split at h
  · cases h
  rename_i fused hfused
  split at h
  · cases h
  rename_i hf
  split at h
  · cases h
  rename_i wr hwr
  split at h
  · cases h
  rename_i r hr
  cases h
  refine ⟨hd, wr, hhd, hwr, hr, hfused, ?_, rfl, by simp, rfl, by simp, by simp, rfl, rfl, rfl, rfl, rfl⟩
  simp only [Bool.and_eq_true, bne_iff_ne, ne_eq, not_and, Decidable.not_not] at hf
  by_cases h1 : fused = actNone
  · exact .inl h1
  · exact .inr (hf h1)

end EmuSpec
