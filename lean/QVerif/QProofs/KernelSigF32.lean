import QProofs.KernelSigIns
import QProofs.MatTotalGen
/-!
# Kernel signatures (C01b): a tensor that is not float32 is never touched

For an input whose operators have the float signatures of the table (`FloatModel`), every request side that
RETYPES its tensor (`[QUANTIZE_TENSOR]`, `[ADD_DEQUANTIZE]` on a consumer side: a constant operand) is a side
of a float32 tensor (`generate_f32`): `standardOp` ignores the slots whose tensor is not float32, and the two
materialisation functions that do not look at the type -- `biasFor` and `floatCastOp` -- act on the bias /
weight slot, which hold float32 tensors in a float model.  With `TypingShape.PTyp` / `CTyp` (a producer side
`[ADD_DEQUANTIZE]` and a consumer side `[ADD_QUANTIZE]` are float32) this gives `nonf32_no_insertion`: no
performed instruction acts on a tensor that is not float32, hence (`nonf32_slot`) every operand slot that
held such a tensor holds it in the output, with its original record.  In particular
`KernelSig.castShapeKept`: the `output_shape` operand of a CONV_2D_TRANSPOSE under float casting.
-/
open Graph Mat Cfg Pipeline InstGen GenInstsOK GenInstsInfo Pipe SharingGen SharingData Perform
open GraphStep GraphFrame GraphInv Skeleton SkeletonProof StepTypes Wiring SharingE2E Locality KernelSig

set_option autoImplicit false

namespace KernelSig.F32

/-- a retyping consumer side is a side of a float32 tensor -/
def SideS (sg : Subgraph) (n : String) (c : CO2T) : Prop :=
  (c.xfs = [.quantTensor] ∨ c.xfs = [.addDequant]) → TypingShape.F32 sg n

abbrev RF (sg : Subgraph) (r : CReq) : Prop := TypingShape.RSides (fun _ _ => True) (SideS sg) r

theorem rf_noQuantReq (sg : Subgraph) (n : String) (o : Int) (b : Bool) : RF sg (noQuantReq n o b) := by
  cases b
  · exact ⟨fun _ _ => trivial, fun cs c h => (by cases h)⟩
  · refine ⟨fun _ _ => trivial, ?_⟩
    intro cs c hcs hc
    cases hcs
    rw [List.mem_singleton.1 hc]
    rintro (h | h) <;> cases h

/-- any request for a float32 tensor -/
theorem rf_of_f32 (sg : Subgraph) (t : Tensor) (ht : t ∈ sg.tensors) (hf : t.dtype = Tables.ttFloat32) (r : CReq)
    (hn : r.name = t.name) : RF sg r :=
  ⟨fun _ _ => trivial, fun _ _ _ _ _ => ⟨t, ht, hn.symm, hf⟩⟩

theorem standardOp_rf (env : Env) (sg : Subgraph) (qs : Qsvs) (oi : OpInfo) (con : Constraint)
    (gIn gOut : List Nat) : AllReqs (RF sg) (standardOp env sg qs oi con gIn gOut) := by
  intro rs q h
  obtain ⟨inIgn, outIgn, rin, rout, g, gO, hI, hO, hrs, hin, hout, -, -⟩ :=
    standardOp_shape env sg qs oi con gIn gOut rs q h
  have key : ∀ (b : Bool) (slots : List Int) (given ign : List Nat) (g : Option Param),
      IgnSpec sg slots given ign → ∀ p ∈ cslots slots, ∀ r, SlotReq env sg qs oi b ign g p r → RF sg r := by
    intro b slots given ign g hspec p hp r hs
    obtain ⟨t, ht, hr⟩ := hs
    split at hr
    · rw [hr]; exact rf_noQuantReq sg _ _ _
    · rename_i hc
      have hpm := (mem_cslots slots p).1 hp
      have hf : t.dtype = Tables.ttFloat32 := by
        by_contra hne
        exact hc ((hspec p.2 p.1 t hpm.1 ht).2 (.inl hne))
      exact rf_of_f32 sg t (tensorAt_mem sg p.1 t ht) hf r (wrapper_name env qs oi t b g r hr)
  intro r hr
  rw [hrs] at hr
  rcases List.mem_append.1 hr with hr | hr
  · obtain ⟨p, hp, hsr⟩ := hin.mem_right hr
    exact key _ _ _ _ _ hI p hp r hsr
  · obtain ⟨p, hp, hsr⟩ := hout.mem_right hr
    exact key _ _ _ _ _ hO p hp r hsr

theorem noQuantOp_rf (sg : Subgraph) (op : Op) (opId : Int) (rs : List CReq)
    (h : noQuantOp sg op opId = .ok rs) : ∀ r ∈ rs, RF sg r := by
  unfold noQuantOp at h
  obtain ⟨ins, hins, h⟩ := GraphInv.bind_ok _ _ _ h
  obtain ⟨outs, houts, h⟩ := GraphInv.bind_ok _ _ _ h
  simp only [pure, Except.pure, Except.ok.injEq] at h
  subst h
  intro r hr
  rcases List.mem_append.1 hr with hr | hr
  · obtain ⟨a, _, hf⟩ := GraphFrame.mapM_ok _ _ _ hins r hr
    obtain ⟨t, ht, hf⟩ := GraphInv.bind_ok _ _ _ hf
    simp only [pure, Except.pure, Except.ok.injEq] at hf
    rw [← hf]; exact rf_noQuantReq sg _ _ _
  · obtain ⟨a, _, hf⟩ := GraphFrame.mapM_ok _ _ _ houts r hr
    obtain ⟨t, ht, hf⟩ := GraphInv.bind_ok _ _ _ hf
    simp only [pure, Except.pure, Except.ok.injEq] at hf
    rw [← hf]; exact rf_noQuantReq sg _ _ _

theorem fixPost_rf (sg : Subgraph) (oi : OpInfo) (b : Bool) (reqs : List CReq) (q : Qsvs)
    (hreqs : ∀ r ∈ reqs, RF sg r) (rs : List CReq) (q' : Qsvs)
    (h : fixPost oi b (reqs, q) = .ok (rs, q')) : ∀ r ∈ rs, RF sg r := by
  unfold fixPost at h
  simp only [] at h
  split at h
  · rename_i last a hlast hact
    have hlastS : RF sg last := hreqs last (List.mem_of_getLast? hlast)
    split at h
    · simp only [pure, Except.pure, Except.ok.injEq, Prod.mk.injEq] at h
      obtain ⟨rfl, rfl⟩ := h
      exact hreqs
    · rename_i pr hpr
      split at h
      · cases h
      · rename_i fp hfp
        obtain ⟨mm, hmm, h⟩ := GraphInv.bind_ok _ _ _ h
        split at h
        · cases h
        · simp only [pure, Except.pure, Except.ok.injEq, Prod.mk.injEq] at h
          obtain ⟨rfl, rfl⟩ := h
          intro r hr
          rcases List.mem_append.1 hr with hr | hr
          · exact hreqs r (List.dropLast_subset _ hr)
          · rw [List.mem_singleton.1 hr]
            exact ⟨fun _ _ => trivial, hlastS.2⟩
  · simp only [pure, Except.pure, Except.ok.injEq, Prod.mk.injEq] at h
    obtain ⟨rfl, rfl⟩ := h
    exact hreqs

/-- `biasFor`, when the tensor in the bias slot is float32 -/
theorem biasFor_rf (env : Env) (sg : Subgraph) (oi : OpInfo) (reqs rs : List CReq) (iIn iW iB : Nat)
    (hreqs : ∀ r ∈ reqs, RF sg r)
    (hb32 : ∀ bslot bt, oi.op.inputs[iB]? = some bslot → bslot ≠ -1 → tensorAt sg bslot = .ok bt →
      bt.dtype = Tables.ttFloat32)
    (h : biasFor env sg oi reqs iIn iW iB = .ok rs) : ∀ r ∈ rs, RF sg r := by
  unfold biasFor at h
  split at h
  · simp only [pure, Except.pure, Except.ok.injEq] at h; subst h; exact hreqs
  · rename_i bslot hb
    split at h
    · simp only [pure, Except.pure, Except.ok.injEq] at h; subst h; exact hreqs
    · rename_i hne
      obtain ⟨bt, hbt, h⟩ := GraphInv.bind_ok _ _ _ h
      have hf := hb32 bslot bt hb (by simpa using hne) hbt
      have hbtm : bt ∈ sg.tensors := tensorAt_mem sg _ bt hbt
      have fin : ∀ bp, (mkReq bt.name oi true bp (isSRQ oi.cfg) >>= fun r =>
            if iB < reqs.length then pure (reqs.set iB r) else throw PyErr.indexError) = .ok rs →
          ∀ r ∈ rs, RF sg r := by
        intro bp h
        obtain ⟨r, hr, h⟩ := GraphInv.bind_ok _ _ _ h
        split at h
        · simp only [pure, Except.pure, Except.ok.injEq] at h
          subst h
          intro r' hr'
          rcases mem_set_cases _ _ _ _ hr' with h | ⟨j, _, hj⟩
          · subst h
            obtain ⟨xfs, -, hr''⟩ := mkReq_spec bt.name oi true bp _ r' hr
            exact rf_of_f32 sg bt hbtm hf r' (by rw [hr'']; rfl)
          · exact hreqs r' (List.mem_of_getElem? hj)
        · cases h
      simp only [] at h
      split at h
      · split at h
        · obtain ⟨_, h', _⟩ := GraphInv.bind_ok _ _ _ h
          cases h'
        · obtain ⟨pin, _, h⟩ := GraphInv.bind_ok _ _ _ h
          obtain ⟨pw, _, h⟩ := GraphInv.bind_ok _ _ _ h
          split at h
          · obtain ⟨bp, hbp, h⟩ := GraphInv.bind_ok _ _ _ h
            exact fin _ h
          · obtain ⟨_, h', _⟩ := GraphInv.bind_ok _ _ _ h
            cases h'
      · obtain ⟨bp, hbp, h⟩ := GraphInv.bind_ok _ _ _ h
        exact fin _ h

/-- `floatCastOp`, when the tensor in the weight slot is float32 -/
theorem floatCastOp_rf (env : Env) (sg : Subgraph) (oi : OpInfo) (iIn iW iB : Nat) (rs : List CReq)
    (hw32 : ∀ sW tw, oi.op.inputs[iW]? = some sW → tensorAt sg sW = .ok tw → tw.dtype = Tables.ttFloat32)
    (h : floatCastOp env sg oi iIn iW iB = .ok rs) : ∀ r ∈ rs, RF sg r := by
  unfold floatCastOp at h
  simp only [] at h
  obtain ⟨sIn, hsIn, h⟩ := GraphInv.bind_ok _ _ _ h
  obtain ⟨tin, htin, h⟩ := GraphInv.bind_ok _ _ _ h
  obtain ⟨sW, hsW, h⟩ := GraphInv.bind_ok _ _ _ h
  obtain ⟨tw, htw, h⟩ := GraphInv.bind_ok _ _ _ h
  obtain ⟨sOut, hsOut, h⟩ := GraphInv.bind_ok _ _ _ h
  obtain ⟨tout, htout, h⟩ := GraphInv.bind_ok _ _ _ h
  obtain ⟨wd, hwd, h⟩ := GraphInv.bind_ok _ _ _ h
  obtain ⟨hh, _, h⟩ := GraphInv.bind_ok _ _ _ h
  have e2 : oi.op.inputs[iW]? = some sW := by
    split at hsW
    · rename_i s hs; simp only [pure, Except.pure, Except.ok.injEq] at hsW; rw [hs, hsW]
    · cases hsW
  have hf := hw32 sW tw e2 htw
  have hw : RF sg ⟨tw.name, none,
      some [(⟨oi.opId, [.addDequant], some (Param.nonlinear 16 (some ⟨wd.shape, hh⟩))⟩ : CO2T)]⟩ :=
    rf_of_f32 sg tw (tensorAt_mem sg _ tw htw) hf _ rfl
  have base : ∀ r ∈ [noQuantReq tin.name oi.opId true,
      (⟨tw.name, none, some [(⟨oi.opId, [.addDequant], some (Param.nonlinear 16 (some ⟨wd.shape, hh⟩))⟩ : CO2T)]⟩ : CReq),
      noQuantReq tout.name oi.opId false], RF sg r := by
    intro r hr
    simp only [List.mem_cons, List.not_mem_nil, or_false] at hr
    rcases hr with rfl | rfl | rfl
    · exact rf_noQuantReq sg _ _ _
    · exact hw
    · exact rf_noQuantReq sg _ _ _
  split at h
  · split at h
    · obtain ⟨tb, htb, h⟩ := GraphInv.bind_ok _ _ _ h
      simp only [pure, Except.pure, Except.ok.injEq] at h
      subst h
      intro r hr
      rcases List.mem_append.1 hr with hr | hr
      · exact base r hr
      · rw [List.mem_singleton.1 hr]; exact rf_noQuantReq sg _ _ _
    · simp only [pure, Except.pure, Except.ok.injEq] at h
      subst h
      exact base
  · simp only [pure, Except.pure, Except.ok.injEq] at h
    subst h
    exact base

/-! ## the bias and weight slots of a float operator hold float32 tensors -/

theorem registry_cases (alg : String) (ops : List (String × String))
    (h : Py.dictGet? Tables.registry alg = some ops) :
    (alg = Tables.algMinMax ∧ ops = minmaxOps) ∨ (alg = Tables.algFloatCasting ∧ ops = floatOps) := by
  by_cases h1 : alg = Tables.algMinMax
  · subst h1
    rw [registry_minmax] at h
    exact .inl ⟨rfl, (Option.some.inj h).symm⟩
  · by_cases h2 : alg = Tables.algFloatCasting
    · subst h2
      rw [registry_float] at h
      exact .inr ⟨rfl, (Option.some.inj h).symm⟩
    · exfalso
      unfold Py.dictGet? Tables.registry at h
      simp only [List.find?] at h
      have e1 : ("min_max_uniform_quantize" == alg) = false := by
        simp only [beq_eq_false_iff_ne, ne_eq]; exact fun hh => h1 hh.symm
      have e2 : ("float_casting" == alg) = false := by
        simp only [beq_eq_false_iff_ne, ne_eq]; exact fun hh => h2 hh.symm
      simp only [e1, e2] at h
      cases h

/-- the tensor in a slot of a well-formed operator whose table type is `some d` -/
theorem slot_dtype (sg : Subgraph) (a : Int) (t : Tensor) (_hv : a = -1 ∨ ValidT sg a) (ht : tensorAt sg a = .ok t)
    (d : Nat) (hd : dtypeAt sg a = some d) : t.dtype = d := by
  obtain ⟨h0, tn, htn, hdt⟩ := dtypeAt_eq_some sg a d hd
  have := tensorAt_get sg a t h0 ht
  rw [htn] at this
  cases this
  exact hdt

theorem conv_fns : ∀ e ∈ minmaxOps, ¬ TypingSrq.NotConv e.2 → e.1 ∈ names ∧ e.1 ≠ "EMBEDDING_LOOKUP" := by
  unfold TypingSrq.NotConv
  decide

theorem float_fns : ∀ e ∈ floatOps, e.1 ∈ names ∧ weightOp e.1 = true := by decide

/-- **the request list of one (pseudo-)operator** of a float model -/
theorem opReqs_rf (rx : String → String → Bool) (env : Env) (st : Recipe.State)
    (hwf : WF.modelOK env.model = true) (hfl : FloatModel env.model)
    (s : Nat) (sg : Subgraph) (hsg : env.model.subgraphs[s]? = some sg) (qs : Qsvs)
    (q : Op × Option String × Int) (hq : q ∈ allOps sg) :
    AllReqs (RF sg) (opReqs rx env st s sg qs q) := by
  have hsgm : sg ∈ env.model.subgraphs := List.mem_of_getElem? hsg
  have hsgOK : SgOK env.model sg := ((modelOK_iff env.model).1 hwf).2.1 sg hsgm
  have nq : AllReqs (RF sg)
      (match noQuantOp sg q.1 q.2.2 with | .error e => .error e | .ok r => .ok (r, qs)) := by
    intro rs q' h
    cases hn : noQuantOp sg q.1 q.2.2 with
    | error e => rw [hn] at h; cases h
    | ok r =>
      rw [hn] at h
      simp only [Except.ok.injEq, Prod.mk.injEq] at h
      obtain ⟨rfl, rfl⟩ := h
      exact noQuantOp_rf sg q.1 q.2.2 r hn
  -- a named REAL operator: its float signature
  have real : ∀ k, keyOf env q = .ok (some k) → k ∈ names → k ≠ "INPUT" → k ≠ "OUTPUT" →
      ∃ j : Nat, sg.ops[j]? = some q.1 ∧
        floatSig k (q.1.inputs.map (dtypeAt sg)) (q.1.outputs.map (dtypeAt sg)) = true := by
    intro k hk _ hni hno
    rcases MatTotal.mem_allOps sg q hq with ⟨j, op, hop, rfl⟩ | rfl | rfl
    · refine ⟨j, hop, ?_⟩
      unfold keyOf at hk
      simp only at hk
      cases hc : env.model.opcodes[op.code]? with
      | none => rw [hc] at hk; cases hk
      | some code =>
        rw [hc] at hk
        simp only [pure, Except.pure, Except.ok.injEq] at hk
        exact (hfl.get sg hsgm op (List.mem_of_getElem? hop) code hc).1 k hk
    · unfold keyOf MatTotal.inEntry at hk
      simp only [pure, Except.pure, Except.ok.injEq, Option.some.injEq] at hk
      exact absurd hk.symm hni
    · unfold keyOf MatTotal.outEntry at hk
      simp only [pure, Except.pure, Except.ok.injEq, Option.some.injEq] at hk
      exact absurd hk.symm hno
  have hnio : ∀ k ∈ names, k ≠ "INPUT" ∧ k ≠ "OUTPUT" := by
    intro k hk
    have := names_not_io
    rw [List.all_eq_true] at this
    simpa using this k hk
  unfold opReqs
  cases hkey : keyOf env q with
  | error e => exact AllReqs.error _
  | ok key =>
    cases key with
    | none => exact nq
    | some k =>
      simp only []
      cases opScope sg q.1 with
      | error e => exact AllReqs.error _
      | ok scope =>
        simp only []
        refine AllReqs.ite _ (fun _ => nq) (fun _ => ?_)
        generalize (Recipe.resolve rx st k scope).2 = cfg
        generalize (Recipe.resolve rx st k scope).1 = alg
        cases hreg : Py.dictGet? Tables.registry alg with
        | none => exact AllReqs.error _
        | some ops =>
          simp only []
          cases hf : Py.dictGet? ops k with
          | none => exact AllReqs.error _
          | some fn =>
            simp only []
            intro rs q' h
            rcases registry_cases alg ops hreg with ⟨rfl, rfl⟩ | ⟨rfl, rfl⟩
            · -- min/max
              have hmemf := dictGet?_mem_key _ _ _ hf
              obtain ⟨con, gIn, rs0, q0, hstd, -, -, hcase⟩ := TypingSrq.materializeOp_minmax_cases env sg qs
                { sgIdx := s, op := q.1, opName := k, opId := q.2.2, cfg := cfg } fn rs q' hmemf h
              have h0 := standardOp_rf env sg qs { sgIdx := s, op := q.1, opName := k, opId := q.2.2, cfg := cfg }
                con gIn [] rs0 q0 hstd
              rcases hcase with ⟨rfl, -⟩ | ⟨iIn, iB, hbs, -, -, -, -, hb, hconv⟩ | ⟨b, -, hfx, -⟩
              · exact h0
              · obtain ⟨hkn, hkne⟩ := conv_fns _ hmemf hconv
                obtain ⟨j, hop, fl⟩ := real k hkey hkn (hnio k hkn).1 (hnio k hkn).2
                refine biasFor_rf env sg _ rs0 rs iIn 1 iB h0 ?_ hb
                intro bslot bt hbi hne hbt
                simp only at hbi hbs
                have hjlt : iB < q.1.inputs.length := (List.getElem?_eq_some_iff.1 hbi).1
                have hst := slot_table k hkn _ _ (fl_arity fl) iB hjlt
                have hkb : kind k iB = .bias := by
                  by_contra hkb
                  exact hst.2.2.2.2.2.2 hkb hbs
                have hrow := ((sig_iff _ _ _ _ _).1 fl).2.1 iB (dtypeAt sg bslot) (by rw [List.getElem?_map, hbi]; rfl)
                rw [hkb] at hrow
                simp only [floatRow, beq_iff_eq, Bool.or_eq_true, Bool.and_eq_true] at hrow
                have hv := (hsgOK.ops j q.1 hop).ins bslot (List.mem_of_getElem? hbi)
                rcases hrow with ⟨hrow, -⟩ | hrow
                · exfalso
                  rcases hv with hv | ⟨⟨h0', hlt⟩, -⟩
                  · exact hne hv
                  · have hget : sg.tensors[bslot.toNat]? = some sg.tensors[bslot.toNat] :=
                      List.getElem?_eq_getElem (by omega)
                    rw [dtypeAt_some _ _ h0' _ hget] at hrow
                    cases hrow
                · exact slot_dtype sg bslot bt (hv.imp id (·.1)) hbt _ hrow
              · exact fixPost_rf sg _ b rs0 q0 h0 rs q' hfx
            · -- float casting
              have hmemf := dictGet?_mem_key _ _ _ hf
              obtain ⟨hkn, hkw⟩ := float_fns _ hmemf
              obtain ⟨j, hop, fl⟩ := real k hkey hkn (hnio k hkn).1 (hnio k hkn).2
              have hw32 : ∀ sW tw, q.1.inputs[1]? = some sW → tensorAt sg sW = .ok tw →
                  tw.dtype = Tables.ttFloat32 := by
                intro sW tw hsW htw
                have hjlt : 1 < q.1.inputs.length := (List.getElem?_eq_some_iff.1 hsW).1
                have hst := slot_table k hkn _ _ (fl_arity fl) 1 hjlt
                have hrow := ((sig_iff _ _ _ _ _).1 fl).2.1 1 (dtypeAt sg sW) (by rw [List.getElem?_map, hsW]; rfl)
                have hv := (hsgOK.ops j q.1 hop).ins sW (List.mem_of_getElem? hsW)
                have hkk : kind k 1 = .weight := by
                  cases hk1 : kind k 1
                  · have := (hst.2.2.2.1 hk1 hkw).1
                    have hds : PipeNF.dataSlot k = 0 ∨ PipeNF.dataSlot k = 2 := by
                      unfold PipeNF.dataSlot; split <;> simp
                    omega
                  · rfl
                  · have := (hst.2.1 hk1).1
                    exfalso
                    unfold PipeNF.biasSlot at this
                    split at this
                    · cases this
                    · split at this <;> cases this
                  · have := hst.2.2.2.2.1 hk1 hkw
                    cases this
                rw [hkk] at hrow
                simp only [floatRow, beq_iff_eq] at hrow
                exact slot_dtype sg sW tw (hv.imp id (·.1)) htw _ hrow
              rw [materializeOp] at h
              have hF : (Tables.algFloatCasting == Tables.algFloatCasting) = true := by decide
              rw [if_pos hF] at h
              split at h
              · obtain ⟨r0, hr', h⟩ := GraphInv.bind_ok _ _ _ h
                simp only [pure, Except.pure, Except.ok.injEq, Prod.mk.injEq] at h
                obtain ⟨rfl, -⟩ := h
                exact floatCastOp_rf env sg _ _ _ _ r0 hw32 hr'
              · split at h
                · obtain ⟨r0, hr', h⟩ := GraphInv.bind_ok _ _ _ h
                  simp only [pure, Except.pure, Except.ok.injEq, Prod.mk.injEq] at h
                  obtain ⟨rfl, -⟩ := h
                  exact floatCastOp_rf env sg _ _ _ _ r0 hw32 hr'
                · cases h

/-- a retyping consumer side of an entry of the result dictionary -/
def Side (env : Env) (n : String) (c : CO2T) : Prop := ∃ sg ∈ env.model.subgraphs, SideS sg n c

theorem generate_f32 (rx : String → String → Bool) (env : Env) (st : Recipe.State)
    (hwf : WF.modelOK env.model = true) (hfl : FloatModel env.model)
    (init qs : Qsvs) (res : List (String × CReq))
    (hfold : env.model.subgraphs.zipIdx.foldlM (sgStep rx env st) (init, []) = .ok (qs, res)) :
    TypingShape.DSides (fun _ _ => True) (Side env) res := by
  refine TypingShape.generate_sides (fun _ _ => True) (Side env) rx env st init qs res ?_ hfold
  intro s sg hsg q hq qs0 rs qs1 h r hr
  have hm : sg ∈ env.model.subgraphs := List.mem_of_getElem? hsg
  obtain ⟨-, h2⟩ := opReqs_rf rx env st hwf hfl s sg hsg qs0 q hq rs qs1 h r hr
  exact ⟨fun _ _ => trivial, fun cs c hcs hc => ⟨sg, hm, h2 cs c hcs hc⟩⟩

/-! ## graph stage: no instruction on a tensor that is not float32 -/

/-- **every performed instruction acts on a float32 tensor** (float input model) -/
theorem insertion_f32 {rx : String → String → Bool} {env : Env} {st : Recipe.State} {qsvs : Option Qsvs}
    {m' : Model} {res : List (String × CReq)} {tis : List TInsts}
    (S : TypingE2E.Stages rx env st qsvs m' (tblOf res) res tis)
    (hf32 : TypingShape.DSides (fun _ _ => True) (Side env) res)
    (ti : TInsts) (hti : ti ∈ tis) (ins : Inst) (hins : ins ∈ ti.insts) (hx : isInsertion ins.xf = true)
    (p : PId) (hp : ins.param = some p) (sg : Subgraph) (hsg : env.model.subgraphs[ti.sg]? = some sg) :
    ∃ (i : Nat) (tn : Tensor), ins.tensor = (i : Int) ∧ sg.tensors[i]? = some tn ∧
      tn.dtype = Tables.ttFloat32 := by
  have C := S.ctx
  obtain ⟨i, tn, e, c, P, h1, h2, h3, h4, -, -⟩ := ParamsGraph.inst_side S ti hti ins hins hx p hp sg hsg
  refine ⟨i, tn, h1, h2, ?_⟩
  apply TypingE2E.f32_loc C.nu ti.sg sg i tn hsg h2
  cases h4 with
  | result hc hcx _ =>
    obtain ⟨sgq, hsgq, hq, -⟩ := (S.typ _ h3).1 c hc
    exact ⟨sgq, hsgq, hq hcx⟩
  | const cs x hcs hc hcx hxr _ _ =>
    obtain ⟨sg2, hsg2, hq⟩ := (hf32 _ h3).2 cs c hcs hc
    refine ⟨sg2, hsg2, hq ?_⟩
    cases x <;> simp_all [retypes]
  | inserted cs hcs hc hcx _ _ =>
    obtain ⟨sgq, hsgq, hq, -⟩ := (S.typ _ h3).2 cs c hcs hc
    obtain ⟨t, ht, hn, hf, -⟩ := hq hcx
    exact ⟨sgq, hsgq, t, ht, hn, hf⟩

/-- **an operand slot that held a tensor that is not float32**: the operator of the output reads the same
    tensor, with its original record -/
theorem nonf32_slot (rx : String → String → Bool) (env : Env) (st : Recipe.State)
    (qsvs : Option Qsvs) (m' : Model) (tbl : List Param) (hnf : PipelineWF.NF env st)
    (h : quantizePure rx env st qsvs = .ok (m', tbl)) (hfl : FloatModel env.model)
    (s : Nat) (sg sg' : Subgraph) (hsg : env.model.subgraphs[s]? = some sg) (hsg' : m'.subgraphs[s]? = some sg')
    (k : Nat) (op : Op) (hop : sg.ops[k]? = some op) (j : Nat) (t : Int) (hj : op.inputs[j]? = some t)
    (h0 : 0 ≤ t) (tn : Tensor) (htn : sg.tensors[t.toNat]? = some tn) (hd : tn.dtype ≠ Tables.ttFloat32)
    (o' : Op) (ho' : o' ∈ sg'.ops) (hk : o'.orig = some k) :
    o'.inputs[j]? = some t ∧ sg'.tensors[t.toNat]? = some tn := by
  obtain ⟨res, tis, S⟩ := TypingE2E.stages rx env st qsvs m' tbl hnf h
  obtain ⟨stF, rfl, F⟩ := TypingGraph.run_fin _ env.model m' tis hnf.wf hnf.tagged S.ok S.cd S.run
  have htbl := S.tbl_eq
  subst htbl
  obtain ⟨qs, hfold⟩ := S.fold
  have hf32 := generate_f32 rx env st hnf.wf hfl _ qs res hfold
  have hcast : ((t.toNat : Nat) : Int) = t := by omega
  -- no instruction on `t`
  have hno : ∀ ti ∈ tis, ti.sg = s → ∀ ins ∈ ti.insts, ins.tensor = t → isInsertion ins.xf = false := by
    intro ti hti hs ins hins hten
    cases hx : isInsertion ins.xf with
    | false => rfl
    | true =>
      exfalso
      obtain ⟨p, pi, ty, hp, -⟩ := F.params ti hti ins hins hx
      obtain ⟨i, tn2, g1, g2, g3⟩ := insertion_f32 S hf32 ti hti ins hins hx p hp sg (by rw [hs]; exact hsg)
      have : i = t.toNat := by omega
      subst this
      rw [htn] at g2
      cases g2
      exact hd g3
  obtain ⟨o'', m1, m2, m3, -, -, -, -, m8⟩ :=
    TypingGraph.orig_op_final _ env.model tis stF F hnf.tagged s sg sg' hsg hsg' k op hop
  have : o' = o'' := m3 o' ho' hk
  subst this
  refine ⟨(m8 j t hj).1 ?_, ?_⟩
  · rintro ⟨ti, hti, ins, hins, hs, ht, hadd, -⟩
    have := hno ti hti hs ins hins ht
    rw [Wiring.addsOp_insertion _ hadd] at this
    cases this
  · obtain ⟨tn', q1, -, -, -, q5, -⟩ := TypingGraph.tensor_final _ env.model tis stF F s sg sg' hsg hsg' _ tn htn
    rcases q5 with rfl | ⟨p, ⟨ti, hti, ins, hins, hs, ht, hr, -⟩, -⟩
    · exact q1
    · exfalso
      have := hno ti hti hs ins hins (by rw [ht]; exact hcast)
      rw [Wiring.retypes_insertion _ hr] at this
      cases this

end KernelSig.F32
