import QProofs.MatTotalProd
import QProofs.SharingData
/-!
# No structural raise site of `Mat.generate` under the normal-form hypotheses `MatTotal.Hyp` (C08)
-/
open Graph Mat Arith Cfg Num Nd Pipe PipeNF GraphStep GenInstsOK

set_option autoImplicit false

namespace MatTotal

/-! ## the entries of the operator list -/

def inEntry (sg : Subgraph) : Op × Option String × Int :=
  (({ code := 0, inputs := [], outputs := sg.inputs } : Op), some "INPUT", (-1 : Int))
def outEntry (sg : Subgraph) : Op × Option String × Int :=
  (({ code := 0, inputs := sg.outputs, outputs := [] } : Op), some "OUTPUT", (-1 : Int))

theorem allOps_eq (sg : Subgraph) :
    allOps sg = (sg.ops.zipIdx.map fun (q : Op × Nat) => (q.1, (none : Option String), (q.2 : Int))) ++ [inEntry sg, outEntry sg] := rfl

theorem mem_allOps (sg : Subgraph) (q : Op × Option String × Int) (h : q ∈ allOps sg) :
    (∃ (j : Nat) (op : Op), sg.ops[j]? = some op ∧ q = (op, none, (j : Int))) ∨ q = inEntry sg ∨ q = outEntry sg := by
  rw [allOps_eq, List.mem_append] at h
  rcases h with h | h
  · obtain ⟨p, hp, rfl⟩ := List.mem_map.1 h
    exact .inl ⟨p.2, p.1, List.mem_zipIdx_iff_getElem?.1 hp, rfl⟩
  · simp only [List.mem_cons, List.mem_nil_iff, or_false] at h
    exact .inr h

theorem mem_flatOps (m : Model) (x : (Subgraph × Nat) × (Op × Option String × Int)) (h : x ∈ flatOps m) :
    m.subgraphs[x.1.2]? = some x.1.1 ∧ x.2 ∈ allOps x.1.1 := by
  unfold flatOps at h
  obtain ⟨p, hp, hx⟩ := List.mem_flatMap.1 h
  obtain ⟨q, hq, rfl⟩ := List.mem_map.1 hx
  exact ⟨List.mem_zipIdx_iff_getElem?.1 hp, hq⟩

/-- slots of an entry are valid -/
theorem entry_valid (m : Model) (sg : Subgraph) (hS : SgOK m sg) (q : Op × Option String × Int) (h : q ∈ allOps sg) :
    SlotsValid sg q.1.inputs ∧ SlotsValid sg q.1.outputs := by
  rcases mem_allOps sg q h with ⟨j, op, hop, rfl⟩ | rfl | rfl
  · have hO := hS.ops j op hop
    refine ⟨fun a ha => ?_, fun a ha => ?_⟩
    · rcases hO.ins a ha with h | h
      · exact .inl h
      · exact .inr h.1
    · rcases hO.outs a ha with h | h
      · exact .inl h
      · exact .inr h.1
  · exact ⟨fun a ha => (by cases ha), fun a ha => Or.inr (hS.ins a ha)⟩
  · exact ⟨fun a ha => Or.inr (hS.outs a ha), fun a ha => (by cases ha)⟩

/-! ## result names of the entries: distinct within an entry, disjoint across entries -/

theorem nameAt_some (sg : Subgraph) (a : Int) (n : String) (h : nameAt sg a = some n) :
    ∃ t, tensorAt sg a = .ok t ∧ t.name = n := by
  unfold nameAt at h
  cases ht : tensorAt sg a with
  | error e => rw [ht] at h; cases h
  | ok t => rw [ht] at h; cases h; exact ⟨t, rfl, rfl⟩

theorem mem_outNames (sg : Subgraph) (op : Op) (n : String) (h : n ∈ outNames sg op) :
    ∃ a ∈ op.outputs, a ≠ -1 ∧ ∃ t, tensorAt sg a = .ok t ∧ t.name = n := by
  unfold outNames at h
  obtain ⟨a, ha, hn⟩ := List.mem_filterMap.1 h
  obtain ⟨ha1, ha2⟩ := List.mem_filter.1 ha
  exact ⟨a, ha1, by simpa using ha2, nameAt_some sg a n hn⟩

/-- valid slots with one name are one slot -/
theorem slot_of_name (sg : Subgraph) (hn : (sg.tensors.map (·.name)).Nodup) (a b : Int) (ta tb : Tensor)
    (ha : ValidT sg a) (hb : ValidT sg b) (hta : tensorAt sg a = .ok ta) (htb : tensorAt sg b = .ok tb)
    (h : ta.name = tb.name) : a = b := by
  obtain ⟨h1, h2⟩ := tensorAt_valid sg a ta ha hta
  obtain ⟨h3, h4⟩ := tensorAt_valid sg b tb hb htb
  have := name_inj sg hn _ _ ta tb h1 h3 h
  omega

theorem nodup_filterMap_mem {α β} (f : α → Option β) : ∀ (l : List α),
    (∀ a ∈ l, ∀ a' ∈ l, ∀ b, f a = some b → f a' = some b → a = a') → l.Nodup → (l.filterMap f).Nodup := by
  intro l
  induction l with
  | nil => intro _ _; exact List.nodup_nil
  | cons x xs ih =>
    intro h hnd
    rw [List.nodup_cons] at hnd
    have ih' := ih (fun a ha a' ha' => h a (List.mem_cons_of_mem _ ha) a' (List.mem_cons_of_mem _ ha')) hnd.2
    rw [List.filterMap_cons]
    cases hx : f x with
    | none => exact ih'
    | some b =>
      refine List.nodup_cons.2 ⟨?_, ih'⟩
      intro hb
      obtain ⟨a, ha, hfa⟩ := List.mem_filterMap.1 hb
      have := h x List.mem_cons_self a (List.mem_cons_of_mem _ ha) b hx hfa
      exact hnd.1 (this ▸ ha)

theorem outNames_nodup (sg : Subgraph) (hn : (sg.tensors.map (·.name)).Nodup) (op : Op)
    (hv : SlotsValid sg op.outputs) (hnd : (op.outputs.filter (· != -1)).Nodup) : (outNames sg op).Nodup := by
  unfold outNames
  refine nodup_filterMap_mem _ _ ?_ hnd
  intro a ha a' ha' n h1 h2
  obtain ⟨ha1, ha2⟩ := List.mem_filter.1 ha
  obtain ⟨hb1, hb2⟩ := List.mem_filter.1 ha'
  obtain ⟨t, ht, htn⟩ := nameAt_some sg a n h1
  obtain ⟨t', ht', htn'⟩ := nameAt_some sg a' n h2
  have va : ValidT sg a := (hv a ha1).resolve_left (by simpa using ha2)
  have vb : ValidT sg a' := (hv a' hb1).resolve_left (by simpa using hb2)
  exact slot_of_name sg hn a a' t t' va vb ht ht' (htn.trans htn'.symm)


/-- two entries have no result name in common -/
def NoCommonOut (x' x : (Subgraph × Nat) × (Op × Option String × Int)) : Prop :=
  ∀ n, n ∈ outNames x'.1.1 x'.2.1 → n ∉ outNames x.1.1 x.2.1

/-- two entries of one subgraph have no result slot in common -/
def NoCommonSlot (q' q : Op × Option String × Int) : Prop := ∀ a, a ≠ -1 → a ∈ q'.1.outputs → a ∉ q.1.outputs

theorem noCommonOut_of_slot (sg : Subgraph) (hn : (sg.tensors.map (·.name)).Nodup) (p : Subgraph × Nat) (hp : p.1 = sg)
    (q' q : Op × Option String × Int) (hv' : SlotsValid sg q'.1.outputs) (hv : SlotsValid sg q.1.outputs)
    (h : NoCommonSlot q' q) : NoCommonOut (p, q') (p, q) := by
  intro n h1 h2
  simp only [hp] at h1 h2
  obtain ⟨a, ha, hane, t, hat, htn⟩ := mem_outNames sg _ n h1
  obtain ⟨b, hb, hbne, t', hbt, htn'⟩ := mem_outNames sg _ n h2
  have va : ValidT sg a := (hv' a ha).resolve_left hane
  have vb : ValidT sg b := (hv b hb).resolve_left hbne
  have := slot_of_name sg hn a b t t' va vb hat hbt (htn.trans htn'.symm)
  subst this
  exact h a hane ha hb

theorem allOps_pairwise (m : Model) (sg : Subgraph) (hS : SgOK m sg) : (allOps sg).Pairwise NoCommonSlot := by
  rw [allOps_eq, List.pairwise_append]
  refine ⟨?_, ?_, ?_⟩
  · rw [List.pairwise_iff_getElem]
    intro i j hi hj hij
    simp only [List.length_map, List.length_zipIdx] at hi hj
    simp only [List.getElem_map, List.getElem_zipIdx, Nat.zero_add]
    intro a hane ha hb
    have hO := hS.ops j sg.ops[j] (List.getElem?_eq_getElem hj)
    rcases hO.outs a hb with h | h
    · exact hane h
    · exact h.2.2.2 ⟨i, sg.ops[i], hij, List.getElem?_eq_getElem hi, ha⟩
  · refine List.pairwise_cons.2 ⟨?_, List.pairwise_singleton _ _⟩
    intro q hq
    simp only [List.mem_singleton] at hq
    subst hq
    intro a _ _ hb
    cases hb
  · intro q' hq' q hq
    obtain ⟨pp, hpp, rfl⟩ := List.mem_map.1 hq'
    have hop := List.mem_zipIdx_iff_getElem?.1 hpp
    simp only [List.mem_cons, List.mem_nil_iff, or_false] at hq
    intro a hane ha hb
    rcases hq with rfl | rfl
    · have hO := hS.ops pp.2 pp.1 (by simpa using hop)
      rcases hO.outs a ha with h | h
      · exact hane h
      · exact h.2.1 hb
    · cases hb

theorem flatOps_pairwise (m : Model) (hwf : WF.modelOK m = true) (hnu : namesUnique m) :
    (flatOps m).Pairwise NoCommonOut := by
  have hSg := ((modelOK_iff m).1 hwf).2.1
  unfold flatOps
  rw [List.pairwise_flatMap]
  refine ⟨?_, ?_⟩
  · intro p hp
    have hpm : p.1 ∈ m.subgraphs := List.mem_of_getElem? (List.mem_zipIdx_iff_getElem?.1 hp)
    have hS := hSg p.1 hpm
    rw [List.pairwise_map]
    refine (allOps_pairwise m p.1 hS).imp_of_mem ?_
    intro q' q hq' hq h
    exact noCommonOut_of_slot p.1 hS.names p rfl q' q (entry_valid m p.1 hS q' hq').2 (entry_valid m p.1 hS q hq).2 h
  · unfold namesUnique at hnu
    obtain ⟨_, hpw⟩ := List.nodup_flatMap.1 hnu
    have : (m.subgraphs.zipIdx.map (·.1)).Pairwise
        (fun a b => Function.onFun List.Disjoint (fun sg => sg.tensors.map (·.name)) a b) := by
      rw [List.zipIdx_map_fst]; exact hpw
    rw [List.pairwise_map] at this
    refine this.imp ?_
    intro p' p hdis x' hx' x hx n h1 h2
    obtain ⟨q', _, rfl⟩ := List.mem_map.1 hx'
    obtain ⟨q, _, rfl⟩ := List.mem_map.1 hx
    obtain ⟨a, _, _, t, hat, htn⟩ := mem_outNames _ _ n h1
    obtain ⟨b, _, _, t', hbt, htn'⟩ := mem_outNames _ _ n h2
    exact hdis (List.mem_map.2 ⟨t, Locality.tensorAt_mem _ a t hat, htn⟩) (List.mem_map.2 ⟨t', Locality.tensorAt_mem _ b t' hbt, htn'⟩)

/-- the result names of the entries walked so far -/
def producedBy (pre : List ((Subgraph × Nat) × (Op × Option String × Int))) : List String :=
  pre.flatMap fun x => outNames x.1.1 x.2.1

theorem fresh_outNames (m : Model) (hwf : WF.modelOK m = true) (hnu : namesUnique m)
    (pre post : List ((Subgraph × Nat) × (Op × Option String × Int))) (x : (Subgraph × Nat) × (Op × Option String × Int))
    (hl : flatOps m = pre ++ x :: post) (n : String) (h1 : n ∈ producedBy pre) : n ∉ outNames x.1.1 x.2.1 := by
  obtain ⟨x', hx', hn'⟩ := List.mem_flatMap.1 h1
  have hpw := flatOps_pairwise m hwf hnu
  rw [hl, List.pairwise_append] at hpw
  exact hpw.2.2 x' hx' x List.mem_cons_self n hn'


/-! ## the hypotheses -/

/-- a convolution-like operator (data at `iIn`, weight at `iW`, optional bias at `iB`) -/
structure ConvShape (env : Env) (sg : Subgraph) (op : Op) (cfg : OpCfg) (iIn iW iB : Nat) : Prop where
  /-- the operands before the bias position are there -/
  mandatory : ∀ i < iB, ∃ a, op.inputs[i]? = some a ∧ a ≠ -1
  /-- data and weight are float32 -/
  float : ∀ i a t, (i = iIn ∨ i = iW) → op.inputs[i]? = some a → tensorAt sg a = .ok t → t.dtype = Tables.ttFloat32
  /-- under static-range quantization a bias is a constant -/
  biasConst : isSRQ cfg = true → ∀ a bt, op.inputs[iB]? = some a → a ≠ -1 → tensorAt sg a = .ok bt →
    constData env bt ≠ none

/-- a float-cast operator -/
structure CastShape (env : Env) (sg : Subgraph) (op : Op) (iIn iW iB : Nat) : Prop where
  /-- data operand, weight operand and (first) result exist -/
  dataSlot : ∃ a, op.inputs[iIn]? = some a
  weightSlot : ∃ a, op.inputs[iW]? = some a
  out : ∃ a, op.outputs[0]? = some a ∧ a ≠ -1
  /-- the weight is a constant -/
  weightConst : ∀ a tw, op.inputs[iW]? = some a → tensorAt sg a = .ok tw → constData env tw ≠ none

/-- what the materialize function of kind `k` expects of the operator's shape -/
def OpShape (env : Env) (sg : Subgraph) (op : Op) (cfg : OpCfg) : Kind → Prop
  | .std .sameAsInput gi => ∀ inT outT, FloatSlots sg op.inputs gi inT → FloatSlots sg op.outputs [] outT →
      (inT = [] ∧ outT = []) ∨ inT.length = 1
  | .std .sameAsOutput gi => ∀ inT outT, FloatSlots sg op.inputs gi inT → FloatSlots sg op.outputs [] outT →
      (inT = [] ∧ outT = []) ∨ outT.length = 1
  | .std .none _ => True
  | .conv => ConvShape env sg op cfg 0 1 2
  | .convT => ConvShape env sg op cfg 2 1 3
  | .fixed _ => op.outputs.length = 1 ∧ ∀ a t, a ∈ op.outputs → a ≠ -1 → tensorAt sg a = .ok t → t.dtype = Tables.ttFloat32
  | .cast a b c => CastShape env sg op a b c
  | .unknown => True

def Kind.isPass : Kind → Bool
  | .std .sameAsInput _ => true
  | _ => false

/-- what recipe resolution selects for the entry `q` of subgraph `sg` -/
structure Selected (rx : String → String → Bool) (env : Env) (st : Recipe.State) (sg : Subgraph)
    (q : Op × Option String × Int) (k scope : String) (ops : List (String × String)) (fn : String) : Prop where
  hkey : keyOf env q = .ok (some k)
  hscope : opScope sg q.1 = .ok scope
  halg : (Recipe.resolve rx st k scope).1 ≠ Tables.algNoQuantize
  hops : Py.dictGet? Tables.registry (Recipe.resolve rx st k scope).1 = some ops
  hfn : Py.dictGet? ops k = some fn

/-- **statistics are complete**: for every selected operator that quantizes activations, every float32
    runtime tensor it reads or writes -- and the data operand of a same-as-input operator even when it is
    a constant -- has a non-empty statistics entry -/
def StatsComplete (rx : String → String → Bool) (env : Env) (st : Recipe.State) (qs : Qsvs) : Prop :=
  ∀ sg ∈ env.model.subgraphs, ∀ q ∈ allOps sg, ∀ k scope ops fn, Selected rx env st sg q k scope ops fn →
    (Recipe.resolve rx st k scope).2.act.isSome = true →
    ∀ a ∈ q.1.inputs ++ q.1.outputs, a ≠ -1 → ∀ t, tensorAt sg a = .ok t → t.dtype = Tables.ttFloat32 →
      (constData env t = none ∨ (kindOf (Recipe.resolve rx st k scope).1 fn).isPass = true) → Present qs t.name

/-- **hypotheses of the totality theorem** -/
structure Hyp (rx : String → String → Bool) (env : Env) (st : Recipe.State) (qsvs : Option Qsvs) : Prop where
  nf : PipelineWF.NF env st
  /-- the model is float -/
  float : (env.model.subgraphs.any fun sg => sg.tensors.any (·.quant.isSome)) = false
  names : namesUnique env.model
  /-- statistics are given when the recipe needs them -/
  statsGiven : Recipe.needCalibration st = true → qsvs.isSome = true
  /-- no rule opts out of the policy check -/
  noSkip : NoSkip st
  /-- a graph input is listed once -/
  inputsNodup : ∀ sg ∈ env.model.subgraphs, sg.inputs.Nodup
  tensorsNE : ∀ sg ∈ env.model.subgraphs, sg.tensors ≠ []
  /-- constants are not empty -/
  constNE : ∀ sg ∈ env.model.subgraphs, ∀ t ∈ sg.tensors, ∀ d, constData env t = some d → d.data ≠ []
  stats : StatsComplete rx env st (qsvs.getD [])
  /-- the operators have the shape their materialize functions expect -/
  shape : ∀ sg ∈ env.model.subgraphs, ∀ (j : Nat) (op : Op), sg.ops[j]? = some op → ∀ k scope ops fn,
    Selected rx env st sg (op, none, (j : Int)) k scope ops fn →
    OpShape env sg op (Recipe.resolve rx st k scope).2 (kindOf (Recipe.resolve rx st k scope).1 fn)

/-! ## the context of one selected entry -/

theorem srq_of_mode (k : String) (c : OpCfg) (h : C13.modeOK k c = true) (hw : weightOp k = false) : isSRQ c = true := by
  obtain ⟨w, _, _, _, hmodes⟩ := modeOK_facts _ _ h
  unfold weightOp at hw
  simp only [Bool.or_eq_false_iff] at hw
  rcases hmodes with ⟨hcp, a, ha, _, _⟩ | ⟨_, _, hd⟩ | ⟨_, _, hd, _⟩
  · unfold isSRQ; rw [hcp, ha]; rfl
  · rw [hw.2] at hd; cases hd
  · rw [hw.1] at hd; cases hd

theorem present_applyW (iq : FArr × FArr) (w : List String) : ∀ (qs : Qsvs) (n : String), Present qs n →
    Present (Locality.applyW (w.map fun o => (o, some iq)) qs) n := by
  induction w with
  | nil => intro qs n h; exact h
  | cons o w ih =>
    intro qs n h
    refine ih _ n ?_
    unfold Present
    rw [CalibProofs.dictGet?_dictSet]
    split
    · exact ⟨iq, rfl⟩
    · exact h

theorem present_dictSet (qs : Qsvs) (k : String) (mm : FArr × FArr) (n : String) (h : Present qs n) :
    Present (Py.dictSet qs k (some mm)) n := by
  unfold Present
  rw [CalibProofs.dictGet?_dictSet]
  split
  · exact ⟨mm, rfl⟩
  · exact h

/-- **the context facts of one selected entry**, at any statistics that extend the given ones -/
theorem entry_ctx (rx : String → String → Bool) (env : Env) (st : Recipe.State) (qsvs : Option Qsvs)
    (H : Hyp rx env st qsvs) (sg : Subgraph) (hsg : sg ∈ env.model.subgraphs) (sIdx : Nat)
    (q : Op × Option String × Int) (hq : q ∈ allOps sg) (k scope fn : String) (ops : List (String × String))
    (S : Selected rx env st sg q k scope ops fn) (qs : Qsvs)
    (hQ : ∀ n, Present (qsvs.getD []) n → Present qs n) :
    KindCtx env sg qs
      { sgIdx := sIdx, op := q.1, opName := k, opId := q.2.2, cfg := (Recipe.resolve rx st k scope).2 }
      (kindOf (Recipe.resolve rx st k scope).1 fn) := by
  have hS : SgOK env.model sg := ((modelOK_iff _).1 H.nf.wf).2.1 sg hsg
  obtain ⟨hvI, hvO⟩ := entry_valid env.model sg hS q hq
  obtain ⟨hgood, _⟩ := resolve_selected rx st H.noSkip k scope S.halg
  obtain ⟨hspec, hpseudo⟩ := kindSpec_of_registry _ k fn ops S.hops S.hfn
  -- the shape facts, for a real operator
  have hshape : (∃ (j : Nat) (op : Op), sg.ops[j]? = some op ∧ q = (op, none, (j : Int))) →
      OpShape env sg q.1 (Recipe.resolve rx st k scope).2 (kindOf (Recipe.resolve rx st k scope).1 fn) := by
    rintro ⟨j, op, hop, rfl⟩
    exact H.shape sg hsg j op hop k scope ops fn S
  have hreal : (kindOf (Recipe.resolve rx st k scope).1 fn).isStdNone = false →
      ∃ (j : Nat) (op : Op), sg.ops[j]? = some op ∧ q = (op, none, (j : Int)) := by
    intro hk
    rcases mem_allOps sg q hq with h | rfl | rfl
    · exact h
    · have : k = "INPUT" := by
        have := S.hkey; simp only [keyOf, inEntry, pure, Except.pure, Except.ok.injEq, Option.some.injEq] at this
        exact this.symm
      rw [hpseudo (.inl this)] at hk; cases hk
    · have : k = "OUTPUT" := by
        have := S.hkey; simp only [keyOf, outEntry, pure, Except.pure, Except.ok.injEq, Option.some.injEq] at this
        exact this.symm
      rw [hpseudo (.inr this)] at hk; cases hk
  -- statistics of the tensors of this entry
  have hstats : (Recipe.resolve rx st k scope).2.act.isSome = true → ∀ (b : Bool) (gi : List Nat) (t : Tensor),
      SlotTensor sg q.1 b gi t →
      (constData env t = none ∨ (kindOf (Recipe.resolve rx st k scope).1 fn).isPass = true) → Present qs t.name := by
    intro hact b gi t ⟨i, a, hia, hane, hat, hf, _⟩ hc
    refine hQ _ (H.stats sg hsg q hq k scope ops fn S hact a ?_ hane t hat hf hc)
    cases b
    · exact List.mem_append_right _ (List.mem_of_getElem? hia)
    · exact List.mem_append_left _ (List.mem_of_getElem? hia)
  have stdctx : ∀ con gi, (Recipe.resolve rx st k scope).1 = Tables.algMinMax →
      (con = .sameAsInput → ∀ inT outT, FloatSlots sg q.1.inputs gi inT → FloatSlots sg q.1.outputs [] outT →
        (inT = [] ∧ outT = []) ∨ (inT.length = 1 ∧ ∀ t ∈ inT, Present qs t.name)) →
      (con = .sameAsOutput → ∀ inT outT, FloatSlots sg q.1.inputs gi inT → FloatSlots sg q.1.outputs [] outT →
        (inT = [] ∧ outT = []) ∨ outT.length = 1) →
      StdCtx env sg qs
        { sgIdx := sIdx, op := q.1, opName := k, opId := q.2.2, cfg := (Recipe.resolve rx st k scope).2 } con gi [] :=
    fun con gi halg h1 h2 =>
    { validIn := hvI, validOut := hvO, tensors := H.tensorsNE sg hsg, mode := hgood.minmax halg
      stats := fun hact b t hst hc => hstats hact b _ t hst (.inl hc)
      constNE := H.constNE sg hsg, arityIn := h1, arityOut := h2 }
  cases hk : kindOf (Recipe.resolve rx st k scope).1 fn with
  | unknown =>
    obtain ⟨_, ops', fn', ho, hf, hu⟩ := resolve_selected rx st H.noSkip k scope S.halg
    rw [S.hops] at ho; cases ho
    rw [S.hfn] at hf; cases hf
    rw [hk] at hu; cases hu
  | std con gi =>
    rw [hk] at hspec hshape hreal hstats
    simp only [kindSpec, Bool.and_eq_true, beq_iff_eq, Bool.or_eq_true, Bool.not_eq_true'] at hspec
    obtain ⟨halg, hcon⟩ := hspec
    refine stdctx con gi halg ?_ ?_
    · rintro rfl inT outT hI hO
      have hw : weightOp k = false := by
        rcases hcon with h | h
        · cases h
        · exact h
      have hsrq := srq_of_mode k _ (hgood.minmax halg) hw
      have hact : (Recipe.resolve rx st k scope).2.act.isSome = true := by
        unfold isSRQ at hsrq; simp only [Bool.and_eq_true] at hsrq; exact hsrq.2
      rcases hshape (hreal rfl) inT outT hI hO with h | h
      · exact .inl h
      · refine .inr ⟨h, fun t ht => ?_⟩
        exact hstats hact true gi t (floatSlots_mem sg q.1 true gi inT hI t ht) (.inr rfl)
    · rintro rfl inT outT hI hO
      exact hshape (hreal rfl) inT outT hI hO
  | conv =>
    rw [hk] at hspec hshape hreal
    simp only [kindSpec, Bool.and_eq_true, beq_iff_eq] at hspec
    have hsh := hshape (hreal rfl)
    refine ⟨stdctx .none [2] hspec.1 (fun h => by cases h) (fun h => by cases h), ?_⟩
    exact { validIn := hvI, validOut := hvO, tensors := H.tensorsNE sg hsg, mode := hgood.minmax hspec.1
            lt := by decide, notGiven := by decide, mandatory := hsh.mandatory, float := hsh.float
            biasConst := hsh.biasConst, weightOp := hspec.2 }
  | convT =>
    rw [hk] at hspec hshape hreal
    simp only [kindSpec, Bool.and_eq_true, beq_iff_eq] at hspec
    have hsh := hshape (hreal rfl)
    refine ⟨stdctx .none [0, 3] hspec.1 (fun h => by cases h) (fun h => by cases h), ?_⟩
    exact { validIn := hvI, validOut := hvO, tensors := H.tensorsNE sg hsg, mode := hgood.minmax hspec.1
            lt := by decide, notGiven := by decide, mandatory := hsh.mandatory, float := hsh.float
            biasConst := hsh.biasConst, weightOp := hspec.2 }
  | fixed sl =>
    rw [hk] at hspec hshape hreal
    simp only [kindSpec, Bool.and_eq_true, beq_iff_eq, Bool.not_eq_true'] at hspec
    obtain ⟨j, op, hop, rfl⟩ := hreal rfl
    have hsh := hshape ⟨j, op, hop, rfl⟩
    refine { std := stdctx .none [] hspec.1 (fun h => by cases h) (fun h => by cases h)
             outputs := hsh.1, srq := srq_of_mode k _ (hgood.minmax hspec.1) hspec.2, outFloat := ?_ }
    intro a t ha hane hat
    refine ⟨hsh.2 a t ha hane hat, ?_⟩
    have hO := hS.ops j op hop
    rcases hO.outs a ha with h | h
    · exact absurd h hane
    · obtain ⟨h1, h2⟩ := tensorAt_valid sg a t h.1 hat
      have := constData_isSome env sg a.toNat t h1
      rw [h2, h.2.2.1] at this
      cases hc : constData env t with
      | none => rfl
      | some d => rw [hc] at this; cases this
  | cast a b c =>
    rw [hk] at hspec hshape hreal
    have hsh := hshape (hreal rfl)
    exact { validIn := hvI, validOut := hvO, tensors := H.tensorsNE sg hsg, dataSlot := hsh.dataSlot
            weightSlot := hsh.weightSlot, out := hsh.out, weightConst := hsh.weightConst }


/-! ## one step of the walk -/

theorem opReqs_ok_cases (rx : String → String → Bool) (env : Env) (st : Recipe.State) (sIdx : Nat) (sg : Subgraph)
    (qs : Qsvs) (q : Op × Option String × Int) (rs : List CReq) (qs' : Qsvs)
    (h : opReqs rx env st sIdx sg qs q = .ok (rs, qs')) :
    (noQuantOp sg q.1 q.2.2 = .ok rs ∧ qs' = qs) ∨
    ∃ k scope ops fn, Selected rx env st sg q k scope ops fn ∧
      runKind env sg qs
        { sgIdx := sIdx, op := q.1, opName := k, opId := q.2.2, cfg := (Recipe.resolve rx st k scope).2 }
        (kindOf (Recipe.resolve rx st k scope).1 fn) = .ok (rs, qs') := by
  have nq : ∀ (x : PyM (List CReq × Qsvs)),
      x = (match noQuantOp sg q.1 q.2.2 with | .error e => .error e | .ok r => .ok (r, qs)) → x = .ok (rs, qs') →
      noQuantOp sg q.1 q.2.2 = .ok rs ∧ qs' = qs := by
    intro x hx h
    rw [hx] at h
    cases hn : noQuantOp sg q.1 q.2.2 with
    | error e => rw [hn] at h; cases h
    | ok r =>
      rw [hn] at h
      simp only [Except.ok.injEq, Prod.mk.injEq] at h
      exact ⟨by rw [h.1], h.2.symm⟩
  unfold opReqs at h
  cases hk : keyOf env q with
  | error e => rw [hk] at h; cases h
  | ok key =>
    rw [hk] at h
    cases key with
    | none => exact .inl (nq _ rfl h)
    | some k =>
      simp only [] at h
      cases hs : opScope sg q.1 with
      | error e => rw [hs] at h; cases h
      | ok scope =>
        rw [hs] at h
        simp only [] at h
        by_cases hne : ((Recipe.resolve rx st k scope).1 == Tables.algNoQuantize) = true
        · rw [if_pos hne] at h
          exact .inl (nq _ rfl h)
        · rw [if_neg hne] at h
          have hne' : (Recipe.resolve rx st k scope).1 ≠ Tables.algNoQuantize := by
            intro hh; exact hne (by rw [hh]; exact beq_self_eq_true _)
          cases hr : Py.dictGet? Tables.registry (Recipe.resolve rx st k scope).1 with
          | none => rw [hr] at h; cases h
          | some ops =>
            rw [hr] at h
            simp only [] at h
            cases hf : Py.dictGet? ops k with
            | none => rw [hf] at h; cases h
            | some fn =>
              rw [hf] at h
              simp only [] at h
              rw [materializeOp_kind] at h
              exact .inr ⟨k, scope, ops, fn, ⟨hk, hs, hne', hr, hf⟩, h⟩

/-- the statistics only grow along a step -/
theorem opReqs_present (rx : String → String → Bool) (env : Env) (st : Recipe.State) (qsvs : Option Qsvs)
    (H : Hyp rx env st qsvs) (sg : Subgraph) (hsg : sg ∈ env.model.subgraphs) (sIdx : Nat)
    (q : Op × Option String × Int) (hq : q ∈ allOps sg) (qs : Qsvs) (rs : List CReq) (qs' : Qsvs)
    (hQ : ∀ n, Present (qsvs.getD []) n → Present qs n)
    (h : opReqs rx env st sIdx sg qs q = .ok (rs, qs')) : ∀ n, Present qs n → Present qs' n := by
  rcases opReqs_ok_cases rx env st sIdx sg qs q rs qs' h with ⟨_, rfl⟩ | ⟨k, scope, ops, fn, S, hrun⟩
  · exact fun n h => h
  have C := entry_ctx rx env st qsvs H sg hsg sIdx q hq k scope fn ops S qs hQ
  have hstd : ∀ (oi : OpInfo) con gi r q', StdCtx env sg qs oi con gi [] → standardOp env sg qs oi con gi [] = .ok (r, q') →
      ∀ n, Present qs n → Present q' n := by
    intro oi con gi r q' Cs hs n hn
    rcases standardOp_qs env sg qs oi con gi [] r q' hs with rfl | ⟨hc, t, iq, outT, hI, hO, hiq, rfl⟩
    · exact hn
    · rcases Cs.arityIn hc [t] outT hI hO with hh | hh
      · cases hh.1
      · obtain ⟨mm, hmm⟩ := hh.2 t List.mem_cons_self
        rw [hiq] at hmm
        cases hmm
        have := present_applyW mm (outT.map (·.name)) qs n hn
        rw [List.map_map] at this
        exact this
  cases hk : kindOf (Recipe.resolve rx st k scope).1 fn with
  | unknown => rw [hk] at hrun; cases hrun
  | std con gi =>
    rw [hk] at hrun C
    exact hstd _ con gi rs qs' C hrun
  | conv =>
    rw [hk] at hrun C
    simp only [runKind] at hrun
    obtain ⟨⟨r, q'⟩, hs, hrun⟩ := GraphInv.bind_ok _ _ _ hrun
    obtain ⟨r', _, hrun⟩ := GraphInv.bind_ok _ _ _ hrun
    simp only [pure, Except.pure, Except.ok.injEq, Prod.mk.injEq] at hrun
    rw [← hrun.2]
    exact hstd _ .none [2] r q' C.1 hs
  | convT =>
    rw [hk] at hrun C
    simp only [runKind] at hrun
    obtain ⟨⟨r, q'⟩, hs, hrun⟩ := GraphInv.bind_ok _ _ _ hrun
    split at hrun
    · cases hrun
    · obtain ⟨r', _, hrun⟩ := GraphInv.bind_ok _ _ _ hrun
      simp only [pure, Except.pure, Except.ok.injEq, Prod.mk.injEq] at hrun
      rw [← hrun.2]
      exact hstd _ .none [0, 3] r q' C.1 hs
  | fixed sl =>
    rw [hk] at hrun C
    simp only [runKind] at hrun
    obtain ⟨_, reqs, q', hs, hcase⟩ := MatParams.fixedRangeOp_spec env sg qs _ sl rs qs' hrun
    intro n hn
    have h1 := hstd _ .none [] reqs q' C.std hs n hn
    rcases hcase with ⟨_, rfl, _⟩ | ⟨last, a, pr, fp, mm, _, _, _, _, _, _, rfl⟩
    · exact h1
    · exact present_dictSet q' last.name mm n h1
  | cast a b c =>
    rw [hk] at hrun
    simp only [runKind] at hrun
    obtain ⟨r, _, hrun⟩ := GraphInv.bind_ok _ _ _ hrun
    simp only [pure, Except.pure, Except.ok.injEq, Prod.mk.injEq] at hrun
    rw [← hrun.2]
    exact fun n h => h

/-- the producer requests of an entry are for its results, in slot order -/
theorem opReqs_prodNames (rx : String → String → Bool) (env : Env) (st : Recipe.State) (qsvs : Option Qsvs)
    (H : Hyp rx env st qsvs) (sg : Subgraph) (hsg : sg ∈ env.model.subgraphs) (sIdx : Nat)
    (q : Op × Option String × Int) (hq : q ∈ allOps sg) (qs : Qsvs) (rs : List CReq) (qs' : Qsvs)
    (hQ : ∀ n, Present (qsvs.getD []) n → Present qs n)
    (h : opReqs rx env st sIdx sg qs q = .ok (rs, qs')) : (prodNames rs).Sublist (outNames sg q.1) := by
  rcases opReqs_ok_cases rx env st sIdx sg qs q rs qs' h with ⟨hn, _⟩ | ⟨k, scope, ops, fn, S, hrun⟩
  · rw [noQuantOp_prodNames sg q.1 q.2.2 rs hn]
  · have C := entry_ctx rx env st qsvs H sg hsg sIdx q hq k scope fn ops S qs hQ
    refine runKind_prodNames env sg qs _ _ rs qs' ?_ hrun
    intro a b c hk
    rw [hk] at C
    obtain ⟨x, hx, hne⟩ := C.out
    show q.1.outputs[0]? ≠ some (-1)
    rw [hx]
    intro hh
    cases hh
    exact hne rfl


/-! ## the invariant of the walk -/

structure Inv (qsvs : Option Qsvs) (pre : List ((Subgraph × Nat) × (Op × Option String × Int))) (s : GState) : Prop where
  /-- the statistics only grow -/
  present : ∀ n, Present (qsvs.getD []) n → Present s.1 n
  /-- a producer side comes from an entry walked before -/
  prod : ∀ n, HasProd s.2 n → n ∈ producedBy pre

theorem inv_init (qsvs : Option Qsvs) : Inv qsvs [] (qsvs.getD [], []) :=
  ⟨fun _ h => h, fun n ⟨c, hc, _⟩ => by cases hc⟩

theorem inv_step (rx : String → String → Bool) (env : Env) (st : Recipe.State) (qsvs : Option Qsvs)
    (H : Hyp rx env st qsvs) (pre : List ((Subgraph × Nat) × (Op × Option String × Int)))
    (x : (Subgraph × Nat) × (Op × Option String × Int)) (hx : x ∈ flatOps env.model) (s s' : GState)
    (hI : Inv qsvs pre s) (h : flatStep rx env st s x = .ok s') : Inv qsvs (pre ++ [x]) s' := by
  obtain ⟨hsg, hq⟩ := mem_flatOps env.model x hx
  have hsgm : x.1.1 ∈ env.model.subgraphs := List.mem_of_getElem? hsg
  obtain ⟨rs, hr, hu⟩ := opStep_ok rx env st x.1.2 x.1.1 s s' x.2 h
  refine ⟨fun n hn => opReqs_present rx env st qsvs H x.1.1 hsgm x.1.2 x.2 hq s.1 rs s'.1 hI.present hr n (hI.present n hn), ?_⟩
  intro n hn
  unfold producedBy
  rw [List.flatMap_append, List.mem_append]
  rcases updateResults_hasProd rs s.2 s'.2 hu n hn with h1 | h1
  · exact .inl (hI.prod n h1)
  · refine .inr ?_
    simp only [List.flatMap_cons, List.flatMap_nil, List.append_nil]
    exact (opReqs_prodNames rx env st qsvs H x.1.1 hsgm x.1.2 x.2 hq s.1 rs s'.1 hI.present hr).subset h1

theorem reach_inv_aux (rx : String → String → Bool) (env : Env) (st : Recipe.State) (qsvs : Option Qsvs)
    (H : Hyp rx env st qsvs) : ∀ (l acc : List ((Subgraph × Nat) × (Op × Option String × Int))) (s0 s : GState),
    (∀ x ∈ l, x ∈ flatOps env.model) → Inv qsvs acc s0 → l.foldlM (flatStep rx env st) s0 = .ok s →
    Inv qsvs (acc ++ l) s := by
  intro l
  induction l with
  | nil =>
    intro acc s0 s _ hI h
    simp only [List.foldlM_nil, pure, Except.pure, Except.ok.injEq] at h
    subst h
    rw [List.append_nil]; exact hI
  | cons x xs ih =>
    intro acc s0 s hmem hI h
    rw [List.foldlM_cons] at h
    obtain ⟨s1, h1, h⟩ := GraphInv.bind_ok _ _ _ h
    have := ih (acc ++ [x]) s1 s (fun y hy => hmem y (List.mem_cons_of_mem _ hy))
      (inv_step rx env st qsvs H acc x (hmem x List.mem_cons_self) s0 s1 hI h1) h
    simpa using this

theorem reach_inv (rx : String → String → Bool) (env : Env) (st : Recipe.State) (qsvs : Option Qsvs)
    (H : Hyp rx env st qsvs) (pre post : List ((Subgraph × Nat) × (Op × Option String × Int))) (s : GState)
    (hl : flatOps env.model = pre ++ post) (h : Reach rx env st qsvs pre s) : Inv qsvs pre s := by
  have := reach_inv_aux rx env st qsvs H pre [] (qsvs.getD [], []) s
    (fun x hx => by rw [hl]; exact List.mem_append_left _ hx) (inv_init qsvs) h
  simpa using this

/-! ## no structural site at an entry -/

theorem stepSite_struct_absurd (rx : String → String → Bool) (env : Env) (st : Recipe.State) (qsvs : Option Qsvs)
    (H : Hyp rx env st qsvs) (pre post : List ((Subgraph × Nat) × (Op × Option String × Int)))
    (sg : Subgraph) (sIdx : Nat) (q : Op × Option String × Int) (s : GState) (e : PyErr)
    (hl : flatOps env.model = pre ++ ((sg, sIdx), q) :: post) (hI : Inv qsvs pre s) :
    ¬ StepSite rx env st sIdx sg s.1 s.2 q false e := by
  have hx : ((sg, sIdx), q) ∈ flatOps env.model := by rw [hl]; exact List.mem_append_right _ List.mem_cons_self
  obtain ⟨hsg, hq⟩ := mem_flatOps env.model _ hx
  have hsgm : sg ∈ env.model.subgraphs := List.mem_of_getElem? hsg
  have hS : SgOK env.model sg := ((modelOK_iff _).1 H.nf.wf).2.1 sg hsgm
  obtain ⟨hvI, hvO⟩ := entry_valid env.model sg hS q hq
  intro hsite
  generalize hnum : false = num at hsite
  cases hsite with
  | opcode hio hc =>
    rcases mem_allOps sg q hq with ⟨j, op, hop, rfl⟩ | rfl | rfl
    · have := (hS.ops j op hop).code
      have : env.model.opcodes[op.code]? ≠ none := by
        rw [List.getElem?_eq_getElem this]; exact fun h => by cases h
      exact this hc
    · cases hio
    · cases hio
  | slot e hs => exact slotSite_absurd sg _ e (slotsValid_append hvI hvO) (H.tensorsNE sg hsgm) hs
  | unregistered k scope hk hs hne hnone =>
    obtain ⟨_, ops, fn, ho, hf, _⟩ := resolve_selected rx st H.noSkip k scope hne
    rw [ho] at hnone
    simp only [Option.bind_some] at hnone
    rw [hf] at hnone
    cases hnone
  | op num k scope fn ops e hk hs hne ho hf hop =>
    subst hnum
    exact opSite_struct_absurd env sg s.1 _ _ e
      (entry_ctx rx env st qsvs H sg hsgm sIdx q hq k scope fn ops ⟨hk, hs, hne, ho, hf⟩ s.1 hI.present) hop
  | conflict rs qs' pre' post' r cur mid hr hrs hmid hd hp hc =>
    have hsub := opReqs_prodNames rx env st qsvs H sg hsgm sIdx q hq s.1 rs qs' hI.present hr
    have hnd : (outNames sg q.1).Nodup := by
      refine outNames_nodup sg hS.names q.1 hvO ?_
      rcases mem_allOps sg q hq with ⟨j, op, hop, rfl⟩ | rfl | rfl
      · exact hS.nodupOut op (List.mem_of_getElem? hop)
      · exact (H.inputsNodup sg hsgm).filter _
      · exact List.nodup_nil
    have hrn : r.name ∈ prodNames [r] := by
      simp only [prodNames, List.filter_cons, hp, if_true, List.filter_nil, List.map_cons, List.map_nil, List.mem_singleton]
    rw [hrs] at hsub
    have hsplit : prodNames (pre' ++ r :: post') = prodNames pre' ++ (r.name :: prodNames post') := by
      rw [prodNames_append]
      congr 1
      simp only [prodNames, List.filter_cons, hp, if_true, List.map_cons]
    rw [hsplit] at hsub
    rcases updateResults_hasProd pre' s.2 mid hmid r.name ⟨cur, hd, hc⟩ with h1 | h1
    · have := fresh_outNames env.model H.nf.wf H.names pre post ((sg, sIdx), q) hl r.name (hI.prod _ h1)
      exact this (hsub.subset (List.mem_append_right _ List.mem_cons_self))
    · have hnd' := hsub.nodup hnd
      rw [List.nodup_append] at hnd'
      exact hnd'.2.2 _ h1 _ List.mem_cons_self rfl

end MatTotal
