import QProofs.MatTotalShare
/-!
# `Mat.generate` is total up to the numeric sites (C08)
-/
open Graph Mat Arith Cfg Num Nd Pipe PipeNF GraphStep GenInstsOK SharingGen SharingData

set_option autoImplicit false

namespace MatTotal

/-- the standing facts about the result dictionary of a completed walk -/
theorem ctx_of_core (rx : String → String → Bool) (env : Env) (st : Recipe.State) (qsvs : Option Qsvs)
    (hg : GenHyp env st) (hnu : namesUnique env.model) (s : GState)
    (h : Locality.generateCore rx env st qsvs = .ok s) : Ctx env.model s.2 ∧ ResCD s.2 := by
  unfold Locality.generateCore at h
  have hinv : ResCD s.2 ∧ KeysND s.2 :=
    GraphFrame.foldlM_inv (sgStep rx env st) (fun x : GState => ResCD x.2 ∧ KeysND x.2) _
      (qsvs.getD [], []) s ⟨(by intro e he; cases he), List.nodup_nil⟩
      (fun p _ x x' hx hstep => SharingData.sgStep_inv rx env st x x' p hx hstep) h
  refine ⟨⟨hg.wf, hnu, hg.inputsNotConst, ?_, hinv.2⟩, hinv.1⟩
  have hfoldE := foldlM_inv_idx (sgStep rx env st) _
    (fun (j : Nat) (x : GState) => ∀ e ∈ x.2, EntryOK env.model (WkAt env.model j (fun _ => False)) e.1 e.2)
    (qsvs.getD [], []) s (by intro e he; cases he) ?_ h
  · intro e he
    exact (hfoldE e he).mono (fun _ _ => trivial)
  · intro j p s1 s2 hp hP hstep
    rw [List.getElem?_zipIdx] at hp
    cases hsg : env.model.subgraphs[j]? with
    | none => rw [hsg] at hp; cases hp
    | some sg =>
      rw [hsg] at hp
      simp only [Option.map_some, Nat.zero_add, Option.some.injEq] at hp
      subst hp
      exact Pipe.sgStep_inv rx env st hg hnu j sg hsg s1 s2 hP hstep

/-- **no structural raise site of `generate`** under the normal-form hypotheses -/
theorem genSite_struct_absurd (rx : String → String → Bool) (env : Env) (st : Recipe.State) (qsvs : Option Qsvs)
    (H : Hyp rx env st qsvs) (U : Unshared env.model) (e : PyErr) : ¬ GenSite rx env st qsvs false e := by
  intro hsite
  generalize hnum : false = num at hsite
  cases hsite with
  | notFloat h => rw [H.float] at h; cases h
  | dupNames h => exact h H.names
  | noStats h1 h2 =>
    have := H.statsGiven h1
    rw [h2] at this
    cases this
  | atOp num pre post sg sIdx q s e hl hreach hsite =>
    subst hnum
    exact stepSite_struct_absurd rx env st qsvs H pre post sg sIdx q s e hl
      (reach_inv rx env st qsvs H pre _ s hl hreach) hsite
  | sharing s e hreach hc =>
    have hcore : Locality.generateCore rx env st qsvs = .ok s := by rw [generateCore_flat]; exact hreach
    obtain ⟨C, _⟩ := ctx_of_core rx env st qsvs H.nf.genHyp H.names s hcore
    rw [checkBufferSharing_total C U] at hc
    cases hc
  | unreadOwn s e hreach _ hc =>
    rw [checkUnreadOwn_total s.2 U] at hc
    cases hc

/-- **`generate` returns unless a numeric site fires** -/
theorem generate_total (rx : String → String → Bool) (env : Env) (st : Recipe.State) (qsvs : Option Qsvs)
    (H : Hyp rx env st qsvs) (U : Unshared env.model) (hnum : ∀ e, ¬ GenSite rx env st qsvs true e) :
    ∃ reqs, Mat.generate rx env st qsvs = .ok reqs := by
  cases hg : Mat.generate rx env st qsvs with
  | ok reqs => exact ⟨reqs, rfl⟩
  | error e =>
    obtain ⟨num, hsite⟩ := generate_sited rx env st qsvs e hg
    cases num with
    | true => exact absurd hsite (hnum e)
    | false => exact absurd hsite (genSite_struct_absurd rx env st qsvs H U e)

end MatTotal
