import QProofs.ParamsE2E
/-!
# C04 end to end, forward direction: the requests of ONE original operator, as they appear in the output

`generate_has_at`: the requests of entry `j` of the operator list, computed under the statistics in force
(`ParamsSrc.StatsAt`, which is unique: `statsAt_unique`), reach the result dictionary.

`op_requests_in_output`: for an original operator `k`, the parameter object `P` of
* a producer side `[ADD_DEQUANTIZE]` is held by the result tensor in the output,
* a consumer side `[ADD_QUANTIZE]` is held by the tensor the output operator reads in that slot (the tensor
  itself, or the result of an inserted QUANTIZE),
* a consumer side `[QUANTIZE_TENSOR]` is held by the constant, which the output operator reads directly,
where "held" (`TypingE2E.HoldsParam`) means: `quant = some pid` with `pid` the index of the `==`-class of `P`
in the parameter table.  Two tensors holding the same `P` therefore carry the same `quant` id.
-/
open Graph Mat Cfg Pipeline InstGen GenInstsOK GenInstsInfo Pipe SharingGen SharingData Perform
open ParamsSrc ParamsGraph ParamsE2E TypingE2E

set_option autoImplicit false

namespace ParamsFwd

/-! ## splitting a fold at one element -/

theorem foldlM_split {α β} (f : β → α → PyM β) (l : List α) (init r : β) (h : l.foldlM f init = .ok r)
    (j : Nat) (x : α) (hj : l[j]? = some x) :
    ∃ s1 s2, (l.take j).foldlM f init = .ok s1 ∧ f s1 x = .ok s2 ∧ (l.drop (j + 1)).foldlM f s2 = .ok r := by
  have hlen : j < l.length := (List.getElem?_eq_some_iff.1 hj).1
  have hsplit : l = l.take j ++ x :: l.drop (j + 1) := by
    have h1 : l.drop j = x :: l.drop (j + 1) := by
      rw [List.drop_eq_getElem_cons hlen]
      congr 1
      exact (List.getElem?_eq_some_iff.1 hj).2
    conv_lhs => rw [← List.take_append_drop j l, h1]
  rw [hsplit, List.foldlM_append] at h
  obtain ⟨s1, h1, h⟩ := GraphInv.bind_ok _ _ _ h
  rw [List.foldlM_cons] at h
  obtain ⟨s2, h2, h⟩ := GraphInv.bind_ok _ _ _ h
  exact ⟨s1, s2, h1, h2, h⟩

theorem statsAt_unique {rx : String → String → Bool} {env : Env} {st : Recipe.State} {qsvs : Option Qsvs}
    {s : Nat} {sg : Subgraph} {j : Nat} {qs qs' : Qsvs} (h : StatsAt rx env st qsvs s sg j qs)
    (h' : StatsAt rx env st qsvs s sg j qs') : qs = qs' := by
  obtain ⟨g1, r1, a1, a2⟩ := h
  obtain ⟨g2, r2, b1, b2⟩ := h'
  rw [a1] at b1
  cases b1
  rw [a2] at b2
  cases b2
  rfl

/-- **every request of entry `j` of the operator list, computed under the statistics in force, reaches
    the final dictionary** -/
theorem generate_has_at (rx : String → String → Bool) (env : Env) (st : Recipe.State) (qsvs : Option Qsvs)
    (qs : Qsvs) (res : List (String × CReq))
    (hfold : env.model.subgraphs.zipIdx.foldlM (sgStep rx env st) (qsvs.getD [], []) = .ok (qs, res))
    (s : Nat) (sg : Subgraph) (hsg : env.model.subgraphs[s]? = some sg)
    (j : Nat) (q : Op × Option String × Int) (hq : (allOps sg)[j]? = some q) :
    ∃ qs0 rs qs1, StatsAt rx env st qsvs s sg j qs0 ∧ opReqs rx env st s sg qs0 q = .ok (rs, qs1) ∧
      ∀ r ∈ rs, TypingReq.Has res r := by
  have hz : env.model.subgraphs.zipIdx[s]? = some (sg, s) := by
    rw [List.getElem?_zipIdx, hsg]; simp
  obtain ⟨g1, g2, o1, o2, o3⟩ := foldlM_split _ _ _ _ hfold s (sg, s) hz
  have hG2 : TypingReq.Grows g2.2 res :=
    (TypingReq.foldlM_bracket (sgStep rx env st) (fun a b : GState => TypingReq.Grows a.2 b.2)
      (fun _ => TypingReq.Grows.refl _) (fun _ _ _ => TypingReq.Grows.trans)
      (fun a x b hab => TypingReq.sgStep_grows rx env st a b x hab) _ _ _ o3).1
  unfold sgStep at o2
  obtain ⟨t1, t2, i1, i2, i3⟩ := foldlM_split _ _ _ _ o2 j q hq
  have hT2 : TypingReq.Grows t2.2 g2.2 :=
    (TypingReq.foldlM_bracket (opStep rx env st s sg) (fun a b : GState => TypingReq.Grows a.2 b.2)
      (fun _ => TypingReq.Grows.refl _) (fun _ _ _ => TypingReq.Grows.trans)
      (fun a x b hab => TypingReq.opStep_grows rx env st s sg a b x hab) _ _ _ i3).1
  obtain ⟨rs, hr, hu⟩ := opStep_ok rx env st s sg t1 t2 q i2
  exact ⟨t1.1, rs, t2.1, ⟨g1, t1.2, o1, i1⟩, hr,
    fun r hr' => hG2 r (hT2 r ((TypingReq.updateResults_has rs _ _ hu).1 r hr'))⟩

theorem allOps_real (sg : Subgraph) (k : Nat) (op : Op) (h : sg.ops[k]? = some op) :
    (allOps sg)[k]? = some (op, none, (k : Int)) := by
  unfold allOps
  have hk : k < sg.ops.length := (List.getElem?_eq_some_iff.1 h).1
  rw [List.getElem?_append_left (by simpa using hk), List.getElem?_map, List.getElem?_zipIdx, h]
  simp

/-! ## the requests of one original operator in the output -/

/-- **the parameter objects requested by the original operator `k`, as they appear in the output** -/
theorem op_requests_in_output (rx : String → String → Bool) (env : Env) (st : Recipe.State)
    (qsvs : Option Qsvs) (m' : Model) (tbl : List Param) (hnf : PipelineWF.NF env st)
    (h : quantizePure rx env st qsvs = .ok (m', tbl))
    (s : Nat) (sg sg' : Subgraph) (hsg : env.model.subgraphs[s]? = some sg) (hsg' : m'.subgraphs[s]? = some sg')
    (k : Nat) (op : Op) (hop : sg.ops[k]? = some op) :
    ∃ qs0 rs qs1 o', StatsAt rx env st qsvs s sg k qs0 ∧
      opReqs rx env st s sg qs0 (op, none, (k : Int)) = .ok (rs, qs1) ∧
      o' ∈ sg'.ops ∧ o'.orig = some k ∧ (∀ o'' ∈ sg'.ops, o''.orig = some k → o'' = o') ∧
      o'.code = op.code ∧ o'.outputs = op.outputs ∧ o'.inputs.length = op.inputs.length ∧
      o'.inputs.map (Skeleton.root sg') = op.inputs ∧
      -- a result requested `[ADD_DEQUANTIZE]`
      (∀ (t : Nat) (tn : Tensor) (r : CReq) (c : CO2T) (P : Param), sg.tensors[t]? = some tn → r ∈ rs →
        r.name = tn.name → r.producer = some c → c.xfs = [.addDequant] → c.param = some P →
        ∃ tn', sg'.tensors[t]? = some tn' ∧ HoldsParam tbl P tn') ∧
      -- a runtime operand requested `[ADD_QUANTIZE]`
      (∀ (j t : Nat) (tn : Tensor) (r : CReq) (c : CO2T) (P : Param), op.inputs[j]? = some (t : Int) →
        sg.tensors[t]? = some tn → r ∈ rs → r.name = tn.name → r.consumers = some [c] → c.opId = (k : Int) →
        c.xfs = [.addQuant] → c.param = some P →
        ∃ z tz, o'.inputs[j]? = some z ∧ Skeleton.root sg' z = (t : Int) ∧ sg'.tensors[z.toNat]? = some tz ∧
          HoldsParam tbl P tz ∧
          (z = (t : Int) ∨ ((sg.tensors.length : Int) ≤ z ∧
            ∃ ci, ({ code := ci, inputs := [(t : Int)], outputs := [z], orig := none } : Op) ∈ sg'.ops ∧
              m'.opcodes[ci]? = some Tables.opQuantize))) ∧
      -- a constant operand requested `[QUANTIZE_TENSOR]`
      (∀ (j t : Nat) (tn : Tensor) (r : CReq) (c : CO2T) (P : Param), op.inputs[j]? = some (t : Int) →
        sg.tensors[t]? = some tn → r ∈ rs → r.name = tn.name → r.consumers = some [c] → c.opId = (k : Int) →
        c.xfs = [.quantTensor] → c.param = some P →
        ∃ tz pid, o'.inputs[j]? = some (t : Int) ∧ sg'.tensors[t]? = some tz ∧ HoldsParam tbl P tz ∧
          tbl.findIdx? (fun q => q.eqv P) = some pid ∧ m'.buffers[tn.buffer]? = some (some (.inr pid))) := by
  obtain ⟨res, tis, S⟩ := stages rx env st qsvs m' tbl hnf h
  obtain ⟨stF, rfl, F⟩ := TypingGraph.run_fin _ env.model m' tis hnf.wf hnf.tagged S.ok S.cd S.run
  have C := S.ctx
  have htbl := S.tbl_eq
  subst htbl
  obtain ⟨qs, hfold⟩ := S.fold
  obtain ⟨qs0, rs, qs1, hstat, hreq, hhas⟩ := generate_has_at rx env st qsvs qs res hfold s sg hsg k _
    (allOps_real sg k op hop)
  obtain ⟨o', m1, m2, m3, m4, m5, m6, m7, m8⟩ :=
    TypingGraph.orig_op_final _ env.model tis stF F hnf.tagged s sg sg' hsg hsg' k op hop
  refine ⟨qs0, rs, qs1, o', hstat, hreq, m1, m2, m3, m4, m5, m6, m7, ?_, ?_, ?_⟩
  · intro t tn r c P htn hr hname hprod hcx hP
    obtain ⟨e, he, hp, -⟩ := hhas r hr
    rw [hname] at he
    exact producer_dequant_tensor S F s sg sg' hsg hsg' t tn htn e (dictGet?_mem_key _ _ _ he) c (hp c hprod)
      hcx P hP
  · intro j t tn r c P hj htn hr hname hcons hck hcx hP
    obtain ⟨e, he, -, hc⟩ := hhas r hr
    rw [hname] at he
    obtain ⟨ecs, hecs, hsub⟩ := hc _ hcons
    obtain ⟨z, tz, z1, z2, z3, z4⟩ := consumer_addQuant_slot S F s sg sg' hsg hsg' t tn htn e
      (dictGet?_mem_key _ _ _ he) ecs hecs c (hsub c List.mem_cons_self) k hck hcx P hP o' j (m8 j _ hj)
    have hroot : Skeleton.root sg' z = (t : Int) := by
      have := congrArg (·[j]?) m7
      simp only [List.getElem?_map, z1, hj, Option.map_some, Option.some.injEq] at this
      exact this
    refine ⟨z, tz, z1, hroot, z2, z3, ?_⟩
    rcases z4 with hz | ⟨w1, -, ci, w3, w4⟩
    · exact .inl hz
    · exact .inr ⟨w1, ci, w3, w4⟩
  · intro j t tn r c P hj htn hr hname hcons hck hcx hP
    obtain ⟨e, he, -, hc⟩ := hhas r hr
    rw [hname] at he
    obtain ⟨ecs, hecs, hsub⟩ := hc _ hcons
    have hmemE := dictGet?_mem_key _ _ _ he
    have hloc : Loc env.model tn.name s sg t := ⟨hsg, tn, htn, rfl⟩
    have hcm : c ∈ ecs := hsub c List.mem_cons_self
    have hconst : isConst env.model sg (t : Int) = true := by
      obtain ⟨⟨x', hx', -, hq⟩, -⟩ := ((C.entries _ hmemE).cons ecs c hecs hcm s sg t hloc).1
      rw [hcx] at hx'
      cases hx'
      exact hq (.inl rfl)
    have hprod : e.producer = none := const_noProd C (tn.name, e) hmemE s sg t hloc hconst
    obtain ⟨tz, pid, c1, c2, c3, c4, c5, -⟩ := consumer_const_slot S F s sg sg' hsg hsg' t tn htn e hmemE
      hprod ecs hecs c hcm k hck .quantTensor hcx (.inl rfl) P hP o' j (m8 j _ hj)
    exact ⟨tz, pid, c5 rfl, c1, c2, c3, c4⟩

end ParamsFwd
