import QProofs.EmuSemProofs
import Mathlib.Algebra.Order.Ring.Abs
/-!
# The EMULATED_SUBCHANNEL pattern equals FULLY_CONNECTED on the dequantized weight (proofs of C06c)

`pattern_eq_fc`: the whole pattern (with the optional ADD and RELU) against the reference operator;
`fc_perturb`, `pattern_close_to_fc`: the perturbation bound that follows from a value law of the stored codes.
-/

namespace EmuSemProofs
open EmuSem

theorem fcOut_numel (keep : Bool) (d0 d1 c : Nat) : Nd.numel (fcOutShape keep d0 d1 c) = d0 * d1 * c := by
  cases keep <;> simp [fcOutShape, Nd.numel]

theorem fcOut_last (keep : Bool) (d0 d1 c : Nat) : (fcOutShape keep d0 d1 c).getLast? = some c := by
  cases keep <;> simp [fcOutShape]

theorem biasOK_some {b : T} {c : Nat} (h : biasOK (some b) c = true) : b.shape = [c] := by
  simpa [biasOK] using h

/-- the whole pattern = the reference operator on the dequantized weight, for both scale layouts (`e = 1`: one
    scale per output channel; `e = B`: one per block and channel), with or without bias, with or without RELU,
    for both values of `keep_num_dims` of the replaced operator -/
theorem pattern_eq_fc (keep r : Bool) {x q scale : T} {bias : Option T} {d0 d1 B S C e : Nat}
    (hx : x.shape = [d0, d1, B * S]) (hq : q.shape = [1, B, S, C]) (hs : scale.shape = [1, e, 1, C])
    (he : e = 1 ∨ e = B) (hb : biasOK bias C = true) :
    ∃ wq y : T, dequantBlock q scale = some wq ∧ wq.shape = [C, B * S] ∧
      fullyConnected keep x wq bias = some y ∧
      pattern (fcOutShape keep d0 d1 C) x q scale bias r = some (if r then relu y else y) := by
  obtain ⟨wq, ew, shw, _, gw⟩ := dequantBlock_spec hq hs he
  obtain ⟨y, ey, shy, ly, gy⟩ := fullyConnected_spec (bias := bias) keep hx shw hb
  obtain ⟨t4, sh4, l4, g4, k4⟩ := pattern_core hx hq hs he
  refine ⟨wq, y, ew, shw, ey, ?_⟩
  have h5 : reshape t4 (fcOutShape keep d0 d1 C) = some ⟨fcOutShape keep d0 d1 C, t4.data⟩ :=
    reshape_spec (by rw [sh4, numel4, fcOut_numel]; ring)
  have core : ∀ n c, n < d0 * d1 → c < C → get t4 (n * C + c) + biasAt bias c = get y (n * C + c) := by
    intro n c hn hc
    rw [g4 n c hn hc, gy n c hn hc]
    congr 1
    exact block_algebra B S (fun b k => get x (n * (B * S) + (b * S + k)))
      (fun b k => get q (flat4 B S C 0 b k c)) (fun b => get scale (flat4 e 1 C 0 (bi e b) 0 c))
      (fun f => get x (n * (B * S) + f)) (fun f => get wq (c * (B * S) + f))
      (fun _ _ _ _ => rfl) (fun b k hb hk => gw c b k hc hb hk)
  have h6 : addBiasOpt ⟨fcOutShape keep d0 d1 C, t4.data⟩ bias = some y := by
    cases bias with
    | none =>
      show some _ = some _
      congr 1
      apply ext2 (a := ⟨fcOutShape keep d0 d1 C, t4.data⟩) (b := y) (n := d0 * d1) (c := C) shy.symm l4 ly
      intro n c hn hc
      have := core n c hn hc
      simpa [biasAt, get_data] using this
    | some bv =>
      obtain ⟨t6, e6, sh6, l6, g6⟩ := addBias_spec (y := ⟨fcOutShape keep d0 d1 C, t4.data⟩) (b := bv)
        (biasOK_some hb) (fcOut_last keep d0 d1 C)
      show addBias _ bv = some y
      rw [e6]
      congr 1
      apply ext2 (n := d0 * d1) (c := C) (sh6.trans shy.symm) (l6.trans (fcOut_numel keep d0 d1 C)) ly
      intro n c hn hc
      rw [g6 _ (lt_of_lt_of_eq (mul_add_lt hn hc) (fcOut_numel keep d0 d1 C).symm), mul_add_mod hc, get_data]
      exact core n c hn hc
  simp only [pattern, hx, hq]
  rw [k4]
  simp only [h5, Option.bind_some, h6]

theorem biasOK_of {bias : Option T} {c : Nat} (h : ∀ b, bias = some b → b.shape = [c]) : biasOK bias c = true := by
  cases bias with
  | none => rfl
  | some b => simp [biasOK, h b rfl]

/-- the same with the fused activation function on the reference side -/
theorem pattern_eq_fcAct (keep r : Bool) {x q scale : T} {bias : Option T} {d0 d1 B S C e : Nat}
    (hx : x.shape = [d0, d1, B * S]) (hq : q.shape = [1, B, S, C]) (hs : scale.shape = [1, e, 1, C])
    (he : e = 1 ∨ e = B) (hb : biasOK bias C = true) :
    ∃ wq y : T, dequantBlock q scale = some wq ∧ wq.shape = [C, B * S] ∧
      fullyConnectedAct keep x wq bias r = some y ∧
      pattern (fcOutShape keep d0 d1 C) x q scale bias r = some y := by
  obtain ⟨wq, y, ew, shw, ey, ep⟩ := pattern_eq_fc keep r (bias := bias) hx hq hs he hb
  exact ⟨wq, _, ew, shw, by simp [fullyConnectedAct, ey], ep⟩

/-- every operator of the pattern accepts its operands, and the intermediate tensors have the shapes the
    transformation records for them (`bmm_input_shape`, `intermediate_tensor_shape` twice, `sum_output_shape`:
    `bmmShape`, `midShape`, `sumShape` of `Emulated.io`) -/
theorem pattern_stage_shapes {x q scale : T} {d0 d1 B S C e : Nat} (hx : x.shape = [d0, d1, B * S])
    (hq : q.shape = [1, B, S, C]) (hs : scale.shape = [1, e, 1, C]) (he : e = 1 ∨ e = B) :
    ∃ t1 t2 t3 t4 : T, reshape x [d0 * d1, B, 1, S] = some t1 ∧ t1.shape = [d0 * d1, B, 1, S] ∧
      batchMatMul t1 q = some t2 ∧ t2.shape = [d0 * d1, B, 1, C] ∧
      mulBroadcast t2 scale = some t3 ∧ t3.shape = [d0 * d1, B, 1, C] ∧
      sumAxis1KeepDims t3 = some t4 ∧ t4.shape = [d0 * d1, 1, 1, C] := by
  have h1 := reshape_spec (a := x) (s := [d0 * d1, B, 1, S]) (by rw [hx, numel3, numel4]; ring)
  obtain ⟨t2, e2, sh2, _, _⟩ := batchMatMul_spec (a := ⟨[d0 * d1, B, 1, S], x.data⟩) (b := q) rfl hq
  obtain ⟨t3, e3, sh3, _, _⟩ := mulBroadcast_spec (a := t2) (b := scale) sh2 hs (Or.inl rfl) he (Or.inl rfl)
    (Or.inr rfl)
  obtain ⟨t4, e4, sh4, _, _⟩ := sumAxis1_spec (a := t3) sh3
  exact ⟨_, t2, t3, t4, h1, rfl, e2, sh2, e3, sh3, e4, sh4⟩

/-! ## perturbation -/

theorem relu1_lipschitz (a b : Rat) : |(if a < 0 then 0 else a) - (if b < 0 then 0 else b)| ≤ |a - b| := by
  have h1 := le_abs_self (a - b)
  have h2 := neg_abs_le (a - b)
  split <;> split <;> (rw [abs_le]; constructor <;> linarith)

/-- two weights that differ elementwise by at most `err c` in row `c` give FULLY_CONNECTED results that differ
    by at most `Σ_f |x[n][f]| * err c` -/
theorem fc_perturb (keep r : Bool) {x w w' : T} {bias : Option T} {d0 d1 F C : Nat}
    (hx : x.shape = [d0, d1, F]) (hw : w.shape = [C, F]) (hw' : w'.shape = [C, F]) (hb : biasOK bias C = true)
    (err : Nat → Rat) (h : ∀ c f, c < C → f < F → |get w (c * F + f) - get w' (c * F + f)| ≤ err c) :
    ∃ y y' : T, fullyConnectedAct keep x w bias r = some y ∧ fullyConnectedAct keep x w' bias r = some y' ∧
      y.shape = fcOutShape keep d0 d1 C ∧ y'.shape = fcOutShape keep d0 d1 C ∧
      ∀ n c, n < d0 * d1 → c < C →
        |get y (n * C + c) - get y' (n * C + c)| ≤ sumN F (fun f => |get x (n * F + f)|) * err c := by
  obtain ⟨y, ey, shy, _, gy⟩ := fullyConnected_spec (bias := bias) keep hx hw hb
  obtain ⟨y', ey', shy', _, gy'⟩ := fullyConnected_spec (bias := bias) keep hx hw' hb
  have core : ∀ n c, n < d0 * d1 → c < C →
      |get y (n * C + c) - get y' (n * C + c)| ≤ sumN F (fun f => |get x (n * F + f)|) * err c := by
    intro n c hn hc
    rw [gy n c hn hc, gy' n c hn hc]
    have e1 : ∀ (A B b : Rat), (A + b) - (B + b) = A - B := by intros; ring
    rw [e1, sumN_sub, sumN_mul_right]
    refine le_trans (abs_sumN_le _ _) (sumN_le_sumN ?_)
    intro f hf
    have := h c f hc hf
    rw [← mul_sub, abs_mul]
    exact mul_le_mul_of_nonneg_left this (abs_nonneg _)
  refine ⟨if r then relu y else y, if r then relu y' else y', by simp [fullyConnectedAct, ey],
    by simp [fullyConnectedAct, ey'], ?_, ?_, ?_⟩
  · cases r
    · exact shy
    · exact shy
  · cases r
    · exact shy'
    · exact shy'
  · intro n c hn hc
    cases r
    · exact core n c hn hc
    · show |get (relu y) _ - get (relu y') _| ≤ _
      rw [relu_get, relu_get]
      exact le_trans (relu1_lipschitz _ _) (core n c hn hc)

/-- the pattern against the FLOAT operator: if the dequantized weight is within `err c` of the float weight
    `w` in every row `c`, every output of the pattern is within `Σ_f |x[n][f]| * err c` of the float operator's -/
theorem pattern_close_to_fc (keep r : Bool) {x q scale w : T} {bias : Option T} {d0 d1 B S C e : Nat}
    (hx : x.shape = [d0, d1, B * S]) (hq : q.shape = [1, B, S, C]) (hs : scale.shape = [1, e, 1, C])
    (he : e = 1 ∨ e = B) (hb : biasOK bias C = true) (hw : w.shape = [C, B * S]) (err : Nat → Rat)
    (hval : ∀ wq, dequantBlock q scale = some wq → ∀ c f, c < C → f < B * S →
      |get wq (c * (B * S) + f) - get w (c * (B * S) + f)| ≤ err c) :
    ∃ p y : T, pattern (fcOutShape keep d0 d1 C) x q scale bias r = some p ∧
      fullyConnectedAct keep x w bias r = some y ∧ p.shape = y.shape ∧
      ∀ n c, n < d0 * d1 → c < C →
        |get p (n * C + c) - get y (n * C + c)| ≤ sumN (B * S) (fun f => |get x (n * (B * S) + f)|) * err c := by
  obtain ⟨wq, y0, ew, shw, ey0, ep⟩ := pattern_eq_fc keep r (bias := bias) hx hq hs he hb
  obtain ⟨y1, y2, e1, e2, s1, s2, hd⟩ := fc_perturb keep r hx shw hw hb err (hval wq ew)
  have : y1 = if r then relu y0 else y0 := by
    simp only [fullyConnectedAct, ey0, Option.map_some, Option.some.injEq] at e1
    exact e1.symm
  subst this
  exact ⟨_, y2, ep, e2, s1.trans s2.symm, hd⟩

end EmuSemProofs
