import QProofs.ConstQuant
import QProofs.ConstF16
import QProofs.ArithRounded
import QProps.C17c
/-!
# What the stored bytes of one parameter object decode to (C05, value half, per parameter object)

* `weight_value`: a constant quantized with float32 parameters whose shape broadcasts into the
  tensor's (per-tensor or per-channel): every stored code, dequantized with the scale / zero point of
  its channel, is within `s·(1/2 + 2^(bits+3)·2^-24)` of the original element (C17.dq_q_rounded) when
  the element lies in the representable range of its channel;
* `bias_spec` / `bias_codes`: a quantized bias is `round(bias/scale)` (as evaluated in floating
  point) unless that value leaves the symmetric 32/64-bit range, in which case it saturates there;
* `f16_bytes`: float16-cast constants are stored as the round-to-nearest binary16 of the originals.
-/
open Graph Mat Arith Cfg Num Nd Bytes ConstBytes ConstQuant MatParams

set_option autoImplicit false

namespace ConstValue

/-! ## weights and other constants with their own (float32) parameters -/

/-- **element-wise value of the stored codes.**  `d` = the float32 constant, `qp` float32 parameters
    (2..16 bits, 8/16-bit zero points) whose shape has the tensor's rank and broadcasts into the
    tensor's shape, `q = uniform_quantize(d, qp)`.  Then `q` has the tensor's shape and size, and for
    every element `i`, with `s`, `z` the scale and zero point of its channel
    `bindex d.shape qp.scale.shape i`: if `s ∈ [2^-100, 2^100]`, `z` is in the integer range and the
    element lies in the representable range `[(qlo - z)·s, (qmax - z)·s]`, the dequantized code
    (`uniform_dequantize`, 32-bit subtraction, float64 product) is within
    `s·(1/2 + 2^(bits+3)·2^-24)` of the element -/
theorem weight_value (d : Arr Rat) (qp : QParams) (q : IArr)
    (h : uniformQuantize ⟨d, .f32⟩ qp = .ok q)
    (hpr : qp.scale.pr = .f32) (hzw : qp.zp.w = 8 ∨ qp.zp.w = 16)
    (hb2 : 2 ≤ qp.bits) (hb16 : qp.bits ≤ 16)
    (hr : d.shape.length = qp.scale.arr.shape.length) (hi : Into qp.scale.arr.shape d.shape) :
    q.arr.shape = d.shape ∧ q.arr.data.length = numel d.shape ∧ q.w = storageBits qp.bits ∧
    ∀ i < numel d.shape,
      bindex d.shape qp.scale.arr.shape i < numel qp.scale.arr.shape ∧
      ∀ (s : Rat) (z : Int),
        s = qp.scale.arr.data.getD (bindex d.shape qp.scale.arr.shape i) 0 →
        z = qp.zp.arr.data.getD (bindex d.shape qp.scale.arr.shape i) 0 →
        (2:Rat)^(-100:Int) ≤ s → s ≤ (2:Rat)^(100:Int) → qmin qp.bits ≤ z → z ≤ qmax qp.bits →
        ((qmin qp.bits + (if qp.symmetric then 1 else 0) - z : Int) : Rat) * s ≤ d.data.getD i 0 →
        d.data.getD i 0 ≤ ((qmax qp.bits - z : Int) : Rat) * s →
        |dqVal true (storageBits qp.bits) qp.zp.w .f32 (q.arr.data.getD i 0) z s - d.data.getD i 0|
          ≤ s * (1/2 + (2:Rat)^(qp.bits + 3) * ArithRounded.u32) := by
  obtain ⟨ss, rs, hss, hrs, _, _, hw, hsh, hlen, hel⟩ := uniformQuantize_spec ⟨d, .f32⟩ qp q h
  have hss' : ss = qp.scale.arr.shape := hss hr
  subst hss'
  rw [bshape_of_into _ _ hi] at hrs
  cases hrs
  refine ⟨hsh, hlen, hw, ?_⟩
  intro i hilt
  refine ⟨bindex_lt_of_into _ _ i hi hilt, ?_⟩
  intro s z hs hz hs1 hs2 hz1 hz2 hlo hhi
  have hget : q.arr.data[i]? = some (q.arr.data.getD i 0) := by
    have : i < q.arr.data.length := by rw [hlen]; exact hilt
    rw [List.getD_eq_getElem?_getD, List.getElem?_eq_getElem this, Option.getD_some]
  have e := hel i _ hget
  simp only [] at e
  rw [bindex_self _ _ hilt, ← hs, ← hz, hpr] at e
  obtain ⟨_, hc⟩ := quantize1_ok _ _ _ _ _ _ _ _ _ e
  rw [hc]
  exact ArithRounded.dq_q_rounded qp.bits hb2 hb16 qp.symmetric qp.zp.w hzw s hs1 hs2 z hz1 hz2 _ hlo hhi

/-- the codes themselves: element `i` is the scalar core on the element and the scale / zero point of its
    channel (same hypotheses as `weight_value`, any bit width and precision of the parameters) -/
theorem weight_codes (d : Arr Rat) (qp : QParams) (q : IArr)
    (h : uniformQuantize ⟨d, .f32⟩ qp = .ok q)
    (hr : d.shape.length = qp.scale.arr.shape.length) (hi : Into qp.scale.arr.shape d.shape) :
    ∀ i < numel d.shape,
      q.arr.data.getD i 0 = roundClip qp.bits qp.symmetric (qSum .f32 qp.scale.pr qp.zp.w (d.data.getD i 0)
        (qp.scale.arr.data.getD (bindex d.shape qp.scale.arr.shape i) 0)
        (qp.zp.arr.data.getD (bindex d.shape qp.scale.arr.shape i) 0)) := by
  obtain ⟨ss, rs, hss, hrs, _, _, hw, hsh, hlen, hel⟩ := uniformQuantize_spec ⟨d, .f32⟩ qp q h
  have hss' : ss = qp.scale.arr.shape := hss hr
  subst hss'
  rw [bshape_of_into _ _ hi] at hrs
  cases hrs
  intro i hilt
  have hget : q.arr.data[i]? = some (q.arr.data.getD i 0) := by
    have : i < q.arr.data.length := by rw [hlen]; exact hilt
    rw [List.getD_eq_getElem?_getD, List.getElem?_eq_getElem this, Option.getD_some]
  have e := hel i _ hget
  simp only [] at e
  rw [bindex_self _ _ hilt] at e
  exact (quantize1_ok _ _ _ _ _ _ _ _ _ e).2

/-! ## bias -/

/-- `symmetric_quantize_bias_tensor` is `uniform_quantize` of the bias with its own parameters:
    symmetric, 32 bits (64 for 16-bit activations), zero points 0 -/
theorem bias_spec (bias : FArr) (qi qw qp : QParams) (q : IArr) (h : quantizeBias bias qi qw = .ok (qp, q)) :
    uniformQuantize bias qp = .ok q ∧ qp.symmetric = true ∧
      qp.bits = (if qi.bits = 16 then 64 else 32) ∧ qp.zp.w = 32 ∧ (∀ z ∈ qp.zp.arr.data, z = 0) ∧
      qp.scale.pr = qi.scale.pr.join qw.scale.pr := by
  unfold quantizeBias at h
  simp only [bind, Except.bind, pure, Except.pure] at h
  cases hp : zipB (fun a b => (qi.scale.pr.join qw.scale.pr).chk (a * b)) qi.scale.arr qw.scale.arr with
  | error e => simp [hp] at h
  | ok prod =>
    simp only [hp] at h
    split at h
    · cases h
    · rename_i q' hq
      simp only [Except.ok.injEq, Prod.mk.injEq] at h
      obtain ⟨h1, h2⟩ := h
      subst h1; subst h2
      refine ⟨hq, rfl, rfl, rfl, ?_, rfl⟩
      intro z hz
      simp only [Arr.map, List.mem_map] at hz
      obtain ⟨_, _, rfl⟩ := hz
      rfl

/-- 64-bit codes: inside the saturation bounds `roundClip` is `np.rint` -/
theorem roundClip64_of_in_range (narrow : Bool) (v : Rat)
    (h1 : (if narrow then -(2:Int)^63 + 1024 else -(2:Int)^63) ≤ rhe v) (h2 : rhe v ≤ (2:Int)^63 - 1024) :
    roundClip 64 narrow v = rhe v := by
  unfold roundClip
  have hlo : qLoI 64 narrow = if narrow then -(2:Int)^63 + 1024 else -(2:Int)^63 := by
    unfold qLoI qmin; cases narrow <;> norm_num
  have hhi : qHiI 64 = (2:Int)^63 - 1024 := by unfold qHiI qmax; norm_num
  have hsto : storageBits 64 = 64 := by decide
  rw [hlo, hhi, hsto]
  have hc : clipI (rhe v) (if narrow then -(2:Int)^63 + 1024 else -(2:Int)^63) ((2:Int)^63 - 1024) = rhe v := by
    unfold clipI
    cases narrow <;> simp only [if_true, Bool.false_eq_true, if_false] at h1 ⊢ <;> split_ifs <;> omega
  rw [hc]
  refine BytesProofs.wrapInt_id 64 (by norm_num) _ ?_ ?_
  · cases narrow <;> simp at h1 ⊢ <;> omega
  · norm_num at h2 ⊢; omega

/-- saturation at the low end of the 64-bit range keeps the sign -/
theorem saturates_low_64 (narrow : Bool) (v : Rat)
    (h : rhe v ≤ (if narrow then -(2:Int)^63 + 1024 else -(2:Int)^63)) :
    roundClip 64 narrow v = (if narrow then -(2:Int)^63 + 1024 else -(2:Int)^63) := by
  unfold roundClip
  have hlo : qLoI 64 narrow = if narrow then -(2:Int)^63 + 1024 else -(2:Int)^63 := by
    unfold qLoI qmin; cases narrow <;> norm_num
  have hhi : qHiI 64 = (2:Int)^63 - 1024 := by unfold qHiI qmax; norm_num
  have hsto : storageBits 64 = 64 := by decide
  rw [hlo, hhi, hsto]
  have hlh : (if narrow then -(2:Int)^63 + 1024 else -(2:Int)^63) ≤ (2:Int)^63 - 1024 := by
    cases narrow <;> norm_num
  have hc : clipI (rhe v) (if narrow then -(2:Int)^63 + 1024 else -(2:Int)^63) ((2:Int)^63 - 1024) =
      (if narrow then -(2:Int)^63 + 1024 else -(2:Int)^63) := by
    unfold clipI
    cases narrow <;> simp only [if_true, Bool.false_eq_true, if_false] at h hlh ⊢ <;> split_ifs <;> omega
  rw [hc]
  refine BytesProofs.wrapInt_id 64 (by norm_num) _ ?_ ?_
  · cases narrow <;> norm_num
  · cases narrow <;> norm_num

/-- saturation of the 32-bit codes (no wrap-around: the clip bounds are exact) -/
theorem saturates_32 (bits : Nat) (hb2 : 2 ≤ bits) (hb : bits ≤ 32) (narrow : Bool) (v : Rat) :
    (qmax bits ≤ rhe v → roundClip bits narrow v = qmax bits) ∧
    (rhe v ≤ qmin bits + (if narrow then 1 else 0) →
      roundClip bits narrow v = qmin bits + (if narrow then 1 else 0)) := by
  rw [RAux.roundClip_eq bits hb2 hb]
  have h2 : (2:Int) ≤ 2^(bits-1) := by
    calc (2:Int) = 2^1 := by norm_num
      _ ≤ 2^(bits-1) := pow_le_pow_right₀ (by norm_num) (by omega)
  have hqmin : qmin bits = -(2:Int)^(bits-1) := rfl
  have hqmax : qmax bits = (2:Int)^(bits-1) - 1 := rfl
  have hlh : qmin bits + (if narrow then 1 else 0) ≤ qmax bits := by split_ifs <;> omega
  generalize qmin bits + (if narrow then 1 else 0) = L at hlh ⊢
  constructor
  · intro h; unfold clipI; split_ifs <;> omega
  · intro h; unfold clipI; split_ifs <;> omega

/-- in ideal arithmetic the quantity that is rounded is exactly `x / s + zp` -/
theorem qSum_exact (zw : Nat) (x s : Rat) (z : Int) : qSum .exact .exact zw x s z = x / s + z := by
  unfold qSum qProd qInv promoteInt
  simp only [Prec.join, Prec.rn]
  ring

/-- **the codes of a quantized bias**: with `v` the floating-point evaluation of `bias/scale`
    (`qSum`: `bias * (1/scale) + 0`, numpy's promotions), every code is the saturating `round(v)`:
    it lies in the symmetric range; it IS `round(v)` when that is inside the saturation bounds
    (`±(2^31 - 1)`; for 64 bits the nearest doubles inside the range, `±(2^63 - 1024)`); and it is the
    bound of the same sign otherwise (no wrap-around).  The result has the shape and size of the
    broadcast of bias and scale. -/
theorem bias_codes (b : Arr Rat) (qi qw qp : QParams) (q : IArr)
    (h : quantizeBias ⟨b, .f32⟩ qi qw = .ok (qp, q)) :
    q.w = storageBits qp.bits ∧ q.arr.data.length = numel q.arr.shape ∧
    (qp.bits = 32 ∨ qp.bits = 64) ∧
    ∀ (i : Nat) (c : Int), q.arr.data[i]? = some c →
      ∃ (x s v : Rat), s ≠ 0 ∧ x ∈ (0 :: b.data) ∧ s ∈ (0 :: qp.scale.arr.data) ∧
        v = qSum .f32 qp.scale.pr 32 x s 0 ∧ c = roundClip qp.bits true v ∧
        (qmin qp.bits + 1 ≤ c ∧ c ≤ qmax qp.bits) ∧
        (qp.bits = 32 →
          (-(2:Int)^31 + 1 ≤ rhe v → rhe v ≤ (2:Int)^31 - 1 → c = rhe v) ∧
          ((2:Int)^31 - 1 ≤ rhe v → c = (2:Int)^31 - 1) ∧ (rhe v ≤ -(2:Int)^31 + 1 → c = -(2:Int)^31 + 1)) ∧
        (qp.bits = 64 →
          (-(2:Int)^63 + 1024 ≤ rhe v → rhe v ≤ (2:Int)^63 - 1024 → c = rhe v) ∧
          ((2:Int)^63 - 1024 ≤ rhe v → c = (2:Int)^63 - 1024) ∧
          (rhe v ≤ -(2:Int)^63 + 1024 → c = -(2:Int)^63 + 1024)) := by
  obtain ⟨hq, hsym, hbits, hzw, hz0, _⟩ := bias_spec _ _ _ _ _ h
  obtain ⟨ss, rs, _, _, _, _, hw, hsh, hlen, hel⟩ := uniformQuantize_spec _ _ _ hq
  have hb : qp.bits = 32 ∨ qp.bits = 64 := by rw [hbits]; split_ifs <;> simp
  refine ⟨hw, by rw [hlen, hsh], hb, ?_⟩
  intro i c hc
  have e := hel i c hc
  simp only [] at e
  have hzero : qp.zp.arr.data.getD (bindex rs ss i) 0 = 0 := by
    rw [List.getD_eq_getElem?_getD]
    cases hg : qp.zp.arr.data[bindex rs ss i]? with
    | none => rfl
    | some z => exact hz0 z (List.mem_of_getElem? hg)
  rw [hzero, hsym, hzw] at e
  obtain ⟨hs0, hcv⟩ := quantize1_ok _ _ _ _ _ _ _ _ _ e
  have getD_mem : ∀ (l : List Rat) (k : Nat), l.getD k 0 ∈ (0 :: l) := by
    intro l k
    rw [List.getD_eq_getElem?_getD]
    cases hg : l[k]? with
    | none => simp
    | some y => simp [List.mem_of_getElem? hg]
  refine ⟨_, _, _, hs0, getD_mem _ _, getD_mem _ _, rfl, hcv, ?_, ?_, ?_⟩
  · rw [hcv]
    rcases hb with hb | hb
    · rw [hb]
      have := C17.q_in_range 32 (by norm_num) (by norm_num) true
        (qSum .f32 qp.scale.pr 32 (b.data.getD (bindex rs b.shape i) 0) (qp.scale.arr.data.getD (bindex rs ss i) 0) 0)
      simpa using this
    · rw [hb]
      have := C17.q_in_range_64 true
        (qSum .f32 qp.scale.pr 32 (b.data.getD (bindex rs b.shape i) 0) (qp.scale.arr.data.getD (bindex rs ss i) 0) 0)
      simpa using this
  · intro hb32
    rw [hcv, hb32]
    have hmin : qmin 32 = -(2:Int)^31 := rfl
    have hmax : qmax 32 = (2:Int)^31 - 1 := rfl
    obtain ⟨s1, s2⟩ := saturates_32 32 (by norm_num) (by norm_num) true
      (qSum .f32 qp.scale.pr 32 (b.data.getD (bindex rs b.shape i) 0) (qp.scale.arr.data.getD (bindex rs ss i) 0) 0)
    simp only [if_true, hmin, hmax] at s1 s2
    refine ⟨fun h1 h2 => ?_, s1, s2⟩
    exact C17.roundClip_of_in_range 32 (by norm_num) (by norm_num) true _
      (by simp only [if_true, hmin]; exact h1) (by rw [hmax]; exact h2)
  · intro hb64
    rw [hcv, hb64]
    refine ⟨fun h1 h2 => ?_, fun h1 => C17.saturates_high_64 true _ h1, fun h1 => ?_⟩
    · exact roundClip64_of_in_range true _ (by simpa using h1) h2
    · have := saturates_low_64 true _ (by simpa using h1)
      simpa using this

/-! ## float16 -/

/-- **float16-cast constants**: the stored bytes are the little-endian binary16 patterns of the
    round-to-nearest-even float16 values of the originals (two bytes per element, the flattened output
    of the driver's `castF16`), and decoding them gives exactly `Prec.f16.rn` of every element -/
theorem f16_bytes (shape : List Nat) (d h : List Rat) (hh : d.mapM Prec.f16.chk = .ok h) :
    ∃ bs, paramBytes (.nonlinear 16 (some ⟨shape, h⟩)) = some bs ∧
      byteLen Tables.ttFloat16 d.length = some bs.length ∧
      (∃ bss, d.mapM castF16 = .ok bss ∧ bs = bss.flatten) ∧
      decodeF16 d.length bs = h ∧
      h.length = d.length ∧
      ∀ (i : Nat) (hi : i < d.length), (decodeF16 d.length bs)[i]? = some (Prec.f16.rn d[i]) := by
  obtain ⟨hl, hel⟩ := ConstF16.mapM_chk_repr d h hh
  have hdec : decodeF16 d.length (h.flatMap f16Bytes) = h := by
    rw [← hl]
    refine decodeF16_bytes h ?_
    intro x hx
    obtain ⟨i, hi, rfl⟩ := List.getElem_of_mem hx
    exact (hel i hi (by rw [← hl]; exact hi)).2.roundtrip
  refine ⟨h.flatMap f16Bytes, by simp [paramBytes], ?_, ⟨_, mapM_castF16 d h hh, flatMap_eq_flatten_map _ _⟩,
    hdec, hl, ?_⟩
  · rw [flatMap_f16Bytes_length, hl]
    simp only [byteLen, dtypeBits, Tables.ttFloat16, Tables.ttInt4, Tables.ttInt8, Tables.ttInt16,
      Tables.ttInt32, Tables.ttInt64]
    simp
    omega
  · intro i hi
    rw [hdec]
    have hi' : i < h.length := by rw [hl]; exact hi
    rw [List.getElem?_eq_getElem hi', (hel i hi' hi).1]

end ConstValue
