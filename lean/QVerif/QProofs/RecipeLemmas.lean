import QProps.C12
/-!
# Helper lemmas for `QProofs.RecipeHistory`: association-list dictionaries, `upsert`, `loadFrom`
-/
open Cfg Recipe

namespace RecipeLemmas

/-! ## `Py.dictGet?` / `Py.dictSet` on string-keyed dictionaries -/

section Dict
variable {ν : Type}

theorem dictGet?_of_not_mem (d : List (String × ν)) (k : String) (h : k ∉ d.map (·.1)) :
    Py.dictGet? d k = none := by
  induction d with
  | nil => rfl
  | cons e d ih =>
    simp only [List.map_cons, List.mem_cons, not_or] at h
    have h1 : (e.1 == k) = false := by
      simp only [beq_eq_false_iff_ne, ne_eq]; exact fun h' => h.1 h'.symm
    have := ih h.2
    simp only [Py.dictGet?, List.find?, h1] at this ⊢
    exact this

theorem dictSet_of_not_mem (d : List (String × ν)) (k : String) (v : ν) (h : k ∉ d.map (·.1)) :
    Py.dictSet d k v = d ++ [(k, v)] := by
  induction d with
  | nil => rfl
  | cons e d ih =>
    simp only [List.map_cons, List.mem_cons, not_or] at h
    have h1 : (e.1 == k) = false := by
      simp only [beq_eq_false_iff_ne, ne_eq]; exact fun h' => h.1 h'.symm
    obtain ⟨k', v'⟩ := e
    simp only [Py.dictSet, h1, ih h.2, List.cons_append]
    rfl

theorem dictGet?_append_cons (d1 d2 : List (String × ν)) (k : String) (v : ν)
    (h : k ∉ d1.map (·.1)) : Py.dictGet? (d1 ++ (k, v) :: d2) k = some v := by
  induction d1 with
  | nil => simp [Py.dictGet?]
  | cons e d ih =>
    simp only [List.map_cons, List.mem_cons, not_or] at h
    have h1 : (e.1 == k) = false := by
      simp only [beq_eq_false_iff_ne, ne_eq]; exact fun h' => h.1 h'.symm
    have := ih h.2
    simp only [Py.dictGet?, List.cons_append, List.find?, h1] at this ⊢
    exact this

theorem dictSet_append_cons (d1 d2 : List (String × ν)) (k : String) (v v' : ν)
    (h : k ∉ d1.map (·.1)) : Py.dictSet (d1 ++ (k, v) :: d2) k v' = d1 ++ (k, v') :: d2 := by
  induction d1 with
  | nil => simp [Py.dictSet]
  | cons e d ih =>
    simp only [List.map_cons, List.mem_cons, not_or] at h
    have h1 : (e.1 == k) = false := by
      simp only [beq_eq_false_iff_ne, ne_eq]; exact fun h' => h.1 h'.symm
    obtain ⟨k', w⟩ := e
    simp only [List.cons_append, Py.dictSet, h1, ih h.2]
    rfl

/-- a key is either absent, or the dictionary splits at its first occurrence -/
theorem dict_split (d : List (String × ν)) (k : String) :
    k ∉ d.map (·.1) ∨ ∃ d1 v d2, d = d1 ++ (k, v) :: d2 ∧ k ∉ d1.map (·.1) := by
  induction d with
  | nil => left; simp
  | cons e d ih =>
    obtain ⟨k', w⟩ := e
    by_cases hk : k' = k
    · right; exact ⟨[], w, d, by simp [hk], by simp⟩
    · rcases ih with h | ⟨d1, v, d2, hd, hn⟩
      · left
        simp only [List.map_cons, List.mem_cons, not_or]
        exact ⟨fun h' => hk h'.symm, h⟩
      · right
        refine ⟨(k', w) :: d1, v, d2, by simp [hd], ?_⟩
        simp only [List.map_cons, List.mem_cons, not_or]
        exact ⟨fun h' => hk h'.symm, hn⟩

end Dict

/-! ## `upsert` -/

theorem upsert_of_any (rules : List Rule) (r : Rule)
    (h : rules.any (·.operation == r.operation) = true) :
    upsert rules r = rules.map fun e => if e.operation == r.operation then r else e := by
  simp only [upsert, h, if_true]

theorem upsert_of_not_mem (rules : List Rule) (r : Rule)
    (h : r.operation ∉ rules.map (·.operation)) : upsert rules r = rules ++ [r] := by
  have : rules.any (·.operation == r.operation) = false := by
    rw [Bool.eq_false_iff]
    intro h'
    rw [List.any_eq_true] at h'
    obtain ⟨e, he, heq⟩ := h'
    exact h (List.mem_map.mpr ⟨e, he, by simpa using heq⟩)
  simp [upsert, this]

theorem upsert_cases (rules : List Rule) (r : Rule) :
    (r.operation ∈ rules.map (·.operation) ∧
      upsert rules r = rules.map fun e => if e.operation == r.operation then r else e) ∨
    (r.operation ∉ rules.map (·.operation) ∧ upsert rules r = rules ++ [r]) := by
  by_cases h : r.operation ∈ rules.map (·.operation)
  · left
    refine ⟨h, upsert_of_any _ _ ?_⟩
    obtain ⟨e, he, heq⟩ := List.mem_map.mp h
    exact List.any_eq_true.mpr ⟨e, he, by simp [heq]⟩
  · right; exact ⟨h, upsert_of_not_mem _ _ h⟩

theorem mem_upsert (rules : List Rule) (r r' : Rule) :
    r' ∈ upsert rules r ↔ r' = r ∨ (r' ∈ rules ∧ r'.operation ≠ r.operation) := by
  rcases upsert_cases rules r with ⟨hm, heq⟩ | ⟨hm, heq⟩
  · rw [heq, List.mem_map]
    constructor
    · rintro ⟨e, he, hif⟩
      by_cases hop : e.operation = r.operation
      · left; simp [hop] at hif; exact hif.symm
      · right
        have : (e.operation == r.operation) = false := by simpa using hop
        simp only [this] at hif
        subst hif; exact ⟨he, hop⟩
    · rintro (rfl | ⟨hin, hne⟩)
      · obtain ⟨e, he, heq'⟩ := List.mem_map.mp hm
        exact ⟨e, he, by simp [heq']⟩
      · refine ⟨r', hin, ?_⟩
        have : (r'.operation == r.operation) = false := by simpa using hne
        simp [this]
  · rw [heq, List.mem_append, List.mem_singleton]
    constructor
    · rintro (h | h)
      · right
        refine ⟨h, fun h' => hm ?_⟩
        rw [← h']; exact List.mem_map.mpr ⟨r', h, rfl⟩
      · left; exact h
    · rintro (h | h)
      · right; exact h
      · left; exact h.1

theorem upsert_ops_of_mem (rules : List Rule) (r : Rule) :
    ((rules.map fun e => if e.operation == r.operation then r else e).map (·.operation)) =
      rules.map (·.operation) := by
  rw [List.map_map]
  apply List.map_congr_left
  intro e _
  by_cases hop : e.operation = r.operation
  · simp [hop]
  · simp [hop]

/-! ## `loadFrom` -/

/-- `C12.rule_reload` with a tail: an exported rule at the head of a recipe is replayed as the
    corresponding `add` call -/
theorem loadFrom_rule_cons (r : Rule) (h : ctorOk r.cfg = true) (st : State) (rest : List J) :
    loadFrom false st (ruleToJ r :: rest) =
      (match add st r.regex r.operation (some r.cfg) r.alg with
       | .ok st' => loadFrom false st' rest
       | .error e => (.error e, st)) := by
  obtain ⟨regex, op, alg, cfg⟩ := r
  have hc := C12.cfg_roundtrip cfg h
  simp only [loadFrom, ruleToJ, J.get?, List.find?, beq_self_eq_true, Option.map, Except.map]
  cases hadd : add st regex op (some cfg) alg <;> simp [hadd, hc]

end RecipeLemmas
