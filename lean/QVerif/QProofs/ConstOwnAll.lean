import QProofs.ConstSrc
import QProofs.ConstCover
/-!
# A constant quantized with its own reference parameters: EVERY element decodes to within
`s·(1/2 + 2^(bits+4)·2^-24)` of the original

No hypothesis on the position of the elements relative to the representable range is left: the
parameters of a channel are `zpScale1` of the channel's true min and max (`C04.weight_stats_true_minmax`,
`MatParams.zpScale_elems`), every element of the channel lies between them, and
`ConstCover.decode_minmax` covers the elements that are clipped.  Side conditions: 2..16 bits,
well-formed data (as many values as the shape says), magnitudes at most `2^99`.
-/
open Graph Mat Cfg Pipeline Arith Nd MatParams Num Bytes
open ConstBytes ConstProv ConstQuant ConstSrc

set_option autoImplicit false

namespace ConstOwnAll

theorem own_decode_all (env : Env) (oi : OpInfo) (t : Tensor) (tc : TCfg) (d : Arr Rat) (mn mx : FArr)
    (qdim : Option Nat) (qp : QParams) (q : IArr)
    (hd : constData env t = some d) (hi : initMinMax env oi t d = .ok (mn, mx))
    (hp : refParams tc.bits.toNat tc.symmetric qdim mn mx = .ok qp)
    (hu : uniformQuantize ⟨d, .f32⟩ qp = .ok q)
    (hb2 : 2 ≤ qp.bits) (hb16 : qp.bits ≤ 16)
    (hwf : d.data.length = numel d.shape)
    (hmag : ∀ i < numel d.shape, |d.data.getD i 0| ≤ (2:Rat)^(99:Int)) :
    ∀ i < numel d.shape,
      |dqVal true (storageBits qp.bits) (storageBits qp.bits) .f32 (q.arr.data.getD i 0)
          (qp.zp.arr.data.getD (bindex d.shape qp.scale.arr.shape i) 0)
          (qp.scale.arr.data.getD (bindex d.shape qp.scale.arr.shape i) 0) - d.data.getD i 0|
        ≤ qp.scale.arr.data.getD (bindex d.shape qp.scale.arr.shape i) 0
            * (1/2 + (2:Rat)^(qp.bits + 4) * ArithRounded.u32) := by
  obtain ⟨f1, f2, _, f4, f5, f6, f7, f8, f9, f10, f11⟩ := own_facts env oi t tc d mn mx qdim qp hd hi hp
  obtain ⟨p1, p2, hord, hsh, _, _, _, hcell, hall⟩ := C04.weight_stats_true_minmax env oi t d mn mx hd hi
  have hcodes := ConstValue.weight_codes d qp q hu f8 f9
  -- the parameters of every channel are the scalar core on the channel's statistics
  have hchan : ∀ j < numel qp.scale.arr.shape,
      zpScale1 .f32 qp.bits qp.symmetric (mn.arr.data.getD j 0) (mx.arr.data.getD j 0)
        = .ok (qp.zp.arr.data.getD j 0, qp.scale.arr.data.getD j 0) := by
    unfold refParams at hp
    cases hz : zpScale tc.bits.toNat tc.symmetric mn mx with
    | error e => rw [hz] at hp; cases hp
    | ok zs =>
      obtain ⟨zp, scale⟩ := zs
      rw [hz] at hp
      simp only [Except.ok.injEq] at hp
      subst hp
      obtain ⟨_, hpr, rs, hrs, s1, s2, l1, l2, hel⟩ := zpScale_elems _ _ mn mx zp scale hz
      rw [← hord.1, bshapeAny_self] at hrs
      cases hrs
      intro j hj
      simp only at hj ⊢
      rw [s2] at hj
      have hz' : zp.arr.data[j]? = some (zp.arr.data.getD j 0) := by
        rw [List.getD_eq_getElem?_getD, List.getElem?_eq_getElem (by rw [l1]; exact hj), Option.getD_some]
      have hs' : scale.arr.data[j]? = some (scale.arr.data.getD j 0) := by
        rw [List.getD_eq_getElem?_getD, List.getElem?_eq_getElem (by rw [l2]; exact hj), Option.getD_some]
      have := hel j _ _ hz' hs'
      rw [p1, p2] at this
      rw [← hord.1, bindex_self _ _ hj] at this
      exact this
  intro i hilt
  have hisz : i < d.size := by unfold Arr.size; rw [hwf]; exact hilt
  -- the element lies between the statistics of its channel
  obtain ⟨hjc, hlo, hhi⟩ := hall hwf i hisz
  rw [← f6] at hjc hlo hhi
  have hj : bindex d.shape qp.scale.arr.shape i < numel qp.scale.arr.shape :=
    bindex_lt_of_into _ _ i f9 hilt
  -- the statistics of the channel are elements of the channel
  have hstat : |mn.arr.data.getD (bindex d.shape qp.scale.arr.shape i) 0| ≤ (2:Rat)^(99:Int) ∧
      |mx.arr.data.getD (bindex d.shape qp.scale.arr.shape i) 0| ≤ (2:Rat)^(99:Int) := by
    have hjc' := hjc
    rcases hcell _ hjc' with ⟨hn, _, _⟩ | ⟨⟨i1, hi1, _, e1⟩, ⟨i2, hi2, _, e2⟩, _⟩
    · rw [← f6] at hn
      exact absurd rfl (hn i hisz)
    · rw [show mn.arr.data.getD (bindex d.shape qp.scale.arr.shape i) 0 = d.data.getD i1 0 from e1,
        show mx.arr.data.getD (bindex d.shape qp.scale.arr.shape i) 0 = d.data.getD i2 0 from e2]
      have h1 : i1 < numel d.shape := by unfold Arr.size at hi1; rw [hwf] at hi1; exact hi1
      have h2 : i2 < numel d.shape := by unfold Arr.size at hi2; rw [hwf] at hi2; exact hi2
      exact ⟨hmag i1 h1, hmag i2 h2⟩
  have hzw : storageBits qp.bits = 8 ∨ storageBits qp.bits = 16 := by
    unfold storageBits; split_ifs <;> simp
  rw [hcodes i hilt, f4, f5]
  exact ConstCover.decode_minmax qp.bits hb2 hb16 qp.symmetric (storageBits qp.bits) hzw _ _ (le_trans hlo hhi)
    _ _ (hchan _ hj) hstat.1 hstat.2 _ hlo hhi

end ConstOwnAll
