import QProofs.ArithLemmas
import Mathlib.Tactic.NormNum
/-!
# Auxiliary lemmas for `QProofs/ArithRounded.lean`

Uniform error bounds for `Prec.rn` with `pr ∈ {f32, f64}` (unit roundoff weakened to `2^-24`
for both formats, so that all later estimates are *linear* problems with numeric coefficients),
`rhe` near an integer, clipping, and `roundClip` as a plain integer clip.
-/
open Num Arith PrecL ArithL

namespace RAux

/-- `2^-24` as a numeral: the unit roundoff of float32 (an upper bound of that of float64) -/
def u24 : Rat := 1/16777216
/-- `2^-60` as a numeral: an upper bound of half the smallest sub-normal of float32 and float64 -/
def tiny : Rat := 1/1152921504606846976

theorem u24_pos : 0 < u24 := by norm_num [u24]
theorem tiny_pos : 0 < tiny := by norm_num [tiny]
theorem u24_eq : u24 = (2:Rat)^(-24:Int) := by norm_num [u24]

theorem pow_p_le (pr : Prec) (hpr : pr = .f32 ∨ pr = .f64) : (2:Rat)^(-(pr.p:Int)) ≤ u24 := by
  rcases hpr with rfl | rfl
  · norm_num [Prec.p, u24]
  · have h : (2:Rat)^(-53:Int) ≤ (2:Rat)^(-24:Int) := zpow_le_zpow_right₀ (by norm_num) (by norm_num)
    have e : (2:Rat)^(-24:Int) = u24 := u24_eq.symm
    rw [e] at h
    simpa [Prec.p] using h

theorem emin_le126 (pr : Prec) (hpr : pr = .f32 ∨ pr = .f64) : (2:Rat)^pr.emin ≤ (2:Rat)^(-126:Int) := by
  rcases hpr with rfl | rfl
  · simp [Prec.emin]
  · exact zpow_le_zpow_right₀ (by norm_num) (by simp [Prec.emin])

theorem small126 : (2:Rat)^(-126:Int) ≤ 1 / 10000000000 := by
  have : (2:Rat)^(-126:Int) ≤ (2:Rat)^(-40:Int) := zpow_le_zpow_right₀ (by norm_num) (by norm_num)
  have h2 : (2:Rat)^(-40:Int) ≤ 1 / 10000000000 := by norm_num
  exact le_trans this h2

theorem ne_exact (pr : Prec) (hpr : pr = .f32 ∨ pr = .f64) : pr ≠ .exact := by
  rcases hpr with rfl | rfl <;> decide

/-- relative error `2^-24` for float32 and float64 in (at least) the float32 normal range -/
theorem rn_rel24 (pr : Prec) (hpr : pr = .f32 ∨ pr = .f64) (x : Rat)
    (hn : (2:Rat)^(-126:Int) ≤ |x|) : |pr.rn x - x| ≤ u24 * |x| := by
  have h := PrecL.rn_relerr pr x (le_trans (emin_le126 pr hpr) hn)
  exact le_trans h (mul_le_mul_of_nonneg_right (pow_p_le pr hpr) (abs_nonneg _))

theorem rnPos_sub_err (p : Nat) (emin : Int) (x : Rat) (hx : 0 < x) (h : x < (2:Rat)^emin) :
    |rnPos p emin x - x| ≤ (1/2) * (2:Rat)^(emin - ((p:Int) - 1)) := by
  have hf : flog2 x < emin := by
    obtain ⟨h1, _⟩ := Rounding.flog2_spec x hx
    exact (zpow_lt_zpow_iff_right₀ (by norm_num : (1:Rat) < 2)).mp (lt_of_le_of_lt h1 h)
  have := Rounding.rnPos_abserr p emin x
  rwa [max_eq_right (le_of_lt hf)] at this

/-- absolute error of a sub-normal result: half the sub-normal spacing -/
theorem rn_sub_err (p : Nat) (emin : Int) (x : Rat) (h : |x| < (2:Rat)^emin) :
    |Num.rn p emin x - x| ≤ (1/2) * (2:Rat)^(emin - ((p:Int) - 1)) := by
  unfold Num.rn
  split_ifs with h0 hp
  · subst h0
    have : (0:Rat) < (2:Rat)^(emin - ((p:Int) - 1)) := zpow_pos (by norm_num) _
    simp only [sub_self, abs_zero]; linarith
  · rw [abs_of_pos hp] at h; exact rnPos_sub_err p emin x hp h
  · have hneg : x < 0 := lt_of_le_of_ne (not_lt.mp hp) h0
    rw [abs_of_neg hneg] at h
    have := rnPos_sub_err p emin (-x) (by linarith) h
    have e : -rnPos p emin (-x) - x = -(rnPos p emin (-x) - -x) := by ring
    rw [e, abs_neg]; exact this

/-- error bound valid for *every* argument (normal or sub-normal), float32 and float64 -/
theorem rn_abs24 (pr : Prec) (hpr : pr = .f32 ∨ pr = .f64) (x : Rat) :
    |pr.rn x - x| ≤ u24 * |x| + tiny := by
  by_cases hn : (2:Rat)^pr.emin ≤ |x|
  · have h := PrecL.rn_relerr pr x hn
    have h2 := mul_le_mul_of_nonneg_right (pow_p_le pr hpr) (abs_nonneg x)
    have := tiny_pos
    linarith
  · have hn' : |x| < (2:Rat)^pr.emin := not_le.mp hn
    rw [rn_eq pr (ne_exact pr hpr)]
    have h := rn_sub_err pr.p pr.emin x hn'
    have ht : (1/2) * (2:Rat)^(pr.emin - ((pr.p:Int) - 1)) ≤ tiny := by
      have h60 : (2:Rat)^(-60:Int) = tiny := by norm_num [tiny]
      have hle : (2:Rat)^(pr.emin - ((pr.p:Int) - 1)) ≤ (2:Rat)^(-60:Int) := by
        apply zpow_le_zpow_right₀ (by norm_num)
        rcases hpr with rfl | rfl <;> simp [Prec.emin, Prec.p]
      have hpos : (0:Rat) < (2:Rat)^(pr.emin - ((pr.p:Int) - 1)) := zpow_pos (by norm_num) _
      rw [h60] at hle
      linarith
    have : 0 ≤ u24 * |x| := mul_nonneg (le_of_lt u24_pos) (abs_nonneg _)
    linarith

/-- multiplicative form of the relative error -/
theorem rel_delta (pr : Prec) (hpr : pr = .f32 ∨ pr = .f64) (x : Rat)
    (hn : (2:Rat)^(-126:Int) ≤ |x|) : ∃ δ : Rat, |δ| ≤ u24 ∧ pr.rn x = x * (1 + δ) := by
  have hx : 0 < |x| := lt_of_lt_of_le (zpow_pos (by norm_num) _) hn
  have hx0 : x ≠ 0 := abs_pos.mp hx
  refine ⟨(pr.rn x - x) / x, ?_, by field_simp; ring⟩
  rw [abs_div, div_le_iff₀ hx]; exact rn_rel24 pr hpr x hn

theorem pow100 : (2:Rat)^(-100:Int) * (2:Rat)^(100:Int) = 1 := by
  rw [← zpow_add₀ (by norm_num)]; norm_num

theorem pow100_126 : (2:Rat)^(-126:Int) ≤ (2:Rat)^(-100:Int) :=
  zpow_le_zpow_right₀ (by norm_num) (by norm_num)

/-- the float32 reciprocal of a scale of moderate magnitude: `rn32(1/s) * s = 1 + δ` -/
theorem inv_delta (s : Rat) (hs1 : (2:Rat)^(-100:Int) ≤ s) (hs2 : s ≤ (2:Rat)^(100:Int)) :
    ∃ δ : Rat, |δ| ≤ u24 ∧ Prec.f32.rn (1 / s) * s = 1 + δ := by
  have hp : (0:Rat) < (2:Rat)^(-100:Int) := zpow_pos (by norm_num) _
  have hs0 : 0 < s := lt_of_lt_of_le hp hs1
  have hinv : (2:Rat)^(-100:Int) ≤ 1 / s := by
    rw [le_div_iff₀ hs0]
    calc (2:Rat)^(-100:Int) * s ≤ (2:Rat)^(-100:Int) * (2:Rat)^(100:Int) :=
          mul_le_mul_of_nonneg_left hs2 (le_of_lt hp)
      _ = 1 := pow100
  have hpos : 0 < 1 / s := lt_of_lt_of_le hp hinv
  obtain ⟨δ, hδ, e⟩ := rel_delta .f32 (Or.inl rfl) (1 / s)
    (by rw [abs_of_pos hpos]; exact le_trans pow100_126 hinv)
  refine ⟨δ, hδ, ?_⟩
  rw [e]; field_simp

/-- rounding an integer multiple of a scale of moderate magnitude: zero, or a normal number -/
theorem int_mul_delta (pr : Prec) (hpr : pr = .f32 ∨ pr = .f64) (k : Int) (s : Rat)
    (hs1 : (2:Rat)^(-100:Int) ≤ s) :
    ∃ δ : Rat, |δ| ≤ u24 ∧ pr.rn ((k:Rat) * s) = (k:Rat) * s * (1 + δ) := by
  have hp : (0:Rat) < (2:Rat)^(-100:Int) := zpow_pos (by norm_num) _
  have hs0 : 0 < s := lt_of_lt_of_le hp hs1
  by_cases hk : k = 0
  · subst hk
    refine ⟨0, by simpa using le_of_lt u24_pos, ?_⟩
    simp [rn_zero]
  · apply rel_delta pr hpr
    have h1 : (1:Rat) ≤ |(k:Rat)| := by
      have : (1:Int) ≤ |k| := Int.one_le_abs hk
      exact_mod_cast this
    rw [abs_mul, abs_of_pos hs0]
    calc (2:Rat)^(-126:Int) ≤ (2:Rat)^(-100:Int) := pow100_126
      _ ≤ s := hs1
      _ = 1 * s := (one_mul s).symm
      _ ≤ |(k:Rat)| * s := mul_le_mul_of_nonneg_right h1 (le_of_lt hs0)

/-- `(1+δ₁)(1+δ₂)(1+δ₃) = 1 + θ` with `|θ| ≤ 4u` -/
theorem three_delta (d1 d2 d3 : Rat) (h1 : |d1| ≤ u24) (h2 : |d2| ≤ u24) (h3 : |d3| ≤ u24) :
    |(1 + d1) * (1 + d2) * (1 + d3) - 1| ≤ 4 * u24 := by
  have hu := le_of_lt u24_pos
  have h12 : |d1 * d2| ≤ u24 * u24 := by rw [abs_mul]; exact mul_le_mul h1 h2 (abs_nonneg _) hu
  have h13 : |d1 * d3| ≤ u24 * u24 := by rw [abs_mul]; exact mul_le_mul h1 h3 (abs_nonneg _) hu
  have h23 : |d2 * d3| ≤ u24 * u24 := by rw [abs_mul]; exact mul_le_mul h2 h3 (abs_nonneg _) hu
  have h123 : |d1 * d2 * d3| ≤ u24 * u24 * u24 := by
    rw [abs_mul]; exact mul_le_mul h12 h3 (abs_nonneg _) (mul_nonneg hu hu)
  have e : (1 + d1) * (1 + d2) * (1 + d3) - 1
      = d1 + d2 + d3 + d1 * d2 + d1 * d3 + d2 * d3 + d1 * d2 * d3 := by ring
  rw [e]
  rw [abs_le] at h1 h2 h3 h12 h13 h23 h123 ⊢
  have hn : u24 * u24 ≤ u24 / 4 := by norm_num [u24]
  have hn3 : u24 * u24 * u24 ≤ u24 / 4 := by norm_num [u24]
  constructor <;> linarith [h1.1, h1.2, h2.1, h2.2, h3.1, h3.2, h12.1, h12.2, h13.1, h13.2,
    h23.1, h23.2, h123.1, h123.2]

/-- `np.rint` of a number strictly within one half of an integer is that integer -/
theorem rhe_eq_of_near (x : Rat) (c : Int) (h : |x - c| < 1/2) : rhe x = c := by
  have h1 := Rounding.rhe_err x
  rw [abs_lt] at h
  rw [abs_le] at h1
  have h3 : ((rhe x - c : Int) : Rat) < 1 := by push_cast; linarith [h.1, h.2, h1.1, h1.2]
  have h4 : (-1:Rat) < ((rhe x - c : Int) : Rat) := by push_cast; linarith [h.1, h.2, h1.1, h1.2]
  have h5 : rhe x - c < 1 := by exact_mod_cast h3
  have h6 : -1 < rhe x - c := by exact_mod_cast h4
  omega

/-- clipping towards an interval that contains `y` does not increase the distance to `y` -/
theorem clip_near (r lo hi : Int) (y : Rat) (h1 : (lo:Rat) ≤ y) (h2 : y ≤ (hi:Rat)) :
    |((clipI r lo hi : Int) : Rat) - y| ≤ |(r:Rat) - y| := by
  unfold clipI
  split_ifs with a b
  · have : (r:Rat) < lo := by exact_mod_cast a
    rw [abs_of_nonpos (by linarith), abs_of_nonpos (by linarith)]; linarith
  · have : (hi:Rat) < r := by exact_mod_cast b
    rw [abs_of_nonneg (by linarith), abs_of_nonneg (by linarith)]; linarith
  · exact le_refl _

theorem wrap32 (z : Int) (h1 : -100000 ≤ z) (h2 : z ≤ 100000) : wrapInt 32 z = z :=
  wrapInt_id 32 (by norm_num) z (by norm_num; omega) (by norm_num; omega)

theorem storage_ge (bits : Nat) (h : bits ≤ 64) : bits ≤ storageBits bits := by
  unfold storageBits; split_ifs <;> omega

/-- for the supported widths `roundClip` is `np.rint` followed by an integer clip (the final cast
    to the storage type does not wrap) -/
theorem roundClip_eq (bits : Nat) (hb2 : 2 ≤ bits) (hb : bits ≤ 32) (narrow : Bool) (v : Rat) :
    roundClip bits narrow v
      = clipI (rhe v) (qmin bits + (if narrow then 1 else 0)) (qmax bits) := by
  unfold roundClip
  have hlo : qLoI bits narrow = qmin bits + (if narrow then 1 else 0) := by
    unfold qLoI; rw [if_pos (by omega)]
  have hhi : qHiI bits = qmax bits := by unfold qHiI; rw [if_pos (by omega)]
  rw [hlo, hhi]
  have h2 : (2:Int) ≤ 2^(bits-1) := by
    calc (2:Int) = 2^1 := by norm_num
      _ ≤ 2^(bits-1) := pow_le_pow_right₀ (by norm_num) (by omega)
  have hqmin : qmin bits = -(2:Int)^(bits-1) := rfl
  have hqmax : qmax bits = (2:Int)^(bits-1) - 1 := rfl
  have hsto := storage_ge bits (by omega)
  have hpw : (2:Int)^(bits-1) ≤ (2:Int)^(storageBits bits - 1) :=
    pow_le_pow_right₀ (by norm_num) (by omega)
  have hlo0 : qmin bits ≤ qmin bits + (if narrow then 1 else 0) := by split_ifs <;> omega
  have hlo1 : qmin bits + (if narrow then 1 else 0) ≤ qmax bits := by split_ifs <;> omega
  generalize qmin bits + (if narrow then 1 else 0) = L at hlo0 hlo1 ⊢
  have hc : L ≤ clipI (rhe v) L (qmax bits) ∧ clipI (rhe v) L (qmax bits) ≤ qmax bits := by
    unfold clipI; split_ifs <;> omega
  exact wrapInt_id _ (by omega) _ (by omega) (by omega)

/-- integer bounds of the quantized range for 2..16 bits -/
theorem range_bounds (bits : Nat) (hb2 : 2 ≤ bits) (hb16 : bits ≤ 16) :
    qmin bits = -(2:Int)^(bits-1) ∧ qmax bits = (2:Int)^(bits-1) - 1 ∧
    (2:Int) ≤ (2:Int)^(bits-1) ∧ (2:Int)^(bits-1) ≤ 32768 := by
  refine ⟨rfl, rfl, ?_, ?_⟩
  · calc (2:Int) = 2^1 := by norm_num
      _ ≤ 2^(bits-1) := pow_le_pow_right₀ (by norm_num) (by omega)
  · calc (2:Int)^(bits-1) ≤ (2:Int)^15 := pow_le_pow_right₀ (by norm_num) (by omega)
      _ = 32768 := by norm_num

end RAux
