import QProofs.RecipeLemmas
/-!
# Recipe histories: declarative characterisation of the state (C11) and reload of reachable states (C12)

All five theorems below are proved as originally stated (no statement was changed).
-/
open Cfg Recipe RecipeLemmas

namespace RecipeHistory

/-- one `update_quantization_recipe(regex, op, cfg, alg)` call (the config has already passed its
    constructor; `none` = default config) -/
structure Cmd where
  regex : String
  op : String
  cfg : Option OpCfg
  alg : String
  deriving Repr, DecidableEq

def ruleOf (c : Cmd) : Rule := ⟨c.regex, c.op, c.alg, c.cfg.getD {}⟩

/-- the state after a history; a rejected call (`ValueError`) leaves the state unchanged -/
def run (cmds : List Cmd) : State :=
  cmds.foldl (fun st c => match add st c.regex c.op c.cfg c.alg with | .ok st' => st' | .error _ => st) []

/-- the call is accepted by `add_quantization_config` -/
def accepted (c : Cmd) : Bool :=
  c.op == Tables.allOpsKey || c.alg == Tables.algNoQuantize || Policy.accepts c.alg c.op (c.cfg.getD {})

/-- a later accepted call `c'` replaces / resets the rule written by `c` -/
def overrides (c' c : Cmd) : Bool :=
  c'.regex == c.regex && (c'.op == Tables.allOpsKey || c'.op == c.op)

/-- reachable-state invariant -/
structure StateInv (st : State) : Prop where
  keysNodup : (st.map (·.1)).Nodup
  scopeNonempty : ∀ e ∈ st, e.2 ≠ []
  regexOfKey : ∀ e ∈ st, ∀ r ∈ e.2, r.regex = e.1
  opsNodup : ∀ e ∈ st, (e.2.map (·.operation)).Nodup
  starFirst : ∀ e ∈ st, ∀ (i : Nat) r, e.2[i]? = some r → r.operation = Tables.allOpsKey → i = 0
  supported : ∀ e ∈ st, ∀ r ∈ e.2, r.operation = Tables.allOpsKey ∨ r.alg = Tables.algNoQuantize ∨
    Policy.accepts r.alg r.operation r.cfg = true

/-! ## Auxiliary notions -/

/-- per-scope part of `StateInv` -/
structure ScopeOK (k : String) (rules : List Rule) : Prop where
  nonempty : rules ≠ []
  regex : ∀ r ∈ rules, r.regex = k
  ops : (rules.map (·.operation)).Nodup
  star : ∀ (i : Nat) r, rules[i]? = some r → r.operation = Tables.allOpsKey → i = 0
  supp : ∀ r ∈ rules, r.operation = Tables.allOpsKey ∨ r.alg = Tables.algNoQuantize ∨
    Policy.accepts r.alg r.operation r.cfg = true

theorem stateInv_iff (st : State) :
    StateInv st ↔ (st.map (·.1)).Nodup ∧ ∀ e ∈ st, ScopeOK e.1 e.2 := by
  constructor
  · intro h
    exact ⟨h.keysNodup, fun e he => ⟨h.scopeNonempty e he, h.regexOfKey e he, h.opsNodup e he,
      h.starFirst e he, h.supported e he⟩⟩
  · rintro ⟨h1, h2⟩
    exact ⟨h1, fun e he => (h2 e he).nonempty, fun e he => (h2 e he).regex,
      fun e he => (h2 e he).ops, fun e he => (h2 e he).star, fun e he => (h2 e he).supp⟩

theorem rev_ind {α : Type} (P : List α → Prop) (nil : P [])
    (snoc : ∀ l a, P l → P (l ++ [a])) : ∀ l, P l := by
  intro l
  rw [← List.reverse_reverse l]
  induction l.reverse with
  | nil => exact nil
  | cons a t ih => rw [List.reverse_cons]; exact snoc _ _ ih

/-- one step of `run` -/
def stepOf (st : State) (c : Cmd) : State :=
  match add st c.regex c.op c.cfg c.alg with | .ok st' => st' | .error _ => st

theorem run_snoc (cs : List Cmd) (c : Cmd) : run (cs ++ [c]) = stepOf (run cs) c := by
  simp only [run, List.foldl_append, List.foldl_cons, List.foldl_nil, stepOf]

theorem ruleOf_regex (c : Cmd) : (ruleOf c).regex = c.regex := rfl
theorem ruleOf_op (c : Cmd) : (ruleOf c).operation = c.op := rfl

theorem accepted_iff (c : Cmd) :
    accepted c = true ↔ c.op = Tables.allOpsKey ∨ c.alg = Tables.algNoQuantize ∨
      Policy.accepts c.alg c.op (c.cfg.getD {}) = true := by
  simp [accepted, or_assoc]

/-! ## `add`, case by case -/

theorem add_rejected (st : State) (c : Cmd) (hacc : accepted c = false) :
    add st c.regex c.op c.cfg c.alg = .error .valueError := by
  have h : ¬ (c.op = Tables.allOpsKey ∨ c.alg = Tables.algNoQuantize ∨
      Policy.accepts c.alg c.op (c.cfg.getD {}) = true) := by
    intro hh
    have := (accepted_iff c).mpr hh
    simp [hacc] at this
  simp only [not_or] at h
  obtain ⟨h1, h2, h3⟩ := h
  have h1' : (c.op == Tables.allOpsKey) = false := by simpa using h1
  have h2' : (c.alg != Tables.algNoQuantize) = true := by simpa using h2
  have h3' : Policy.accepts c.alg c.op (c.cfg.getD {}) = false := by simpa using h3
  simp [add, h1', h2', h3']

theorem add_absent (st : State) (c : Cmd) (hk : c.regex ∉ st.map (·.1)) (hacc : accepted c = true) :
    add st c.regex c.op c.cfg c.alg = .ok (st ++ [(c.regex, [ruleOf c])]) := by
  unfold add
  simp only [dictGet?_of_not_mem _ _ hk, dictSet_of_not_mem _ _ _ hk]
  by_cases h1 : c.op = Tables.allOpsKey
  · simp [h1, ruleOf]
  · have h1' : (c.op == Tables.allOpsKey) = false := by simpa using h1
    rcases (accepted_iff c).mp hacc with h | h | h
    · exact absurd h h1
    · simp [h1', h, ruleOf]
    · simp [h1', h, ruleOf]

theorem add_present (d1 d2 : State) (old : List Rule) (c : Cmd) (hk : c.regex ∉ d1.map (·.1))
    (hacc : accepted c = true) :
    add (d1 ++ (c.regex, old) :: d2) c.regex c.op c.cfg c.alg =
      .ok (d1 ++ (c.regex, if c.op = Tables.allOpsKey then [ruleOf c] else upsert old (ruleOf c)) :: d2) := by
  unfold add
  simp only [dictGet?_append_cons _ _ _ _ hk, dictSet_append_cons _ _ _ _ _ hk]
  by_cases h1 : c.op = Tables.allOpsKey
  · simp [h1, ruleOf]
  · have h1' : (c.op == Tables.allOpsKey) = false := by simpa using h1
    rcases (accepted_iff c).mp hacc with h | h | h
    · exact absurd h h1
    · simp [h1', h1, h, ruleOf]
    · simp [h1', h1, h, ruleOf]

theorem stepOf_rejected (st : State) (c : Cmd) (hacc : accepted c = false) : stepOf st c = st := by
  simp [stepOf, add_rejected st c hacc]

theorem stepOf_cases (st : State) (c : Cmd) (hacc : accepted c = true) :
    (c.regex ∉ st.map (·.1) ∧ stepOf st c = st ++ [(c.regex, [ruleOf c])]) ∨
    (∃ d1 old d2, st = d1 ++ (c.regex, old) :: d2 ∧ c.regex ∉ d1.map (·.1) ∧
      stepOf st c = d1 ++ (c.regex,
        if c.op = Tables.allOpsKey then [ruleOf c] else upsert old (ruleOf c)) :: d2) := by
  rcases dict_split st c.regex with h | ⟨d1, old, d2, hd, hn⟩
  · left; exact ⟨h, by simp [stepOf, add_absent st c h hacc]⟩
  · right
    refine ⟨d1, old, d2, hd, hn, ?_⟩
    subst hd
    simp [stepOf, add_present d1 d2 old c hn hacc]

/-! ## Preservation of the invariant -/

theorem scopeOK_single (c : Cmd) (hacc : accepted c = true) : ScopeOK c.regex [ruleOf c] := by
  refine ⟨by simp, ?_, by simp, ?_, ?_⟩
  · intro r hr; rw [List.mem_singleton.mp hr]; rfl
  · intro i r hi _
    cases i with
    | zero => rfl
    | succ n => simp at hi
  · intro r hr; rw [List.mem_singleton.mp hr]; exact (accepted_iff c).mp hacc

theorem scopeOK_upsert (k : String) (old : List Rule) (r : Rule) (hold : ScopeOK k old)
    (hr : r.regex = k) (hop : r.operation ≠ Tables.allOpsKey)
    (hs : r.alg = Tables.algNoQuantize ∨ Policy.accepts r.alg r.operation r.cfg = true) :
    ScopeOK k (upsert old r) := by
  have hmem := mem_upsert old r
  refine ⟨?_, ?_, ?_, ?_, ?_⟩
  · rcases upsert_cases old r with ⟨_, heq⟩ | ⟨_, heq⟩
    · rw [heq]; simpa using hold.nonempty
    · rw [heq]; simp
  · intro r' hr'
    rcases (hmem r').mp hr' with rfl | ⟨h, _⟩
    · exact hr
    · exact hold.regex r' h
  · rcases upsert_cases old r with ⟨_, heq⟩ | ⟨hn, heq⟩
    · rw [heq, upsert_ops_of_mem]; exact hold.ops
    · rw [heq, List.map_append, List.nodup_append]
      refine ⟨hold.ops, by simp, ?_⟩
      intro a ha b hb
      simp only [List.map_cons, List.map_nil, List.mem_singleton] at hb
      subst hb
      intro hab; subst hab; exact hn ha
  · intro i x hi hx
    rcases upsert_cases old r with ⟨_, heq⟩ | ⟨hn, heq⟩
    · rw [heq, List.getElem?_map] at hi
      cases hoi : old[i]? with
      | none => simp [hoi] at hi
      | some e =>
        simp only [hoi, Option.map_some, Option.some.injEq] at hi
        apply hold.star i e hoi
        by_cases he : e.operation = r.operation
        · simp only [he, beq_self_eq_true, if_true] at hi
          subst hi; exact absurd hx hop
        · have : (e.operation == r.operation) = false := by simpa using he
          simp only [this] at hi
          simp at hi
          subst hi; exact hx
    · rw [heq, List.getElem?_append] at hi
      split at hi
      · exact hold.star i x hi hx
      · exfalso
        have : x = r := by
          cases hj : i - old.length with
          | zero => simp [hj] at hi; exact hi.symm
          | succ n => simp [hj] at hi
        subst this; exact hop hx
  · intro r' hr'
    rcases (hmem r').mp hr' with rfl | ⟨h, _⟩
    · exact Or.inr hs
    · exact hold.supp r' h

theorem inv_absent (st : State) (k : String) (rules : List Rule) (hinv : StateInv st)
    (hk : k ∉ st.map (·.1)) (hok : ScopeOK k rules) : StateInv (st ++ [(k, rules)]) := by
  rw [stateInv_iff] at hinv ⊢
  refine ⟨?_, ?_⟩
  · rw [List.map_append, List.nodup_append]
    refine ⟨hinv.1, by simp, ?_⟩
    intro a ha b hb
    simp only [List.map_cons, List.map_nil, List.mem_singleton] at hb
    subst hb
    intro hab; subst hab; exact hk ha
  · intro e he
    rcases List.mem_append.mp he with h | h
    · exact hinv.2 e h
    · rw [List.mem_singleton.mp h]; exact hok

theorem inv_present (d1 d2 : State) (k : String) (old new : List Rule)
    (hinv : StateInv (d1 ++ (k, old) :: d2)) (hok : ScopeOK k new) :
    StateInv (d1 ++ (k, new) :: d2) := by
  rw [stateInv_iff] at hinv ⊢
  refine ⟨?_, ?_⟩
  · have : (d1 ++ (k, new) :: d2).map (·.1) = (d1 ++ (k, old) :: d2).map (·.1) := by simp
    rw [this]; exact hinv.1
  · intro e he
    rcases List.mem_append.mp he with h | h
    · exact hinv.2 e (List.mem_append_left _ h)
    · rcases List.mem_cons.mp h with h | h
      · rw [h]; exact hok
      · exact hinv.2 e (List.mem_append_right _ (List.mem_cons_of_mem _ h))

theorem stepOf_inv (st : State) (c : Cmd) (hinv : StateInv st) : StateInv (stepOf st c) := by
  cases hacc : accepted c with
  | false => rw [stepOf_rejected st c hacc]; exact hinv
  | true =>
    rcases stepOf_cases st c hacc with ⟨hk, heq⟩ | ⟨d1, old, d2, hd, hn, heq⟩
    · rw [heq]; exact inv_absent st _ _ hinv hk (scopeOK_single c hacc)
    · rw [heq]; subst hd
      apply inv_present d1 d2 c.regex old _ hinv
      by_cases h1 : c.op = Tables.allOpsKey
      · simp only [h1, if_true]; exact scopeOK_single c hacc
      · simp only [h1, if_false]
        have hold : ScopeOK c.regex old :=
          ((stateInv_iff _).mp hinv).2 (c.regex, old) (by simp)
        apply scopeOK_upsert c.regex old (ruleOf c) hold rfl h1
        rcases (accepted_iff c).mp hacc with h | h | h
        · exact absurd h h1
        · exact Or.inl h
        · exact Or.inr h

theorem run_inv (cmds : List Cmd) : StateInv (run cmds) := by
  induction cmds using rev_ind with
  | nil => exact ⟨by simp [run], by simp [run], by simp [run], by simp [run], by simp [run], by simp [run]⟩
  | snoc cs c ih => rw [run_snoc]; exact stepOf_inv _ c ih

/-! ## Membership after one step -/

theorem regex_ne_of_mem_flatMap (d : State) (k : String) (hk : k ∉ d.map (·.1))
    (hreg : ∀ e ∈ d, ∀ r ∈ e.2, r.regex = e.1) (r : Rule) (hr : r ∈ d.flatMap (·.2)) :
    r.regex ≠ k := by
  obtain ⟨e, he, hre⟩ := List.mem_flatMap.mp hr
  intro h
  apply hk
  rw [← h, hreg e he r hre]
  exact List.mem_map.mpr ⟨e, he, rfl⟩

theorem mem_stepOf (st : State) (c : Cmd) (hinv : StateInv st) (hacc : accepted c = true) (r' : Rule) :
    r' ∈ (stepOf st c).flatMap (·.2) ↔
      r' = ruleOf c ∨ (r' ∈ st.flatMap (·.2) ∧
        ¬ (r'.regex = c.regex ∧ (c.op = Tables.allOpsKey ∨ c.op = r'.operation))) := by
  rcases stepOf_cases st c hacc with ⟨hk, heq⟩ | ⟨d1, old, d2, hd, hn, heq⟩
  · have hA := regex_ne_of_mem_flatMap st c.regex hk hinv.regexOfKey r'
    rw [heq]
    simp only [List.flatMap_append, List.flatMap_cons, List.flatMap_nil, List.append_nil,
      List.mem_append, List.mem_singleton]
    constructor
    · rintro (h | h)
      · exact Or.inr ⟨h, fun hh => hA h hh.1⟩
      · exact Or.inl h
    · rintro (h | ⟨h, _⟩)
      · exact Or.inr h
      · exact Or.inl h
  · subst hd
    have hnd := hinv.keysNodup
    simp only [List.map_append, List.map_cons, List.nodup_append, List.nodup_cons] at hnd
    have hk2 : c.regex ∉ d2.map (·.1) := hnd.2.1.1
    have hA := regex_ne_of_mem_flatMap d1 c.regex hn
      (fun e he => hinv.regexOfKey e (List.mem_append_left _ he)) r'
    have hB := regex_ne_of_mem_flatMap d2 c.regex hk2
      (fun e he => hinv.regexOfKey e (List.mem_append_right _ (List.mem_cons_of_mem _ he))) r'
    have hC : r' ∈ old → r'.regex = c.regex :=
      hinv.regexOfKey (c.regex, old) (by simp) r'
    rw [heq]
    simp only [List.flatMap_append, List.flatMap_cons, List.mem_append]
    by_cases h1 : c.op = Tables.allOpsKey
    · simp only [h1, if_true, List.mem_singleton, true_or, and_true]
      constructor
      · rintro (h | h | h)
        · exact Or.inr ⟨Or.inl h, hA h⟩
        · exact Or.inl h
        · exact Or.inr ⟨Or.inr (Or.inr h), hB h⟩
      · rintro (h | ⟨h | h | h, hne⟩)
        · exact Or.inr (Or.inl h)
        · exact Or.inl h
        · exact absurd (hC h) hne
        · exact Or.inr (Or.inr h)
    · simp only [h1, if_false, false_or, mem_upsert, ruleOf_op]
      constructor
      · rintro (h | (h | ⟨h, hop⟩) | h)
        · exact Or.inr ⟨Or.inl h, fun hh => hA h hh.1⟩
        · exact Or.inl h
        · exact Or.inr ⟨Or.inr (Or.inl h), fun hh => hop hh.2.symm⟩
        · exact Or.inr ⟨Or.inr (Or.inr h), fun hh => hB h hh.1⟩
      · rintro (h | ⟨h | h | h, hne⟩)
        · exact Or.inr (Or.inl (Or.inl h))
        · exact Or.inl h
        · exact Or.inr (Or.inl (Or.inr ⟨h, fun hh => hne ⟨hC h, hh.symm⟩⟩))
        · exact Or.inr (Or.inr h)

theorem getElem?_snoc {α : Type} (l : List α) (a x : α) (i : Nat) :
    (l ++ [a])[i]? = some x ↔ l[i]? = some x ∨ (i = l.length ∧ x = a) := by
  rw [List.getElem?_append]
  split
  · rename_i h
    constructor
    · exact Or.inl
    · rintro (h' | ⟨h', _⟩)
      · exact h'
      · omega
  · rename_i h
    have hnone : l[i]? = none := List.getElem?_eq_none (by omega)
    rw [hnone]
    cases hj : i - l.length with
    | zero =>
      have : i = l.length := by omega
      simp [this, eq_comm]
    | succ n =>
      have : i ≠ l.length := by omega
      simp [this]

theorem overrides_eq_false (c' c : Cmd) :
    overrides c' c = false ↔
      ¬ ((ruleOf c).regex = c'.regex ∧ (c'.op = Tables.allOpsKey ∨ c'.op = (ruleOf c).operation)) := by
  rw [ruleOf_regex, ruleOf_op, ← Bool.not_eq_true]
  simp only [overrides, Bool.and_eq_true, Bool.or_eq_true, beq_iff_eq]
  constructor <;> intro h hh <;> exact h ⟨hh.1.symm, hh.2⟩

/-- **C11, declarative state**: the rules present after a history are exactly the accepted calls that
    no later accepted call replaced or reset -/
theorem mem_run_iff (cmds : List Cmd) (r : Rule) :
    r ∈ (run cmds).flatMap (·.2) ↔
      ∃ (i : Nat) (c : Cmd), cmds[i]? = some c ∧ accepted c = true ∧ ruleOf c = r ∧
        ∀ (j : Nat) (c' : Cmd), i < j → cmds[j]? = some c' → accepted c' = true → overrides c' c = false := by
  induction cmds using rev_ind with
  | nil => simp [run]
  | snoc cs c ih =>
    rw [run_snoc]
    cases hacc : accepted c with
    | false =>
      rw [stepOf_rejected _ c hacc, ih]
      constructor
      · rintro ⟨i, c0, hi, ha, hr, hlater⟩
        refine ⟨i, c0, (getElem?_snoc cs c c0 i).mpr (Or.inl hi), ha, hr, ?_⟩
        intro j c' hij hj ha'
        rcases (getElem?_snoc cs c c' j).mp hj with h | ⟨_, h⟩
        · exact hlater j c' hij h ha'
        · subst h; rw [hacc] at ha'; exact absurd ha' (by simp)
      · rintro ⟨i, c0, hi, ha, hr, hlater⟩
        rcases (getElem?_snoc cs c c0 i).mp hi with h | ⟨_, h⟩
        · refine ⟨i, c0, h, ha, hr, ?_⟩
          intro j c' hij hj ha'
          exact hlater j c' hij ((getElem?_snoc cs c c' j).mpr (Or.inl hj)) ha'
        · subst h; rw [hacc] at ha; exact absurd ha (by simp)
    | true =>
      rw [mem_stepOf _ c (run_inv cs) hacc, ih]
      constructor
      · rintro (h | ⟨⟨i, c0, hi, ha, hr, hlater⟩, hno⟩)
        · refine ⟨cs.length, c, (getElem?_snoc cs c c _).mpr (Or.inr ⟨rfl, rfl⟩), hacc, h.symm, ?_⟩
          intro j c' hij hj _
          rcases (getElem?_snoc cs c c' j).mp hj with h' | ⟨h', _⟩
          · have := (List.getElem?_eq_some_iff.mp h').1
            omega
          · omega
        · refine ⟨i, c0, (getElem?_snoc cs c c0 i).mpr (Or.inl hi), ha, hr, ?_⟩
          intro j c' hij hj ha'
          rcases (getElem?_snoc cs c c' j).mp hj with h | ⟨_, h⟩
          · exact hlater j c' hij h ha'
          · subst h; subst hr
            exact (overrides_eq_false c' c0).mpr hno
      · rintro ⟨i, c0, hi, ha, hr, hlater⟩
        rcases (getElem?_snoc cs c c0 i).mp hi with h | ⟨_, h⟩
        · right
          have hil : i < cs.length := (List.getElem?_eq_some_iff.mp h).1
          refine ⟨⟨i, c0, h, ha, hr, ?_⟩, ?_⟩
          · intro j c' hij hj ha'
            exact hlater j c' hij ((getElem?_snoc cs c c' j).mpr (Or.inl hj)) ha'
          · subst hr
            exact (overrides_eq_false c c0).mp
              (hlater cs.length c hil ((getElem?_snoc cs c c _).mpr (Or.inr ⟨rfl, rfl⟩)) hacc)
        · left; subst h; exact hr.symm

/-! ## Order of the scopes -/

theorem keys_stepOf (st : State) (c : Cmd) (hacc : accepted c = true) :
    (stepOf st c).map (·.1) =
      if c.regex ∈ st.map (·.1) then st.map (·.1) else st.map (·.1) ++ [c.regex] := by
  rcases stepOf_cases st c hacc with ⟨hk, heq⟩ | ⟨d1, old, d2, hd, hn, heq⟩
  · rw [heq, if_neg hk]; simp
  · subst hd
    rw [heq]; simp

/-- scopes are scanned in order of first (accepted) insertion of their regex -/
theorem keys_order (cmds : List Cmd) :
    (run cmds).map (·.1) = ((cmds.filter accepted).map (·.regex)).eraseDups := by
  induction cmds using rev_ind with
  | nil => simp [run]
  | snoc cs c ih =>
    rw [run_snoc, List.filter_append]
    cases hacc : accepted c with
    | false =>
      rw [stepOf_rejected _ c hacc, ih]
      simp [hacc]
    | true =>
      rw [keys_stepOf _ c hacc, ih]
      simp only [List.filter_cons, hacc, if_true, List.filter_nil, List.map_append, List.map_cons,
        List.map_nil]
      rw [List.eraseDups_append]
      simp only [List.mem_eraseDups]
      by_cases hm : c.regex ∈ (cs.filter accepted).map (·.regex)
      · rw [if_pos hm]
        have : [c.regex].removeAll ((cs.filter accepted).map (·.regex)) = [] := by
          simp [List.removeAll, hm]
        rw [this]; simp
      · rw [if_neg hm]
        have : [c.regex].removeAll ((cs.filter accepted).map (·.regex)) = [c.regex] := by
          simp [List.removeAll, hm]
        rw [this]; simp [List.eraseDups_cons]

/-! ## Reload -/

/-- the `add` call replayed by `loadFrom` for an exported rule -/
def cmdOf (r : Rule) : Cmd := ⟨r.regex, r.operation, some r.cfg, r.alg⟩

theorem ruleOf_cmdOf (r : Rule) : ruleOf (cmdOf r) = r := by cases r; rfl

theorem load_scope_rest (pre : State) (k : String) (rest : List Rule) :
    ∀ (done : List Rule) (tail : List J), k ∉ pre.map (·.1) → ScopeOK k (done ++ rest) → done ≠ [] →
      (∀ r ∈ rest, ctorOk r.cfg = true) →
      loadFrom false (pre ++ [(k, done)]) (rest.map ruleToJ ++ tail) =
        loadFrom false (pre ++ [(k, done ++ rest)]) tail := by
  induction rest with
  | nil => intro done tail _ _ _ _; simp
  | cons r rest ih =>
    intro done tail hk hok hdone hctor
    have hreg : r.regex = k := hok.regex r (by simp)
    have hgetr : (done ++ r :: rest)[done.length]? = some r := by simp
    have hop : r.operation ≠ Tables.allOpsKey := by
      intro h
      have h0 := hok.star done.length r hgetr h
      exact hdone (List.eq_nil_of_length_eq_zero h0)
    have hacc : accepted (cmdOf r) = true := by
      rw [accepted_iff]
      have := hok.supp r (by simp)
      simpa [cmdOf] using this
    have hfresh : r.operation ∉ done.map (·.operation) := by
      have := hok.ops
      simp only [List.map_append, List.map_cons, List.nodup_append] at this
      intro hm
      exact this.2.2 _ hm _ (List.mem_cons_self) rfl
    have hadd := add_present pre [] done (cmdOf r) (by simpa [cmdOf, hreg] using hk) hacc
    simp only [cmdOf] at hadd
    rw [List.map_cons, List.cons_append, loadFrom_rule_cons r (hctor r (by simp))]
    have hadd' : add (pre ++ [(k, done)]) r.regex r.operation (some r.cfg) r.alg =
        .ok (pre ++ [(k, done ++ [r])]) := by
      rw [hreg] at hadd ⊢
      rw [hadd]
      have h2 : ruleOf ⟨k, r.operation, some r.cfg, r.alg⟩ = r := by
        rw [← hreg]; exact ruleOf_cmdOf r
      simp only [hop, if_false, h2, upsert_of_not_mem done r hfresh]
    rw [hadd']
    simp only []
    have := ih (done ++ [r]) tail hk (by simpa using hok) (by simp)
      (fun r' hr' => hctor r' (List.mem_cons_of_mem _ hr'))
    rw [this]; simp

theorem load_scope (pre : State) (k : String) (rules : List Rule) (tail : List J)
    (hk : k ∉ pre.map (·.1)) (hok : ScopeOK k rules) (hctor : ∀ r ∈ rules, ctorOk r.cfg = true) :
    loadFrom false pre (rules.map ruleToJ ++ tail) = loadFrom false (pre ++ [(k, rules)]) tail := by
  cases rules with
  | nil => exact absurd rfl hok.nonempty
  | cons r rest =>
    have hreg : r.regex = k := hok.regex r (by simp)
    have hacc : accepted (cmdOf r) = true := by
      rw [accepted_iff]
      have := hok.supp r (by simp)
      simpa [cmdOf] using this
    have hadd := add_absent pre (cmdOf r) (by simpa [cmdOf, hreg] using hk) hacc
    rw [ruleOf_cmdOf] at hadd
    simp only [cmdOf] at hadd
    rw [List.map_cons, List.cons_append, loadFrom_rule_cons r (hctor r (by simp)), hadd]
    simp only []
    rw [hreg]
    exact load_scope_rest pre k rest [r] tail hk hok (by simp)
      (fun r' hr' => hctor r' (List.mem_cons_of_mem _ hr'))

theorem load_all (post : State) :
    ∀ (pre : State), StateInv (pre ++ post) → (∀ e ∈ post, ∀ r ∈ e.2, ctorOk r.cfg = true) →
      loadFrom false pre (getRecipe post) = (.ok (pre ++ post), pre ++ post) := by
  induction post with
  | nil => intro pre _ _; simp [getRecipe, loadFrom]
  | cons e post ih =>
    intro pre hinv hctor
    obtain ⟨k, rules⟩ := e
    have hinv' := (stateInv_iff _).mp hinv
    have hk : k ∉ pre.map (·.1) := by
      have := hinv'.1
      simp only [List.map_append, List.map_cons, List.nodup_append] at this
      intro hm
      exact this.2.2 _ hm _ (List.mem_cons_self) rfl
    have hok : ScopeOK k rules := hinv'.2 (k, rules) (by simp)
    have hrec : getRecipe ((k, rules) :: post) = rules.map ruleToJ ++ getRecipe post := by
      simp [getRecipe]
    rw [hrec, load_scope pre k rules _ hk hok (hctor (k, rules) (by simp))]
    have happ : pre ++ (k, rules) :: post = (pre ++ [(k, rules)]) ++ post := by simp
    rw [happ] at hinv ⊢
    exact ih (pre ++ [(k, rules)]) hinv (fun e he => hctor e (List.mem_cons_of_mem _ he))

/-- **C12, state reload**: a recipe exported from a state satisfying the reachable-state invariant
    (all of whose configs pass the constructor) loads back to exactly that state -/
theorem reload_state (st : State) (hinv : StateInv st)
    (hctor : ∀ e ∈ st, ∀ r ∈ e.2, ctorOk r.cfg = true) :
    load false (getRecipe st) = (.ok st, st) := by
  have := load_all st [] (by simpa using hinv) hctor
  simpa [load] using this

/-- … in particular every state reachable through the API -/
theorem reload_reachable (cmds : List Cmd) (hctor : ∀ c ∈ cmds, ctorOk (c.cfg.getD {}) = true) :
    load false (getRecipe (run cmds)) = (.ok (run cmds), run cmds) := by
  apply reload_state _ (run_inv cmds)
  intro e he r hr
  have hmem : r ∈ (run cmds).flatMap (·.2) := List.mem_flatMap.mpr ⟨e, he, hr⟩
  obtain ⟨i, c, hi, _, hrc, _⟩ := (mem_run_iff cmds r).mp hmem
  rw [← hrc]
  exact hctor c (List.mem_of_getElem? hi)

end RecipeHistory
