import QProofs.MatTotalMain
import QProofs.CalibProofs
/-!
# `calibrate()` delivers the statistics hypothesis of the totality theorem (C08 ∘ C10)
-/
open Graph Mat Arith Cfg Num Nd Pipe PipeNF Calib

set_option autoImplicit false

namespace MatTotal

/-- **after `calibrate()` the statistics are complete** (model with one subgraph, recipe without
    `skip_checks`, at least one sample), provided the float tensors of the same-as-input operators
    (RESHAPE, TRANSPOSE, …) are runtime tensors -- statistics of constants are not what C10 is about -/
theorem stats_of_calibration (rx : String → String → Bool) (env : Env) (st : Recipe.State) (sg : Subgraph)
    (hone : env.model.subgraphs = [sg]) (hns : NoSkip st)
    (hpass : ∀ q ∈ allOps sg, ∀ k scope ops fn, Selected rx env st sg q k scope ops fn →
      (kindOf (Recipe.resolve rx st k scope).1 fn).isPass = true →
      ∀ a ∈ q.1.inputs ++ q.1.outputs, a ≠ -1 → ∀ t, tensorAt sg a = .ok t → constData env t = none)
    (previous : Option Qsvs) (samples : List Contents) (hne : samples ≠ []) (qs : Qsvs)
    (hneed : Recipe.needCalibration st = true)
    (h : calibrate rx env st 0 previous samples = .ok qs) : StatsComplete rx env st qs := by
  intro sg' hsg q hq k scope ops fn S hact a ha hane t hat _ hc
  have hsg' : sg' = sg := by rw [hone] at hsg; simpa using hsg
  subst hsg'
  have hsg0 : env.model.subgraphs[0]? = some sg' := by rw [hone]; rfl
  have hop : CalibProofs.IsOp env sg' q.1 k := by
    rcases mem_allOps sg' q hq with ⟨j, op, hop, rfl⟩ | rfl | rfl
    · refine .real op k (List.mem_of_getElem? hop) ?_
      have := S.hkey
      unfold keyOf at this
      unfold opKey
      exact this
    · have : k = "INPUT" := by
        have := S.hkey; simp only [keyOf, inEntry, pure, Except.pure, Except.ok.injEq, Option.some.injEq] at this
        exact this.symm
      subst this
      exact .input
    · have : k = "OUTPUT" := by
        have := S.hkey; simp only [keyOf, outEntry, pure, Except.pure, Except.ok.injEq, Option.some.injEq] at this
        exact this.symm
      subst this
      exact .output
  have halg : (Recipe.resolve rx st k scope).1 = Tables.algMinMax := by
    obtain ⟨hgood, _⟩ := resolve_selected rx st hns k scope S.halg
    rcases hgood.alg with h1 | h1
    · exact h1
    · obtain ⟨_, _, hnone, _⟩ := hgood.cast h1
      rw [hnone] at hact
      cases hact
  have hnc : constAny env t = none := by
    rcases hc with hc | hc
    · exact hc
    · exact hpass q hq k scope ops fn S hc a ha hane t hat
  obtain ⟨mn, mx, hs⟩ := CalibProofs.stats_complete rx env st 0 sg' hsg0 previous samples hne qs hneed h q.1 k scope hop
    S.hscope halg a ha hane t hat hnc
  exact ⟨(mn, mx), hs⟩

end MatTotal
