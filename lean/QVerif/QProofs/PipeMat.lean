import QProofs.PipeOps
import QProofs.PipeUpdate
/-!
# `materializeOp`: the dispatch on the registered materialisation function
-/
open Graph Mat Cfg Pipeline InstGen GenInstsOK GraphStep GraphInv PipeNF

namespace Pipe

/-- what the normal form says about one operator `op` (named `k`) of subgraph `sg` -/
structure OpHyp (m : Model) (sg : Subgraph) (op : Op) (k : String) : Prop where
  roles : ∀ (i j : Nat) a, op.inputs[i]? = some a → op.inputs[j]? = some a → a ≠ -1 →
    slotRole k i = slotRole k j
  constWeight : ∀ b a, biasSlot k = some b → op.inputs[1]? = some a → op.inputs[dataSlot k]? = some a →
    a ≠ -1 → isConst m sg a = false
  mandatory : ∀ b, biasSlot k = some b → (∀ i < b, op.inputs[i]? ≠ some (-1)) ∧ op.outputs[0]? ≠ some (-1)

/-! ## slot roles -/

theorem role_index (k : String) (i j : Nat) (h : slotRole k i = slotRole k j) :
    (i ∈ indexSlots k ↔ j ∈ indexSlots k) := by
  unfold slotRole at h
  constructor
  · intro hi
    rw [if_pos hi] at h
    by_contra hj
    rw [if_neg hj] at h
    split at h <;> cases h
  · intro hj
    rw [if_pos hj] at h
    by_contra hi
    rw [if_neg hi] at h
    split at h <;> cases h

theorem role_special (k : String) (i j : Nat) (h : slotRole k i = slotRole k j) :
    ((i ∈ indexSlots k ∨ biasSlot k = some i) ↔ (j ∈ indexSlots k ∨ biasSlot k = some j)) := by
  have key : ∀ x, (x ∈ indexSlots k ∨ biasSlot k = some x) ↔ slotRole k x ≠ 0 := by
    intro x
    unfold slotRole
    by_cases h1 : x ∈ indexSlots k
    · simp [h1]
    · by_cases h2 : biasSlot k = some x
      · simp [h1, h2]
      · simp [h1, h2]
  rw [key, key, h]

theorem role_bias_inj (k : String) (b j : Nat) (hb : biasSlot k = some b) (hnb : b ∉ indexSlots k)
    (h : slotRole k j = slotRole k b) : j = b := by
  unfold slotRole at h
  rw [if_neg hnb, if_pos hb] at h
  split at h
  · cases h
  · split at h
    · rename_i h2
      rw [hb] at h2
      cases h2; rfl
    · cases h

/-! ## the registry -/

def minmaxOps : List (String × String) := (Tables.registry.headD default).2
def floatOps : List (String × String) := ((Tables.registry.drop 1).headD default).2

theorem registry_minmax : Py.dictGet? Tables.registry Tables.algMinMax = some minmaxOps := by decide
theorem registry_float : Py.dictGet? Tables.registry Tables.algFloatCasting = some floatOps := by decide

theorem minmax_table1 : ∀ e ∈ minmaxOps,
    (e.2 = "materialize_embedding_lookup" → indexSlots e.1 = [0]) ∧
    (e.2 = "materialize_mean" → indexSlots e.1 = [1]) ∧
    (e.2 = "materialize_reshape" ∨ e.2 = "materialize_transpose" → indexSlots e.1 = [1]) := by
  decide

theorem minmax_table2 : ∀ e ∈ minmaxOps,
    (e.2 = "materialize_average_pool_2d" → indexSlots e.1 = []) ∧
    (e.2 = "materialize_strided_slice" → indexSlots e.1 = [1, 2, 3]) ∧
    (e.2 = "materialize_split" → indexSlots e.1 = [0]) := by
  decide

theorem minmax_table3 : ∀ e ∈ minmaxOps,
    (e.2 = "materialize_fc_conv" → indexSlots e.1 = [] ∧ biasSlot e.1 = some 2) ∧
    (e.2 = "materialize_conv2d_transpose" → indexSlots e.1 = [0] ∧ biasSlot e.1 = some 3) := by
  decide

theorem float_table : ∀ e ∈ floatOps,
    (e.2 = "materialize_fc_conv" ∨ e.2 = "materialize_embedding_lookup" →
      biasSlot e.1 = some 2 ∧ 2 ∉ indexSlots e.1 ∧ dataSlot e.1 = 0) ∧
    (e.2 = "materialize_conv2d_transpose" → biasSlot e.1 = some 3 ∧ 3 ∉ indexSlots e.1 ∧ dataSlot e.1 = 2) := by
  decide

/-! ## the dispatch -/

theorem mem_singleton_of_special {i j b : Nat}
    (h : (i ∈ ([] : List Nat) ∨ some b = some i) ↔ (j ∈ ([] : List Nat) ∨ some b = some j)) :
    (i ∈ [b] ↔ j ∈ [b]) := by
  simp only [List.not_mem_nil, false_or, Option.some.injEq] at h
  simp only [List.mem_singleton]
  constructor
  · intro hi; exact (h.1 hi.symm).symm
  · intro hj; exact (h.2 hj.symm).symm

theorem mem_pair_of_special {i j a b : Nat}
    (h : (i ∈ [a] ∨ some b = some i) ↔ (j ∈ [a] ∨ some b = some j)) :
    (i ∈ [a, b] ↔ j ∈ [a, b]) := by
  simp only [List.mem_singleton, Option.some.injEq] at h
  simp only [List.mem_cons, List.not_mem_nil, or_false]
  constructor
  · rintro (hi | hi)
    · rcases h.1 (.inl hi) with h' | h'
      · exact .inl h'
      · exact .inr h'.symm
    · rcases h.1 (.inr hi.symm) with h' | h'
      · exact .inl h'
      · exact .inr h'.symm
  · rintro (hi | hi)
    · rcases h.2 (.inl hi) with h' | h'
      · exact .inl h'
      · exact .inr h'.symm
    · rcases h.2 (.inr hi.symm) with h' | h'
      · exact .inl h'
      · exact .inr h'.symm

/-- **`materializeOp`** returns a request list of the closed shape -/
theorem materializeOp_reqs (env : Env) (sg : Subgraph) (qsvs : Qsvs) (oi : OpInfo) (alg fn : String)
    (rs : List CReq) (qs' : Qsvs) (ops : List (String × String))
    (hreg1 : Py.dictGet? Tables.registry alg = some ops) (hreg2 : Py.dictGet? ops oi.opName = some fn)
    (hnames : (sg.tensors.map (·.name)).Nodup)
    (hin : SlotsValid sg oi.op.inputs) (hout : SlotsValid sg oi.op.outputs)
    (hnb : NoBlockwise oi.cfg)
    (houtNC : ∀ a ∈ oi.op.outputs, a ≠ -1 → isConst env.model sg a = false)
    (hop : OpHyp env.model sg oi.op oi.opName)
    (h : materializeOp env sg qsvs oi alg fn = .ok (rs, qs')) :
    OpReqs env.model sg oi.op oi.opId rs := by
  rw [materializeOp] at h
  by_cases hF : (alg == Tables.algFloatCasting) = true
  · -- float casting
    rw [if_pos hF] at h
    have hFe : alg = Tables.algFloatCasting := eq_of_beq hF
    subst hFe
    rw [registry_float] at hreg1
    cases hreg1
    have hmem : (oi.opName, fn) ∈ floatOps := dictGet?_mem_key _ _ _ hreg2
    have T := float_table _ hmem
    have fin : ∀ (iIn iB : Nat) r, 1 < iB → iIn < iB → biasSlot oi.opName = some iB → iB ∉ indexSlots oi.opName →
        dataSlot oi.opName = iIn → floatCastOp env sg oi iIn 1 iB = .ok r →
        OpReqs env.model sg oi.op oi.opId r := by
      intro iIn iB r h1B hIB hb hnb' hds hr
      obtain ⟨hm1, hm2⟩ := hop.mandatory iB hb
      refine floatCastOp_reqs env sg oi iIn 1 iB r hnames hin hout (hm1 iIn hIB) (hm1 1 h1B) hm2 ?_ ?_ hr
      · intro a h1 h2 hne
        exact hop.constWeight iB a hb h1 (hds ▸ h2) hne
      · intro a h1 h2
        by_contra hne
        have := role_bias_inj _ iB 1 hb hnb' (hop.roles 1 iB a h1 h2 hne)
        omega
    by_cases h1 : (fn == "materialize_fc_conv" || fn == "materialize_embedding_lookup") = true
    · rw [if_pos h1] at h
      simp only [Bool.or_eq_true, beq_iff_eq] at h1
      obtain ⟨hb, hnb', hds⟩ := T.1 h1
      obtain ⟨r, hr, h⟩ := bind_ok _ _ _ h
      cases h
      exact fin 0 2 _ (by omega) (by omega) hb hnb' hds hr
    · rw [if_neg h1] at h
      by_cases h2 : (fn == "materialize_conv2d_transpose") = true
      · rw [if_pos h2] at h
        obtain ⟨hb, hnb', hds⟩ := T.2 (eq_of_beq h2)
        obtain ⟨r, hr, h⟩ := bind_ok _ _ _ h
        cases h
        exact fin 2 3 _ (by omega) (by omega) hb hnb' hds hr
      · rw [if_neg h2] at h
        cases h
  · rw [if_neg hF] at h
    by_cases hM : (alg == Tables.algMinMax) = true
    · rw [if_pos hM] at h
      have hMe : alg = Tables.algMinMax := eq_of_beq hM
      subst hMe
      rw [registry_minmax] at hreg1
      cases hreg1
      have hmem : (oi.opName, fn) ∈ minmaxOps := dictGet?_mem_key _ _ _ hreg2
      have T1 := minmax_table1 _ hmem
      have T2 := minmax_table2 _ hmem
      have T3 := minmax_table3 _ hmem
      -- `standardOp` with the given positions = the index slots of the operator
      have std : ∀ (con : Constraint) (gIn : List Nat) r q, indexSlots oi.opName = gIn →
          standardOp env sg qsvs oi con gIn [] = .ok (r, q) → OpReqs env.model sg oi.op oi.opId r := by
        intro con gIn r q hidx hs
        refine (standardOp_opReqs env sg qsvs oi con gIn [] r q hnames hin hout hnb houtNC ?_ hs).1
        intro i j a h1 h2 h3
        have := role_index _ i j (hop.roles i j a h1 h2 h3)
        rw [hidx] at this
        exact this
      -- `standardOp` without given positions
      have std0 : ∀ (con : Constraint) r q,
          standardOp env sg qsvs oi con [] [] = .ok (r, q) → OpReqs env.model sg oi.op oi.opId r := by
        intro con r q hs
        exact (standardOp_opReqs env sg qsvs oi con [] [] r q hnames hin hout hnb houtNC
          (fun i j a _ _ _ => by simp) hs).1
      by_cases c1 : (fn == "materialize_input" || fn == "materialize_output" || fn == "materialize_add" ||
          fn == "materialize_sub" || fn == "materialize_mul" || fn == "materialize_batch_matmul" ||
          fn == "materialize_gelu" || fn == "materialize_rsqrt") = true
      · rw [if_pos c1] at h
        exact std0 _ _ _ h
      rw [if_neg c1] at h
      by_cases c2 : (fn == "materialize_embedding_lookup") = true
      · rw [if_pos c2] at h
        exact std _ _ _ _ (T1.1 (eq_of_beq c2)) h
      rw [if_neg c2] at h
      by_cases c3 : (fn == "materialize_mean") = true
      · rw [if_pos c3] at h
        exact std _ _ _ _ (T1.2.1 (eq_of_beq c3)) h
      rw [if_neg c3] at h
      by_cases c4 : (fn == "materialize_reshape" || fn == "materialize_transpose") = true
      · rw [if_pos c4] at h
        simp only [Bool.or_eq_true, beq_iff_eq] at c4
        exact std _ _ _ _ (T1.2.2 c4) h
      rw [if_neg c4] at h
      by_cases c5 : (fn == "materialize_average_pool_2d") = true
      · rw [if_pos c5] at h
        exact std _ _ _ _ (T2.1 (eq_of_beq c5)) h
      rw [if_neg c5] at h
      by_cases c6 : (fn == "materialize_strided_slice") = true
      · rw [if_pos c6] at h
        exact std _ _ _ _ (T2.2.1 (eq_of_beq c6)) h
      rw [if_neg c6] at h
      by_cases c7 : (fn == "materialize_split") = true
      · rw [if_pos c7] at h
        exact std _ _ _ _ (T2.2.2 (eq_of_beq c7)) h
      rw [if_neg c7] at h
      by_cases c8 : (fn == "materialize_concatenation") = true
      · rw [if_pos c8] at h
        exact std0 _ _ _ h
      rw [if_neg c8] at h
      -- convolution-like operators: `standardOp` with the bias position given, then `biasFor`
      have conv : ∀ (gIn : List Nat) (iIn iB : Nat) r q r', indexSlots oi.opName ++ [iB] = gIn →
          iB ∉ indexSlots oi.opName → biasSlot oi.opName = some iB →
          (∀ i j : Nat, ((i ∈ indexSlots oi.opName ∨ biasSlot oi.opName = some i) ↔
              (j ∈ indexSlots oi.opName ∨ biasSlot oi.opName = some j)) → (i ∈ gIn ↔ j ∈ gIn)) →
          standardOp env sg qsvs oi .none gIn [] = .ok (r, q) → biasFor env sg oi r iIn 1 iB = .ok r' →
          OpReqs env.model sg oi.op oi.opId r' := by
        intro gIn iIn iB r q r' _ hnidx hbs hiff hs hb
        obtain ⟨hR, rin, rout, hsplit, hpos, hrout⟩ :=
          standardOp_opReqs env sg qsvs oi .none gIn [] r q hnames hin hout hnb houtNC
            (fun i j a h1 h2 h3 => hiff i j (role_special _ i j (hop.roles i j a h1 h2 h3))) hs
        refine biasFor_reqs env sg oi r rin rout r' iIn 1 iB hnames hin hnb hR hsplit hpos hrout
          (hop.mandatory iB hbs).1 ?_ hb
        intro j a h1 h2 hne
        exact role_bias_inj _ iB j hbs hnidx (hop.roles j iB a h2 h1 hne)
      by_cases c9 : (fn == "materialize_fc_conv") = true
      · rw [if_pos c9] at h
        obtain ⟨hidx, hbs⟩ := T3.1 (eq_of_beq c9)
        obtain ⟨⟨r, q⟩, hs, h⟩ := bind_ok _ _ _ h
        obtain ⟨r', hb, h⟩ := bind_ok _ _ _ h
        cases h
        refine conv [2] 0 2 r _ _ (by rw [hidx]; rfl) (by rw [hidx]; simp) hbs ?_ hs hb
        intro i j hij
        rw [hidx, hbs] at hij
        exact mem_singleton_of_special hij
      rw [if_neg c9] at h
      by_cases c10 : (fn == "materialize_conv2d_transpose") = true
      · rw [if_pos c10] at h
        obtain ⟨hidx, hbs⟩ := T3.2 (eq_of_beq c10)
        obtain ⟨⟨r, q⟩, hs, h⟩ := bind_ok _ _ _ h
        simp only [] at h
        have hb : ∃ r', biasFor env sg oi r 2 1 3 = .ok r' ∧ rs = r' := by
          split at h
          · obtain ⟨_, h', _⟩ := bind_ok _ _ _ h
            cases h'
          · obtain ⟨r', hb, h⟩ := bind_ok _ _ _ h
            cases h
            exact ⟨_, hb, rfl⟩
        obtain ⟨r', hb, rfl⟩ := hb
        refine conv [0, 3] 2 3 r q rs (by rw [hidx]; rfl) (by rw [hidx]; simp) hbs ?_ hs hb
        intro i j hij
        rw [hidx, hbs] at hij
        exact mem_pair_of_special hij
      rw [if_neg c10] at h
      by_cases c11 : (fn == "materialize_softmax_and_logistic") = true
      · rw [if_pos c11] at h
        exact fixedRangeOp_reqs env sg qsvs oi true rs qs' hnames hin hout hnb houtNC h
      rw [if_neg c11] at h
      by_cases c12 : (fn == "materialize_tanh") = true
      · rw [if_pos c12] at h
        exact fixedRangeOp_reqs env sg qsvs oi false rs qs' hnames hin hout hnb houtNC h
      rw [if_neg c12] at h
      cases h
    · rw [if_neg hM] at h
      cases h

end Pipe
