import QProofs.ArithLemmas
import QProofs.RoundedAux
/-!
# C17 under IEEE rounding: zero-point range and the two round-trip laws

All three statements are about the model functions of QModel/Arith.lean evaluated in *rounded*
arithmetic (float32 / float64 as numpy performs it), for every rational input.
No `sorry`, no new axioms, no `native_decide`.  Generic rounding lemmas are in
`QProofs/RoundedAux.lean`; each theorem below is reduced to a "core" statement about rationals.
-/
open Num Arith PrecL ArithL RAux

namespace ArithRounded

/-- the unit roundoff of float32 -/
def u32 : Rat := (2:Rat)^(-24:Int)

/-! ## zero point -/

/-- rational core of `zp_in_range`: `P = 2^(bits-1)`, `bmin = min(mn,0)`, `bmax = max(mx,0)` -/
theorem zp_core (pr : Prec) (hpr : pr = .f32 ∨ pr = .f64) (P : Rat) (hP2 : 2 ≤ P) (hP : P ≤ 32768)
    (hPex : pr.rn (-P) = -P)
    (bmin bmax mb : Rat) (h0 : bmin ≤ 0) (h1 : 0 ≤ bmax) (hmb : 1/40000 ≤ mb) :
    -P ≤ pr.rn (-P - pr.rn (bmin / pr.rn (maxR (pr.rn (bmax - bmin)) mb / (P - 1 - -P)))) ∧
    pr.rn (-P - pr.rn (bmin / pr.rn (maxR (pr.rn (bmax - bmin)) mb / (P - 1 - -P)))) ≤ P - 1 + 1/4 := by
  have hN : P - 1 - -P = 2 * P - 1 := by ring
  rw [hN]
  set D := bmax - bmin with hD
  set b := maxR (pr.rn D) mb with hb
  set N := 2 * P - 1 with hNdef
  set sc := pr.rn (b / N) with hsc
  have hs126 := small126
  have hD0 : 0 ≤ D := by linarith
  have hb1 : 1/40000 ≤ b := le_trans hmb (maxR_ge_right _ _)
  have hb2 : pr.rn D ≤ b := maxR_ge_left _ _
  have hN3 : 3 ≤ N := by linarith
  have hN65 : N ≤ 65535 := by linarith
  have hNpos : 0 < N := by linarith
  have hbpos : 0 < b := by linarith
  -- the scale: normal, relative error
  have hq : 1/40000/65535 ≤ b / N := by
    rw [div_le_div_iff₀ (by norm_num) hNpos]; nlinarith
  have hbNpos : 0 < b / N := by
    have : (0:Rat) < 1/40000/65535 := by norm_num
    linarith
  have hscrel := rn_rel24 pr hpr (b / N) (by
    rw [abs_of_pos hbNpos]
    have : (1:Rat)/10000000000 ≤ 1/40000/65535 := by norm_num
    linarith)
  rw [abs_of_pos hbNpos, ← hsc] at hscrel
  have hsclo : b / N * (1 - u24) ≤ sc := by have := (abs_le.mp hscrel).1; linarith
  have hscpos : 0 < sc := by
    have : 0 < b / N * (1 - u24) := mul_pos hbNpos (by norm_num [u24])
    linarith
  have hX : b * (1 - u24) ≤ sc * N := by
    have h := mul_le_mul_of_nonneg_right hsclo (le_of_lt hNpos)
    have e : b / N * (1 - u24) * N = b * (1 - u24) := by field_simp
    rw [e] at h; exact h
  -- the bound dominates the (exact) difference up to one rounding
  have hbD : D * (1 - u24) ≤ b := by
    by_cases hDn : (2:Rat)^(-126:Int) ≤ D
    · have h := rn_rel24 pr hpr D (by rwa [abs_of_nonneg hD0])
      rw [abs_of_nonneg hD0] at h
      have := (abs_le.mp h).1
      linarith
    · have hDs : D < (2:Rat)^(-126:Int) := not_le.mp hDn
      have : D * (1 - u24) ≤ D := by
        have : 0 ≤ D * u24 := mul_nonneg hD0 (le_of_lt u24_pos)
        linarith
      have := lt_of_lt_of_le hDs hs126
      linarith
  -- -bmin ≤ sc * N * (1 + 3u)
  have hbm : -bmin ≤ D := by linarith
  have hkey : -bmin ≤ sc * N * (1 + 3 * u24) := by
    set X := sc * N with hXdef
    have hX0 : 0 ≤ X := le_of_lt (mul_pos hscpos hNpos)
    unfold u24 at hX hbD ⊢
    linarith
  have hquo_arg : -(N * (1 + 3 * u24)) ≤ bmin / sc := by
    rw [le_div_iff₀ hscpos]; linarith
  have hquo_arg0 : bmin / sc ≤ 0 := div_nonpos_of_nonpos_of_nonneg h0 (le_of_lt hscpos)
  set quo := pr.rn (bmin / sc) with hquo
  have hquo0 : quo ≤ 0 := PrecL.rn_nonpos pr hquo_arg0
  -- lower bound of quo through monotonicity and the relative error of a normal number
  have hv : 0 < N * (1 + 3 * u24) := mul_pos hNpos (by norm_num [u24])
  have hvge : 3 ≤ N * (1 + 3 * u24) := by
    have : N * 1 ≤ N * (1 + 3 * u24) :=
      mul_le_mul_of_nonneg_left (by norm_num [u24]) (le_of_lt hNpos)
    linarith
  have hquolo : -(N * (1 + 3 * u24)) * (1 + u24) ≤ quo := by
    have hm := PrecL.rn_mono pr hquo_arg
    have hr := rn_rel24 pr hpr (-(N * (1 + 3 * u24))) (by
      rw [abs_neg, abs_of_pos hv]; exact le_trans hs126 (by linarith))
    rw [abs_neg, abs_of_pos hv] at hr
    have := (abs_le.mp hr).1
    linarith
  constructor
  · -- lower bound
    have := PrecL.rn_mono pr (show -P ≤ -P - quo by linarith)
    rwa [hPex] at this
  · -- upper bound
    set T := -P + N * (1 + 3 * u24) * (1 + u24) with hT
    have hTarg : -P - quo ≤ T := by linarith
    have hT1 : 1 ≤ T := by
      have : N * 1 ≤ N * ((1 + 3 * u24) * (1 + u24)) :=
        mul_le_mul_of_nonneg_left (by norm_num [u24]) (le_of_lt hNpos)
      have e : N * (1 + 3 * u24) * (1 + u24) = N * ((1 + 3 * u24) * (1 + u24)) := by ring
      linarith
    have hTpos : 0 < T := by linarith
    have hm := PrecL.rn_mono pr hTarg
    have hr := rn_rel24 pr hpr T (by rw [abs_of_pos hTpos]; exact le_trans hs126 (by linarith))
    rw [abs_of_pos hTpos] at hr
    have hr2 := (abs_le.mp hr).2
    have hfin : T * (1 + u24) ≤ P - 1 + 1/4 := by
      rw [hT, hNdef]; unfold u24; linarith
    linarith

/-- **zero point in range under rounding** (the code comment "It's safe to cast zp to qtype
    without clipping" as a theorem): asymmetric, float32 or float64 statistics, 2..16 bits -/
theorem zp_in_range (pr : Prec) (hpr : pr = .f32 ∨ pr = .f64) (bits : Nat) (hb2 : 2 ≤ bits) (hb16 : bits ≤ 16)
    (mn mx : Rat) (hmm : mn ≤ mx) (zp : Int) (s : Rat)
    (h : zpScale1 pr bits false mn mx = .ok (zp, s)) :
    qmin bits ≤ zp ∧ zp ≤ qmax bits := by
  have h16 : pr ≠ .f16 := by rcases hpr with rfl | rfl <;> decide
  obtain ⟨hp1, hp2⟩ := pow_bounds bits hb2 hb16
  obtain ⟨hqmin, hqmax, hi2, hi32768⟩ := range_bounds bits hb2 hb16
  have hmb := minBound_ge pr h16
  unfold zpScale1 at h
  simp only [Bool.false_eq_true, if_false] at h
  split at h
  swap; · cases h
  cases h
  have hqx := qmaxF_eq bits (by omega)
  have hqn := qminF_eq bits (by omega)
  have hqminR : ((qmin bits : Int) : Rat) = -(2:Rat)^(bits-1) := by rw [hqmin]; push_cast; ring
  have hqmaxR : ((qmax bits : Int) : Rat) = (2:Rat)^(bits-1) - 1 := by rw [hqmax]; push_cast; ring
  -- `-P` is exactly representable
  have hPex : pr.rn (-(2:Rat)^(bits-1)) = -(2:Rat)^(bits-1) := by
    have hp24 : 16777216 ≤ 2^pr.p := by rcases hpr with rfl | rfl <;> norm_num [Prec.p]
    have := rn_int_exact pr (qmin bits) (by
      generalize (2:Int)^(bits-1) = Q at *
      omega)
    rwa [hqminR] at this
  have core := zp_core pr hpr ((2:Rat)^(bits-1)) hp1 hp2 hPex (minR mn 0) (maxR mx 0) (minBound pr)
    (minR_le_right _ _) (maxR_ge_right _ _) hmb
  have hzf : asymZpF pr bits mn mx
      = pr.rn (-(2:Rat)^(bits-1) - pr.rn (minR mn 0 / pr.rn (maxR (pr.rn (maxR mx 0 - minR mn 0))
          (minBound pr) / ((2:Rat)^(bits-1) - 1 - -(2:Rat)^(bits-1))))) := by
    unfold asymZpF asymQuo asymScale asymBound asymDiff
    rw [hqx, hqn]
  rw [← hzf] at core
  obtain ⟨c1, c2⟩ := core
  -- `rhe` of the float zero point
  have r1 : qmin bits ≤ rhe (asymZpF pr bits mn mx) := by
    have := Rounding.rhe_mono (show ((qmin bits : Int) : Rat) ≤ asymZpF pr bits mn mx by
      rw [hqminR]; exact c1)
    rwa [Rounding.rhe_int] at this
  have r2 : rhe (asymZpF pr bits mn mx) ≤ qmax bits := by
    have herr := (abs_le.mp (Rounding.rhe_err (asymZpF pr bits mn mx))).2
    have h3 : ((rhe (asymZpF pr bits mn mx) : Int) : Rat) < ((qmax bits + 1 : Int) : Rat) := by
      push_cast; rw [hqmaxR]; linarith
    have h4 : rhe (asymZpF pr bits mn mx) < qmax bits + 1 := by exact_mod_cast h3
    omega
  have hsto := storage_ge bits (by omega)
  have hpw : (2:Int)^(bits-1) ≤ (2:Int)^(storageBits bits - 1) :=
    pow_le_pow_right₀ (by norm_num) (by omega)
  have hzp : asymZp pr bits mn mx = rhe (asymZpF pr bits mn mx) := by
    unfold asymZp; exact wrapInt_id _ (by omega) _ (by omega) (by omega)
  rw [hzp]
  exact ⟨r1, r2⟩

/-! ## quantize ∘ dequantize -/

theorem one_delta_ge (d : Rat) (h : |d| ≤ u24) : 9/10 ≤ 1 + d := by
  have := (abs_le.mp h).1
  unfold u24 at this; linarith

theorem pow100_half : (2:Rat)^(-100:Int) ≤ 1/2 := by
  have : (2:Rat)^(-100:Int) ≤ (2:Rat)^(-1:Int) := zpow_le_zpow_right₀ (by norm_num) (by norm_num)
  have e : (2:Rat)^(-1:Int) = 1/2 := by norm_num
  rwa [e] at this

/-- rational core of `q_dq_rounded` -/
theorem qdq_core (s : Rat) (hs1 : (2:Rat)^(-100:Int) ≤ s) (hs2 : s ≤ (2:Rat)^(100:Int))
    (c zp : Int) (hc : |c| ≤ 32768) (hzp : |zp| ≤ 32768) :
    |Prec.f64.rn (Prec.f64.rn (Prec.f64.rn (((c - zp : Int) : Rat) * s) * Prec.f32.rn (1 / s)) + zp) - c|
      < 1/2 := by
  obtain ⟨d2, hd2, e2⟩ := inv_delta s hs1 hs2
  obtain ⟨d1, hd1, e1⟩ := int_mul_delta .f64 (Or.inr rfl) (c - zp) s hs1
  have hm : (2:Rat)^(-100:Int) ≤ (1 + d1) * (1 + d2) := by
    have a := one_delta_ge d1 hd1
    have b := one_delta_ge d2 hd2
    have : (9/10:Rat) * (9/10) ≤ (1 + d1) * (1 + d2) := mul_le_mul a b (by norm_num) (by linarith)
    exact le_trans pow100_half (by linarith)
  obtain ⟨d3, hd3, e3⟩ := int_mul_delta .f64 (Or.inr rfl) (c - zp) ((1 + d1) * (1 + d2)) hm
  have eprod : Prec.f64.rn (((c - zp : Int) : Rat) * s) * Prec.f32.rn (1 / s)
      = ((c - zp : Int) : Rat) * ((1 + d1) * (1 + d2)) := by
    rw [e1]
    calc ((c - zp : Int) : Rat) * s * (1 + d1) * Prec.f32.rn (1 / s)
        = ((c - zp : Int) : Rat) * (1 + d1) * (Prec.f32.rn (1 / s) * s) := by ring
      _ = _ := by rw [e2]; ring
  rw [eprod, e3]
  have h3 := three_delta d1 d2 d3 hd1 hd2 hd3
  set θ := (1 + d1) * (1 + d2) * (1 + d3) - 1 with hθ
  have hkabs : |((c - zp : Int) : Rat)| ≤ 65536 := by
    have h : |c - zp| ≤ 65536 := by
      rw [abs_le] at hc hzp ⊢; omega
    exact_mod_cast h
  have hkθ : |((c - zp : Int) : Rat) * θ| ≤ 65536 * (4 * u24) := by
    rw [abs_mul]; exact mul_le_mul hkabs h3 (abs_nonneg _) (by norm_num)
  have ex : ((c - zp : Int) : Rat) * ((1 + d1) * (1 + d2)) * (1 + d3) + (zp : Rat)
      = (c : Rat) + ((c - zp : Int) : Rat) * θ := by
    rw [hθ]; push_cast; ring
  rw [ex]
  have hcR : |(c : Rat)| ≤ 32768 := by exact_mod_cast hc
  have hr := rn_abs24 .f64 (Or.inr rfl) ((c : Rat) + ((c - zp : Int) : Rat) * θ)
  have hxabs : |(c : Rat) + ((c - zp : Int) : Rat) * θ| ≤ 32768 + 65536 * (4 * u24) :=
    le_trans (abs_add_le _ _) (add_le_add hcR hkθ)
  have hu : u24 * |(c : Rat) + ((c - zp : Int) : Rat) * θ| ≤ u24 * (32768 + 65536 * (4 * u24)) :=
    mul_le_mul_of_nonneg_left hxabs (le_of_lt u24_pos)
  rw [abs_le] at hr hkθ
  rw [abs_lt]
  unfold u24 tiny at *
  constructor <;> linarith [hr.1, hr.2, hkθ.1, hkθ.2]

/-- **quantize ∘ dequantize = id on every integer code**, with the dtypes the (repaired) library
    uses: `uniform_dequantize` subtracts in int32 and multiplies by the float32 scale in float64;
    `uniform_quantize` then works on float64 data with the float32 reciprocal scale.  For every
    scale in a wide magnitude range (the library's scales are ≥ 1e-4/65535 and finite). -/
theorem q_dq_rounded (bits : Nat) (hb2 : 2 ≤ bits) (hb16 : bits ≤ 16) (narrow : Bool)
    (qw zw : Nat) (hqw : qw = 8 ∨ qw = 16) (hzw : zw = 8 ∨ zw = 16)
    (s : Rat) (hs1 : (2:Rat)^(-100:Int) ≤ s) (hs2 : s ≤ (2:Rat)^(100:Int))
    (zp c : Int) (hz1 : qmin bits ≤ zp) (hz2 : zp ≤ qmax bits)
    (hc1 : qmin bits + (if narrow then 1 else 0) ≤ c) (hc2 : c ≤ qmax bits) :
    roundClip bits narrow (qSum .f64 .f32 zw (dqVal true qw zw .f32 c zp s) s zp) = c := by
  obtain ⟨hqmin, hqmax, hi2, hi32768⟩ := range_bounds bits hb2 hb16
  have hc0 : qmin bits ≤ c := by split_ifs at hc1 <;> omega
  have hsub : subWidth true qw zw = 32 := by
    rcases hqw with rfl | rfl <;> rcases hzw with rfl | rfl <;> rfl
  have hd : dqVal true qw zw .f32 c zp s = Prec.f64.rn (((c - zp : Int) : Rat) * s) := by
    unfold dqVal
    rw [hsub, wrap32 (c - zp) (by omega) (by omega)]
    rfl
  have hsum : ∀ v, qSum .f64 .f32 zw v s zp
      = Prec.f64.rn (Prec.f64.rn (v * Prec.f32.rn (1 / s)) + zp) := fun v => rfl
  rw [hd, hsum]
  have hcabs : |c| ≤ 32768 := by rw [abs_le]; omega
  have hzabs : |zp| ≤ 32768 := by rw [abs_le]; omega
  have core := qdq_core s hs1 hs2 c zp hcabs hzabs
  have hr := rhe_eq_of_near _ c core
  rw [roundClip_eq bits hb2 (by omega) narrow, hr]
  unfold clipI
  rw [if_neg (by omega), if_neg (by omega)]

/-! ## dequantize ∘ quantize -/

/-- float32 evaluation of `x/s + zp` (with `x = w*s`): error at most `3·2^-24·B` when `|w| ≤ B`
    and `|w + zp| ≤ B/2`; sub-normal intermediate results are covered by `rn_abs24` -/
theorem sum_core (s : Rat) (hs1 : (2:Rat)^(-100:Int) ≤ s) (hs2 : s ≤ (2:Rat)^(100:Int))
    (B : Rat) (hB : 4 ≤ B) (w : Rat) (zp : Int) (hw : |w| ≤ B) (hy : |w + zp| ≤ B / 2) :
    |Prec.f32.rn (Prec.f32.rn (w * s * Prec.f32.rn (1 / s)) + zp) - (w + zp)| ≤ 3 * u24 * B := by
  obtain ⟨d2, hd2, e2⟩ := inv_delta s hs1 hs2
  have hu := le_of_lt u24_pos
  have ea : w * s * Prec.f32.rn (1 / s) = w + w * d2 := by
    calc w * s * Prec.f32.rn (1 / s) = w * (Prec.f32.rn (1 / s) * s) := by ring
      _ = _ := by rw [e2]; ring
  rw [ea]
  have hwd : |w * d2| ≤ B * u24 := by
    rw [abs_mul]; exact mul_le_mul hw hd2 (abs_nonneg _) (by linarith)
  have haabs : |w + w * d2| ≤ B + B * u24 := le_trans (abs_add_le _ _) (add_le_add hw hwd)
  have r1 := rn_abs24 .f32 (Or.inl rfl) (w + w * d2)
  have hu1 : u24 * |w + w * d2| ≤ u24 * (B + B * u24) := mul_le_mul_of_nonneg_left haabs hu
  set p := Prec.f32.rn (w + w * d2) with hp
  rw [abs_le] at r1 hwd hy
  have hpz : |p + zp| ≤ B / 2 + (B * u24 + (u24 * (B + B * u24) + tiny)) := by
    rw [abs_le]; constructor <;> linarith [r1.1, r1.2, hwd.1, hwd.2, hy.1, hy.2]
  have r2 := rn_abs24 .f32 (Or.inl rfl) (p + zp)
  have hu2 : u24 * |p + zp| ≤ u24 * (B / 2 + (B * u24 + (u24 * (B + B * u24) + tiny))) :=
    mul_le_mul_of_nonneg_left hpz hu
  rw [abs_le] at r2 ⊢
  unfold u24 tiny at *
  constructor <;> linarith [r1.1, r1.2, hwd.1, hwd.2, r2.1, r2.2]

theorem clipI_range (v lo hi : Int) (h : lo ≤ hi) : lo ≤ clipI v lo hi ∧ clipI v lo hi ≤ hi := by
  unfold clipI; split_ifs <;> omega

/-- core of `dq_q_rounded` over integers and rationals: `P = 2^(bits-1)`, clip bounds `L`, `H` -/
theorem dqq_core (s : Rat) (hs1 : (2:Rat)^(-100:Int) ≤ s) (hs2 : s ≤ (2:Rat)^(100:Int))
    (P L H zp : Int) (hP : 2 ≤ P) (hL : -P ≤ L) (hLH : L ≤ H) (hH : H ≤ P - 1)
    (hz1 : -P ≤ zp) (hz2 : zp ≤ P - 1) (x : Rat)
    (hlo : ((L - zp : Int) : Rat) * s ≤ x) (hhi : x ≤ ((H - zp : Int) : Rat) * s) :
    |Prec.f64.rn (((clipI (rhe (Prec.f32.rn (Prec.f32.rn (x * Prec.f32.rn (1 / s)) + zp))) L H - zp : Int) : Rat) * s) - x|
      ≤ s * (1/2 + 8 * u24 * P) := by
  have hs0 : 0 < s := lt_of_lt_of_le (zpow_pos (by norm_num) _) hs1
  obtain ⟨w, rfl⟩ : ∃ w, x = w * s := ⟨x / s, by field_simp⟩
  have hwlo : ((L - zp : Int) : Rat) ≤ w := le_of_mul_le_mul_right hlo hs0
  have hwhi : w ≤ ((H - zp : Int) : Rat) := le_of_mul_le_mul_right hhi hs0
  have hu := le_of_lt u24_pos
  -- integer facts, cast to rationals
  have i1 : ((-(2 * P) : Int) : Rat) ≤ ((L - zp : Int) : Rat) := by
    have : -(2 * P) ≤ L - zp := by omega
    exact_mod_cast this
  have i2 : ((H - zp : Int) : Rat) ≤ ((2 * P : Int) : Rat) := by
    have : H - zp ≤ 2 * P := by omega
    exact_mod_cast this
  have i3 : ((-P : Int) : Rat) ≤ (L : Rat) := by exact_mod_cast hL
  have i4 : (H : Rat) ≤ ((P : Int) : Rat) := by
    have : H ≤ P := by omega
    exact_mod_cast this
  have i5 : (2 : Rat) ≤ (P : Rat) := by exact_mod_cast hP
  push_cast at i1 i2 i3 hwlo hwhi
  have hw : |w| ≤ 2 * (P : Rat) := by rw [abs_le]; constructor <;> linarith
  have hy1 : (L : Rat) ≤ w + zp := by linarith
  have hy2 : w + zp ≤ (H : Rat) := by linarith
  have hy : |w + zp| ≤ 2 * (P : Rat) / 2 := by rw [abs_le]; constructor <;> linarith
  have hsum := sum_core s hs1 hs2 (2 * (P : Rat)) (by linarith) w zp hw hy
  set sm := Prec.f32.rn (Prec.f32.rn (w * s * Prec.f32.rn (1 / s)) + zp) with hsm
  have herr := Rounding.rhe_err sm
  have hclip := clip_near (rhe sm) L H (w + zp) hy1 hy2
  obtain ⟨c1, c2⟩ := clipI_range (rhe sm) L H hLH
  set cl := clipI (rhe sm) L H with hcl
  have hr : |((rhe sm : Int) : Rat) - (w + zp)| ≤ 1/2 + 3 * u24 * (2 * (P : Rat)) := by
    have e : ((rhe sm : Int) : Rat) - (w + zp) = (((rhe sm : Int) : Rat) - sm) + (sm - (w + zp)) := by ring
    rw [e]; exact le_trans (abs_add_le _ _) (add_le_add herr hsum)
  have hcy : |(cl : Rat) - (w + zp)| ≤ 1/2 + 3 * u24 * (2 * (P : Rat)) := le_trans hclip hr
  obtain ⟨d4, hd4, e4⟩ := int_mul_delta .f64 (Or.inr rfl) (cl - zp) s hs1
  rw [e4]
  have e : ((cl - zp : Int) : Rat) * s * (1 + d4) - w * s
      = s * (((cl - zp : Int) : Rat) * d4 + ((cl : Rat) - (w + zp))) := by push_cast; ring
  rw [e, abs_mul, abs_of_pos hs0]
  apply mul_le_mul_of_nonneg_left _ (le_of_lt hs0)
  have hk : |((cl - zp : Int) : Rat)| ≤ 2 * (P : Rat) := by
    have h : |cl - zp| ≤ 2 * P := by rw [abs_le]; omega
    exact_mod_cast h
  have hkd : |((cl - zp : Int) : Rat) * d4| ≤ 2 * (P : Rat) * u24 := by
    rw [abs_mul]; exact mul_le_mul hk hd4 (abs_nonneg _) (by linarith)
  have := le_trans (abs_add_le (((cl - zp : Int) : Rat) * d4) ((cl : Rat) - (w + zp))) (add_le_add hkd hcy)
  unfold u24 at *
  linarith

/-- **dequantize ∘ quantize moves an in-range float32 value by at most half a step plus the
    float32 evaluation error** (`x`, `s` float32; sum evaluated in float32; dequantization in
    float64 as above).  `x` is in range when `x/s + zp` lies between the clip bounds.
    (Statement unchanged; the proof shows the sharper constant `2^(bits+2)` and does not need
    `x` or `s` to be float32 numbers; sub-normal products `x * (1/s)` are covered.) -/
theorem dq_q_rounded (bits : Nat) (hb2 : 2 ≤ bits) (hb16 : bits ≤ 16) (narrow : Bool)
    (zw : Nat) (hzw : zw = 8 ∨ zw = 16)
    (s : Rat) (hs1 : (2:Rat)^(-100:Int) ≤ s) (hs2 : s ≤ (2:Rat)^(100:Int))
    (zp : Int) (hz1 : qmin bits ≤ zp) (hz2 : zp ≤ qmax bits) (x : Rat)
    (hlo : ((qmin bits + (if narrow then 1 else 0) - zp : Int) : Rat) * s ≤ x)
    (hhi : x ≤ ((qmax bits - zp : Int) : Rat) * s) :
    |dqVal true (storageBits bits) zw .f32 (roundClip bits narrow (qSum .f32 .f32 zw x s zp)) zp s - x|
      ≤ s * (1/2 + (2:Rat)^(bits + 3) * u32) := by
  obtain ⟨hqmin, hqmax, hi2, hi32768⟩ := range_bounds bits hb2 hb16
  have hs0 : 0 < s := lt_of_lt_of_le (zpow_pos (by norm_num) _) hs1
  have hL0 : qmin bits ≤ qmin bits + (if narrow then 1 else 0) := by split_ifs <;> omega
  have hLH : qmin bits + (if narrow then 1 else 0) ≤ qmax bits := by split_ifs <;> omega
  have hsum : qSum .f32 .f32 zw x s zp
      = Prec.f32.rn (Prec.f32.rn (x * Prec.f32.rn (1 / s)) + zp) := by
    rcases hzw with rfl | rfl <;> rfl
  rw [hsum, roundClip_eq bits hb2 (by omega) narrow]
  generalize hLdef : qmin bits + (if narrow then 1 else 0) = L at hlo hL0 hLH ⊢
  obtain ⟨c1, c2⟩ := clipI_range (rhe (Prec.f32.rn (Prec.f32.rn (x * Prec.f32.rn (1 / s)) + zp)))
    L (qmax bits) hLH
  have hsb : storageBits bits = 8 ∨ storageBits bits = 16 := by
    unfold storageBits; split_ifs <;> simp
  have hsub : subWidth true (storageBits bits) zw = 32 := by
    rcases hsb with h | h <;> rw [h] <;> rcases hzw with rfl | rfl <;> rfl
  have hd : ∀ q : Int, -40000 ≤ q → q ≤ 40000 →
      dqVal true (storageBits bits) zw .f32 q zp s = Prec.f64.rn (((q - zp : Int) : Rat) * s) := by
    intro q hq1 hq2
    unfold dqVal
    rw [hsub, wrap32 (q - zp) (by omega) (by omega)]
    rfl
  rw [hd _ (by omega) (by omega)]
  have core := dqq_core s hs1 hs2 ((2:Int)^(bits-1)) L (qmax bits) zp hi2 (by omega) hLH (by omega)
    (by omega) (by omega) x hlo hhi
  refine le_trans core (mul_le_mul_of_nonneg_left ?_ (le_of_lt hs0))
  have e1 : (2:Rat)^(bits + 3) = 16 * (2:Rat)^(bits-1) := by
    rw [show bits + 3 = (bits - 1) + 4 by omega, pow_add]; norm_num; ring
  have e2 : u32 = u24 := by unfold u32; exact u24_eq.symm
  have hp : (0:Rat) < (2:Rat)^(bits-1) := by positivity
  rw [e1, e2]; push_cast
  unfold u24
  linarith

end ArithRounded
