import QProofs.GraphFrame
import QProofs.GraphBasics
/-!
# Exact postconditions of one graph transformation (step lemmas of C03)

`GraphStep` / `GraphFrame` say what a transformation *preserves*.  Here we say what it *produces*:
the exact tensor list, operator list, graph outputs, buffer table and opcode table after a
successful `quantizeOnly` / `insertQuant` / `insertDequant`.

* `retype`, `newBufs`: the record / buffer table written by `quantize_tensor`;
* `quantizeTensor_exact`: exact result of the shared retyping helper;
* `rewire_exact`: exactly the listed real consumers are rewritten (by `GraphStep.rew`);
* `wireNewOp_exact`, `splice_get`: the operator list after splicing the new operator in;
* `quantizeOnly_exact`, `insertQuant_exact`, `insertDequant_exact`: the three steps.
-/
open Graph Perform GraphStep GraphFrame

namespace StepTypes

/-! ## `quantize_tensor` -/

/-- the tensor record written by `quantize_tensor` for parameter `p` (of kind `pi`, type `ty`) -/
def retype (pi : PInfo) (p : PId) (ty : Nat) (tn : Tensor) : Tensor :=
  if pi.uniform then { tn with quant := some p, dtype := ty } else { tn with dtype := ty }

theorem retype_dtype (pi : PInfo) (p : PId) (ty : Nat) (tn : Tensor) : (retype pi p ty tn).dtype = ty := by
  unfold retype; split <;> rfl

theorem retype_quant (pi : PInfo) (p : PId) (ty : Nat) (tn : Tensor) :
    (retype pi p ty tn).quant = if pi.uniform then some p else tn.quant := by
  unfold retype; split <;> rfl

theorem retype_name (pi : PInfo) (p : PId) (ty : Nat) (tn : Tensor) : (retype pi p ty tn).name = tn.name := by
  unfold retype; split <;> rfl

theorem retype_shape (pi : PInfo) (p : PId) (ty : Nat) (tn : Tensor) : (retype pi p ty tn).shape = tn.shape := by
  unfold retype; split <;> rfl

theorem retype_buffer (pi : PInfo) (p : PId) (ty : Nat) (tn : Tensor) :
    (retype pi p ty tn).buffer = tn.buffer := by
  unfold retype; split <;> rfl

/-- the buffer table after `quantize_tensor` on a tensor with record `tn` -/
def newBufs (bufs : List BufContent) (tn : Tensor) (pi : PInfo) (p : PId) : List BufContent :=
  if tn.buffer ≠ 0 ∧ pi.hasData = true then bufs.set tn.buffer (some (.inr p)) else bufs

theorem quantizeTensor_exact (pt : PTable) (bufs bufs' : List BufContent) (sg sg' : Subgraph) (t : Int)
    (p : PId) (pi : PInfo) (ty : Nat) (h0 : 0 ≤ t)
    (hpi : pinfo pt p = some pi) (hty : dtypeOf pi = .ok ty)
    (h : quantizeTensor pt bufs sg t (some p) = .ok (bufs', sg')) :
    ∃ tn, sg.tensors[t.toNat]? = some tn ∧
      sg' = { sg with tensors := sg.tensors.set t.toNat (retype pi p ty tn) } ∧
      bufs' = newBufs bufs tn pi p := by
  unfold quantizeTensor at h
  simp only [bind, Except.bind] at h
  cases hg : getTensor sg t with
  | error e => simp [hg] at h
  | ok tn =>
    have hidx := index_ok _ _ _ h0 hg
    simp only [hg, hpi, hty] at h
    have hset : ∀ tn', setTensor sg t tn' = { sg with tensors := sg.tensors.set t.toNat tn' } := by
      intro tn'; simp [setTensor, show ¬ t < 0 by omega]
    have hthrow : (throw PyErr.indexError : PyM (List BufContent)) = Except.error PyErr.indexError := rfl
    simp only [hset, pure, Except.pure, hthrow] at h
    refine ⟨tn, hidx, ?_⟩
    unfold newBufs retype
    by_cases hc : (decide (tn.buffer ≠ 0) && pi.hasData) = true
    · by_cases hlt : tn.buffer < bufs.length
      · simp only [hc, hlt, if_true, Except.ok.injEq, Prod.mk.injEq] at h
        simp only [Bool.and_eq_true, decide_eq_true_eq] at hc
        rw [if_pos hc]
        exact ⟨h.2.symm, h.1.symm⟩
      · simp only [hc, hlt, if_true, if_false] at h; cases h
    · simp only [hc, Bool.false_eq_true, if_false, Except.ok.injEq, Prod.mk.injEq] at h
      simp only [Bool.and_eq_true, decide_eq_true_eq] at hc
      rw [if_neg hc]
      exact ⟨h.2.symm, h.1.symm⟩

/-! ## `rewire` -/

theorem rewire_exact (cons : List Int) (t n : Int) : ∀ (ops ops2 : List Op),
    rewire ops cons t n = .ok ops2 →
    ops2.length = ops.length ∧
    ∀ j : Nat, ops2[j]? = if (j : Int) ∈ cons then ops[j]?.map (rew t n) else ops[j]? := by
  induction cons with
  | nil =>
    intro ops ops2 h
    simp only [rewire, List.foldlM_nil, pure, Except.pure, Except.ok.injEq] at h
    subst h
    exact ⟨rfl, fun j => by simp⟩
  | cons c cs ih =>
    intro ops ops2 h
    simp only [rewire, List.foldlM_cons, bind, Except.bind] at h
    by_cases hc : c < 0
    · simp only [hc, if_true, pure, Except.pure] at h
      obtain ⟨h1, h2⟩ := ih ops ops2 h
      refine ⟨h1, fun j => ?_⟩
      rw [h2 j]
      have : ((j : Int) ∈ c :: cs) ↔ (j : Int) ∈ cs := by
        rw [List.mem_cons]
        constructor
        · rintro (h | h)
          · omega
          · exact h
        · exact .inr
      simp only [this]
    · by_cases hlt : c.toNat < ops.length
      · simp only [hc, if_false, hlt, if_true, pure, Except.pure] at h
        obtain ⟨h1, h2⟩ := ih _ ops2 h
        refine ⟨by simpa using h1, fun j => ?_⟩
        have hm : (ops.modify c.toNat (rew t n))[j]? =
            if c.toNat = j then ops[j]?.map (rew t n) else ops[j]? := by
          rw [List.getElem?_modify]; split <;> simp
        have h2j := h2 j
        unfold rew at hm h2j
        rw [h2j, hm]
        show _ = if (j : Int) ∈ c :: cs then ops[j]?.map (rew t n) else ops[j]?
        by_cases hj : c.toNat = j
        · have hmem : (j : Int) ∈ c :: cs := by rw [← hj]; simp [show ((c.toNat : Nat) : Int) = c from by omega]
          rw [if_pos hj, if_pos hmem]
          split
          · rw [Option.map_map]
            congr 1
            funext o
            exact rew_idem t n o
          · rfl
        · rw [if_neg hj]
          have : ((j : Int) ∈ c :: cs) ↔ (j : Int) ∈ cs := by
            rw [List.mem_cons]
            constructor
            · rintro (h | h)
              · omega
              · exact h
            · exact .inr
          simp only [this]
          rfl
      · simp [hc, hlt, throw, throwThe, MonadExceptOf.throw] at h

/-! ## `wireNewOp` -/

theorem wireNewOp_exact (sg2 sg3 : Subgraph) (inp : TIn) (newT : Int) (op : Op) (info : TInfoOut)
    (hpr : -1 ≤ inp.producer ∧ inp.producer < sg2.ops.length)
    (hca : ∀ c ∈ inp.consumers, c < 0 ∨ (inp.producer < c ∧ c < sg2.ops.length))
    (h : wireNewOp sg2 inp newT op = .ok (sg3, info)) :
    ∃ ops2, rewire sg2.ops inp.consumers inp.tensor newT = .ok ops2 ∧
      0 ≤ info.opId ∧ info.opId ≤ sg2.ops.length ∧ inp.producer < info.opId ∧
      (∀ c ∈ inp.consumers, 0 ≤ c → info.opId ≤ c) ∧
      info.added = 1 ∧ info.outTensor = newT ∧
      sg3.tensors = sg2.tensors ∧ sg3.inputs = sg2.inputs ∧
      sg3.outputs = (if memI (-1) inp.consumers
        then sg2.outputs.map (fun o => if o == inp.tensor then newT else o) else sg2.outputs) ∧
      sg3.ops = ops2.insertIdx info.opId.toNat op := by
  obtain ⟨first, ops2, hmin, hrw, hT, hI, hO, hOut⟩ := wireNewOp_spec _ _ _ _ _ _ h
  obtain ⟨first', hmin', hid, hadd⟩ := wireNewOp_info _ _ _ _ _ _ h
  rw [hmin] at hmin'; cases hmin'
  have hout : info.outTensor = newT := by
    unfold wireNewOp at h
    simp only [bind, Except.bind, pure, Except.pure, hmin, hrw, Except.ok.injEq, Prod.mk.injEq] at h
    rw [← h.2]
  obtain ⟨hfm, hfle⟩ := minCons_spec _ _ hmin
  obtain ⟨hl2, -⟩ := rewire_spec _ _ _ _ _ hrw
  have hklen : (max (inp.producer + 1) first).toNat ≤ sg2.ops.length := by
    have := hca first hfm; omega
  rw [pyInsert_eq _ _ _ (by omega) (by omega), ← hid] at hO
  refine ⟨ops2, hrw, by omega, by omega, by omega, ?_, hadd, hout, hT, hI, hOut, hO⟩
  intro c hc h0
  have h1 := hca c hc
  have h2 := hfle c hc
  omega

/-- the operator list after rewiring and splicing `op` in at position `k` -/
theorem splice_get (ops ops2 : List Op) (cons : List Int) (t n : Int) (k : Nat) (op : Op)
    (hrw : rewire ops cons t n = .ok ops2) (hk : k ≤ ops.length) :
    (ops2.insertIdx k op).length = ops.length + 1 ∧
    (ops2.insertIdx k op)[k]? = some op ∧
    ∀ (j : Nat) o, ops[j]? = some o →
      (ops2.insertIdx k op)[if j < k then j else j + 1]? =
        some (if (j : Int) ∈ cons then rew t n o else o) := by
  obtain ⟨hl, hg⟩ := rewire_exact _ _ _ _ _ hrw
  refine ⟨by rw [List.length_insertIdx_of_le_length (by omega)]; omega,
    by rw [List.getElem?_insertIdx_self, if_pos (by omega)], ?_⟩
  intro j o hj
  have h2 : ops2[j]? = some (if (j : Int) ∈ cons then rew t n o else o) := by
    rw [hg j, hj]; split <;> rfl
  by_cases hlt : j < k
  · rw [if_pos hlt, List.getElem?_insertIdx_of_lt hlt]; exact h2
  · rw [if_neg hlt, List.getElem?_insertIdx_of_gt (by omega)]; exact h2

/-! ## the three steps -/

theorem quantizeOnly_exact (pt : PTable) (m m' : Model) (sgi : Nat) (sg sg' : Subgraph) (inp : TIn)
    (info : TInfoOut) (p : PId) (pi : PInfo) (ty : Nat)
    (hsg : m.subgraphs[sgi]? = some sg) (hsg' : m'.subgraphs[sgi]? = some sg')
    (hp : inp.param = some p) (hpi : pinfo pt p = some pi) (hty : dtypeOf pi = .ok ty)
    (h0 : 0 ≤ inp.tensor)
    (h : quantizeOnly pt m sgi inp = .ok (m', info)) :
    ∃ tn, sg.tensors[inp.tensor.toNat]? = some tn ∧
      sg' = { sg with tensors := sg.tensors.set inp.tensor.toNat (retype pi p ty tn) } ∧
      m'.buffers = newBufs m.buffers tn pi p ∧ m'.opcodes = m.opcodes ∧ m'.sigs = m.sigs ∧
      m'.subgraphs = m.subgraphs.set sgi sg' ∧
      info = ⟨0, 0, inp.tensor⟩ := by
  unfold quantizeOnly at h
  simp only [hsg, bind, Except.bind, pure, Except.pure] at h
  cases hq : quantizeTensor pt m.buffers sg inp.tensor inp.param with
  | error e => simp [hq] at h
  | ok r =>
    obtain ⟨bufs', sg2⟩ := r
    simp only [hq, Except.ok.injEq, Prod.mk.injEq] at h
    obtain ⟨rfl, rfl⟩ := h
    rw [hp] at hq
    obtain ⟨tn, hget, hsg2, hb⟩ := quantizeTensor_exact pt _ _ _ _ _ p pi ty h0 hpi hty hq
    have hlt : sgi < m.subgraphs.length := (List.getElem?_eq_some_iff.1 hsg).1
    simp only [List.getElem?_set_self hlt, Option.some.injEq] at hsg'
    subst hsg'
    exact ⟨tn, hget, hsg2, hb, rfl, rfl, rfl, rfl⟩

/-- common part of `insertQuant_exact` / `insertDequant_exact`: `qt` is the tensor that gets
    retyped, `nt` the record appended for the new tensor -/
theorem insert_exact (pt : PTable) (m : Model) (sg : Subgraph) (inp : TIn)
    (hinp : InpOK pt m sg inp) (nt : Tensor) (qt : Int) (op : Op)
    (bufs : List BufContent) (sg2 sg3 : Subgraph) (info : TInfoOut)
    (p : PId) (pi : PInfo) (ty : Nat)
    (hp : inp.param = some p) (hpi : pinfo pt p = some pi) (hty : dtypeOf pi = .ok ty)
    (h0 : 0 ≤ qt)
    (hq : quantizeTensor pt m.buffers { sg with tensors := sg.tensors ++ [nt] } qt inp.param
        = .ok (bufs, sg2))
    (hw : wireNewOp sg2 inp (sg.tensors.length : Int) op = .ok (sg3, info)) :
    ∃ tq ops2, (sg.tensors ++ [nt])[qt.toNat]? = some tq ∧
      rewire sg.ops inp.consumers inp.tensor (sg.tensors.length : Int) = .ok ops2 ∧
      sg3.tensors = (sg.tensors ++ [nt]).set qt.toNat (retype pi p ty tq) ∧
      bufs = newBufs m.buffers tq pi p ∧
      sg3.ops = ops2.insertIdx info.opId.toNat op ∧
      sg3.inputs = sg.inputs ∧
      sg3.outputs = (if memI (-1) inp.consumers
        then sg.outputs.map (fun o => if o == inp.tensor then (sg.tensors.length : Int) else o)
        else sg.outputs) ∧
      0 ≤ info.opId ∧ info.opId ≤ sg.ops.length ∧ inp.producer < info.opId ∧
      (∀ c ∈ inp.consumers, 0 ≤ c → info.opId ≤ c) ∧
      info.added = 1 ∧ info.outTensor = (sg.tensors.length : Int) := by
  rw [hp] at hq
  obtain ⟨tq, hget, hsg2, hb⟩ := quantizeTensor_exact pt _ _ _ _ _ p pi ty h0 hpi hty hq
  subst hsg2
  obtain ⟨ops2, hrw, i1, i2, i3, i4, i5, i6, hT, hI, hOut, hO⟩ :=
    wireNewOp_exact { sg with tensors := (sg.tensors ++ [nt]).set qt.toNat (retype pi p ty tq) }
      _ _ _ _ _ hinp.prodRange hinp.consAfter hw
  exact ⟨tq, ops2, hget, hrw, hT, hb, hO, hI, hOut, i1, i2, i3, i4, i5, i6⟩

theorem set_append_last {α} (l : List α) (a b : α) : (l ++ [a]).set l.length b = l ++ [b] := by
  rw [List.set_append_right _ _ (Nat.le_refl _)]
  simp

theorem set_append_init {α} (l : List α) (a b : α) (i : Nat) (hi : i < l.length) :
    (l ++ [a]).set i b = l.set i b ++ [a] := by
  rw [List.set_append_left _ _ hi]

/-- the graph outputs after an insertion: rewired iff `-1` (graph output) is a listed consumer -/
def newOutputs (sg : Subgraph) (inp : TIn) : List Int :=
  if memI (-1) inp.consumers
  then sg.outputs.map (fun o => if o == inp.tensor then (sg.tensors.length : Int) else o)
  else sg.outputs

theorem insertQuant_exact (pt : PTable) (m m' : Model) (sgi : Nat) (sg sg' : Subgraph) (inp : TIn)
    (info : TInfoOut) (p : PId) (pi : PInfo) (ty : Nat)
    (hsg : m.subgraphs[sgi]? = some sg) (hsg' : m'.subgraphs[sgi]? = some sg')
    (hinp : InpOK pt m sg inp)
    (hp : inp.param = some p) (hpi : pinfo pt p = some pi) (hty : dtypeOf pi = .ok ty)
    (h : insertQuant pt m sgi inp = .ok (m', info)) :
    ∃ tn ops2, sg.tensors[inp.tensor.toNat]? = some tn ∧
      rewire sg.ops inp.consumers inp.tensor (sg.tensors.length : Int) = .ok ops2 ∧
      sg'.tensors = sg.tensors ++
        [retype pi p ty { name := uniqueName (sg.tensors.map (·.name)) (tn.name ++ "_quantized"),
                          dtype := Tables.ttFloat32, shape := tn.shape, buffer := 0 }] ∧
      sg'.ops = ops2.insertIdx info.opId.toNat
        { code := (addOpCode m.opcodes Tables.opQuantize).2, inputs := [inp.tensor],
          outputs := [(sg.tensors.length : Int)] } ∧
      sg'.inputs = sg.inputs ∧ sg'.outputs = newOutputs sg inp ∧
      m'.buffers = m.buffers ∧ m'.opcodes = (addOpCode m.opcodes Tables.opQuantize).1 ∧
      m'.sigs = m.sigs ∧ m'.subgraphs = m.subgraphs.set sgi sg' ∧
      0 ≤ info.opId ∧ info.opId ≤ sg.ops.length ∧ inp.producer < info.opId ∧
      (∀ c ∈ inp.consumers, 0 ≤ c → info.opId ≤ c) ∧
      info.added = 1 ∧ info.outTensor = (sg.tensors.length : Int) := by
  have hv := (validT_iff _ _).1 hinp.tvalid
  unfold insertQuant at h
  simp only [hsg, bind, Except.bind, pure, Except.pure] at h
  cases hg : getTensor sg inp.tensor with
  | error e => simp [hg] at h
  | ok tn =>
    have hidx := index_ok _ _ _ hv.1 hg
    simp only [hg] at h
    split at h
    · simp at h
    · rename_i r hq
      obtain ⟨bufs, sg2⟩ := r
      split at h
      · simp at h
      · rename_i r' hw
        obtain ⟨sg3, info'⟩ := r'
        simp only [Except.ok.injEq, Prod.mk.injEq] at h
        obtain ⟨rfl, rfl⟩ := h
        have hlt : sgi < m.subgraphs.length := (List.getElem?_eq_some_iff.1 hsg).1
        simp only [List.getElem?_set_self hlt, Option.some.injEq] at hsg'
        subst hsg'
        obtain ⟨tq, ops2, e1, e2, e3, e4, e5, e6, e7, e8⟩ :=
          insert_exact pt m sg inp hinp _ _ _ bufs sg2 sg3 info' p pi ty hp hpi hty
            (Int.natCast_nonneg _) hq hw
        simp only [Int.toNat_natCast, List.getElem?_concat_length, Option.some.injEq] at e1
        subst e1
        rw [Int.toNat_natCast, set_append_last] at e3
        refine ⟨tn, ops2, hidx, e2, e3, e5, e6, e7, ?_, rfl, rfl, rfl, e8⟩
        show bufs = m.buffers
        rw [e4]; simp [newBufs]

theorem insertDequant_exact (pt : PTable) (m m' : Model) (sgi : Nat) (sg sg' : Subgraph) (inp : TIn)
    (info : TInfoOut) (p : PId) (pi : PInfo) (ty : Nat)
    (hsg : m.subgraphs[sgi]? = some sg) (hsg' : m'.subgraphs[sgi]? = some sg')
    (hinp : InpOK pt m sg inp)
    (hp : inp.param = some p) (hpi : pinfo pt p = some pi) (hty : dtypeOf pi = .ok ty)
    (h : insertDequant pt m sgi inp = .ok (m', info)) :
    ∃ tn ops2, sg.tensors[inp.tensor.toNat]? = some tn ∧
      rewire sg.ops inp.consumers inp.tensor (sg.tensors.length : Int) = .ok ops2 ∧
      sg'.tensors = sg.tensors.set inp.tensor.toNat (retype pi p ty tn) ++
        [{ name := uniqueName (sg.tensors.map (·.name)) (tn.name ++ "_dequant"),
           dtype := Tables.ttFloat32, shape := tn.shape, buffer := 0 }] ∧
      sg'.ops = ops2.insertIdx info.opId.toNat
        { code := (addOpCode m.opcodes Tables.opDequantize).2, inputs := [inp.tensor],
          outputs := [(sg.tensors.length : Int)] } ∧
      sg'.inputs = sg.inputs ∧ sg'.outputs = newOutputs sg inp ∧
      m'.buffers = newBufs m.buffers tn pi p ∧
      m'.opcodes = (addOpCode m.opcodes Tables.opDequantize).1 ∧
      m'.sigs = m.sigs ∧ m'.subgraphs = m.subgraphs.set sgi sg' ∧
      0 ≤ info.opId ∧ info.opId ≤ sg.ops.length ∧ inp.producer < info.opId ∧
      (∀ c ∈ inp.consumers, 0 ≤ c → info.opId ≤ c) ∧
      info.added = 1 ∧ info.outTensor = (sg.tensors.length : Int) := by
  have hv := (validT_iff _ _).1 hinp.tvalid
  have hv' := hv
  unfold ValidT at hv'
  unfold insertDequant at h
  simp only [hsg, bind, Except.bind, pure, Except.pure] at h
  cases hg : getTensor sg inp.tensor with
  | error e => simp [hg] at h
  | ok tn =>
    have hidx := index_ok _ _ _ hv.1 hg
    simp only [hg] at h
    split at h
    · simp at h
    · rename_i r hq
      obtain ⟨bufs, sg2⟩ := r
      split at h
      · simp at h
      · rename_i r' hw
        obtain ⟨sg3, info'⟩ := r'
        simp only [Except.ok.injEq, Prod.mk.injEq] at h
        obtain ⟨rfl, rfl⟩ := h
        have hlt : sgi < m.subgraphs.length := (List.getElem?_eq_some_iff.1 hsg).1
        simp only [List.getElem?_set_self hlt, Option.some.injEq] at hsg'
        subst hsg'
        obtain ⟨tq, ops2, e1, e2, e3, e4, e5, e6, e7, e8⟩ :=
          insert_exact pt m sg inp hinp _ _ _ bufs sg2 sg3 info' p pi ty hp hpi hty hv.1 hq hw
        have hil : inp.tensor.toNat < sg.tensors.length := by omega
        rw [List.getElem?_append_left hil, hidx, Option.some.injEq] at e1
        subst e1
        rw [set_append_init _ _ _ _ hil] at e3
        exact ⟨tn, ops2, hidx, e2, e3, e5, e6, e7, e4, rfl, rfl, rfl, e8⟩

end StepTypes
