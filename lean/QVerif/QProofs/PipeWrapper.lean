import QProofs.PipeDefs
/-!
# `tensorXfs`, `mkReq`, `wrapper`, `noQuantReq`: the shape of a single request
-/
open Graph Mat Cfg Pipeline InstGen GenInstsOK GraphStep GraphInv

namespace Pipe

/-- no BLOCKWISE weight configuration -/
def NoBlockwise (c : OpCfg) : Prop := ∀ w, c.weight = some w → w.gran ≠ Gran.blockwise

theorem constData_isSome (env : Env) (sg : Subgraph) (i : Nat) (t : Tensor) (ht : sg.tensors[i]? = some t) :
    (constData env t).isSome = isConst env.model sg (i : Int) := by
  unfold constData isConst
  simp only [show ¬ ((i : Int) < 0) by omega, if_false, Int.toNat_natCast, ht]
  cases h : env.model.buffers[t.buffer]? with
  | none => rfl
  | some b =>
    cases b with
    | none => rfl
    | some v =>
      simp only []
      cases List.find? (fun x => x.1 == t.buffer) env.consts <;> rfl

/-- reading a tensor through a valid (non-negative) slot -/
theorem tensorAt_get (sg : Subgraph) (a : Int) (t : Tensor) (h0 : 0 ≤ a) (h : tensorAt sg a = .ok t) :
    sg.tensors[a.toNat]? = some t := index_ok _ _ _ h0 h

theorem tensorXfs_spec (c : OpCfg) (inbound isC : Bool) (xfs : List Xf) (hnb : NoBlockwise c)
    (h : tensorXfs c inbound isC = .ok xfs) :
    ∃ x, xfs = [x] ∧ x ≠ .emulated ∧
      (inbound = true → (x = .quantTensor ∨ x = .addDequant) → isC = true) ∧
      (inbound = false → x = .noQuant ∨ x = .addDequant) := by
  have hbw : ∀ (b : Bool), ((match c.weight with | some w => w.gran == Gran.blockwise | none => false) && b) = false := by
    intro b
    cases hw : c.weight with
    | none => rfl
    | some w =>
      have : (w.gran == Gran.blockwise) = false := by
        simp only [beq_eq_false_iff_ne, ne_eq]
        exact hnb w hw
      simp only [this, Bool.false_and]
  have h' : (if (c.cp == CP.integer && c.act.isSome) = true then
      if inbound = true then (if isC = true then Except.ok [Xf.quantTensor] else Except.ok [Xf.addQuant]) else Except.ok [Xf.addDequant]
    else if (c.cp == CP.integer && c.act.isNone) = true then
      if (inbound && isC) = true then Except.ok [Xf.quantTensor] else Except.ok [Xf.noQuant]
    else if ((match c.weight with | some w => w.gran == Gran.blockwise | none => false) && isC) = true then
      Except.ok [Xf.emulated]
    else if (c.cp == CP.float && c.explicitDeq) = true then
      if (inbound && isC) = true then Except.ok [Xf.addDequant] else Except.ok [Xf.noQuant]
    else (Except.error PyErr.valueError : PyM (List Xf))) = .ok xfs := h
  rw [hbw] at h'
  simp only [Bool.false_eq_true, if_false] at h'
  cases inbound <;> cases isC <;>
    simp only [Bool.and_false, Bool.and_true, Bool.false_eq_true, if_false, if_true] at h' <;>
    (repeat' split at h') <;> cases h' <;> refine ⟨_, rfl, by decide, by simp, by simp⟩

theorem noQuantReq_cons (name : String) (opId : Int) :
    noQuantReq name opId true = ⟨name, none, some [(⟨opId, [.noQuant], none⟩ : CO2T)]⟩ := rfl

theorem noQuantReq_prod (name : String) (opId : Int) :
    noQuantReq name opId false = ⟨name, some (⟨opId, [.noQuant], none⟩ : CO2T), none⟩ := rfl

theorem mkReq_spec (name : String) (oi : OpInfo) (inbound : Bool) (p : Option Param) (isC : Bool) (r : CReq)
    (h : mkReq name oi inbound p isC = .ok r) :
    ∃ xfs, tensorXfs oi.cfg inbound isC = .ok xfs ∧
      r = (if inbound then ⟨name, none, some [(⟨oi.opId, xfs, p⟩ : CO2T)]⟩ else ⟨name, some (⟨oi.opId, xfs, p⟩ : CO2T), none⟩) := by
  unfold mkReq at h
  obtain ⟨xfs, hx, h⟩ := bind_ok _ _ _ h
  simp only [pure, Except.pure, Except.ok.injEq] at h
  exact ⟨xfs, hx, h.symm⟩

theorem tensorQuantParams_data (env : Env) (oi : OpInfo) (mm : Qsv) (tc : TCfg) (content : Option (Nd.Arr Rat))
    (p : Param) (h : tensorQuantParams env oi mm tc content = .ok p) (hd : hasData p = true) :
    content.isSome = true := by
  cases content with
  | some c => rfl
  | none =>
    exfalso
    unfold tensorQuantParams at h
    simp only [bind, Except.bind, pure, Except.pure, throw, throwThe, MonadExceptOf.throw] at h
    repeat' split at h
    all_goals (cases h <;> simp [hasData] at hd)

theorem tensorQuantParams_uniform (env : Env) (oi : OpInfo) (mm : Qsv) (tc : TCfg) (content : Option (Nd.Arr Rat))
    (p : Param) (h : tensorQuantParams env oi mm tc content = .ok p) : ∃ qp d, p = .uniform qp d := by
  unfold tensorQuantParams at h
  simp only [bind, Except.bind, pure, Except.pure, throw, throwThe, MonadExceptOf.throw] at h
  repeat' split at h
  all_goals (cases h <;> exact ⟨_, _, rfl⟩)

/-- without given parameters, the parameter object of a request made by `wrapper` is uniform
    (computed by `tensorQuantParams`) or absent -/
theorem wrapper_none_uniform (env : Env) (qs : Qsvs) (oi : OpInfo) (t : Tensor) (inbound : Bool)
    (r : CReq) (h : wrapper env qs oi t inbound none = .ok r) :
    (∀ pr q, r.producer = some pr → pr.param = some q → ∃ qp d, q = .uniform qp d) ∧
    (∀ cs c q, r.consumers = some cs → c ∈ cs → c.param = some q → ∃ qp d, q = .uniform qp d) := by
  have key : ∃ p, mkReq t.name oi inbound p (constData env t).isSome = .ok r ∧
      (∀ q, p = some q → ∃ qp d, q = .uniform qp d) := by
    generalize hg : (none : Option Param) = g at h
    unfold wrapper at h
    simp only [] at h
    split at h
    · rename_i tc _
      have fin : ∀ mm, ((tensorQuantParams env oi mm tc (constData env t) >>= fun r => pure (some r)) >>=
          fun p => mkReq t.name oi inbound p (constData env t).isSome) = .ok r →
          ∃ p, mkReq t.name oi inbound p (constData env t).isSome = .ok r ∧
            (∀ q, p = some q → ∃ qp d, q = .uniform qp d) := by
        intro mm h
        obtain ⟨p, hp, h⟩ := bind_ok _ _ _ h
        obtain ⟨q', hq', hp⟩ := bind_ok _ _ _ hp
        simp only [pure, Except.pure, Except.ok.injEq] at hp
        subst hp
        refine ⟨_, h, ?_⟩
        intro q hq
        cases hq
        exact tensorQuantParams_uniform _ _ _ _ _ _ hq'
      split at h
      · split at h
        · obtain ⟨mm, _, h⟩ := bind_ok _ _ _ h
          exact fin _ h
        · obtain ⟨mm, _, h⟩ := bind_ok _ _ _ h
          exact fin _ h
      · split at h
        · obtain ⟨mm, hmm, h⟩ := bind_ok _ _ _ h
          cases hmm
        · obtain ⟨mm, _, h⟩ := bind_ok _ _ _ h
          exact fin _ h
    · cases hg
    · obtain ⟨p, hp, h⟩ := bind_ok _ _ _ h
      simp only [pure, Except.pure, Except.ok.injEq] at hp
      subst hp
      subst hg
      exact ⟨_, h, fun q hq => by cases hq⟩
  obtain ⟨p, h, hu⟩ := key
  obtain ⟨xfs, hx, hr⟩ := mkReq_spec _ _ _ _ _ _ h
  subst hr
  cases inbound
  · refine ⟨?_, ?_⟩
    · intro pr q h1 h2
      simp only [Bool.false_eq_true, if_false, Option.some.injEq] at h1
      subst h1
      exact hu q h2
    · intro cs c q h1
      simp at h1
  · refine ⟨?_, ?_⟩
    · intro pr q h1
      simp at h1
    · intro cs c q h1 h2 h3
      simp only [if_true, Option.some.injEq] at h1
      subst h1
      rw [List.mem_singleton] at h2
      subst h2
      exact hu q h3

/-- **a request made by `wrapper`** -/
theorem wrapper_spec (env : Env) (qs : Qsvs) (oi : OpInfo) (t : Tensor) (inbound : Bool) (g : Option Param)
    (r : CReq) (h : wrapper env qs oi t inbound g = .ok r)
    (hg : ∀ p, g = some p → hasData p = true → (constData env t).isSome = true) :
    ∃ xfs p, tensorXfs oi.cfg inbound (constData env t).isSome = .ok xfs ∧
      r = (if inbound then ⟨t.name, none, some [(⟨oi.opId, xfs, p⟩ : CO2T)]⟩ else ⟨t.name, some (⟨oi.opId, xfs, p⟩ : CO2T), none⟩) ∧
      (∀ q, p = some q → hasData q = true → (constData env t).isSome = true) := by
  have key : ∃ p, mkReq t.name oi inbound p (constData env t).isSome = .ok r ∧
      (∀ q, p = some q → hasData q = true → (constData env t).isSome = true) := by
    unfold wrapper at h
    simp only [] at h
    split at h
    · -- parameters computed from the statistics
      rename_i tc _
      have fin : ∀ mm, ((tensorQuantParams env oi mm tc (constData env t) >>= fun r => pure (some r)) >>=
          fun p => mkReq t.name oi inbound p (constData env t).isSome) = .ok r →
          ∃ p, mkReq t.name oi inbound p (constData env t).isSome = .ok r ∧
            (∀ q, p = some q → hasData q = true → (constData env t).isSome = true) := by
        intro mm h
        obtain ⟨p, hp, h⟩ := bind_ok _ _ _ h
        obtain ⟨q', hq', hp⟩ := bind_ok _ _ _ hp
        simp only [pure, Except.pure, Except.ok.injEq] at hp
        subst hp
        refine ⟨_, h, ?_⟩
        intro q hq hd
        cases hq
        exact tensorQuantParams_data _ _ _ _ _ _ hq' hd
      split at h
      · split at h
        · obtain ⟨mm, _, h⟩ := bind_ok _ _ _ h
          exact fin _ h
        · obtain ⟨mm, _, h⟩ := bind_ok _ _ _ h
          exact fin _ h
      · split at h
        · obtain ⟨mm, hmm, h⟩ := bind_ok _ _ _ h
          cases hmm
        · obtain ⟨mm, _, h⟩ := bind_ok _ _ _ h
          exact fin _ h
    · -- borrowed parameters without data
      split at h
      · rename_i d hdat
        obtain ⟨p, hp, h⟩ := bind_ok _ _ _ h
        refine ⟨p, h, ?_⟩
        intro _ _ _
        rw [hdat]; rfl
      · obtain ⟨p, hp, h⟩ := bind_ok _ _ _ h
        simp only [pure, Except.pure, Except.ok.injEq] at hp
        subst hp
        exact ⟨_, h, fun q hq hd => hg q hq hd⟩
    · obtain ⟨p, hp, h⟩ := bind_ok _ _ _ h
      simp only [pure, Except.pure, Except.ok.injEq] at hp
      subst hp
      exact ⟨_, h, fun q hq hd => hg q hq hd⟩
  obtain ⟨p, h, hd⟩ := key
  obtain ⟨xfs, hx, hr⟩ := mkReq_spec _ _ _ _ _ _ h
  exact ⟨xfs, p, hx, hr, hd⟩

end Pipe
