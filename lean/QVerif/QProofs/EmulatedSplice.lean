import QProofs.EmulatedSpec
/-!
# Replacing one operator by a chain of operators keeps a subgraph well-formed

`splice_ok`: in a well-formed subgraph `pre ++ fc :: post` with `fc.outputs = [y]`, replace `fc` by a
`Chain` `N` (see `EmuSpec.Chain`) whose operands are available where `fc` stood or are constants, whose
intermediate results are new non-constant tensors and whose last member produces `y`: the subgraph
`pre ++ N ++ post` over the extended tensor list is well-formed.
`SgOK_grow`: the other subgraphs stay well-formed when buffers / operator codes are appended.
-/
open Graph Perform Emulated GraphStep EmuSpec

namespace EmuSplice

theorem isConst_grow (m m' : Model) (sg : Subgraph) (t : Int)
    (hbufr : ∀ tn ∈ sg.tensors, tn.buffer < m.buffers.length)
    (hc : ∀ i, i < m.buffers.length → constAt m'.buffers i = constAt m.buffers i) :
    isConst m' sg t = isConst m sg t := by
  rw [isConst_eq, isConst_eq]
  split
  · rfl
  · cases h : sg.tensors[t.toNat]? with
    | none => rfl
    | some tn => exact hc _ (hbufr tn (List.mem_of_getElem? h))

/-- a subgraph stays well-formed when the buffer list keeps its data/no-data pattern on the old indices
    (it may grow) and the operator-code table grows -/
theorem SgOK_grow (m m' : Model) (sg : Subgraph)
    (hlen : m.buffers.length ≤ m'.buffers.length)
    (hc : ∀ i, i < m.buffers.length → constAt m'.buffers i = constAt m.buffers i)
    (hcodes : m.opcodes.length ≤ m'.opcodes.length)
    (h : SgOK m sg) : SgOK m' sg := by
  have hcon : ∀ t, isConst m' sg t = isConst m sg t := fun t => isConst_grow m m' sg t h.bufr hc
  have ha : ∀ k t, Avail m' sg k t ↔ Avail m sg k t := fun k t => by simp [Avail, hcon]
  refine ⟨fun tn htn => Nat.lt_of_lt_of_le (h.bufr tn htn) hlen, h.names, ?_, h.nodupOut, h.ins, h.outs, ?_⟩
  · intro k o hk
    have ho := h.ops k o hk
    refine ⟨Nat.lt_of_lt_of_le ho.code hcodes, ?_, ?_⟩
    · intro t ht
      rcases ho.ins t ht with h1 | ⟨h1, h2⟩
      · exact .inl h1
      · exact .inr ⟨h1, (ha k t).2 h2⟩
    · intro t ht
      rcases ho.outs t ht with h1 | ⟨h1, h2, h3, h4⟩
      · exact .inl h1
      · exact .inr ⟨h1, h2, by rw [hcon]; exact h3, h4⟩
  · intro t ht; exact (ha _ t).2 (h.outsAvail t ht)

section Splice
variable (m m' : Model) (sg sg' : Subgraph) (pre post N : List Op) (fc : Op) (y : Int)
  (A : Int → Prop) (lo : Nat)

theorem splice_ok
    (hok : SgOK m sg)
    (hops : sg.ops = pre ++ fc :: post) (hfcout : fc.outputs = [y]) (hy : y ≠ -1)
    (hops' : sg'.ops = pre ++ N ++ post)
    (hin : sg'.inputs = sg.inputs) (hout : sg'.outputs = sg.outputs)
    (hlen : sg.tensors.length ≤ sg'.tensors.length) (hlo : sg.tensors.length ≤ lo)
    (hnames : (sg'.tensors.map (·.name)).Nodup)
    (hbufr : ∀ tn ∈ sg'.tensors, tn.buffer < m'.buffers.length)
    (hcold : ∀ t, ValidT sg t → isConst m' sg' t = isConst m sg t)
    (hcodes : m.opcodes.length ≤ m'.opcodes.length)
    (hNcodes : ∀ o ∈ N, o.code < m'.opcodes.length)
    (hchain : Chain A lo sg'.tensors.length y N)
    (hA : ∀ t, A t → (ValidT sg t ∧ Avail m sg pre.length t) ∨ (ValidT sg' t ∧ isConst m' sg' t = true))
    (hact : ∀ f : Nat, lo ≤ f → f < sg'.tensors.length → isConst m' sg' (f : Int) = false) :
    SgOK m' sg' := by
  have hL : 0 < N.length := List.length_pos_iff.2 hchain.ne
  -- positions in the two operator lists
  have gOldLt : ∀ j, j < pre.length → sg.ops[j]? = pre[j]? := fun j hj => by
    rw [hops, List.getElem?_append_left hj]
  have gOldK : sg.ops[pre.length]? = some fc := by
    rw [hops, List.getElem?_append_right (Nat.le_refl _)]; simp
  have gOldGt : ∀ j, pre.length < j → sg.ops[j]? = post[j - pre.length - 1]? := fun j hj => by
    rw [hops, List.getElem?_append_right (by omega)]
    obtain ⟨d, hd⟩ : ∃ d, j - pre.length = d + 1 := ⟨j - pre.length - 1, by omega⟩
    rw [hd, List.getElem?_cons_succ]
    simp
  have gNewLt : ∀ j, j < pre.length → sg'.ops[j]? = pre[j]? := fun j hj => by
    rw [hops', List.append_assoc, List.getElem?_append_left hj]
  have gNewMid : ∀ j, pre.length ≤ j → j < pre.length + N.length → sg'.ops[j]? = N[j - pre.length]? :=
    fun j h1 h2 => by
      rw [hops', List.append_assoc, List.getElem?_append_right h1, List.getElem?_append_left (by omega)]
  have gNewGt : ∀ j, pre.length + N.length ≤ j → sg'.ops[j]? = post[j - pre.length - N.length]? :=
    fun j h1 => by
      rw [hops', List.append_assoc, List.getElem?_append_right (by omega),
        List.getElem?_append_right (by omega)]
  have lenOld : sg.ops.length = pre.length + 1 + post.length := by rw [hops]; simp; omega
  have lenNew : sg'.ops.length = pre.length + N.length + post.length := by rw [hops']; simp; omega
  -- the replaced operator
  have hfc : OpOK m sg pre.length fc := hok.ops _ _ gOldK
  have hyfc : ValidT sg y ∧ y ∉ sg.inputs ∧ isConst m sg y = false ∧ ¬ ProdBefore sg.ops pre.length y := by
    rcases hfc.outs y (by rw [hfcout]; simp) with h | h
    · exact absurd h hy
    · exact h
  -- members of the chain
  have hNlast : ∀ o, N[N.length - 1]? = some o → o.outputs = [y] := hchain.last
  have hNmid : ∀ i o, N[i]? = some o → i + 1 < N.length →
      ∃ f : Nat, o.outputs = [(f : Int)] ∧ lo ≤ f ∧ f < sg'.tensors.length := by
    intro i o hi hlt
    obtain ⟨f, h1, h2, h3, _⟩ := hchain.mid i o hi hlt
    exact ⟨f, h1, h2, h3⟩
  obtain ⟨oL, hoL⟩ : ∃ oL, N[N.length - 1]? = some oL :=
    ⟨N[N.length - 1]'(by omega), List.getElem?_eq_getElem (by omega)⟩
  -- tensors
  have hv : ∀ t, ValidT sg t → ValidT sg' t := by
    intro t ht; unfold ValidT at *; omega
  have hpv : ∀ j x, ProdBefore sg.ops j x → x = -1 ∨ ValidT sg x := by
    rintro j x ⟨i, o, _, ho, hx⟩
    rcases (hok.ops i o ho).outs x hx with h1 | h1
    · exact .inl h1
    · exact .inr h1.1
  have hcT : ∀ t, isConst m sg t = true → isConst m' sg' t = true := by
    intro t ht; rw [hcold t (isConst_valid _ _ _ ht)]; exact ht
  -- the position map  j ↦ j (j ≤ k),  j ↦ j - 1 + L (k < j)
  have availT : ∀ j j' t, ((j' = j ∧ j ≤ pre.length) ∨ (j' + 1 = j + N.length ∧ pre.length < j)) →
      Avail m sg j t → Avail m' sg' j' t := by
    intro j j' t hpos ha
    rcases ha with ha | ha | ⟨i, o, hi, ho, hto⟩
    · exact .inl (hin ▸ ha)
    · exact .inr (.inl (hcT t ha))
    · refine .inr (.inr ?_)
      by_cases h1 : i < pre.length
      · exact ⟨i, o, by omega, by rw [gNewLt i h1, ← gOldLt i h1]; exact ho, hto⟩
      · by_cases h2 : i = pre.length
        · subst h2
          rw [gOldK] at ho
          cases ho
          refine ⟨pre.length + N.length - 1, oL, by omega, ?_, ?_⟩
          · rw [gNewMid _ (by omega) (by omega), show pre.length + N.length - 1 - pre.length = N.length - 1 by omega]
            exact hoL
          · rw [hNlast oL hoL]; rw [hfcout] at hto; exact hto
        · refine ⟨i - 1 + N.length, o, by omega, ?_, hto⟩
          rw [gNewGt _ (by omega), ← ho, gOldGt i (by omega)]
          congr 1
          omega
  have nprodT : ∀ j j' x, ((j' = j ∧ j ≤ pre.length) ∨ (j' + 1 = j + N.length ∧ pre.length < j)) →
      ValidT sg x → ¬ ProdBefore sg.ops j x → ¬ ProdBefore sg'.ops j' x := by
    rintro j j' x hpos hvx hnp ⟨i, o, hi, ho, hxo⟩
    by_cases h1 : i < pre.length
    · exact hnp ⟨i, o, by omega, by rw [gOldLt i h1, ← gNewLt i h1]; exact ho, hxo⟩
    · by_cases h2 : i < pre.length + N.length
      · rw [gNewMid i (by omega) h2] at ho
        by_cases h3 : i - pre.length + 1 < N.length
        · obtain ⟨f, hf, hflo, _⟩ := hNmid _ o ho h3
          rw [hf] at hxo
          simp at hxo
          unfold ValidT at hvx
          omega
        · have : i - pre.length = N.length - 1 := by omega
          rw [this] at ho
          rw [hNlast o ho] at hxo
          simp at hxo
          subst hxo
          exact hnp ⟨pre.length, fc, by omega, gOldK, by rw [hfcout]; simp⟩
      · refine hnp ⟨i - N.length + 1, o, by omega, ?_, hxo⟩
        rw [gOldGt _ (by omega), ← ho, gNewGt i (by omega)]
        congr 1
        omega
  -- an old operator at its new position
  have transfer : ∀ j j' o, ((j' = j ∧ j ≤ pre.length) ∨ (j' + 1 = j + N.length ∧ pre.length < j)) →
      sg.ops[j]? = some o → OpOK m' sg' j' o := by
    intro j j' o hpos hj
    have hold := hok.ops j o hj
    refine ⟨Nat.lt_of_lt_of_le hold.code hcodes, ?_, ?_⟩
    · intro t ht
      rcases hold.ins t ht with h3 | ⟨h3, h4⟩
      · exact .inl h3
      · exact .inr ⟨hv t h3, availT j j' t hpos h4⟩
    · intro t ht
      rcases hold.outs t ht with h3 | ⟨h3, h4, h5, h6⟩
      · exact .inl h3
      · exact .inr ⟨hv t h3, hin ▸ h4, by rw [hcold t h3]; exact h5, nprodT j j' t hpos h3 h6⟩
  refine ⟨hbufr, hnames, ?_, ?_, ?_, ?_, ?_⟩
  · -- operators
    intro j o hj
    by_cases h1 : j < pre.length
    · exact transfer j j o (.inl ⟨rfl, by omega⟩) (by rw [gOldLt j h1, ← gNewLt j h1]; exact hj)
    · by_cases h2 : j < pre.length + N.length
      · -- a member of the chain
        rw [gNewMid j (by omega) h2] at hj
        refine ⟨hNcodes o (List.mem_of_getElem? hj), ?_, ?_⟩
        · intro t ht
          rcases hchain.ins _ o hj t ht with ha | ⟨i', o', hi', ho', hto'⟩
          · rcases hA t ha with ⟨h3, h4⟩ | ⟨h3, h4⟩
            · exact .inr ⟨hv t h3, avail_mono _ _ _ _ _ (by omega)
                (availT pre.length pre.length t (.inl ⟨rfl, Nat.le_refl _⟩) h4)⟩
            · exact .inr ⟨h3, .inr (.inl h4)⟩
          · obtain ⟨f, hf, hflo, hfT⟩ := hNmid i' o' ho' (by omega)
            rw [hf] at hto'
            simp at hto'
            subst hto'
            refine .inr ⟨by unfold ValidT; omega, .inr (.inr ⟨pre.length + i', o', by omega, ?_, by rw [hf]; simp⟩)⟩
            rw [gNewMid _ (by omega) (by omega), show pre.length + i' - pre.length = i' by omega]
            exact ho'
        · intro t ht
          by_cases h3 : j - pre.length + 1 < N.length
          · obtain ⟨f, hf, hflo, hfT, hfne⟩ := hchain.mid _ o hj h3
            rw [hf] at ht
            simp at ht
            subst ht
            refine .inr ⟨by unfold ValidT; omega, ?_, hact f hflo hfT, ?_⟩
            · rw [hin]; intro hmem
              have := hok.ins _ hmem
              unfold ValidT at this; omega
            · rintro ⟨i, o', hi, ho', hfo'⟩
              by_cases h4 : i < pre.length
              · rw [gNewLt i h4, ← gOldLt i h4] at ho'
                rcases (hok.ops i o' ho').outs _ hfo' with h5 | ⟨h5, _⟩
                · omega
                · unfold ValidT at h5; omega
              · rw [gNewMid i (by omega) (by omega)] at ho'
                exact hfne (i - pre.length) o' (by omega) ho' hfo'
          · have hlast : j - pre.length = N.length - 1 := by omega
            rw [hlast] at hj
            rw [hNlast o hj] at ht
            simp at ht
            subst ht
            refine .inr ⟨hv _ hyfc.1, hin ▸ hyfc.2.1, by rw [hcold _ hyfc.1]; exact hyfc.2.2.1, ?_⟩
            rintro ⟨i, o', hi, ho', hyo'⟩
            by_cases h4 : i < pre.length
            · rw [gNewLt i h4, ← gOldLt i h4] at ho'
              exact hyfc.2.2.2 ⟨i, o', h4, ho', hyo'⟩
            · rw [gNewMid i (by omega) (by omega)] at ho'
              obtain ⟨f, hf, hflo, _⟩ := hNmid _ o' ho' (by omega)
              rw [hf] at hyo'
              simp at hyo'
              have := hyfc.1
              unfold ValidT at this
              omega
      · refine transfer (j - N.length + 1) j o (.inr ⟨by omega, by omega⟩) ?_
        rw [gOldGt _ (by omega), ← hj, gNewGt j (by omega)]
        congr 1
        omega
  · -- distinct outputs
    intro o ho
    rw [hops', List.mem_append, List.mem_append] at ho
    rcases ho with (ho | ho) | ho
    · exact hok.nodupOut o (by rw [hops]; simp [ho])
    · obtain ⟨i, hi⟩ := List.mem_iff_getElem?.1 ho
      by_cases h3 : i + 1 < N.length
      · obtain ⟨f, hf, _⟩ := hNmid i o hi h3
        rw [hf]
        by_cases hf1 : ((f : Int) != -1) = true <;> simp [List.filter, hf1]
      · have hlt := (List.getElem?_eq_some_iff.1 hi).1
        have : i = N.length - 1 := by omega
        rw [this] at hi
        rw [hNlast o hi]
        by_cases hf1 : (y != -1) = true <;> simp [List.filter, hf1]
    · exact hok.nodupOut o (by rw [hops]; simp [ho])
  · intro t ht; rw [hin] at ht; exact hv t (hok.ins t ht)
  · intro t ht; rw [hout] at ht; exact hv t (hok.outs t ht)
  · intro t ht
    rw [hout] at ht
    exact availT sg.ops.length sg'.ops.length t (.inr ⟨by omega, by omega⟩) (hok.outsAvail t ht)

end Splice

end EmuSplice
