import QModel.Eval
/-!
# Abstract evaluation: erasing the inserted operators preserves the computed values (C06)

* `InsFacts`: what `deqOnConst` says about one inserted operator, and the consequences
  (`root_ins`, `root_fix`, `orig_in_notIns`, `orig_out_notIns`);
* `Inv`: the invariant relating the reference environment and the rewritten environment;
* `step_ins`, `step_orig`: one step of the rewritten run is simulated by zero / one step of the
  reference run;
* `run_sim`: the simulation for a list of operators; `weight_only_equiv`, `weight_only_outputs`;
* the converse direction (`run_sim_conv`, `weight_only_equiv_conv`) under `insBeforeUse`.
-/
open Graph Eval Skeleton

namespace EvalProofs

/-! ## the shape facts -/

structure InsFacts (sg' : Subgraph) (o : Op) (c n : Int) : Prop where
  inp : o.inputs = [c]
  out : o.outputs = [n]
  cNotProd : ∀ p ∈ sg'.ops, c ∉ p.outputs
  cNotRead : ∀ p ∈ sg'.ops, p.orig.isSome = true → c ∉ p.inputs
  uniq : (sg'.ops.filter (fun p => p.outputs.contains n)).length = 1
  cn : c ≠ n
  c1 : c ≠ -1
  n1 : n ≠ -1

theorem mem_insOps {sg' : Subgraph} {o : Op} : o ∈ insOps sg' ↔ o ∈ sg'.ops ∧ o.orig = none := by
  simp [insOps, List.mem_filter, Option.isNone_iff_eq_none]

theorem insFacts_of {sg' : Subgraph} (hd : deqOnConst sg' = true) {o : Op} (ho : o ∈ sg'.ops)
    (hn : o.orig = none) : ∃ c n, InsFacts sg' o c n := by
  unfold deqOnConst at hd
  rw [List.all_eq_true] at hd
  have h := hd o (mem_insOps.2 ⟨ho, hn⟩)
  split at h
  · rename_i c n hi hout
    simp only [Bool.and_eq_true, List.all_eq_true, Bool.or_eq_true, Bool.not_eq_true',
      List.contains_eq_mem, decide_eq_false_iff_not, bne_iff_ne, ne_eq, beq_iff_eq] at h
    obtain ⟨⟨⟨⟨⟨h1, h2⟩, h3⟩, h4⟩, h5⟩, h6⟩ := h
    refine ⟨c, n, hi, hout, h1, ?_, ?_, h4, h5, h6⟩
    · intro p hp hs
      rcases h2 p hp with h | h
      · simp [Option.isNone_iff_eq_none] at h
        simp [h] at hs
      · exact h
    · simpa [List.contains_eq_mem] using h3
  · exact absurd h (by simp)

/-- a tensor has at most one producer when it is the result of an inserted operator -/
theorem producer_unique {sg' : Subgraph} {o : Op} {c n : Int} (hf : InsFacts sg' o c n)
    {p q : Op} (hp : p ∈ sg'.ops) (hq : q ∈ sg'.ops) (hpn : n ∈ p.outputs) (hqn : n ∈ q.outputs) :
    p = q := by
  have h := hf.uniq
  rw [List.length_eq_one_iff] at h
  obtain ⟨x, hx⟩ := h
  have hp' : p ∈ sg'.ops.filter (fun p => p.outputs.contains n) := by
    simp [List.mem_filter, hp, hpn]
  have hq' : q ∈ sg'.ops.filter (fun p => p.outputs.contains n) := by
    simp [List.mem_filter, hq, hqn]
  rw [hx] at hp' hq'
  simp at hp' hq'
  rw [hp', hq']

theorem mem_insOutputs {sg' : Subgraph} {x : Int} :
    x ∈ insOutputs sg' ↔ ∃ o ∈ sg'.ops, o.orig = none ∧ x ∈ o.outputs := by
  simp only [insOutputs, List.mem_flatMap, mem_insOps]
  constructor
  · rintro ⟨o, ⟨h1, h2⟩, h3⟩; exact ⟨o, h1, h2, h3⟩
  · rintro ⟨o, h1, h2, h3⟩; exact ⟨o, ⟨h1, h2⟩, h3⟩

theorem mem_insInputs {sg' : Subgraph} {x : Int} :
    x ∈ insInputs sg' ↔ ∃ o ∈ sg'.ops, o.orig = none ∧ x ∈ o.inputs := by
  simp only [insInputs, List.mem_flatMap, mem_insOps]
  constructor
  · rintro ⟨o, ⟨h1, h2⟩, h3⟩; exact ⟨o, h1, h2, h3⟩
  · rintro ⟨o, h1, h2, h3⟩; exact ⟨o, ⟨h1, h2⟩, h3⟩

/-- a tensor in `insOutputs` is the result `n` of an inserted operator `c ↦ n` -/
theorem insOutputs_facts {sg' : Subgraph} (hd : deqOnConst sg' = true) {x : Int}
    (hx : x ∈ insOutputs sg') : ∃ o ∈ sg'.ops, o.orig = none ∧ ∃ c, InsFacts sg' o c x := by
  obtain ⟨o, ho, hn, hxo⟩ := mem_insOutputs.1 hx
  obtain ⟨c, n, hf⟩ := insFacts_of hd ho hn
  have : x = n := by simpa [hf.out] using hxo
  subst this
  exact ⟨o, ho, hn, c, hf⟩

theorem insInputs_facts {sg' : Subgraph} (hd : deqOnConst sg' = true) {x : Int}
    (hx : x ∈ insInputs sg') : ∃ o ∈ sg'.ops, o.orig = none ∧ ∃ n, InsFacts sg' o x n := by
  obtain ⟨o, ho, hn, hxo⟩ := mem_insInputs.1 hx
  obtain ⟨c, n, hf⟩ := insFacts_of hd ho hn
  have : x = c := by simpa [hf.inp] using hxo
  subst this
  exact ⟨o, ho, hn, n, hf⟩

/-- constants read by inserted operators are never produced, hence not in `insOutputs` -/
theorem insInput_not_output {sg' : Subgraph} {o : Op} {c n : Int} (hf : InsFacts sg' o c n) :
    c ∉ insOutputs sg' := by
  intro h
  obtain ⟨p, hp, _, hc⟩ := mem_insOutputs.1 h
  exact hf.cNotProd p hp hc

theorem neg1_not_insOutputs {sg' : Subgraph} (hd : deqOnConst sg' = true) :
    (-1 : Int) ∉ insOutputs sg' := by
  intro h
  obtain ⟨o, _, _, c, hf⟩ := insOutputs_facts hd h
  exact hf.n1 rfl

/-- operands of original operators are not operands of inserted operators -/
theorem orig_in_notIns {sg' : Subgraph} (hd : deqOnConst sg' = true) {p : Op} (hp : p ∈ sg'.ops)
    (hs : p.orig.isSome = true) {x : Int} (hx : x ∈ p.inputs) : x ∉ insInputs sg' := by
  intro h
  obtain ⟨o, _, _, n, hf⟩ := insInputs_facts hd h
  exact hf.cNotRead p hp hs hx

/-- results of any operator are not operands of inserted operators -/
theorem out_notInsIn {sg' : Subgraph} (hd : deqOnConst sg' = true) {p : Op} (hp : p ∈ sg'.ops)
    {x : Int} (hx : x ∈ p.outputs) : x ∉ insInputs sg' := by
  intro h
  obtain ⟨o, _, _, n, hf⟩ := insInputs_facts hd h
  exact hf.cNotProd p hp hx

/-- results of original operators are not results of inserted operators -/
theorem orig_out_notInsOut {sg' : Subgraph} (hd : deqOnConst sg' = true) {p : Op} (hp : p ∈ sg'.ops)
    (hs : p.orig.isSome = true) {x : Int} (hx : x ∈ p.outputs) : x ∉ insOutputs sg' := by
  intro h
  obtain ⟨o, ho, hn, c, hf⟩ := insOutputs_facts hd h
  have : p = o := producer_unique hf hp ho hx (by simp [hf.out])
  subst this
  simp [hn] at hs

/-! ## what `root` computes -/

theorem insertedProducer_none {sg' : Subgraph} {x : Int} (hx : x ∉ insOutputs sg') :
    insertedProducer sg' x = none := by
  unfold insertedProducer
  rw [List.find?_eq_none]
  intro p hp hc
  simp only [Bool.and_eq_true, Option.isNone_iff_eq_none, beq_iff_eq] at hc
  exact hx (mem_insOutputs.2 ⟨p, hp, hc.1, by simp [hc.2]⟩)

theorem rootOf_fix {sg' : Subgraph} {x : Int} (hx : x ∉ insOutputs sg') (fuel : Nat) :
    rootOf sg' fuel x = x := by
  cases fuel with
  | zero => rfl
  | succ f => simp [rootOf, insertedProducer_none hx]

theorem root_fix {sg' : Subgraph} {x : Int} (hx : x ∉ insOutputs sg') : root sg' x = x :=
  rootOf_fix hx _

theorem insertedProducer_ins {sg' : Subgraph} {o : Op} {c n : Int} (ho : o ∈ sg'.ops)
    (hn : o.orig = none) (hf : InsFacts sg' o c n) : insertedProducer sg' n = some o := by
  unfold insertedProducer
  cases h : sg'.ops.find? (fun o => o.orig.isNone && o.outputs == [n]) with
  | none =>
    rw [List.find?_eq_none] at h
    have := h o ho
    simp [hn, hf.out] at this
  | some p =>
    have hp := List.mem_of_find?_eq_some h
    have hc := List.find?_some h
    simp only [Bool.and_eq_true, beq_iff_eq] at hc
    have : p = o := producer_unique hf hp ho (by simp [hc.2]) (by simp [hf.out])
    rw [this]

theorem root_ins {sg' : Subgraph} {o : Op} {c n : Int} (ho : o ∈ sg'.ops)
    (hn : o.orig = none) (hf : InsFacts sg' o c n) : root sg' n = c := by
  unfold root
  have hl : sg'.ops.length ≠ 0 := by
    intro h
    rw [List.length_eq_zero_iff] at h
    rw [h] at ho
    simp at ho
  obtain ⟨f, hf'⟩ := Nat.exists_eq_succ_of_ne_zero hl
  rw [hf']
  simp only [rootOf, insertedProducer_ins ho hn hf, hf.inp]
  exact rootOf_fix (insInput_not_output hf) f

/-! ## environments -/

theorem set_ne {V : Type} (e : Env V) {t x : Int} (v : V) (h : x ≠ t) : (e.set t v) x = e x := by
  simp [Env.set, h]

theorem set_eq {V : Type} (e : Env V) (t : Int) (v : V) : (e.set t v) t = some v := by
  simp [Env.set]

/-- `bindOuts` succeeds in related environments and preserves any relation preserved by `set` -/
theorem bindOuts_rel {V : Type} (R : Env V → Env V → Prop) :
    ∀ (outs : List Int) (vs : List V) (e e' e1 : Env V),
      (∀ x ∈ outs, ∀ v a b, R a b → R (a.set x v) (b.set x v)) →
      R e e' → bindOuts e outs vs = some e1 →
      ∃ e1', bindOuts e' outs vs = some e1' ∧ R e1 e1' := by
  intro outs
  induction outs with
  | nil =>
    intro vs e e' e1 _ hR h
    cases vs with
    | nil => simp only [bindOuts, Option.some.injEq] at h; subst h; exact ⟨e', rfl, hR⟩
    | cons v vs => simp [bindOuts] at h
  | cons o os ih =>
    intro vs e e' e1 hset hR h
    cases vs with
    | nil => simp [bindOuts] at h
    | cons v vs =>
      simp only [bindOuts] at h ⊢
      exact ih vs _ _ e1 (fun x hx => hset x (List.mem_cons_of_mem _ hx))
        (hset o (List.mem_cons_self) v e e' hR) h

/-! ## the invariant -/

structure Inv {V : Type} (S : Sem V) (sg' : Subgraph) (e e' : Env V) : Prop where
  a : ∀ t, t ∉ insInputs sg' → t ∉ insOutputs sg' → e t = e' t
  b : ∀ o ∈ sg'.ops, o.orig = none → ∀ c n, o.inputs = [c] → o.outputs = [n] →
        e c = (e' c).map (S.ins n)
  c : ∀ o ∈ sg'.ops, o.orig = none → ∀ c n, o.inputs = [c] → o.outputs = [n] →
        e' n = none ∨ e' n = e c

theorem inv_init {V : Type} {S : Sem V} {sg' : Subgraph} {e0 e0' : Env V}
    (href : RefEnv S sg' e0' e0) : Inv S sg' e0 e0' := by
  obtain ⟨h1, h2, h3⟩ := href
  refine ⟨fun t ht _ => h1 t ht, ?_, ?_⟩
  · intro o ho hn c n hi hout
    exact h2 o (mem_insOps.2 ⟨ho, hn⟩) c n hi hout
  · intro o ho hn c n hi hout
    exact Or.inl (h3 n (mem_insOutputs.2 ⟨o, ho, hn, by simp [hout]⟩))

/-- writing the same value to a tensor that no inserted operator touches, on both sides -/
theorem inv_set {V : Type} {S : Sem V} {sg' : Subgraph} {x : Int}
    (hxi : x ∉ insInputs sg') (hxo : x ∉ insOutputs sg') (v : V) (e e' : Env V)
    (h : Inv S sg' e e') : Inv S sg' (e.set x v) (e'.set x v) := by
  refine ⟨?_, ?_, ?_⟩
  · intro t hti hto
    by_cases htx : t = x
    · subst htx; rw [set_eq, set_eq]
    · rw [set_ne _ _ htx, set_ne _ _ htx]; exact h.a t hti hto
  · intro o ho hn c n hi hout
    have hc : c ≠ x := by
      intro hcx; subst hcx
      exact hxi (mem_insInputs.2 ⟨o, ho, hn, by simp [hi]⟩)
    rw [set_ne _ _ hc, set_ne _ _ hc]; exact h.b o ho hn c n hi hout
  · intro o ho hn c n hi hout
    have hc : c ≠ x := by
      intro hcx; subst hcx
      exact hxi (mem_insInputs.2 ⟨o, ho, hn, by simp [hi]⟩)
    have hn' : n ≠ x := by
      intro hnx; subst hnx
      exact hxo (mem_insOutputs.2 ⟨o, ho, hn, by simp [hout]⟩)
    rw [set_ne _ _ hc, set_ne _ _ hn']; exact h.c o ho hn c n hi hout

/-- an inserted operator's step leaves the reference environment's invariant intact -/
theorem step_ins {V : Type} {S : Sem V} {sg' : Subgraph} (hd : deqOnConst sg' = true)
    {o : Op} (ho : o ∈ sg'.ops) (hn : o.orig = none) {e e' e2' : Env V}
    (hinv : Inv S sg' e e') (hstep : stepOp S e' o = some e2') : Inv S sg' e e2' := by
  obtain ⟨c, n, hf⟩ := insFacts_of hd ho hn
  unfold stepOp at hstep
  simp only [hn, hf.inp, hf.out, Option.map_eq_some_iff] at hstep
  obtain ⟨v, hv, rfl⟩ := hstep
  have hnOut : n ∈ insOutputs sg' := mem_insOutputs.2 ⟨o, ho, hn, by simp [hf.out]⟩
  refine ⟨?_, ?_, ?_⟩
  · intro t hti hto
    have : t ≠ n := by intro h; subst h; exact hto hnOut
    rw [set_ne _ _ this]; exact hinv.a t hti hto
  · intro o2 ho2 hn2 c2 n2 hi2 hout2
    have : c2 ≠ n := by
      intro h; subst h
      exact out_notInsIn hd ho (x := c2) (by simp [hf.out])
        (mem_insInputs.2 ⟨o2, ho2, hn2, by simp [hi2]⟩)
    rw [set_ne _ _ this]; exact hinv.b o2 ho2 hn2 c2 n2 hi2 hout2
  · intro o2 ho2 hn2 c2 n2 hi2 hout2
    by_cases hnn : n2 = n
    · subst hnn
      have : o2 = o := producer_unique hf ho2 ho (by simp [hout2]) (by simp [hf.out])
      subst this
      have hcc : c2 = c := by simpa [hi2] using hf.inp
      subst hcc
      right
      rw [set_eq, hinv.b o2 ho hn c2 n2 hi2 hout2, hv]; rfl
    · rw [set_ne _ _ hnn]; exact hinv.c o2 ho2 hn2 c2 n2 hi2 hout2

/-- `root` on an operand of an original operator -/
theorem root_ne_neg1 {sg' : Subgraph} (hd : deqOnConst sg' = true) {x : Int} (hx : x ≠ -1) :
    root sg' x ≠ -1 := by
  by_cases hxo : x ∈ insOutputs sg'
  · obtain ⟨o, ho, hn, c, hf⟩ := insOutputs_facts hd hxo
    rw [root_ins ho hn hf]; exact hf.c1
  · rw [root_fix hxo]; exact hx

theorem readArgs_sim {V : Type} {S : Sem V} {sg' : Subgraph} (hd : deqOnConst sg' = true)
    {e e' : Env V} (hinv : Inv S sg' e e') :
    ∀ (xs : List Int) (args : List (Option V)), (∀ x ∈ xs, x ∉ insInputs sg') →
      readArgs e' xs = some args → readArgs e (xs.map (root sg')) = some args := by
  intro xs
  induction xs with
  | nil => intro args _ h; simpa [readArgs] using h
  | cons x xs ih =>
    intro args hxs h
    have hxs' : ∀ y ∈ xs, y ∉ insInputs sg' := fun y hy => hxs y (List.mem_cons_of_mem _ hy)
    simp only [List.map_cons]
    by_cases hx : x = -1
    · subst hx
      rw [root_fix (neg1_not_insOutputs hd)]
      simp only [readArgs, if_true, Option.map_eq_some_iff] at h ⊢
      obtain ⟨r, hr, rfl⟩ := h
      exact ⟨r, ih r hxs' hr, rfl⟩
    · have hrx := root_ne_neg1 hd hx
      simp only [readArgs, if_neg hx, if_neg hrx] at h ⊢
      cases hv : e' x with
      | none => simp [hv] at h
      | some v =>
        cases hr : readArgs e' xs with
        | none => simp [hv, hr] at h
        | some r =>
          simp only [hv, hr, Option.some.injEq] at h
          subst h
          rw [ih r hxs' hr]
          have : e (root sg' x) = some v := by
            by_cases hxo : x ∈ insOutputs sg'
            · obtain ⟨o, ho, hn, c, hf⟩ := insOutputs_facts hd hxo
              rw [root_ins ho hn hf]
              rcases hinv.c o ho hn c x hf.inp hf.out with h0 | h0
              · rw [hv] at h0; cases h0
              · rw [← h0, hv]
            · rw [root_fix hxo, hinv.a x (hxs x List.mem_cons_self) hxo, hv]
          rw [this]

theorem map_root_fix {sg' : Subgraph} :
    ∀ (xs : List Int), (∀ x ∈ xs, x ∉ insOutputs sg') → xs.map (root sg') = xs := by
  intro xs h
  conv => rhs; rw [← List.map_id xs]
  apply List.map_congr_left
  intro x hx
  simpa using root_fix (h x hx)

/-- the erased version of an operator -/
def eraseOp (sg' : Subgraph) (o : Op) : Op :=
  { o with inputs := o.inputs.map (root sg'), outputs := o.outputs.map (root sg') }

/-- an original operator's step is simulated by its erased version -/
theorem step_orig {V : Type} {S : Sem V} {sg' : Subgraph} (hd : deqOnConst sg' = true)
    {o : Op} (ho : o ∈ sg'.ops) (hs : o.orig.isSome = true) {e e' e2' : Env V}
    (hinv : Inv S sg' e e') (hstep : stepOp S e' o = some e2') :
    ∃ e2, stepOp S e (eraseOp sg' o) = some e2 ∧ Inv S sg' e2 e2' := by
  obtain ⟨tag, htag⟩ := Option.isSome_iff_exists.1 hs
  have houtfix : o.outputs.map (root sg') = o.outputs :=
    map_root_fix _ (fun x hx => orig_out_notInsOut hd ho hs hx)
  unfold stepOp at hstep ⊢
  simp only [eraseOp, htag, houtfix] at hstep ⊢
  cases hr : readArgs e' o.inputs with
  | none => simp [hr] at hstep
  | some args =>
    simp only [hr] at hstep
    rw [readArgs_sim hd hinv o.inputs args (fun x hx => orig_in_notIns hd ho hs hx) hr]
    cases hop : S.op tag args with
    | none => simp [hop] at hstep
    | some outs =>
      simp only [hop] at hstep ⊢
      obtain ⟨e2, h2, hinv2⟩ := bindOuts_rel (fun a b => Inv S sg' b a) o.outputs outs e' e e2'
        (fun x hx v a b hab =>
          inv_set (out_notInsIn hd ho hx) (orig_out_notInsOut hd ho hs hx) v b a hab)
        hinv hstep
      exact ⟨e2, h2, hinv2⟩

/-- erasing a list of operators (as in `Skeleton.eraseOps`, with `root` of the whole subgraph) -/
def eraseList (sg' : Subgraph) (ops : List Op) : List Op :=
  (ops.filter (·.orig.isSome)).map (eraseOp sg')

theorem eraseOps_eq (sg' : Subgraph) : eraseOps sg' = eraseList sg' sg'.ops := rfl

theorem run_sim {V : Type} {S : Sem V} {sg' : Subgraph} (hd : deqOnConst sg' = true) :
    ∀ (ops : List Op), (∀ o ∈ ops, o ∈ sg'.ops) → ∀ (e e' e1' : Env V), Inv S sg' e e' →
      run S ops e' = some e1' → ∃ e1, run S (eraseList sg' ops) e = some e1 ∧ Inv S sg' e1 e1' := by
  intro ops
  induction ops with
  | nil =>
    intro _ e e' e1' hinv h
    simp only [run, Option.some.injEq] at h
    subst h
    exact ⟨e, rfl, hinv⟩
  | cons o os ih =>
    intro hmem e e' e1' hinv h
    have ho : o ∈ sg'.ops := hmem o List.mem_cons_self
    have hos : ∀ p ∈ os, p ∈ sg'.ops := fun p hp => hmem p (List.mem_cons_of_mem _ hp)
    simp only [run] at h
    cases hstep : stepOp S e' o with
    | none => simp [hstep] at h
    | some e2' =>
      simp only [hstep] at h
      cases hn : o.orig with
      | none =>
        have : eraseList sg' (o :: os) = eraseList sg' os := by
          simp [eraseList, hn]
        rw [this]
        exact ih hos e e2' e1' (step_ins hd ho hn hinv hstep) h
      | some tag =>
        have hs : o.orig.isSome = true := by simp [hn]
        have : eraseList sg' (o :: os) = eraseOp sg' o :: eraseList sg' os := by
          simp [eraseList, hn]
        rw [this]
        obtain ⟨e2, h2, hinv2⟩ := step_orig hd ho hs hinv hstep
        obtain ⟨e1, h1, hinv1⟩ := ih hos e2 e2' e1' hinv2 h
        exact ⟨e1, by simp only [run, h2]; exact h1, hinv1⟩

theorem eraseOps_of_sameSkeleton {sg sg' : Subgraph} (hsk : sameSkeleton sg sg' = true) :
    eraseOps sg' = sg.ops ∧ eraseOutputs sg' = sg.outputs := by
  unfold sameSkeleton at hsk
  simp only [Bool.and_eq_true, beq_iff_eq] at hsk
  exact ⟨hsk.1.1.1.1, hsk.1.1.1.2⟩

theorem weight_only_equiv {V : Type} (S : Sem V) (sg sg' : Subgraph)
    (hsk : Skeleton.sameSkeleton sg sg' = true) (hd : deqOnConst sg' = true)
    (e0 e0' : Env V) (href : RefEnv S sg' e0' e0) (e' : Env V)
    (hrun : run S sg'.ops e0' = some e') :
    ∃ e, run S sg.ops e0 = some e ∧ AgreeOff sg' e e' := by
  rw [← (eraseOps_of_sameSkeleton hsk).1, eraseOps_eq]
  obtain ⟨e, h1, hinv⟩ := run_sim hd sg'.ops (fun _ h => h) e0 e0' e' (inv_init href) hrun
  exact ⟨e, h1, hinv.a⟩

theorem outputs_eq {sg sg' : Subgraph} (hsk : Skeleton.sameSkeleton sg sg' = true)
    (hout : sg'.outputs.all
      (fun t => !(insInputs sg').contains t && !(insOutputs sg').contains t) = true) :
    sg'.outputs = sg.outputs ∧ ∀ t ∈ sg.outputs, t ∉ insInputs sg' ∧ t ∉ insOutputs sg' := by
  have hall : ∀ t ∈ sg'.outputs, t ∉ insInputs sg' ∧ t ∉ insOutputs sg' := by
    rw [List.all_eq_true] at hout
    intro t ht
    simpa [List.contains_eq_mem] using hout t ht
  have heq : sg'.outputs = sg.outputs := by
    rw [← (eraseOps_of_sameSkeleton hsk).2]
    unfold eraseOutputs
    exact (map_root_fix _ (fun x hx => (hall x hx).2)).symm
  exact ⟨heq, fun t ht => hall t (heq ▸ ht)⟩

theorem weight_only_outputs {V : Type} (S : Sem V) (sg sg' : Subgraph)
    (hsk : Skeleton.sameSkeleton sg sg' = true) (hd : deqOnConst sg' = true)
    (hout : sg'.outputs.all
      (fun t => !(insInputs sg').contains t && !(insOutputs sg').contains t) = true)
    (e0 e0' : Env V) (href : RefEnv S sg' e0' e0) (e' : Env V)
    (hrun : run S sg'.ops e0' = some e') :
    sg'.outputs = sg.outputs ∧ ∃ e, run S sg.ops e0 = some e ∧ ∀ t ∈ sg.outputs, e t = e' t := by
  obtain ⟨heq, hall⟩ := outputs_eq hsk hout
  obtain ⟨e, h1, hag⟩ := weight_only_equiv S sg sg' hsk hd e0 e0' href e' hrun
  exact ⟨heq, e, h1, fun t ht => hag t (hall t ht).1 (hall t ht).2⟩

/-! ## the converse direction: the rewritten subgraph runs whenever the reference does -/

structure InvC {V : Type} (S : Sem V) (sg' : Subgraph) (avail : List Int) (e e' : Env V) : Prop where
  inv : Inv S sg' e e'
  d : ∀ o ∈ sg'.ops, o.orig = none → ∀ c n, o.inputs = [c] → o.outputs = [n] → n ∈ avail →
        e' n = e c
  k : ∀ c ∈ insInputs sg', e' c ≠ none

theorem invC_set {V : Type} {S : Sem V} {sg' : Subgraph} {avail : List Int} {x : Int}
    (hxi : x ∉ insInputs sg') (hxo : x ∉ insOutputs sg') (v : V) (e e' : Env V)
    (h : InvC S sg' avail e e') : InvC S sg' avail (e.set x v) (e'.set x v) := by
  refine ⟨inv_set hxi hxo v e e' h.inv, ?_, ?_⟩
  · intro o ho hn c n hi hout hav
    have hc : c ≠ x := by
      intro hcx; subst hcx
      exact hxi (mem_insInputs.2 ⟨o, ho, hn, by simp [hi]⟩)
    have hn' : n ≠ x := by
      intro hnx; subst hnx
      exact hxo (mem_insOutputs.2 ⟨o, ho, hn, by simp [hout]⟩)
    rw [set_ne _ _ hc, set_ne _ _ hn']; exact h.d o ho hn c n hi hout hav
  · intro c hc
    have : c ≠ x := by intro hcx; subst hcx; exact hxi hc
    rw [set_ne _ _ this]; exact h.k c hc

theorem step_ins_conv {V : Type} {S : Sem V} {sg' : Subgraph} (hd : deqOnConst sg' = true)
    {o : Op} (ho : o ∈ sg'.ops) (hn : o.orig = none) {avail : List Int} {e e' : Env V}
    (hinv : InvC S sg' avail e e') :
    ∃ e2', stepOp S e' o = some e2' ∧ InvC S sg' (o.outputs ++ avail) e e2' := by
  obtain ⟨c, n, hf⟩ := insFacts_of hd ho hn
  have hcIn : c ∈ insInputs sg' := mem_insInputs.2 ⟨o, ho, hn, by simp [hf.inp]⟩
  obtain ⟨v, hv⟩ := Option.ne_none_iff_exists'.1 (hinv.k c hcIn)
  have hstep : stepOp S e' o = some (e'.set n (S.ins n v)) := by
    unfold stepOp
    simp only [hn, hf.inp, hf.out, hv, Option.map_some]
  have hinv2 := step_ins hd ho hn hinv.inv hstep
  refine ⟨_, hstep, hinv2, ?_, ?_⟩
  · intro o2 ho2 hn2 c2 n2 hi2 hout2 hav
    by_cases hnn : n2 = n
    · subst hnn
      rcases hinv2.c o2 ho2 hn2 c2 n2 hi2 hout2 with h0 | h0
      · rw [set_eq] at h0; cases h0
      · exact h0
    · rw [set_ne _ _ hnn]
      refine hinv.d o2 ho2 hn2 c2 n2 hi2 hout2 ?_
      simpa [hf.out, hnn] using hav
  · intro c2 hc2
    have : c2 ≠ n := by
      intro h; subst h
      exact out_notInsIn hd ho (x := c2) (by simp [hf.out]) hc2
    rw [set_ne _ _ this]; exact hinv.k c2 hc2

theorem readArgs_conv {V : Type} {S : Sem V} {sg' : Subgraph} (hd : deqOnConst sg' = true)
    {avail : List Int} {e e' : Env V} (hinv : InvC S sg' avail e e') :
    ∀ (xs : List Int) (args : List (Option V)), (∀ x ∈ xs, x ∉ insInputs sg') →
      (∀ x ∈ xs, x ∈ insOutputs sg' → x ∈ avail) →
      readArgs e (xs.map (root sg')) = some args → readArgs e' xs = some args := by
  intro xs
  induction xs with
  | nil => intro args _ _ h; simpa [readArgs] using h
  | cons x xs ih =>
    intro args hxs hav h
    have hxs' : ∀ y ∈ xs, y ∉ insInputs sg' := fun y hy => hxs y (List.mem_cons_of_mem _ hy)
    have hav' : ∀ y ∈ xs, y ∈ insOutputs sg' → y ∈ avail :=
      fun y hy => hav y (List.mem_cons_of_mem _ hy)
    simp only [List.map_cons] at h
    by_cases hx : x = -1
    · subst hx
      rw [root_fix (neg1_not_insOutputs hd)] at h
      simp only [readArgs, if_true, Option.map_eq_some_iff] at h ⊢
      obtain ⟨r, hr, rfl⟩ := h
      exact ⟨r, ih r hxs' hav' hr, rfl⟩
    · have hrx := root_ne_neg1 hd hx
      simp only [readArgs, if_neg hx, if_neg hrx] at h ⊢
      have hval : e' x = e (root sg' x) := by
        by_cases hxo : x ∈ insOutputs sg'
        · obtain ⟨o, ho, hn, c, hf⟩ := insOutputs_facts hd hxo
          rw [root_ins ho hn hf]
          exact hinv.d o ho hn c x hf.inp hf.out (hav x List.mem_cons_self hxo)
        · rw [root_fix hxo, hinv.inv.a x (hxs x List.mem_cons_self) hxo]
      rw [hval]
      cases hv : e (root sg' x) with
      | none => simp [hv] at h
      | some v =>
        cases hr : readArgs e (xs.map (root sg')) with
        | none => simp [hv, hr] at h
        | some r =>
          simp only [hv, hr, Option.some.injEq] at h
          subst h
          rw [ih r hxs' hav' hr]

theorem step_orig_conv {V : Type} {S : Sem V} {sg' : Subgraph} (hd : deqOnConst sg' = true)
    {o : Op} (ho : o ∈ sg'.ops) (hs : o.orig.isSome = true) {avail : List Int} {e e' e2 : Env V}
    (hinv : InvC S sg' avail e e')
    (hav : ∀ x ∈ o.inputs, x ∈ insOutputs sg' → x ∈ avail)
    (hstep : stepOp S e (eraseOp sg' o) = some e2) :
    ∃ e2', stepOp S e' o = some e2' ∧ InvC S sg' avail e2 e2' := by
  obtain ⟨tag, htag⟩ := Option.isSome_iff_exists.1 hs
  have houtfix : o.outputs.map (root sg') = o.outputs :=
    map_root_fix _ (fun x hx => orig_out_notInsOut hd ho hs hx)
  unfold stepOp at hstep ⊢
  simp only [eraseOp, htag, houtfix] at hstep ⊢
  cases hr : readArgs e (o.inputs.map (root sg')) with
  | none => simp [hr] at hstep
  | some args =>
    simp only [hr] at hstep
    rw [readArgs_conv hd hinv o.inputs args (fun x hx => orig_in_notIns hd ho hs hx) hav hr]
    cases hop : S.op tag args with
    | none => simp [hop] at hstep
    | some outs =>
      simp only [hop] at hstep ⊢
      exact bindOuts_rel (fun a b => InvC S sg' avail a b) o.outputs outs e e' e2
        (fun x hx v a b hab =>
          invC_set (out_notInsIn hd ho hx) (orig_out_notInsOut hd ho hs hx) v a b hab)
        hinv hstep

theorem run_sim_conv {V : Type} {S : Sem V} {sg' : Subgraph} (hd : deqOnConst sg' = true) :
    ∀ (ops : List Op), (∀ o ∈ ops, o ∈ sg'.ops) → ∀ (avail : List Int) (e e' e1 : Env V),
      InvC S sg' avail e e' → useOK (insOutputs sg') avail ops = true →
      run S (eraseList sg' ops) e = some e1 →
      ∃ e1', run S ops e' = some e1' ∧ Inv S sg' e1 e1' := by
  intro ops
  induction ops with
  | nil =>
    intro _ avail e e' e1 hinv _ h
    simp only [eraseList, List.filter_nil, List.map_nil, run, Option.some.injEq] at h
    subst h
    exact ⟨e', rfl, hinv.inv⟩
  | cons o os ih =>
    intro hmem avail e e' e1 hinv huse h
    have ho : o ∈ sg'.ops := hmem o List.mem_cons_self
    have hos : ∀ p ∈ os, p ∈ sg'.ops := fun p hp => hmem p (List.mem_cons_of_mem _ hp)
    simp only [useOK, Bool.and_eq_true, List.all_eq_true, Bool.or_eq_true, Bool.not_eq_true',
      List.contains_eq_mem, decide_eq_false_iff_not, decide_eq_true_eq] at huse
    obtain ⟨hav, huse'⟩ := huse
    cases hn : o.orig with
    | none =>
      have : eraseList sg' (o :: os) = eraseList sg' os := by
        simp [eraseList, hn]
      rw [this] at h
      simp only [hn, Option.isNone_none, if_true] at huse'
      obtain ⟨e2', h2, hinv2⟩ := step_ins_conv hd ho hn hinv
      obtain ⟨e1', h1, hinv1⟩ := ih hos _ e e2' e1 hinv2 huse' h
      exact ⟨e1', by simp only [run, h2]; exact h1, hinv1⟩
    | some tag =>
      have hs : o.orig.isSome = true := by simp [hn]
      have : eraseList sg' (o :: os) = eraseOp sg' o :: eraseList sg' os := by
        simp [eraseList, hn]
      rw [this] at h
      simp only [hn, Option.isNone_some, Bool.false_eq_true, if_false] at huse'
      simp only [run] at h
      cases hstep : stepOp S e (eraseOp sg' o) with
      | none => simp [hstep] at h
      | some e2 =>
        simp only [hstep] at h
        obtain ⟨e2', h2, hinv2⟩ := step_orig_conv hd ho hs hinv
          (fun x hx hxo => (hav x hx).resolve_left (fun hne => hne hxo)) hstep
        obtain ⟨e1', h1, hinv1⟩ := ih hos avail e2 e2' e1 hinv2 huse' h
        exact ⟨e1', by simp only [run, h2]; exact h1, hinv1⟩

theorem weight_only_equiv_conv {V : Type} (S : Sem V) (sg sg' : Subgraph)
    (hsk : Skeleton.sameSkeleton sg sg' = true) (hd : deqOnConst sg' = true)
    (hord : insBeforeUse sg' = true)
    (e0 e0' : Env V) (href : RefEnv S sg' e0' e0)
    (hconst : ∀ c ∈ insInputs sg', e0' c ≠ none) (e : Env V)
    (hrun : run S sg.ops e0 = some e) :
    ∃ e', run S sg'.ops e0' = some e' ∧ AgreeOff sg' e e' := by
  rw [← (eraseOps_of_sameSkeleton hsk).1, eraseOps_eq] at hrun
  have hinit : InvC S sg' [] e0 e0' :=
    ⟨inv_init href, fun _ _ _ _ _ _ _ h => absurd h (by simp), hconst⟩
  obtain ⟨e', h1, hinv⟩ := run_sim_conv hd sg'.ops (fun _ h => h) [] e0 e0' e hinit hord hrun
  exact ⟨e', h1, hinv.a⟩

end EvalProofs
