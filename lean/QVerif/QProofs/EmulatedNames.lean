import QProofs.EmulatedWF
/-!
# The tensor list after `Emulated.apply`: frame and freshness of the new names

`tensors_spec`: the final tensor list is `Told ++ ext` where `Told` is the original list with the weight
tensor rewritten (type, shape, quantization record) and — under a fused RELU — the result tensor renamed to
a name that did not occur; every tensor of `ext` has a name that did not occur in the original subgraph.
The only delicate point is the `<new name>_relu_input` tensor, created AFTER the result tensor lost its
original name: its name is longer than that original name (`uniqueName_length`).
-/
open Graph Perform Emulated GraphStep EmuSpec EmuSplice EmuInv EmuWF

namespace EmuNames

/-! ## `uniqueName` only appends -/

theorem uniqueNameAux_length (names : List String) (base : String) (fuel k : Nat) :
    base.length ≤ (uniqueNameAux names base fuel k).length := by
  induction fuel generalizing k with
  | zero => simp only [uniqueNameAux, longName, String.length_append]; omega
  | succ f ih =>
    unfold uniqueNameAux
    simp only
    split
    · exact ih _
    · simp only [String.length_append]; omega

theorem uniqueName_length (names : List String) (base : String) :
    base.length ≤ (uniqueName names base).length := by
  unfold uniqueName
  split
  · exact uniqueNameAux_length _ _ _ _
  · exact Nat.le_refl _

/-! ## growing a tensor list by fresh names -/

/-- `T'` extends `T` by tensors whose names do not occur in `T` -/
def Grown (T T' : List Tensor) : Prop :=
  ∃ ext, T' = T ++ ext ∧ ∀ e ∈ ext, e.name ∉ T.map (·.name)

theorem Grown.refl (T : List Tensor) : Grown T T := ⟨[], by simp, by simp⟩

theorem Grown.snoc {T T' : List Tensor} (h : Grown T T') (e : Tensor) (he : e.name ∉ T'.map (·.name)) :
    Grown T (T' ++ [e]) := by
  obtain ⟨ext, rfl, hx⟩ := h
  refine ⟨ext ++ [e], by simp, ?_⟩
  intro x hx'
  rcases List.mem_append.1 hx' with h1 | h1
  · exact hx x h1
  · rw [List.mem_singleton] at h1
    subst h1
    intro hmem
    exact he (by rw [List.map_append, List.mem_append]; exact .inl hmem)

theorem Grown.trans {A B C : List Tensor} (h1 : Grown A B) (h2 : Grown B C) : Grown A C := by
  obtain ⟨e1, rfl, hx1⟩ := h1
  obtain ⟨e2, rfl, hx2⟩ := h2
  refine ⟨e1 ++ e2, by simp, ?_⟩
  intro x hx
  rcases List.mem_append.1 hx with h | h
  · exact hx1 x h
  · intro hmem
    exact hx2 x h (by rw [List.map_append, List.mem_append]; exact .inl hmem)

theorem addAct_grown (T : List Tensor) (sg : Subgraph) (base : String) (shape : List Int)
    (h : Grown T sg.tensors) : Grown T (addAct sg base shape).1.tensors :=
  h.snoc _ (uniqueName_fresh _ _)

theorem addConst_grown (T : List Tensor) (bufs : List BufContent) (sg : Subgraph) (base : String)
    (shape : List Int) (dtype : Nat) (content : Nat ⊕ PId)
    (h : Grown T sg.tensors) : Grown T (addConst bufs sg base shape dtype content).2.1.tensors :=
  h.snoc _ (uniqueName_fresh _ _)

theorem core_grown (env : EmuEnv) (inp : TIn) (pl : Plan) :
    Grown pl.sg.tensors (core env inp pl).1.sg.tensors := by
  simp only [core]
  exact addAct_grown _ _ _ _ (addAct_grown _ _ _ _ (addAct_grown _ _ _ _ (addAct_grown _ _ _ _
    (addConst_grown _ _ _ _ _ _ _ (addConst_grown _ _ _ _ _ _ _ (Grown.refl _))))))

theorem bias_grown (T : List Tensor) (pl : Plan) (st : St) (h : Grown T st.sg.tensors) :
    Grown T (biasStep pl st).sg.tensors := by
  unfold biasStep
  simp only
  split
  · exact addAct_grown _ _ _ _ h
  · exact h

theorem relu_tensors (pl : Plan) (st : St) :
    (pl.fused ≠ actRelu ∧ (reluStep pl st).sg.tensors = st.sg.tensors) ∨
    (pl.fused = actRelu ∧ ∃ (nn : String) (e : Tensor),
      nn = uniqueName (st.sg.tensors.map (·.name)) (pl.io.outT.name ++ "_relu") ∧
      e.name = uniqueName ((st.sg.tensors.modify pl.io.outPos (fun t => { t with name := nn })).map (·.name))
        (nn ++ "_relu_input") ∧
      (reluStep pl st).sg.tensors = st.sg.tensors.modify pl.io.outPos (fun t => { t with name := nn }) ++ [e]) := by
  unfold reluStep
  by_cases hr : (pl.fused == actRelu) = true
  · rw [if_pos hr]
    exact .inr ⟨by simpa using hr, _, _, rfl, rfl, rfl⟩
  · rw [if_neg hr]
    exact .inl ⟨by simpa using hr, rfl⟩

/-! ## the state `plan` returns -/

theorem plan_tensors (pt : PTable) (env : EmuEnv) (m : Model) (sg : Subgraph) (inp : TIn) (pl : Plan)
    (hinp : EmuOK m sg inp) (h : plan pt env m sg inp = .ok pl) (hy0 : 0 ≤ pl.io.outId) :
    ∃ (wT : Tensor) (ty : Nat), sg.tensors[inp.tensor.toNat]? = some wT ∧
      Grown (sg.tensors.set inp.tensor.toNat { wT with dtype := ty, shape := env.qshape, quant := some env.unitQ })
        pl.sg.tensors ∧
      pl.io.outPos = pl.io.outId.toNat ∧ pl.sg.tensors[pl.io.outId.toNat]? = some pl.io.outT := by
  obtain ⟨hd, wr, hhd, hwr, hio, _, _, hsg2, _⟩ := plan_spec pt env m sg inp pl h
  have hv := (validT_iff _ _).1 hinp.tvalid
  obtain ⟨pi, ty, _, hw, _, _, hwsg⟩ := weight_spec env m sg inp hd.par wr hv.1 hwr
  obtain ⟨_, _, _, houtT, hpos⟩ := io_spec env hd.fc (sg2 env wr) pl.io hio
  refine ⟨wr.w, ty, hw, ?_, ?_, ?_⟩
  · rw [hsg2]
    simp only [sg2]
    have h0 : Grown (sg.tensors.set inp.tensor.toNat
        { wr.w with dtype := ty, shape := env.qshape, quant := some env.unitQ }) wr.sg.tensors := by
      rw [hwsg]; exact Grown.refl _
    exact addConst_grown _ _ _ _ _ _ _ (addConst_grown _ _ _ _ _ _ _ h0)
  · rw [hpos]
    simp [pos, show ¬ pl.io.outId < 0 by omega]
  · rw [hsg2]
    exact index_ok _ _ _ hy0 houtT

/-! ## the final tensor list -/

theorem tensors_spec (pt : PTable) (env : EmuEnv) (m : Model) (sg : Subgraph) (inp : TIn) (pl : Plan)
    (hinp : EmuOK m sg inp) (h : plan pt env m sg inp = .ok pl)
    (hy0 : 0 ≤ pl.io.outId) (hyn : pl.io.outId < sg.tensors.length) :
    ∃ (wT : Tensor) (ty : Nat) (Told ext : List Tensor),
      sg.tensors[inp.tensor.toNat]? = some wT ∧
      (reluStep pl (biasStep pl (core env inp pl).1)).sg.tensors = Told ++ ext ∧
      Told.length = sg.tensors.length ∧
      (∀ e ∈ ext, e.name ∉ sg.tensors.map (·.name)) ∧
      (Told = sg.tensors.set inp.tensor.toNat { wT with dtype := ty, shape := env.qshape, quant := some env.unitQ } ∨
       ∃ nn, nn ∉ sg.tensors.map (·.name) ∧
         Told = (sg.tensors.set inp.tensor.toNat
            { wT with dtype := ty, shape := env.qshape, quant := some env.unitQ }).modify pl.io.outId.toNat
              (fun t => { t with name := nn })) := by
  obtain ⟨wT, ty, hw, hg2, hpos, houtT⟩ := plan_tensors pt env m sg inp pl hinp h hy0
  refine ⟨wT, ty, ?_⟩
  generalize hT1 : sg.tensors.set inp.tensor.toNat
    { wT with dtype := ty, shape := env.qshape, quant := some env.unitQ } = T1 at hg2 ⊢
  have hT1len : T1.length = sg.tensors.length := by rw [← hT1]; simp
  have hT1names : T1.map (·.name) = sg.tensors.map (·.name) := by
    rw [← hT1]; exact map_set_same _ _ _ _ _ hw rfl
  have hgb : Grown T1 (biasStep pl (core env inp pl).1).sg.tensors :=
    bias_grown _ _ _ (hg2.trans (core_grown env inp pl))
  obtain ⟨ext, hTb, hext⟩ := hgb
  rw [hT1names] at hext
  have hypos : pl.io.outId.toNat < T1.length := by omega
  rcases relu_tensors pl (biasStep pl (core env inp pl).1) with ⟨_, hr⟩ | ⟨_, nn, e, hnn, he, hr⟩
  · exact ⟨T1, ext, hw, by rw [hr, hTb], hT1len, hext, .inl rfl⟩
  · -- fused RELU: the result tensor is renamed, one more tensor is appended
    rw [hTb] at hr hnn he
    rw [hpos] at hr he
    rw [modify_append_left _ _ _ _ hypos] at hr he
    have hnn_fresh : nn ∉ (T1 ++ ext).map (·.name) := by rw [hnn]; exact uniqueName_fresh _ _
    have hnn0 : nn ∉ sg.tensors.map (·.name) := by
      intro hmem
      apply hnn_fresh
      rw [List.map_append, List.mem_append, hT1names]
      exact .inl hmem
    refine ⟨T1.modify pl.io.outId.toNat (fun t => { t with name := nn }), ext ++ [e], hw,
      by rw [hr, List.append_assoc], by simp [hT1len], ?_, .inr ⟨nn, hnn0, rfl⟩⟩
    intro x hx
    rcases List.mem_append.1 hx with hx | hx
    · exact hext x hx
    · rw [List.mem_singleton] at hx
      subst hx
      -- the name of the `_relu_input` tensor
      intro hmem
      rw [← hT1names] at hmem
      obtain ⟨t0, ht0, hname⟩ := List.mem_map.1 hmem
      obtain ⟨i, hi⟩ := List.mem_iff_getElem?.1 ht0
      have hfresh := uniqueName_fresh
        ((T1.modify pl.io.outId.toNat (fun t => { t with name := nn }) ++ ext).map (·.name)) (nn ++ "_relu_input")
      rw [← he] at hfresh
      by_cases hiy : i = pl.io.outId.toNat
      · -- the original name of the result tensor: too short
        subst hiy
        have hout : pl.io.outT = t0 := by
          obtain ⟨e1, hpl, _⟩ := hg2
          rw [hpl, List.getElem?_append_left hypos, hi] at houtT
          cases houtT
          rfl
        have h1 := uniqueName_length
          ((T1.modify pl.io.outId.toNat (fun t => { t with name := nn }) ++ ext).map (·.name)) (nn ++ "_relu_input")
        have h2 := uniqueName_length ((T1 ++ ext).map (·.name)) (pl.io.outT.name ++ "_relu")
        rw [← he] at h1
        rw [← hnn] at h2
        rw [String.length_append] at h1 h2
        rw [hout] at h2
        have hlen := congrArg String.length hname
        have h3 : ("_relu_input" : String).length = 11 := by decide
        have h4 : ("_relu" : String).length = 5 := by decide
        omega
      · -- another original tensor: still in the list when the name was chosen
        apply hfresh
        rw [List.map_append, List.mem_append]
        left
        refine List.mem_map.2 ⟨t0, ?_, hname⟩
        apply List.mem_of_getElem? (i := i)
        rw [List.getElem?_modify]
        have : ¬ pl.io.outId.toNat = i := fun h => hiy h.symm
        simp [this, hi]

end EmuNames
