import QProofs.GraphInv
/-!
# C19 — the performer treats every subgraph as if it stood alone (whole run)

`transformGraph` on a multi-subgraph model is compared with `transformGraph` on the single-subgraph
model extracted from it.  The two runs are linked by a simulation relation `Sim`:

* the tensors / inputs / outputs of subgraph `j` (big run) and subgraph `0` (small run) are equal,
* the operators are equal *up to the position of their opcode in the opcode table* (`ORel`): both
  codes resolve, and to the same builtin code.  This relation is stable when either table grows by
  appending, which is all `addOpCode` ever does,
* the per-subgraph op-id maps are equal, the buffer tables have the same length (`quantizeTensor`
  only consults the length), and the signatures of subgraph `j` re-indexed to `0` are the signatures
  of the small model.

A transformation on subgraph `j` is simulated by the same transformation on subgraph `0`
(`runXf_sim`, `applySingle_same`); a transformation on another subgraph preserves the relation with
no step of the small run (`applySingle_other`).
-/
open Graph Perform GraphInv

namespace Locality

/-! ## the statement's vocabulary -/

/-- what an observer sees of subgraph `j`: tensors, operators with their opcode RESOLVED through the
    opcode table (so that the position of an opcode in the shared table does not matter), inputs and
    outputs -/
def view (m : Model) (j : Nat) :
    Option (List Tensor × List (Option Nat × List Int × List Int × Option Nat) × List Int × List Int) :=
  (m.subgraphs[j]?).map fun sg =>
    (sg.tensors, sg.ops.map (fun o => (m.opcodes[o.code]?, o.inputs, o.outputs, o.orig)), sg.inputs, sg.outputs)

/-- the signatures of subgraph `j`, re-indexed to subgraph 0 -/
def sigsOf (m : Model) (j : Nat) : List Sig := (m.sigs.filter (·.sg == j)).map fun s => { s with sg := 0 }

/-- the single-subgraph model extracted from `m` (all buffers and opcodes are kept, as the extraction
    in the check does) -/
def extract (m : Model) (j : Nat) (sg : Subgraph) : Model :=
  { subgraphs := [sg], buffers := m.buffers, opcodes := m.opcodes, sigs := sigsOf m j }

/-- the instructions that act on subgraph `j`, re-indexed to subgraph 0 -/
def restrict (tis : List TInsts) (j : Nat) : List TInsts :=
  (tis.filter (·.sg == j)).map fun t => { t with sg := 0 }

/-! ## operators up to the position of their opcode -/

/-- same operands, same origin, and both codes resolve to the same builtin code -/
def ORel (cb cs : List Nat) (o o1 : Op) : Prop :=
  o.inputs = o1.inputs ∧ o.outputs = o1.outputs ∧ o.orig = o1.orig ∧
    ∃ c, cb[o.code]? = some c ∧ cs[o1.code]? = some c

def OpsRel (cb cs : List Nat) (l l1 : List Op) : Prop :=
  l.length = l1.length ∧ ∀ (i : Nat) (o o1 : Op), l[i]? = some o → l1[i]? = some o1 → ORel cb cs o o1

structure SgRel (cb cs : List Nat) (sg sg1 : Subgraph) : Prop where
  tensors : sg.tensors = sg1.tensors
  inputs : sg.inputs = sg1.inputs
  outputs : sg.outputs = sg1.outputs
  ops : OpsRel cb cs sg.ops sg1.ops

theorem ORel.mono {cb cs : List Nat} {o o1 : Op} (e e1 : List Nat) (h : ORel cb cs o o1) :
    ORel (cb ++ e) (cs ++ e1) o o1 := by
  obtain ⟨h1, h2, h3, c, hc, hc1⟩ := h
  refine ⟨h1, h2, h3, c, ?_, ?_⟩
  · rw [List.getElem?_append_left (List.getElem?_eq_some_iff.1 hc).1]; exact hc
  · rw [List.getElem?_append_left (List.getElem?_eq_some_iff.1 hc1).1]; exact hc1

theorem ORel.rew {cb cs : List Nat} {o o1 : Op} (f : Int → Int) (h : ORel cb cs o o1) :
    ORel cb cs { o with inputs := o.inputs.map f } { o1 with inputs := o1.inputs.map f } := by
  obtain ⟨h1, h2, h3, h4⟩ := h
  exact ⟨by simp only [h1], h2, h3, h4⟩

theorem OpsRel.mono {cb cs : List Nat} {l l1 : List Op} (e e1 : List Nat) (h : OpsRel cb cs l l1) :
    OpsRel (cb ++ e) (cs ++ e1) l l1 :=
  ⟨h.1, fun i o o1 ho ho1 => (h.2 i o o1 ho ho1).mono e e1⟩

theorem SgRel.mono {cb cs : List Nat} {sg sg1 : Subgraph} (e e1 : List Nat) (h : SgRel cb cs sg sg1) :
    SgRel (cb ++ e) (cs ++ e1) sg sg1 :=
  ⟨h.tensors, h.inputs, h.outputs, h.ops.mono e e1⟩

theorem OpsRel.modify {cb cs : List Nat} {l l1 : List Op} (h : OpsRel cb cs l l1) (k : Nat) (f : Op → Op)
    (hf : ∀ o o1, ORel cb cs o o1 → ORel cb cs (f o) (f o1)) :
    OpsRel cb cs (l.modify k f) (l1.modify k f) := by
  refine ⟨by simp only [List.length_modify]; exact h.1, ?_⟩
  intro i o o1 ho ho1
  by_cases hki : k = i
  · subst hki
    rw [List.getElem?_modify_eq] at ho ho1
    obtain ⟨a, ha, rfl⟩ := Option.map_eq_some_iff.1 ho
    obtain ⟨a1, ha1, rfl⟩ := Option.map_eq_some_iff.1 ho1
    exact hf _ _ (h.2 k a a1 ha ha1)
  · rw [List.getElem?_modify_ne _ _ hki] at ho ho1
    exact h.2 i o o1 ho ho1

theorem OpsRel.insertIdx {cb cs : List Nat} {l l1 : List Op} (h : OpsRel cb cs l l1) (k : Nat) (x x1 : Op)
    (hk : k ≤ l.length) (hx : ORel cb cs x x1) :
    OpsRel cb cs (l.insertIdx k x) (l1.insertIdx k x1) := by
  have hk1 : k ≤ l1.length := h.1 ▸ hk
  refine ⟨by rw [List.length_insertIdx_of_le_length hk, List.length_insertIdx_of_le_length hk1, h.1], ?_⟩
  intro i o o1 ho ho1
  rcases Nat.lt_trichotomy i k with hlt | heq | hgt
  · rw [List.getElem?_insertIdx_of_lt hlt] at ho ho1
    exact h.2 i o o1 ho ho1
  · subst heq
    rw [List.getElem?_insertIdx_self, if_pos hk] at ho
    rw [List.getElem?_insertIdx_self, if_pos hk1] at ho1
    cases ho; cases ho1; exact hx
  · rw [List.getElem?_insertIdx_of_gt hgt] at ho ho1
    exact h.2 _ o o1 ho ho1

/-- related operator lists look the same once the codes are resolved -/
theorem OpsRel.map_eq {cb cs : List Nat} {l l1 : List Op} (h : OpsRel cb cs l l1) :
    l.map (fun o => (cb[o.code]?, o.inputs, o.outputs, o.orig)) =
      l1.map (fun o => (cs[o.code]?, o.inputs, o.outputs, o.orig)) := by
  apply List.ext_getElem?
  intro i
  rw [List.getElem?_map, List.getElem?_map]
  by_cases hi : i < l.length
  · have hi1 : i < l1.length := h.1 ▸ hi
    obtain ⟨h1, h2, h3, c, hc, hc1⟩ := h.2 i l[i] l1[i] (List.getElem?_eq_getElem hi) (List.getElem?_eq_getElem hi1)
    rw [List.getElem?_eq_getElem hi, List.getElem?_eq_getElem hi1]
    simp only [Option.map_some, hc, hc1, h1, h2, h3]
  · have hi1 : ¬ i < l1.length := h.1 ▸ hi
    rw [List.getElem?_eq_none (by omega), List.getElem?_eq_none (by omega)]
    rfl

theorem OpsRel.refl_of {c : List Nat} {l : List Op} (h : ∀ o ∈ l, o.code < c.length) : OpsRel c c l l := by
  refine ⟨rfl, ?_⟩
  intro i o o1 ho ho1
  rw [ho] at ho1; cases ho1
  have := h o (List.mem_of_getElem? ho)
  exact ⟨rfl, rfl, rfl, c[o.code], List.getElem?_eq_getElem this, List.getElem?_eq_getElem this⟩

/-! ## `rewire`, `wireNewOp` -/

theorem rewire_sim (cb cs : List Nat) (cons : List Int) (t n : Int) :
    ∀ (ops ops1 ops' : List Op), OpsRel cb cs ops ops1 → rewire ops cons t n = .ok ops' →
      ∃ ops1', rewire ops1 cons t n = .ok ops1' ∧ OpsRel cb cs ops' ops1' := by
  induction cons with
  | nil =>
    intro ops ops1 ops' hr h
    simp only [rewire, List.foldlM_nil, pure, Except.pure, Except.ok.injEq] at h
    subst h
    exact ⟨ops1, rfl, hr⟩
  | cons c cs' ih =>
    intro ops ops1 ops' hr h
    unfold rewire at h ⊢
    simp only [List.foldlM_cons] at h ⊢
    by_cases hc : c < 0
    · simp only [hc, if_true] at h ⊢
      exact ih ops ops1 ops' hr h
    · simp only [hc, if_false] at h ⊢
      by_cases hl : c.toNat < ops.length
      · have hl1 : c.toNat < ops1.length := hr.1 ▸ hl
        simp only [hl, hl1, if_true] at h ⊢
        exact ih _ _ ops' (hr.modify c.toNat _ (fun o o1 h => h.rew _)) h
      · simp only [hl, if_false] at h
        cases h

theorem wireNewOp_sim (cb cs : List Nat) (sg sg1 sg3 : Subgraph) (inp : TIn) (newT : Int) (op op1 : Op)
    (info : TInfoOut) (hr : SgRel cb cs sg sg1) (hop : ORel cb cs op op1)
    (h : wireNewOp sg inp newT op = .ok (sg3, info)) :
    ∃ sg3', wireNewOp sg1 inp newT op1 = .ok (sg3', info) ∧ SgRel cb cs sg3 sg3' := by
  unfold wireNewOp at h ⊢
  obtain ⟨first, hfirst, h⟩ := bind_ok _ _ _ h
  obtain ⟨ops, hops, h⟩ := bind_ok _ _ _ h
  obtain ⟨ops1, hops1, hrel⟩ := rewire_sim cb cs _ _ _ _ _ _ hr.ops hops
  simp only [pure, Except.pure, Except.ok.injEq, Prod.mk.injEq] at h
  obtain ⟨rfl, rfl⟩ := h
  simp only [hfirst, hops1, bind, Except.bind, pure, Except.pure, Except.ok.injEq, Prod.mk.injEq,
    exists_eq_left', and_true]
  refine ⟨hr.tensors, hr.inputs, ?_, ?_⟩
  · simp only [hr.outputs]
  · unfold pyInsert
    simp only [hrel.1]
    exact hrel.insertIdx _ _ _ (by rw [hrel.1]; exact Nat.min_le_right _ _) hop

/-! ## `quantizeTensor` only consults the tensor list and the LENGTH of the buffer table -/

theorem quantizeTensor_shape (pt : PTable) (bufs bufs' : List BufContent) (sg sg' : Subgraph) (t : Int)
    (param : Option PId) (h : quantizeTensor pt bufs sg t param = .ok (bufs', sg')) :
    ∃ T, sg' = { sg with tensors := T } ∧ bufs'.length = bufs.length ∧
      ∀ (sg1 : Subgraph) (bufs1 : List BufContent), sg1.tensors = sg.tensors → bufs1.length = bufs.length →
        ∃ bufs1', quantizeTensor pt bufs1 sg1 t param = .ok (bufs1', { sg1 with tensors := T }) ∧
          bufs1'.length = bufs1.length := by
  unfold quantizeTensor at h
  simp only [bind, Except.bind] at h
  cases hg : getTensor sg t with
  | error e => simp [hg] at h
  | ok tn =>
    simp only [hg] at h
    cases param with
    | none => simp [throw, throwThe, MonadExceptOf.throw] at h
    | some p =>
      simp only at h
      cases hp : pinfo pt p with
      | none => simp [hp, throw, throwThe, MonadExceptOf.throw] at h
      | some pi =>
        simp only [hp] at h
        have hthrow : (throw PyErr.indexError : PyM (List BufContent)) = Except.error PyErr.indexError := rfl
        have hg1 : ∀ sg1 : Subgraph, sg1.tensors = sg.tensors → getTensor sg1 t = .ok tn := by
          intro sg1 e; unfold getTensor at hg ⊢; rw [e]; exact hg
        have hset1 : ∀ (sg1 : Subgraph) (tn' : Tensor), sg1.tensors = sg.tensors →
            setTensor sg1 t tn' = { sg1 with tensors := (setTensor sg t tn').tensors } := by
          intro sg1 tn' e; unfold setTensor; simp only [e]
        cases hd : dtypeOf pi with
        | error e =>
          simp only [hd, pure, Except.pure, hthrow] at h
          by_cases hc : (decide (tn.buffer ≠ 0) && pi.hasData) = true
          · by_cases hlt : tn.buffer < bufs.length <;> simp only [hc, hlt, if_true, if_false] at h <;> cases h
          · simp only [hc] at h; cases h
        | ok ty =>
          simp only [hd, pure, Except.pure, hthrow] at h
          by_cases hc : (decide (tn.buffer ≠ 0) && pi.hasData) = true
          · by_cases hlt : tn.buffer < bufs.length
            · simp only [hc, hlt, if_true, Except.ok.injEq, Prod.mk.injEq] at h
              obtain ⟨rfl, rfl⟩ := h
              refine ⟨_, hset1 sg _ rfl, by simp only [List.length_set], ?_⟩
              intro sg1 bufs1 e el
              refine ⟨bufs1.set tn.buffer (some (.inr p)), ?_, by simp only [List.length_set]⟩
              unfold quantizeTensor
              have hlt1 : tn.buffer < bufs1.length := el ▸ hlt
              simp only [bind, Except.bind, hg1 sg1 e, hp, hd, pure, Except.pure, hc, hlt1, if_true,
                hset1 sg1 _ e]
            · simp only [hc, hlt, if_true, if_false] at h; cases h
          · simp only [hc, Bool.false_eq_true, if_false, Except.ok.injEq, Prod.mk.injEq] at h
            obtain ⟨rfl, rfl⟩ := h
            refine ⟨_, hset1 sg _ rfl, rfl, ?_⟩
            intro sg1 bufs1 e el
            refine ⟨bufs1, ?_, rfl⟩
            unfold quantizeTensor
            simp only [bind, Except.bind, hg1 sg1 e, hp, hd, pure, Except.pure, hc, Bool.false_eq_true,
              if_false, hset1 sg1 _ e]

/-! ## the three transformations in a common shape -/

/-- `add_op_code` returns an index of the requested builtin code and only appends -/
theorem addOpCode_get (codes : List Nat) (code : Nat) :
    (addOpCode codes code).1[(addOpCode codes code).2]? = some code ∧
    ∃ ext, (addOpCode codes code).1 = codes ++ ext := by
  unfold addOpCode
  cases h : codes.findIdx? (· == code) with
  | some i =>
    simp only []
    refine ⟨?_, [], by simp⟩
    obtain ⟨hi, hp, _⟩ := List.findIdx?_eq_some_iff_getElem.mp h
    simp at hp
    rw [List.getElem?_eq_getElem hi, hp]
  | none =>
    simp only []
    exact ⟨by simp, [code], rfl⟩

def optGet {α} (o : Option α) : PyM α := match o with | some a => pure a | none => throw .indexError

theorem optGet_ok {α} (o : Option α) (a : α) (h : optGet o = .ok a) : o = some a := by
  cases o with
  | none => cases h
  | some b => cases h; rfl

def newTensor (sg : Subgraph) (tn : Tensor) (suffix : String) : Tensor :=
  { name := uniqueName (sg.tensors.map (·.name)) (tn.name ++ suffix), dtype := Tables.ttFloat32,
    shape := tn.shape, buffer := 0 }

/-- `insertQuant` (`onNew = true`) and `insertDequant` (`onNew = false`) -/
def insertGen (pt : PTable) (m : Model) (sgi : Nat) (inp : TIn) (code : Nat) (suffix : String) (onNew : Bool) :
    PyM (Model × TInfoOut) := do
  let sg ← optGet m.subgraphs[sgi]?
  let tn ← getTensor sg inp.tensor
  let r ← quantizeTensor pt m.buffers { sg with tensors := sg.tensors ++ [newTensor sg tn suffix] }
    (if onNew then (sg.tensors.length : Int) else inp.tensor) inp.param
  let w ← wireNewOp r.2 inp (sg.tensors.length : Int)
    { code := (addOpCode m.opcodes code).2, inputs := [inp.tensor], outputs := [(sg.tensors.length : Int)] }
  pure ({ m with subgraphs := m.subgraphs.set sgi w.1, buffers := r.1, opcodes := (addOpCode m.opcodes code).1 }, w.2)

theorem insertQuant_eq (pt : PTable) (m : Model) (sgi : Nat) (inp : TIn) :
    insertQuant pt m sgi inp = insertGen pt m sgi inp Tables.opQuantize "_quantized" true := by
  unfold insertQuant insertGen optGet newTensor
  cases m.subgraphs[sgi]? with
  | none => rfl
  | some sg => rfl

theorem insertDequant_eq (pt : PTable) (m : Model) (sgi : Nat) (inp : TIn) :
    insertDequant pt m sgi inp = insertGen pt m sgi inp Tables.opDequantize "_dequant" false := by
  unfold insertDequant insertGen optGet newTensor
  cases m.subgraphs[sgi]? with
  | none => rfl
  | some sg => rfl

def quantizeOnly2 (pt : PTable) (m : Model) (sgi : Nat) (inp : TIn) : PyM (Model × TInfoOut) := do
  let sg ← optGet m.subgraphs[sgi]?
  let r ← quantizeTensor pt m.buffers sg inp.tensor inp.param
  pure ({ m with subgraphs := m.subgraphs.set sgi r.2, buffers := r.1 }, ⟨0, 0, inp.tensor⟩)

theorem quantizeOnly_eq (pt : PTable) (m : Model) (sgi : Nat) (inp : TIn) :
    quantizeOnly pt m sgi inp = quantizeOnly2 pt m sgi inp := by
  unfold quantizeOnly quantizeOnly2 optGet
  cases m.subgraphs[sgi]? with
  | none => rfl
  | some sg => rfl

/-- what one transformation on subgraph `k` does to the model around that subgraph -/
structure StepOut (m m' : Model) (k : Nat) (sg' : Subgraph) : Prop where
  lt : k < m.subgraphs.length
  subs : m'.subgraphs = m.subgraphs.set k sg'
  sigs : m'.sigs = m.sigs
  bufs : m'.buffers.length = m.buffers.length
  codes : ∃ e, m'.opcodes = m.opcodes ++ e

theorem lt_of_get {α} {l : List α} {k : Nat} {a : α} (h : l[k]? = some a) : k < l.length :=
  (List.getElem?_eq_some_iff.1 h).1

theorem insertGen_frame (pt : PTable) (m m' : Model) (k : Nat) (inp : TIn) (code : Nat) (suffix : String)
    (onNew : Bool) (info : TInfoOut) (h : insertGen pt m k inp code suffix onNew = .ok (m', info)) :
    ∃ sg', StepOut m m' k sg' := by
  unfold insertGen at h
  obtain ⟨sg, hsg, h⟩ := bind_ok _ _ _ h
  obtain ⟨tn, htn, h⟩ := bind_ok _ _ _ h
  obtain ⟨⟨bufs', sg2⟩, hq, h⟩ := bind_ok _ _ _ h
  obtain ⟨w, hw, h⟩ := bind_ok _ _ _ h
  simp only [pure, Except.pure, Except.ok.injEq, Prod.mk.injEq] at h
  obtain ⟨rfl, rfl⟩ := h
  obtain ⟨T, -, hlen, -⟩ := quantizeTensor_shape _ _ _ _ _ _ _ hq
  exact ⟨w.1, lt_of_get (optGet_ok _ _ hsg), rfl, rfl, hlen, (addOpCode_get m.opcodes code).2⟩

theorem quantizeOnly2_frame (pt : PTable) (m m' : Model) (k : Nat) (inp : TIn) (info : TInfoOut)
    (h : quantizeOnly2 pt m k inp = .ok (m', info)) : ∃ sg', StepOut m m' k sg' := by
  unfold quantizeOnly2 at h
  obtain ⟨sg, hsg, h⟩ := bind_ok _ _ _ h
  obtain ⟨⟨bufs', sg2⟩, hq, h⟩ := bind_ok _ _ _ h
  simp only [pure, Except.pure, Except.ok.injEq, Prod.mk.injEq] at h
  obtain ⟨rfl, rfl⟩ := h
  obtain ⟨T, -, hlen, -⟩ := quantizeTensor_shape _ _ _ _ _ _ _ hq
  exact ⟨sg2, lt_of_get (optGet_ok _ _ hsg), rfl, rfl, hlen, [], by simp⟩

theorem runXf_frame (pt : PTable) (m m' : Model) (k : Nat) (x : Xf) (inp : TIn) (info : TInfoOut)
    (h : runXf pt m k x inp = .ok (m', info)) : ∃ sg', StepOut m m' k sg' := by
  unfold runXf at h
  cases x <;> simp only at h
  · cases h
  · rw [insertQuant_eq] at h; exact insertGen_frame _ _ _ _ _ _ _ _ _ h
  · rw [insertDequant_eq] at h; exact insertGen_frame _ _ _ _ _ _ _ _ _ h
  · rw [quantizeOnly_eq] at h; exact quantizeOnly2_frame _ _ _ _ _ _ h
  · cases h

/-! ## a transformation on related subgraphs gives related subgraphs -/

theorem insertGen_sim (pt : PTable) (m m1 m' : Model) (j j1 : Nat) (sg sg1 : Subgraph) (inp : TIn)
    (code : Nat) (suffix : String) (onNew : Bool) (info : TInfoOut)
    (hsg : m.subgraphs[j]? = some sg) (hsg1 : m1.subgraphs[j1]? = some sg1)
    (hr : SgRel m.opcodes m1.opcodes sg sg1) (hb : m.buffers.length = m1.buffers.length)
    (h : insertGen pt m j inp code suffix onNew = .ok (m', info)) :
    ∃ m1' sg' sg1', insertGen pt m1 j1 inp code suffix onNew = .ok (m1', info) ∧
      StepOut m m' j sg' ∧ StepOut m1 m1' j1 sg1' ∧ SgRel m'.opcodes m1'.opcodes sg' sg1' := by
  unfold insertGen at h ⊢
  simp only [hsg, hsg1, optGet] at h ⊢
  replace h := pure_bind_ok _ _ _ h
  obtain ⟨tn, htn, h⟩ := bind_ok _ _ _ h
  obtain ⟨⟨bufs', sg2⟩, hq, h⟩ := bind_ok _ _ _ h
  obtain ⟨⟨sg3, info'⟩, hw, h⟩ := bind_ok _ _ _ h
  simp only [pure, Except.pure, Except.ok.injEq, Prod.mk.injEq] at h
  obtain ⟨rfl, rfl⟩ := h
  obtain ⟨T, hT, hlen, hsim⟩ := quantizeTensor_shape _ _ _ _ _ _ _ hq
  have htn1 : getTensor sg1 inp.tensor = .ok tn := by
    unfold getTensor at htn ⊢; rw [← hr.tensors]; exact htn
  obtain ⟨bufs1', hq1, hlen1⟩ := hsim { sg1 with tensors := sg.tensors ++ [newTensor sg tn suffix] }
    m1.buffers rfl hb.symm
  obtain ⟨hc, e, he⟩ := addOpCode_get m.opcodes code
  obtain ⟨hc1, e1, he1⟩ := addOpCode_get m1.opcodes code
  have hr2 : SgRel (addOpCode m.opcodes code).1 (addOpCode m1.opcodes code).1 sg2
      { sg1 with tensors := T } := by
    rw [he, he1, hT]
    exact ⟨rfl, hr.inputs, hr.outputs, hr.ops.mono e e1⟩
  obtain ⟨sg3', hw1, hr3⟩ := wireNewOp_sim _ _ _ _ _ inp (sg.tensors.length : Int)
    { code := (addOpCode m.opcodes code).2, inputs := [inp.tensor], outputs := [(sg.tensors.length : Int)] }
    { code := (addOpCode m1.opcodes code).2, inputs := [inp.tensor], outputs := [(sg.tensors.length : Int)] }
    _ hr2 ⟨rfl, rfl, rfl, code, hc, hc1⟩ hw
  have e0 : newTensor sg1 tn suffix = newTensor sg tn suffix := by unfold newTensor; rw [hr.tensors]
  refine ⟨{ m1 with subgraphs := m1.subgraphs.set j1 sg3', buffers := bufs1',
                    opcodes := (addOpCode m1.opcodes code).1 }, sg3, sg3', ?_,
    ⟨lt_of_get hsg, rfl, rfl, hlen, e, he⟩,
    ⟨lt_of_get hsg1, rfl, rfl, hlen1, e1, he1⟩, hr3⟩
  simp only [← hr.tensors, e0, htn1, hq1, hw1, bind, Except.bind, pure, Except.pure]

theorem quantizeOnly2_sim (pt : PTable) (m m1 m' : Model) (j j1 : Nat) (sg sg1 : Subgraph) (inp : TIn)
    (info : TInfoOut)
    (hsg : m.subgraphs[j]? = some sg) (hsg1 : m1.subgraphs[j1]? = some sg1)
    (hr : SgRel m.opcodes m1.opcodes sg sg1) (hb : m.buffers.length = m1.buffers.length)
    (h : quantizeOnly2 pt m j inp = .ok (m', info)) :
    ∃ m1' sg' sg1', quantizeOnly2 pt m1 j1 inp = .ok (m1', info) ∧
      StepOut m m' j sg' ∧ StepOut m1 m1' j1 sg1' ∧ SgRel m'.opcodes m1'.opcodes sg' sg1' := by
  unfold quantizeOnly2 at h ⊢
  simp only [hsg, hsg1, optGet] at h ⊢
  replace h := pure_bind_ok _ _ _ h
  obtain ⟨⟨bufs', sg2⟩, hq, h⟩ := bind_ok _ _ _ h
  simp only [pure, Except.pure, Except.ok.injEq, Prod.mk.injEq] at h
  obtain ⟨rfl, rfl⟩ := h
  obtain ⟨T, hT, hlen, hsim⟩ := quantizeTensor_shape _ _ _ _ _ _ _ hq
  obtain ⟨bufs1', hq1, hlen1⟩ := hsim sg1 m1.buffers hr.tensors.symm hb.symm
  refine ⟨{ m1 with subgraphs := m1.subgraphs.set j1 { sg1 with tensors := T }, buffers := bufs1' },
    sg2, { sg1 with tensors := T }, ?_, ⟨lt_of_get hsg, rfl, rfl, hlen, [], by simp⟩,
    ⟨lt_of_get hsg1, rfl, rfl, hlen1, [], by simp⟩, ?_⟩
  · simp only [hq1, bind, Except.bind, pure, Except.pure]
  · rw [hT]; exact ⟨rfl, hr.inputs, hr.outputs, hr.ops⟩

theorem runXf_sim (pt : PTable) (m m1 m' : Model) (j j1 : Nat) (sg sg1 : Subgraph) (x : Xf) (inp : TIn)
    (info : TInfoOut)
    (hsg : m.subgraphs[j]? = some sg) (hsg1 : m1.subgraphs[j1]? = some sg1)
    (hr : SgRel m.opcodes m1.opcodes sg sg1) (hb : m.buffers.length = m1.buffers.length)
    (h : runXf pt m j x inp = .ok (m', info)) :
    ∃ m1' sg' sg1', runXf pt m1 j1 x inp = .ok (m1', info) ∧
      StepOut m m' j sg' ∧ StepOut m1 m1' j1 sg1' ∧ SgRel m'.opcodes m1'.opcodes sg' sg1' := by
  unfold runXf at h ⊢
  cases x <;> simp only at h ⊢
  · cases h
  · rw [insertQuant_eq] at h ⊢; exact insertGen_sim pt m m1 m' j j1 sg sg1 inp _ _ _ info hsg hsg1 hr hb h
  · rw [insertDequant_eq] at h ⊢; exact insertGen_sim pt m m1 m' j j1 sg sg1 inp _ _ _ info hsg hsg1 hr hb h
  · rw [quantizeOnly_eq] at h ⊢; exact quantizeOnly2_sim pt m m1 m' j j1 sg sg1 inp info hsg hsg1 hr hb h
  · cases h

/-! ## signatures -/

def sigsOfL (sigs : List Sig) (j : Nat) : List Sig :=
  (sigs.filter (·.sg == j)).map fun s => { s with sg := 0 }

/-- the per-signature rewrite of `updateSigs` -/
def updSig (ret : List (Int × Int)) (sgi : Nat) (s : Sig) : Sig :=
  if s.sg != sgi then s else
    { s with outputs := s.outputs.map fun e =>
        match (ret.reverse.find? (·.1 == e.2)) with
        | some p => (e.1, p.2)
        | none => e }

theorem updateSigs_eq (sigs : List Sig) (sgi : Nat) (before after : List Int) :
    updateSigs sigs sgi before after =
      if ((before.zip after).filter fun p => p.1 != p.2).isEmpty then sigs
      else sigs.map (updSig ((before.zip after).filter fun p => p.1 != p.2) sgi) := rfl

theorem sigsOfL_map_ne (ret : List (Int × Int)) (k j : Nat) (hkj : k ≠ j) (sigs : List Sig) :
    sigsOfL (sigs.map (updSig ret k)) j = sigsOfL sigs j := by
  unfold sigsOfL
  induction sigs with
  | nil => rfl
  | cons s rest ih =>
    simp only [List.map_cons, List.filter_cons]
    by_cases hs : s.sg = j
    · have e : updSig ret k s = s := by
        unfold updSig
        rw [if_pos (by simp only [bne_iff_ne, ne_eq]; omega)]
      rw [e]
      simp only [hs, beq_self_eq_true, if_true, List.map_cons]
      rw [ih]
    · have e : (updSig ret k s).sg = s.sg := by
        unfold updSig; split <;> rfl
      have hb : (s.sg == j) = false := by simp only [beq_eq_false_iff_ne, ne_eq]; exact hs
      simp only [e, hb, Bool.false_eq_true, if_false]
      exact ih

theorem sigsOfL_map_same (ret : List (Int × Int)) (j : Nat) (sigs : List Sig) :
    sigsOfL (sigs.map (updSig ret j)) j = (sigsOfL sigs j).map (updSig ret 0) := by
  unfold sigsOfL
  induction sigs with
  | nil => rfl
  | cons s rest ih =>
    simp only [List.map_cons, List.filter_cons]
    have e : (updSig ret j s).sg = s.sg := by
      unfold updSig; split <;> rfl
    by_cases hs : s.sg = j
    · have hb : (s.sg == j) = true := by simp only [beq_iff_eq]; exact hs
      simp only [e, hb, if_true, List.map_cons]
      rw [ih]
      congr 1
      unfold updSig
      simp only [hs, bne_self_eq_false, Bool.false_eq_true, if_false]
    · have hb : (s.sg == j) = false := by simp only [beq_eq_false_iff_ne, ne_eq]; exact hs
      simp only [e, hb, Bool.false_eq_true, if_false]
      exact ih

theorem sigsOfL_updateSigs_ne (sigs : List Sig) (k j : Nat) (hkj : k ≠ j) (b a : List Int) :
    sigsOfL (updateSigs sigs k b a) j = sigsOfL sigs j := by
  rw [updateSigs_eq]
  split
  · rfl
  · exact sigsOfL_map_ne _ k j hkj sigs

theorem sigsOfL_updateSigs_same (sigs : List Sig) (j : Nat) (b a : List Int) :
    sigsOfL (updateSigs sigs j b a) j = updateSigs (sigsOfL sigs j) 0 b a := by
  rw [updateSigs_eq, updateSigs_eq]
  split
  · rfl
  · exact sigsOfL_map_same _ j sigs

/-! ## `applySingle` in a shape that separates the three phases -/

def xlatConsumers (ins : Inst) (om : List Int) : PyM (List Int) :=
  ins.consumers.mapM fun c => if c < 0 then pure (-1 : Int) else Py.index om c

/-- new op-id map, new added-op map, updated instruction list -/
def postMaps (insts : List Inst) (idx : Nat) (ins : Inst) (omap amap : List Int) (info : TInfoOut) :
    List Int × List Int × List Inst :=
  let p : List Int × List Inst :=
    if info.added = 0 then (amap, insts)
    else
      let amap' := amap ++ [info.opId + info.added - 1]
      let newProd : Int := (omap.length : Int) + amap'.length - 1
      (amap', insts.take (idx + 1) ++ updateInsts (insts.drop (idx + 1)) ins.consumers newProd info.outTensor)
  let first := (omap.findIdx? (fun cur => decide (cur ≥ info.opId))).getD omap.length
  let omap' : List Int := omap.zipIdx.map fun (p : Int × Nat) => if p.2 ≥ first then p.1 + (info.added : Int) else p.1
  (omap', p.1, p.2)

def post (st : PState) (ti : TInsts) (pm : List Int × List Int × List Inst) (sgBefore : Subgraph)
    (m' : Model) (sgAfter : Subgraph) : PState × TInsts :=
  ({ model := { m' with sigs := updateSigs m'.sigs ti.sg sgBefore.outputs sgAfter.outputs },
     origMap := st.origMap.set ti.sg pm.1, addedMap := st.addedMap.set ti.sg pm.2.1 },
   { ti with insts := pm.2.2 })

def applySingle2 (pt : PTable) (st : PState) (ti : TInsts) (idx : Nat) : PyM (PState × TInsts) := do
  let ins ← optGet ti.insts[idx]?
  let omap ← optGet st.origMap[ti.sg]?
  let amap ← optGet st.addedMap[ti.sg]?
  let producer ← xlatProducer ins omap amap
  let consumers ← xlatConsumers ins omap
  let sgBefore ← optGet st.model.subgraphs[ti.sg]?
  let r ← runXf pt st.model ti.sg ins.xf ⟨ins.tensor, producer, consumers, ins.param⟩
  match r.1.subgraphs[ti.sg]? with
  | some sgAfter => pure (post st ti (postMaps ti.insts idx ins omap amap r.2) sgBefore r.1 sgAfter)
  | none => throw .indexError

theorem applySingle_eq (pt : PTable) (st : PState) (ti : TInsts) (idx : Nat) :
    applySingle pt st ti idx = applySingle2 pt st ti idx := by
  unfold applySingle applySingle2 xlatProducer xlatConsumers runXf post postMaps optGet
  cases ti.insts[idx]? with
  | none => rfl
  | some ins =>
  cases st.origMap[ti.sg]? with
  | none => rfl
  | some om =>
  cases st.addedMap[ti.sg]? with
  | none => rfl
  | some am =>
  simp only [bind, Except.bind, pure, Except.pure]
  cases st.model.subgraphs[ti.sg]? with
  | none =>
    by_cases h1 : ins.producer < 0
    · simp only [h1, if_true]
      cases List.mapM (fun c => if c < 0 then Except.ok (-1) else Py.index om c) ins.consumers <;> rfl
    · by_cases h2 : ins.producer < om.length
      · simp only [h1, h2, if_true, if_false]
        cases Py.index om ins.producer with
        | error e => rfl
        | ok p =>
          cases List.mapM (fun c => if c < 0 then Except.ok (-1) else Py.index om c) ins.consumers <;> rfl
      · simp only [h1, h2, if_false]
        cases Py.index am (ins.producer - om.length) with
        | error e => rfl
        | ok p =>
          cases List.mapM (fun c => if c < 0 then Except.ok (-1) else Py.index om c) ins.consumers <;> rfl
  | some sgc =>
    cases ins.xf <;>
    · by_cases h1 : ins.producer < 0
      · simp only [h1, if_true]; rfl
      · by_cases h2 : ins.producer < om.length
        · simp only [h1, h2, if_true, if_false]; rfl
        · simp only [h1, h2, if_false]; rfl

/-! ## the simulation relation between the big run and the small run -/

structure Sim (j : Nat) (st st1 : PState) : Prop where
  sg : ∃ sg sg1, st.model.subgraphs[j]? = some sg ∧ st1.model.subgraphs[0]? = some sg1 ∧
        SgRel st.model.opcodes st1.model.opcodes sg sg1
  omap : st.origMap[j]? = st1.origMap[0]?
  amap : st.addedMap[j]? = st1.addedMap[0]?
  bufs : st.model.buffers.length = st1.model.buffers.length
  sigs : sigsOfL st.model.sigs j = st1.model.sigs

/-- (a) an instruction on subgraph `j` of the big run is simulated by the same instruction on
    subgraph `0` of the small run -/
theorem applySingle2_same (pt : PTable) (j : Nat) (st st1 st' : PState) (ti ti' : TInsts) (idx : Nat)
    (hS : Sim j st st1) (hj : ti.sg = j) (h : applySingle2 pt st ti idx = .ok (st', ti')) :
    ∃ st1', applySingle2 pt st1 { ti with sg := 0 } idx = .ok (st1', { ti' with sg := 0 }) ∧
      Sim j st' st1' ∧ ti'.sg = j := by
  subst hj
  obtain ⟨⟨sg, sg1, hsg, hsg1, hr⟩, hom, ham, hb, hsigs⟩ := hS
  unfold applySingle2 at h ⊢
  obtain ⟨ins, hins, h⟩ := bind_ok _ _ _ h
  obtain ⟨om, hom', h⟩ := bind_ok _ _ _ h
  obtain ⟨am, ham', h⟩ := bind_ok _ _ _ h
  obtain ⟨producer, hprod, h⟩ := bind_ok _ _ _ h
  obtain ⟨consumers, hcons, h⟩ := bind_ok _ _ _ h
  obtain ⟨sgc, hsgc, h⟩ := bind_ok _ _ _ h
  obtain ⟨⟨m', info⟩, hrun, h⟩ := bind_ok _ _ _ h
  replace hins := optGet_ok _ _ hins
  replace hom' := optGet_ok _ _ hom'
  replace ham' := optGet_ok _ _ ham'
  replace hsgc := optGet_ok _ _ hsgc
  rw [hsg] at hsgc; cases hsgc
  obtain ⟨m1', sg', sg1', hrun1, hso, hso1, hr'⟩ :=
    runXf_sim pt st.model st1.model m' ti.sg 0 sg sg1 ins.xf _ info hsg hsg1 hr hb hrun
  have hafter : m'.subgraphs[ti.sg]? = some sg' := by rw [hso.subs, List.getElem?_set_self hso.lt]
  have hafter1 : m1'.subgraphs[0]? = some sg1' := by rw [hso1.subs, List.getElem?_set_self hso1.lt]
  simp only [hafter, pure, Except.pure, Except.ok.injEq] at h
  obtain ⟨rfl, rfl⟩ := h
  have hom1 : st1.origMap[0]? = some om := by rw [← hom]; exact hom'
  have ham1 : st1.addedMap[0]? = some am := by rw [← ham]; exact ham'
  refine ⟨(post st1 { ti with sg := 0 } (postMaps ti.insts idx ins om am info) sg1 m1' sg1').1, ?_, ?_, rfl⟩
  · simp only [hins, hom1, ham1, hsg1, optGet, hprod, hcons, hrun1, hafter1, bind, Except.bind, pure,
      Except.pure]
    rfl
  · refine ⟨⟨sg', sg1', hafter, hafter1, hr'⟩, ?_, ?_, ?_, ?_⟩
    · show (st.origMap.set ti.sg _)[ti.sg]? = (st1.origMap.set 0 _)[0]?
      rw [List.getElem?_set_self (lt_of_get hom'), List.getElem?_set_self (lt_of_get hom1)]
    · show (st.addedMap.set ti.sg _)[ti.sg]? = (st1.addedMap.set 0 _)[0]?
      rw [List.getElem?_set_self (lt_of_get ham'), List.getElem?_set_self (lt_of_get ham1)]
    · show m'.buffers.length = m1'.buffers.length
      rw [hso.bufs, hso1.bufs, hb]
    · show sigsOfL (updateSigs m'.sigs ti.sg sg.outputs sg'.outputs) ti.sg =
        updateSigs m1'.sigs 0 sg1.outputs sg1'.outputs
      rw [sigsOfL_updateSigs_same, hso.sigs, hso1.sigs, hsigs, hr.outputs, hr'.outputs]

/-- (b) an instruction on another subgraph preserves the relation with no step of the small run -/
theorem applySingle2_other (pt : PTable) (j : Nat) (st st1 st' : PState) (ti ti' : TInsts) (idx : Nat)
    (hS : Sim j st st1) (hj : ti.sg ≠ j) (h : applySingle2 pt st ti idx = .ok (st', ti')) :
    Sim j st' st1 ∧ ti'.sg = ti.sg := by
  obtain ⟨⟨sg, sg1, hsg, hsg1, hr⟩, hom, ham, hb, hsigs⟩ := hS
  unfold applySingle2 at h
  obtain ⟨ins, hins, h⟩ := bind_ok _ _ _ h
  obtain ⟨om, hom', h⟩ := bind_ok _ _ _ h
  obtain ⟨am, ham', h⟩ := bind_ok _ _ _ h
  obtain ⟨producer, hprod, h⟩ := bind_ok _ _ _ h
  obtain ⟨consumers, hcons, h⟩ := bind_ok _ _ _ h
  obtain ⟨sgc, hsgc, h⟩ := bind_ok _ _ _ h
  obtain ⟨⟨m', info⟩, hrun, h⟩ := bind_ok _ _ _ h
  obtain ⟨sg', hso⟩ := runXf_frame pt st.model m' ti.sg ins.xf _ info hrun
  obtain ⟨e, he⟩ := hso.codes
  cases hafter : m'.subgraphs[ti.sg]? with
  | none => simp only [hafter] at h; cases h
  | some sgAfter =>
    simp only [hafter, pure, Except.pure, Except.ok.injEq] at h
    obtain ⟨rfl, rfl⟩ := h
    refine ⟨⟨⟨sg, sg1, ?_, hsg1, ?_⟩, ?_, ?_, ?_, ?_⟩, rfl⟩
    · show m'.subgraphs[j]? = some sg
      rw [hso.subs, List.getElem?_set_ne hj]; exact hsg
    · show SgRel m'.opcodes st1.model.opcodes sg sg1
      have := hr.mono e []
      rw [List.append_nil] at this
      rw [he]; exact this
    · show (st.origMap.set ti.sg _)[j]? = _
      rw [List.getElem?_set_ne hj]; exact hom
    · show (st.addedMap.set ti.sg _)[j]? = _
      rw [List.getElem?_set_ne hj]; exact ham
    · show m'.buffers.length = _
      rw [hso.bufs]; exact hb
    · show sigsOfL (updateSigs m'.sigs ti.sg _ _) j = _
      rw [sigsOfL_updateSigs_ne _ _ _ hj, hso.sigs]; exact hsigs

/-! ## all instructions of one tensor -/

/-- two `for` loops (that never `break`) run in lock step -/
theorem forIn_sim {α β} (f : α → β → PyM (ForInStep β)) (R : β → β → Prop) :
    ∀ (l : List α) (init r : β) (init1 : β), R init init1 →
      (∀ x ∈ l, ∀ s s1 s', R s s1 → f x s = .ok s' →
        ∃ b b1, s' = .yield b ∧ f x s1 = .ok (.yield b1) ∧ R b b1) →
      forIn l init f = .ok r → ∃ r1, forIn l init1 f = .ok r1 ∧ R r r1 := by
  intro l
  induction l with
  | nil =>
    intro init r init1 hR _ h
    simp only [List.forIn_nil, pure, Except.pure, Except.ok.injEq] at h
    subst h
    exact ⟨init1, rfl, hR⟩
  | cons a as ih =>
    intro init r init1 hR hstep h
    simp only [List.forIn_cons, bind, Except.bind] at h ⊢
    cases hf : f a init with
    | error e => simp [hf] at h
    | ok s' =>
      obtain ⟨b, b1, rfl, hf1, hR'⟩ := hstep a List.mem_cons_self init init1 s' hR hf
      simp only [hf] at h
      simp only [hf1]
      exact ih b r b1 hR' (fun x hx => hstep x (List.mem_cons_of_mem _ hx)) h

/-- (c1) the instructions of a tensor of subgraph `j` -/
theorem applyAll_same (pt : PTable) (j : Nat) (st st1 st' : PState) (ti : TInsts)
    (hS : Sim j st st1) (hj : ti.sg = j) (h : applyAll pt st ti = .ok st') :
    ∃ st1', applyAll pt st1 { ti with sg := 0 } = .ok st1' ∧ Sim j st' st1' := by
  unfold applyAll at h ⊢
  simp only at h ⊢
  obtain ⟨cur, hloop, h⟩ := bind_ok _ _ _ h
  obtain ⟨cur1, hloop1, hR1, hR2, hR3⟩ := forIn_sim _
    (fun (c c1 : PState × TInsts) => Sim j c.1 c1.1 ∧ c.2.sg = j ∧ c1.2 = { c.2 with sg := 0 })
    _ (st, ti) cur (st1, { ti with sg := 0 }) ⟨hS, hj, rfl⟩ (by
      rintro idx - ⟨c, t⟩ ⟨c1, t1⟩ s' ⟨hI, ht, ht1⟩ hf
      simp only at hI ht ht1 hf ⊢
      subst ht1
      cases hi : t.insts[idx]? with
      | none =>
        simp only [hi] at hf ⊢
        cases hf
        exact ⟨_, _, rfl, rfl, hI, ht, rfl⟩
      | some i =>
        simp only [hi] at hf ⊢
        by_cases hx : isInsertion i.xf = true
        · simp only [hx, if_true] at hf ⊢
          obtain ⟨⟨c', t'⟩, hc, hf⟩ := bind_ok _ _ _ hf
          cases hf
          rw [applySingle_eq] at hc ⊢
          obtain ⟨c1', hc1, hI', ht'⟩ := applySingle2_same pt j c c1 c' t t' idx hI ht hc
          refine ⟨_, (c1', { t' with sg := 0 }), rfl, ?_, hI', ht', rfl⟩
          simp only [hc1, bind, Except.bind, pure, Except.pure]
        · simp only [hx] at hf ⊢
          cases hf
          exact ⟨_, _, rfl, rfl, hI, ht, rfl⟩) hloop
  have e : cur1.2.insts = cur.2.insts := by rw [hR3]
  split at h
  · obtain ⟨_, e, _⟩ := bind_ok _ _ _ h
    cases e
  · rename_i hne
    cases h
    refine ⟨cur1.1, ?_, hR1⟩
    rw [hloop1]
    simp only [bind, Except.bind, e, hne, Bool.false_eq_true, if_false, pure, Except.pure]

/-- (c2) the instructions of a tensor of another subgraph -/
theorem applyAll_other (pt : PTable) (j : Nat) (st st1 st' : PState) (ti : TInsts)
    (hS : Sim j st st1) (hj : ti.sg ≠ j) (h : applyAll pt st ti = .ok st') : Sim j st' st1 := by
  unfold applyAll at h
  simp only at h
  obtain ⟨cur, hloop, h⟩ := bind_ok _ _ _ h
  have hP : Sim j cur.1 st1 ∧ cur.2.sg = ti.sg := by
    refine GraphFrame.forIn_inv _ (fun c => Sim j c.1 st1 ∧ c.2.sg = ti.sg) _ (st, ti) cur ⟨hS, rfl⟩ ?_ hloop
    rintro idx - ⟨c, t⟩ s' ⟨hI, ht⟩ hf
    simp only at hI ht hf
    cases hi : t.insts[idx]? with
    | none =>
      simp only [hi] at hf
      cases hf
      exact ⟨hI, ht⟩
    | some i =>
      simp only [hi] at hf
      split at hf
      · obtain ⟨⟨c', t'⟩, hc, hf⟩ := bind_ok _ _ _ hf
        cases hf
        rw [applySingle_eq] at hc
        obtain ⟨hI', ht'⟩ := applySingle2_other pt j c st1 c' t t' idx hI (ht ▸ hj) hc
        exact ⟨hI', ht'.trans ht⟩
      · cases hf
        exact ⟨hI, ht⟩
  split at h
  · obtain ⟨_, e, _⟩ := bind_ok _ _ _ h
    cases e
  · cases h
    exact hP.1

/-! ## all tensors -/

theorem restrict_cons_same (t : TInsts) (ts : List TInsts) (j : Nat) (h : t.sg = j) :
    restrict (t :: ts) j = { t with sg := 0 } :: restrict ts j := by
  unfold restrict
  rw [List.filter_cons_of_pos (by simp only [beq_iff_eq]; exact h), List.map_cons]

theorem restrict_cons_other (t : TInsts) (ts : List TInsts) (j : Nat) (h : t.sg ≠ j) :
    restrict (t :: ts) j = restrict ts j := by
  unfold restrict
  rw [List.filter_cons_of_neg (by simp only [beq_iff_eq]; exact h)]

theorem foldl_sim (pt : PTable) (j : Nat) : ∀ (tis : List TInsts) (st st1 st' : PState), Sim j st st1 →
    tis.foldlM (applyAll pt) st = .ok st' →
    ∃ st1', (restrict tis j).foldlM (applyAll pt) st1 = .ok st1' ∧ Sim j st' st1' := by
  intro tis
  induction tis with
  | nil =>
    intro st st1 st' hS h
    simp only [List.foldlM_nil, pure, Except.pure, Except.ok.injEq] at h
    subst h
    exact ⟨st1, rfl, hS⟩
  | cons t ts ih =>
    intro st st1 st' hS h
    rw [List.foldlM_cons] at h
    obtain ⟨s, hs, h⟩ := bind_ok _ _ _ h
    by_cases ht : t.sg = j
    · obtain ⟨s1, hs1, hS'⟩ := applyAll_same pt j st st1 s t hS ht hs
      obtain ⟨st1', h1, hS''⟩ := ih s s1 st' hS' h
      refine ⟨st1', ?_, hS''⟩
      rw [restrict_cons_same t ts j ht, List.foldlM_cons, hs1]
      exact h1
    · have hS' := applyAll_other pt j st st1 s t hS ht hs
      rw [restrict_cons_other t ts j ht]
      exact ih s st1 st' hS' h

theorem sim_init (m : Model) (j : Nat) (sg : Subgraph) (hsg : m.subgraphs[j]? = some sg)
    (hcodes : ∀ o ∈ sg.ops, o.code < m.opcodes.length) :
    Sim j
      { model := m,
        origMap := m.subgraphs.map (fun sg => (List.range sg.ops.length).map (fun (i : Nat) => (i : Int))),
        addedMap := m.subgraphs.map (fun _ => []) }
      { model := extract m j sg,
        origMap := (extract m j sg).subgraphs.map (fun sg => (List.range sg.ops.length).map (fun (i : Nat) => (i : Int))),
        addedMap := (extract m j sg).subgraphs.map (fun _ => []) } := by
  refine ⟨⟨sg, sg, hsg, rfl, rfl, rfl, rfl, OpsRel.refl_of hcodes⟩, ?_, ?_, rfl, rfl⟩
  · simp only [List.getElem?_map, hsg, extract, Option.map_some, List.map_cons, List.map_nil,
      List.getElem?_cons_zero]
  · simp only [List.getElem?_map, hsg, extract, Option.map_some, List.map_cons, List.map_nil,
      List.getElem?_cons_zero]

theorem view_of_sim (j : Nat) (st st1 : PState) (hS : Sim j st st1) :
    view st.model j = view st1.model 0 := by
  obtain ⟨sg, sg1, hsg, hsg1, hr⟩ := hS.sg
  unfold view
  rw [hsg, hsg1]
  simp only [Option.map_some, hr.tensors, hr.inputs, hr.outputs, hr.ops.map_eq]

/-- **C19, whole run.**  The only hypothesis beyond the success of the big run is that the operators
    of the subgraph refer to existing entries of the opcode table (part of well-formedness): an
    operator with a dangling code would start to resolve as soon as an instruction of ANOTHER
    subgraph appends to the shared table. -/
theorem performer_local (pt : PTable) (m m' : Model) (tis : List TInsts) (j : Nat) (sg : Subgraph)
    (hsg : m.subgraphs[j]? = some sg)
    (hcodes : ∀ o ∈ sg.ops, o.code < m.opcodes.length)
    (h : transformGraph pt m tis = .ok m') :
    ∃ m1', transformGraph pt (extract m j sg) (restrict tis j) = .ok m1' ∧
      view m' j = view m1' 0 ∧ sigsOf m' j = m1'.sigs := by
  unfold transformGraph at h ⊢
  simp only at h ⊢
  obtain ⟨st, hfold, h⟩ := bind_ok _ _ _ h
  cases h
  obtain ⟨st1, hfold1, hS⟩ := foldl_sim pt j tis _ _ st (sim_init m j sg hsg hcodes) hfold
  refine ⟨st1.model, ?_, view_of_sim j st st1 hS, hS.sigs⟩
  rw [hfold1]
  rfl

end Locality
