import QProofs.LocalityEnv
import QProofs.PipeOps
import QProofs.LocalityGen
/-!
# C19 — the materialisation of one operator reads and writes the statistics only at the names of
the tensors of its own subgraph

`Replay N qs qs1 x y`: whenever the run `x` (on statistics `qs`) succeeds, the run `y` (on statistics
`qs1`) succeeds with the same requests, and both statistics are updated by the same list of writes,
all at names in `N`.  It holds for `materializeOp` on any two statistics that agree on the names of
the subgraph's tensors (`Agree`).
-/
open Graph Mat Cfg Pipe

namespace Locality

/-- the two statistics agree on the names in `N` -/
def Agree (N : String → Bool) (qs qs1 : Qsvs) : Prop :=
  ∀ n, N n = true → Py.dictGet? qs n = Py.dictGet? qs1 n

/-- a list of dictionary writes -/
def applyW (w : List (String × Qsv)) (qs : Qsvs) : Qsvs := w.foldl (fun q e => Py.dictSet q e.1 e.2) qs

def Replay (N : String → Bool) (qs qs1 : Qsvs) (x y : PyM (List CReq × Qsvs)) : Prop :=
  ∀ rs q, x = .ok (rs, q) →
    ∃ w, (∀ e ∈ w, N e.1 = true) ∧ q = applyW w qs ∧ y = .ok (rs, applyW w qs1)

theorem Agree.refl (N : String → Bool) (qs : Qsvs) : Agree N qs qs := fun _ _ => rfl

theorem Agree.symm {N : String → Bool} {qs qs1 : Qsvs} (h : Agree N qs qs1) : Agree N qs1 qs :=
  fun n hn => (h n hn).symm

theorem Agree.trans {N : String → Bool} {a b c : Qsvs} (h : Agree N a b) (h' : Agree N b c) : Agree N a c :=
  fun n hn => (h n hn).trans (h' n hn)

theorem applyW_nil (qs : Qsvs) : applyW [] qs = qs := rfl

theorem applyW_append (w w' : List (String × Qsv)) (qs : Qsvs) :
    applyW (w ++ w') qs = applyW w' (applyW w qs) := by
  unfold applyW
  rw [List.foldl_append]

theorem Agree.applyW {N : String → Bool} (w : List (String × Qsv)) : ∀ {qs qs1 : Qsvs}, Agree N qs qs1 →
    Agree N (applyW w qs) (applyW w qs1) := by
  induction w with
  | nil => intro qs qs1 h; exact h
  | cons e w ih =>
    intro qs qs1 h
    refine ih (qs := Py.dictSet qs e.1 e.2) (qs1 := Py.dictSet qs1 e.1 e.2) ?_
    intro n hn
    rw [CalibProofs.dictGet?_dictSet, CalibProofs.dictGet?_dictSet, h n hn]

/-- writes at names in `N` are invisible at the other names -/
theorem applyW_frame {N : String → Bool} (w : List (String × Qsv)) (hw : ∀ e ∈ w, N e.1 = true) (n : String)
    (hn : N n = false) : ∀ (qs : Qsvs), Py.dictGet? (applyW w qs) n = Py.dictGet? qs n := by
  induction w with
  | nil => intro qs; rfl
  | cons e w ih =>
    intro qs
    have h1 := ih (fun e' he' => hw e' (List.mem_cons_of_mem _ he')) (Py.dictSet qs e.1 e.2)
    have h2 : applyW (e :: w) qs = applyW w (Py.dictSet qs e.1 e.2) := rfl
    rw [h2, h1, CalibProofs.dictGet?_dictSet]
    have : e.1 ≠ n := by
      intro h
      have := hw e List.mem_cons_self
      rw [h, hn] at this
      cases this
    simp only [this, if_false]

theorem Replay.refl_pure {N : String → Bool} {qs qs1 : Qsvs} (x : PyM (List CReq)) :
    Replay N qs qs1 (x >>= fun r => pure (r, qs)) (x >>= fun r => pure (r, qs1)) := by
  intro rs q h
  obtain ⟨r, hr, h⟩ := GraphInv.bind_ok _ _ _ h
  simp only [pure, Except.pure, Except.ok.injEq, Prod.mk.injEq] at h
  obtain ⟨rfl, rfl⟩ := h
  exact ⟨[], by simp, rfl, by rw [hr]; rfl⟩

/-- post-processing of the requests that does not look at the statistics -/
theorem Replay.bind {N : String → Bool} {qs qs1 : Qsvs} {x y : PyM (List CReq × Qsvs)} (h : Replay N qs qs1 x y)
    (f : List CReq → PyM (List CReq)) :
    Replay N qs qs1 (x >>= fun p => f p.1 >>= fun r => pure (r, p.2))
      (y >>= fun p => f p.1 >>= fun r => pure (r, p.2)) := by
  intro rs q hx
  obtain ⟨⟨r0, q0⟩, hx0, hx⟩ := GraphInv.bind_ok _ _ _ hx
  obtain ⟨r, hr, hx⟩ := GraphInv.bind_ok _ _ _ hx
  simp only [pure, Except.pure, Except.ok.injEq, Prod.mk.injEq] at hx
  obtain ⟨rfl, rfl⟩ := hx
  obtain ⟨w, hw, hq, hy⟩ := h r0 q0 hx0
  refine ⟨w, hw, hq, ?_⟩
  rw [hy]
  show (f r0 >>= fun r => pure (r, applyW w qs1)) = _
  rw [hr]
  rfl

/-! ## tensors read through `tensorAt` belong to the subgraph -/

theorem index_mem {α} (l : List α) (i : Int) (a : α) (h : Py.index l i = .ok a) : a ∈ l := by
  unfold Py.index at h
  simp only [] at h
  by_cases hc : (if i < 0 then i + (l.length : Int) else i) < 0 ∨ (if i < 0 then i + (l.length : Int) else i) ≥ l.length
  · rw [if_pos hc] at h
    cases h
  · rw [if_neg hc] at h
    cases hget : l[(if i < 0 then i + (l.length : Int) else i).toNat]? with
    | none => rw [hget] at h; cases h
    | some b =>
      rw [hget] at h
      cases h
      exact List.mem_of_getElem? hget

theorem tensorAt_mem (sg : Subgraph) (a : Int) (t : Tensor) (h : tensorAt sg a = .ok t) : t ∈ sg.tensors :=
  index_mem _ _ _ h

theorem split_oth_mem (sg : Subgraph) (slots : List Int) (ign : List Nat) (sel oth : List Tensor) (upd : List Nat)
    (h : splitTensors sg slots ign = .ok (sel, oth, upd)) : ∀ t ∈ oth, t ∈ sg.tensors := by
  intro t ht
  obtain ⟨p, _, _, hp⟩ := (splitTensors_spec sg slots ign sel oth upd h).oth_mem t ht
  exact tensorAt_mem sg p.1 t hp

/-! ## `wrapper` -/

theorem wrapper_agree {N : String → Bool} {qs qs1 : Qsvs} (hag : Agree N qs qs1) (env : Env) (oi : OpInfo)
    (t : Tensor) (hn : N t.name = true) (b : Bool) (g : Option Param) :
    wrapper env qs1 oi t b g = wrapper env qs oi t b g := by
  unfold wrapper
  rw [hag t.name hn]

theorem mkReq_name (n : String) (oi : OpInfo) (b : Bool) (p : Option Param) (c : Bool) (r : CReq)
    (h : mkReq n oi b p c = .ok r) : r.name = n := by
  unfold mkReq at h
  obtain ⟨xfs, _, h⟩ := GraphInv.bind_ok _ _ _ h
  simp only [pure, Except.pure, Except.ok.injEq] at h
  subst h
  cases b <;> rfl

theorem wrapper_mkReq (env : Env) (qs : Qsvs) (oi : OpInfo) (t : Tensor) (b : Bool) (g : Option Param) (r : CReq)
    (h : wrapper env qs oi t b g = .ok r) : ∃ p, mkReq t.name oi b p (constData env t).isSome = .ok r := by
  unfold wrapper at h
  simp only [] at h
  split at h
  · split at h
    · split at h
      · obtain ⟨mm, _, h⟩ := GraphInv.bind_ok _ _ _ h
        obtain ⟨p, _, h⟩ := GraphInv.bind_ok _ _ _ h
        exact ⟨p, h⟩
      · obtain ⟨mm, _, h⟩ := GraphInv.bind_ok _ _ _ h
        obtain ⟨p, _, h⟩ := GraphInv.bind_ok _ _ _ h
        exact ⟨p, h⟩
    · split at h
      · obtain ⟨mm, hmm, h⟩ := GraphInv.bind_ok _ _ _ h
        cases hmm
      · obtain ⟨mm, _, h⟩ := GraphInv.bind_ok _ _ _ h
        obtain ⟨p, _, h⟩ := GraphInv.bind_ok _ _ _ h
        exact ⟨p, h⟩
  · split at h
    · obtain ⟨p, _, h⟩ := GraphInv.bind_ok _ _ _ h
      exact ⟨p, h⟩
    · obtain ⟨p, _, h⟩ := GraphInv.bind_ok _ _ _ h
      exact ⟨p, h⟩
  · obtain ⟨p, _, h⟩ := GraphInv.bind_ok _ _ _ h
    exact ⟨p, h⟩

theorem wrapper_name (env : Env) (qs : Qsvs) (oi : OpInfo) (t : Tensor) (b : Bool) (g : Option Param) (r : CReq)
    (h : wrapper env qs oi t b g = .ok r) : r.name = t.name := by
  obtain ⟨p, h⟩ := wrapper_mkReq env qs oi t b g r h
  exact mkReq_name _ _ _ _ _ _ h

theorem mapM_congr {α β} (f g : α → PyM β) : ∀ (l : List α), (∀ a ∈ l, f a = g a) → l.mapM f = l.mapM g := by
  intro l
  induction l with
  | nil => intro _; rfl
  | cons a as ih =>
    intro h
    simp only [List.mapM_cons]
    rw [h a List.mem_cons_self, ih (fun b hb => h b (List.mem_cons_of_mem _ hb))]

theorem setLoop (iq : Qsv) : ∀ (l : List Tensor) (qs : Qsvs),
    (forIn l qs fun o s => (pure (ForInStep.yield (Py.dictSet s o.name iq)) : PyM (ForInStep Qsvs))) =
      .ok (applyW (l.map fun o => (o.name, iq)) qs) := by
  intro l
  induction l with
  | nil => intro qs; rfl
  | cons a as ih =>
    intro qs
    simp only [List.forIn_cons, bind, Except.bind, pure, Except.pure]
    exact ih _

/-! ## `standardOp` -/

theorem standardOp_replay {N : String → Bool} {qs qs1 : Qsvs} (hag : Agree N qs qs1) (env : Env) (sg : Subgraph)
    (hN : ∀ t ∈ sg.tensors, N t.name = true) (oi : OpInfo) (con : Constraint) (gIn gOut : List Nat) :
    Replay N qs qs1 (standardOp env sg qs oi con gIn gOut) (standardOp env sg qs1 oi con gIn gOut) := by
  intro rs q h
  unfold standardOp at h
  obtain ⟨inIgn, hinIgn, h1⟩ := GraphInv.bind_ok _ _ _ h
  clear h
  obtain ⟨outIgn, houtIgn, h2⟩ := GraphInv.bind_ok _ _ _ h1
  clear h1
  obtain ⟨⟨ignInT, inT, inIgnU⟩, hsplitIn, h3⟩ := GraphInv.bind_ok _ _ _ h2
  clear h2
  obtain ⟨⟨ignOutT, outT, outIgnU⟩, hsplitOut, h⟩ := GraphInv.bind_ok _ _ _ h3
  clear h3
  simp only [] at h
  have hinN : ∀ t ∈ inT, N t.name = true := fun t ht => hN t (split_oth_mem _ _ _ _ _ _ hsplitIn t ht)
  have houtN : ∀ t ∈ outT, N t.name = true := fun t ht => hN t (split_oth_mem _ _ _ _ _ _ hsplitOut t ht)
  have hmapIn : ∀ g, inT.mapM (fun i => wrapper env qs1 oi i true g) = inT.mapM (fun i => wrapper env qs oi i true g) :=
    fun g => mapM_congr _ _ _ (fun t ht => wrapper_agree hag env oi t (hinN t ht) true g)
  have hmapOut : ∀ g, outT.mapM (fun i => wrapper env qs1 oi i false g) = outT.mapM (fun i => wrapper env qs oi i false g) :=
    fun g => mapM_congr _ _ _ (fun t ht => wrapper_agree hag env oi t (houtN t ht) false g)
  unfold standardOp
  simp only [hinIgn, houtIgn, hsplitIn, hsplitOut, bind, Except.bind]
  by_cases he : (inT.isEmpty && outT.isEmpty) = true
  · rw [if_pos he] at h
    simp only [pure, Except.pure, Except.ok.injEq, Prod.mk.injEq] at h
    obtain ⟨rfl, rfl⟩ := h
    refine ⟨[], by simp, rfl, ?_⟩
    simp only [he, if_true, pure, Except.pure, applyW_nil]
  · rw [if_neg he] at h
    simp only [he]
    cases con with
    | none =>
      simp only [] at h ⊢
      obtain ⟨ins, hins, h1⟩ := GraphInv.bind_ok _ _ _ h
      clear h
      obtain ⟨outs, houts, h⟩ := GraphInv.bind_ok _ _ _ h1
      clear h1
      simp only [pure, Except.pure, Except.ok.injEq, Prod.mk.injEq] at h
      obtain ⟨rfl, rfl⟩ := h
      refine ⟨[], by simp, rfl, ?_⟩
      simp only [hmapIn, hmapOut, hins, houts, pure, Except.pure, applyW_nil, Bool.false_eq_true, if_false]
    | sameAsInput =>
      simp only [] at h ⊢
      obtain ⟨t, ht, h1⟩ := GraphInv.bind_ok _ _ _ h
      clear h
      obtain ⟨ir, hir, h2⟩ := GraphInv.bind_ok _ _ _ h1
      clear h1
      obtain ⟨p, hp, h3⟩ := GraphInv.bind_ok _ _ _ h2
      clear h2
      obtain ⟨outs, houts, h4⟩ := GraphInv.bind_ok _ _ _ h3
      clear h3
      obtain ⟨iq, hiq, h5⟩ := GraphInv.bind_ok _ _ _ h4
      clear h4
      obtain ⟨qs2, hqs2, h⟩ := GraphInv.bind_ok _ _ _ h5
      clear h5
      simp only [pure, Except.pure, Except.ok.injEq, Prod.mk.injEq] at h
      obtain ⟨rfl, rfl⟩ := h
      have hinT : inT = [t] := by
        rcases inT with _ | ⟨a, _ | ⟨b, l⟩⟩
        · cases ht
        · simp only [pure, Except.pure, Except.ok.injEq] at ht
          rw [ht]
        · cases ht
      subst hinT
      have htN : N t.name = true := hinN t List.mem_cons_self
      have hir1 : wrapper env qs1 oi t true none = .ok ir := by rw [wrapper_agree hag env oi t htN]; exact hir
      have hname : ir.name = t.name := wrapper_name _ _ _ _ _ _ _ hir
      have hiq1 : Py.dictGet? qs1 ir.name = Py.dictGet? qs ir.name := by rw [hname]; exact (hag t.name htN).symm
      rw [setLoop] at hqs2
      cases hqs2
      refine ⟨outT.map fun o => (o.name, iq), ?_, rfl, ?_⟩
      · intro e he'
        obtain ⟨o, ho, rfl⟩ := List.mem_map.1 he'
        exact houtN o ho
      · cases hd : Py.dictGet? qs ir.name with
        | none => rw [hd] at hiq; cases hiq
        | some v =>
          rw [hd] at hiq
          simp only [pure, Except.pure, Except.ok.injEq] at hiq
          subst hiq
          simp only [hir1, hp, hmapOut, houts, hiq1, hd, pure, Except.pure, Bool.false_eq_true, if_false]
          have := setLoop v outT qs1
          simp only [pure, Except.pure] at this
          rw [this]
    | sameAsOutput =>
      simp only [] at h ⊢
      obtain ⟨t, ht, h1⟩ := GraphInv.bind_ok _ _ _ h
      clear h
      obtain ⟨orq, horq, h2⟩ := GraphInv.bind_ok _ _ _ h1
      clear h1
      obtain ⟨ins, hins, h⟩ := GraphInv.bind_ok _ _ _ h2
      clear h2
      simp only [pure, Except.pure, Except.ok.injEq, Prod.mk.injEq] at h
      obtain ⟨rfl, rfl⟩ := h
      have houtT : outT = [t] := by
        rcases outT with _ | ⟨a, _ | ⟨b, l⟩⟩
        · cases ht
        · simp only [pure, Except.pure, Except.ok.injEq] at ht
          rw [ht]
        · cases ht
      subst houtT
      have htN : N t.name = true := houtN t List.mem_cons_self
      have horq1 : wrapper env qs1 oi t false none = .ok orq := by rw [wrapper_agree hag env oi t htN]; exact horq
      refine ⟨[], by simp, rfl, ?_⟩
      simp only [horq1, hmapIn, hins, pure, Except.pure, applyW_nil, Bool.false_eq_true, if_false]

/-! ## the requests name tensors of the subgraph -/

theorem nameIn_of_mem (sg : Subgraph) (t : Tensor) (h : t ∈ sg.tensors) : nameIn sg t.name = true := by
  unfold nameIn
  rw [List.any_eq_true]
  exact ⟨t, h, by simp⟩

theorem noQuantReq_name (n : String) (o : Int) (b : Bool) : (noQuantReq n o b).name = n := by
  cases b <;> rfl

theorem standardOp_names (env : Env) (sg : Subgraph) (qs : Qsvs) (oi : OpInfo) (con : Constraint)
    (gIn gOut : List Nat) (rs : List CReq) (q : Qsvs) (h : standardOp env sg qs oi con gIn gOut = .ok (rs, q)) :
    ∀ r ∈ rs, nameIn sg r.name = true := by
  obtain ⟨inIgn, outIgn, rin, rout, g, gO, _, _, hrs, hin, hout, _, _⟩ :=
    standardOp_shape env sg qs oi con gIn gOut rs q h
  have key : ∀ (b : Bool) (ign : List Nat) (g : Option Param) (p : Int × Nat) (r : CReq),
      SlotReq env sg qs oi b ign g p r → nameIn sg r.name = true := by
    intro b ign g p r hs
    obtain ⟨t, ht, hr⟩ := hs
    have hmem := nameIn_of_mem sg t (tensorAt_mem sg p.1 t ht)
    split at hr
    · rw [hr, noQuantReq_name]; exact hmem
    · rw [wrapper_name _ _ _ _ _ _ _ hr]; exact hmem
  intro r hr
  rw [hrs] at hr
  rcases List.mem_append.1 hr with hr | hr
  · obtain ⟨p, _, hp⟩ := hin.mem_right hr
    exact key _ _ _ _ _ hp
  · obtain ⟨p, _, hp⟩ := hout.mem_right hr
    exact key _ _ _ _ _ hp

theorem noQuantOp_names (sg : Subgraph) (op : Op) (opId : Int) (rs : List CReq)
    (h : noQuantOp sg op opId = .ok rs) : ∀ r ∈ rs, nameIn sg r.name = true := by
  unfold noQuantOp at h
  obtain ⟨ins, hins, h⟩ := GraphInv.bind_ok _ _ _ h
  obtain ⟨outs, houts, h⟩ := GraphInv.bind_ok _ _ _ h
  simp only [pure, Except.pure, Except.ok.injEq] at h
  subst h
  intro r hr
  rcases List.mem_append.1 hr with hr | hr
  · obtain ⟨a, _, hf⟩ := GraphFrame.mapM_ok _ _ _ hins r hr
    obtain ⟨t, ht, hf⟩ := GraphInv.bind_ok _ _ _ hf
    simp only [pure, Except.pure, Except.ok.injEq] at hf
    rw [← hf, noQuantReq_name]
    exact nameIn_of_mem sg t (tensorAt_mem sg a t ht)
  · obtain ⟨a, _, hf⟩ := GraphFrame.mapM_ok _ _ _ houts r hr
    obtain ⟨t, ht, hf⟩ := GraphInv.bind_ok _ _ _ hf
    simp only [pure, Except.pure, Except.ok.injEq] at hf
    rw [← hf, noQuantReq_name]
    exact nameIn_of_mem sg t (tensorAt_mem sg a t ht)

theorem biasFor_names (env : Env) (sg : Subgraph) (oi : OpInfo) (reqs rs : List CReq) (iIn iW iB : Nat)
    (hreqs : ∀ r ∈ reqs, nameIn sg r.name = true)
    (h : biasFor env sg oi reqs iIn iW iB = .ok rs) : ∀ r ∈ rs, nameIn sg r.name = true := by
  rcases biasFor_unfold env sg oi reqs rs iIn iW iB h with rfl | ⟨bslot, bt, bp, r, _, _, hbt, _, _, hmk, _, rfl⟩
  · exact hreqs
  · intro r' hr'
    rcases mem_set_cases _ _ _ _ hr' with h | ⟨j, _, hj⟩
    · rw [h, mkReq_name _ _ _ _ _ _ hmk]
      exact nameIn_of_mem sg bt (tensorAt_mem sg bslot bt hbt)
    · exact hreqs r' (List.mem_of_getElem? hj)

theorem floatCastOp_names (env : Env) (sg : Subgraph) (oi : OpInfo) (iIn iW iB : Nat) (rs : List CReq)
    (h : floatCastOp env sg oi iIn iW iB = .ok rs) : ∀ r ∈ rs, nameIn sg r.name = true := by
  obtain ⟨sIn, sW, sOut, tin, tw, tout, wd, p, _, _, _, h1, h2, h3, _, hrs⟩ :=
    floatCastOp_unfold env sg oi iIn iW iB rs h
  have n1 := nameIn_of_mem sg tin (tensorAt_mem _ _ _ h1)
  have n2 := nameIn_of_mem sg tw (tensorAt_mem _ _ _ h2)
  have n3 := nameIn_of_mem sg tout (tensorAt_mem _ _ _ h3)
  rcases hrs with rfl | ⟨b, tb, _, _, h4, rfl⟩
  · intro r hr
    simp only [List.mem_cons, List.not_mem_nil, or_false] at hr
    rcases hr with rfl | rfl | rfl
    · rw [noQuantReq_name]; exact n1
    · exact n2
    · rw [noQuantReq_name]; exact n3
  · have n4 := nameIn_of_mem sg tb (tensorAt_mem _ _ _ h4)
    intro r hr
    simp only [List.cons_append, List.nil_append, List.mem_cons, List.not_mem_nil, or_false] at hr
    rcases hr with rfl | rfl | rfl | rfl
    · rw [noQuantReq_name]; exact n1
    · exact n2
    · rw [noQuantReq_name]; exact n3
    · rw [noQuantReq_name]; exact n4

/-! ## `fixedRangeOp` -/

/-- the part of `fixedRangeOp` after `standardOp` -/
def fixPost (oi : OpInfo) (softmaxLike : Bool) (p : List CReq × Qsvs) : PyM (List CReq × Qsvs) :=
  match p.1.getLast?, oi.cfg.act with
  | some last, some a =>
    match last.producer with
    | none => pure (p.1, p.2)
    | some pr =>
      match fixedParams softmaxLike a.bits.toNat with
      | none => throw .valueError
      | some fp => do
        let last' : CReq := { last with producer := some { pr with param := some (.uniform fp none) } }
        let mm ← minMaxFromParams a.bits.toNat a.symmetric fp
        match Py.dictGet? p.2 last.name with
        | none => throw .keyError
        | some _ => pure (p.1.dropLast ++ [last'], Py.dictSet p.2 last.name (some mm))
  | _, _ => pure (p.1, p.2)

theorem fixedRangeOp_eq (env : Env) (sg : Subgraph) (qs : Qsvs) (oi : OpInfo) (b : Bool) :
    fixedRangeOp env sg qs oi b =
      if oi.op.outputs.length ≠ 1 then .error .valueError
      else standardOp env sg qs oi .none [] [] >>= fixPost oi b := by
  unfold fixedRangeOp
  by_cases hc : oi.op.outputs.length ≠ 1
  · rw [if_pos hc, if_pos hc]
    rfl
  · rw [if_neg hc, if_neg hc]
    rfl


theorem fixPost_replay {N : String → Bool} (oi : OpInfo) (b : Bool) (reqs : List CReq)
    (hreqs : ∀ r ∈ reqs, N r.name = true) (q q1 : Qsvs) (hag : Agree N q q1) (rs : List CReq) (q' : Qsvs)
    (h : fixPost oi b (reqs, q) = .ok (rs, q')) :
    (∀ r ∈ rs, N r.name = true) ∧
    ∃ w, (∀ e ∈ w, N e.1 = true) ∧ q' = applyW w q ∧ fixPost oi b (reqs, q1) = .ok (rs, applyW w q1) := by
  unfold fixPost at h ⊢
  simp only [] at h ⊢
  split at h
  · rename_i last a hlast hact
    have hlastN : N last.name = true := hreqs last (List.mem_of_getLast? hlast)
    split at h
    · simp only [pure, Except.pure, Except.ok.injEq, Prod.mk.injEq] at h
      obtain ⟨rfl, rfl⟩ := h
      exact ⟨hreqs, [], by simp, rfl, rfl⟩
    · rename_i pr hpr
      split at h
      · cases h
      · rename_i fp hfp
        obtain ⟨mm, hmm, h⟩ := GraphInv.bind_ok _ _ _ h
        simp only [bind, Except.bind, hmm]
        rw [← hag last.name hlastN]
        split at h
        · cases h
        · rename_i v hv
          simp only [pure, Except.pure, Except.ok.injEq, Prod.mk.injEq] at h
          obtain ⟨rfl, rfl⟩ := h
          refine ⟨?_, [(last.name, some mm)], ?_, rfl, ?_⟩
          · intro r hr
            rcases List.mem_append.1 hr with hr | hr
            · exact hreqs r (List.dropLast_subset _ hr)
            · rw [List.mem_singleton.1 hr]; exact hlastN
          · intro e he
            rw [List.mem_singleton.1 he]; exact hlastN
          · rfl
  · rename_i hne
    simp only [pure, Except.pure, Except.ok.injEq, Prod.mk.injEq] at h
    obtain ⟨rfl, rfl⟩ := h
    exact ⟨hreqs, [], by simp, rfl, rfl⟩

theorem fixedRangeOp_replay {N : String → Bool} {qs qs1 : Qsvs} (hag : Agree N qs qs1) (env : Env) (sg : Subgraph)
    (hN : ∀ t ∈ sg.tensors, N t.name = true) (hN' : ∀ n, nameIn sg n = true → N n = true) (oi : OpInfo) (b : Bool) :
    Replay N qs qs1 (fixedRangeOp env sg qs oi b) (fixedRangeOp env sg qs1 oi b) := by
  intro rs q h
  rw [fixedRangeOp_eq] at h ⊢
  by_cases hc : oi.op.outputs.length ≠ 1
  · rw [if_pos hc] at h; cases h
  · rw [if_neg hc] at h ⊢
    obtain ⟨⟨reqs, q0⟩, hstd, h⟩ := GraphInv.bind_ok _ _ _ h
    obtain ⟨w, hw, rfl, hstd1⟩ := standardOp_replay hag env sg hN oi .none [] [] reqs q0 hstd
    have hnames := standardOp_names env sg qs oi .none [] [] reqs _ hstd
    obtain ⟨_, w', hw', rfl, h1⟩ := fixPost_replay oi b reqs (fun r hr => hN' _ (hnames r hr)) _ _
      (hag.applyW w) rs q h
    refine ⟨w ++ w', ?_, (applyW_append _ _ _).symm, ?_⟩
    · intro e he
      rcases List.mem_append.1 he with he | he
      · exact hw e he
      · exact hw' e he
    · rw [hstd1, applyW_append]
      exact h1

theorem fixedRangeOp_names (env : Env) (sg : Subgraph) (qs : Qsvs) (oi : OpInfo) (b : Bool) (rs : List CReq) (q : Qsvs)
    (h : fixedRangeOp env sg qs oi b = .ok (rs, q)) : ∀ r ∈ rs, nameIn sg r.name = true := by
  rw [fixedRangeOp_eq] at h
  by_cases hc : oi.op.outputs.length ≠ 1
  · rw [if_pos hc] at h; cases h
  · rw [if_neg hc] at h
    obtain ⟨⟨reqs, q0⟩, hstd, h⟩ := GraphInv.bind_ok _ _ _ h
    have hnames := standardOp_names env sg qs oi .none [] [] reqs _ hstd
    exact (fixPost_replay (N := nameIn sg) oi b reqs hnames q0 q0 (Agree.refl _ _) rs q h).1


/-! ## the dispatch -/

/-- the requests of a successful run name tensors of `sg` -/
def NamesOK (sg : Subgraph) (x : PyM (List CReq × Qsvs)) : Prop :=
  ∀ rs q, x = .ok (rs, q) → ∀ r ∈ rs, nameIn sg r.name = true

theorem Replay.ite {N : String → Bool} {qs qs1 : Qsvs} (c : Prop) [Decidable c] {a a' b b' : PyM (List CReq × Qsvs)}
    (h1 : c → Replay N qs qs1 a a') (h2 : ¬ c → Replay N qs qs1 b b') :
    Replay N qs qs1 (if c then a else b) (if c then a' else b') := by
  by_cases hc : c
  · rw [if_pos hc, if_pos hc]; exact h1 hc
  · rw [if_neg hc, if_neg hc]; exact h2 hc

theorem Replay.error {N : String → Bool} {qs qs1 : Qsvs} (e : PyErr) (y : PyM (List CReq × Qsvs)) :
    Replay N qs qs1 (.error e) y := by
  intro rs q h; cases h

theorem Replay.bindF {N : String → Bool} {qs qs1 : Qsvs} {x y : PyM (List CReq × Qsvs)} (h : Replay N qs qs1 x y)
    (F : List CReq × Qsvs → PyM (List CReq × Qsvs)) (f : List CReq → PyM (List CReq))
    (hF : ∀ r q, F (r, q) = (f r >>= fun r' => pure (r', q))) :
    Replay N qs qs1 (x >>= F) (y >>= F) := by
  intro rs q hx
  obtain ⟨⟨r0, q0⟩, hx0, hx⟩ := GraphInv.bind_ok _ _ _ hx
  rw [hF] at hx
  obtain ⟨r, hr, hx⟩ := GraphInv.bind_ok _ _ _ hx
  simp only [pure, Except.pure, Except.ok.injEq, Prod.mk.injEq] at hx
  obtain ⟨rfl, rfl⟩ := hx
  obtain ⟨w, hw, hq, hy⟩ := h r0 q0 hx0
  refine ⟨w, hw, hq, ?_⟩
  rw [hy]
  show F (r0, applyW w qs1) = _
  rw [hF, hr]
  rfl

theorem NamesOK.ite {sg : Subgraph} (c : Prop) [Decidable c] {a b : PyM (List CReq × Qsvs)}
    (h1 : c → NamesOK sg a) (h2 : ¬ c → NamesOK sg b) : NamesOK sg (if c then a else b) := by
  by_cases hc : c
  · rw [if_pos hc]; exact h1 hc
  · rw [if_neg hc]; exact h2 hc

theorem NamesOK.error {sg : Subgraph} (e : PyErr) : NamesOK sg (.error e) := by
  intro rs q h; cases h

theorem NamesOK.pure_of {sg : Subgraph} (x : PyM (List CReq)) (qs : Qsvs)
    (h : ∀ rs, x = .ok rs → ∀ r ∈ rs, nameIn sg r.name = true) : NamesOK sg (x >>= fun r => pure (r, qs)) := by
  intro rs q hx
  obtain ⟨r, hr, hx⟩ := GraphInv.bind_ok _ _ _ hx
  simp only [pure, Except.pure, Except.ok.injEq, Prod.mk.injEq] at hx
  obtain ⟨rfl, rfl⟩ := hx
  exact h r hr

theorem NamesOK.bindF {sg : Subgraph} {x : PyM (List CReq × Qsvs)} (h : NamesOK sg x)
    (F : List CReq × Qsvs → PyM (List CReq × Qsvs)) (f : List CReq → PyM (List CReq))
    (hF : ∀ r q, F (r, q) = (f r >>= fun r' => pure (r', q)))
    (hf : ∀ r r', (∀ a ∈ r, nameIn sg a.name = true) → f r = .ok r' → ∀ a ∈ r', nameIn sg a.name = true) :
    NamesOK sg (x >>= F) := by
  intro rs q hx
  obtain ⟨⟨r0, q0⟩, hx0, hx⟩ := GraphInv.bind_ok _ _ _ hx
  rw [hF] at hx
  obtain ⟨r, hr, hx⟩ := GraphInv.bind_ok _ _ _ hx
  simp only [pure, Except.pure, Except.ok.injEq, Prod.mk.injEq] at hx
  obtain ⟨rfl, rfl⟩ := hx
  exact hf r0 r (h r0 q0 hx0) hr

theorem materializeOp_replay {qs qs1 : Qsvs} (env : Env) (sg : Subgraph) (hag : Agree (nameIn sg) qs qs1)
    (oi : OpInfo) (alg fn : String) :
    Replay (nameIn sg) qs qs1 (materializeOp env sg qs oi alg fn) (materializeOp env sg qs1 oi alg fn) := by
  have hN : ∀ t ∈ sg.tensors, nameIn sg t.name = true := nameIn_of_mem sg
  have std : ∀ con gi go, Replay (nameIn sg) qs qs1 (standardOp env sg qs oi con gi go)
      (standardOp env sg qs1 oi con gi go) := fun con gi go => standardOp_replay hag env sg hN oi con gi go
  have fix : ∀ b, Replay (nameIn sg) qs qs1 (fixedRangeOp env sg qs oi b) (fixedRangeOp env sg qs1 oi b) :=
    fun b => fixedRangeOp_replay hag env sg hN (fun _ h => h) oi b
  unfold materializeOp
  refine Replay.ite _ (fun _ => ?_) (fun _ => Replay.ite _ (fun _ => ?_) (fun _ => Replay.error _ _))
  · exact Replay.ite _ (fun _ => Replay.refl_pure _)
      (fun _ => Replay.ite _ (fun _ => Replay.refl_pure _) (fun _ => Replay.error _ _))
  · refine Replay.ite _ (fun _ => std _ _ _) (fun _ => ?_)
    refine Replay.ite _ (fun _ => std _ _ _) (fun _ => ?_)
    refine Replay.ite _ (fun _ => std _ _ _) (fun _ => ?_)
    refine Replay.ite _ (fun _ => std _ _ _) (fun _ => ?_)
    refine Replay.ite _ (fun _ => std _ _ _) (fun _ => ?_)
    refine Replay.ite _ (fun _ => std _ _ _) (fun _ => ?_)
    refine Replay.ite _ (fun _ => std _ _ _) (fun _ => ?_)
    refine Replay.ite _ (fun _ => std _ _ _) (fun _ => ?_)
    refine Replay.ite _ (fun _ => ?_) (fun _ => ?_)
    · exact (std _ _ _).bindF _ (fun r => biasFor env sg oi r 0 1 2) (fun r q => rfl)
    refine Replay.ite _ (fun _ => ?_) (fun _ => ?_)
    · refine (std _ _ _).bindF _ (fun r => if r.length < 2 then throw .valueError else biasFor env sg oi r 2 1 3) ?_
      intro r q
      by_cases hl : r.length < 2
      · simp only [hl, if_true]; rfl
      · simp only [hl, if_false]
    refine Replay.ite _ (fun _ => fix _) (fun _ => ?_)
    exact Replay.ite _ (fun _ => fix _) (fun _ => Replay.error _ _)

theorem materializeOp_names (env : Env) (sg : Subgraph) (qs : Qsvs) (oi : OpInfo) (alg fn : String) :
    NamesOK sg (materializeOp env sg qs oi alg fn) := by
  have std : ∀ con gi go, NamesOK sg (standardOp env sg qs oi con gi go) :=
    fun con gi go rs q h => standardOp_names env sg qs oi con gi go rs q h
  have fix : ∀ b, NamesOK sg (fixedRangeOp env sg qs oi b) :=
    fun b rs q h => fixedRangeOp_names env sg qs oi b rs q h
  have fc : ∀ a b c, NamesOK sg (floatCastOp env sg oi a b c >>= fun r => pure (r, qs)) :=
    fun a b c => NamesOK.pure_of _ _ (fun rs h => floatCastOp_names env sg oi a b c rs h)
  unfold materializeOp
  refine NamesOK.ite _ (fun _ => ?_) (fun _ => NamesOK.ite _ (fun _ => ?_) (fun _ => NamesOK.error _))
  · exact NamesOK.ite _ (fun _ => fc _ _ _) (fun _ => NamesOK.ite _ (fun _ => fc _ _ _) (fun _ => NamesOK.error _))
  · refine NamesOK.ite _ (fun _ => std _ _ _) (fun _ => ?_)
    refine NamesOK.ite _ (fun _ => std _ _ _) (fun _ => ?_)
    refine NamesOK.ite _ (fun _ => std _ _ _) (fun _ => ?_)
    refine NamesOK.ite _ (fun _ => std _ _ _) (fun _ => ?_)
    refine NamesOK.ite _ (fun _ => std _ _ _) (fun _ => ?_)
    refine NamesOK.ite _ (fun _ => std _ _ _) (fun _ => ?_)
    refine NamesOK.ite _ (fun _ => std _ _ _) (fun _ => ?_)
    refine NamesOK.ite _ (fun _ => std _ _ _) (fun _ => ?_)
    refine NamesOK.ite _ (fun _ => ?_) (fun _ => ?_)
    · exact (std _ _ _).bindF _ (fun r => biasFor env sg oi r 0 1 2) (fun r q => rfl)
        (fun r r' hr h => biasFor_names env sg oi r r' 0 1 2 hr h)
    refine NamesOK.ite _ (fun _ => ?_) (fun _ => ?_)
    · refine (std _ _ _).bindF _ (fun r => if r.length < 2 then throw .valueError else biasFor env sg oi r 2 1 3) ?_ ?_
      · intro r q
        by_cases hl : r.length < 2
        · simp only [hl, if_true]; rfl
        · simp only [hl, if_false]
      · intro r r' hr h
        by_cases hl : r.length < 2
        · rw [if_pos hl] at h; cases h
        · rw [if_neg hl] at h
          exact biasFor_names env sg oi r r' 2 1 3 hr h
    refine NamesOK.ite _ (fun _ => fix _) (fun _ => ?_)
    exact NamesOK.ite _ (fun _ => fix _) (fun _ => NamesOK.error _)

end Locality
