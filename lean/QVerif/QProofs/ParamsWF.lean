import QProofs.ParamsFwd
/-!
# C04 end to end: side conditions of well-formedness, stated on the inputs

* `resolve_inv`: a property of every rule config of the recipe state (and of the default config) holds
  for the config `Recipe.resolve` returns;
* `eqv_vals`: `==`-equal uniform parameter objects have the same bit width, quantized dimension, scale
  values, zero points and symmetry flag;
* `fixedParams_wf`, `fixed_minmax_ok`: the fixed ranges are well formed, and the min/max written back to
  the statistics for them are ordered float64 values;
* `statSrc_ok`: if the CALLER's statistics are ordered and not float16, so is every entry of every
  statistics dictionary in force.
-/
open Graph Mat Cfg Pipeline Pipe Arith Nd MatParams Num
open ParamsSrc ParamsStats

set_option autoImplicit false

namespace ParamsWF

/-! ## the resolved config -/

theorem resolve_inv (Q : OpCfg → Prop) (rx : String → String → Bool) (st : Recipe.State) (k scope : String)
    (h0 : Q {}) (h : ∀ e ∈ st, ∀ r ∈ e.2, Q r.cfg) : Q (Recipe.resolve rx st k scope).2 := by
  unfold Recipe.resolve
  refine GenInstsInfo.foldl_inv _ (fun acc : String × OpCfg => Q acc.2) _ _ ?_ h0
  intro e he acc hacc
  split
  · refine GenInstsInfo.foldl_inv _ (fun acc : String × OpCfg => Q acc.2) _ _ ?_ hacc
    intro r hr acc' hacc'
    split
    · exact hacc'
    · split
      · exact hacc'
      · exact h e he r hr
  · exact hacc

/-! ## `==` on uniform parameter objects -/

theorem arrEq_eq {α} [BEq α] [LawfulBEq α] (a b : Arr α) (h : arrEq a b = true) : a = b := by
  obtain ⟨h1, h2⟩ := (SharingGen.arrEq_iff a b).1 h
  cases a; cases b; simp_all

theorem eqv_vals (P0 : Param) (qp : QParams) (d : Option IArr) (h : P0.eqv (.uniform qp d) = true) :
    ∃ qp0 d0, P0 = .uniform qp0 d0 ∧ qp0.bits = qp.bits ∧ qp0.qdim = qp.qdim ∧
      qp0.scale.arr = qp.scale.arr ∧ qp0.zp.arr = qp.zp.arr ∧ qp0.symmetric = qp.symmetric := by
  cases P0 with
  | nonlinear b d0 => simp [Param.eqv] at h
  | uniform qp0 d0 =>
    simp only [Param.eqv, Bool.and_eq_true, beq_iff_eq] at h
    obtain ⟨⟨⟨⟨⟨h1, h2⟩, h3⟩, h4⟩, h5⟩, -⟩ := h
    exact ⟨qp0, d0, rfl, h1, h2, arrEq_eq _ _ h3, arrEq_eq _ _ h4, h5⟩

theorem eqv_uniform_of_pinfo (P0 P : Param) (h : P0.eqv P = true) (hu : (pinfoOf P0).uniform = true) :
    ∃ qp d, P = .uniform qp d := by
  cases P0 with
  | nonlinear b d0 => cases hu
  | uniform qp0 d0 =>
    cases P with
    | nonlinear b d => simp [Param.eqv] at h
    | uniform qp d => exact ⟨qp, d, rfl⟩

/-! ## the fixed ranges -/

theorem fixedParams_wf (sl : Bool) (bits : Nat) (fp : QParams) (h : fixedParams sl bits = some fp) :
    WellFormed bits fp.symmetric fp ∧ fp.qdim = none ∧ fp.scale.arr.data.length = 1 := by
  unfold fixedParams at h
  simp only [] at h
  have mk : ∀ (b : Nat) (s : Rat) (z : Int) (sym : Bool), 0 < s → Prec.f64.isFin s = true →
      (qmin b ≤ z ∧ z ≤ qmax b) → (sym = true → z = 0) →
      WellFormed b sym { bits := b, qdim := none, scale := ⟨⟨[], [s]⟩, .f64⟩, zp := ⟨⟨[], [z]⟩, 64⟩, symmetric := sym } := by
    intro b s z sym hs hf hz hz0
    refine ⟨rfl, rfl, rfl, rfl, rfl, ?_, ?_, ?_, ?_⟩
    · intro x hx; rw [List.mem_singleton.1 hx]; exact hs
    · intro x hx; rw [List.mem_singleton.1 hx]; exact hf
    · intro x hx; rw [List.mem_singleton.1 hx]; exact hz
    · intro hsym x hx; rw [List.mem_singleton.1 hx]; exact hz0 hsym
  repeat' split at h
  all_goals cases h
  all_goals subst_vars
  all_goals refine ⟨mk _ _ _ _ (by decide +kernel) (by decide +kernel) (by decide +kernel) (by decide), rfl, rfl⟩

/-- a decidable sufficient condition for `StatsOrdered` -/
def ordB (mn mx : FArr) : Bool :=
  mn.arr.shape == mx.arr.shape && mn.arr.data.length == mx.arr.data.length &&
    (mn.arr.data.zip mx.arr.data).all (fun p => decide (p.1 ≤ p.2))

theorem ordB_sound (mn mx : FArr) (h : ordB mn mx = true) : StatsOrdered mn mx := by
  unfold ordB at h
  simp only [Bool.and_eq_true, beq_iff_eq, List.all_eq_true, decide_eq_true_eq] at h
  obtain ⟨⟨h1, h2⟩, h3⟩ := h
  refine ⟨h1, ?_⟩
  intro k
  by_cases hk : k < mn.arr.data.length
  · have hk' : k < mx.arr.data.length := by omega
    have hz : (mn.arr.data[k], mx.arr.data[k]) ∈ mn.arr.data.zip mx.arr.data := by
      apply List.mem_of_getElem? (i := k)
      rw [List.getElem?_zip_eq_some]
      exact ⟨List.getElem?_eq_getElem hk, List.getElem?_eq_getElem hk'⟩
    have := h3 _ hz
    simp only [List.getD_eq_getElem?_getD, List.getElem?_eq_getElem hk, List.getElem?_eq_getElem hk', Option.getD_some]
    exact this
  · have hk' : ¬ k < mx.arr.data.length := by omega
    simp only [List.getD_eq_getElem?_getD]
    rw [List.getElem?_eq_none (by omega), List.getElem?_eq_none (by omega)]

/-- the statistics written back for a fixed range -/
theorem fixed_minmax_ok (sl : Bool) (bits : Nat) (sym : Bool) (fp : QParams) (mm : FArr × FArr)
    (h : fixedParams sl bits = some fp) (hm : minMaxFromParams bits sym fp = .ok mm) :
    StatsOrdered mm.1 mm.2 ∧ mm.1.pr.join mm.2.pr ≠ .f16 := by
  have key : ∀ (b : Nat), (b = 8 ∨ b = 16) → ∀ sl sym,
      (match fixedParams sl b with
       | none => true
       | some fp => match minMaxFromParams b sym fp with
          | .ok mm => ordB mm.1 mm.2 && decide (mm.1.pr.join mm.2.pr ≠ .f16)
          | .error _ => true) = true := by
    intro b hb sl sym
    rcases hb with rfl | rfl <;> cases sl <;> cases sym <;> decide +kernel
  have hb : bits = 8 ∨ bits = 16 := by
    unfold fixedParams at h
    simp only [] at h
    by_cases h8 : bits = 8
    · exact .inl h8
    · by_cases h16 : bits = 16
      · exact .inr h16
      · simp [h8, h16] at h
  have := key bits hb sl sym
  rw [h] at this
  simp only [hm, Bool.and_eq_true, decide_eq_true_eq] at this
  exact ⟨ordB_sound _ _ this.1, this.2⟩

/-! ## every entry of a statistics dictionary in force is ordered -/

/-- the caller's statistics: `min ≤ max` cell by cell, one shape, not float16 -/
def StatsOK (qsvs : Option Qsvs) : Prop :=
  ∀ n mn mx, Py.dictGet? (qsvs.getD []) n = some (some (mn, mx)) → StatsOrdered mn mx ∧ mn.pr.join mx.pr ≠ .f16

theorem statSrc_ok {rx : String → String → Bool} {env : Env} {st : Recipe.State} {qsvs : Option Qsvs}
    (hok : StatsOK qsvs) (n : String) (e : Qsv) (h : StatSrc rx env st qsvs n e) :
    ∀ mn mx, e = some (mn, mx) → StatsOrdered mn mx ∧ mn.pr.join mx.pr ≠ .f16 := by
  induction h with
  | given n e hg =>
    intro mn mx he
    subst he
    exact hok n mn mx hg
  | copied s sg j q k scope fn t0 t e _ _ _ _ _ _ _ _ _ ih => exact ih
  | fixed s sg j q k scope fn t a fp mm _ _ _ _ _ _ _ _ hfp hmm =>
    intro mn mx he
    cases he
    exact fixed_minmax_ok _ _ _ fp (mn, mx) hfp hmm

end ParamsWF
