import QProofs.LocalityMat
import QProofs.SharingProofs
/-!
# C19 — the buffer-sharing check of the stand-alone run

`SharingProofs.check_sound` says what a passing `checkBufferSharing` establishes; here is the converse
(`check_complete`), and the transfer of the established facts from the big model to the extracted
one, under the hypothesis that no constant buffer read by an operator of subgraph `j` is read by an
operator of another subgraph.
-/
open Graph Mat SharingProofs

namespace Locality

theorem forIn_unit_intro {α} (f : α → PUnit → PyM (ForInStep PUnit)) :
    ∀ (l : List α), (∀ a ∈ l, f a PUnit.unit = .ok (.yield PUnit.unit)) → forIn l PUnit.unit f = .ok PUnit.unit := by
  intro l
  induction l with
  | nil => intro _; rfl
  | cons x xs ih =>
    intro h
    simp only [List.forIn_cons, h x List.mem_cons_self, bind, Except.bind]
    exact ih (fun a ha => h a (List.mem_cons_of_mem _ ha))

theorem check_complete (m : Model) (res : List (String × CReq))
    (h1 : ∀ e ∈ bufferToTensors m, EntryOK m res e)
    (h2 : ∀ sg ∈ m.subgraphs, ∀ t ∈ sg.tensors, UnreadOK m res t) : checkBufferSharing m res = .ok () := by
  unfold checkBufferSharing
  rw [forIn_unit_intro]
  · simp only [bind, Except.bind]
    rw [forIn_unit_intro]
    · rfl
    · intro sg hsg
      rw [forIn_unit_intro]
      · rfl
      · intro t ht
        have hU := h2 sg hsg t ht
        by_cases hop : ((bufferToTensors m).flatMap (·.2)).contains t.name = true
        · rw [if_pos hop]; rfl
        · rw [if_neg hop]
          cases hb : m.buffers[t.buffer]? with
          | none => rfl
          | some o =>
            cases o with
            | none => rfl
            | some c =>
              simp only []
              rw [forIn_unit_intro]
              · rfl
              · intro n hn
                cases hsp : Py.dictGet? res n with
                | none => rfl
                | some sp =>
                  simp only []
                  have hx := hU (fun hmem => hop (List.contains_iff_mem.2 hmem)) ⟨c, hb⟩ n hn sp hsp
                  split
                  · rename_i hcond
                    exfalso
                    rw [List.any_eq_true] at hcond
                    obtain ⟨c', hc', hm⟩ := hcond
                    cases hh : c'.xfs.head? with
                    | none => rw [hh] at hm; cases hm
                    | some x =>
                      rw [hh] at hm
                      obtain ⟨g1, g2⟩ := hx c' hc' x hh
                      simp [g1, g2] at hm
                  · rfl
  · intro e he
    obtain ⟨b, l⟩ := e
    have hE := h1 _ he
    match l, hE with
    | [], _ => rfl
    | [only], hE =>
      simp only []
      cases hb : m.buffers[b]? with
      | none => rfl
      | some o =>
        cases o with
        | none => rfl
        | some c =>
          simp only []
          cases hp : Py.dictGet? res only with
          | none => rfl
          | some p =>
            have := (hE ⟨c, hb⟩).1 only rfl p hp
            simp only [this, bind, Except.bind]
            rfl
    | first :: second :: rest, hE =>
      simp only []
      cases hb : m.buffers[b]? with
      | none => rfl
      | some o =>
        cases o with
        | none => rfl
        | some c =>
          simp only []
          obtain ⟨fp, hfp, hall⟩ := (hE ⟨c, hb⟩).2 first (second :: rest) rfl (by simp)
          simp only [hfp, bind, Except.bind, pure, Except.pure]
          rw [forIn_unit_intro]
          intro n hn
          obtain ⟨tp, htp, hc⟩ := hall n hn
          simp only [htp, hc]
          rfl

/-! ## `bufferToTensors` through the list of operand occurrences -/

/-- the (buffer, name) pairs of the operand/result slots of the operators of one subgraph, in the order
    `bufferToTensors` visits them -/
def occSg (sg : Subgraph) : List (Nat × String) :=
  sg.ops.flatMap fun op =>
    ((op.outputs ++ op.inputs).filter (· != -1)).filterMap fun i =>
      (sg.tensors[i.toNat]?).map fun t => (t.buffer, t.name)

def occ (m : Model) : List (Nat × String) := m.subgraphs.flatMap occSg

/-- one step of `bufferToTensors` -/
def bstep (acc : List (Nat × List String)) (e : Nat × String) : List (Nat × List String) :=
  Py.dictSet acc e.1 ((Py.dictGet? acc e.1).getD [] ++ [e.2])

theorem foldl_flatMap' {α β γ} (f : γ → β → γ) (g : α → List β) : ∀ (l : List α) (init : γ),
    (l.flatMap g).foldl f init = l.foldl (fun acc x => (g x).foldl f acc) init := by
  intro l
  induction l with
  | nil => intro init; rfl
  | cons x xs ih => intro init; simp only [List.flatMap_cons, List.foldl_append, List.foldl_cons, ih]

theorem foldl_filterMap' {α β γ} (f : γ → β → γ) (g : α → Option β) : ∀ (l : List α) (init : γ),
    (l.filterMap g).foldl f init = l.foldl (fun acc x => match g x with | some b => f acc b | none => acc) init := by
  intro l
  induction l with
  | nil => intro init; rfl
  | cons x xs ih =>
    intro init
    cases hg : g x with
    | none => simp only [List.filterMap_cons, hg, List.foldl_cons, ih]
    | some b => simp only [List.filterMap_cons, hg, List.foldl_cons, ih]

theorem b2t_eq (m : Model) : bufferToTensors m = (occ m).foldl bstep [] := by
  unfold bufferToTensors occ
  rw [foldl_flatMap']
  congr 1
  funext acc sg
  unfold occSg
  rw [foldl_flatMap']
  congr 1
  funext acc op
  rw [foldl_filterMap']
  congr 1
  funext acc i
  cases sg.tensors[i.toNat]? <;> rfl

theorem dget_dset {ν} (d : List (Nat × ν)) (k n : Nat) (v : ν) :
    Py.dictGet? (Py.dictSet d k v) n = if k = n then some v else Py.dictGet? d n := by
  induction d with
  | nil => by_cases hkn : k = n <;> simp [Py.dictSet, Py.dictGet?, hkn]
  | cons e d ih =>
    obtain ⟨k', v'⟩ := e
    by_cases hk : k' = k
    · subst hk
      by_cases hkn : k' = n <;> simp [Py.dictSet, Py.dictGet?, hkn]
    · have hb : (k' == k) = false := by simpa using hk
      simp only [Py.dictSet, hb, Bool.false_eq_true, if_false]
      by_cases hk'n : k' = n
      · subst hk'n
        have hkn : ¬ k = k' := fun h => hk h.symm
        simp [Py.dictGet?, hkn]
      · have hb' : (k' == n) = false := by simpa using hk'n
        have e1 : ∀ (l : List (Nat × ν)), Py.dictGet? ((k', v') :: l) n = Py.dictGet? l n := by
          intro l; simp [Py.dictGet?, hb']
        rw [e1, e1, ih]

/-- the names recorded for buffer `b` -/
def namesAt (l : List (Nat × String)) (b : Nat) : List String := (l.filter (·.1 == b)).map (·.2)

theorem group_get : ∀ (l : List (Nat × String)) (acc : List (Nat × List String)) (b : Nat),
    Py.dictGet? (l.foldl bstep acc) b =
      if namesAt l b = [] then Py.dictGet? acc b else some ((Py.dictGet? acc b).getD [] ++ namesAt l b) := by
  intro l
  induction l with
  | nil => intro acc b; simp [namesAt]
  | cons e l ih =>
    intro acc b
    rw [List.foldl_cons, ih]
    unfold bstep
    rw [dget_dset]
    by_cases heb : e.1 = b
    · have h1 : namesAt (e :: l) b = e.2 :: namesAt l b := by simp [namesAt, heb]
      rw [h1, if_pos heb, heb]
      simp only [Option.getD_some, List.append_assoc, List.cons_append, List.nil_append]
      split <;> simp_all
    · have h1 : namesAt (e :: l) b = namesAt l b := by simp [namesAt, heb]
      rw [h1, if_neg heb]

theorem b2t_get (m : Model) (b : Nat) :
    Py.dictGet? (bufferToTensors m) b = if namesAt (occ m) b = [] then none else some (namesAt (occ m) b) := by
  rw [b2t_eq, group_get]
  simp [Py.dictGet?]

theorem mem_namesAt (l : List (Nat × String)) (b : Nat) (n : String) : n ∈ namesAt l b ↔ (b, n) ∈ l := by
  unfold namesAt
  simp only [List.mem_map, List.mem_filter, beq_iff_eq]
  constructor
  · rintro ⟨e, ⟨he, rfl⟩, rfl⟩; exact he
  · intro h; exact ⟨(b, n), ⟨h, rfl⟩, rfl⟩

theorem b2t_entry (m : Model) (b : Nat) (l : List String) :
    (b, l) ∈ bufferToTensors m ↔ l = namesAt (occ m) b ∧ l ≠ [] := by
  rw [b2t_mem_iff, b2t_get]
  by_cases h : namesAt (occ m) b = []
  · rw [if_pos h]
    constructor
    · intro h'; cases h'
    · rintro ⟨rfl, h2⟩; exact absurd h h2
  · rw [if_neg h]
    constructor
    · intro h'; cases h'; exact ⟨rfl, h⟩
    · rintro ⟨rfl, _⟩; rfl

theorem operands_mem (m : Model) (n : String) :
    n ∈ (bufferToTensors m).flatMap (·.2) ↔ ∃ b, (b, n) ∈ occ m := by
  rw [List.mem_flatMap]
  constructor
  · rintro ⟨⟨b, l⟩, he, hn⟩
    obtain ⟨rfl, _⟩ := (b2t_entry m b l).1 he
    exact ⟨b, (mem_namesAt _ _ _).1 hn⟩
  · rintro ⟨b, hb⟩
    have hn := (mem_namesAt _ _ _).2 hb
    refine ⟨(b, namesAt (occ m) b), (b2t_entry m b _).2 ⟨rfl, ?_⟩, hn⟩
    intro h; rw [h] at hn; cases hn

theorem occSg_name (sg : Subgraph) (e : Nat × String) (h : e ∈ occSg sg) :
    ∃ t ∈ sg.tensors, t.buffer = e.1 ∧ t.name = e.2 := by
  unfold occSg at h
  obtain ⟨op, _, h⟩ := List.mem_flatMap.1 h
  obtain ⟨i, _, h⟩ := List.mem_filterMap.1 h
  cases ht : sg.tensors[i.toNat]? with
  | none => rw [ht] at h; cases h
  | some t =>
    rw [ht] at h
    simp only [Option.map_some, Option.some.injEq] at h
    subst h
    exact ⟨t, List.mem_of_getElem? ht, rfl, rfl⟩

/-! ## the check of the extracted model -/

/-- no constant buffer read (as operand or result) by an operator of subgraph `j` is read by an operator
    of another subgraph -/
def NoCrossShare (m : Model) (j : Nat) (sg : Subgraph) : Prop :=
  ∀ k sgk, m.subgraphs[k]? = some sgk → k ≠ j → ∀ e ∈ occSg sgk, ∀ e' ∈ occSg sg,
    (∃ c, m.buffers[e.1]? = some (some c)) → e.1 ≠ e'.1

theorem occ_extract (m : Model) (j : Nat) (sg : Subgraph) : occ (extract m j sg) = occSg sg := by
  simp only [occ, extract, List.flatMap_cons, List.flatMap_nil, List.append_nil]

theorem namesAt_append (l1 l2 : List (Nat × String)) (b : Nat) :
    namesAt (l1 ++ l2) b = namesAt l1 b ++ namesAt l2 b := by
  simp only [namesAt, List.filter_append, List.map_append]

theorem namesAt_others (l : List Subgraph) (b : Nat) (h : ∀ sgk ∈ l, ∀ e ∈ occSg sgk, e.1 ≠ b) :
    namesAt (l.flatMap occSg) b = [] := by
  induction l with
  | nil => rfl
  | cons x xs ih =>
    rw [List.flatMap_cons, namesAt_append, ih (fun s hs => h s (List.mem_cons_of_mem _ hs)), List.append_nil]
    unfold namesAt
    rw [List.map_eq_nil_iff, List.filter_eq_nil_iff]
    intro e he
    simp only [beq_iff_eq]
    exact h x List.mem_cons_self e he

theorem subgraphs_split (m : Model) (j : Nat) (sg : Subgraph) (hsg : m.subgraphs[j]? = some sg) :
    ∃ pre post, m.subgraphs = pre ++ sg :: post ∧
      ∀ sgk ∈ pre ++ post, ∃ k, k ≠ j ∧ m.subgraphs[k]? = some sgk := by
  obtain ⟨pre, post, hsplit, hmem⟩ := zipIdx_split m.subgraphs j sg hsg
  refine ⟨pre.map (·.1), post.map (·.1), ?_, ?_⟩
  · have := congrArg (List.map (·.1)) hsplit
    simpa [List.zipIdx_map_fst] using this
  · intro sgk hk
    rw [← List.map_append] at hk
    obtain ⟨p, hp, rfl⟩ := List.mem_map.1 hk
    exact ⟨p.2, (hmem p hp).1, (hmem p hp).2⟩

/-- with unique names, an operand occurrence of a name of subgraph `j` is an occurrence in subgraph `j` -/
theorem occ_own (m : Model) (hnu : GenInstsOK.namesUnique m) (j : Nat) (sg : Subgraph)
    (hsg : m.subgraphs[j]? = some sg) (b : Nat) (n : String) (hn : nameIn sg n = true) (h : (b, n) ∈ occ m) :
    (b, n) ∈ occSg sg := by
  obtain ⟨sgk, hk, he⟩ := List.mem_flatMap.1 h
  obtain ⟨k, hk'⟩ := List.mem_iff_getElem?.1 hk
  by_cases hkj : k = j
  · subst hkj
    rw [hsg] at hk'
    cases hk'
    exact he
  · exfalso
    obtain ⟨t, ht, _, htn⟩ := occSg_name sgk _ he
    have h1 : nameIn sgk n = true := by
      simp only at htn
      rw [← htn]
      exact nameIn_of_mem sgk t ht
    have := names_disjoint m hnu j k sg sgk hsg hk' hkj n h1
    rw [hn] at this
    cases this

/-- **the buffer-sharing check of the extracted model follows from that of the whole model** when no
    constant buffer of subgraph `j` is shared with another subgraph -/
theorem check_local (m : Model) (res : List (String × CReq)) (hnu : GenInstsOK.namesUnique m) (j : Nat)
    (sg : Subgraph) (hsg : m.subgraphs[j]? = some sg) (hshare : NoCrossShare m j sg)
    (h : checkBufferSharing m res = .ok ()) :
    checkBufferSharing (extract m j sg) (keep (nameIn sg) res) = .ok () := by
  obtain ⟨S1, S2⟩ := check_sound m res h
  obtain ⟨pre, post, hsplit, hothers⟩ := subgraphs_split m j sg hsg
  have hmemsg : sg ∈ m.subgraphs := List.mem_of_getElem? hsg
  have hsub : ∀ e ∈ occSg sg, e ∈ occ m := fun e he => List.mem_flatMap.2 ⟨sg, hmemsg, he⟩
  have hin : ∀ e ∈ occSg sg, nameIn sg e.2 = true := by
    intro e he
    obtain ⟨t, ht, _, htn⟩ := occSg_name sg e he
    rw [← htn]
    exact nameIn_of_mem sg t ht
  have hget : ∀ n, nameIn sg n = true → Py.dictGet? (keep (nameIn sg) res) n = Py.dictGet? res n :=
    fun n hn => dictGet?_keep (nameIn sg) res n hn
  -- the names recorded for a constant buffer read in subgraph `j`
  have hK1 : ∀ b, (∃ c, m.buffers[b]? = some (some c)) → namesAt (occSg sg) b ≠ [] →
      namesAt (occ m) b = namesAt (occSg sg) b := by
    intro b hb hne
    obtain ⟨n0, hn0⟩ := List.exists_mem_of_ne_nil _ hne
    have hn0' := (mem_namesAt _ _ _).1 hn0
    have hoth : ∀ sgk ∈ pre ++ post, ∀ e ∈ occSg sgk, e.1 ≠ b := by
      intro sgk hk e he
      obtain ⟨k, hkj, hk'⟩ := hothers sgk hk
      intro heb
      exact hshare k sgk hk' hkj e he (b, n0) hn0' (heb ▸ hb) heb
    unfold occ
    rw [hsplit, List.flatMap_append, List.flatMap_cons, namesAt_append, namesAt_append,
      namesAt_others pre b (fun s hs => hoth s (List.mem_append_left _ hs)),
      namesAt_others post b (fun s hs => hoth s (List.mem_append_right _ hs)), List.nil_append, List.append_nil]
  refine check_complete _ _ ?_ ?_
  · -- first loop
    rintro ⟨b, l⟩ he hdata
    obtain ⟨rfl, hne⟩ := (b2t_entry _ b l).1 he
    rw [occ_extract] at hne ⊢
    have hdata' : ∃ c, m.buffers[b]? = some (some c) := hdata
    have hbig : (b, namesAt (occSg sg) b) ∈ bufferToTensors m :=
      (b2t_entry m b _).2 ⟨(hK1 b hdata' hne).symm, hne⟩
    obtain ⟨A, B⟩ := S1 _ hbig hdata'
    have hnames : ∀ n ∈ namesAt (occSg sg) b, nameIn sg n = true :=
      fun n hn => hin (b, n) ((mem_namesAt _ _ _).1 hn)
    refine ⟨?_, ?_⟩
    · intro only ho p hp
      have : nameIn sg only = true := hnames only (by simp only at ho; rw [ho]; exact List.mem_cons_self)
      rw [hget only this] at hp
      exact A only ho p hp
    · intro first rest ho hr
      obtain ⟨fp, hfp, hall⟩ := B first rest ho hr
      have hf : nameIn sg first = true := hnames first (by simp only at ho; rw [ho]; exact List.mem_cons_self)
      refine ⟨fp, by rw [hget first hf]; exact hfp, ?_⟩
      intro n hn
      obtain ⟨tp, htp, hc⟩ := hall n hn
      have hnn : nameIn sg n = true :=
        hnames n (by simp only at ho; rw [ho]; exact List.mem_cons_of_mem _ hn)
      exact ⟨tp, by rw [hget n hnn]; exact htp, hc⟩
  · -- second loop
    intro sg' hsg' t ht hun hdata n hn sp hsp
    have hsg'' : sg' = sg := by simpa [extract] using hsg'
    subst hsg''
    have hdata' : ∃ c, m.buffers[t.buffer]? = some (some c) := hdata
    have hun' : t.name ∉ (bufferToTensors m).flatMap (·.2) := by
      intro hmem
      apply hun
      obtain ⟨b, hb⟩ := (operands_mem m t.name).1 hmem
      refine (operands_mem _ t.name).2 ⟨b, ?_⟩
      rw [occ_extract]
      exact occ_own m hnu j sg' hsg b t.name (nameIn_of_mem sg' t ht) hb
    rw [b2t_get, occ_extract] at hn
    by_cases hnil : namesAt (occSg sg') t.buffer = []
    · rw [if_pos hnil] at hn; cases hn
    · rw [if_neg hnil] at hn
      simp only [Option.getD_some] at hn
      have hn' : n ∈ (Py.dictGet? (bufferToTensors m) t.buffer).getD [] := by
        rw [b2t_get, hK1 t.buffer hdata' hnil, if_neg hnil]
        exact hn
      have hnn : nameIn sg' n = true := hin (t.buffer, n) ((mem_namesAt _ _ _).1 hn)
      rw [hget n hnn] at hsp
      exact S2 sg' hmemsg t ht hun' hdata' n hn' sp hsp

/-! ## `checkUnreadOwn` (repair D35) -/

/-- the request rewrites the constant (consumer side) -/
def rewritten (own : CReq) : Bool :=
  (own.consumers.getD []).any fun c =>
    match c.xfs.head? with
    | some x => x == Xf.quantTensor || x == Xf.addDequant
    | none => false

/-- what `checkUnreadOwn` establishes for one tensor -/
def OwnOK (m : Model) (res : List (String × CReq)) (t : Tensor) : Prop :=
  ((bufferToTensors m).flatMap (·.2)).contains t.name = false → (∃ c, m.buffers[t.buffer]? = some (some c)) →
    ∀ own, Py.dictGet? res t.name = some own →
      (decide (1 < (m.subgraphs.flatMap (·.tensors)).countP (fun u => u.buffer == t.buffer)) && rewritten own) = false

theorem own_sound (m : Model) (res : List (String × CReq)) (h : checkUnreadOwn m res = .ok ()) :
    ∀ sg ∈ m.subgraphs, ∀ t ∈ sg.tensors, OwnOK m res t := by
  unfold checkUnreadOwn at h
  simp only [] at h
  obtain ⟨u0, h, _⟩ := GraphInv.bind_ok _ _ _ h
  refine forIn_unit_all _ (fun sg : Subgraph => ∀ t ∈ sg.tensors, OwnOK m res t) ?_ _ _ h
  intro sg s hsg
  simp only [bind, Except.bind] at hsg
  split at hsg
  · cases hsg
  · rename_i u hts
    simp only [pure, Except.pure, Except.ok.injEq] at hsg
    refine ⟨hsg.symm, ?_⟩
    refine forIn_unit_all _ (OwnOK m res) ?_ _ _ hts
    intro t st ht
    split at ht
    · rename_i hop
      simp only [pure, Except.pure, Except.ok.injEq] at ht
      refine ⟨ht.symm, ?_⟩
      intro hun
      rw [hop] at hun
      cases hun
    · split at ht
      · rename_i cdat hbuf
        split at ht
        · rename_i hown
          simp only [pure, Except.pure, Except.ok.injEq] at ht
          refine ⟨ht.symm, ?_⟩
          intro _ _ own hown'
          rw [hown] at hown'
          cases hown'
        · rename_i own hown
          split at ht
          · cases ht
          · rename_i hcond
            simp only [pure, Except.pure, Except.ok.injEq] at ht
            refine ⟨ht.symm, ?_⟩
            intro _ _ own' hown'
            rw [hown] at hown'
            cases hown'
            have : ¬ (decide (1 < (m.subgraphs.flatMap (·.tensors)).countP (fun u => u.buffer == t.buffer)) &&
                rewritten own) = true := hcond
            simpa using this
      · rename_i hbuf
        simp only [pure, Except.pure, Except.ok.injEq] at ht
        refine ⟨ht.symm, ?_⟩
        intro _ hd
        obtain ⟨c, hc⟩ := hd
        exact absurd hc (hbuf c)

theorem own_complete (m : Model) (res : List (String × CReq))
    (h : ∀ sg ∈ m.subgraphs, ∀ t ∈ sg.tensors, OwnOK m res t) : checkUnreadOwn m res = .ok () := by
  unfold checkUnreadOwn
  simp only []
  rw [forIn_unit_intro]
  · rfl
  · intro sg hsg
    rw [forIn_unit_intro]
    · rfl
    · intro t ht
      have hU := h sg hsg t ht
      by_cases hop : ((bufferToTensors m).flatMap (·.2)).contains t.name = true
      · rw [if_pos hop]; rfl
      · rw [if_neg hop]
        cases hb : m.buffers[t.buffer]? with
        | none => rfl
        | some o =>
          cases o with
          | none => rfl
          | some c =>
            simp only []
            cases hown : Py.dictGet? res t.name with
            | none => rfl
            | some own =>
              simp only []
              have hx := hU (by simpa using hop) ⟨c, hb⟩ own hown
              split
              · rename_i hcond
                have : (decide (1 < (m.subgraphs.flatMap (·.tensors)).countP (fun u => u.buffer == t.buffer)) &&
                    rewritten own) = true := hcond
                rw [hx] at this
                cases this
              · rfl

/-- `checkUnreadOwn` of the extracted model follows from that of the whole model (unique names) -/
theorem own_local (m : Model) (res : List (String × CReq)) (hnu : GenInstsOK.namesUnique m) (j : Nat)
    (sg : Subgraph) (hsg : m.subgraphs[j]? = some sg) (h : checkUnreadOwn m res = .ok ()) :
    checkUnreadOwn (extract m j sg) (keep (nameIn sg) res) = .ok () := by
  have S := own_sound m res h
  obtain ⟨pre, post, hsplit, _⟩ := subgraphs_split m j sg hsg
  refine own_complete _ _ ?_
  intro sg' hsg' t ht hun hdata own hown
  have hsg'' : sg' = sg := by simpa [extract] using hsg'
  subst hsg''
  have hmemsg : sg' ∈ m.subgraphs := List.mem_of_getElem? hsg
  have htn : nameIn sg' t.name = true := nameIn_of_mem sg' t ht
  rw [dictGet?_keep (nameIn sg') res t.name htn] at hown
  have hun' : ((bufferToTensors m).flatMap (·.2)).contains t.name = false := by
    cases hc : ((bufferToTensors m).flatMap (·.2)).contains t.name with
    | false => rfl
    | true =>
      exfalso
      obtain ⟨b, hb⟩ := (operands_mem m t.name).1 (List.contains_iff_mem.1 hc)
      have : t.name ∈ (bufferToTensors (extract m j sg')).flatMap (·.2) := by
        refine (operands_mem _ t.name).2 ⟨b, ?_⟩
        rw [occ_extract]
        exact occ_own m hnu j sg' hsg b t.name htn hb
      rw [List.contains_iff_mem.2 this] at hun
      cases hun
  have hbig := S sg' hmemsg t ht hun' hdata own hown
  cases hr : rewritten own with
  | false => simp
  | true =>
    rw [hr, Bool.and_true] at hbig
    rw [Bool.and_true]
    have hle : ((extract m j sg').subgraphs.flatMap (·.tensors)).countP (fun u => u.buffer == t.buffer) ≤
        (m.subgraphs.flatMap (·.tensors)).countP (fun u => u.buffer == t.buffer) := by
      rw [hsplit]
      simp only [extract, List.flatMap_cons, List.flatMap_nil, List.append_nil, List.flatMap_append,
        List.countP_append]
      omega
    simp only [decide_eq_false_iff_not] at hbig ⊢
    omega

/-- **`Mat.generate` is local** when no constant buffer of subgraph `j` is shared with another subgraph -/
theorem generate_local_noShare (rx : String → String → Bool) (env : Env) (st : Recipe.State) (qsvs : Option Qsvs)
    (j : Nat) (sg : Subgraph) (hsg : env.model.subgraphs[j]? = some sg) (hshare : NoCrossShare env.model j sg)
    (reqs : List CReq) (h : Mat.generate rx env st qsvs = .ok reqs) :
    Mat.generate rx (extractEnv env j sg) st qsvs = .ok (restrictCReqs reqs sg) := by
  obtain ⟨res, _, hchk, hchk2, _, heq⟩ := generate_local_core rx env st qsvs j sg hsg reqs h
  have hnu := (Pipe.generate_ok rx env st qsvs reqs h).1
  rw [heq, check_local env.model res hnu j sg hsg hshare hchk, own_local env.model res hnu j sg hsg hchk2]

/-- executable form of `NoCrossShare` -/
def noCrossShareB (m : Model) (j : Nat) (sg : Subgraph) : Bool :=
  m.subgraphs.zipIdx.all fun p =>
    p.2 == j || (occSg p.1).all fun e =>
      (match m.buffers[e.1]? with | some (some _) => false | _ => true) ||
        (occSg sg).all fun e' => e.1 != e'.1

theorem noCrossShare_of_B (m : Model) (j : Nat) (sg : Subgraph) (h : noCrossShareB m j sg = true) :
    NoCrossShare m j sg := by
  intro k sgk hk hkj e he e' he' hdata
  unfold noCrossShareB at h
  rw [List.all_eq_true] at h
  have h1 := h (sgk, k) (List.mem_zipIdx_iff_getElem?.2 hk)
  simp only [Bool.or_eq_true, beq_iff_eq] at h1
  rcases h1 with h1 | h1
  · exact absurd h1 hkj
  · rw [List.all_eq_true] at h1
    have h2 := h1 e he
    simp only [Bool.or_eq_true] at h2
    obtain ⟨c, hc⟩ := hdata
    rcases h2 with h2 | h2
    · rw [hc] at h2; cases h2
    · rw [List.all_eq_true] at h2
      have h3 := h2 e' he'
      simpa using h3

end Locality
